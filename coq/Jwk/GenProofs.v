(* C11: proofs about Jwk/Gen.v (jose_jwk_gen). *)
From JoseV Require Import Jwk.Gen Gen.Tables Gen.Consts Codec.B64Proofs Codec.B64JsonProofs Crypto.BigNum Crypto.Ec.
From Coq Require Import Lia ZifyBool ZifyN ZifyNat.
Local Open Scope N_scope.

(* ------------------------------------------------------------------------------------------------ *)
(* jansson accessors at the level of [lookup] *)

Definition nodup_keys (j : json) : Prop :=
  match j with JObj m => NoDup (akeys m) | _ => True end.

Lemma jset_obj k v j j' : jset k v j = Some j' -> is_object j = true /\ is_object j' = true.
Proof. destruct j; simpl; try discriminate. intro H; inversion H. auto. Qed.

Lemma jset_some k v j : is_object j = true -> exists j', jset k v j = Some j'.
Proof. destruct j; simpl; try discriminate. eauto. Qed.

Lemma lookup_jset_same k v j j' : jset k v j = Some j' -> lookup k j' = Some v.
Proof. destruct j; simpl; try discriminate. intro H; inversion H; simpl. apply alookup_aset_same. Qed.

Lemma lookup_jset_other k k' v j j' : jset k v j = Some j' -> k <> k' -> lookup k' j' = lookup k' j.
Proof. destruct j; simpl; try discriminate. intros H N; inversion H; simpl. apply alookup_aset_other; exact N. Qed.

Lemma jset_nodup k v j j' : jset k v j = Some j' -> nodup_keys j -> nodup_keys j'.
Proof. destruct j; simpl; try discriminate. intros H ND; inversion H; simpl. apply aset_nodup; exact ND. Qed.

Lemma jdel_obj k j j' : jdel k j = Some j' -> is_object j = true /\ is_object j' = true.
Proof. destruct j; simpl; try discriminate. destruct (alookup k m); try discriminate. intro H; inversion H. auto. Qed.

Lemma jdel_some k j v : lookup k j = Some v -> exists j', jdel k j = Some j'.
Proof. destruct j; simpl; try discriminate. intros ->. eauto. Qed.

Lemma lookup_jdel_same k j j' : jdel k j = Some j' -> nodup_keys j -> lookup k j' = None.
Proof.
  destruct j; simpl; try discriminate. destruct (alookup k m); try discriminate.
  intros H ND; inversion H; simpl. apply alookup_adel_same; exact ND.
Qed.

Lemma lookup_jdel_other k k' j j' : jdel k j = Some j' -> k <> k' -> lookup k' j' = lookup k' j.
Proof.
  destruct j; simpl; try discriminate. destruct (alookup k m); try discriminate.
  intros H N; inversion H; simpl. apply alookup_adel_other; exact N.
Qed.

Lemma jdel_nodup k j j' : jdel k j = Some j' -> nodup_keys j -> nodup_keys j'.
Proof.
  destruct j; simpl; try discriminate. destruct (alookup k m); try discriminate.
  intros H ND; inversion H; simpl. apply adel_nodup; exact ND.
Qed.

(* the unpack helpers only look at [lookup] (on objects) *)
Lemma g_opt_s_lookup k j :
  is_object j = true ->
  g_opt_s k j = match lookup k j with
                | None => GAbsent
                | Some (JStr s) => GStr (cstr s)
                | Some _ => GBad
                end.
Proof. destruct j; simpl; try discriminate. reflexivity. Qed.

Lemma g_opt_s_congr k j j' :
  is_object j = true -> is_object j' = true -> lookup k j' = lookup k j -> g_opt_s k j' = g_opt_s k j.
Proof. intros O O' E. rewrite !g_opt_s_lookup by assumption. rewrite E. reflexivity. Qed.

Lemma g_req_s_congr k j j' :
  is_object j = true -> is_object j' = true -> lookup k j' = lookup k j -> g_req_s k j' = g_req_s k j.
Proof. intros O O' E. unfold g_req_s. rewrite (g_opt_s_congr k j j') by assumption. reflexivity. Qed.

Lemma g_req_s_obj k j s : g_req_s k j = Some s -> is_object j = true.
Proof. unfold g_req_s, g_opt_s. destruct j; try discriminate. reflexivity. Qed.

Lemma g_req_s_str k j s : g_req_s k j = Some s -> exists r, lookup k j = Some (JStr r) /\ s = cstr r.
Proof.
  unfold g_req_s, g_opt_s. destruct j; try discriminate. simpl.
  destruct (alookup k m) as [[]|]; try discriminate. intro H; inversion H. eauto.
Qed.

Lemma g_has_congr k j j' : lookup k j' = lookup k j -> g_has k j' = g_has k j.
Proof. unfold g_has. intros ->. reflexivity. Qed.

Lemma jequal_str i s : jequal i (JStr s) = true -> i = JStr s.
Proof. destruct i; simpl; try discriminate. intro H. apply bytes_eqb_eq in H. subst. reflexivity. Qed.

Lemma bytes_eqb_neq a b : bytes_eqb a b = false <-> a <> b.
Proof.
  split.
  - intros H E. subst. rewrite bytes_eqb_refl in H. discriminate.
  - intro N. destruct (bytes_eqb a b) eqn:E; [apply bytes_eqb_eq in E; contradiction|reflexivity].
Qed.

Lemma bytes_eqb_sym a b : bytes_eqb a b = bytes_eqb b a.
Proof.
  destruct (bytes_eqb a b) eqn:E.
  - apply bytes_eqb_eq in E. subst. symmetry. apply bytes_eqb_refl.
  - symmetry. apply bytes_eqb_neq. apply bytes_eqb_neq in E. congruence.
Qed.

(* ------------------------------------------------------------------------------------------------ *)
(* copy_val *)

Definition str_members (names : list bytes) (from : json) : Prop :=
  forall n, In n names -> forall v, lookup n from = Some v -> exists s, v = JStr s.

Lemma copy_val_spec from names : forall into j,
  g_copy_val from into names = Some j ->
  is_object into = true ->
  str_members names from ->
  is_object j = true /\
  (nodup_keys into -> nodup_keys j) /\
  (forall n, In n names -> lookup n j = lookup n from /\ lookup n from <> None) /\
  (forall k, ~ In k names -> lookup k j = lookup k into) /\
  (forall n, In n names -> forall i, lookup n into = Some i -> lookup n from = Some i).
Proof.
  induction names as [|n r IH]; simpl; intros into j H O SM.
  - inversion H; subst. split; [exact O|]. split; [auto|]. split; [intros ? []|]. split; [auto|intros ? []].
  - destruct (lookup n from) as [f|] eqn:Ef; [|discriminate].
    assert (SMr : str_members r from) by (intros x Hx; apply SM; right; exact Hx).
    destruct (SM n (or_introl eq_refl) f Ef) as [s ->].
    destruct (lookup n into) as [i|] eqn:Ei.
    + destruct (jequal i (JStr s)) eqn:Q; [|discriminate].
      apply jequal_str in Q. subst i.
      destruct (IH into j H O SMr) as (Oj & ND & In1 & Out & Pre).
      split; [exact Oj|]. split; [exact ND|]. split; [|split].
      * intros x [<-|Hr]; [|apply In1; exact Hr].
        destruct (in_dec bytes_eq_dec n r) as [Hr|Hr]; [apply In1; exact Hr|].
        rewrite Out by exact Hr. rewrite Ei, Ef. split; [reflexivity|discriminate].
      * intros k Hk. apply Out. intro F. apply Hk. right. exact F.
      * intros x [<-|Hx] i Hi; [rewrite Ei in Hi; inversion Hi; subst; exact Ef|apply Pre with (1 := Hx); exact Hi].
    + destruct (jset n (JStr s) into) as [j1|] eqn:Es; [|discriminate].
      destruct (jset_obj _ _ _ _ Es) as [_ O1].
      destruct (IH j1 j H O1 SMr) as (Oj & ND & In1 & Out & Pre).
      split; [exact Oj|]. split; [|split; [|split]].
      * intro NDi. apply ND. eapply jset_nodup; eauto.
      * intros x [<-|Hr]; [|apply In1; exact Hr].
        destruct (in_dec bytes_eq_dec n r) as [Hr|Hr]; [apply In1; exact Hr|].
        rewrite Out by exact Hr. rewrite (lookup_jset_same _ _ _ _ Es), Ef. split; [reflexivity|discriminate].
      * intros k Hk. rewrite Out by (intro F; apply Hk; right; exact F).
        apply (lookup_jset_other _ _ _ _ _ Es). intro E. apply Hk. left. exact E.
      * intros x [<-|Hx] i Hi; [rewrite Ei in Hi; discriminate|].
        destruct (bytes_eq_dec n x) as [<-|N]; [rewrite Ei in Hi; discriminate|].
        apply Pre with (1 := Hx). rewrite (lookup_jset_other _ _ _ _ _ Es N). exact Hi.
Qed.

(* ------------------------------------------------------------------------------------------------ *)
(* PREP hooks *)

Lemma g_set2_spec k1 v1 k2 v2 j j' :
  g_set2 k1 v1 k2 v2 j = Some j' -> k1 <> k2 ->
  is_object j = true /\ is_object j' = true /\ (nodup_keys j -> nodup_keys j') /\
  lookup k1 j' = Some v1 /\ lookup k2 j' = Some v2 /\
  (forall k, k <> k1 -> k <> k2 -> lookup k j' = lookup k j).
Proof.
  unfold g_set2. destruct (jset k1 v1 j) as [j1|] eqn:E1; [|discriminate]. intros E2 N.
  destruct (jset_obj _ _ _ _ E1) as [O O1]. destruct (jset_obj _ _ _ _ E2) as [_ O2].
  split; [exact O|]. split; [exact O2|]. split; [|split; [|split]].
  - intro ND. eapply jset_nodup; [exact E2|]. eapply jset_nodup; eauto.
  - rewrite (lookup_jset_other _ _ _ _ _ E2) by congruence. eapply lookup_jset_same; eauto.
  - eapply lookup_jset_same; eauto.
  - intros k N1 N2. rewrite (lookup_jset_other _ _ _ _ _ E2) by congruence.
    apply (lookup_jset_other _ _ _ _ _ E1). congruence.
Qed.

Lemma g_set2_some k1 v1 k2 v2 j : is_object j = true -> exists j', g_set2 k1 v1 k2 v2 j = Some j'.
Proof.
  intro O. unfold g_set2. destruct (jset_some k1 v1 j O) as [j1 E1]. rewrite E1.
  destruct (jset_obj _ _ _ _ E1) as [_ O1]. apply jset_some. exact O1.
Qed.

Definition g_names_of (h : g_prep) : list bytes :=
  match h with
  | GPOct t => map fst t
  | GPEc t => map fst t
  | GPExch n => [n]
  | GPRsa ns => ns
  end.

Lemma alookup_some_in {A} k (m : list (bytes * A)) v : alookup k m = Some v -> In k (map fst m).
Proof.
  intro H. destruct (in_dec bytes_eq_dec k (map fst m)) as [I|I]; [exact I|].
  apply (alookup_none_notin k m) in I. congruence.
Qed.

Lemma alookup_in_pair {A} k (m : list (bytes * A)) v : alookup k m = Some v -> In (k, v) m.
Proof.
  induction m as [|[k' v'] m IH]; simpl; [discriminate|].
  destruct (bytes_eqb k k') eqn:E.
  - apply bytes_eqb_eq in E. subst. intro H; inversion H. left. reflexivity.
  - intro H. right. apply IH. exact H.
Qed.

Lemma existsb_eqb_in a l : existsb (bytes_eqb a) l = true <-> In a l.
Proof.
  rewrite existsb_exists. split.
  - intros (x & I & E). apply bytes_eqb_eq in E. subst. exact I.
  - intro I. exists a. split; [exact I|apply bytes_eqb_refl].
Qed.

Lemma handles_in_names h a : g_handles_alg h a = true -> In a (g_names_of h).
Proof.
  destruct h as [t|t|n|ns]; simpl.
  - unfold g_alg2len. destruct (alookup a t) eqn:E; [|discriminate]. intros _. eapply alookup_some_in; eauto.
  - destruct (alookup a t) eqn:E; [|discriminate]. intros _. eapply alookup_some_in; eauto.
  - intro H. apply bytes_eqb_eq in H. left. congruence.
  - apply existsb_eqb_in.
Qed.

Definition prep_touched : list bytes := [g_kty; g_bytes; g_crv].

Lemma prep_execute_frame h jwk j :
  g_prep_execute h jwk = Some j ->
  is_object jwk = true /\ is_object j = true /\ (nodup_keys jwk -> nodup_keys j) /\
  (forall k, ~ In k prep_touched -> lookup k j = lookup k jwk).
Proof.
  assert (T : forall k, ~ In k prep_touched -> k <> g_kty /\ k <> g_bytes /\ k <> g_crv).
  { intros k H. unfold prep_touched in H. simpl in H. repeat split; intro E; apply H; auto. }
  destruct h as [t|t|n|ns]; simpl.
  - destruct (g_req_s g_alg jwk) as [a|]; [|discriminate].
    destruct (g_opt_s g_kty jwk) eqn:K; destruct (g_opt_I g_bytes 0 jwk) as [byt|]; try discriminate;
      destruct (g_alg2len t a =? 0)%Z; try discriminate;
      destruct (g_has g_bytes jwk && negb (byt =? g_alg2len t a)%Z); try discriminate;
      try (destruct (g_other (GStr s) g_oct); try discriminate);
      intro H; apply g_set2_spec in H; try discriminate;
      destruct H as (O & O' & ND & _ & _ & F); (split; [exact O|]; split; [exact O'|]; split; [exact ND|]);
      intros k Hk; destruct (T k Hk) as (N1 & N2 & N3); apply F; assumption.
  - destruct (g_req_s g_alg jwk) as [a|]; [|discriminate].
    destruct (g_opt_s g_kty jwk) eqn:K; destruct (g_opt_s g_crv jwk) eqn:C; try discriminate;
      destruct (alookup a t) as [grp|]; try discriminate;
      try (destruct (g_other (GStr s) g_EC); try discriminate);
      try (destruct (g_other (GStr s0) grp); try discriminate);
      try (destruct (g_other (GStr s) grp); try discriminate);
      intro H; apply g_set2_spec in H; try discriminate;
      destruct H as (O & O' & ND & _ & _ & F); (split; [exact O|]; split; [exact O'|]; split; [exact ND|]);
      intros k Hk; destruct (T k Hk) as (N1 & N2 & N3); apply F; assumption.
  - destruct (g_req_s g_alg jwk) as [a|]; [|discriminate].
    destruct (g_opt_s g_crv jwk) eqn:C; destruct (g_opt_s g_kty jwk) eqn:K; try discriminate;
      destruct (negb (bytes_eqb a n)); try discriminate;
      try (destruct (g_other (GStr s) g_EC); try discriminate);
      try (destruct (g_other (GStr s0) g_EC); try discriminate);
      intro H; apply g_set2_spec in H; try discriminate;
      destruct H as (O & O' & ND & _ & _ & F); (split; [exact O|]; split; [exact O'|]; split; [exact ND|]);
      intros k Hk; destruct (T k Hk) as (N1 & N2 & N3); apply F; assumption.
  - destruct (negb (g_prep_handles (GPRsa ns) jwk)); [discriminate|].
    destruct (g_opt_s g_kty jwk) eqn:K; try discriminate;
      try (unfold g_other; destruct (bytes_eqb s g_RSA); simpl; try discriminate);
      intro H; destruct (jset_obj _ _ _ _ H) as [O O'];
      (split; [exact O|]; split; [exact O'|]; split; [intro ND; eapply jset_nodup; eauto|]);
      intros k Hk; destruct (T k Hk) as (N1 & N2 & N3); apply (lookup_jset_other _ _ _ _ _ H); congruence.
Qed.

Lemma prep_execute_keeps_alg h jwk j :
  g_prep_execute h jwk = Some j -> g_req_s g_alg j = g_req_s g_alg jwk.
Proof.
  intro H. destruct (prep_execute_frame _ _ _ H) as (O & O' & _ & F).
  apply g_req_s_congr; try assumption. apply F.
  unfold prep_touched. simpl. intros [E|[E|[E|[]]]]; discriminate.
Qed.

(* hooks that do not handle the alg leave the template alone *)
Lemma prep_list_none hs jwk :
  (forall h, In h hs -> g_prep_handles h jwk = false) -> gen_prep_list hs jwk = Some jwk.
Proof.
  induction hs as [|h r IH]; simpl; intro H; [reflexivity|].
  rewrite (H h (or_introl eq_refl)). apply IH. intros x Hx. apply H. right. exact Hx.
Qed.

Lemma nodup_app_r {A} (l1 l2 : list A) : NoDup (l1 ++ l2) -> NoDup l2.
Proof. induction l1 as [|x l1 IH]; simpl; intro H; [exact H|]. inversion H; subst. apply IH. assumption. Qed.

(* the name sets of the hooks are pairwise disjoint: at most one hook handles a template *)
Lemma prep_list_dispatch hs : NoDup (flat_map g_names_of hs) -> forall jwk a,
  g_req_s g_alg jwk = Some a ->
  gen_prep_list hs jwk = match find (fun h => g_handles_alg h a) hs with
                         | Some h => g_prep_execute h jwk
                         | None => Some jwk
                         end.
Proof.
  induction hs as [|h r IH]; simpl; intros ND jwk a A; [reflexivity|].
  pose proof (nodup_app_r _ _ ND) as NDr.
  unfold g_prep_handles at 1. rewrite A.
  destruct (g_handles_alg h a) eqn:Hh.
  - destruct (g_prep_execute h jwk) as [j|] eqn:E; [|reflexivity].
    apply prep_list_none. intros x Hx. unfold g_prep_handles.
    rewrite (prep_execute_keeps_alg _ _ _ E), A.
    destruct (g_handles_alg x a) eqn:Hx'; [|reflexivity]. exfalso.
    apply handles_in_names in Hh. apply handles_in_names in Hx'.
    clear - ND Hh Hx' Hx.
    assert (I : In a (flat_map g_names_of r)) by (apply in_flat_map; eauto).
    revert ND Hh I. generalize (g_names_of h) (flat_map g_names_of r). intros l1 l2 ND.
    induction l1 as [|y l1 IHl]; simpl in *; [tauto|].
    inversion ND as [|? ? Hn ND']; subst. intros [->|Hy] I; [apply Hn; apply in_or_app; right; exact I|apply IHl; assumption].
  - apply IH; assumption.
Qed.

Fixpoint nodupb (l : list bytes) : bool :=
  match l with
  | [] => true
  | x :: r => negb (existsb (bytes_eqb x) r) && nodupb r
  end.

Lemma nodupb_spec l : nodupb l = true -> NoDup l.
Proof.
  induction l as [|x r IH]; simpl; intro H; [constructor|].
  apply andb_true_iff in H as [H1 H2]. constructor; [|apply IH; exact H2].
  intro I. apply existsb_eqb_in in I. rewrite I in H1. discriminate.
Qed.

Lemma prep_names_nodup : NoDup (flat_map g_names_of g_prep_hooks).
Proof. apply nodupb_spec. vm_compute. reflexivity. Qed.

(* every name a PREP hook handles is a registered algorithm *)
Lemma prep_names_registered : forall a, In a (flat_map g_names_of g_prep_hooks) -> In a (map a_name alg_registry).
Proof.
  assert (H : forallb (fun a => existsb (bytes_eqb a) (map a_name alg_registry)) (flat_map g_names_of g_prep_hooks) = true)
    by (vm_compute; reflexivity).
  intros a I. rewrite forallb_forall in H. apply existsb_eqb_in. apply H. exact I.
Qed.

Definition g_handler (a : bytes) : option g_prep := find (fun h => g_handles_alg h a) g_prep_hooks.

Theorem gen_prep_spec jwk :
  gen_prep jwk = match g_req_s g_alg jwk with
                 | None => Some jwk
                 | Some a => match g_handler a with
                             | Some h => g_prep_execute h jwk
                             | None => Some jwk
                             end
                 end.
Proof.
  unfold gen_prep, g_handler. destruct (g_req_s g_alg jwk) as [a|] eqn:A.
  - apply prep_list_dispatch; [exact prep_names_nodup|exact A].
  - apply prep_list_none. intros h _. unfold g_prep_handles. rewrite A. reflexivity.
Qed.

Lemma gen_prep_frame jwk j :
  gen_prep jwk = Some j ->
  (is_object jwk = true -> is_object j = true) /\ (nodup_keys jwk -> nodup_keys j) /\
  (forall k, ~ In k prep_touched -> lookup k j = lookup k jwk).
Proof.
  rewrite gen_prep_spec. destruct (g_req_s g_alg jwk) as [a|].
  - destruct (g_handler a) as [h|].
    + intro H. destruct (prep_execute_frame _ _ _ H) as (O & O' & ND & F). auto.
    + intro H; inversion H; subst. auto.
  - intro H; inversion H; subst. auto.
Qed.

(* ------------------------------------------------------------------------------------------------ *)
(* numbers <-> octets *)

Lemma g_be_length len x : length (g_be len x) = len.
Proof. revert x; induction len as [|k IH]; intro x; simpl; [reflexivity|]. rewrite app_length, IH. simpl. lia. Qed.

Lemma g_be_wf len x : wf_bytes (g_be len x).
Proof.
  revert x; induction len as [|k IH]; intro x; simpl; [constructor|].
  apply Forall_app. split; [apply IH|]. constructor; [|constructor].
  unfold wf_byte. apply N.mod_lt. discriminate.
Qed.

Lemma g_os2ip_acc_app a b acc : g_os2ip_acc (a ++ b) acc = g_os2ip_acc b (g_os2ip_acc a acc).
Proof. revert acc; induction a as [|c a IH]; intro acc; simpl; [reflexivity|apply IH]. Qed.

Lemma g_os2ip_be len : forall x acc, g_os2ip_acc (g_be len x) acc = acc * 256 ^ N.of_nat len + x mod 256 ^ N.of_nat len.
Proof.
  induction len as [|k IH]; intros x acc.
  - simpl. rewrite N.mod_1_r. lia.
  - cbn [g_be]. rewrite g_os2ip_acc_app, IH. cbn [g_os2ip_acc].
    replace (N.of_nat (S k)) with (N.succ (N.of_nat k)) by lia.
    rewrite N.pow_succ_r'. set (P := 256 ^ N.of_nat k).
    rewrite (N.mod_mul_r x 256 P) by (try discriminate; subst P; apply N.pow_nonzero; discriminate).
    lia.
Qed.

Lemma g_os2ip_be_small len x : x < 256 ^ N.of_nat len -> g_os2ip (g_be len x) = x.
Proof. intro H. unfold g_os2ip. rewrite g_os2ip_be. rewrite N.mod_small by exact H. lia. Qed.

Lemma g_num_bytes_bound x : x < 256 ^ g_num_bytes x.
Proof.
  unfold g_num_bytes. eapply N.lt_le_trans; [apply N.size_gt|].
  replace 256 with (2 ^ 8) by reflexivity. rewrite <- N.pow_mul_r.
  apply N.pow_le_mono_r; [discriminate|].
  pose proof (N.div_mod (N.size x + 7) 8). pose proof (N.mod_lt (N.size x + 7) 8). lia.
Qed.

Definition g_width (x len : N) : N := if len =? 0 then g_num_bytes x else len.

Lemma g_bn_encode_json_inv x len j :
  g_bn_encode_json x len = Some j ->
  x <> 0 /\ g_num_bytes x <= g_width x len /\
  j = JStr (enc (g_be (N.to_nat (g_width x len)) x)).
Proof.
  unfold g_bn_encode_json. fold (g_width x len).
  destruct (g_width x len <? g_num_bytes x) eqn:L; [discriminate|].
  destruct (x =? 0) eqn:Z; [discriminate|].
  rewrite b64_enc_spec by apply g_be_wf. intro H; inversion H.
  split; [lia|]. split; [lia|reflexivity].
Qed.

Lemma g_bn_encode_json_some x len :
  x <> 0 -> g_num_bytes x <= g_width x len ->
  g_bn_encode_json x len = Some (JStr (enc (g_be (N.to_nat (g_width x len)) x))).
Proof.
  intros Z L. unfold g_bn_encode_json. fold (g_width x len).
  destruct (g_width x len <? g_num_bytes x) eqn:L'; [lia|].
  destruct (x =? 0) eqn:Z'; [lia|]. apply b64_enc_spec. apply g_be_wf.
Qed.

(* an encoded member decodes to the number, and to exactly the width asked for *)
Lemma g_bn_roundtrip x len j :
  g_bn_encode_json x len = Some j ->
  g_bn_decode_json j = Some x /\
  exists b, j = JStr (enc b) /\ dec (enc b) = Some b /\ blen b = g_width x len /\ g_os2ip b = x.
Proof.
  intro H. apply g_bn_encode_json_inv in H as (Z & L & ->).
  set (b := g_be (N.to_nat (g_width x len)) x).
  assert (D : dec (enc b) = Some b) by (apply dec_enc; apply g_be_wf).
  assert (V : g_os2ip b = x).
  { apply g_os2ip_be_small. rewrite N2Nat.id. eapply N.lt_le_trans; [apply g_num_bytes_bound|].
    apply N.pow_le_mono_r; [discriminate|exact L]. }
  split.
  - simpl. rewrite D. rewrite V. reflexivity.
  - exists b. split; [reflexivity|]. split; [exact D|]. split; [|exact V].
    unfold blen, b. rewrite g_be_length. apply N2Nat.id.
Qed.

(* ------------------------------------------------------------------------------------------------ *)
(* MAKE hooks *)

Lemma wf_take n (l : bytes) : wf_bytes l -> wf_bytes (take n l).
Proof.
  revert l; induction n as [|n IH]; intros [|x l] H; simpl; try constructor.
  - inversion H; assumption.
  - apply IH. inversion H; assumption.
Qed.

Definition g_rsa_fields (k : g_rsa_key) : list (bytes * N) :=
  [(g_n, rk_n k); (g_e, rk_e k); (g_d, rk_d k); (g_p, rk_p k); (g_q, rk_q k);
   (g_dp, rk_dp k); (g_dq, rk_dq k); (g_qi, rk_qi k)].

Definition g_ec_fields (k : g_ec_key) : list (bytes * N) := [(g_x, ek_x k); (g_y, ek_y k); (g_d, ek_d k)].

Lemma g_from_rsa_inv rk key :
  g_from_rsa rk = Some key ->
  exists jn je jd jp jq jdp jdq jqi,
    key = JObj [(g_kty, JStr g_RSA); (g_n, jn); (g_e, je); (g_d, jd); (g_p, jp); (g_q, jq);
                (g_dp, jdp); (g_dq, jdq); (g_qi, jqi)] /\
    g_bn_encode_json (rk_n rk) 0 = Some jn /\ g_bn_encode_json (rk_e rk) 0 = Some je /\
    g_bn_encode_json (rk_d rk) 0 = Some jd /\ g_bn_encode_json (rk_p rk) 0 = Some jp /\
    g_bn_encode_json (rk_q rk) 0 = Some jq /\ g_bn_encode_json (rk_dp rk) 0 = Some jdp /\
    g_bn_encode_json (rk_dq rk) 0 = Some jdq /\ g_bn_encode_json (rk_qi rk) 0 = Some jqi.
Proof.
  unfold g_from_rsa, g_pack.
  destruct (g_bn_encode_json (rk_n rk) 0) as [jn|]; [|discriminate].
  destruct (g_bn_encode_json (rk_e rk) 0) as [je|]; [|discriminate].
  destruct (g_bn_encode_json (rk_d rk) 0) as [jd|]; [|discriminate].
  destruct (g_bn_encode_json (rk_p rk) 0) as [jp|]; [|discriminate].
  destruct (g_bn_encode_json (rk_q rk) 0) as [jq|]; [|discriminate].
  destruct (g_bn_encode_json (rk_dp rk) 0) as [jdp|]; [|discriminate].
  destruct (g_bn_encode_json (rk_dq rk) 0) as [jdq|]; [|discriminate].
  destruct (g_bn_encode_json (rk_qi rk) 0) as [jqi|]; [|discriminate].
  intro H; inversion H. exists jn, je, jd, jp, jq, jdp, jdq, jqi. repeat split; reflexivity.
Qed.

Lemma g_from_ec_inv c ek out :
  g_from_ec c ek = Some out ->
  exists jx jy jd,
    out = JObj [(g_kty, JStr g_EC); (g_crv, JStr (g_curve_name c)); (g_x, jx); (g_y, jy); (g_d, jd)] /\
    g_bn_encode_json (ek_x ek) (g_curve_len c) = Some jx /\
    g_bn_encode_json (ek_y ek) (g_curve_len c) = Some jy /\
    g_bn_encode_json (ek_d ek) (g_curve_len c) = Some jd.
Proof.
  unfold g_from_ec, g_pack.
  destruct (g_bn_encode_json (ek_x ek) (g_curve_len c)) as [jx|]; [|discriminate].
  destruct (g_bn_encode_json (ek_y ek) (g_curve_len c)) as [jy|]; [|discriminate].
  destruct (g_bn_encode_json (ek_d ek) (g_curve_len c)) as [jd|]; [|discriminate].
  intro H; inversion H. exists jx, jy, jd. repeat split; reflexivity.
Qed.

Lemma g_bn_encode_json_str x len j : g_bn_encode_json x len = Some j -> exists s, j = JStr s.
Proof. intro H. apply g_bn_encode_json_inv in H as (_ & _ & ->). eauto. Qed.

Lemma g_del_present_spec k j j' :
  g_del_present k j = Some j' -> is_object j = true -> nodup_keys j ->
  is_object j' = true /\ nodup_keys j' /\ lookup k j' = None /\ (forall k', k <> k' -> lookup k' j' = lookup k' j).
Proof.
  unfold g_del_present, g_has. destruct (lookup k j) eqn:E.
  - intros H O ND. destruct (jdel_obj _ _ _ H) as [_ O'].
    split; [exact O'|]. split; [eapply jdel_nodup; eauto|]. split; [eapply lookup_jdel_same; eauto|].
    intros k' N. eapply lookup_jdel_other; eauto.
  - intros H O ND. inversion H; subst. auto.
Qed.

Lemma g_del_present_some k j : is_object j = true -> exists j', g_del_present k j = Some j'.
Proof.
  intro O. unfold g_del_present, g_has. destruct (lookup k j) eqn:E; [|eauto]. eapply jdel_some; eauto.
Qed.

Section Make.
  Variable X : g_ext.

  Lemma gen_make_inv j j2 :
    gen_make X j = Some j2 ->
    exists h, g_req_s g_kty j = Some (g_make_kty h) /\ g_make_execute X h j = Some j2.
  Proof.
    unfold gen_make, g_make_hooks, gen_make_list, g_make_handles.
    destruct (g_req_s g_kty j) as [t|] eqn:T; [|discriminate].
    destruct (bytes_eqb t (g_make_kty GMRsa)) eqn:E1.
    { apply bytes_eqb_eq in E1. subst t. intro H. exists GMRsa. auto. }
    destruct (bytes_eqb t (g_make_kty GMOct)) eqn:E2.
    { apply bytes_eqb_eq in E2. subst t. intro H. exists GMOct. auto. }
    destruct (bytes_eqb t (g_make_kty GMEc)) eqn:E3; [|discriminate].
    apply bytes_eqb_eq in E3. subst t. intro H. exists GMEc. auto.
  Qed.

  Lemma gen_make_by_kty j h :
    g_req_s g_kty j = Some (g_make_kty h) -> gen_make X j = g_make_execute X h j.
  Proof.
    intro T. unfold gen_make, g_make_hooks, gen_make_list, g_make_handles. rewrite T.
    destruct h; cbn [g_make_kty].
    - rewrite bytes_eqb_refl. reflexivity.
    - change (bytes_eqb g_oct g_RSA) with false. cbv iota. rewrite bytes_eqb_refl. reflexivity.
    - change (bytes_eqb g_EC g_RSA) with false. change (bytes_eqb g_EC g_oct) with false. cbv iota.
      rewrite bytes_eqb_refl. reflexivity.
  Qed.

  Lemma gen_make_other_kty j :
    (forall h, g_req_s g_kty j <> Some (g_make_kty h)) -> gen_make X j = None.
  Proof.
    intro N. destruct (gen_make X j) as [j2|] eqn:E; [|reflexivity].
    apply gen_make_inv in E as (h & T & _). exfalso. exact (N h T).
  Qed.

  Definition oct_touched : list bytes := [g_bytes; g_k].

  Lemma make_oct_inv j j2 :
    g_make_execute X GMOct j = Some j2 -> nodup_keys j -> wf_bytes (x_rand X) ->
    exists len : Z,
      lookup g_bytes j = Some (JInt len) /\ (0 < len <= Z.of_N keymax)%Z /\
      (Z.to_nat len <= length (x_rand X))%nat /\
      lookup g_k j2 = Some (JStr (enc (take (Z.to_nat len) (x_rand X)))) /\
      lookup g_bytes j2 = None /\
      is_object j2 = true /\ nodup_keys j2 /\
      (forall k, ~ In k oct_touched -> lookup k j2 = lookup k j).
  Proof.
    unfold g_make_execute. destruct (negb (g_make_handles GMOct j)); [discriminate|].
    destruct (lookup g_bytes j) as [[| |len| | | |]|] eqn:B; try discriminate.
    destruct ((len <=? 0)%Z || (Z.of_N keymax <? len)%Z) eqn:R; [discriminate|].
    destruct (length (x_rand X) <? Z.to_nat len)%nat eqn:L; [discriminate|].
    destruct (jdel g_bytes j) as [j1|] eqn:D; [|discriminate].
    intros H ND WF. rewrite b64_enc_spec in H by (apply wf_take; exact WF).
    destruct (jdel_obj _ _ _ D) as [O O1]. destruct (jset_obj _ _ _ _ H) as [_ O2].
    exists len. split; [reflexivity|]. split; [lia|]. split; [apply Nat.ltb_ge in L; exact L|].
    split; [eapply lookup_jset_same; eauto|].
    split; [rewrite (lookup_jset_other _ _ _ _ _ H) by discriminate; eapply lookup_jdel_same; eauto|].
    split; [exact O2|]. split; [eapply jset_nodup; eauto; eapply jdel_nodup; eauto|].
    intros k Hk. unfold oct_touched in Hk. simpl in Hk.
    rewrite (lookup_jset_other _ _ _ _ _ H) by (intro E; apply Hk; auto).
    apply (lookup_jdel_other _ _ _ _ D). intro E; apply Hk; auto.
  Qed.

  Definition rsa_touched : list bytes := g_bits :: g_oth :: g_rsa_members.

  Lemma make_rsa_inv j j2 :
    g_make_execute X GMRsa j = Some j2 -> nodup_keys j ->
    exists bits e rk,
      g_rsa_request j = Some (bits, e) /\ x_rsa X bits e = Some rk /\
      Z.of_N (N.size (rk_n rk)) = bits /\
      (forall m x, In (m, x) (g_rsa_fields rk) ->
         exists jm, lookup m j2 = Some jm /\ g_bn_encode_json x 0 = Some jm) /\
      lookup g_bits j2 = None /\
      is_object j2 = true /\ nodup_keys j2 /\
      (forall k, ~ In k rsa_touched -> lookup k j2 = lookup k j).
  Proof.
    unfold g_make_execute. destruct (negb (g_make_handles GMRsa j)) eqn:Hh; [discriminate|].
    assert (O : is_object j = true).
    { unfold g_make_handles in Hh. destruct (g_req_s g_kty j) eqn:T; [|discriminate]. eapply g_req_s_obj; eauto. }
    unfold g_mkrsa. destruct (g_rsa_request j) as [[bits e]|] eqn:Rq; [|discriminate].
    destruct (x_rsa X bits e) as [rk|] eqn:G; [|discriminate].
    destruct (Z.of_N (N.size (rk_n rk)) =? bits)%Z eqn:Sz; [|discriminate].
    apply Z.eqb_eq in Sz.
    destruct (g_from_rsa rk) as [key|] eqn:K; [|discriminate].
    destruct (g_del_present g_bits j) as [j1|] eqn:D1; [|discriminate].
    destruct (g_del_present g_e j1) as [j1'|] eqn:D2; [|discriminate].
    intros H ND.
    destruct (g_del_present_spec _ _ _ D1 O ND) as (O1 & ND1 & B1 & F1).
    destruct (g_del_present_spec _ _ _ D2 O1 ND1) as (O2 & ND2 & B2 & F2).
    apply g_from_rsa_inv in K as (jn & je & jd & jp & jq & jdp & jdq & jqi & -> & En & Ee & Ed & Ep & Eq & Edp & Edq & Eqi).
    (* the generated key has no "oth" *)
    cbn [g_copy_val lookup alookup] in H. vm_compute bytes_eqb in H. cbn iota in H.
    match type of H with g_copy_val ?key _ _ = _ => set (KEY := key) in * end.
    assert (SM : str_members g_rsa_members KEY).
    { intros m Hm v Hv. unfold g_rsa_members in Hm. simpl in Hm.
      destruct Hm as [<-|[<-|[<-|[<-|[<-|[<-|[<-|[<-|[]]]]]]]]]; vm_compute in Hv; inversion Hv; subst v;
        eapply g_bn_encode_json_str; eauto. }
    destruct (copy_val_spec _ _ _ _ H O2 SM) as (Oj & NDj & In1 & Out & _).
    exists bits, e, rk. split; [reflexivity|]. split; [exact G|]. split; [exact Sz|]. split; [|split; [|split; [|split]]].
    - intros m x Hm. unfold g_rsa_fields in Hm. simpl in Hm.
      destruct Hm as [Q|[Q|[Q|[Q|[Q|[Q|[Q|[Q|[]]]]]]]]]; inversion Q; subst m x;
        match goal with |- exists jm, lookup ?m j2 = _ /\ _ =>
          destruct (In1 m) as [L _]; [unfold g_rsa_members; simpl; tauto|]; rewrite L; vm_compute lookup; eauto end.
    - rewrite Out by (unfold g_rsa_members; simpl; intros [E|[E|[E|[E|[E|[E|[E|[E|[]]]]]]]]]; discriminate).
      rewrite F2 by discriminate. exact B1.
    - exact Oj.
    - apply NDj. exact ND2.
    - intros k Hk. unfold rsa_touched in Hk.
      rewrite Out by (intro I; apply Hk; right; right; exact I).
      destruct (bytes_eq_dec g_e k) as [<-|Ne]; [exfalso; apply Hk; unfold g_rsa_members; simpl; tauto|].
      rewrite F2 by exact Ne. apply F1. intro E; apply Hk; left; exact E.
  Qed.

  Definition ec_touched : list bytes := g_ec_members.

  (* the curve jwk_make_execute (ec.c) generates on *)
  Definition g_ec_request (j : json) : option g_curve :=
    match g_opt_s g_crv j with
    | GBad => None
    | GStr s => g_curve_of_name s
    | GAbsent => Some GC256
    end.

  Lemma make_ec_inv j j2 :
    g_make_execute X GMEc j = Some j2 -> nodup_keys j ->
    exists c ek,
      g_ec_request j = Some c /\ x_ec X c = Some ek /\
      lookup g_crv j2 = Some (JStr (g_curve_name c)) /\
      (forall m x, In (m, x) (g_ec_fields ek) ->
         exists jm, lookup m j2 = Some jm /\ g_bn_encode_json x (g_curve_len c) = Some jm) /\
      is_object j2 = true /\ nodup_keys j2 /\
      (forall k, ~ In k ec_touched -> lookup k j2 = lookup k j).
  Proof.
    unfold g_make_execute. destruct (negb (g_make_handles GMEc j)) eqn:Hh; [discriminate|].
    assert (O : is_object j = true).
    { unfold g_make_handles in Hh. destruct (g_req_s g_kty j) eqn:T; [|discriminate]. eapply g_req_s_obj; eauto. }
    unfold g_ec_request.
    destruct (g_opt_s g_crv j) as [|s|] eqn:C; try discriminate.
    - change (g_curve_of_name g_P256) with (Some GC256). cbv iota beta.
      destruct (x_ec X GC256) as [ek|] eqn:G; [|discriminate].
      destruct (g_from_ec GC256 ek) as [out|] eqn:K; [|discriminate].
      intros H ND. apply g_from_ec_inv in K as (jx & jy & jd & -> & Ex & Ey & Ed).
      match type of H with g_copy_val ?key _ _ = _ => set (KEY := key) in * end.
      assert (SM : str_members g_ec_members KEY).
      { intros m Hm v Hv. unfold g_ec_members in Hm. simpl in Hm.
        destruct Hm as [<-|[<-|[<-|[<-|[]]]]]; vm_compute in Hv; inversion Hv; subst v;
          try (eapply g_bn_encode_json_str; eauto; fail). eauto. }
      destruct (copy_val_spec _ _ _ _ H O SM) as (Oj & NDj & In1 & Out & _).
      exists GC256, ek. split; [reflexivity|]. split; [exact G|]. split; [|split; [|split; [|split]]].
      + destruct (In1 g_crv) as [L _]; [unfold g_ec_members; simpl; tauto|]. rewrite L. reflexivity.
      + intros m x Hm. unfold g_ec_fields in Hm. simpl in Hm.
        destruct Hm as [Q|[Q|[Q|[]]]]; inversion Q; subst m x;
          match goal with |- exists jm, lookup ?m j2 = _ /\ _ =>
            destruct (In1 m) as [L _]; [unfold g_ec_members; simpl; tauto|]; rewrite L; vm_compute lookup; eauto end.
      + exact Oj.
      + apply NDj. exact ND.
      + exact Out.
    - destruct (g_curve_of_name s) as [c|] eqn:Cn; [|discriminate].
      destruct (x_ec X c) as [ek|] eqn:G; [|discriminate].
      destruct (g_from_ec c ek) as [out|] eqn:K; [|discriminate].
      intros H ND. apply g_from_ec_inv in K as (jx & jy & jd & -> & Ex & Ey & Ed).
      match type of H with g_copy_val ?key _ _ = _ => set (KEY := key) in * end.
      assert (SM : str_members g_ec_members KEY).
      { intros m Hm v Hv. unfold g_ec_members in Hm. simpl in Hm.
        destruct Hm as [<-|[<-|[<-|[<-|[]]]]]; vm_compute in Hv; inversion Hv; subst v;
          try (eapply g_bn_encode_json_str; eauto; fail). eauto. }
      destruct (copy_val_spec _ _ _ _ H O SM) as (Oj & NDj & In1 & Out & _).
      exists c, ek. split; [reflexivity|]. split; [exact G|]. split; [|split; [|split; [|split]]].
      + destruct (In1 g_crv) as [L _]; [unfold g_ec_members; simpl; tauto|]. rewrite L. reflexivity.
      + intros m x Hm. unfold g_ec_fields in Hm. simpl in Hm.
        destruct Hm as [Q|[Q|[Q|[]]]]; inversion Q; subst m x;
          match goal with |- exists jm, lookup ?m j2 = _ /\ _ =>
            destruct (In1 m) as [L _]; [unfold g_ec_members; simpl; tauto|]; rewrite L; vm_compute lookup; eauto end.
      + exact Oj.
      + apply NDj. exact ND.
      + exact Out.
  Qed.
End Make.

(* ------------------------------------------------------------------------------------------------ *)
(* what an algorithm name implies (the PREP hooks as one table) *)

Inductive g_implied := IOct (n : Z) | IEc (c : bytes) | IEcAny | IRsa.

Definition g_alg_implies (a : bytes) : option g_implied :=
  match g_handler a with
  | Some (GPOct t) => Some (IOct (g_alg2len t a))
  | Some (GPEc t) => match alookup a t with Some c => Some (IEc c) | None => None end
  | Some (GPExch _) => Some IEcAny
  | Some (GPRsa _) => Some IRsa
  | None => None
  end.

(* "absent, or a string equal to [want]" *)
Definition g_agrees (k want : bytes) (t : json) : bool :=
  match lookup k t with
  | None => true
  | Some (JStr s) => bytes_eqb (cstr s) want
  | Some _ => false
  end.

(* "absent, or the integer L" *)
Definition g_bytes_agree (L : Z) (t : json) : bool :=
  match lookup g_bytes t with
  | None => true
  | Some (JInt z) => (z =? L)%Z
  | Some _ => false
  end.

Definition g_str_or_absent (k : bytes) (t : json) : bool :=
  match lookup k t with None | Some (JStr _) => true | Some _ => false end.

(* the template does not contradict its algorithm *)
Definition g_consistent_with_alg (t : json) : bool :=
  match g_req_s g_alg t with
  | Some a =>
      match g_alg_implies a with
      | Some (IOct L) => g_agrees g_kty g_oct t && g_bytes_agree L t
      | Some (IEc c) => g_agrees g_kty g_EC t && g_agrees g_crv c t
      | Some IEcAny => g_agrees g_kty g_EC t && g_str_or_absent g_crv t
      | Some IRsa => g_agrees g_kty g_RSA t
      | None => true
      end
  | None => true
  end.

Lemma g_other_agrees k want t :
  is_object t = true ->
  (match g_opt_s k t with GBad => true | o => g_other o want end) = negb (g_agrees k want t).
Proof.
  intro O. rewrite g_opt_s_lookup by exact O. unfold g_agrees, g_other.
  destruct (lookup k t) as [[]|]; reflexivity.
Qed.

Definition prep_others (j1 t : json) : Prop :=
  is_object t = true /\ is_object j1 = true /\ (nodup_keys t -> nodup_keys j1) /\
  forall k, ~ In k prep_touched -> lookup k j1 = lookup k t.

Ltac fin_po :=
  repeat match goal with
         | |- prep_others _ _ => eassumption
         | |- _ /\ _ => split
         end; first [assumption|reflexivity|lia].

(* the outcome of the PREP stage, by what the algorithm implies *)
Lemma prep_outcome t j1 :
  gen_prep t = Some j1 ->
  match g_req_s g_alg t with
  | Some a =>
      match g_alg_implies a with
      | Some (IOct L) =>
          L <> 0%Z /\ g_agrees g_kty g_oct t = true /\ g_bytes_agree L t = true /\
          lookup g_kty j1 = Some (JStr g_oct) /\ lookup g_bytes j1 = Some (JInt L) /\
          lookup g_crv j1 = lookup g_crv t /\ prep_others j1 t
      | Some (IEc c) =>
          g_agrees g_kty g_EC t = true /\ g_agrees g_crv c t = true /\
          lookup g_kty j1 = Some (JStr g_EC) /\ lookup g_crv j1 = Some (JStr c) /\
          lookup g_bytes j1 = lookup g_bytes t /\ prep_others j1 t
      | Some IEcAny =>
          g_agrees g_kty g_EC t = true /\ g_str_or_absent g_crv t = true /\
          lookup g_kty j1 = Some (JStr g_EC) /\
          lookup g_crv j1 = Some (JStr (match lookup g_crv t with Some (JStr s) => cstr s | _ => g_P521 end)) /\
          lookup g_bytes j1 = lookup g_bytes t /\ prep_others j1 t
      | Some IRsa =>
          g_agrees g_kty g_RSA t = true /\
          lookup g_kty j1 = Some (JStr g_RSA) /\
          lookup g_bytes j1 = lookup g_bytes t /\ lookup g_crv j1 = lookup g_crv t /\ prep_others j1 t
      | None => j1 = t
      end
  | None => j1 = t
  end.
Proof.
  rewrite gen_prep_spec. destruct (g_req_s g_alg t) as [a|] eqn:A; [|intro H; inversion H; reflexivity].
  pose proof (g_req_s_obj _ _ _ A) as O.
  unfold g_alg_implies. destruct (g_handler a) as [h|] eqn:Hh; [|intro H; inversion H; reflexivity].
  unfold g_handler in Hh. apply find_some in Hh as [_ Hh].
  intro E. pose proof (prep_execute_frame _ _ _ E) as (_ & O1 & ND & F).
  assert (PO : prep_others j1 t) by (unfold prep_others; auto).
  destruct h as [tb|tb|n|ns]; cbn [g_handles_alg] in Hh; unfold g_prep_execute in E; try rewrite A in E.
  - (* oct *)
    rewrite g_opt_s_lookup in E by exact O. unfold g_opt_I in E. unfold g_agrees, g_bytes_agree.
    destruct t as [| | | | | |m]; try discriminate. cbn [lookup] in *.
    destruct (g_alg2len tb a =? 0)%Z eqn:L0; [discriminate|].
    assert (S2 : forall (u : unit), g_set2 g_kty (JStr g_oct) g_bytes (JInt (g_alg2len tb a)) (JObj m) = Some j1 ->
                 lookup g_kty j1 = Some (JStr g_oct) /\ lookup g_bytes j1 = Some (JInt (g_alg2len tb a)) /\
                 lookup g_crv j1 = alookup g_crv m).
    { intros _ S2. apply g_set2_spec in S2; [|discriminate]. destruct S2 as (_ & _ & _ & K1 & K2 & F2).
      split; [exact K1|]. split; [exact K2|]. apply (F2 g_crv); discriminate. }
    unfold g_has in E. cbn [lookup] in E.
    destruct (alookup g_kty m) as [[| | | |s| |]|] eqn:K; try discriminate;
      destruct (alookup g_bytes m) as [[| |bz| | | |]|] eqn:B; try discriminate; cbn [negb andb] in E.
    + destruct (negb (bz =? g_alg2len tb a)%Z) eqn:Bz; [discriminate|].
      unfold g_other in E. destruct (bytes_eqb (cstr s) g_oct) eqn:Ks; [|discriminate]. cbn [negb] in E.
      destruct (S2 tt E) as (K1 & K2 & K3). fin_po.
    + unfold g_other in E. destruct (bytes_eqb (cstr s) g_oct) eqn:Ks; [|discriminate]. cbn [negb] in E.
      destruct (S2 tt E) as (K1 & K2 & K3). fin_po.
    + destruct (negb (bz =? g_alg2len tb a)%Z) eqn:Bz; [discriminate|].
      cbn [g_other] in E.
      destruct (S2 tt E) as (K1 & K2 & K3). fin_po.
    + cbn [g_other] in E.
      destruct (S2 tt E) as (K1 & K2 & K3). fin_po.
  - (* ecdsa / ecdhes *)
    destruct (alookup a tb) as [grp|] eqn:G; [|discriminate].
    rewrite !g_opt_s_lookup in E by exact O. unfold g_agrees.
    assert (S2 : g_set2 g_kty (JStr g_EC) g_crv (JStr grp) t = Some j1 ->
                 lookup g_kty j1 = Some (JStr g_EC) /\ lookup g_crv j1 = Some (JStr grp) /\
                 lookup g_bytes j1 = lookup g_bytes t).
    { intro S2. apply g_set2_spec in S2; [|discriminate]. destruct S2 as (_ & _ & _ & K1 & K2 & F2).
      split; [exact K1|]. split; [exact K2|]. apply (F2 g_bytes); discriminate. }
    destruct (lookup g_kty t) as [[| | | |s| |]|] eqn:K; try discriminate;
      destruct (lookup g_crv t) as [[| | | |c| |]|] eqn:C; try discriminate; unfold g_other in E.
    + destruct (bytes_eqb (cstr s) g_EC) eqn:Ks; [|discriminate]. cbn [negb] in E.
      destruct (bytes_eqb (cstr c) grp) eqn:Cs; [|discriminate]. cbn [negb] in E.
      destruct (S2 E) as (K1 & K2 & K3). fin_po.
    + destruct (bytes_eqb (cstr s) g_EC) eqn:Ks; [|discriminate]. cbn [negb] in E.
      destruct (S2 E) as (K1 & K2 & K3). fin_po.
    + destruct (bytes_eqb (cstr c) grp) eqn:Cs; [|discriminate]. cbn [negb] in E.
      destruct (S2 E) as (K1 & K2 & K3). fin_po.
    + destruct (S2 E) as (K1 & K2 & K3). fin_po.
  - (* ecdh / ecmr *)
    rewrite Hh in E. cbn [negb] in E.
    rewrite !g_opt_s_lookup in E by exact O. unfold g_agrees, g_str_or_absent.
    assert (S2 : forall cv, g_set2 g_kty (JStr g_EC) g_crv (JStr cv) t = Some j1 ->
                 lookup g_kty j1 = Some (JStr g_EC) /\ lookup g_crv j1 = Some (JStr cv) /\
                 lookup g_bytes j1 = lookup g_bytes t).
    { intros cv S2. apply g_set2_spec in S2; [|discriminate]. destruct S2 as (_ & _ & _ & K1 & K2 & F2).
      split; [exact K1|]. split; [exact K2|]. apply (F2 g_bytes); discriminate. }
    destruct (lookup g_crv t) as [[| | | |c| |]|] eqn:C; try discriminate;
      destruct (lookup g_kty t) as [[| | | |s| |]|] eqn:K; try discriminate; unfold g_other in E.
    + destruct (bytes_eqb (cstr s) g_EC) eqn:Ks; [|discriminate]. cbn [negb] in E.
      destruct (S2 _ E) as (K1 & K2 & K3). fin_po.
    + destruct (S2 _ E) as (K1 & K2 & K3). fin_po.
    + destruct (bytes_eqb (cstr s) g_EC) eqn:Ks; [|discriminate]. cbn [negb] in E.
      destruct (S2 _ E) as (K1 & K2 & K3). fin_po.
    + destruct (S2 _ E) as (K1 & K2 & K3). fin_po.
  - (* rsaes / rsassa *)
    unfold g_prep_handles in E. rewrite A in E. cbn [g_handles_alg] in E. rewrite Hh in E. cbn [negb] in E.
    rewrite g_opt_s_lookup in E by exact O. unfold g_agrees.
    assert (S1 : jset g_kty (JStr g_RSA) t = Some j1 ->
                 lookup g_kty j1 = Some (JStr g_RSA) /\ lookup g_bytes j1 = lookup g_bytes t /\
                 lookup g_crv j1 = lookup g_crv t).
    { intro S1. split; [eapply lookup_jset_same; eauto|].
      split; apply (lookup_jset_other _ _ _ _ _ S1); discriminate. }
    destruct (lookup g_kty t) as [[| | | |s| |]|] eqn:K; try discriminate; unfold g_other in E.
    + destruct (bytes_eqb (cstr s) g_RSA) eqn:Ks; [|discriminate]. cbn [negb] in E.
      destruct (S1 E) as (K1 & K2 & K3). fin_po.
    + destruct (S1 E) as (K1 & K2 & K3). fin_po.
Qed.

(* ------------------------------------------------------------------------------------------------ *)
(* the tail of jose_jwk_gen *)

(* the key_ops value inferred for an algorithm name (None: nothing is set) *)
Definition g_expected_ops (a : bytes) : option json :=
  match find (fun e => bytes_eqb a (a_name e)) alg_registry with
  | Some e => match g_ops_of_kind (a_kind e) with [] => None | ops => Some (JArr (map JStr ops)) end
  | None => None
  end.

Definition g_final_key_ops (j : json) : option json :=
  match g_opt_s g_alg j, g_opt_s g_use j, lookup g_key_ops j with
  | GStr a, GAbsent, None => g_expected_ops a
  | _, _, ko => ko
  end.

Lemma gen_post_inv j k :
  gen_post j = Some k ->
  exists kty,
    g_req_s g_kty j = Some kty /\ g_opt_s g_alg j <> GBad /\ g_opt_s g_use j <> GBad /\
    is_object k = true /\ (nodup_keys j -> nodup_keys k) /\
    (forall key, key <> g_key_ops -> lookup key k = lookup key j) /\
    lookup g_key_ops k = g_final_key_ops j /\
    g_required_present kty k = true.
Proof.
  unfold gen_post, g_final_key_ops.
  destruct (g_req_s g_kty j) as [kty|] eqn:T.
  2:{ destruct (g_opt_s g_alg j); discriminate. }
  pose proof (g_req_s_obj _ _ _ T) as O.
  assert (Same : forall k', (if g_required_present kty j then Some j else None) = Some k' ->
            exists kty0, Some kty = Some kty0 /\ is_object k' = true /\ (nodup_keys j -> nodup_keys k') /\
            (forall key, key <> g_key_ops -> lookup key k' = lookup key j) /\
            lookup g_key_ops k' = lookup g_key_ops j /\ g_required_present kty0 k' = true).
  { intros k' H. destruct (g_required_present kty j) eqn:R; [|discriminate]. inversion H; subst k'.
    exists kty. auto 10. }
  destruct (g_opt_s g_alg j) as [|a|] eqn:A; try discriminate;
    destruct (g_opt_s g_use j) as [|u|] eqn:U; try discriminate;
    try (intro H; apply Same in H as (kty0 & Q & O' & ND & F & KO & R); inversion Q; subst kty0;
         exists kty; repeat (split; [first [reflexivity|discriminate|assumption]|]);
         first [assumption | destruct (lookup g_key_ops j); assumption]).
  destruct (lookup g_key_ops j) as [ko|] eqn:KO.
  { intro H; apply Same in H as (kty0 & Q & O' & ND & F & KO' & R); inversion Q; subst kty0.
    exists kty. repeat (split; [first [reflexivity|discriminate|assumption]|]). assumption. }
  unfold g_infer_ops, g_expected_ops.
  destruct (find (fun e => bytes_eqb a (a_name e)) alg_registry) as [e|].
  2:{ intro H; apply Same in H as (kty0 & Q & O' & ND & F & KO' & R); inversion Q; subst kty0.
      exists kty. repeat (split; [first [reflexivity|discriminate|assumption]|]). assumption. }
  destruct (g_ops_of_kind (a_kind e)) as [|o1 ops] eqn:Ops.
  { intro H; apply Same in H as (kty0 & Q & O' & ND & F & KO' & R); inversion Q; subst kty0.
    exists kty. repeat (split; [first [reflexivity|discriminate|assumption]|]). assumption. }
  destruct (jset g_key_ops (JArr (map JStr (o1 :: ops))) j) as [j1|] eqn:S; [|discriminate].
  destruct (g_required_present kty j1) eqn:R; [|discriminate]. intro H; inversion H; subst k.
  destruct (jset_obj _ _ _ _ S) as [_ O1].
  exists kty. split; [reflexivity|]. split; [discriminate|]. split; [discriminate|]. split; [exact O1|].
  split; [intro ND; eapply jset_nodup; eauto|].
  split; [intros key N; apply (lookup_jset_other _ _ _ _ _ S); congruence|].
  split; [eapply lookup_jset_same; eauto|exact R].
Qed.

Lemma required_present_inv kty k :
  g_required_present kty k = true ->
  exists ty, In ty jwk_types /\ t_kty ty = kty /\ forall r, In r (t_req ty) -> lookup r k <> None.
Proof.
  unfold g_required_present. destruct (find (fun t => bytes_eqb (t_kty t) kty) jwk_types) as [ty|] eqn:F; [|discriminate].
  apply find_some in F as [I E]. apply bytes_eqb_eq in E. intro H. exists ty. split; [exact I|]. split; [exact E|].
  rewrite forallb_forall in H. intros r Hr. specialize (H r Hr). unfold g_has in H.
  destruct (lookup r k); [discriminate|discriminate].
Qed.

(* ------------------------------------------------------------------------------------------------ *)
(* jose_jwk_gen as a whole *)

Definition make_touched (h : g_make) : list bytes :=
  match h with GMRsa => rsa_touched | GMOct => oct_touched | GMEc => ec_touched end.

Definition all_touched : list bytes :=
  prep_touched ++ [g_k; g_bits; g_oth] ++ g_rsa_members ++ [g_x; g_y] ++ [g_key_ops].

Lemma jwk_gen_stages X t k :
  jwk_gen X t = Some k ->
  exists j1 j2 j3 j4 h,
    gen_prep t = Some j1 /\ g_req_s g_kty j1 = Some (g_make_kty h) /\
    g_make_execute X h j1 = Some j2 /\
    g_del_present g_bytes j2 = Some j3 /\ g_del_present g_bits j3 = Some j4 /\ gen_post j4 = Some k.
Proof.
  unfold jwk_gen. destruct (gen_prep t) as [j1|] eqn:P; [|discriminate].
  destruct (gen_make X j1) as [j2|] eqn:M; [|discriminate].
  destruct (g_del_present g_bytes j2) as [j3|] eqn:D1; [|discriminate].
  destruct (g_del_present g_bits j3) as [j4|] eqn:D2; [|discriminate]. intro Q.
  apply gen_make_inv in M as (h & T & M). exists j1, j2, j3, j4, h. auto 10.
Qed.

Lemma make_frame X h j1 j2 :
  g_make_execute X h j1 = Some j2 -> nodup_keys j1 -> wf_bytes (x_rand X) ->
  is_object j2 = true /\ nodup_keys j2 /\ (forall key, ~ In key (make_touched h) -> lookup key j2 = lookup key j1).
Proof.
  intros M ND WF. destruct h; cbn [make_touched].
  - destruct (make_rsa_inv X _ _ M ND) as (? & ? & ? & _ & _ & _ & _ & O & N & F). auto.
  - destruct (make_oct_inv X _ _ M ND WF) as (? & _ & _ & _ & _ & _ & O & N & F). auto.
  - destruct (make_ec_inv X _ _ M ND) as (? & ? & _ & _ & _ & _ & O & N & F). auto.
Qed.

Lemma kty_not_touched h : ~ In g_kty (make_touched h).
Proof.
  destruct h; cbn [make_touched]; unfold rsa_touched, oct_touched, ec_touched, g_rsa_members, g_ec_members; simpl;
    intro H; repeat (destruct H as [H|H]; [discriminate|]); exact H.
Qed.

Lemma gen_master X t k :
  jwk_gen X t = Some k -> nodup_keys t -> wf_bytes (x_rand X) ->
  exists j1 j2 h,
    gen_prep t = Some j1 /\ is_object t = true /\ is_object j1 = true /\ nodup_keys j1 /\
    g_req_s g_kty j1 = Some (g_make_kty h) /\
    g_make_execute X h j1 = Some j2 /\ is_object j2 = true /\ nodup_keys j2 /\
    (forall key, ~ In key (make_touched h) -> lookup key j2 = lookup key j1) /\
    (g_opt_s g_alg k <> GBad /\ g_opt_s g_use k <> GBad /\ lookup g_bytes k = None /\ lookup g_bits k = None) /\
    is_object k = true /\ nodup_keys k /\
    g_req_s g_kty k = Some (g_make_kty h) /\
    (forall key, key <> g_key_ops -> key <> g_bytes -> key <> g_bits -> lookup key k = lookup key j2) /\
    lookup g_key_ops k = g_final_key_ops j2.
Proof.
  intros G ND WF. apply jwk_gen_stages in G as (j1 & j2 & j3 & j4 & h & P & T & M & D1 & D2 & Q).
  pose proof (g_req_s_obj _ _ _ T) as O1.
  assert (O : is_object t = true).
  { pose proof (prep_outcome _ _ P) as PO. destruct (g_req_s g_alg t) as [a|] eqn:A.
    - eapply g_req_s_obj; eauto.
    - subst j1. exact O1. }
  destruct (gen_prep_frame _ _ P) as (_ & ND1 & _). specialize (ND1 ND).
  destruct (make_frame _ _ _ _ M ND1 WF) as (O2 & ND2 & F2).
  destruct (g_del_present_spec _ _ _ D1 O2 ND2) as (O3 & ND3 & B3 & F3).
  destruct (g_del_present_spec _ _ _ D2 O3 ND3) as (O4 & ND4 & B4 & F4).
  destruct (gen_post_inv _ _ Q) as (kty & T2 & A4 & U4 & Ok & NDk & Fk & KO & _).
  assert (F42 : forall key, key <> g_bytes -> key <> g_bits -> lookup key j4 = lookup key j2).
  { intros key N1 N2. rewrite F4 by congruence. apply F3. congruence. }
  assert (Fk2 : forall key, key <> g_key_ops -> key <> g_bytes -> key <> g_bits -> lookup key k = lookup key j2).
  { intros key N0 N1 N2. rewrite Fk by exact N0. apply F42; assumption. }
  exists j1, j2, h. repeat (split; [assumption|]).
  split; [|split; [exact Ok|split; [auto|split; [|split; [exact Fk2|]]]]].
  - split; [|split; [|split]].
    + rewrite (g_opt_s_congr g_alg j4 k O4 Ok) by (apply Fk; discriminate). exact A4.
    + rewrite (g_opt_s_congr g_use j4 k O4 Ok) by (apply Fk; discriminate). exact U4.
    + rewrite Fk by discriminate. rewrite F4 by discriminate. exact B3.
    + rewrite Fk by discriminate. exact B4.
  - rewrite <- T. transitivity (g_req_s g_kty j2).
    + apply g_req_s_congr; try assumption. apply Fk2; discriminate.
    + apply g_req_s_congr; try assumption. apply F2. apply kty_not_touched.
  - rewrite KO. unfold g_final_key_ops.
    rewrite (g_opt_s_congr g_alg j2 j4 O2 O4) by (apply F42; discriminate).
    rewrite (g_opt_s_congr g_use j2 j4 O2 O4) by (apply F42; discriminate).
    rewrite (F42 g_key_ops) by discriminate. reflexivity.
Qed.

Section Theorems.
  Variable X : g_ext.
  Hypothesis rand_wf : wf_bytes (x_rand X).      (* RAND_bytes delivers octets *)

  Lemma not_in_app {A} (x : A) l1 l2 : ~ In x (l1 ++ l2) -> ~ In x l1 /\ ~ In x l2.
  Proof. intro H. split; intro I; apply H; apply in_or_app; auto. Qed.

  Lemma all_touched_covers key h : ~ In key all_touched ->
    ~ In key prep_touched /\ ~ In key (make_touched h) /\ (key <> g_key_ops /\ key <> g_bytes /\ key <> g_bits).
  Proof.
    unfold all_touched. intro H.
    apply not_in_app in H as [H1 H]. apply not_in_app in H as [H2 H]. apply not_in_app in H as [H3 H].
    apply not_in_app in H as [H4 H5].
    split; [exact H1|]. split.
    - destruct h; cbn [make_touched]; unfold rsa_touched, oct_touched, ec_touched, g_ec_members; simpl in *; intuition congruence.
    - unfold prep_touched in H1. simpl in H1, H2, H5. intuition congruence.
  Qed.

  (* members the generator has no business with are left exactly as given *)
  Theorem gen_untouched t k :
    jwk_gen X t = Some k -> nodup_keys t ->
    forall key, ~ In key all_touched -> lookup key k = lookup key t.
  Proof.
    intros G ND key Hk.
    destruct (gen_master X t k G ND rand_wf) as (j1 & j2 & h & P & O & O1 & ND1 & T & M & O2 & ND2 & F2 & Q & Ok & NDk & Tk & Fk & KO).
    destruct (all_touched_covers key h Hk) as (H1 & H2 & H3 & H4 & H5).
    destruct (gen_prep_frame _ _ P) as (_ & _ & F1).
    rewrite Fk by assumption. rewrite F2 by exact H2. apply F1. exact H1.
  Qed.

  Lemma alg_use_ops_kept t k :
    jwk_gen X t = Some k -> nodup_keys t ->
    is_object t = true /\
    g_opt_s g_alg k = g_opt_s g_alg t /\ g_opt_s g_use k = g_opt_s g_use t /\
    lookup g_key_ops k = g_final_key_ops t.
  Proof.
    intros G ND.
    destruct (gen_master X t k G ND rand_wf) as (j1 & j2 & h & P & O & O1 & ND1 & T & M & O2 & ND2 & F2 & Q & Ok & NDk & Tk & Fk & KO).
    destruct (gen_prep_frame _ _ P) as (_ & _ & F1).
    assert (NT : forall key, In key [g_alg; g_use; g_key_ops] -> ~ In key prep_touched /\ ~ In key (make_touched h)).
    { intros key Hin. split.
      - unfold prep_touched. simpl in *. intuition (subst; discriminate).
      - destruct h; cbn [make_touched]; unfold rsa_touched, oct_touched, ec_touched, g_rsa_members, g_ec_members; simpl in *;
          intuition (subst; discriminate). }
    assert (L2 : forall key, In key [g_alg; g_use; g_key_ops] -> lookup key j2 = lookup key t).
    { intros key Hin. destruct (NT key Hin) as [N1 N2]. rewrite F2 by exact N2. apply F1. exact N1. }
    split; [exact O|]. split; [|split].
    - apply g_opt_s_congr; try assumption. rewrite Fk by discriminate. apply L2. simpl; auto.
    - apply g_opt_s_congr; try assumption. rewrite Fk by discriminate. apply L2. simpl; auto.
    - rewrite KO. unfold g_final_key_ops.
      rewrite (g_opt_s_congr g_alg t j2 O O2) by (apply L2; simpl; auto).
      rewrite (g_opt_s_congr g_use t j2 O O2) by (apply L2; simpl; auto).
      rewrite (L2 g_key_ops) by (simpl; auto). reflexivity.
  Qed.

  (* key_ops: inferred from alg exactly when neither use nor key_ops is given; otherwise untouched *)
  Theorem gen_key_ops t k :
    jwk_gen X t = Some k -> nodup_keys t ->
    lookup g_key_ops k =
      match g_opt_s g_alg t, g_opt_s g_use t, lookup g_key_ops t with
      | GStr a, GAbsent, None => g_expected_ops a
      | _, _, ko => ko
      end.
  Proof. intros G ND. destruct (alg_use_ops_kept t k G ND) as (_ & _ & _ & H). exact H. Qed.

  (* the result is complete: the registered key type's required members are all there *)
  Theorem gen_complete t k :
    jwk_gen X t = Some k ->
    exists kty ty, g_req_s g_kty k = Some kty /\ In ty jwk_types /\ t_kty ty = kty /\
                   forall r, In r (t_req ty) -> lookup r k <> None.
  Proof.
    intro G. apply jwk_gen_stages in G as (j1 & j2 & j3 & j4 & h & P & T & M & D1 & D2 & Q).
    destruct (gen_post_inv _ _ Q) as (kty & T2 & _ & _ & Ok & _ & Fk & _ & R).
    apply required_present_inv in R as (ty & I & E & Rq).
    exists kty, ty. split; [|auto].
    rewrite <- T2. apply g_req_s_congr; try assumption; [eapply g_req_s_obj; eauto|]. apply Fk. discriminate.
  Qed.
End Theorems.

(* ------------------------------------------------------------------------------------------------ *)
(* per key type *)

Definition g_bytes_member (t : json) : option Z :=
  match lookup g_bytes t with Some (JInt z) => Some z | _ => None end.

(* the number of octets a template asks for: the algorithm's, or "bytes" *)
Definition g_oct_request (t : json) : option Z :=
  match g_req_s g_alg t with
  | Some a =>
      match g_alg_implies a with
      | Some (IOct L) => Some L
      | Some _ => None
      | None => g_bytes_member t
      end
  | None => g_bytes_member t
  end.

Lemma make_kty_inj h h' : g_make_kty h = g_make_kty h' -> h = h'.
Proof. destruct h, h'; simpl; intro H; try reflexivity; discriminate. Qed.

Lemma req_s_of_lookup k j s : is_object j = true -> lookup k j = Some (JStr s) -> g_req_s k j = Some (cstr s).
Proof. intros O L. unfold g_req_s. rewrite g_opt_s_lookup by exact O. rewrite L. reflexivity. Qed.

(* which key type the PREP stage leaves, by what the algorithm implies *)
Lemma prep_kty t j1 h :
  gen_prep t = Some j1 -> g_req_s g_kty j1 = Some (g_make_kty h) ->
  match g_req_s g_alg t with
  | Some a =>
      match g_alg_implies a with
      | Some (IOct _) => h = GMOct
      | Some (IEc _) | Some IEcAny => h = GMEc
      | Some IRsa => h = GMRsa
      | None => j1 = t
      end
  | None => j1 = t
  end.
Proof.
  intros P T. pose proof (prep_outcome _ _ P) as PO.
  destruct (g_req_s g_alg t) as [a|]; [|exact PO].
  destruct (g_alg_implies a) as [[L|c| |]|]; [| | | |exact PO].
  - destruct PO as (_ & _ & _ & K & _ & _ & (_ & O1 & _)).
    rewrite (req_s_of_lookup _ _ _ O1 K) in T. destruct h; try reflexivity; inversion T.
  - destruct PO as (_ & _ & K & _ & _ & (_ & O1 & _)).
    rewrite (req_s_of_lookup _ _ _ O1 K) in T. destruct h; try reflexivity; inversion T.
  - destruct PO as (_ & _ & K & _ & _ & (_ & O1 & _)).
    rewrite (req_s_of_lookup _ _ _ O1 K) in T. destruct h; try reflexivity; inversion T.
  - destruct PO as (_ & K & _ & _ & (_ & O1 & _)).
    rewrite (req_s_of_lookup _ _ _ O1 K) in T. destruct h; try reflexivity; inversion T.
Qed.

Lemma cstr_idem s : cstr (cstr s) = cstr s.
Proof. induction s as [|c r IH]; simpl; [reflexivity|]. destruct (c =? 0) eqn:E; simpl; [reflexivity|]. rewrite E, IH. reflexivity. Qed.

(* an algorithm-implied curve is one of the four named ones *)
Lemma implied_ec_curve a c :
  g_alg_implies a = Some (IEc c) -> In c [g_P256; g_P384; g_P521; g_K256].
Proof.
  unfold g_alg_implies, g_handler. destruct (find (fun h => g_handles_alg h a) g_prep_hooks) as [h|] eqn:F; [|discriminate].
  apply find_some in F as [I _]. destruct h as [tb|tb|n|ns]; try discriminate.
  destruct (alookup a tb) as [c'|] eqn:L; [|discriminate]. intro H; inversion H; subst c'.
  apply alookup_in_pair in L.
  unfold g_prep_hooks in I. simpl in I.
  repeat (destruct I as [I|I]; [try discriminate|]); try contradiction; inversion I; subst tb;
    unfold g_ecdsa_tbl, g_ecdhes_tbl in L; simpl in L;
    repeat (destruct L as [L|L]; [inversion L; simpl; tauto|]); contradiction.
Qed.

Lemma curve_of_name_cstr c : In c [g_P256; g_P384; g_P521; g_K256] -> g_curve_of_name (cstr c) = g_curve_of_name c.
Proof. simpl. intros [<-|[<-|[<-|[<-|[]]]]]; reflexivity. Qed.

Section PerType.
  Variable X : g_ext.
  Hypothesis rand_wf : wf_bytes (x_rand X).

  (* ---- oct ---- *)
  Theorem gen_oct_exact t k :
    jwk_gen X t = Some k -> nodup_keys t -> g_req_s g_kty k = Some g_oct ->
    exists len : Z,
      g_oct_request t = Some len /\ (0 < len <= Z.of_N keymax)%Z /\
      let r := take (Z.to_nat len) (x_rand X) in
      lookup g_k k = Some (JStr (enc r)) /\ dec (enc r) = Some r /\ length r = Z.to_nat len /\
      lookup g_bytes k = None.
  Proof.
    intros G ND Tk.
    destruct (gen_master X t k G ND rand_wf) as (j1 & j2 & h & P & O & O1 & ND1 & T & M & O2 & ND2 & F2 & Q & Ok & NDk & Tk' & Fk & KO).
    rewrite Tk in Tk'. assert (h = GMOct) by (apply make_kty_inj; inversion Tk'; reflexivity). subst h.
    destruct (make_oct_inv X _ _ M ND1 rand_wf) as (len & B & R & L & K & B2 & _ & _ & _).
    exists len. split; [|split; [exact R|]].
    - pose proof (prep_outcome _ _ P) as PO. pose proof (prep_kty _ _ _ P T) as PK. unfold g_oct_request, g_bytes_member.
      destruct (g_req_s g_alg t) as [a|].
      + destruct (g_alg_implies a) as [[L'|c| |]|]; try discriminate.
        * destruct PO as (_ & _ & _ & _ & B' & _). rewrite B in B'. inversion B'. reflexivity.
        * subst j1. rewrite B. reflexivity.
      + subst j1. rewrite B. reflexivity.
    - cbv zeta. split; [rewrite Fk by discriminate; exact K|].
      split; [apply dec_enc; apply wf_take; exact rand_wf|].
      split; [rewrite take_length; lia|]. exact (proj1 (proj2 (proj2 Q))).
  Qed.

  (* ---- RSA ---- *)
  Lemma g_rsa_request_congr j j' :
    is_object j = true -> is_object j' = true ->
    lookup g_bits j' = lookup g_bits j -> lookup g_e j' = lookup g_e j -> g_rsa_request j' = g_rsa_request j.
  Proof.
    destruct j; try discriminate. destruct j'; try discriminate. simpl. intros _ _ B E.
    rewrite B, E. reflexivity.
  Qed.

  Lemma g_rsa_request_ok j bits e :
    g_rsa_request j = Some (bits, e) ->
    (2048 <= bits <= g_rsa_max_bits)%Z /\ g_check_public_exponent e = true.
  Proof.
    unfold g_rsa_request. destruct j; try discriminate.
    destruct (match alookup g_bits m with
              | Some (JInt z) => Some z | None => Some 2048%Z | _ => None end) as [b|] eqn:B; [|discriminate].
    destruct ((b <? 2048)%Z || (g_rsa_max_bits <? b)%Z) eqn:Lb; [discriminate|].
    destruct (match match alookup g_e m with Some v => v | None => JInt 65537 end with
              | JInt z => _ | JStr _ => _ | _ => None end) as [e'|]; [|discriminate].
    destruct (g_check_public_exponent e') eqn:C; [|discriminate].
    intro H; inversion H; subst. split; [lia|exact C].
  Qed.

  Theorem gen_rsa_members t k :
    jwk_gen X t = Some k -> nodup_keys t -> g_req_s g_kty k = Some g_RSA ->
    exists bits e rk,
      g_rsa_request t = Some (bits, e) /\ (2048 <= bits <= g_rsa_max_bits)%Z /\ g_check_public_exponent e = true /\
      x_rsa X bits e = Some rk /\ Z.of_N (N.size (rk_n rk)) = bits /\
      (forall m x, In (m, x) (g_rsa_fields rk) ->
         exists jm, lookup m k = Some jm /\ g_bn_decode_json jm = Some x /\
                    exists b, jm = JStr (enc b) /\ dec (enc b) = Some b /\ blen b = g_num_bytes x /\ g_os2ip b = x) /\
      lookup g_bits k = None.
  Proof.
    intros G ND Tk.
    destruct (gen_master X t k G ND rand_wf) as (j1 & j2 & h & P & O & O1 & ND1 & T & M & O2 & ND2 & F2 & Q & Ok & NDk & Tk' & Fk & KO).
    rewrite Tk in Tk'. assert (h = GMRsa) by (apply make_kty_inj; inversion Tk'; reflexivity). subst h.
    destruct (make_rsa_inv X _ _ M ND1) as (bits & e & rk & Rq & Gk & Sz & Mem & B2 & _ & _ & _).
    destruct (gen_prep_frame _ _ P) as (_ & _ & F1).
    assert (Rt : g_rsa_request t = Some (bits, e)).
    { rewrite <- Rq. symmetry. apply g_rsa_request_congr; try assumption; apply F1; unfold prep_touched; simpl;
        intros [E|[E|[E|[]]]]; discriminate. }
    destruct (g_rsa_request_ok _ _ _ Rq) as (Rb & Ce).
    exists bits, e, rk. split; [exact Rt|]. split; [exact Rb|]. split; [exact Ce|]. split; [exact Gk|].
    split; [exact Sz|]. split.
    - intros m x Hm. destruct (Mem m x Hm) as (jm & L & En).
      exists jm. split.
      + unfold g_rsa_fields in Hm. simpl in Hm.
        rewrite Fk; [exact L| | |]; intro E; subst m; repeat (destruct Hm as [Hm|Hm]; [discriminate|]); exact Hm.
      + destruct (g_bn_roundtrip _ _ _ En) as (D & b & -> & Db & W & V). split; [exact D|]. exists b. auto.
    - exact (proj2 (proj2 (proj2 Q))).
  Qed.

  (* ---- EC ---- *)
  (* the curve a template asks for: the algorithm's, else "crv", else P-256 (ec.c) *)
  Definition g_crv_request (t : json) : option g_curve :=
    match g_req_s g_alg t with
    | Some a =>
        match g_alg_implies a with
        | Some (IEc c) => g_curve_of_name c
        | Some IEcAny => match lookup g_crv t with
                         | None => Some GC521
                         | Some (JStr s) => g_curve_of_name (cstr s)
                         | Some _ => None
                         end
        | Some _ => None
        | None => g_ec_request t
        end
    | None => g_ec_request t
    end.

  Theorem gen_ec_members t k :
    jwk_gen X t = Some k -> nodup_keys t -> g_req_s g_kty k = Some g_EC ->
    exists c ek,
      g_crv_request t = Some c /\ x_ec X c = Some ek /\
      lookup g_crv k = Some (JStr (g_curve_name c)) /\
      (forall m x, In (m, x) (g_ec_fields ek) ->
         exists b, lookup m k = Some (JStr (enc b)) /\ dec (enc b) = Some b /\
                   blen b = g_curve_len c /\ g_os2ip b = x).
  Proof.
    intros G ND Tk.
    destruct (gen_master X t k G ND rand_wf) as (j1 & j2 & h & P & O & O1 & ND1 & T & M & O2 & ND2 & F2 & Q & Ok & NDk & Tk' & Fk & KO).
    rewrite Tk in Tk'. assert (h = GMEc) by (apply make_kty_inj; inversion Tk'; reflexivity). subst h.
    destruct (make_ec_inv X _ _ M ND1) as (c & ek & Rq & Gk & Cv & Mem & _ & _ & _).
    exists c, ek. split; [|split; [exact Gk|split]].
    - pose proof (prep_outcome _ _ P) as PO. pose proof (prep_kty _ _ _ P T) as PK. unfold g_crv_request.
      unfold g_ec_request in Rq. rewrite g_opt_s_lookup in Rq by exact O1.
      destruct (g_req_s g_alg t) as [a|].
      + destruct (g_alg_implies a) as [[L'|c'| |]|] eqn:AI; try discriminate.
        * destruct PO as (_ & _ & _ & C' & _). rewrite C' in Rq.
          rewrite curve_of_name_cstr in Rq by (eapply implied_ec_curve; eauto). exact Rq.
        * destruct PO as (_ & SA & _ & C' & _). rewrite C' in Rq. unfold g_str_or_absent in SA.
          destruct (lookup g_crv t) as [[| | | |s| |]|]; try discriminate.
          -- cbv iota beta in Rq. rewrite cstr_idem in Rq. exact Rq.
          -- exact Rq.
        * subst j1. unfold g_ec_request. rewrite g_opt_s_lookup by exact O. exact Rq.
      + subst j1. unfold g_ec_request. rewrite g_opt_s_lookup by exact O. exact Rq.
    - rewrite Fk by discriminate. exact Cv.
    - intros m x Hm. destruct (Mem m x Hm) as (jm & L & En).
      destruct (g_bn_roundtrip _ _ _ En) as (D & b & -> & Db & W & V).
      exists b. split.
      + unfold g_ec_fields in Hm. simpl in Hm.
        rewrite Fk; [exact L| | |]; intro E; subst m; repeat (destruct Hm as [Hm|Hm]; [discriminate|]); exact Hm.
      + split; [exact Db|]. split; [|exact V]. rewrite W. unfold g_width. destruct c; reflexivity.
  Qed.
End PerType.

(* ------------------------------------------------------------------------------------------------ *)
(* the exponent rule, the narrowing of "bits" *)

Lemma size_le_iff n k : N.size n <= k <-> n < 2 ^ k.
Proof.
  split.
  - intro H. eapply N.lt_le_trans; [apply N.size_gt|]. apply N.pow_le_mono_r; [discriminate|exact H].
  - intro H. destruct (N.le_gt_cases (N.size n) k) as [L|L]; [exact L|]. exfalso.
    assert (P : 2 ^ N.succ k <= 2 ^ N.size n) by (apply N.pow_le_mono_r; [discriminate|lia]).
    pose proof (N.size_le n) as S. rewrite N.succ_double_spec in S. rewrite N.pow_succ_r' in P. lia.
Qed.

(* rsa.c check_public_exponent, as arithmetic: 3, or odd and 2^16 <= e < 2^256 *)
Theorem public_exponent_rule e :
  g_check_public_exponent e = true <-> e = 3 \/ (N.odd e = true /\ 2 ^ 16 <= e < 2 ^ 256).
Proof.
  unfold g_check_public_exponent, g_num_bits.
  assert (A : (16 <? N.size e) = true <-> 2 ^ 16 <= e).
  { rewrite N.ltb_lt. pose proof (size_le_iff e 16). lia. }
  assert (B : (N.size e <? 257) = true <-> e < 2 ^ 256).
  { rewrite N.ltb_lt. pose proof (size_le_iff e 256). lia. }
  rewrite orb_true_iff, !andb_true_iff, N.eqb_eq, A, B. tauto.
Qed.

Corollary public_exponent_small_rejected e : e < 65536 -> e <> 3 -> g_check_public_exponent e = false.
Proof.
  intros L N3. destruct (g_check_public_exponent e) eqn:C; [|reflexivity].
  apply public_exponent_rule in C as [C|(_ & C & _)]; [contradiction|].
  change (2 ^ 16) with 65536 in C. lia.
Qed.

Corollary public_exponent_even_rejected e : N.odd e = false -> g_check_public_exponent e = false.
Proof.
  intro Ev. destruct (g_check_public_exponent e) eqn:C; [|reflexivity].
  apply public_exponent_rule in C as [->|(C & _)]; [discriminate|congruence].
Qed.

(* what mkrsa reads from "bits": the 64-bit value itself ("I" format) *)
Definition g_bits_read (t : json) : option Z :=
  match lookup g_bits t with
  | None => Some 2048%Z
  | Some (JInt z) => Some z
  | Some _ => None
  end.

(* the public exponent mkrsa hands to OpenSSL; a negative integer is refused *)
Definition g_exp_read (t : json) : option N :=
  match lookup g_e t with
  | None => Some 65537
  | Some (JInt z) => if (z <? 0)%Z then None else Some (g_to_ulong z)
  | Some (JStr s) => g_bn_decode_json (JStr s)
  | Some _ => None
  end.

Lemma g_rsa_request_flat t :
  is_object t = true ->
  g_rsa_request t =
    match g_bits_read t with
    | None => None
    | Some bits =>
        if (bits <? 2048)%Z || (g_rsa_max_bits <? bits)%Z then None
        else match g_exp_read t with
             | Some e => if g_check_public_exponent e then Some (bits, e) else None
             | None => None
             end
    end.
Proof.
  destruct t; try discriminate. intros _. unfold g_rsa_request, g_bits_read, g_exp_read. cbn [lookup].
  destruct (alookup g_bits m) as [[]|]; try reflexivity;
    match goal with |- context [(?b <? 2048)%Z || _] => destruct ((b <? 2048)%Z || (g_rsa_max_bits <? b)%Z); try reflexivity end;
    destruct (alookup g_e m) as [[]|]; reflexivity.
Qed.

Lemma g_rsa_request_obj t r : g_rsa_request t = Some r -> is_object t = true.
Proof. destruct t; try discriminate. reflexivity. Qed.

Lemma g_rsa_request_bits t bits e : g_rsa_request t = Some (bits, e) -> g_bits_read t = Some bits.
Proof.
  intro H. pose proof (g_rsa_request_obj _ _ H) as O. rewrite g_rsa_request_flat in H by exact O.
  destruct (g_bits_read t) as [b|]; [|discriminate]. destruct ((b <? 2048)%Z || (g_rsa_max_bits <? b)%Z); [discriminate|].
  destruct (g_exp_read t) as [e'|]; [|discriminate]. destruct (g_check_public_exponent e'); [|discriminate].
  inversion H; reflexivity.
Qed.

Lemma g_rsa_request_exp t bits e : g_rsa_request t = Some (bits, e) -> g_exp_read t = Some e.
Proof.
  intro H. pose proof (g_rsa_request_obj _ _ H) as O. rewrite g_rsa_request_flat in H by exact O.
  destruct (g_bits_read t) as [b|]; [|discriminate]. destruct ((b <? 2048)%Z || (g_rsa_max_bits <? b)%Z); [discriminate|].
  destruct (g_exp_read t) as [e'|]; [|discriminate]. destruct (g_check_public_exponent e'); [|discriminate].
  inversion H; reflexivity.
Qed.

(* the size is the 64-bit value of "bits": under 2048 or over OPENSSL_RSA_MAX_MODULUS_BITS is refused *)
Theorem rsa_bits_out_of_range_rejected t z :
  lookup g_bits t = Some (JInt z) -> (z < 2048 \/ g_rsa_max_bits < z)%Z -> g_rsa_request t = None.
Proof.
  intros B L. destruct (g_rsa_request t) as [[bits e]|] eqn:R; [|reflexivity].
  pose proof (g_rsa_request_bits _ _ _ R) as Rb. unfold g_bits_read in Rb. rewrite B in Rb. inversion Rb; subst.
  apply g_rsa_request_ok in R as [R _]. lia.
Qed.

(* an integer exponent reaches OpenSSL as the number it is (json_int_t is below 2^63); a negative one is refused *)
Theorem rsa_int_exponent_as_requested t z bits e :
  lookup g_e t = Some (JInt z) -> (z < 18446744073709551616)%Z -> g_rsa_request t = Some (bits, e) ->
  (0 <= z)%Z /\ e = Z.to_N z.
Proof.
  intros E Hi R. apply g_rsa_request_exp in R. unfold g_exp_read in R. rewrite E in R.
  destruct (z <? 0)%Z eqn:Neg; [discriminate|]. inversion R. split; [lia|].
  unfold g_to_ulong. rewrite Z.mod_small by lia. reflexivity.
Qed.

Theorem rsa_negative_exponent_rejected t z :
  lookup g_e t = Some (JInt z) -> (z < 0)%Z -> g_rsa_request t = None.
Proof.
  intros E Neg. destruct (g_rsa_request t) as [[bits e]|] eqn:R; [|reflexivity].
  apply g_rsa_request_exp in R. unfold g_exp_read in R. rewrite E in R.
  replace (z <? 0)%Z with true in R by lia. discriminate.
Qed.

(* ------------------------------------------------------------------------------------------------ *)
(* which templates can be accepted at all *)

Definition g_make_of_kty (s : bytes) : option g_make :=
  if bytes_eqb s g_RSA then Some GMRsa else if bytes_eqb s g_oct then Some GMOct
  else if bytes_eqb s g_EC then Some GMEc else None.

(* the key type a template asks for: the algorithm's, else "kty" *)
Definition g_kty_request (t : json) : option g_make :=
  let by_kty := match g_req_s g_kty t with Some s => g_make_of_kty s | None => None end in
  match g_req_s g_alg t with
  | Some a =>
      match g_alg_implies a with
      | Some (IOct _) => Some GMOct
      | Some (IEc _) | Some IEcAny => Some GMEc
      | Some IRsa => Some GMRsa
      | None => by_kty
      end
  | None => by_kty
  end.

Definition g_not_bad (o : g_ostr) : bool := match o with GBad => false | _ => true end.

(* a template that names something generable, consistently, with supported parameters *)
Definition g_template_ok (t : json) : bool :=
  is_object t && g_not_bad (g_opt_s g_alg t) && g_not_bad (g_opt_s g_use t) &&
  g_consistent_with_alg t &&
  match g_kty_request t with
  | Some GMOct => match g_oct_request t with
                  | Some len => (0 <? len)%Z && (len <=? Z.of_N keymax)%Z
                  | None => false
                  end
  | Some GMRsa => match g_rsa_request t with Some (bits, _) => Z.even bits | None => false end   (* odd: mkrsa refuses *)
  | Some GMEc => match g_crv_request t with Some _ => true | None => false end
  | None => false
  end.

(* 2 * (b / 2) is b exactly when b is even *)
Lemma half_twice_even b : (b = 2 * (b / 2))%Z <-> Z.even b = true.
Proof.
  split.
  - intro H. apply Z.even_spec. exists (b / 2)%Z. exact H.
  - intro H. apply Z.even_spec in H. destruct H as [h ->].
    replace (2 * h / 2)%Z with h by (rewrite Z.mul_comm, Z.div_mul by discriminate; reflexivity). reflexivity.
Qed.

Lemma g_make_of_kty_spec h : g_make_of_kty (g_make_kty h) = Some h.
Proof. destruct h; reflexivity. Qed.

Section Accept.
  Variable X : g_ext.
  Hypothesis rand_wf : wf_bytes (x_rand X).
  (* OpenSSL 3: the modulus RSA_generate_key_ex delivers has 2 * (bits / 2) bits (only needed for the requests
     mkrsa lets through) *)
  Hypothesis rsa_size : forall bits e rk,
    (2048 <= bits <= g_rsa_max_bits)%Z -> g_check_public_exponent e = true ->
    x_rsa X bits e = Some rk -> Z.of_N (N.size (rk_n rk)) = (2 * (bits / 2))%Z.

  Lemma prep_consistent t j1 : gen_prep t = Some j1 -> g_consistent_with_alg t = true.
  Proof.
    intro P. pose proof (prep_outcome _ _ P) as PO. unfold g_consistent_with_alg.
    destruct (g_req_s g_alg t) as [a|]; [|reflexivity].
    destruct (g_alg_implies a) as [[L|c| |]|]; [| | | |reflexivity].
    - destruct PO as (_ & A1 & A2 & _). rewrite A1, A2. reflexivity.
    - destruct PO as (A1 & A2 & _). rewrite A1, A2. reflexivity.
    - destruct PO as (A1 & A2 & _). rewrite A1, A2. reflexivity.
    - destruct PO as (A1 & _). exact A1.
  Qed.

  (* the key type of an accepted key is the one the template asks for *)
  Lemma gen_kty_as_requested t k :
    jwk_gen X t = Some k -> nodup_keys t ->
    exists h, g_kty_request t = Some h /\ g_req_s g_kty k = Some (g_make_kty h).
  Proof.
    intros G ND.
    destruct (gen_master X t k G ND rand_wf) as (j1 & j2 & h & P & O & O1 & ND1 & T & M & O2 & ND2 & F2 & Q & Ok & NDk & Tk & Fk & KO).
    exists h. split; [|exact Tk].
    pose proof (prep_kty _ _ _ P T) as PK. unfold g_kty_request.
    destruct (g_req_s g_alg t) as [a|].
    - destruct (g_alg_implies a) as [[L|c| |]|]; try (subst h; reflexivity).
      subst j1. rewrite T. apply g_make_of_kty_spec.
    - subst j1. rewrite T. apply g_make_of_kty_spec.
  Qed.

  (* every accepted template is a consistent request for something generable (an RSA size that OpenSSL
     delivers exactly, i.e. an even one: mkrsa refuses a key that is not of the requested size) *)
  Theorem gen_accepted_ok t k :
    jwk_gen X t = Some k -> nodup_keys t -> g_template_ok t = true.
  Proof.
    intros G ND.
    destruct (gen_master X t k G ND rand_wf) as (j1 & j2 & h0 & P & O & _ & _ & _ & _ & _ & _ & _ & Q & _).
    destruct (alg_use_ops_kept X rand_wf t k G ND) as (_ & Ak & Uk & _).
    destruct Q as (A2 & U2 & _ & _).
    unfold g_template_ok. rewrite O, <- Ak, <- Uk.
    replace (g_not_bad (g_opt_s g_alg k)) with true by (destruct (g_opt_s g_alg k); try reflexivity; contradiction).
    replace (g_not_bad (g_opt_s g_use k)) with true by (destruct (g_opt_s g_use k); try reflexivity; contradiction).
    rewrite (prep_consistent _ _ P). cbn [andb].
    destruct (gen_kty_as_requested t k G ND) as (h & KR & Tk).
    rewrite KR. destruct h.
    - destruct (gen_rsa_members X rand_wf t k G ND Tk) as (bits & e & rk & R & Rb & Ce & Gk & Sz & _). rewrite R.
      apply half_twice_even. rewrite <- Sz at 1. exact (rsa_size bits e rk Rb Ce Gk).
    - destruct (gen_oct_exact X rand_wf t k G ND Tk) as (len & R & Rg & _). rewrite R. lia.
    - destruct (gen_ec_members X rand_wf t k G ND Tk) as (c & ek & R & _). rewrite R. reflexivity.
  Qed.

  (* ... so everything else is rejected: contradictory, unsupported, too small, odd RSA size, nothing generable *)
  Corollary gen_rejects t : nodup_keys t -> g_template_ok t = false -> jwk_gen X t = None.
  Proof.
    intros ND H. destruct (jwk_gen X t) as [k|] eqn:G; [|reflexivity].
    rewrite (gen_accepted_ok t k G ND) in H. discriminate.
  Qed.

  (* does not depend on what the RSA generator delivers *)
  Corollary gen_contradictory_rejected t : nodup_keys t -> g_consistent_with_alg t = false -> jwk_gen X t = None.
  Proof.
    intros ND H. destruct (jwk_gen X t) as [k|] eqn:G; [|reflexivity].
    destruct (gen_master X t k G ND rand_wf) as (j1 & j2 & h & P & _).
    rewrite (prep_consistent _ _ P) in H. discriminate.
  Qed.

  (* an odd RSA size is always refused: OpenSSL would deliver a key one bit short, mkrsa fails on it *)
  Theorem gen_rsa_odd_size_rejected t bits e :
    nodup_keys t -> g_kty_request t = Some GMRsa -> g_rsa_request t = Some (bits, e) -> Z.odd bits = true ->
    jwk_gen X t = None.
  Proof.
    intros ND KR R Od. apply gen_rejects; [exact ND|]. unfold g_template_ok. rewrite KR, R.
    rewrite <- Z.negb_odd, Od. apply andb_false_r.
  Qed.
End Accept.

(* ------------------------------------------------------------------------------------------------ *)
(* the tables *)

(* algorithm -> key it implies, written out: JWA (RFC 7518) key sizes for the symmetric algorithms
   (HMAC: hash output size; AES-KW / GCMKW / PBES2 wrap key: 128/192/256 bit; GCM content key: 128/192/256;
   CBC-HMAC content key: 256/384/512), the curve of the ECDSA algorithm, RSA; jose's choices for ECDH-ES
   (P-521, or the curve matching the wrap size) and for ECDH / ECMR (any curve, P-521 by default) *)
Definition g_alg_key_table : list (bytes * g_implied) :=
  [(ga_HS256, IOct 32);
   (ga_HS384, IOct 48);
   (ga_HS512, IOct 64);
   (ga_A128KW, IOct 16);
   (ga_A192KW, IOct 24);
   (ga_A256KW, IOct 32);
   (ga_A128GCMKW, IOct 16);
   (ga_A192GCMKW, IOct 24);
   (ga_A256GCMKW, IOct 32);
   (ga_A128GCM, IOct 16);
   (ga_A192GCM, IOct 24);
   (ga_A256GCM, IOct 32);
   (ga_A128CBC_HS256, IOct 32);
   (ga_A192CBC_HS384, IOct 48);
   (ga_A256CBC_HS512, IOct 64);
   (ga_PBES2_HS256_A128KW, IOct 16);
   (ga_PBES2_HS384_A192KW, IOct 24);
   (ga_PBES2_HS512_A256KW, IOct 32);
   (ga_ES256, IEc g_P256);
   (ga_ES384, IEc g_P384);
   (ga_ES512, IEc g_P521);
   (ga_ES256K, IEc g_K256);
   (ga_ECDH_ES, IEc g_P521);
   (ga_ECDH_ES_A128KW, IEc g_P256);
   (ga_ECDH_ES_A192KW, IEc g_P384);
   (ga_ECDH_ES_A256KW, IEc g_P521);
   (ga_ECDH, IEcAny);
   (ga_ECMR, IEcAny);
   (ga_RSA1_5, IRsa);
   (ga_RSA_OAEP, IRsa);
   (ga_RSA_OAEP_224, IRsa);
   (ga_RSA_OAEP_256, IRsa);
   (ga_RSA_OAEP_384, IRsa);
   (ga_RSA_OAEP_512, IRsa);
   (ga_RS256, IRsa);
   (ga_RS384, IRsa);
   (ga_RS512, IRsa);
   (ga_PS256, IRsa);
   (ga_PS384, IRsa);
   (ga_PS512, IRsa)]%Z.

Definition g_implied_eqb (x y : g_implied) : bool :=
  match x, y with
  | IOct a, IOct b => (a =? b)%Z
  | IEc a, IEc b => bytes_eqb a b
  | IEcAny, IEcAny => true
  | IRsa, IRsa => true
  | _, _ => false
  end.

Lemma g_implied_eqb_eq x y : g_implied_eqb x y = true -> x = y.
Proof.
  destruct x, y; simpl; try discriminate; intro H; try reflexivity.
  - apply Z.eqb_eq in H. subst. reflexivity.
  - apply bytes_eqb_eq in H. subst. reflexivity.
Qed.

Definition g_opt_implied_eqb (x y : option g_implied) : bool :=
  match x, y with
  | Some a, Some b => g_implied_eqb a b
  | None, None => true
  | _, _ => false
  end.

Lemma g_handler_none a : ~ In a (flat_map g_names_of g_prep_hooks) -> g_handler a = None.
Proof.
  intro N. unfold g_handler. destruct (find (fun h => g_handles_alg h a) g_prep_hooks) as [h|] eqn:F; [|reflexivity].
  apply find_some in F as [I H]. exfalso. apply N. apply in_flat_map. exists h. split; [exact I|].
  apply handles_in_names. exact H.
Qed.

(* for EVERY string: what the PREP hooks imply is exactly the table *)
Theorem alg_implies_table a : g_alg_implies a = alookup a g_alg_key_table.
Proof.
  destruct (in_dec bytes_eq_dec a (flat_map g_names_of g_prep_hooks)) as [I|N].
  - assert (H : forallb (fun a => g_opt_implied_eqb (g_alg_implies a) (alookup a g_alg_key_table))
                        (flat_map g_names_of g_prep_hooks) = true) by (vm_compute; reflexivity).
    rewrite forallb_forall in H. specialize (H a I).
    destruct (g_alg_implies a), (alookup a g_alg_key_table); simpl in H; try discriminate; [|reflexivity].
    f_equal. apply g_implied_eqb_eq. exact H.
  - unfold g_alg_implies. rewrite (g_handler_none a N).
    assert (K : forallb (fun a => existsb (bytes_eqb a) (flat_map g_names_of g_prep_hooks)) (map fst g_alg_key_table) = true)
      by (vm_compute; reflexivity).
    destruct (alookup a g_alg_key_table) eqn:L; [|reflexivity]. exfalso. apply N.
    apply alookup_some_in in L. rewrite forallb_forall in K. apply existsb_eqb_in. apply K. exact L.
Qed.

(* only registered algorithm names imply anything *)
Theorem alg_implies_registered a i : g_alg_implies a = Some i -> In a (map a_name alg_registry).
Proof.
  intro H. apply prep_names_registered.
  destruct (in_dec bytes_eq_dec a (flat_map g_names_of g_prep_hooks)) as [I|N]; [exact I|].
  unfold g_alg_implies in H. rewrite (g_handler_none a N) in H. discriminate.
Qed.

(* key_ops by kind of algorithm *)
Definition g_kind_ops (k : alg_kind) : option json :=
  match k with
  | KSign => Some (JArr [JStr g_sign; JStr g_verify])
  | KWrap => Some (JArr [JStr g_wrapKey; JStr g_unwrapKey])
  | KEncr => Some (JArr [JStr g_encrypt; JStr g_decrypt])
  | KExch => Some (JArr [JStr g_deriveKey])
  | KHash | KComp => None
  end.

Theorem expected_ops_table :
  map (fun e => g_expected_ops (a_name e)) alg_registry = map (fun e => g_kind_ops (a_kind e)) alg_registry.
Proof. vm_compute. reflexivity. Qed.

Theorem expected_ops_unregistered a : ~ In a (map a_name alg_registry) -> g_expected_ops a = None.
Proof.
  intro N. unfold g_expected_ops. destruct (find (fun e => bytes_eqb a (a_name e)) alg_registry) as [e|] eqn:F; [|reflexivity].
  apply find_some in F as [I E]. apply bytes_eqb_eq in E. exfalso. apply N. subst a. apply in_map. exact I.
Qed.

(* does the inferred key_ops grant the operations the algorithm itself checks (the registry's prm columns)? *)
Definition g_ops_listed (op : option bytes) (ko : option json) : bool :=
  match op with
  | None => true
  | Some o => match ko with
              | Some (JArr l) => existsb (fun v => match v with JStr s => bytes_eqb o s | _ => false end) l
              | _ => false
              end
  end.

Definition g_ops_grant (e : alg_entry) : bool :=
  let ko := g_expected_ops (a_name e) in
  g_ops_listed (a_prm1 e) ko && g_ops_listed (a_prm2 e) ko.

Definition ga_dir : bytes := [100; 105; 114].

Theorem inferred_ops_grant_alg e :
  In e alg_registry -> a_name e <> ga_dir -> g_ops_grant e = true.
Proof.
  assert (H : forallb (fun e => bytes_eqb (a_name e) ga_dir || g_ops_grant e) alg_registry = true) by (vm_compute; reflexivity).
  rewrite forallb_forall in H. intros I N. specialize (H e I). apply orb_true_iff in H as [H|H]; [|exact H].
  apply bytes_eqb_eq in H. contradiction.
Qed.

(* ------------------------------------------------------------------------------------------------ *)
(* randomness is passed through: equal keys come from equal random octets *)

Theorem gen_oct_injective X1 X2 t k :
  wf_bytes (x_rand X1) -> wf_bytes (x_rand X2) -> nodup_keys t ->
  jwk_gen X1 t = Some k -> jwk_gen X2 t = Some k -> g_req_s g_kty k = Some g_oct ->
  exists len, g_oct_request t = Some len /\
              take (Z.to_nat len) (x_rand X1) = take (Z.to_nat len) (x_rand X2).
Proof.
  intros W1 W2 ND G1 G2 T.
  destruct (gen_oct_exact X1 W1 t k G1 ND T) as (l1 & R1 & _ & K1 & D1 & _).
  destruct (gen_oct_exact X2 W2 t k G2 ND T) as (l2 & R2 & _ & K2 & D2 & _).
  rewrite R1 in R2. inversion R2; subst l2. exists l1. split; [exact R1|].
  cbv zeta in *. rewrite K1 in K2. inversion K2 as [E]. rewrite E in D1. rewrite D1 in D2. inversion D2. reflexivity.
Qed.

(* ------------------------------------------------------------------------------------------------ *)
(* with what OpenSSL guarantees about its generators (hypotheses, never axioms) *)

Definition g_member_num (m : bytes) (k : json) : option N :=
  match lookup m k with Some j => g_bn_decode_json j | None => None end.

(* PKCS #1 / RFC 8017 3.2 consistency of a two-prime private key, the exponent asked for, and the modulus
   size: OpenSSL 3 (SP 800-56B generation) makes two primes of bits/2 bits whose product has exactly
   2 * (bits / 2) bits -- the requested size when it is even, one bit less when it is odd (observed on every run
   by the oracle of tools/props/c11.py: 2049 -> 2048) *)
Definition g_rsa_good (bits : Z) (e : N) (rk : g_rsa_key) : Prop :=
  rk_e rk = e /\ Z.of_N (N.size (rk_n rk)) = (2 * (bits / 2))%Z /\
  rk_n rk = rk_p rk * rk_q rk /\ 1 < rk_p rk /\ 1 < rk_q rk /\
  (rk_d rk * rk_e rk) mod N.lcm (rk_p rk - 1) (rk_q rk - 1) = 1 mod N.lcm (rk_p rk - 1) (rk_q rk - 1) /\
  rk_dp rk = rk_d rk mod (rk_p rk - 1) /\ rk_dq rk = rk_d rk mod (rk_q rk - 1) /\
  (rk_qi rk * rk_q rk) mod rk_p rk = 1.

Definition g_curve_params (c : g_curve) : curve Z :=
  match c with GC256 => p256 | GC384 => p384 | GC521 => p521 | GCK256 => secp256k1 end.

(* SEC 1 3.2.1: 1 <= d < n, (x, y) = d G, a valid public point *)
Definition g_ec_good (c : g_curve) (ek : g_ec_key) : Prop :=
  valid_private zops (g_curve_params c) (Z.of_N (ek_d ek)) (Z.of_N (ek_x ek)) (Z.of_N (ek_y ek)) = true /\
  valid_public zops (g_curve_params c) (Z.of_N (ek_x ek)) (Z.of_N (ek_y ek)) = true.

Section OpenSSL.
  Variable X : g_ext.
  Hypothesis rand_wf : wf_bytes (x_rand X).
  Hypothesis openssl_rsa : forall bits e rk, x_rsa X bits e = Some rk -> g_rsa_good bits e rk.
  Hypothesis openssl_ec : forall c ek, x_ec X c = Some ek -> g_ec_good c ek.

  Theorem gen_rsa_consistent t k :
    jwk_gen X t = Some k -> nodup_keys t -> g_req_s g_kty k = Some g_RSA ->
    exists bits e rk,
      g_bits_read t = Some bits /\ (2048 <= bits <= g_rsa_max_bits)%Z /\ g_exp_read t = Some e /\
      (e = 3 \/ (N.odd e = true /\ 2 ^ 16 <= e < 2 ^ 256)) /\
      (forall m x, In (m, x) (g_rsa_fields rk) -> g_member_num m k = Some x) /\
      g_rsa_good bits e rk /\
      Z.of_N (N.size (rk_n rk)) = bits /\          (* the model alone: mkrsa refuses any other size *)
      Z.even bits = true /\                        (* with OpenSSL's 2 * (bits / 2) *)
      lookup g_bits k = None.
  Proof.
    intros G ND T.
    destruct (gen_rsa_members X rand_wf t k G ND T) as (bits & e & rk & R & B & C & Gk & Sz & Mem & NB).
    pose proof (openssl_rsa _ _ _ Gk) as Good.
    exists bits, e, rk. split; [eapply g_rsa_request_bits; eauto|]. split; [exact B|].
    split; [eapply g_rsa_request_exp; eauto|]. split; [apply public_exponent_rule; exact C|].
    split; [|split; [exact Good|split; [exact Sz|split; [|exact NB]]]].
    - intros m x Hm. destruct (Mem m x Hm) as (jm & L & D & _). unfold g_member_num. rewrite L. exact D.
    - destruct Good as (_ & S & _). apply half_twice_even. rewrite <- Sz at 1. exact S.
  Qed.

  (* under OpenSSL's behaviour an odd RSA size is always refused (never a key one bit short) *)
  Theorem gen_rsa_odd_refused t bits e :
    nodup_keys t -> g_kty_request t = Some GMRsa -> g_rsa_request t = Some (bits, e) -> Z.odd bits = true ->
    jwk_gen X t = None.
  Proof.
    intros ND KR R Od. destruct (jwk_gen X t) as [k|] eqn:G; [exfalso|reflexivity].
    destruct (gen_kty_as_requested X rand_wf t k G ND) as (h & KR' & Tk).
    rewrite KR in KR'. inversion KR'; subst h. cbn [g_make_kty] in Tk.
    destruct (gen_rsa_consistent t k G ND Tk) as (bits' & e' & rk & Br & _ & _ & _ & _ & _ & _ & Ev & _).
    rewrite (g_rsa_request_bits _ _ _ R) in Br. inversion Br; subst bits'.
    rewrite <- Z.negb_odd, Od in Ev. discriminate.
  Qed.

  Theorem gen_ec_valid t k :
    jwk_gen X t = Some k -> nodup_keys t -> g_req_s g_kty k = Some g_EC ->
    exists c ek,
      g_crv_request t = Some c /\ lookup g_crv k = Some (JStr (g_curve_name c)) /\
      (forall m x, In (m, x) (g_ec_fields ek) ->
         exists b, lookup m k = Some (JStr (enc b)) /\ dec (enc b) = Some b /\
                   blen b = g_curve_len c /\ g_os2ip b = x) /\
      g_ec_good c ek.
  Proof.
    intros G ND T.
    destruct (gen_ec_members X rand_wf t k G ND T) as (c & ek & R & Gk & Cv & Mem).
    exists c, ek. split; [exact R|]. split; [exact Cv|]. split; [exact Mem|]. apply openssl_ec. exact Gk.
  Qed.
End OpenSSL.

(* ------------------------------------------------------------------------------------------------ *)
(* witnesses: a concrete generator (fixed "random" values) for the closed examples *)

Definition g_demo_rsa : g_rsa_key :=
  (* p = 61, q = 53 (RFC 8017 is silent on toy sizes; the arithmetic is what matters here) *)
  {| rk_n := 3233; rk_e := 17; rk_d := 413; rk_p := 61; rk_q := 53; rk_dp := 53; rk_dq := 49; rk_qi := 38 |}.

(* a placeholder modulus of exactly b bits (b >= 2): 2^(b-1) + 1 *)
Definition g_demo_modulus (b : N) : N := 2 ^ (b - 1) + 1.

(* the RSA "generator" delivers a placeholder modulus of 2 * (bits / 2) bits, as OpenSSL 3 does (and as the
   driver ocaml/d_gen.ml does); the other members are those of the toy key above *)
Definition g_demo_rsa_for (bits : Z) (e : N) : g_rsa_key :=
  {| rk_n := g_demo_modulus (Z.to_N (2 * (bits / 2))); rk_e := e; rk_d := 413;
     rk_p := 61; rk_q := 53; rk_dp := 53; rk_dq := 49; rk_qi := 38 |}.

Definition g_demo_ext : g_ext :=
  {| x_rand := repeatN 7 1024;
     x_rsa := fun bits e => Some (g_demo_rsa_for bits e);
     x_ec := fun _ => Some {| ek_d := 1; ek_x := 2; ek_y := 3 |} |}.

Lemma g_demo_modulus_size b : 2 <= b -> N.size (g_demo_modulus b) = b.
Proof.
  intro Hb. unfold g_demo_modulus.
  assert (P : 2 ^ (b - 1) <> 0) by (apply N.pow_nonzero; discriminate).
  assert (L : 2 <= 2 ^ (b - 1)).
  { replace 2 with (2 ^ 1) at 1 by reflexivity. apply N.pow_le_mono_r; [discriminate|lia]. }
  assert (U : 2 ^ b = 2 * 2 ^ (b - 1)).
  { replace b with (N.succ (b - 1)) at 1 by lia. apply N.pow_succ_r'. }
  apply N.le_antisymm.
  - apply size_le_iff. rewrite U. generalize dependent (2 ^ (b - 1)). intros; lia.
  - apply N.nlt_ge. intro Lt. assert (Le : N.size (2 ^ (b - 1) + 1) <= b - 1) by lia.
    apply size_le_iff in Le. lia.
Qed.

Lemma g_demo_rsa_size bits e rk :
  (2 <= bits)%Z -> x_rsa g_demo_ext bits e = Some rk -> Z.of_N (N.size (rk_n rk)) = (2 * (bits / 2))%Z.
Proof.
  intros Hb H. change (Some (g_demo_rsa_for bits e) = Some rk) in H. injection H as <-.
  change (rk_n (g_demo_rsa_for bits e)) with (g_demo_modulus (Z.to_N (2 * (bits / 2)))).
  pose proof (Z.div_mod bits 2 ltac:(discriminate)) as Dm. pose proof (Z.mod_pos_bound bits 2 eq_refl) as Mb.
  assert (Hh : (1 <= bits / 2)%Z) by lia.
  rewrite g_demo_modulus_size by lia. lia.
Qed.

Definition g_tmpl (l : list (bytes * json)) : json := JObj l.

Section Gone.
  Variable X : g_ext.
  Hypothesis rand_wf : wf_bytes (x_rand X).

  (* generation-only members are gone from EVERY generated key, whatever its type *)
  Theorem gen_members_gone t k :
    jwk_gen X t = Some k -> nodup_keys t -> lookup g_bytes k = None /\ lookup g_bits k = None.
  Proof.
    intros G ND.
    destruct (gen_master X t k G ND rand_wf) as (j1 & j2 & h & _ & _ & _ & _ & _ & _ & _ & _ & _ & Q & _).
    destruct Q as (_ & _ & B1 & B2). auto.
  Qed.

  (* a "bytes" member that is not exactly the algorithm's size is a contradiction (0 included) *)
  Theorem gen_bytes_contradict_alg_rejected t a L v :
    nodup_keys t -> g_req_s g_alg t = Some a -> g_alg_implies a = Some (IOct L) ->
    lookup g_bytes t = Some v -> v <> JInt L -> jwk_gen X t = None.
  Proof.
    intros ND A AI B NV. apply (gen_contradictory_rejected X rand_wf t ND).
    unfold g_consistent_with_alg. rewrite A, AI. unfold g_bytes_agree. rewrite B.
    destruct v; try (rewrite andb_false_r; reflexivity).
    destruct (z =? L)%Z eqn:E; [|rewrite andb_false_r; reflexivity].
    apply Z.eqb_eq in E. subst. contradiction.
  Qed.
End Gone.

(* ------------------------------------------------------------------------------------------------ *)
(* where the current code still falls short of the property (closed witness) *)

Definition JS (s : bytes) : json := JStr s.

(* "dir": the inferred key_ops are those of a key-wrapping algorithm, but "dir" itself checks encrypt/decrypt *)
Theorem dir_key_ops_do_not_grant_dir :
  exists e, In e alg_registry /\ a_name e = ga_dir /\ g_ops_grant e = false /\
            g_expected_ops ga_dir = Some (JArr [JStr g_wrapKey; JStr g_unwrapKey]) /\
            a_prm1 e = Some g_encrypt /\ a_prm2 e = Some g_decrypt.
Proof.
  destruct (find (fun e => bytes_eqb (a_name e) ga_dir) alg_registry) as [e|] eqn:F; [|vm_compute in F; discriminate].
  exists e. pose proof (find_some _ _ F) as [I E]. apply bytes_eqb_eq in E.
  split; [exact I|]. split; [exact E|]. vm_compute in F. inversion F; subst e. vm_compute. auto.
Qed.

(* ------------------------------------------------------------------------------------------------ *)
(* the converse: a consistent, supported request is accepted when the generators deliver *)

Lemma prep_some t :
  is_object t = true -> g_consistent_with_alg t = true -> exists j1, gen_prep t = Some j1.
Proof.
  intros O H. rewrite gen_prep_spec. unfold g_consistent_with_alg, g_alg_implies in H.
  destruct (g_req_s g_alg t) as [a|] eqn:A; [|eauto].
  destruct (g_handler a) as [h|] eqn:Hh; [|eauto].
  unfold g_handler in Hh. apply find_some in Hh as [_ Hh].
  destruct h as [tb|tb|n|ns]; cbn [g_handles_alg] in Hh; unfold g_prep_execute; try rewrite A.
  - apply andb_true_iff in H as [A1 A2]. rewrite g_opt_s_lookup by exact O.
    unfold g_agrees in A1. unfold g_bytes_agree in A2. unfold g_opt_I.
    destruct t as [| | | | | |m]; try discriminate. cbn [lookup] in *.
    apply negb_true_iff in Hh. rewrite Hh.
    destruct (alookup g_kty m) as [[| | | |s| |]|]; try discriminate;
      destruct (alookup g_bytes m) as [[| |z| | | |]|] eqn:B; try discriminate; unfold g_other, g_has; cbn [lookup];
      rewrite ?B; try rewrite A1; cbn [negb andb];
      try (replace (negb (z =? g_alg2len tb a)%Z) with false by lia);
      apply g_set2_some; reflexivity.
  - destruct (alookup a tb) as [grp|] eqn:G; [|discriminate].
    apply andb_true_iff in H as [A1 A2]. rewrite !g_opt_s_lookup by exact O.
    unfold g_agrees in A1, A2.
    destruct (lookup g_kty t) as [[| | | |s| |]|]; try discriminate;
      destruct (lookup g_crv t) as [[| | | |c| |]|]; try discriminate; unfold g_other; try rewrite A1; try rewrite A2; cbn [negb];
      apply g_set2_some; exact O.
  - apply andb_true_iff in H as [A1 A2]. rewrite !g_opt_s_lookup by exact O. rewrite Hh. cbn [negb].
    unfold g_agrees in A1. unfold g_str_or_absent in A2.
    destruct (lookup g_crv t) as [[| | | |c| |]|]; try discriminate;
      destruct (lookup g_kty t) as [[| | | |s| |]|]; try discriminate; unfold g_other; try rewrite A1; cbn [negb];
      apply g_set2_some; exact O.
  - unfold g_prep_handles. rewrite A. cbn [g_handles_alg]. rewrite Hh. cbn [negb].
    rewrite g_opt_s_lookup by exact O. unfold g_agrees in H.
    destruct (lookup g_kty t) as [[| | | |s| |]|]; try discriminate; unfold g_other; try rewrite H; cbn [negb];
      apply jset_some; exact O.
Qed.

Lemma copy_val_some from names : NoDup names -> forall into,
  is_object into = true ->
  (forall n, In n names -> exists f, lookup n from = Some f /\
                                     (lookup n into = None \/ exists i, lookup n into = Some i /\ jequal i f = true)) ->
  exists j, g_copy_val from into names = Some j.
Proof.
  induction 1 as [|n r Hn ND IH]; intros into O H; simpl; [eauto|].
  destruct (H n (or_introl eq_refl)) as (f & Ef & Hi). rewrite Ef.
  destruct Hi as [Ei|(i & Ei & Q)]; rewrite Ei.
  - destruct (jset_some n f into O) as [j1 Es]. rewrite Es.
    destruct (jset_obj _ _ _ _ Es) as [_ O1]. apply IH; [exact O1|].
    intros x Hx. destruct (H x (or_intror Hx)) as (fx & Efx & Hix). exists fx. split; [exact Efx|].
    rewrite (lookup_jset_other _ _ _ _ _ Es) by (intro E; subst; contradiction). exact Hix.
  - rewrite Q. apply IH; [exact O|]. intros x Hx. apply H. right. exact Hx.
Qed.

Lemma curve_of_name_spec s c : g_curve_of_name s = Some c -> s = g_curve_name c.
Proof.
  unfold g_curve_of_name.
  destruct (bytes_eqb s g_P256) eqn:E1; [apply bytes_eqb_eq in E1; intro H; inversion H; subst; reflexivity|].
  destruct (bytes_eqb s g_P384) eqn:E2; [apply bytes_eqb_eq in E2; intro H; inversion H; subst; reflexivity|].
  destruct (bytes_eqb s g_P521) eqn:E3; [apply bytes_eqb_eq in E3; intro H; inversion H; subst; reflexivity|].
  destruct (bytes_eqb s g_K256) eqn:E4; [apply bytes_eqb_eq in E4; intro H; inversion H; subst; reflexivity|].
  discriminate.
Qed.

Definition g_rsa_material : list bytes := [g_n; g_p; g_d; g_q; g_dp; g_dq; g_qi].
Definition g_ec_material : list bytes := [g_x; g_y; g_d].

Lemma nodupb_names : NoDup g_rsa_members /\ NoDup g_ec_members.
Proof. split; apply nodupb_spec; vm_compute; reflexivity. Qed.

Section Converse.
  Variable X : g_ext.
  Hypothesis rand_wf : wf_bytes (x_rand X).
  (* the generators deliver: enough random octets, a key with non-zero members and a modulus of
     2 * (bits / 2) bits (OpenSSL 3) for every request mkrsa lets through, a key with non-zero members that
     fit the field width for every curve *)
  Hypothesis rand_enough : (N.to_nat keymax <= length (x_rand X))%nat.
  Hypothesis rsa_delivers : forall bits e, (2048 <= bits <= g_rsa_max_bits)%Z -> g_check_public_exponent e = true ->
    exists rk, x_rsa X bits e = Some rk /\ Forall (fun mx => snd mx <> 0) (g_rsa_fields rk) /\
               Z.of_N (N.size (rk_n rk)) = (2 * (bits / 2))%Z.
  Hypothesis ec_delivers : forall c,
    exists ek, x_ec X c = Some ek /\
               Forall (fun mx => snd mx <> 0 /\ g_num_bytes (snd mx) <= g_curve_len c) (g_ec_fields ek).

  Lemma make_oct_some j1 len :
    g_req_s g_kty j1 = Some g_oct -> lookup g_bytes j1 = Some (JInt len) ->
    (0 < len <= Z.of_N keymax)%Z -> exists j2, g_make_execute X GMOct j1 = Some j2.
  Proof.
    intros T B R. pose proof (g_req_s_obj _ _ _ T) as O.
    unfold g_make_execute, g_make_handles. rewrite T. cbn [g_make_kty]. rewrite bytes_eqb_refl. cbn [negb].
    rewrite B. replace ((len <=? 0)%Z || (Z.of_N keymax <? len)%Z) with false by lia.
    replace (length (x_rand X) <? Z.to_nat len)%nat with false by (symmetry; apply Nat.ltb_ge; lia).
    destruct (jdel_some _ _ _ B) as [j' D]. rewrite D.
    rewrite b64_enc_spec by (apply wf_take; exact rand_wf).
    apply jset_some. destruct (jdel_obj _ _ _ D) as [_ O']. exact O'.
  Qed.

  Lemma make_rsa_some j1 bits e :
    g_req_s g_kty j1 = Some g_RSA -> nodup_keys j1 -> g_rsa_request j1 = Some (bits, e) -> Z.even bits = true ->
    (forall m, In m g_rsa_material -> lookup m j1 = None) ->
    exists j2, g_make_execute X GMRsa j1 = Some j2.
  Proof.
    intros T ND R Ev NM. pose proof (g_req_s_obj _ _ _ T) as O.
    unfold g_make_execute, g_make_handles. rewrite T. cbn [g_make_kty]. rewrite bytes_eqb_refl. cbn [negb].
    unfold g_mkrsa. rewrite R. destruct (g_rsa_request_ok _ _ _ R) as [Rb Ce].
    destruct (rsa_delivers bits e Rb Ce) as (rk & G & NZ & Sz). rewrite G.
    apply half_twice_even in Ev. rewrite <- Ev in Sz. rewrite Sz, Z.eqb_refl.
    unfold g_rsa_fields in NZ.
    repeat match goal with H : Forall _ (_ :: _) |- _ => inversion H; clear H; subst end. cbn [snd] in *.
    unfold g_from_rsa, g_pack.
    repeat (rewrite g_bn_encode_json_some; [|assumption|unfold g_width; cbn; lia]).
    destruct (g_del_present_some g_bits j1 O) as [ja D1]. rewrite D1.
    destruct (g_del_present_spec _ _ _ D1 O ND) as (Oa & NDa & _ & Fa).
    destruct (g_del_present_some g_e ja Oa) as [jb D2]. rewrite D2.
    destruct (g_del_present_spec _ _ _ D2 Oa NDa) as (Ob & NDb & Eb & Fb).
    cbn [g_copy_val lookup alookup]. vm_compute bytes_eqb. cbn iota.
    apply copy_val_some; [exact (proj1 nodupb_names)|exact Ob|].
    intros m Hm.
    assert (Lb : lookup m jb = None).
    { destruct (bytes_eq_dec g_e m) as [<-|Ne]; [exact Eb|]. rewrite Fb by exact Ne.
      rewrite Fa; [apply NM|]; unfold g_rsa_members, g_rsa_material in *; simpl in *;
        [intuition congruence|intro E; subst m; intuition discriminate]. }
    unfold g_rsa_members in Hm. simpl in Hm.
    destruct Hm as [<-|[<-|[<-|[<-|[<-|[<-|[<-|[<-|[]]]]]]]]]; eexists; (split; [vm_compute lookup; reflexivity|left; exact Lb]).
  Qed.

  Lemma make_ec_some j1 c :
    g_req_s g_kty j1 = Some g_EC -> g_ec_request j1 = Some c ->
    (forall s, lookup g_crv j1 = Some (JStr s) -> cstr s = s) ->
    (forall m, In m g_ec_material -> lookup m j1 = None) ->
    exists j2, g_make_execute X GMEc j1 = Some j2.
  Proof.
    intros T R NF NM. pose proof (g_req_s_obj _ _ _ T) as O.
    unfold g_make_execute, g_make_handles. rewrite T. cbn [g_make_kty]. rewrite bytes_eqb_refl. cbn [negb].
    unfold g_ec_request in R.
    assert (CN : match g_opt_s g_crv j1 with GBad => None | o => g_curve_of_name (match o with GStr s => s | _ => g_P256 end) end = Some c).
    { destruct (g_opt_s g_crv j1); [exact R|exact R|discriminate]. }
    assert (CV : lookup g_crv j1 = None \/ lookup g_crv j1 = Some (JStr (g_curve_name c))).
    { rewrite g_opt_s_lookup in R by exact O. destruct (lookup g_crv j1) as [[| | | |s| |]|] eqn:L; try discriminate; [|left; reflexivity].
      right. rewrite (NF s eq_refl) in R. apply curve_of_name_spec in R. subst s. reflexivity. }
    destruct (g_opt_s g_crv j1) as [|s|]; try discriminate; rewrite CN;
      destruct (ec_delivers c) as (ek & G & NZ); rewrite G; unfold g_ec_fields in NZ;
      repeat match goal with H : Forall _ (_ :: _) |- _ => inversion H; clear H; subst end; cbn [snd] in *;
      unfold g_from_ec, g_pack;
      repeat (rewrite g_bn_encode_json_some; [|tauto|unfold g_width; destruct c; cbn [g_curve_len N.eqb] in *; tauto]);
      (apply copy_val_some; [exact (proj2 nodupb_names)|exact O|]);
      intros m Hm; unfold g_ec_members in Hm; simpl in Hm;
      destruct Hm as [<-|[<-|[<-|[<-|[]]]]]; eexists; (split; [vm_compute lookup; reflexivity|]);
      try (left; apply NM; unfold g_ec_material; simpl; tauto);
      (destruct CV as [CV|CV]; [left; exact CV|right; eexists; split; [exact CV|simpl; apply bytes_eqb_refl]]).
  Qed.
End Converse.

Lemma g_make_of_kty_inv s h : g_make_of_kty s = Some h -> s = g_make_kty h.
Proof.
  unfold g_make_of_kty.
  destruct (bytes_eqb s g_RSA) eqn:E1; [apply bytes_eqb_eq in E1; intro H; inversion H; subst; reflexivity|].
  destruct (bytes_eqb s g_oct) eqn:E2; [apply bytes_eqb_eq in E2; intro H; inversion H; subst; reflexivity|].
  destruct (bytes_eqb s g_EC) eqn:E3; [apply bytes_eqb_eq in E3; intro H; inversion H; subst; reflexivity|].
  discriminate.
Qed.

Lemma post_some j2 kty :
  g_not_bad (g_opt_s g_alg j2) = true -> g_not_bad (g_opt_s g_use j2) = true ->
  g_req_s g_kty j2 = Some kty ->
  (forall j', (forall key, key <> g_key_ops -> lookup key j' = lookup key j2) -> g_required_present kty j' = true) ->
  exists k, gen_post j2 = Some k.
Proof.
  intros A U T R. pose proof (g_req_s_obj _ _ _ T) as O. unfold gen_post. rewrite T.
  assert (Same : exists k, (if g_required_present kty j2 then Some j2 else None) = Some k).
  { rewrite R by auto. eauto. }
  destruct (g_opt_s g_alg j2) as [|a|]; try discriminate; destruct (g_opt_s g_use j2) as [|u|]; try discriminate;
    try exact Same.
  destruct (lookup g_key_ops j2); [exact Same|].
  unfold g_infer_ops. destruct (find (fun e => bytes_eqb a (a_name e)) alg_registry) as [e|]; [|exact Same].
  destruct (g_ops_of_kind (a_kind e)) as [|o1 ops]; [exact Same|].
  destruct (jset_some g_key_ops (JArr (map JStr (o1 :: ops))) j2 O) as [j3 S]. rewrite S.
  rewrite R; [eauto|]. intros key N. apply (lookup_jset_other _ _ _ _ _ S). congruence.
Qed.

Lemma required_present_intro kty j ty :
  find (fun t => bytes_eqb (t_kty t) kty) jwk_types = Some ty ->
  (forall r, In r (t_req ty) -> lookup r j <> None) -> g_required_present kty j = true.
Proof.
  intros F H. unfold g_required_present. rewrite F. apply forallb_forall. intros r Hr.
  unfold g_has. specialize (H r Hr). destruct (lookup r j); [reflexivity|contradiction].
Qed.

Section ConverseThm.
  Variable X : g_ext.
  Hypothesis rand_wf : wf_bytes (x_rand X).
  Hypothesis rand_enough : (N.to_nat keymax <= length (x_rand X))%nat.
  Hypothesis rsa_delivers : forall bits e, (2048 <= bits <= g_rsa_max_bits)%Z -> g_check_public_exponent e = true ->
    exists rk, x_rsa X bits e = Some rk /\ Forall (fun mx => snd mx <> 0) (g_rsa_fields rk) /\
               Z.of_N (N.size (rk_n rk)) = (2 * (bits / 2))%Z.
  Hypothesis ec_delivers : forall c,
    exists ek, x_ec X c = Some ek /\
               Forall (fun mx => snd mx <> 0 /\ g_num_bytes (snd mx) <= g_curve_len c) (g_ec_fields ek).

  (* what [rsa_delivers] says about the size is what Section Accept needs *)
  Lemma rsa_delivers_size bits e rk :
    (2048 <= bits <= g_rsa_max_bits)%Z -> g_check_public_exponent e = true ->
    x_rsa X bits e = Some rk -> Z.of_N (N.size (rk_n rk)) = (2 * (bits / 2))%Z.
  Proof.
    intros Rb Ce G. destruct (rsa_delivers bits e Rb Ce) as (rk' & G' & _ & Sz).
    rewrite G in G'. inversion G'; subst rk'. exact Sz.
  Qed.

  (* a template without preset key material and with a NUL-free "crv" *)
  Definition g_plain_template (t : json) : Prop :=
    nodup_keys t /\
    (forall m, In m (g_rsa_material ++ g_ec_material) -> lookup m t = None) /\
    (forall s, lookup g_crv t = Some (JStr s) -> cstr s = s).

  Theorem gen_ok_accepted t :
    g_plain_template t -> g_template_ok t = true -> exists k, jwk_gen X t = Some k.
  Proof.
    intros (ND & NM & NF) H. unfold g_template_ok in H.
    apply andb_true_iff in H as [H KR]. apply andb_true_iff in H as [H CA].
    apply andb_true_iff in H as [H U]. apply andb_true_iff in H as [O A].
    destruct (prep_some t O CA) as [j1 P].
    pose proof (prep_outcome _ _ P) as PO.
    destruct (gen_prep_frame _ _ P) as (O1' & ND1' & F1). specialize (O1' O). specialize (ND1' ND).
    assert (NT : forall key, In key [g_alg; g_use; g_bits; g_e] \/ In key (g_rsa_material ++ g_ec_material) -> ~ In key prep_touched).
    { intros key [Hk|Hk]; unfold prep_touched, g_rsa_material, g_ec_material in *; simpl in *; intuition (subst; discriminate). }
    assert (NM1 : forall m, In m (g_rsa_material ++ g_ec_material) -> lookup m j1 = None).
    { intros m Hm. rewrite F1 by (apply NT; right; exact Hm). apply NM. exact Hm. }
    destruct (g_kty_request t) as [h|] eqn:KRq; [|discriminate].
    (* the key type after PREP is the one asked for; the per-type request is readable from j1 *)
    assert (T1 : g_req_s g_kty j1 = Some (g_make_kty h) /\
                 match h with
                 | GMOct => exists len, g_oct_request t = Some len /\ lookup g_bytes j1 = Some (JInt len)
                 | GMRsa => True
                 | GMEc => g_ec_request j1 = g_crv_request t /\ (forall s, lookup g_crv j1 = Some (JStr s) -> cstr s = s)
                 end).
    { unfold g_kty_request in KRq.
      assert (Plain : j1 = t -> g_oct_request t = g_bytes_member t -> g_crv_request t = g_ec_request t ->
               match g_req_s g_kty t with Some s => g_make_of_kty s | None => None end = Some h ->
               g_req_s g_kty j1 = Some (g_make_kty h) /\
               match h with
               | GMOct => exists len, g_oct_request t = Some len /\ lookup g_bytes j1 = Some (JInt len)
               | GMRsa => True
               | GMEc => g_ec_request j1 = g_crv_request t /\ (forall s, lookup g_crv j1 = Some (JStr s) -> cstr s = s)
               end).
      { intros -> EO EC Hk. destruct (g_req_s g_kty t) as [s|] eqn:Ts; [|discriminate].
        apply g_make_of_kty_inv in Hk. subst s. split; [reflexivity|]. destruct h; [exact I| |auto].
        rewrite EO in *. unfold g_bytes_member in *.
        destruct (lookup g_bytes t) as [[| |z| | | |]|]; try discriminate. eauto. }
      destruct (g_req_s g_alg t) as [a|] eqn:Aa.
      2:{ apply Plain; [exact PO|unfold g_oct_request; rewrite Aa; reflexivity|unfold g_crv_request; rewrite Aa; reflexivity|exact KRq]. }
      destruct (g_alg_implies a) as [[L|c'| |]|] eqn:AI.
      5:{ apply Plain; [exact PO|unfold g_oct_request; rewrite Aa, AI; reflexivity|unfold g_crv_request; rewrite Aa, AI; reflexivity|exact KRq]. }
      all: inversion KRq; subst h.
      - destruct PO as (_ & _ & _ & K & B & _ & _). split; [exact (req_s_of_lookup g_kty j1 _ O1' K)|].
        exists L. split; [unfold g_oct_request; rewrite Aa, AI; reflexivity|exact B].
      - destruct PO as (_ & _ & K & C & _ & _). split; [exact (req_s_of_lookup g_kty j1 _ O1' K)|].
        pose proof (implied_ec_curve _ _ AI) as I4. unfold g_crv_request. rewrite Aa, AI.
        split.
        + unfold g_ec_request. rewrite g_opt_s_lookup by exact O1'. rewrite C. apply curve_of_name_cstr. exact I4.
        + intros s Hs. rewrite C in Hs. inversion Hs; subst s. simpl in I4.
          destruct I4 as [<-|[<-|[<-|[<-|[]]]]]; reflexivity.
      - destruct PO as (_ & SA & K & C & _ & _). split; [exact (req_s_of_lookup g_kty j1 _ O1' K)|].
        unfold g_str_or_absent in SA. unfold g_crv_request. rewrite Aa, AI. split.
        + unfold g_ec_request. rewrite g_opt_s_lookup by exact O1'. rewrite C.
          destruct (lookup g_crv t) as [[| | | |s| |]|]; try discriminate; [apply f_equal; apply cstr_idem|reflexivity].
        + intros s Hs. rewrite C in Hs. inversion Hs; subst s.
          destruct (lookup g_crv t) as [[| | | |s| |]|]; try discriminate; [apply cstr_idem|reflexivity].
      - destruct PO as (_ & K & _ & _ & _). split; [exact (req_s_of_lookup g_kty j1 _ O1' K)|exact I]. }
    destruct T1 as [T1 Rq1].
    assert (M : exists j2, g_make_execute X h j1 = Some j2).
    { destruct h.
      - destruct (g_rsa_request t) as [[bits e]|] eqn:R; [|discriminate].
        eapply (make_rsa_some X); try eassumption.
        + rewrite <- R. apply g_rsa_request_congr; try assumption; apply F1; apply NT; left; simpl; auto.
        + intros m Hm. apply NM1. apply in_or_app. left. exact Hm.
      - destruct Rq1 as (len & R & B). rewrite R in KR.
        eapply (make_oct_some X); try eassumption. lia.
      - destruct Rq1 as (R & NF1). destruct (g_crv_request t) as [c|] eqn:C; [|discriminate].
        eapply (make_ec_some X); try eassumption; try (rewrite R; reflexivity).
        intros m Hm. apply NM1. apply in_or_app. right. exact Hm. }
    destruct M as [j2 M].
    assert (GM : gen_make X j1 = Some j2) by (rewrite (gen_make_by_kty X j1 h T1); exact M).
    destruct (make_frame X h j1 j2 M ND1' rand_wf) as (O2 & ND2 & F2).
    assert (K2 : g_req_s g_kty j2 = Some (g_make_kty h)).
    { rewrite <- T1. apply g_req_s_congr; try assumption. apply F2. apply kty_not_touched. }
    assert (AU : forall key, In key [g_alg; g_use] -> lookup key j2 = lookup key t).
    { intros key Hk. rewrite F2.
      - apply F1. apply NT. left. simpl in *. tauto.
      - destruct h; cbn [make_touched]; unfold rsa_touched, oct_touched, ec_touched, g_rsa_members, g_ec_members; simpl in *;
          intuition (subst; discriminate). }
    destruct (g_del_present_some g_bytes j2 O2) as [j3 D1].
    destruct (g_del_present_spec _ _ _ D1 O2 ND2) as (O3 & ND3 & _ & F3).
    destruct (g_del_present_some g_bits j3 O3) as [j4 D2].
    destruct (g_del_present_spec _ _ _ D2 O3 ND3) as (O4 & ND4 & _ & F4).
    assert (F42 : forall key, key <> g_bytes -> key <> g_bits -> lookup key j4 = lookup key j2).
    { intros key N1 N2. rewrite F4 by congruence. apply F3. congruence. }
    destruct (post_some j4 (g_make_kty h)) as [k Q].
    - rewrite (g_opt_s_congr g_alg j2 j4 O2 O4) by (apply F42; discriminate).
      rewrite (g_opt_s_congr g_alg t j2 O O2) by (apply AU; simpl; auto). exact A.
    - rewrite (g_opt_s_congr g_use j2 j4 O2 O4) by (apply F42; discriminate).
      rewrite (g_opt_s_congr g_use t j2 O O2) by (apply AU; simpl; auto). exact U.
    - rewrite <- K2. apply g_req_s_congr; try assumption. apply F42; discriminate.
    - intros j' Fj0.
      assert (Fj : forall key, key <> g_key_ops -> key <> g_bytes -> key <> g_bits -> lookup key j' = lookup key j2).
      { intros key N0 N1 N2. rewrite Fj0 by exact N0. apply F42; assumption. }
      destruct h; cbn [g_make_kty].
      + destruct (make_rsa_inv X _ _ M ND1') as (? & ? & rk & _ & _ & _ & Mem & _).
        destruct (Mem g_n (rk_n rk)) as (jn & Ln & _); [unfold g_rsa_fields; simpl; tauto|].
        destruct (Mem g_e (rk_e rk)) as (je & Le & _); [unfold g_rsa_fields; simpl; tauto|].
        eapply required_present_intro; [vm_compute; reflexivity|]. cbn [t_req].
        intros r [<-|[<-|[]]].
        * change (lookup g_e j' <> None). rewrite Fj by discriminate. rewrite Le. discriminate.
        * change (lookup g_n j' <> None). rewrite Fj by discriminate. rewrite Ln. discriminate.
      + destruct (make_oct_inv X _ _ M ND1' rand_wf) as (? & _ & _ & _ & Lk & _).
        eapply required_present_intro; [vm_compute; reflexivity|]. cbn [t_req].
        intros r [<-|[]]. change (lookup g_k j' <> None). rewrite Fj by discriminate. rewrite Lk. discriminate.
      + destruct (make_ec_inv X _ _ M ND1') as (c & ek & _ & _ & Lc & Mem & _).
        destruct (Mem g_x (ek_x ek)) as (jx & Lx & _); [unfold g_ec_fields; simpl; tauto|].
        destruct (Mem g_y (ek_y ek)) as (jy & Ly & _); [unfold g_ec_fields; simpl; tauto|].
        eapply required_present_intro; [vm_compute; reflexivity|]. cbn [t_req].
        intros r [<-|[<-|[<-|[]]]].
        * change (lookup g_crv j' <> None). rewrite Fj by discriminate. rewrite Lc. discriminate.
        * change (lookup g_x j' <> None). rewrite Fj by discriminate. rewrite Lx. discriminate.
        * change (lookup g_y j' <> None). rewrite Fj by discriminate. rewrite Ly. discriminate.
    - exists k. unfold jwk_gen. rewrite P, GM, D1, D2. exact Q.
  Qed.

  (* accepted exactly when the template is a consistent, supported request *)
  Corollary gen_accepts_iff t :
    g_plain_template t -> (jwk_gen X t <> None <-> g_template_ok t = true).
  Proof.
    intro PT. split.
    - intro H. destruct (jwk_gen X t) as [k|] eqn:G; [|contradiction].
      exact (gen_accepted_ok X rand_wf rsa_delivers_size t k G (proj1 PT)).
    - intro H. destruct (gen_ok_accepted t PT H) as [k G]. rewrite G. discriminate.
  Qed.
End ConverseThm.

(* ------------------------------------------------------------------------------------------------ *)
(* the hypotheses of Sections Accept / Converse / ConverseThm are satisfiable: the demo generator meets them *)

Lemma g_demo_delivers :
  wf_bytes (x_rand g_demo_ext) /\
  (N.to_nat keymax <= length (x_rand g_demo_ext))%nat /\
  (forall bits e, (2048 <= bits <= g_rsa_max_bits)%Z -> g_check_public_exponent e = true ->
     exists rk, x_rsa g_demo_ext bits e = Some rk /\ Forall (fun mx => snd mx <> 0) (g_rsa_fields rk) /\
                Z.of_N (N.size (rk_n rk)) = (2 * (bits / 2))%Z) /\
  (forall c, exists ek, x_ec g_demo_ext c = Some ek /\
     Forall (fun mx => snd mx <> 0 /\ g_num_bytes (snd mx) <= g_curve_len c) (g_ec_fields ek)).
Proof.
  split; [apply wf_bytesb_spec; vm_compute; reflexivity|].
  split; [vm_compute; repeat constructor|].
  split.
  - intros bits e Rb Ce. exists (g_demo_rsa_for bits e). split; [reflexivity|]. split.
    + assert (Ne : e <> 0).
      { intros ->. vm_compute in Ce. discriminate. }
      assert (Nn : g_demo_modulus (Z.to_N (2 * (bits / 2))) <> 0) by (unfold g_demo_modulus; lia).
      unfold g_rsa_fields, g_demo_rsa_for. cbn [rk_n rk_e rk_d rk_p rk_q rk_dp rk_dq rk_qi].
      repeat (apply Forall_cons; [cbn [snd]; first [exact Nn|exact Ne|discriminate]|]). apply Forall_nil.
    + apply (g_demo_rsa_size bits e); [lia|reflexivity].
  - intro c. eexists. split; [reflexivity|]. unfold g_ec_fields. cbn [ek_x ek_y ek_d].
    repeat (apply Forall_cons; [cbn [snd]; split; [discriminate|destruct c; vm_compute; discriminate]|]). apply Forall_nil.
Qed.

(* closed instance of [gen_accepts_iff]: for the demo generator the decision is exact *)
Corollary g_demo_accepts_iff t :
  g_plain_template t -> (jwk_gen g_demo_ext t <> None <-> g_template_ok t = true).
Proof.
  destruct g_demo_delivers as (W & E & R & C). exact (gen_accepts_iff g_demo_ext W E R C t).
Qed.
