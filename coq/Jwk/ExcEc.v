(* C13: the concrete instance of [ec_impl] (Jwk/ExcAlg.v) over the reference curve
   arithmetic of Crypto/Ec.v, for any [intops] instance; with [bigzops] this is what the
   numeric part of the correspondence evaluates under vm_compute.  No proofs here. *)
From JoseV Require Import Jwk.ExcAlg Base.JsonDump Base.JsonParse.
From JoseV Require Crypto.BigNum.
From JoseV Require Import Crypto.Ec.
Import Crypto.BigNum.
Local Open Scope Z_scope.

Definition curve_Z (c : crv) : curve Z :=
  match c with P256 => p256 | P384 => p384 | P521 => p521 | K256 => secp256k1 end.

Section Concrete.
  Context {T : Type} (ops : intops T).

  Definition cv (c : crv) : curve T := curve_of ops (curve_Z c).

  (* EC_POINT_set_affine_coordinates reduces both coordinates modulo the field prime
     (BN_nnmod in ossl_ec_GFp_simple_set_Jprojective_coordinates_GFp) *)
  Definition c_mk (c : crv) (x y : Z) : point T :=
    let p := c_p (cv c) in
    Aff (imod ops (iof_Z ops x) p) (imod ops (iof_Z ops y) p).

  (* EC_KEY_check_key: public point not at infinity, coordinates in the field, on the
     curve, [n]Q = infinity; with a private value: 1 <= d < n and d G = Q.
     The order test is not evaluated: every curve here has cofactor 1, so it is implied by
     the curve equation (same remark as Ec.valid_public, SEC 1 3.2.2.1). *)
  Definition c_check (c : crv) (Q : point T) (d : option Z) : bool :=
    match Q with
    | Inf => false
    | Aff x y =>
        valid_public ops (cv c) x y
        && match d with
           | None => true
           | Some d => valid_private ops (cv c) (iof_Z ops d) x y
           end
    end.

  Definition c_affine (P : point T) : option (Z * Z) :=
    match P with
    | Inf => None
    | Aff x y => Some (ito_Z ops x, ito_Z ops y)
    end.

  Definition ec_concrete : ec_impl (point T) :=
    {| ei_mk := c_mk;
       ei_check := c_check;
       ei_add := fun c => padd ops (cv c);
       ei_neg := fun c => pneg ops (cv c);
       ei_zero := fun _ => Inf;
       ei_smul := fun c k => smul ops (cv c) (iof_Z ops k);
       ei_affine := fun _ => c_affine |}.

  (* one case of the numeric correspondence: both keys as JSON text (parsed like the
     harness parses its arguments), result as the canonical dump; [Some []] marks an
     argument that does not parse *)
  Definition exc_text (prv pub : bytes) : option bytes :=
    match parse_proto prv, parse_proto pub with
    | Some a, Some b =>
        match jose_jwk_exc ec_concrete a b with
        | Some r => Some (dump r)
        | None => None
        end
    | _, _ => Some []
    end.
End Concrete.
