(* C12 (conversion clause): lib/openssl/jwk.c
     jose_openssl_jwk_to_EVP_PKEY / _to_RSA / _to_EC_KEY   (JWK -> OpenSSL key object)
     jose_openssl_jwk_from_EVP_PKEY / _from_RSA / _from_EC_KEY / _from_EC_POINT   (and back)
   with the helpers of lib/openssl/misc.c (str2enum, bn_decode_json, bn_encode_json, bn_decode, bn_encode),
   statement by statement.  The OpenSSL key object is abstracted to a record of natural numbers; what is
   presence / absence of a BIGNUM in the C object is [option] here.

   OPENSSL / libc BEHAVIOURS THIS MODEL ASSUMES (the trusted base of the clause; each one was also observed
   on the harness command `osslrt` with OpenSSL 3.5.6):
   (O1) BN_bin2bn(buf, len) is the big-endian value of the octets; leading zero octets do not matter; len = 0
        gives the number 0 (and calloc(1, 0) / malloc(0) return a non-NULL pointer, as glibc does).
   (O2) BN_num_bytes(x) = ceil(BN_num_bits(x) / 8), 0 for the number 0; BN_bn2bin writes exactly that many
        octets, big-endian, and RETURNS that count -- so bn_encode() (which tests "> 0") fails for the number 0
        and bn_encode_json() returns NULL for it.
   (O3) RSA_set0_key(r, n, e, d) on a fresh RSA succeeds iff n and e are non-NULL (d may be NULL); it does not
        look at the values.  RSA_set0_factors(r, p, q) on a fresh RSA succeeds iff BOTH are non-NULL;
        RSA_set0_crt_params(r, dmp1, dmq1, iqmp) on a fresh RSA succeeds iff ALL THREE are non-NULL.
        RSA_get0_key / _factors / _crt_params return exactly the pointers stored (NULL where none was stored).
        RSA_new, RSA_up_ref, EVP_PKEY_new succeed (allocation failure is the subject of C20, not of this model).
   (O4) EVP_PKEY_set1_RSA / EVP_PKEY_get0_RSA and EVP_PKEY_set1_EC_KEY / EVP_PKEY_get0_EC_KEY store and give back
        the same key object unchanged (a legacy-origin EVP_PKEY); EVP_PKEY_base_id is the type stored.
   (O5) EC_KEY_new_by_curve_name(nid) succeeds for the four curves; EC_GROUP_get_curve_name gives the nid back;
        (EC_GROUP_get_degree + 7) / 8 is 32, 48, 66, 32 for P-256, P-384, P-521, secp256k1.
   (O6) EC_POINT_set_affine_coordinates REDUCES both coordinates modulo the field prime (BN_nnmod in
        ossl_ec_GFp_simple_set_Jprojective_coordinates_GFp) and leaves the point set even when it reports that
        the point is not on the curve (it returns 0; the C code tests "< 0", so it goes on);
        EC_POINT_get_affine_coordinates gives back the reduced coordinates.
   (O7) EC_KEY_set_private_key / EC_KEY_set_public_key never return a negative value (the C code tests "< 0");
        EC_KEY_get0_private_key gives back the number stored (NULL when none was).
   (O8) EC_KEY_check_key is a function of (curve, reduced x, reduced y, optional d): the Section variable
        [valid].  Nothing about it is assumed here (SEC 1 says: on the curve, not infinity, 1 <= d < n and
        d G = Q); the theorems take "[valid] accepts this key" as a premise.
   (O9) EVP_PKEY_new_mac_key(EVP_PKEY_HMAC, NULL, buf, len) followed by EVP_PKEY_get_raw_private_key gives the
        same octets back for len > 0 and FAILS for len = 0 (OpenSSL 3.x: the provider refuses the empty key; OpenSSL 1.1
        accepted it -- the model follows the library the harness links, 3.5.6).
   (J1) jansson: json_unpack "{s:s}" needs an object and a string member (the C code sees the string up to its
        first NUL); "s:o" needs the member; "s?o" leaves NULL when the member is absent; other members are
        ignored.  json_pack / json_object_set_new fail when handed a NULL value.  jose_b64_dec / jose_b64_enc are
        [dec] / [enc] on JSON strings (Codec/B64JsonProofs.v, Codec/B64ImplProofs.v).
   No proofs in this file (Jwk/ConvProofs.v). *)
From JoseV Require Export Base.Json Codec.B64Json Jwk.Gen.
Local Open Scope N_scope.

(* ---- the OpenSSL key objects ---------------------------------------------------------------------- *)

Record o_rsa := { or_n : N; or_e : N; or_d : option N; or_p : option N; or_q : option N;
                  or_dp : option N; or_dq : option N; or_qi : option N }.
Record o_ec := { oe_crv : g_curve; oe_x : N; oe_y : N; oe_d : option N }.
Inductive o_pkey := PRsa (k : o_rsa) | PEc (k : o_ec) | PHmac (k : bytes).

(* the field prime of each curve (SEC 2 / FIPS 186-4); equal to Crypto/Ec.v's c_p (ConvProofs.conv_curve_p_is_c_p) *)
Definition g_curve_p (c : g_curve) : N :=
  match c with
  | GC256 => 0xffffffff00000001000000000000000000000000ffffffffffffffffffffffff
  | GC384 => 0xfffffffffffffffffffffffffffffffffffffffffffffffffffffffffffffffeffffffff0000000000000000ffffffff
  | GC521 => 0x1ffffffffffffffffffffffffffffffffffffffffffffffffffffffffffffffffffffffffffffffffffffffffffffffffffffffffffffffffffffffffffffffffff
  | GCK256 => 0xfffffffffffffffffffffffffffffffffffffffffffffffffffffffefffffc2f
  end.

(* ---- pieces shared by the directions ------------------------------------------------------------------ *)

(* X = bn_decode_json(x) for an "s?o" member followed by the test (!x || X):
   None = present but not decodable (the conversion fails); Some None = absent; Some (Some v) = the number *)
Definition c_dec_opt (o : option json) : option (option N) :=
  match o with
  | None => Some None
  | Some v => match g_bn_decode_json v with Some x => Some (Some x) | None => None end
  end.

(* if (x && json_object_set_new(jwk, name, bn_encode_json(x, len)) ...) -- one more member, or none *)
Definition c_enc_opt (name : bytes) (o : option N) (len : N) : list (bytes * option json) :=
  match o with None => [] | Some x => [(name, g_bn_encode_json x len)] end.

(* (!P && !Q) || RSA_set0_factors(rsa, P, Q) > 0       -- (O3) *)
Definition c_factors_ok (P Q : option N) : bool :=
  match P, Q with
  | None, None => true            (* not called *)
  | Some _, Some _ => true        (* called, both given *)
  | _, _ => false                 (* called with one NULL: returns 0 *)
  end.

(* (!DP && !DQ && !QI) || RSA_set0_crt_params(rsa, DP, DQ, QI) > 0       -- (O3) *)
Definition c_crt_ok (DP DQ QI : option N) : bool :=
  match DP, DQ, QI with
  | None, None, None => true
  | Some _, Some _, Some _ => true
  | _, _, _ => false
  end.

(* jose_b64_dec(json, NULL, 0) for the size, then jose_b64_dec(json, buf, len) == len: the octets of a JSON
   string (NULL / non-string / not base64url: fails) *)
Definition c_b64_octets (o : option json) : option bytes :=
  match o with
  | Some (JStr s) => dec s
  | _ => None
  end.

Section Conv.
  (* (O8) EC_KEY_check_key on (curve, x mod p, y mod p, d) *)
  Variable valid : g_curve -> N -> N -> option N -> bool.

  (* ---- JWK -> OpenSSL ------------------------------------------------------------------------------ *)

  (* jose_openssl_jwk_to_RSA.  json_unpack "{s:s,s:o,s:o,s?o,s?o,s?o,s?o,s?o,s?o}": "kty" must be a string but
     is NOT compared with "RSA" here (the EVP_PKEY route does that before calling). *)
  Definition jwk_to_rsa (j : json) : option o_rsa :=
    match g_req_s g_kty j, lookup g_n j, lookup g_e j with
    | Some _, Some n, Some e =>
        match g_bn_decode_json n, g_bn_decode_json e,
              c_dec_opt (lookup g_d j), c_dec_opt (lookup g_p j), c_dec_opt (lookup g_q j),
              c_dec_opt (lookup g_dp j), c_dec_opt (lookup g_dq j), c_dec_opt (lookup g_qi j) with
        | Some N_, Some E, Some D, Some P, Some Q, Some DP, Some DQ, Some QI =>
            (* RSA_set0_key(rsa, N, E, D) > 0: N and E are non-NULL here *)
            if c_factors_ok P Q then
              if c_crt_ok DP DQ QI then
                Some {| or_n := N_; or_e := E; or_d := D; or_p := P; or_q := Q; or_dp := DP; or_dq := DQ; or_qi := QI |}
              else None
            else None
        | _, _, _, _, _, _, _, _ => None
        end
    | _, _, _ => None
    end.

  (* jose_openssl_jwk_to_EC_KEY with mkpub (x and y are both required by the unpack, so mkpub always takes its
     first branch) *)
  Definition jwk_to_ec (j : json) : option o_ec :=
    (* json_unpack "{s:s,s:s,s:o,s:o,s?o}" kty crv x y d *)
    match g_req_s g_kty j, g_req_s g_crv j, lookup g_x j, lookup g_y j with
    | Some kty, Some crv, Some x, Some y =>
        if negb (bytes_eqb kty g_EC) then None                       (* strcmp(kty, "EC") != 0 *)
        else
          match g_curve_of_name crv with                             (* str2enum(crv, ...) *)
          | None => None
          | Some c =>
              match c_dec_opt (lookup g_d j) with                    (* if (d) { D = bn_decode_json(d); if (!D) return NULL; *)
              | None => None
              | Some D =>
                  match g_bn_decode_json x, g_bn_decode_json y with  (* mkpub: X, Y *)
                  | Some X, Some Y =>
                      let X' := X mod g_curve_p c in                 (* (O6) *)
                      let Y' := Y mod g_curve_p c in
                      if valid c X' Y' D                             (* EC_KEY_check_key(key) == 0 -> NULL *)
                      then Some {| oe_crv := c; oe_x := X'; oe_y := Y'; oe_d := D |}
                      else None
                  | _, _ => None
                  end
              end
          end
    | _, _, _, _ => None
    end.

  (* the "oct" branch of jose_openssl_jwk_to_EVP_PKEY: base64url octets of "k", EVP_PKEY_new_mac_key -- (O9) *)
  Definition jwk_to_hmac (j : json) : option bytes :=
    match c_b64_octets (lookup g_k j) with
    | Some [] => None
    | Some b => Some b
    | None => None
    end.

  (* jose_openssl_jwk_to_EVP_PKEY: json_unpack "{s:s}" kty; switch (str2enum(kty, "EC", "RSA", "oct", NULL)) --
     strcmp, exact and case-sensitive *)
  Definition jwk_to_pkey (j : json) : option o_pkey :=
    match g_req_s g_kty j with
    | None => None
    | Some kty =>
        if bytes_eqb kty g_EC then option_map PEc (jwk_to_ec j)
        else if bytes_eqb kty g_RSA then option_map PRsa (jwk_to_rsa j)
        else if bytes_eqb kty g_oct then option_map PHmac (jwk_to_hmac j)
        else None
    end.

  (* ---- OpenSSL -> JWK ------------------------------------------------------------------------------ *)

  (* jose_openssl_jwk_from_RSA: json_pack kty n e, then one json_object_set_new per number the key has;
     every number minimal-length big-endian (bn_encode_json(x, 0)); a NULL from bn_encode_json (the number 0)
     makes the whole call return NULL *)
  Definition jwk_from_rsa (k : o_rsa) : option json :=
    match g_pack ([(g_kty, Some (JStr g_RSA));
                   (g_n, g_bn_encode_json (or_n k) 0); (g_e, g_bn_encode_json (or_e k) 0)]
                  ++ c_enc_opt g_d (or_d k) 0 ++ c_enc_opt g_p (or_p k) 0 ++ c_enc_opt g_q (or_q k) 0
                  ++ c_enc_opt g_dp (or_dp k) 0 ++ c_enc_opt g_dq (or_dq k) 0 ++ c_enc_opt g_qi (or_qi k) 0) with
    | Some m => Some (JObj m)
    | None => None
    end.

  (* jose_openssl_jwk_from_EC_KEY = jose_openssl_jwk_from_EC_POINT(group, public point, private number):
     coordinates and d padded to the field length *)
  Definition jwk_from_ec (k : o_ec) : option json :=
    let len := g_curve_len (oe_crv k) in
    match g_pack ([(g_kty, Some (JStr g_EC)); (g_crv, Some (JStr (g_curve_name (oe_crv k))));
                   (g_x, g_bn_encode_json (oe_x k) len); (g_y, g_bn_encode_json (oe_y k) len)]
                  ++ c_enc_opt g_d (oe_d k) len) with
    | Some m => Some (JObj m)
    | None => None
    end.

  (* the HMAC branch of jose_openssl_jwk_from_EVP_PKEY: json_pack("{s:s,s:o}", "kty", "oct", "k", jose_b64_enc(..)) *)
  Definition jwk_from_hmac (b : bytes) : option json :=
    match g_pack [(g_kty, Some (JStr g_oct)); (g_k, jose_b64_enc b)] with
    | Some m => Some (JObj m)
    | None => None
    end.

  (* jose_openssl_jwk_from_EVP_PKEY -- (O4) *)
  Definition jwk_from_pkey (k : o_pkey) : option json :=
    match k with
    | PRsa r => jwk_from_rsa r
    | PEc e => jwk_from_ec e
    | PHmac b => jwk_from_hmac b
    end.

  (* ---- there and back ------------------------------------------------------------------------------------ *)

  Definition obind {A B} (o : option A) (f : A -> option B) : option B :=
    match o with Some a => f a | None => None end.

  (* to_RSA ; from_RSA *)
  Definition conv_rsa (j : json) : option json := obind (jwk_to_rsa j) jwk_from_rsa.
  (* to_EC_KEY ; from_EC_KEY *)
  Definition conv_ec (j : json) : option json := obind (jwk_to_ec j) jwk_from_ec.
  (* the oct branches of the EVP_PKEY functions *)
  Definition conv_oct (j : json) : option json := obind (jwk_to_hmac j) jwk_from_hmac.

  (* to_EVP_PKEY ; from_EVP_PKEY *)
  Definition conv (j : json) : option json := obind (jwk_to_pkey j) jwk_from_pkey.

  (* the type-specific route, chosen the way the harness command `osslrt` (harness/h_ossl.c) chooses it:
     kty = json_string_value(json_object_get(jwk, "kty")); strcmp with "EC" / "RSA"; anything else: no route *)
  Definition conv_typed (j : json) : option json :=
    match g_req_s g_kty j with
    | None => None
    | Some kty =>
        if bytes_eqb kty g_EC then conv_ec j
        else if bytes_eqb kty g_RSA then conv_rsa j
        else None
    end.

  (* `osslrt` prints "-" instead of the type-specific result for kty "oct" *)
  Definition conv_is_oct (j : json) : bool :=
    match g_req_s g_kty j with Some kty => bytes_eqb kty g_oct | None => false end.
End Conv.

(* what the correspondence driver runs: it only offers keys OpenSSL's point check accepts *)
Definition conv_valid_true (_ : g_curve) (_ _ : N) (_ : option N) : bool := true.
Definition conv_drv (j : json) : option json := conv conv_valid_true j.
Definition conv_typed_drv (j : json) : option json := conv_typed conv_valid_true j.

(* the key members of each type (what a JWK of that type can carry as key material) *)
Definition c_rsa_key_members : list bytes := [g_n; g_e; g_d; g_p; g_q; g_dp; g_dq; g_qi].
Definition c_ec_key_members : list bytes := [g_crv; g_x; g_y; g_d].
Definition c_oct_key_members : list bytes := [g_k].
