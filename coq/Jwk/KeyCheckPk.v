(* C10, public-key part (over BigZ, evaluated by vm_compute inside coqc; not extracted) *)
From JoseV Require Export Jwk.KeyCheck Jose.PkAlgs Jose.PkEncAlgs.
From JoseV Require Import Crypto.BigNum Crypto.Ec.
Local Open Scope N_scope.

Definition has_d (jwk : json) : bool := match b64m s_d jwk with Some _ => true | None => false end.
Definition ec_ok (jwk : json) : bool := match ec_pub jwk with Some _ => true | None => false end.

Definition es_names : list bytes := [n_ES256; n_ES384; n_ES512; n_ES256K].
Definition ecdhes_names : list bytes := [n_ECDHES; n_ECDHES128; n_ECDHES192; n_ECDHES256].

(* does the algorithm's key test pass?  (sign / unwrap additionally need the private value) *)
Definition keyok_pk (op : kop) (alg : bytes) (key : json) : option bool :=
  match op with
  | KSignOp | KVerifyOp =>
      if mem alg rs_names then Some (rsa_sig_key_ok key)
      else if mem alg es_names then Some (ec_ok key)
      else None
  | KWrapOp => if mem alg ecdhes_names then Some (ec_ok key) else None
  | KUnwrapOp => if mem alg ecdhes_names then Some (ec_ok key && has_d key) else None
  | _ => None
  end.

Definition keyok_pk_text (op : kop) (alg : bytes) (key_text : bytes) : option bool :=
  match parse_proto key_text with Some k => keyok_pk op alg k | None => None end.
