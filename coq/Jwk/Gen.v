(* C11: lib/jwk.c jose_jwk_gen() -- the PREP hooks (jwk_prep_handles / jwk_prep_execute of
   lib/openssl/{rsassa,rsaes,pbes2,hmac,ecmr,ecdsa,ecdhes,ecdh,aeskw,aesgcmkw,aesgcm,aescbch}.c), the MAKE hooks
   (lib/openssl/{rsa,oct,ec}.c jwk_make_handles / jwk_make_execute, mkrsa, check_public_exponent), key_ops
   inference and the required-member check, statement by statement.

   What OpenSSL contributes (RAND_bytes, RSA_generate_key_ex, EC_KEY_generate_key) is an ARGUMENT of the
   model ([g_ext]): the random octets as a stream, the generated RSA / EC key as numbers.  Everything else --
   template unpacking, range checks, exponent rule, number -> base64url member encoding
   (bn_encode_json), copy_val, deletion of the generation-only members -- is computed here.
   No proofs in this file (Jwk/GenProofs.v). *)
From JoseV Require Export Base.Json Codec.B64Json.
From JoseV Require Import Gen.Tables Gen.Consts.
Local Open Scope N_scope.

(* ---- member names, key types, curves, operations, algorithm names ------------------------------ *)
Definition g_alg : bytes := [97; 108; 103]. (* alg *)
Definition g_kty : bytes := [107; 116; 121]. (* kty *)
Definition g_crv : bytes := [99; 114; 118]. (* crv *)
Definition g_bytes : bytes := [98; 121; 116; 101; 115]. (* bytes *)
Definition g_bits : bytes := [98; 105; 116; 115]. (* bits *)
Definition g_e : bytes := [101]. (* e *)
Definition g_k : bytes := [107]. (* k *)
Definition g_use : bytes := [117; 115; 101]. (* use *)
Definition g_key_ops : bytes := [107; 101; 121; 95; 111; 112; 115]. (* key_ops *)
Definition g_n : bytes := [110]. (* n *)
Definition g_p : bytes := [112]. (* p *)
Definition g_d : bytes := [100]. (* d *)
Definition g_q : bytes := [113]. (* q *)
Definition g_dp : bytes := [100; 112]. (* dp *)
Definition g_dq : bytes := [100; 113]. (* dq *)
Definition g_qi : bytes := [113; 105]. (* qi *)
Definition g_oth : bytes := [111; 116; 104]. (* oth *)
Definition g_x : bytes := [120]. (* x *)
Definition g_y : bytes := [121]. (* y *)
Definition g_oct : bytes := [111; 99; 116]. (* oct *)
Definition g_RSA : bytes := [82; 83; 65]. (* RSA *)
Definition g_EC : bytes := [69; 67]. (* EC *)
Definition g_P256 : bytes := [80; 45; 50; 53; 54]. (* P-256 *)
Definition g_P384 : bytes := [80; 45; 51; 56; 52]. (* P-384 *)
Definition g_P521 : bytes := [80; 45; 53; 50; 49]. (* P-521 *)
Definition g_K256 : bytes := [115; 101; 99; 112; 50; 53; 54; 107; 49]. (* secp256k1 *)
Definition g_sign : bytes := [115; 105; 103; 110]. (* sign *)
Definition g_verify : bytes := [118; 101; 114; 105; 102; 121]. (* verify *)
Definition g_wrapKey : bytes := [119; 114; 97; 112; 75; 101; 121]. (* wrapKey *)
Definition g_unwrapKey : bytes := [117; 110; 119; 114; 97; 112; 75; 101; 121]. (* unwrapKey *)
Definition g_encrypt : bytes := [101; 110; 99; 114; 121; 112; 116]. (* encrypt *)
Definition g_decrypt : bytes := [100; 101; 99; 114; 121; 112; 116]. (* decrypt *)
Definition g_deriveKey : bytes := [100; 101; 114; 105; 118; 101; 75; 101; 121]. (* deriveKey *)

Definition ga_HS256 : bytes := [72; 83; 50; 53; 54]. (* HS256 *)
Definition ga_HS384 : bytes := [72; 83; 51; 56; 52]. (* HS384 *)
Definition ga_HS512 : bytes := [72; 83; 53; 49; 50]. (* HS512 *)
Definition ga_A128KW : bytes := [65; 49; 50; 56; 75; 87]. (* A128KW *)
Definition ga_A192KW : bytes := [65; 49; 57; 50; 75; 87]. (* A192KW *)
Definition ga_A256KW : bytes := [65; 50; 53; 54; 75; 87]. (* A256KW *)
Definition ga_A128GCMKW : bytes := [65; 49; 50; 56; 71; 67; 77; 75; 87]. (* A128GCMKW *)
Definition ga_A192GCMKW : bytes := [65; 49; 57; 50; 71; 67; 77; 75; 87]. (* A192GCMKW *)
Definition ga_A256GCMKW : bytes := [65; 50; 53; 54; 71; 67; 77; 75; 87]. (* A256GCMKW *)
Definition ga_A128GCM : bytes := [65; 49; 50; 56; 71; 67; 77]. (* A128GCM *)
Definition ga_A192GCM : bytes := [65; 49; 57; 50; 71; 67; 77]. (* A192GCM *)
Definition ga_A256GCM : bytes := [65; 50; 53; 54; 71; 67; 77]. (* A256GCM *)
Definition ga_A128CBC_HS256 : bytes := [65; 49; 50; 56; 67; 66; 67; 45; 72; 83; 50; 53; 54]. (* A128CBC-HS256 *)
Definition ga_A192CBC_HS384 : bytes := [65; 49; 57; 50; 67; 66; 67; 45; 72; 83; 51; 56; 52]. (* A192CBC-HS384 *)
Definition ga_A256CBC_HS512 : bytes := [65; 50; 53; 54; 67; 66; 67; 45; 72; 83; 53; 49; 50]. (* A256CBC-HS512 *)
Definition ga_PBES2_HS256_A128KW : bytes := [80; 66; 69; 83; 50; 45; 72; 83; 50; 53; 54; 43; 65; 49; 50; 56; 75; 87]. (* PBES2-HS256+A128KW *)
Definition ga_PBES2_HS384_A192KW : bytes := [80; 66; 69; 83; 50; 45; 72; 83; 51; 56; 52; 43; 65; 49; 57; 50; 75; 87]. (* PBES2-HS384+A192KW *)
Definition ga_PBES2_HS512_A256KW : bytes := [80; 66; 69; 83; 50; 45; 72; 83; 53; 49; 50; 43; 65; 50; 53; 54; 75; 87]. (* PBES2-HS512+A256KW *)
Definition ga_ES256 : bytes := [69; 83; 50; 53; 54]. (* ES256 *)
Definition ga_ES384 : bytes := [69; 83; 51; 56; 52]. (* ES384 *)
Definition ga_ES512 : bytes := [69; 83; 53; 49; 50]. (* ES512 *)
Definition ga_ES256K : bytes := [69; 83; 50; 53; 54; 75]. (* ES256K *)
Definition ga_ECDH_ES : bytes := [69; 67; 68; 72; 45; 69; 83]. (* ECDH-ES *)
Definition ga_ECDH_ES_A128KW : bytes := [69; 67; 68; 72; 45; 69; 83; 43; 65; 49; 50; 56; 75; 87]. (* ECDH-ES+A128KW *)
Definition ga_ECDH_ES_A192KW : bytes := [69; 67; 68; 72; 45; 69; 83; 43; 65; 49; 57; 50; 75; 87]. (* ECDH-ES+A192KW *)
Definition ga_ECDH_ES_A256KW : bytes := [69; 67; 68; 72; 45; 69; 83; 43; 65; 50; 53; 54; 75; 87]. (* ECDH-ES+A256KW *)
Definition ga_ECDH : bytes := [69; 67; 68; 72]. (* ECDH *)
Definition ga_ECMR : bytes := [69; 67; 77; 82]. (* ECMR *)
Definition ga_RSA1_5 : bytes := [82; 83; 65; 49; 95; 53]. (* RSA1_5 *)
Definition ga_RSA_OAEP : bytes := [82; 83; 65; 45; 79; 65; 69; 80]. (* RSA-OAEP *)
Definition ga_RSA_OAEP_224 : bytes := [82; 83; 65; 45; 79; 65; 69; 80; 45; 50; 50; 52]. (* RSA-OAEP-224 *)
Definition ga_RSA_OAEP_256 : bytes := [82; 83; 65; 45; 79; 65; 69; 80; 45; 50; 53; 54]. (* RSA-OAEP-256 *)
Definition ga_RSA_OAEP_384 : bytes := [82; 83; 65; 45; 79; 65; 69; 80; 45; 51; 56; 52]. (* RSA-OAEP-384 *)
Definition ga_RSA_OAEP_512 : bytes := [82; 83; 65; 45; 79; 65; 69; 80; 45; 53; 49; 50]. (* RSA-OAEP-512 *)
Definition ga_RS256 : bytes := [82; 83; 50; 53; 54]. (* RS256 *)
Definition ga_RS384 : bytes := [82; 83; 51; 56; 52]. (* RS384 *)
Definition ga_RS512 : bytes := [82; 83; 53; 49; 50]. (* RS512 *)
Definition ga_PS256 : bytes := [80; 83; 50; 53; 54]. (* PS256 *)
Definition ga_PS384 : bytes := [80; 83; 51; 56; 52]. (* PS384 *)
Definition ga_PS512 : bytes := [80; 83; 53; 49; 50]. (* PS512 *)

(* ---- json_unpack formats ------------------------------------------------------------------------- *)

(* "s?s": absent / a string (C view: up to the first NUL) / present but not a string (unpack fails) *)
Inductive g_ostr := GAbsent | GStr (s : bytes) | GBad.

Definition g_opt_s (k : bytes) (jwk : json) : g_ostr :=
  match jwk with
  | JObj m => match alookup k m with
              | None => GAbsent
              | Some (JStr s) => GStr (cstr s)
              | Some _ => GBad
              end
  | _ => GBad
  end.

(* "s:s" *)
Definition g_req_s (k : bytes) (jwk : json) : option bytes :=
  match g_opt_s k jwk with GStr s => Some s | _ => None end.

(* "s?I" with the C variable initialised to [dflt]: None = unpack fails *)
Definition g_opt_I (k : bytes) (dflt : Z) (jwk : json) : option Z :=
  match jwk with
  | JObj m => match alookup k m with
              | None => Some dflt
              | Some (JInt z) => Some z
              | Some _ => None
              end
  | _ => None
  end.

(* BN_set_word(bn, json_integer_value(exp)): json_int_t -> BN_ULONG (64 bit) *)
Definition g_to_ulong (z : Z) : N := Z.to_N (z mod 18446744073709551616)%Z.

Definition g_has (k : bytes) (jwk : json) : bool :=
  match lookup k jwk with Some _ => true | None => false end.

(* ---- PREP hooks ------------------------------------------------------------------------------------ *)

(* the four shapes of jwk_prep_handles/jwk_prep_execute; tables in the order of the NAMES macro
   (str2enum returns the index of the FIRST match; alg2len / alg2crv switch on it) *)
Inductive g_prep :=
| GPOct (tbl : list (bytes * Z))          (* hmac, aeskw, aesgcmkw, aesgcm, aescbch, pbes2: alg -> bytes *)
| GPEc (tbl : list (bytes * bytes))       (* ecdsa, ecdhes: alg -> crv *)
| GPExch (name : bytes)                   (* ecdh, ecmr: crv defaults to P-521, a given crv is kept *)
| GPRsa (names : list bytes).             (* rsaes, rsassa *)

Definition g_alg2len (tbl : list (bytes * Z)) (a : bytes) : Z :=
  match alookup a tbl with Some l => l | None => 0%Z end.

(* what handles() computes from the alg string *)
Definition g_handles_alg (h : g_prep) (a : bytes) : bool :=
  match h with
  | GPOct t => negb (g_alg2len t a =? 0)%Z
  | GPEc t => match alookup a t with Some _ => true | None => false end
  | GPExch n => bytes_eqb a n
  | GPRsa ns => existsb (bytes_eqb a) ns
  end.

(* json_unpack "{s:s}" alg *)
Definition g_prep_handles (h : g_prep) (jwk : json) : bool :=
  match g_req_s g_alg jwk with
  | None => false
  | Some a => g_handles_alg h a
  end.

(* kty && strcmp(kty, want) != 0 *)
Definition g_other (o : g_ostr) (want : bytes) : bool :=
  match o with GStr s => negb (bytes_eqb s want) | _ => false end.

Definition g_set2 (k1 : bytes) (v1 : json) (k2 : bytes) (v2 : json) (jwk : json) : option json :=
  match jset k1 v1 jwk with
  | Some j => jset k2 v2 j
  | None => None
  end.

Definition g_prep_execute (h : g_prep) (jwk : json) : option json :=
  match h with
  | GPOct t =>
      (* json_unpack "{s:s,s?s,s?I}" alg kty bytes *)
      match g_req_s g_alg jwk, g_opt_s g_kty jwk, g_opt_I g_bytes 0 jwk with
      | Some a, kty, Some byt =>
          match kty with
          | GBad => None
          | _ =>
              let len := g_alg2len t a in
              if (len =? 0)%Z then None
              else if g_has g_bytes jwk && negb (byt =? len)%Z then None   (* json_object_get(jwk, "bytes") && byt != len *)
              else if g_other kty g_oct then None
              else g_set2 g_kty (JStr g_oct) g_bytes (JInt len) jwk
          end
      | _, _, _ => None
      end
  | GPEc t =>
      (* json_unpack "{s:s,s?s,s?s}" alg kty crv *)
      match g_req_s g_alg jwk, g_opt_s g_kty jwk, g_opt_s g_crv jwk with
      | Some a, kty, crv =>
          match kty, crv with
          | GBad, _ | _, GBad => None
          | _, _ =>
              match alookup a t with
              | None => None
              | Some grp =>
                  if g_other kty g_EC then None
                  else if g_other crv grp then None
                  else g_set2 g_kty (JStr g_EC) g_crv (JStr grp) jwk
              end
          end
      | None, _, _ => None
      end
  | GPExch n =>
      (* crv = "P-521"; json_unpack "{s:s,s?s,s?s}" alg crv kty *)
      match g_req_s g_alg jwk, g_opt_s g_crv jwk, g_opt_s g_kty jwk with
      | Some a, crv, kty =>
          match crv, kty with
          | GBad, _ | _, GBad => None
          | _, _ =>
              if negb (bytes_eqb a n) then None
              else if g_other kty g_EC then None
              else g_set2 g_kty (JStr g_EC) g_crv (JStr (match crv with GStr c => c | _ => g_P521 end)) jwk
          end
      | None, _, _ => None
      end
  | GPRsa ns =>
      if negb (g_prep_handles (GPRsa ns) jwk) then None
      else
        match g_opt_s g_kty jwk with
        | GBad => None
        | kty => if g_other kty g_RSA then None else jset g_kty (JStr g_RSA) jwk
        end
  end.

(* the hook list in RUNNING order (checked on every run against the `genhooks` dump of the harness) *)
Definition g_hmac_tbl : list (bytes * Z) := [(ga_HS256, 32); (ga_HS384, 48); (ga_HS512, 64)]%Z.
Definition g_aeskw_tbl : list (bytes * Z) := [(ga_A128KW, 16); (ga_A192KW, 24); (ga_A256KW, 32)]%Z.
Definition g_aesgcmkw_tbl : list (bytes * Z) := [(ga_A128GCMKW, 16); (ga_A192GCMKW, 24); (ga_A256GCMKW, 32)]%Z.
Definition g_aesgcm_tbl : list (bytes * Z) := [(ga_A128GCM, 16); (ga_A192GCM, 24); (ga_A256GCM, 32)]%Z.
Definition g_aescbch_tbl : list (bytes * Z) := [(ga_A128CBC_HS256, 32); (ga_A192CBC_HS384, 48); (ga_A256CBC_HS512, 64)]%Z.
Definition g_pbes2_tbl : list (bytes * Z) :=
  [(ga_PBES2_HS256_A128KW, 16); (ga_PBES2_HS384_A192KW, 24); (ga_PBES2_HS512_A256KW, 32)]%Z.
Definition g_ecdsa_tbl : list (bytes * bytes) :=
  [(ga_ES256, g_P256); (ga_ES384, g_P384); (ga_ES512, g_P521); (ga_ES256K, g_K256)].
Definition g_ecdhes_tbl : list (bytes * bytes) :=
  [(ga_ECDH_ES, g_P521); (ga_ECDH_ES_A128KW, g_P256); (ga_ECDH_ES_A192KW, g_P384); (ga_ECDH_ES_A256KW, g_P521)].
Definition g_rsaes_names : list bytes :=
  [ga_RSA1_5; ga_RSA_OAEP; ga_RSA_OAEP_224; ga_RSA_OAEP_256; ga_RSA_OAEP_384; ga_RSA_OAEP_512].
Definition g_rsassa_names : list bytes := [ga_RS256; ga_RS384; ga_RS512; ga_PS256; ga_PS384; ga_PS512].

Definition g_prep_hooks : list g_prep :=
  [GPRsa g_rsassa_names; GPRsa g_rsaes_names; GPOct g_pbes2_tbl; GPOct g_hmac_tbl; GPExch ga_ECMR;
   GPEc g_ecdsa_tbl; GPEc g_ecdhes_tbl; GPExch ga_ECDH; GPOct g_aeskw_tbl; GPOct g_aesgcmkw_tbl;
   GPOct g_aesgcm_tbl; GPOct g_aescbch_tbl].

(* lib/jwk.c jwk_hook(PREP): if (handles && !execute) return false; ... return true *)
Fixpoint gen_prep_list (hs : list g_prep) (jwk : json) : option json :=
  match hs with
  | [] => Some jwk
  | h :: r =>
      if g_prep_handles h jwk then
        match g_prep_execute h jwk with
        | Some j => gen_prep_list r j
        | None => None
        end
      else gen_prep_list r jwk
  end.

Definition gen_prep (jwk : json) : option json := gen_prep_list g_prep_hooks jwk.

(* ---- numbers <-> octets (lib/openssl/misc.c) ------------------------------------------------------ *)

(* BN_bin2bn: big-endian, any length *)
Fixpoint g_os2ip_acc (b : bytes) (acc : N) : N :=
  match b with
  | [] => acc
  | c :: r => g_os2ip_acc r (acc * 256 + c)
  end.
Definition g_os2ip (b : bytes) : N := g_os2ip_acc b 0.

(* the low [len] octets of x, big-endian *)
Fixpoint g_be (len : nat) (x : N) : bytes :=
  match len with
  | O => []
  | S k => g_be k (x / 256) ++ [x mod 256]
  end.

(* BN_num_bits / BN_num_bytes *)
Definition g_num_bits (x : N) : N := N.size x.
Definition g_num_bytes (x : N) : N := (N.size x + 7) / 8.

(* bn_encode_json(bn, len): len = 0 means BN_num_bytes; NULL when the number needs more octets, and when
   it is zero (bn_encode returns BN_bn2bin(..) > 0, which is 0 for the number 0) *)
Definition g_bn_encode_json (x : N) (len : N) : option json :=
  let l := if len =? 0 then g_num_bytes x else len in
  if l <? g_num_bytes x then None
  else if x =? 0 then None
  else jose_b64_enc (g_be (N.to_nat l) x).

(* bn_decode_json: jose_b64_dec of a JSON string (with its length: "s%"), then BN_bin2bn *)
Definition g_bn_decode_json (j : json) : option N :=
  match j with
  | JStr s => match dec s with Some b => Some (g_os2ip b) | None => None end
  | _ => None
  end.

(* ---- what OpenSSL supplies --------------------------------------------------------------------------- *)

Inductive g_curve := GC256 | GC384 | GC521 | GCK256.

Definition g_curve_name (c : g_curve) : bytes :=
  match c with GC256 => g_P256 | GC384 => g_P384 | GC521 => g_P521 | GCK256 => g_K256 end.

(* (EC_GROUP_get_degree(grp) + 7) / 8 *)
Definition g_curve_len (c : g_curve) : N :=
  match c with GC256 => 32 | GC384 => 48 | GC521 => 66 | GCK256 => 32 end.

(* str2enum(crv, "P-256", "P-384", "P-521", "secp256k1", NULL) *)
Definition g_curve_of_name (s : bytes) : option g_curve :=
  if bytes_eqb s g_P256 then Some GC256
  else if bytes_eqb s g_P384 then Some GC384
  else if bytes_eqb s g_P521 then Some GC521
  else if bytes_eqb s g_K256 then Some GCK256
  else None.

Record g_rsa_key := { rk_n : N; rk_e : N; rk_d : N; rk_p : N; rk_q : N; rk_dp : N; rk_dq : N; rk_qi : N }.
Record g_ec_key := { ek_d : N; ek_x : N; ek_y : N }.

Record g_ext := {
  x_rand : bytes;                              (* the octets RAND_bytes will deliver (short = it fails) *)
  x_rsa : Z -> N -> option g_rsa_key;          (* RSA_generate_key_ex(key, (int) bits, e, NULL); None = <= 0 *)
  x_ec : g_curve -> option g_ec_key            (* EC_KEY_new_by_curve_name + EC_KEY_generate_key *)
}.

(* ---- MAKE hooks ------------------------------------------------------------------------------------------ *)

Inductive g_make := GMRsa | GMOct | GMEc.

Definition g_make_kty (h : g_make) : bytes :=
  match h with GMRsa => g_RSA | GMOct => g_oct | GMEc => g_EC end.

(* json_unpack "{s:s}" kty; strcmp(kty, ...) == 0 *)
Definition g_make_handles (h : g_make) (jwk : json) : bool :=
  match g_req_s g_kty jwk with
  | Some t => bytes_eqb t (g_make_kty h)
  | None => false
  end.

(* misc.c copy_val(from, into, names...): every name must exist in [from]; a member [into] already has must
   be json_equal, otherwise a deep copy is added *)
Fixpoint g_copy_val (from into : json) (names : list bytes) : option json :=
  match names with
  | [] => Some into
  | n :: r =>
      match lookup n from with
      | None => None
      | Some f =>
          match lookup n into with
          | Some i => if jequal i f then g_copy_val from into r else None
          | None =>
              match jset n f into with
              | Some j => g_copy_val from j r
              | None => None
              end
          end
      end
  end.

(* OPENSSL_RSA_MAX_MODULUS_BITS (openssl/rsa.h) *)
Definition g_rsa_max_bits : Z := 16384%Z.

(* rsa.c check_public_exponent: 3, or odd with 16 < bits < 257 *)
Definition g_check_public_exponent (e : N) : bool :=
  (e =? 3) || (N.odd e && (16 <? g_num_bits e) && (g_num_bits e <? 257)).

(* the (bits, e) mkrsa asks OpenSSL for; None = mkrsa returns NULL before generating *)
Definition g_rsa_request (jwk : json) : option (Z * N) :=
  match jwk with
  | JObj m =>
      (* json_int_t bits = 2048; json_unpack "{s?I,s?O}" bits e *)
      let bits := match alookup g_bits m with
                  | None => Some 2048%Z
                  | Some (JInt z) => Some z
                  | Some _ => None
                  end in
      match bits with
      | None => None
      | Some bits =>
          if (bits <? 2048)%Z || (g_rsa_max_bits <? bits)%Z then None
          else
            let exp := match alookup g_e m with None => JInt 65537 | Some v => v end in
            let bn := match exp with
                      | JStr _ => g_bn_decode_json exp
                      | JInt z => if (z <? 0)%Z then None else Some (g_to_ulong z)   (* negative: refused *)
                      | _ => None
                      end in
            match bn with
            | Some e => if g_check_public_exponent e then Some (bits, e) else None
            | None => None
            end
      end
  | _ => None
  end.

Definition g_mkrsa (X : g_ext) (jwk : json) : option g_rsa_key :=
  match g_rsa_request jwk with
  | Some (bits, e) =>
      match x_rsa X bits e with
      | Some rk => if (Z.of_N (N.size (rk_n rk)) =? bits)%Z then Some rk else None   (* RSA_bits(key) != bits: refused *)
      | None => None
      end
  | None => None
  end.

(* an object built member by member; a NULL value makes json_pack / json_object_set_new fail *)
Fixpoint g_pack (l : list (bytes * option json)) : option (list (bytes * json)) :=
  match l with
  | [] => Some []
  | (k, Some v) :: r => match g_pack r with Some m => Some ((k, v) :: m) | None => None end
  | (_, None) :: _ => None
  end.

(* lib/openssl/jwk.c jose_openssl_jwk_from_RSA *)
Definition g_from_rsa (k : g_rsa_key) : option json :=
  match g_pack [(g_kty, Some (JStr g_RSA));
                (g_n, g_bn_encode_json (rk_n k) 0); (g_e, g_bn_encode_json (rk_e k) 0);
                (g_d, g_bn_encode_json (rk_d k) 0); (g_p, g_bn_encode_json (rk_p k) 0);
                (g_q, g_bn_encode_json (rk_q k) 0); (g_dp, g_bn_encode_json (rk_dp k) 0);
                (g_dq, g_bn_encode_json (rk_dq k) 0); (g_qi, g_bn_encode_json (rk_qi k) 0)] with
  | Some m => Some (JObj m)
  | None => None
  end.

(* lib/openssl/jwk.c jose_openssl_jwk_from_EC_POINT with a private key *)
Definition g_from_ec (c : g_curve) (k : g_ec_key) : option json :=
  let len := g_curve_len c in
  match g_pack [(g_kty, Some (JStr g_EC)); (g_crv, Some (JStr (g_curve_name c)));
                (g_x, g_bn_encode_json (ek_x k) len); (g_y, g_bn_encode_json (ek_y k) len);
                (g_d, g_bn_encode_json (ek_d k) len)] with
  | Some m => Some (JObj m)
  | None => None
  end.

(* if (json_object_get(jwk, k) && json_object_del(jwk, k) < 0) return false *)
Definition g_del_present (k : bytes) (jwk : json) : option json :=
  if g_has k jwk then jdel k jwk else Some jwk.

Definition g_rsa_members : list bytes := [g_n; g_e; g_p; g_d; g_q; g_dp; g_dq; g_qi].
Definition g_ec_members : list bytes := [g_crv; g_x; g_y; g_d].

Definition g_make_execute (X : g_ext) (h : g_make) (jwk : json) : option json :=
  if negb (g_make_handles h jwk) then None
  else
    match h with
    | GMOct =>
        (* uint8_t key[KEYMAX]; json_unpack "{s:I}" bytes; 0 < len <= KEYMAX; RAND_bytes; del bytes; set k *)
        match lookup g_bytes jwk with
        | Some (JInt len) =>
            if (len <=? 0)%Z || (Z.of_N keymax <? len)%Z then None
            else
              let n := Z.to_nat len in
              if (length (x_rand X) <? n)%nat then None
              else
                match jdel g_bytes jwk with
                | None => None
                | Some j1 =>
                    match jose_b64_enc (take n (x_rand X)) with
                    | Some ks => jset g_k ks j1
                    | None => None
                    end
                end
        | _ => None
        end
    | GMRsa =>
        match g_mkrsa X jwk with
        | None => None
        | Some rk =>
            match g_from_rsa rk with
            | None => None
            | Some key =>
                match g_del_present g_bits jwk with
                | None => None
                | Some j1 =>
                    match g_del_present g_e j1 with
                    | None => None
                    | Some j2 =>
                        (* copy_val(key, jwk, "oth") with its result ignored *)
                        let j3 := match g_copy_val key j2 [g_oth] with Some j => j | None => j2 end in
                        g_copy_val key j3 g_rsa_members
                    end
                end
            end
        end
    | GMEc =>
        (* crv = "P-256"; json_unpack "{s?s}" crv *)
        match g_opt_s g_crv jwk with
        | GBad => None
        | o =>
            match g_curve_of_name (match o with GStr s => s | _ => g_P256 end) with
            | None => None
            | Some c =>
                match x_ec X c with
                | None => None
                | Some k =>
                    match g_from_ec c k with
                    | None => None
                    | Some out => g_copy_val out jwk g_ec_members
                    end
                end
            end
        end
    end.

Definition g_make_hooks : list g_make := [GMRsa; GMOct; GMEc].

(* lib/jwk.c jwk_hook(MAKE): the first hook that handles decides; none -> false *)
Fixpoint gen_make_list (X : g_ext) (hs : list g_make) (jwk : json) : option json :=
  match hs with
  | [] => None
  | h :: r => if g_make_handles h jwk then g_make_execute X h jwk else gen_make_list X r jwk
  end.

Definition gen_make (X : g_ext) (jwk : json) : option json := gen_make_list X g_make_hooks jwk.

(* ---- the tail of jose_jwk_gen ---------------------------------------------------------------------------- *)

(* switch (a->kind) *)
Definition g_ops_of_kind (k : alg_kind) : list bytes :=
  match k with
  | KSign => [g_sign; g_verify]
  | KWrap => [g_wrapKey; g_unwrapKey]
  | KEncr => [g_encrypt; g_decrypt]
  | KExch => [g_deriveKey]
  | _ => []
  end.

(* for (a = jose_hook_alg_list(); a && alg && !use && !ko; a = a->next) { if (strcmp(alg, a->name)) continue; ...; break; } *)
Definition g_infer_ops (alg : bytes) (jwk : json) : option json :=
  match find (fun a => bytes_eqb alg (a_name a)) alg_registry with
  | Some a =>
      let ops := g_ops_of_kind (a_kind a) in
      match ops with
      | [] => Some jwk
      | _ => jset g_key_ops (JArr (map JStr ops)) jwk
      end
  | None => Some jwk
  end.

Definition g_required_present (kty : bytes) (jwk : json) : bool :=
  match find (fun t => bytes_eqb (t_kty t) kty) jwk_types with
  | Some t => forallb (fun r => g_has r jwk) (t_req t)
  | None => false
  end.

Definition gen_post (jwk : json) : option json :=
  (* json_unpack "{s?s,s:s,s?s,s?o}" alg kty use key_ops *)
  match g_opt_s g_alg jwk, g_req_s g_kty jwk, g_opt_s g_use jwk with
  | GBad, _, _ | _, None, _ | _, _, GBad => None
  | alg, Some kty, use =>
      let j1 := match alg, use, lookup g_key_ops jwk with
                | GStr a, GAbsent, None => g_infer_ops a jwk
                | _, _, _ => Some jwk
                end in
      match j1 with
      | None => None
      | Some j1 => if g_required_present kty j1 then Some j1 else None
      end
  end.

(* jose_jwk_gen: Some = true with the JWK as left in place; None = false *)
Definition jwk_gen (X : g_ext) (jwk : json) : option json :=
  match gen_prep jwk with
  | None => None
  | Some j1 =>
      match gen_make X j1 with
      | None => None
      | Some j2 =>
          (* generation-only parameters never stay in the key *)
          match g_del_present g_bytes j2 with
          | None => None
          | Some j3 =>
              match g_del_present g_bits j3 with
              | None => None
              | Some j4 => gen_post j4
              end
          end
      end
  end.

(* the probe of the harness command `genhooks`: which registered names a hook handles *)
Definition gen_hook_probe_prep (h : g_prep) : list bytes :=
  filter (fun a => g_prep_handles h (JObj [(g_alg, JStr a)])) (map a_name alg_registry).
Definition gen_hook_probe_make (h : g_make) : list bytes :=
  filter (fun t => g_make_handles h (JObj [(g_kty, JStr t)])) (map t_kty jwk_types).
