(* lib/jwk.c jose_jwk_prm over the generated operation table. *)
From JoseV Require Export Base.Json.
From JoseV Require Import Gen.Tables.
Local Open Scope N_scope.

Definition s_use : bytes := [117; 115; 101].
Definition s_key_ops : bytes := [107; 101; 121; 95; 111; 112; 115].

Definition opt_is (op : bytes) (o : option bytes) : bool :=
  match o with Some x => bytes_eqb op x | None => false end.

(* for (i < json_array_size(ko)) if (json_is_string(v) && strcmp(op, json_string_value(v)) == 0) *)
Definition listed (op : bytes) (ko : option json) : bool :=
  match ko with
  | Some k => existsb (fun v => match v with JStr s => bytes_eqb op (cstr s) | _ => false end) (array_items k)
  | None => false
  end.

(* op = None models a NULL operation name *)
Definition jwk_prm (jwk : json) (req : bool) (op : option bytes) : bool :=
  match jwk with
  | JObj m =>
      match op with
      | None => false
      | Some op =>
          (* json_unpack(jwk, "{s?s,s?o}", "use", &use, "key_ops", &ko) *)
          match alookup s_use m with
          | Some (JStr u) =>
              let u := cstr u in
              listed op (alookup s_key_ops m) ||
              existsb (fun o => opt_is u (o_use o) && (opt_is op (o_pub o) || opt_is op (o_prv o))) jwk_opers
          | Some _ => false
          | None =>
              match alookup s_key_ops m with
              | None => negb req
              | ko => listed op ko
              end
          end
      end
  | _ => true
  end.
