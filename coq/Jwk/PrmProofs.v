(* jose_jwk_prm equals the RFC 7517 grant formula of property C05, for every JSON value. *)
From JoseV Require Import Jwk.Prm Gen.Tables.
Local Open Scope N_scope.

Definition s_sig : bytes := [115; 105; 103].
Definition s_enc : bytes := [101; 110; 99].
Definition op_sign : bytes := [115; 105; 103; 110].
Definition op_verify : bytes := [118; 101; 114; 105; 102; 121].
Definition op_encrypt : bytes := [101; 110; 99; 114; 121; 112; 116].
Definition op_decrypt : bytes := [100; 101; 99; 114; 121; 112; 116].
Definition op_wrapKey : bytes := [119; 114; 97; 112; 75; 101; 121].
Definition op_unwrapKey : bytes := [117; 110; 119; 114; 97; 112; 75; 101; 121].
Definition op_deriveKey : bytes := [100; 101; 114; 105; 118; 101; 75; 101; 121].
Definition op_deriveBits : bytes := [100; 101; 114; 105; 118; 101; 66; 105; 116; 115].

Definition use_is (u : option json) (x : bytes) : bool :=
  match u with Some (JStr s) => bytes_eqb (cstr s) x | _ => false end.

(* the decision as property C05 states it (RFC 7517 4.2 / 4.3) *)
Definition grant_spec (m : list (bytes * json)) (req : bool) (op : bytes) : bool :=
  match alookup s_use m, alookup s_key_ops m with
  | None, None => negb req
  | u, ko =>
      listed op ko
      || (use_is u s_sig && (bytes_eqb op op_sign || bytes_eqb op op_verify))
      || (use_is u s_enc && (bytes_eqb op op_encrypt || bytes_eqb op op_decrypt
                              || bytes_eqb op op_wrapKey || bytes_eqb op op_unwrapKey))
  end.

Definition use_well_typed (m : list (bytes * json)) : bool :=
  match alookup s_use m with None | Some (JStr _) => true | Some _ => false end.

Theorem prm_is_grant_spec m req op :
  use_well_typed m = true -> jwk_prm (JObj m) req (Some op) = grant_spec m req op.
Proof.
  unfold use_well_typed, jwk_prm, grant_spec. intro W.
  destruct (alookup s_use m) as [u|] eqn:U.
  - destruct u; try discriminate. cbn [use_is].
    unfold jwk_opers. cbn [existsb o_use o_pub o_prv opt_is].
    change [115; 105; 103] with s_sig. change [101; 110; 99] with s_enc.
    change [115; 105; 103; 110] with op_sign. change [118; 101; 114; 105; 102; 121] with op_verify.
    change [101; 110; 99; 114; 121; 112; 116] with op_encrypt. change [100; 101; 99; 114; 121; 112; 116] with op_decrypt.
    change [117; 110; 119; 114; 97; 112; 75; 101; 121] with op_unwrapKey. change [119; 114; 97; 112; 75; 101; 121] with op_wrapKey.
    destruct (listed op (alookup s_key_ops m)); [reflexivity|].
    destruct (bytes_eqb (cstr s) s_sig), (bytes_eqb (cstr s) s_enc),
      (bytes_eqb op op_sign), (bytes_eqb op op_verify), (bytes_eqb op op_encrypt),
      (bytes_eqb op op_decrypt), (bytes_eqb op op_wrapKey), (bytes_eqb op op_unwrapKey); reflexivity.
  - destruct (alookup s_key_ops m) as [k|]; [|reflexivity].
    cbn [use_is andb orb]. rewrite !Bool.orb_false_r. reflexivity.
Qed.

(* a malformed 'use' (present, not a string) refuses everything: stricter than the formula, never laxer *)
Theorem prm_bad_use_refuses m req op v :
  alookup s_use m = Some v -> is_string v = false -> jwk_prm (JObj m) req (Some op) = false.
Proof. intros H T. unfold jwk_prm. rewrite H. destruct v; try reflexivity. discriminate. Qed.

Theorem prm_non_object j req op : is_object j = false -> jwk_prm j req op = true.
Proof. destruct j; intro H; try reflexivity. discriminate. Qed.

(* the eight registered operation names are exactly RFC 7517's *)
Theorem opers_are_rfc7517 :
  map (fun o => (o_pub o, o_prv o, o_use o)) jwk_opers =
  [ (Some op_deriveBits, None, None); (Some op_deriveKey, None, None);
    (Some op_wrapKey, Some op_unwrapKey, Some s_enc);
    (Some op_encrypt, Some op_decrypt, Some s_enc);
    (Some op_verify, Some op_sign, Some s_sig) ].
Proof. reflexivity. Qed.
