(* lib/jwk.c jwk_str / jose_jwk_thp / jose_jwk_thp_buf / jose_jwk_eql, lib/hsh.c *)
From JoseV Require Export Base.Json Base.JsonDump Codec.B64Json Jwk.Pub Crypto.Sha.
From JoseV Require Import Gen.Tables.
Local Open Scope N_scope.

(* the thumbprint input: {"kty": <as given>, required members...} dumped sorted and compact *)
Definition thp_object (jwk : json) : option json :=
  match kty_of jwk with
  | None => None
  | Some kty =>
      match find_type_ci kty with
      | None => None
      | Some t =>
          match lookup s_kty jwk with
          | None => None
          | Some ktyv =>
              (fix go (req : list bytes) (acc : list (bytes * json)) : option json :=
                 match req with
                 | [] => Some (JObj acc)
                 | r :: rest => match lookup r jwk with
                                | Some v => go rest (aset r v acc)
                                | None => None
                                end
                 end) (t_req t) [(s_kty, ktyv)]
          end
      end
  end.

Definition jwk_str (jwk : json) : option bytes :=
  match thp_object jwk with
  | Some o => Some (cstr (dump o))
  | None => None
  end.

(* registered hash names *)
Definition hash_of_name (name : bytes) : option hname :=
  match find (fun e => match a_kind e with KHash => bytes_eqb (a_name e) name | _ => false end) alg_registry with
  | None => None
  | Some _ =>
      if bytes_eqb name [83; 49] then Some SHA1
      else if bytes_eqb name [83; 50; 50; 52] then Some SHA224
      else if bytes_eqb name [83; 50; 53; 54] then Some SHA256
      else if bytes_eqb name [83; 51; 56; 52] then Some SHA384
      else if bytes_eqb name [83; 53; 49; 50] then Some SHA512
      else None
  end.

(* jose_jwk_thp: base64url of the digest, as a JSON string *)
Definition jwk_thp (jwk : json) (hname_ : bytes) : option json :=
  match jwk_str jwk with
  | None => None
  | Some str =>
      match hash_of_name hname_ with
      | None => None
      | Some h => jose_b64_enc (hash h str)
      end
  end.

(* jose_jwk_thp_buf: len = None models thp == NULL; returns (size_t result, bytes stored) *)
Definition jwk_thp_buf (jwk : json) (hname_ : bytes) (len : option N) : option N * bytes :=
  match len with
  | None | Some 0 =>
      (match hash_of_name hname_ with Some h => Some (hash_len h) | None => None end, [])
  | Some l =>
      match jwk_str jwk with
      | None => (None, [])
      | Some str =>
          match hash_of_name hname_ with
          | None => (None, [])
          | Some h => if l <? hash_len h then (None, []) else (Some (hash_len h), hash h str)
          end
      end
  end.

(* jose_jwk_eql *)
Definition jwk_eql (a b : json) : bool :=
  match kty_of a with
  | None => false
  | Some kty =>
      match find_type_ci kty with
      | None => false
      | Some t =>
          match lookup s_kty a, lookup s_kty b with
          | Some ka, Some kb =>
              jequal ka kb &&
              forallb (fun r => match lookup r a, lookup r b with
                                | Some x, Some y => jequal x y
                                | _, _ => false
                                end) (t_req t)
          | _, _ => false
          end
      end
  end.
