(* C13: proofs about the exchange model (Jwk/ExcAlg.v, Jwk/Exc.v).
   Algebra over an ARBITRARY abelian group with an integer action ([scalar_group]);
   mode selection, result shape and refusals over an ARBITRARY [ec_impl]. *)
From JoseV Require Import Jwk.Exc Jwk.ExcAlg Jwk.Prm Jwk.PrmProofs Jose.AlgCheckProofs.
From JoseV Require Import Gen.Tables Jose.Stubs Jose.Suggest.
Local Open Scope Z_scope.

(* ------------------------------------------------------------------ *)
Section Algebra.
  Context {G : Type}.
  Variables (add : G -> G -> G) (neg : G -> G) (zero : G) (smul : Z -> G -> G).
  Hypothesis laws : scalar_group add neg zero smul.

  Lemma smul_comm a b P : smul a (smul b P) = smul b (smul a P).
  Proof.
    rewrite <- !(sg_smul_mul _ _ _ _ laws). f_equal. apply Z.mul_comm.
  Qed.

  (* both roles of an ECDH exchange compute the same point *)
  Lemma ecdh_sym a b P :
    ecdh_op zero smul (Some a) (smul b P) = ecdh_op zero smul (Some b) (smul a P).
  Proof. cbn. apply smul_comm. Qed.

  Lemma add_zero_r a : add a zero = a.
  Proof. rewrite (sg_comm _ _ _ _ laws). apply (sg_zero_l _ _ _ _ laws). Qed.

  Lemma add_sub_cancel a b : add (add a b) (neg b) = a.
  Proof.
    rewrite <- (sg_assoc _ _ _ _ laws), (sg_neg_r _ _ _ _ laws). apply add_zero_r.
  Qed.

  (* the three modes, on the operation level *)
  Lemma ecmr_op_modes :
    (forall d Ql dr Qr, ecmr_op add neg smul (Some d) Ql dr Qr = smul d Qr) /\
    (forall Ql d Qr, ecmr_op add neg smul None Ql (Some d) Qr = add Ql Qr) /\
    (forall Ql Qr, ecmr_op add neg smul None Ql None Qr = add Ql (neg Qr)).
  Proof. repeat split. Qed.

  (* McCallum-Relyea: client key c, server key s, ephemeral key e, base point P *)
  Lemma ecmr_recovery c s e P :
    let Cp := smul c P in
    let Sp := smul s P in
    let Ep := smul e P in
    (* client: local = its public key, remote = the ephemeral key WITH its private value *)
    let X := ecmr_op add neg smul None Cp (Some e) Ep in
    (* server: local = its private key, remote = X *)
    let Y := ecmr_op add neg smul (Some s) Sp None X in
    (* client: local = the ephemeral private key, remote = the server's public key *)
    let Zp := ecmr_op add neg smul (Some e) Ep None Sp in
    (* client: two public points *)
    let K := ecmr_op add neg smul None Y None Zp in
    X = add Cp Ep /\ Y = smul s X /\ Zp = smul e Sp /\ K = add Y (neg Zp) /\
    K = smul c Sp /\ K = smul s Cp /\
    K = ecdh_op zero smul (Some c) Sp /\
    K = ecmr_op add neg smul (Some c) Cp None Sp /\
    K = ecdh_op zero smul (Some s) Cp.
  Proof.
    cbn.
    assert (K : add (smul s (add (smul c P) (smul e P))) (neg (smul e (smul s P))) = smul s (smul c P)).
    { rewrite (sg_smul_add_r _ _ _ _ laws), (smul_comm e s). apply add_sub_cancel. }
    repeat split; try exact K.
    - rewrite K. apply smul_comm.
    - rewrite K. apply smul_comm.
    - rewrite K. apply smul_comm.
  Qed.
End Algebra.

(* the integers themselves are such a group: the laws are satisfiable *)
Lemma Z_scalar_group : scalar_group Z.add Z.opp 0 Z.mul.
Proof. constructor; intros; ring. Qed.

(* ------------------------------------------------------------------ *)
(* Generic facts about jose_jwk_exc (any list of algorithms). *)

Lemma jwk_exc_some xs prv pub r :
  jwk_exc xs prv pub = Some r -> exists a, In a xs /\ xa_exc a prv pub = Some r.
Proof.
  unfold jwk_exc. destruct (unpack_kty_alg prv) as [[ta a]|]; [|discriminate].
  destruct (unpack_kty_alg pub) as [[tb b]|]; [|discriminate].
  destruct (negb (bytes_eqb ta tb)); [discriminate|].
  match goal with |- context [if ?c then None else _] => destruct c; [discriminate|] end.
  match goal with |- context [match ?nm with Some _ => _ | None => None end = _] => destruct nm as [n0|]; [|discriminate] end.
  destruct (find _ xs) as [x|] eqn:F; [|discriminate].
  destruct (negb (jwk_prm prv false (Some (xa_prm x)))); [discriminate|].
  destruct (negb (jwk_prm pub false (Some (xa_prm x)))); [discriminate|].
  intro H. exists x. apply find_some in F. tauto.
Qed.

Lemma jwk_exc_all_refuse xs prv pub :
  (forall a, In a xs -> xa_exc a prv pub = None) -> jwk_exc xs prv pub = None.
Proof.
  intro H. destruct (jwk_exc xs prv pub) as [r|] eqn:E; [|reflexivity].
  apply jwk_exc_some in E. destruct E as [a [Ia Ea]]. rewrite (H a Ia) in Ea. discriminate.
Qed.

(* ------------------------------------------------------------------ *)
Section Impl.
  Context {G : Type} (I : ec_impl G).

  (* ---- key import ---- *)
  Lemma to_ec_key_inv jwk k :
    to_ec_key I jwk = Some k ->
    exists m kty cn jx jy X Y,
      jwk = JObj m /\
      alookup x_kty m = Some (JStr kty) /\ cstr kty = t_EC /\
      alookup s_crv m = Some (JStr cn) /\ crv_of_name (cstr cn) = Some (k_crv k) /\
      alookup s_x m = Some jx /\ alookup s_y m = Some jy /\
      bn_decode_json jx = Some X /\ bn_decode_json jy = Some Y /\
      k_pub k = ei_mk I (k_crv k) X Y /\
      ei_check I (k_crv k) (k_pub k) (k_prv k) = true /\
      match alookup s_d m with
      | None => k_prv k = None
      | Some jd => exists d, bn_decode_json jd = Some d /\ k_prv k = Some d
      end.
  Proof.
    unfold to_ec_key. destruct jwk; try discriminate.
    destruct (alookup x_kty m) as [[| | | |kty| |]|] eqn:A1; try discriminate.
    destruct (alookup s_crv m) as [[| | | |cn| |]|] eqn:A2; try discriminate.
    destruct (alookup s_x m) as [jx|] eqn:A3; try discriminate.
    destruct (alookup s_y m) as [jy|] eqn:A4; try discriminate.
    destruct (bytes_eqb (cstr kty) t_EC) eqn:Ek; cbn [negb]; [|discriminate].
    apply bytes_eqb_eq in Ek.
    destruct (crv_of_name (cstr cn)) as [c|] eqn:Ec; [|discriminate].
    destruct (alookup s_d m) as [jd|] eqn:Ed.
    - destruct (bn_decode_json jd) as [d|] eqn:Dd; [|discriminate].
      destruct (bn_decode_json jx) as [X|] eqn:Dx; [|discriminate].
      destruct (bn_decode_json jy) as [Y|] eqn:Dy; [|discriminate].
      destruct (ei_check I c (ei_mk I c X Y) (Some d)) eqn:Ck; [|discriminate].
      intro H; inversion H; subst; cbn.
      exists m, kty, cn, jx, jy, X, Y. rewrite Ed. repeat split; auto. exists d; auto.
    - destruct (bn_decode_json jx) as [X|] eqn:Dx; [|discriminate].
      destruct (bn_decode_json jy) as [Y|] eqn:Dy; [|discriminate].
      destruct (ei_check I c (ei_mk I c X Y) None) eqn:Ck; [|discriminate].
      intro H; inversion H; subst; cbn.
      exists m, kty, cn, jx, jy, X, Y. rewrite Ed. repeat split; auto.
  Qed.

  Lemma crv_of_name_spec s c : crv_of_name s = Some c -> s = crv_name c.
  Proof.
    unfold crv_of_name.
    destruct (bytes_eqb s c_P256) eqn:E1; [apply bytes_eqb_eq in E1; intro H; inversion H; subst; reflexivity|].
    destruct (bytes_eqb s c_P384) eqn:E2; [apply bytes_eqb_eq in E2; intro H; inversion H; subst; reflexivity|].
    destruct (bytes_eqb s c_P521) eqn:E3; [apply bytes_eqb_eq in E3; intro H; inversion H; subst; reflexivity|].
    destruct (bytes_eqb s c_K256) eqn:E4; [apply bytes_eqb_eq in E4; intro H; inversion H; subst; reflexivity|].
    discriminate.
  Qed.

  Lemma crv_eqb_eq a b : crv_eqb a b = true <-> a = b.
  Proof. destruct a, b; cbn; split; intro H; try reflexivity; try discriminate. Qed.

  (* the curve of an imported key is the one its "crv" member names *)
  Lemma to_ec_key_crv jwk k :
    to_ec_key I jwk = Some k ->
    exists cn, lookup s_crv jwk = Some (JStr cn) /\ cstr cn = crv_name (k_crv k).
  Proof.
    intro H. apply to_ec_key_inv in H.
    destruct H as (m & kty & cn & jx & jy & X & Y & -> & _ & _ & Hc & Hn & _).
    exists cn. split; [exact Hc|]. apply crv_of_name_spec. exact Hn.
  Qed.

  (* the imported key has a private value exactly when the JWK has a member "d" *)
  Lemma to_ec_key_prv jwk k :
    to_ec_key I jwk = Some k -> (k_prv k = None <-> lookup s_d jwk = None).
  Proof.
    intro H. apply to_ec_key_inv in H.
    destruct H as (m & kty & cn & jx & jy & X & Y & -> & _ & _ & _ & _ & _ & _ & _ & _ & _ & _ & Hd).
    cbn [lookup]. destruct (alookup s_d m) as [jd|].
    - destruct Hd as [d [_ Hd]]. rewrite Hd. split; discriminate.
    - rewrite Hd. tauto.
  Qed.

  (* ---- what each algorithm computes (mode selection), on the JSON level ---- *)
  Lemma ecdh_exc_spec prv pub l r :
    to_ec_key I prv = Some l -> to_ec_key I pub = Some r ->
    ecdh_exc I prv pub =
      if crv_eqb (k_crv l) (k_crv r) then
        from_point I (k_crv r)
          (match k_prv l with
           | Some d => ei_smul I (k_crv l) d (k_pub r)
           | None => ei_zero I (k_crv l)
           end)
      else None.
  Proof.
    intros L R. unfold ecdh_exc, exch_with. rewrite L, R.
    destruct (crv_eqb (k_crv l) (k_crv r)); cbn [negb]; [|reflexivity].
    destruct (k_prv l); reflexivity.
  Qed.

  Lemma ecmr_exc_spec prv pub l r :
    to_ec_key I prv = Some l -> to_ec_key I pub = Some r ->
    ecmr_exc I prv pub =
      if crv_eqb (k_crv l) (k_crv r) then
        from_point I (k_crv r)
          (match k_prv l, k_prv r with
           | Some d, _ => ei_smul I (k_crv l) d (k_pub r)
           | None, Some _ => ei_add I (k_crv l) (k_pub l) (k_pub r)
           | None, None => ei_add I (k_crv l) (k_pub l) (ei_neg I (k_crv l) (k_pub r))
           end)
      else None.
  Proof.
    intros L R. unfold ecmr_exc, exch_with. rewrite L, R.
    destruct (crv_eqb (k_crv l) (k_crv r)); cbn [negb]; [|reflexivity].
    destruct (k_prv l), (k_prv r); reflexivity.
  Qed.

  (* if either key is not importable nothing is computed *)
  Lemma exch_with_needs_keys op prv pub :
    to_ec_key I prv = None \/ to_ec_key I pub = None -> exch_with I op prv pub = None.
  Proof.
    unfold exch_with. intros [H|H]; rewrite H; [reflexivity|].
    destruct (to_ec_key I prv); reflexivity.
  Qed.

  (* ---- result shape ---- *)
  Definition result_of (c : crv) (bx by_ : bytes) : json :=
    JObj [(x_kty, JStr t_EC); (s_crv, JStr (crv_name c)); (s_x, JStr bx); (s_y, JStr by_)].

  Lemma bn_encode_json_str x len j : bn_encode_json x len = Some j -> exists b, j = JStr b.
  Proof.
    unfold bn_encode_json. destruct (x =? 0); [discriminate|].
    destruct (i2osp x len); [|discriminate]. intro H; inversion H. eauto.
  Qed.

  Lemma from_point_shape c P j :
    from_point I c P = Some j -> exists bx by_, j = result_of c bx by_.
  Proof.
    unfold from_point.
    destruct (match ei_affine I c P with Some xy => xy | None => (0, 0) end) as [x y].
    destruct (bn_encode_json x (crv_len c)) as [jx|] eqn:Ex; [|discriminate].
    destruct (bn_encode_json y (crv_len c)) as [jy|] eqn:Ey; [|discriminate].
    apply bn_encode_json_str in Ex. apply bn_encode_json_str in Ey.
    destruct Ex as [bx ->]. destruct Ey as [by_ ->].
    intro H; inversion H. exists bx, by_. reflexivity.
  Qed.

  Lemma exch_with_shape op prv pub j :
    exch_with I op prv pub = Some j -> exists c bx by_, j = result_of c bx by_.
  Proof.
    unfold exch_with. destruct (to_ec_key I prv) as [l|]; [|discriminate].
    destruct (to_ec_key I pub) as [r|]; [|discriminate].
    destruct (negb (crv_eqb (k_crv l) (k_crv r))); [discriminate|].
    intro H. apply from_point_shape in H. destruct H as (bx & by_ & ->). eauto.
  Qed.

  (* every registered hook is one of the two algorithms (or refuses) *)
  Lemma exch_algs_hooks a :
    In a (exch_algs I) ->
    xa_exc a = ecdh_exc I \/ xa_exc a = ecmr_exc I \/ xa_exc a = (fun _ _ => None).
  Proof.
    unfold exch_algs. intro H. apply in_map_iff in H. destruct H as [e [<- _]].
    unfold exch_of_entry; cbn [xa_exc].
    destruct (bytes_eqb (a_name e) n_ECDH); [tauto|].
    destruct (bytes_eqb (a_name e) n_ECMR); tauto.
  Qed.

  Lemma hook_shape a prv pub j :
    In a (exch_algs I) -> xa_exc a prv pub = Some j -> exists c bx by_, j = result_of c bx by_.
  Proof.
    intros Ia H. destruct (exch_algs_hooks a Ia) as [E|[E|E]]; rewrite E in H.
    - exact (exch_with_shape _ _ _ _ H).
    - exact (exch_with_shape _ _ _ _ H).
    - discriminate.
  Qed.

  (* the result of either exchange -- directly or through jose_jwk_exc -- has exactly the
     members kty, crv, x, y (in that order), all strings, and no "d" *)
  Lemma no_private prv pub j :
    ecdh_exc I prv pub = Some j \/ ecmr_exc I prv pub = Some j \/ jose_jwk_exc I prv pub = Some j ->
    (exists c bx by_, j = result_of c bx by_) /\
    (exists m, j = JObj m /\ akeys m = [x_kty; s_crv; s_x; s_y]) /\
    lookup s_d j = None.
  Proof.
    intro H.
    assert (S : exists c bx by_, j = result_of c bx by_).
    { destruct H as [H|[H|H]].
      - exact (exch_with_shape _ _ _ _ H).
      - exact (exch_with_shape _ _ _ _ H).
      - apply jwk_exc_some in H. destruct H as [a [Ia Ha]]. exact (hook_shape a prv pub j Ia Ha). }
    split; [exact S|]. destruct S as (c & bx & by_ & ->).
    split; [eexists; split; reflexivity|reflexivity].
  Qed.

  (* ---- refusals ---- *)

  (* different curves: refused by the algorithm's same-group check *)
  Lemma exch_with_curve_mismatch op prv pub ca cb :
    lookup s_crv prv = Some (JStr ca) -> lookup s_crv pub = Some (JStr cb) ->
    cstr ca <> cstr cb -> exch_with I op prv pub = None.
  Proof.
    intros A B N. unfold exch_with.
    destruct (to_ec_key I prv) as [l|] eqn:L; [|reflexivity].
    destruct (to_ec_key I pub) as [r|] eqn:R; [|reflexivity].
    destruct (crv_eqb (k_crv l) (k_crv r)) eqn:E; cbn [negb]; [|reflexivity].
    exfalso. apply crv_eqb_eq in E.
    apply to_ec_key_crv in L. apply to_ec_key_crv in R.
    destruct L as [ca' [A' La]]. destruct R as [cb' [B' Rb]].
    rewrite A in A'. rewrite B in B'. inversion A'; inversion B'; subst.
    apply N. rewrite La, Rb, E. reflexivity.
  Qed.

  Lemma curve_mismatch prv pub ca cb :
    lookup s_crv prv = Some (JStr ca) -> lookup s_crv pub = Some (JStr cb) ->
    cstr ca <> cstr cb ->
    ecdh_exc I prv pub = None /\ ecmr_exc I prv pub = None /\ jose_jwk_exc I prv pub = None.
  Proof.
    intros A B N. split; [|split].
    - exact (exch_with_curve_mismatch _ _ _ _ _ A B N).
    - exact (exch_with_curve_mismatch _ _ _ _ _ A B N).
    - apply jwk_exc_all_refuse. intros a Ia.
      destruct (exch_algs_hooks a Ia) as [E|[E|E]]; rewrite E.
      + exact (exch_with_curve_mismatch _ _ _ _ _ A B N).
      + exact (exch_with_curve_mismatch _ _ _ _ _ A B N).
      + reflexivity.
  Qed.

  (* key types other than "EC" are refused by both algorithms (key import) *)
  Lemma not_ec_refused op prv pub t :
    (lookup x_kty prv = Some (JStr t) \/ lookup x_kty pub = Some (JStr t)) -> cstr t <> t_EC ->
    exch_with I op prv pub = None.
  Proof.
    intros H N. apply exch_with_needs_keys.
    destruct H as [H|H]; [left|right].
    - destruct (to_ec_key I prv) as [k|] eqn:K; [|reflexivity]. exfalso.
      apply to_ec_key_inv in K. destruct K as (m & kty & cn & jx & jy & X & Y & -> & Hk & Ht & _).
      cbn [lookup] in H. rewrite H in Hk. inversion Hk; subst. contradiction.
    - destruct (to_ec_key I pub) as [k|] eqn:K; [|reflexivity]. exfalso.
      apply to_ec_key_inv in K. destruct K as (m & kty & cn & jx & jy & X & Y & -> & Hk & Ht & _).
      cbn [lookup] in H. rewrite H in Hk. inversion Hk; subst. contradiction.
  Qed.

  (* a key that does not pass EC_KEY_check_key (off-curve point, d not matching x/y, d out
     of range) is refused *)
  Lemma invalid_key_refused op prv pub :
    (forall k, to_ec_key I prv = Some k -> False) \/ (forall k, to_ec_key I pub = Some k -> False) ->
    exch_with I op prv pub = None.
  Proof.
    intro H. apply exch_with_needs_keys. destruct H as [H|H]; [left|right].
    - destruct (to_ec_key I prv) as [k|]; [destruct (H k eq_refl)|reflexivity].
    - destruct (to_ec_key I pub) as [k|]; [destruct (H k eq_refl)|reflexivity].
  Qed.

  Lemma check_fails_refused jwk m X Y c d :
    jwk = JObj m ->
    (match alookup s_crv m with Some (JStr cn) => crv_of_name (cstr cn) = Some c | _ => False end) ->
    (match alookup s_x m with Some jx => bn_decode_json jx = Some X | None => False end) ->
    (match alookup s_y m with Some jy => bn_decode_json jy = Some Y | None => False end) ->
    (match alookup s_d m with
     | Some jd => exists z, bn_decode_json jd = Some z /\ d = Some z
     | None => d = None end) ->
    ei_check I c (ei_mk I c X Y) d = false ->
    to_ec_key I jwk = None.
  Proof.
    intros -> Hc Hx Hy Hd Ck. unfold to_ec_key.
    destruct (alookup x_kty m) as [[| | | |kty| |]|]; try reflexivity.
    destruct (alookup s_crv m) as [[| | | |cn| |]|]; try contradiction.
    destruct (alookup s_x m) as [jx|]; [|contradiction].
    destruct (alookup s_y m) as [jy|]; [|contradiction].
    destruct (negb (bytes_eqb (cstr kty) t_EC)); [reflexivity|].
    rewrite Hc, Hx, Hy.
    destruct (alookup s_d m) as [jd|].
    - destruct Hd as [z [Hz ->]]. rewrite Hz, Ck. reflexivity.
    - subst d. rewrite Ck. reflexivity.
  Qed.

  (* ECDH always needs the local private value: without it the product is the point at
     infinity, which cannot be exported *)
  Hypothesis affine_zero : forall c, ei_affine I c (ei_zero I c) = None.

  Lemma from_point_zero c : from_point I c (ei_zero I c) = None.
  Proof. unfold from_point. rewrite affine_zero. reflexivity. Qed.

  Lemma ecdh_needs_private prv pub :
    lookup s_d prv = None -> ecdh_exc I prv pub = None.
  Proof.
    intro D. destruct (to_ec_key I prv) as [l|] eqn:L.
    2:{ apply exch_with_needs_keys. tauto. }
    destruct (to_ec_key I pub) as [r|] eqn:R.
    2:{ apply exch_with_needs_keys. tauto. }
    rewrite (ecdh_exc_spec _ _ _ _ L R).
    destruct (crv_eqb (k_crv l) (k_crv r)) eqn:E; [|reflexivity].
    apply (to_ec_key_prv _ _ L) in D. rewrite D.
    apply crv_eqb_eq in E. rewrite E. apply from_point_zero.
  Qed.

  (* ... also through jose_jwk_exc, whenever the algorithm in force is ECDH (declared by a
     key, or inferred: ECDH is the only algorithm that is ever suggested) *)
  Lemma find_ecdh :
    exists a, find (fun a => bytes_eqb (xa_name a) n_ECDH) (exch_algs I) = Some a /\
              xa_exc a = ecdh_exc I.
  Proof. eexists. split; reflexivity. Qed.

  Lemma first_sug_is_ecdh prv pub n :
    first_sug (exch_algs I) prv pub = Some n -> n = n_ECDH.
  Proof.
    change (first_sug (exch_algs I) prv pub)
      with (match ecdh_sug prv pub with Some n => Some n | None => None end).
    unfold ecdh_sug.
    destruct (get_opt_str Jwe.s_kty prv); try discriminate.
    destruct (get_opt_str s_crv prv); try discriminate.
    destruct (get_opt_str Jwe.s_kty pub); try discriminate.
    destruct (get_opt_str s_crv pub); try discriminate.
    match goal with |- context [if ?c then _ else _] => destruct c end; [|discriminate].
    intro H; inversion H; reflexivity.
  Qed.

  Lemma jwk_exc_ecdh_needs_private prv pub :
    lookup s_d prv = None ->
    (forall ta a, unpack_kty_alg prv = Some (ta, Some a) -> a = n_ECDH) ->
    (forall ta tb b, unpack_kty_alg prv = Some (ta, None) ->
                     unpack_kty_alg pub = Some (tb, Some b) -> b = n_ECDH) ->
    jose_jwk_exc I prv pub = None.
  Proof.
    intros D HA HB. unfold jose_jwk_exc, jwk_exc.
    destruct (unpack_kty_alg prv) as [[ta alga]|] eqn:UA; [|reflexivity].
    destruct (unpack_kty_alg pub) as [[tb algb]|] eqn:UB; [|reflexivity].
    destruct (negb (bytes_eqb ta tb)); [reflexivity|].
    match goal with |- context [if ?c then None else _] => destruct c; [reflexivity|] end.
    assert (N : match alga, algb with
                | Some a, _ => Some a
                | None, Some b => Some b
                | None, None => first_sug (exch_algs I) prv pub
                end = None \/
                match alga, algb with
                | Some a, _ => Some a
                | None, Some b => Some b
                | None, None => first_sug (exch_algs I) prv pub
                end = Some n_ECDH).
    { destruct alga as [a|].
      - right. rewrite (HA ta a eq_refl). reflexivity.
      - destruct algb as [b|].
        + right. rewrite (HB ta tb b eq_refl eq_refl). reflexivity.
        + destruct (first_sug (exch_algs I) prv pub) as [n|] eqn:F; [|tauto].
          right. rewrite (first_sug_is_ecdh _ _ _ F). reflexivity. }
    destruct N as [N|N]; rewrite N; [reflexivity|].
    destruct find_ecdh as [a [F E]]. rewrite F.
    destruct (negb (jwk_prm prv false (Some (xa_prm a)))); [reflexivity|].
    destruct (negb (jwk_prm pub false (Some (xa_prm a)))); [reflexivity|].
    rewrite E. apply ecdh_needs_private. exact D.
  Qed.

  (* ---- permissions ---- *)
  Lemma exch_algs_prm a : In a (exch_algs I) -> xa_prm a = op_deriveKey.
  Proof.
    unfold exch_algs. intro H. apply in_map_iff in H. destruct H as [e [<- He]].
    apply filter_In in He. destruct He as [He Hk]. cbn [exch_of_entry xa_prm].
    assert (T : forallb (fun e => negb (is_kind KExch e) || bytes_eqb (oget (a_prm1 e)) op_deriveKey)
                        alg_registry = true) by (vm_compute; reflexivity).
    rewrite forallb_forall in T. specialize (T e He). rewrite Hk in T. cbn in T.
    apply bytes_eqb_eq in T. exact T.
  Qed.

  Lemma not_permitted prv pub :
    jwk_prm prv false (Some op_deriveKey) = false \/ jwk_prm pub false (Some op_deriveKey) = false ->
    jose_jwk_exc I prv pub = None.
  Proof.
    intro H. destruct (jose_jwk_exc I prv pub) as [r|] eqn:E; [|reflexivity].
    unfold jose_jwk_exc in E. apply exc_denied in E. destruct E as [a [Ia [P1 P2]]].
    rewrite (exch_algs_prm a Ia) in P1, P2. destruct H as [H|H]; congruence.
  Qed.
End Impl.

(* when is deriveKey not granted: key_ops present without it (and no "use"), or any "use"
   at all without a key_ops entry (no "use" value implies deriveKey in the operation table) *)
Lemma key_ops_without_derive m ko req :
  alookup s_use m = None -> alookup s_key_ops m = Some ko -> listed op_deriveKey (Some ko) = false ->
  jwk_prm (JObj m) req (Some op_deriveKey) = false.
Proof. intros U K L. unfold jwk_prm. rewrite U, K. exact L. Qed.

Lemma use_never_grants_derive m u req :
  alookup s_use m = Some u -> listed op_deriveKey (alookup s_key_ops m) = false ->
  jwk_prm (JObj m) req (Some op_deriveKey) = false.
Proof.
  intros U L. unfold jwk_prm. rewrite U. destruct u; try reflexivity. rewrite L.
  unfold jwk_opers. cbn [existsb o_use o_pub o_prv opt_is orb].
  repeat match goal with |- context [bytes_eqb op_deriveKey ?x] =>
    let v := eval vm_compute in (bytes_eqb op_deriveKey x) in
    change (bytes_eqb op_deriveKey x) with v end.
  cbn [orb andb]. rewrite !Bool.andb_false_r. reflexivity.
Qed.

(* ------------------------------------------------------------------ *)
(* The statements of Props/Properties_C13.v, assembled. *)

Theorem thm_ecdh_sym {G} (add : G -> G -> G) neg zero smul :
  scalar_group add neg zero smul ->
  forall a b P,
    smul a (smul b P) = smul b (smul a P) /\
    ecdh_op zero smul (Some a) (smul b P) = ecdh_op zero smul (Some b) (smul a P).
Proof. intros L a b P. split; [exact (smul_comm add neg zero smul L a b P)|exact (ecdh_sym add neg zero smul L a b P)]. Qed.

Theorem thm_ecmr_modes {G} (I : ec_impl G) prv pub l r :
  to_ec_key I prv = Some l -> to_ec_key I pub = Some r ->
  (k_prv l = None <-> lookup s_d prv = None) /\
  (k_prv r = None <-> lookup s_d pub = None) /\
  ecmr_exc I prv pub =
    if crv_eqb (k_crv l) (k_crv r) then
      from_point I (k_crv r)
        (match k_prv l, k_prv r with
         | Some d, _ => ei_smul I (k_crv l) d (k_pub r)
         | None, Some _ => ei_add I (k_crv l) (k_pub l) (k_pub r)
         | None, None => ei_add I (k_crv l) (k_pub l) (ei_neg I (k_crv l) (k_pub r))
         end)
    else None.
Proof.
  intros L R. split; [exact (to_ec_key_prv I _ _ L)|]. split; [exact (to_ec_key_prv I _ _ R)|].
  exact (ecmr_exc_spec I _ _ _ _ L R).
Qed.

Theorem thm_ecdh_mode {G} (I : ec_impl G) prv pub l r :
  to_ec_key I prv = Some l -> to_ec_key I pub = Some r ->
  ecdh_exc I prv pub =
    if crv_eqb (k_crv l) (k_crv r) then
      from_point I (k_crv r)
        (match k_prv l with
         | Some d => ei_smul I (k_crv l) d (k_pub r)
         | None => ei_zero I (k_crv l)
         end)
    else None.
Proof. exact (ecdh_exc_spec I prv pub l r). Qed.

Lemma hooks_refuse_top {G} (I : ec_impl G) prv pub :
  ecdh_exc I prv pub = None -> ecmr_exc I prv pub = None -> jose_jwk_exc I prv pub = None.
Proof.
  intros A B. apply jwk_exc_all_refuse. intros a Ia.
  destruct (exch_algs_hooks I a Ia) as [E|[E|E]]; rewrite E; auto.
Qed.

Theorem thm_refusals {G} (I : ec_impl G) :
  (forall c, ei_affine I c (ei_zero I c) = None) ->
  forall prv pub,
  (* different key types *)
  (forall ta tb a b, unpack_kty_alg prv = Some (ta, a) -> unpack_kty_alg pub = Some (tb, b) ->
     ta <> tb -> jose_jwk_exc I prv pub = None) /\
  (* key types other than EC (e.g. both oct, both RSA) *)
  (forall t, lookup x_kty prv = Some (JStr t) \/ lookup x_kty pub = Some (JStr t) -> cstr t <> t_EC ->
     ecdh_exc I prv pub = None /\ ecmr_exc I prv pub = None /\ jose_jwk_exc I prv pub = None) /\
  (* different declared algorithms *)
  (forall ta tb a b, unpack_kty_alg prv = Some (ta, Some a) -> unpack_kty_alg pub = Some (tb, Some b) ->
     a <> b -> jose_jwk_exc I prv pub = None) /\
  (* different curves *)
  (forall ca cb, lookup s_crv prv = Some (JStr ca) -> lookup s_crv pub = Some (JStr cb) ->
     cstr ca <> cstr cb ->
     ecdh_exc I prv pub = None /\ ecmr_exc I prv pub = None /\ jose_jwk_exc I prv pub = None) /\
  (* ECDH without the local private value *)
  (lookup s_d prv = None ->
     ecdh_exc I prv pub = None /\
     ((forall ta a, unpack_kty_alg prv = Some (ta, Some a) -> a = n_ECDH) ->
      (forall ta tb b, unpack_kty_alg prv = Some (ta, None) ->
                       unpack_kty_alg pub = Some (tb, Some b) -> b = n_ECDH) ->
      jose_jwk_exc I prv pub = None)) /\
  (* deriveKey not granted *)
  (jwk_prm prv false (Some op_deriveKey) = false \/ jwk_prm pub false (Some op_deriveKey) = false ->
     jose_jwk_exc I prv pub = None) /\
  (* a key that is not importable (not on the curve, d not matching x/y or out of range,
     unknown curve, undecodable member) *)
  (to_ec_key I prv = None \/ to_ec_key I pub = None ->
     ecdh_exc I prv pub = None /\ ecmr_exc I prv pub = None /\ jose_jwk_exc I prv pub = None).
Proof.
  intros Hz prv pub. repeat split.
  - intros ta tb a b A B N. exact (exc_kty_mismatch _ _ _ _ _ _ _ A B N).
  - destruct H as [H|H]; eapply not_ec_refused; eauto.
  - destruct H as [H|H]; eapply not_ec_refused; eauto.
  - apply hooks_refuse_top; eapply not_ec_refused; eauto.
  - intros ta tb a b A B N. exact (exc_alg_mismatch _ _ _ _ _ _ _ A B N).
  - exact (proj1 (curve_mismatch I _ _ _ _ H H0 H1)).
  - exact (proj1 (proj2 (curve_mismatch I _ _ _ _ H H0 H1))).
  - exact (proj2 (proj2 (curve_mismatch I _ _ _ _ H H0 H1))).
  - apply ecdh_needs_private; assumption.
  - intros HA HB. apply jwk_exc_ecdh_needs_private; assumption.
  - apply not_permitted.
  - apply exch_with_needs_keys; assumption.
  - apply exch_with_needs_keys; assumption.
  - apply hooks_refuse_top; apply exch_with_needs_keys; assumption.
Qed.

Theorem thm_check_fails {G} (I : ec_impl G) jwk m X Y c d :
  jwk = JObj m ->
  (match alookup s_crv m with Some (JStr cn) => crv_of_name (cstr cn) = Some c | _ => False end) ->
  (match alookup s_x m with Some jx => bn_decode_json jx = Some X | None => False end) ->
  (match alookup s_y m with Some jy => bn_decode_json jy = Some Y | None => False end) ->
  (match alookup s_d m with
   | Some jd => exists z, bn_decode_json jd = Some z /\ d = Some z
   | None => d = None end) ->
  ei_check I c (ei_mk I c X Y) d = false ->
  to_ec_key I jwk = None.
Proof. exact (check_fails_refused I jwk m X Y c d). Qed.

Theorem thm_derive_not_granted m req :
  (forall ko, alookup s_use m = None -> alookup s_key_ops m = Some ko ->
              listed op_deriveKey (Some ko) = false ->
              jwk_prm (JObj m) req (Some op_deriveKey) = false) /\
  (forall u, alookup s_use m = Some u -> listed op_deriveKey (alookup s_key_ops m) = false ->
             jwk_prm (JObj m) req (Some op_deriveKey) = false).
Proof.
  split.
  - intros ko U K L. exact (key_ops_without_derive m ko req U K L).
  - intros u U L. exact (use_never_grants_derive m u req U L).
Qed.

(* the two instances satisfy the hypothesis about the point at infinity *)
Lemma shape_affine_zero c : ei_affine ec_shape c (ei_zero ec_shape c) = None.
Proof. reflexivity. Qed.
