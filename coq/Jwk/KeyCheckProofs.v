(* C10: what passes the tests satisfies the RFC 7518 minimums / exact lengths. *)
From JoseV Require Import Jwk.KeyCheck Gen.Consts Codec.B64Spec.
From Coq Require Import ZifyBool ZifyN ZifyNat.
Local Open Scope N_scope.

(* RFC 7518 3.2: a key of the same size as the hash output or larger MUST be used *)
Definition rfc7518_hmac_min (alg : bytes) : N :=
  if bytes_eqb alg n_HS256 then 32 else if bytes_eqb alg n_HS384 then 48 else 64.

Theorem hmac_key_accepted alg key :
  mem alg hs_names = true -> sig_key_ok alg key = true ->
  exists k, oct_key key = Some k /\ rfc7518_hmac_min alg <= blen k /\ blen k <= keymax.
Proof.
  intros M H. unfold sig_key_ok in H. rewrite M in H. unfold oct_key.
  destruct (lookup s_k key) as [v|]; [|discriminate]. destruct v; try discriminate.
  destruct (dec s) as [k|]; [|discriminate]. apply andb_true_iff in H. destruct H as [H1 H2].
  exists k. split; [reflexivity|]. unfold rfc7518_hmac_min, hs_size in *. split; lia.
Qed.

(* hash output sizes are what the model's HMAC uses *)
Theorem hmac_min_is_hash_len :
  rfc7518_hmac_min n_HS256 = hash_len (hs_hash n_HS256) /\ rfc7518_hmac_min n_HS384 = hash_len (hs_hash n_HS384) /\
  rfc7518_hmac_min n_HS512 = hash_len (hs_hash n_HS512).
Proof. vm_compute. repeat split. Qed.

(* RFC 7518 5.2 / 5.3: content encryption keys have EXACTLY the algorithm's length (CBC-HMAC: MAC_KEY || ENC_KEY) *)
Definition rfc7518_cek_len (alg : bytes) : option N :=
  if bytes_eqb alg n_A128GCM then Some 16 else if bytes_eqb alg n_A192GCM then Some 24
  else if bytes_eqb alg n_A256GCM then Some 32 else if bytes_eqb alg n_A128CBC then Some 32
  else if bytes_eqb alg n_A192CBC then Some 48 else if bytes_eqb alg n_A256CBC then Some 64 else None.

Theorem cek_len_table alg : enc_key_len alg = rfc7518_cek_len alg.
Proof. reflexivity. Qed.

Theorem cek_accepted alg cek :
  enc_key_ok alg cek = true -> exists n k, rfc7518_cek_len alg = Some n /\ member_bytes s_k cek = Some k /\ blen k = n.
Proof.
  unfold enc_key_ok, member_bytes. rewrite cek_len_table. destruct (rfc7518_cek_len alg) as [n|]; [|discriminate].
  destruct (lookup s_k cek) as [v|]; [|discriminate]. destruct v; try discriminate.
  destruct (dec s) as [k|]; [|discriminate]. intro H. exists n, k. repeat split. apply N.eqb_eq. exact H.
Qed.

(* no truncation, padding or substitution: the content algorithms only ever see a key of exactly that length *)
Theorem content_alg_uses_exact_key name eprm dprm jwe cek ct pt :
  ea_dec (gcm_alg name eprm dprm) jwe cek ct = Some pt \/ ea_dec (cbchs_alg name eprm dprm) jwe cek ct = Some pt ->
  exists k, key_exact cek (match enc_key_len name with Some n => n | None => 0 end) = Some k.
Proof.
  intros [H|H]; cbn [ea_dec gcm_alg cbchs_alg] in H.
  - destruct (gcm_aad_input jwe); [|discriminate]. destruct (key_exact cek _) as [k|]; [eauto|discriminate].
  - destruct (cbc_aad_input jwe); [|discriminate]. destruct (key_exact cek _) as [k|]; [eauto|discriminate].
Qed.

Theorem key_exact_len jwk n k : key_exact jwk n = Some k -> blen k = n.
Proof.
  unfold key_exact. destruct (member_bytes s_k jwk) as [k0|]; [|discriminate].
  destruct (blen k0 =? n) eqn:E; [|discriminate]. intro H. inversion H; subst. apply N.eqb_eq. exact E.
Qed.

(* RFC 7518 4.4 / 4.7: key wrapping keys of exactly 128/192/256 bits *)
Theorem kw_keylen_table :
  map kw_keylen [n_A128KW; n_A192KW; n_A256KW; n_A128GCMKW; n_A192GCMKW; n_A256GCMKW] = [16; 24; 32; 16; 24; 32].
Proof. reflexivity. Qed.

Theorem kw_unwrap_needs_exact_kek name rcp jwk cek r :
  aeskw_unw name rcp jwk cek = Some r -> exists kek, key_exact jwk (kw_keylen name) = Some kek.
Proof. unfold aeskw_unw. destruct (key_exact jwk (kw_keylen name)) as [kek|]; [eauto|discriminate]. Qed.

(* values larger than the supported maximum are refused, not truncated: PBES2 passwords, wrapped keys *)
Theorem pbes2_password_bound jwk pw : pbes2_password jwk = Some pw -> blen pw <= keymax.
Proof.
  unfold pbes2_password. destruct jwk; try (destruct (member_bytes s_k _) as [k|]; [|discriminate];
    destruct (blen k <=? keymax) eqn:E; [|discriminate]; intro H; inversion H; subst; lia).
  destruct (blen s <=? keymax) eqn:E; [|discriminate]. intro H; inversion H; subst. lia.
Qed.

Theorem kw_wrapped_key_bound name rcp jwk cek r s :
  aeskw_unw name rcp jwk cek = Some r -> lookup s_encrypted_key rcp = Some (JStr s) ->
  exists ctl, b64_dlen (blen s) = Some ctl /\ ctl <= keymax + 16.
Proof.
  unfold aeskw_unw. destruct (key_exact jwk (kw_keylen name)); [|discriminate]. intros H L. rewrite L in H.
  destruct (b64_dlen (blen s)) as [ctl|]; [|discriminate]. destruct (keymax + 16 <? ctl) eqn:E; [discriminate|].
  exists ctl. split; [reflexivity|lia].
Qed.

Theorem keymax_is_1024 : keymax = 1024.
Proof. reflexivity. Qed.

(* ---- public-key material (BigZ instance) ------------------------------------------------------------- *)
From JoseV Require Import Jwk.KeyCheckPk Crypto.BigNum Crypto.Ec Jose.PkAlgs Gen.Tables.

(* RFC 7518 3.3 / 3.5: RSA signature keys of at least 2048 bits = 256 octets, on both sides *)
Theorem rsa_sig_key_accepted jwk :
  rsa_sig_key_ok jwk = true ->
  exists n e, rsa_pub jwk = Some (n, e) /\ (256 <= octet_len B (of_bytes B n))%nat.
Proof.
  unfold rsa_sig_key_ok. destruct (rsa_pub jwk) as [[n e]|]; [|discriminate].
  intro H. exists n, e. split; [reflexivity|]. apply Nat.leb_le. exact H.
Qed.

(* what an imported EC key satisfies: named curve, coordinates are field elements, the curve equation
   holds, and a present private value is in [1, n) with d G = (x, y) *)
Theorem ec_key_accepted jwk cv X Y :
  ec_pub jwk = Some (cv, X, Y) ->
  exists c x y,
    get_opt_str s_crv jwk = OStr c /\ curve_by_name c = Some cv /\
    b64m s_x jwk = Some x /\ b64m s_y jwk = Some y /\
    X = imod B (of_bytes B x) (c_p (curve_of B cv)) /\ Y = imod B (of_bytes B y) (c_p (curve_of B cv)) /\
    valid_public B (curve_of B cv) X Y = true /\
    (forall dv, lookup s_d jwk = Some dv ->
       exists ds d, dv = JStr ds /\ dec ds = Some d /\
                    valid_private B (curve_of B cv) (of_bytes B d) X Y = true).
Proof.
  unfold ec_pub. destruct (get_opt_str Jwe.s_kty jwk) as [|t|]; try discriminate.
  destruct (get_opt_str s_crv jwk) as [|c|]; try discriminate.
  destruct (bytes_eqb t t_EC); [|discriminate].
  destruct (curve_by_name c) as [cv0|] eqn:EC; [|discriminate].
  destruct (b64m s_x jwk) as [x0|]; [|discriminate]. destruct (b64m s_y jwk) as [y0|]; [|discriminate].
  cbv zeta.
  destruct (valid_public B (curve_of B cv0) (imod B (of_bytes B x0) (c_p (curve_of B cv0)))
                         (imod B (of_bytes B y0) (c_p (curve_of B cv0)))) eqn:VP; [|discriminate].
  destruct (lookup s_d jwk) as [dv|] eqn:LD.
  - destruct dv as [| | | |ds| |]; try discriminate. destruct (dec ds) as [d|] eqn:ED; [|discriminate].
    destruct (valid_private B (curve_of B cv0) (of_bytes B d) (imod B (of_bytes B x0) (c_p (curve_of B cv0)))
                            (imod B (of_bytes B y0) (c_p (curve_of B cv0)))) eqn:VV; [|discriminate].
    intro H. inversion H; subst. exists c, x0, y0. repeat split; try assumption; try reflexivity.
    intros dv H2. inversion H2; subst. exists ds, d. repeat split; assumption.
  - intro H. inversion H; subst. exists c, x0, y0. repeat split; try assumption; try reflexivity.
    intros dv H2. discriminate.
Qed.

Theorem valid_public_spec {T} (ops : intops T) c x y :
  valid_public ops c x y = in_range ops x (c_p c) && in_range ops y (c_p c) && on_curve ops c x y.
Proof. reflexivity. Qed.

Theorem valid_private_spec {T} (ops : intops T) c d x y :
  valid_private ops c d x y = in_range1 ops d (c_n c) && point_eqb ops (smul ops c d (base c)) (Aff x y).
Proof. reflexivity. Qed.

(* only the named curves *)
Theorem named_curves c cv :
  curve_by_name c = Some cv -> In (c, cv) [(c_P256, p256); (c_P384, p384); (c_P521, p521); (c_K256, secp256k1)].
Proof.
  unfold curve_by_name.
  destruct (bytes_eqb c c_P256) eqn:E1; [apply bytes_eqb_eq in E1; subst; intro H; inversion H; simpl; auto|].
  destruct (bytes_eqb c c_P384) eqn:E2; [apply bytes_eqb_eq in E2; subst; intro H; inversion H; simpl; auto|].
  destruct (bytes_eqb c c_P521) eqn:E3; [apply bytes_eqb_eq in E3; subst; intro H; inversion H; simpl; auto|].
  destruct (bytes_eqb c c_K256) eqn:E4; [apply bytes_eqb_eq in E4; subst; intro H; inversion H; simpl; auto 6|].
  discriminate.
Qed.

(* the signing / verifying / agreeing entry points go through these tests *)
Theorem pk_sign_algs_test_keys a :
  In a pk_sign_algs -> mem (sa_name a) rs_names = true ->
  sa_sig_ok a = rsa_sig_key_ok /\ sa_ver_ok a = rsa_sig_key_ok.
Proof.
  unfold pk_sign_algs. intros H M. apply in_map_iff in H. destruct H as [e [<- _]].
  destruct (mem (a_name e) hs_names) eqn:Hh.
  - exfalso. change (mem (a_name e) rs_names = true) in M.
    unfold hs_names, rs_names, mem in *. cbn [existsb] in *.
    repeat match goal with H : (_ || _) = true |- _ => apply orb_true_iff in H; destruct H end;
      repeat match goal with H : bytes_eqb _ _ = true |- _ => apply bytes_eqb_eq in H end; try discriminate.
    all: match goal with H1 : a_name ?x = _, H2 : a_name ?x = _ |- _ => rewrite H1 in H2; discriminate H2 end.
  - destruct (mem (a_name e) rs_names) eqn:Hr.
    + split; reflexivity.
    + cbn [sa_name] in M. congruence.
Qed.

Theorem ecdh_needs_valid_keys prv pub z :
  ecdh_x prv pub = Some z -> ec_ok prv = true /\ ec_ok pub = true /\ has_d prv = true.
Proof.
  unfold ecdh_x, ec_ok, has_d. destruct (get_opt_str s_crv prv) as [|c1|]; try discriminate.
  destruct (get_opt_str s_crv pub) as [|c2|]; try discriminate.
  destruct (bytes_eqb c1 c2); [|discriminate]. destruct (curve_by_name c1); [|discriminate].
  destruct (ec_pub prv); [|discriminate]. destruct (ec_pub pub) as [[[? ?] ?]|]; [|discriminate].
  destruct (b64m s_d prv); [|discriminate]. intros _. repeat split.
Qed.
