(* C10: what passes the tests satisfies the RFC 7518 minimums / exact lengths. *)
From JoseV Require Import Jwk.KeyCheck Gen.Consts Codec.B64Spec.
From Coq Require Import ZifyBool ZifyN ZifyNat.
Local Open Scope N_scope.

(* RFC 7518 3.2: a key of the same size as the hash output or larger MUST be used *)
Definition rfc7518_hmac_min (alg : bytes) : N :=
  if bytes_eqb alg n_HS256 then 32 else if bytes_eqb alg n_HS384 then 48 else 64.

Theorem hmac_key_accepted alg key :
  mem alg hs_names = true -> sig_key_ok alg key = true ->
  exists k, oct_key key = Some k /\ rfc7518_hmac_min alg <= blen k /\ blen k <= keymax.
Proof.
  intros M H. unfold sig_key_ok in H. rewrite M in H. unfold oct_key.
  destruct (lookup s_k key) as [v|]; [|discriminate]. destruct v; try discriminate.
  destruct (dec s) as [k|]; [|discriminate]. apply andb_true_iff in H. destruct H as [H1 H2].
  exists k. split; [reflexivity|]. unfold rfc7518_hmac_min, hs_size in *. split; lia.
Qed.

(* hash output sizes are what the model's HMAC uses *)
Theorem hmac_min_is_hash_len :
  rfc7518_hmac_min n_HS256 = hash_len (hs_hash n_HS256) /\ rfc7518_hmac_min n_HS384 = hash_len (hs_hash n_HS384) /\
  rfc7518_hmac_min n_HS512 = hash_len (hs_hash n_HS512).
Proof. vm_compute. repeat split. Qed.

(* RFC 7518 5.2 / 5.3: content encryption keys have EXACTLY the algorithm's length (CBC-HMAC: MAC_KEY || ENC_KEY) *)
Definition rfc7518_cek_len (alg : bytes) : option N :=
  if bytes_eqb alg n_A128GCM then Some 16 else if bytes_eqb alg n_A192GCM then Some 24
  else if bytes_eqb alg n_A256GCM then Some 32 else if bytes_eqb alg n_A128CBC then Some 32
  else if bytes_eqb alg n_A192CBC then Some 48 else if bytes_eqb alg n_A256CBC then Some 64 else None.

Theorem cek_len_table alg : enc_key_len alg = rfc7518_cek_len alg.
Proof. reflexivity. Qed.

Theorem cek_accepted alg cek :
  enc_key_ok alg cek = true -> exists n k, rfc7518_cek_len alg = Some n /\ member_bytes s_k cek = Some k /\ blen k = n.
Proof.
  unfold enc_key_ok, member_bytes. rewrite cek_len_table. destruct (rfc7518_cek_len alg) as [n|]; [|discriminate].
  destruct (lookup s_k cek) as [v|]; [|discriminate]. destruct v; try discriminate.
  destruct (dec s) as [k|]; [|discriminate]. intro H. exists n, k. repeat split. apply N.eqb_eq. exact H.
Qed.

(* no truncation, padding or substitution: the content algorithms only ever see a key of exactly that length *)
Theorem content_alg_uses_exact_key name eprm dprm jwe cek ct pt :
  ea_dec (gcm_alg name eprm dprm) jwe cek ct = Some pt \/ ea_dec (cbchs_alg name eprm dprm) jwe cek ct = Some pt ->
  exists k, key_exact cek (match enc_key_len name with Some n => n | None => 0 end) = Some k.
Proof.
  intros [H|H]; cbn [ea_dec gcm_alg cbchs_alg] in H.
  - destruct (gcm_aad_input jwe); [|discriminate]. destruct (key_exact cek _) as [k|]; [eauto|discriminate].
  - destruct (cbc_aad_input jwe); [|discriminate]. destruct (key_exact cek _) as [k|]; [eauto|discriminate].
Qed.

Theorem key_exact_len jwk n k : key_exact jwk n = Some k -> blen k = n.
Proof.
  unfold key_exact. destruct (member_bytes s_k jwk) as [k0|]; [|discriminate].
  destruct (blen k0 =? n) eqn:E; [|discriminate]. intro H. inversion H; subst. apply N.eqb_eq. exact E.
Qed.

(* RFC 7518 4.4 / 4.7: key wrapping keys of exactly 128/192/256 bits *)
Theorem kw_keylen_table :
  map kw_keylen [n_A128KW; n_A192KW; n_A256KW; n_A128GCMKW; n_A192GCMKW; n_A256GCMKW] = [16; 24; 32; 16; 24; 32].
Proof. reflexivity. Qed.

Theorem kw_unwrap_needs_exact_kek name rcp jwk cek r :
  aeskw_unw name rcp jwk cek = Some r -> exists kek, key_exact jwk (kw_keylen name) = Some kek.
Proof. unfold aeskw_unw. destruct (key_exact jwk (kw_keylen name)) as [kek|]; [eauto|discriminate]. Qed.

(* values larger than the supported maximum are refused, not truncated: PBES2 passwords, wrapped keys *)
Theorem pbes2_password_bound jwk pw : pbes2_password jwk = Some pw -> blen pw <= keymax.
Proof.
  unfold pbes2_password. destruct jwk; try (destruct (member_bytes s_k _) as [k|]; [|discriminate];
    destruct (blen k <=? keymax) eqn:E; [|discriminate]; intro H; inversion H; subst; lia).
  destruct (blen s <=? keymax) eqn:E; [|discriminate]. intro H; inversion H; subst. lia.
Qed.

Theorem kw_wrapped_key_bound name rcp jwk cek r s :
  aeskw_unw name rcp jwk cek = Some r -> lookup s_encrypted_key rcp = Some (JStr s) ->
  exists ctl, b64_dlen (blen s) = Some ctl /\ ctl <= keymax + 16.
Proof.
  unfold aeskw_unw. destruct (key_exact jwk (kw_keylen name)); [|discriminate]. intros H L. rewrite L in H.
  destruct (b64_dlen (blen s)) as [ctl|]; [|discriminate]. destruct (keymax + 16 <? ctl) eqn:E; [discriminate|].
  exists ctl. split; [reflexivity|lia].
Qed.

Theorem keymax_is_1024 : keymax = 1024.
Proof. reflexivity. Qed.
