(* C12 (conversion clause): proofs about Jwk/Conv.v -- JWK -> OpenSSL key object -> JWK. *)
From JoseV Require Import Jwk.Conv Jwk.Gen Jwk.GenProofs Jwk.Pub Jwk.Thp Jwk.ThpProofs Gen.Tables
  Codec.B64Spec Codec.B64Proofs Codec.B64ImplProofs Codec.B64JsonProofs Crypto.Ec.
From Coq Require Import Lia ZifyBool ZifyN ZifyNat.
Local Open Scope N_scope.

(* ------------------------------------------------------------------------------------------------ *)
(* octets <-> numbers, beyond Jwk/GenProofs.v *)

Lemma c_os2ip_acc_lin b : forall acc, g_os2ip_acc b acc = acc * 256 ^ blen b + g_os2ip b.
Proof.
  unfold g_os2ip, blen. induction b as [|c r IH]; intro acc.
  - cbn. lia.
  - cbn [g_os2ip_acc length]. rewrite IH. rewrite (IH (0 * 256 + c)).
    replace (N.of_nat (S (length r))) with (N.succ (N.of_nat (length r))) by lia.
    rewrite N.pow_succ_r'. lia.
Qed.

Lemma c_os2ip_cons c r : g_os2ip (c :: r) = c * 256 ^ blen r + g_os2ip r.
Proof. unfold g_os2ip at 1. cbn [g_os2ip_acc]. rewrite c_os2ip_acc_lin. lia. Qed.

Lemma c_os2ip_snoc r c : g_os2ip (r ++ [c]) = g_os2ip r * 256 + c.
Proof. unfold g_os2ip. rewrite g_os2ip_acc_app. cbn [g_os2ip_acc]. reflexivity. Qed.

Lemma c_os2ip_lt b : wf_bytes b -> g_os2ip b < 256 ^ blen b.
Proof.
  induction b as [|c r IH]; intro W.
  - cbn. lia.
  - inversion W as [|? ? Wc Wr]; subst. specialize (IH Wr). rewrite c_os2ip_cons.
    unfold wf_byte in Wc. unfold blen in *. cbn [length].
    replace (N.of_nat (S (length r))) with (N.succ (N.of_nat (length r))) by lia.
    rewrite N.pow_succ_r'. nia.
Qed.

(* writing the value of an octet string back at its own length gives the octet string *)
Lemma c_be_os2ip b : wf_bytes b -> g_be (length b) (g_os2ip b) = b.
Proof.
  induction b as [|c r IH] using rev_ind; intro W; [reflexivity|].
  apply Forall_app in W. destruct W as [Wr Wc]. inversion Wc as [|? ? Hc _]; subst. unfold wf_byte in Hc.
  rewrite app_length. cbn [length]. replace (length r + 1)%nat with (S (length r)) by lia.
  cbn [g_be]. rewrite c_os2ip_snoc.
  replace ((g_os2ip r * 256 + c) / 256) with (g_os2ip r).
  2:{ apply N.div_unique with c; lia. }
  replace ((g_os2ip r * 256 + c) mod 256) with c.
  2:{ apply N.mod_unique with (g_os2ip r); lia. }
  rewrite IH by exact Wr. reflexivity.
Qed.

Lemma c_num_bytes_le x len : x < 256 ^ len -> g_num_bytes x <= len.
Proof.
  intro H. unfold g_num_bytes.
  assert (S : N.size x <= 8 * len).
  { apply size_le_iff. replace (2 ^ (8 * len)) with (256 ^ len); [exact H|].
    replace 256 with (2 ^ 8) by reflexivity. rewrite <- N.pow_mul_r. reflexivity. }
  pose proof (N.div_mod (N.size x + 7) 8). pose proof (N.mod_lt (N.size x + 7) 8). lia.
Qed.

Lemma c_num_bytes_ge x len : 256 ^ len <= x -> len < g_num_bytes x.
Proof.
  intro H. unfold g_num_bytes.
  assert (S : ~ N.size x <= 8 * len).
  { intro F. apply size_le_iff in F. replace (2 ^ (8 * len)) with (256 ^ len) in F; [lia|].
    replace 256 with (2 ^ 8) by reflexivity. rewrite <- N.pow_mul_r. reflexivity. }
  pose proof (N.div_mod (N.size x + 7) 8). pose proof (N.mod_lt (N.size x + 7) 8). lia.
Qed.

(* an octet string without a leading zero octet is the minimal-length form of its value *)
Lemma c_num_bytes_min c r : wf_bytes (c :: r) -> c <> 0 -> g_num_bytes (g_os2ip (c :: r)) = blen (c :: r).
Proof.
  intros W Hc. pose proof (c_os2ip_lt _ W) as Up.
  assert (Lo : 256 ^ blen r <= g_os2ip (c :: r)).
  { rewrite c_os2ip_cons. assert (0 < 256 ^ blen r) by (apply N.neq_0_lt_0, N.pow_nonzero; discriminate). nia. }
  apply c_num_bytes_le in Up. apply c_num_bytes_ge in Lo. unfold blen in *. cbn [length] in *. lia.
Qed.

Lemma c_min_nonzero c r : c <> 0 -> g_os2ip (c :: r) <> 0.
Proof.
  intro Hc. rewrite c_os2ip_cons. assert (0 < 256 ^ blen r) by (apply N.neq_0_lt_0, N.pow_nonzero; discriminate). nia.
Qed.

(* leading zero octets removed *)
Fixpoint c_strip (b : bytes) : bytes :=
  match b with
  | [] => []
  | c :: r => if c =? 0 then c_strip r else c :: r
  end.

Lemma c_strip_value b : g_os2ip (c_strip b) = g_os2ip b.
Proof.
  induction b as [|c r IH]; [reflexivity|]. cbn [c_strip]. destruct (c =? 0) eqn:E; [|reflexivity].
  apply N.eqb_eq in E. subst c. rewrite IH. rewrite c_os2ip_cons. lia.
Qed.

Lemma c_strip_wf b : wf_bytes b -> wf_bytes (c_strip b).
Proof.
  induction b as [|c r IH]; intro W; [exact W|]. cbn [c_strip]. destruct (c =? 0); [|exact W].
  inversion W; subst. apply IH. assumption.
Qed.

Lemma c_strip_shape b : c_strip b = [] \/ exists c r, c_strip b = c :: r /\ c <> 0.
Proof.
  induction b as [|c r IH]; [left; reflexivity|]. cbn [c_strip]. destruct (c =? 0) eqn:E; [exact IH|].
  right. exists c, r. split; [reflexivity|]. apply N.eqb_neq. exact E.
Qed.

Lemma c_strip_min c r : c <> 0 -> c_strip (c :: r) = c :: r.
Proof. intro H. cbn [c_strip]. apply N.eqb_neq in H. rewrite H. reflexivity. Qed.

Lemma c_strip_zero_head r : c_strip (0 :: r) = c_strip r.
Proof. reflexivity. Qed.

(* bn_encode_json(x, 0) of the value of an octet string: the octet string without its leading zeros *)
Lemma c_be_min_strip b : wf_bytes b -> g_os2ip b <> 0 ->
  g_be (N.to_nat (g_num_bytes (g_os2ip b))) (g_os2ip b) = c_strip b.
Proof.
  intros W NZ. rewrite <- (c_strip_value b) in *. pose proof (c_strip_wf b W) as Ws.
  destruct (c_strip_shape b) as [E|(c & r & E & Hc)].
  - rewrite E in NZ. exfalso. apply NZ. reflexivity.
  - rewrite E in *. rewrite c_num_bytes_min by assumption. unfold blen. rewrite Nat2N.id.
    apply c_be_os2ip. exact Ws.
Qed.

Lemma c_width0 x : g_width x 0 = g_num_bytes x.
Proof. reflexivity. Qed.

Lemma c_width_len x len : len <> 0 -> g_width x len = len.
Proof. intro H. unfold g_width. apply N.eqb_neq in H. rewrite H. reflexivity. Qed.

(* decode then encode minimal: exactly "drop the leading zeros" (and fail for the number 0) *)
Lemma c_renorm_min s b : dec s = Some b ->
  g_bn_decode_json (JStr s) = Some (g_os2ip b) /\
  g_bn_encode_json (g_os2ip b) 0 = if g_os2ip b =? 0 then None else Some (JStr (enc (c_strip b))).
Proof.
  intro D. split; [cbn [g_bn_decode_json]; rewrite D; reflexivity|].
  destruct (enc_dec _ _ D) as [_ W].
  destruct (g_os2ip b =? 0) eqn:Z.
  - unfold g_bn_encode_json. rewrite Z. destruct (_ <? _); reflexivity.
  - apply N.eqb_neq in Z. rewrite g_bn_encode_json_some; [|exact Z|rewrite c_width0; lia].
    rewrite c_width0. rewrite c_be_min_strip by assumption. reflexivity.
Qed.

(* decode then encode at a fixed length [len]: the value written on [len] octets *)
Lemma c_renorm_fixed x len : len <> 0 ->
  g_bn_encode_json x len =
  if (x =? 0) || (len <? g_num_bytes x) then None else Some (JStr (enc (g_be (N.to_nat len) x))).
Proof.
  intro L. unfold g_bn_encode_json. apply N.eqb_neq in L. rewrite L.
  destruct (len <? g_num_bytes x); [rewrite orb_true_r; reflexivity|]. rewrite orb_false_r.
  destruct (x =? 0); [reflexivity|]. apply b64_enc_spec. apply g_be_wf.
Qed.

(* an octet string shorter than [len], written on [len] octets: zero octets in front *)
Lemma c_be_pad b k : wf_bytes b -> g_be (k + length b) (g_os2ip b) = repeatN 0 k ++ b.
Proof.
  intro W.
  assert (V : g_os2ip (repeatN 0 k ++ b) = g_os2ip b).
  { induction k as [|k IH]; [reflexivity|]. cbn [repeatN app]. rewrite c_os2ip_cons. rewrite IH. lia. }
  assert (Wz : wf_bytes (repeatN 0 k ++ b)).
  { apply Forall_app. split; [|exact W]. clear. induction k; cbn; constructor; [unfold wf_byte; lia|assumption]. }
  assert (Len : length (repeatN 0 k ++ b) = (k + length b)%nat).
  { rewrite app_length. f_equal. clear. induction k; cbn; congruence. }
  rewrite <- V, <- Len. apply c_be_os2ip. exact Wz.
Qed.

(* the text of a decodable member is determined by its octets: different octets, different text *)
Lemma c_enc_inj_on_dec s b b' : dec s = Some b -> wf_bytes b' -> b' <> b -> enc b' <> s.
Proof.
  intros D W N E. subst s. rewrite dec_enc in D by exact W. inversion D. contradiction.
Qed.

(* the field primes are those of Crypto/Ec.v *)
Lemma conv_curve_p_is_c_p c : Z.of_N (g_curve_p c) = c_p (g_curve_params c).
Proof. destruct c; reflexivity. Qed.

(* a coordinate of at most the field length minus one octet is below the field prime; so is 256^len - 1 never *)
Lemma conv_curve_p_bounds c : 256 ^ (g_curve_len c - 1) < g_curve_p c /\ g_curve_p c < 256 ^ g_curve_len c.
Proof. destruct c; vm_compute; split; reflexivity. Qed.

(* ------------------------------------------------------------------------------------------------ *)
(* objects built by g_pack *)

Definition c_wrap (kv : bytes * json) : bytes * option json := (fst kv, Some (snd kv)).

Lemma c_pack_inv l : forall m, g_pack l = Some m -> l = map c_wrap m.
Proof.
  induction l as [|[k [v|]] r IH]; intros m H; cbn [g_pack] in H.
  - inversion H. reflexivity.
  - destruct (g_pack r) as [m'|]; [|discriminate]. inversion H; subst. cbn [map c_wrap fst snd].
    rewrite <- (IH m' eq_refl). reflexivity.
  - discriminate.
Qed.

Lemma c_pack_wrap m : g_pack (map c_wrap m) = Some m.
Proof.
  induction m as [|[k v] r IH]; [reflexivity|]. cbn [map c_wrap fst snd g_pack]. rewrite IH. reflexivity.
Qed.

Lemma c_alookup_wrap k m : alookup k (map c_wrap m) = option_map Some (alookup k m).
Proof.
  induction m as [|[k' v] r IH]; [reflexivity|]. cbn [map c_wrap fst snd alookup].
  destruct (bytes_eqb k k'); [reflexivity|exact IH].
Qed.

(* a packed object has exactly the listed members, each with the value it was given *)
Lemma c_pack_lookup l m k : g_pack l = Some m -> alookup k l = option_map Some (alookup k m).
Proof. intro H. rewrite (c_pack_inv _ _ H). apply c_alookup_wrap. Qed.

Lemma c_pack_keys l m : g_pack l = Some m -> akeys m = akeys l.
Proof.
  intro H. rewrite (c_pack_inv _ _ H). unfold akeys. rewrite map_map. apply map_ext. intros [k v]. reflexivity.
Qed.

Lemma c_pack_some l : (forall k, ~ In (k, None) l) -> exists m, g_pack l = Some m.
Proof.
  induction l as [|[k [v|]] r IH]; intro H.
  - exists []. reflexivity.
  - destruct IH as [m E]; [intros k' F; apply (H k'); right; exact F|]. exists ((k, v) :: m). cbn [g_pack]. rewrite E. reflexivity.
  - exfalso. apply (H k). left. reflexivity.
Qed.

Lemma c_alookup_app {A} k (a b : list (bytes * A)) :
  alookup k (a ++ b) = match alookup k a with Some v => Some v | None => alookup k b end.
Proof.
  induction a as [|[k' v] r IH]; [reflexivity|]. cbn [app alookup]. destruct (bytes_eqb k k'); [reflexivity|exact IH].
Qed.

Lemma c_alookup_enc_opt k name o len :
  alookup k (c_enc_opt name o len) =
  if bytes_eqb k name then option_map (fun x => g_bn_encode_json x len) o else None.
Proof.
  destruct o as [x|]; cbn [c_enc_opt alookup option_map]; destruct (bytes_eqb k name); reflexivity.
Qed.

Lemma c_akeys_app {A} (a b : list (bytes * A)) : akeys (a ++ b) = akeys a ++ akeys b.
Proof. unfold akeys. apply map_app. Qed.

Lemma c_akeys_enc_opt name o len k : In k (akeys (c_enc_opt name o len)) -> k = name.
Proof. destruct o; cbn; [intros [H|[]]; congruence|intros []]. Qed.

Lemma c_in_enc_opt name o len k v : In (k, v) (c_enc_opt name o len) -> exists x, o = Some x /\ v = g_bn_encode_json x len.
Proof. destruct o as [x|]; cbn; [intros [H|[]]; inversion H; eauto|intros []]. Qed.

(* evaluate [bytes_eqb] on closed names *)
Ltac c_eqb :=
  repeat match goal with
         | |- context [bytes_eqb ?a ?b] =>
             let v := eval vm_compute in (bytes_eqb a b) in
             match v with
             | true => change (bytes_eqb a b) with true
             | false => change (bytes_eqb a b) with false
             end
         end.

Lemma c_bytes_eqb_false a b : a <> b -> bytes_eqb a b = false.
Proof. intro H. destruct (bytes_eqb a b) eqn:E; [apply bytes_eqb_eq in E; contradiction|reflexivity]. Qed.

Lemma c_lookup_obj k j v : lookup k j = Some v -> is_object j = true.
Proof. destruct j; cbn; try discriminate. reflexivity. Qed.

Lemma c_req_s_lookup k j s : lookup k j = Some (JStr s) -> g_req_s k j = Some (cstr s).
Proof. intro L. apply req_s_of_lookup; [eapply c_lookup_obj; exact L|exact L]. Qed.

(* ------------------------------------------------------------------------------------------------ *)
(* RSA: the members by name *)

Definition c_rsa_field (k : o_rsa) (m : bytes) : option N :=
  if bytes_eqb m g_n then Some (or_n k)
  else if bytes_eqb m g_e then Some (or_e k)
  else if bytes_eqb m g_d then or_d k
  else if bytes_eqb m g_p then or_p k
  else if bytes_eqb m g_q then or_q k
  else if bytes_eqb m g_dp then or_dp k
  else if bytes_eqb m g_dq then or_dq k
  else if bytes_eqb m g_qi then or_qi k
  else None.

Ltac c_members H :=
  repeat (destruct H as [H|H]; [match type of H with _ = ?m => subst m end|]); try contradiction.

(* to_RSA: what a successful call has read *)
Lemma jwk_to_rsa_inv j k : jwk_to_rsa j = Some k ->
  g_req_s g_kty j <> None /\
  (forall m, In m c_rsa_key_members -> c_dec_opt (lookup m j) = Some (c_rsa_field k m)) /\
  c_factors_ok (or_p k) (or_q k) = true /\ c_crt_ok (or_dp k) (or_dq k) (or_qi k) = true.
Proof.
  unfold jwk_to_rsa. destruct (g_req_s g_kty j) as [kty|]; [|discriminate].
  destruct (lookup g_n j) as [vn|] eqn:Ln; [|discriminate]. destruct (lookup g_e j) as [ve|] eqn:Le; [|discriminate].
  destruct (g_bn_decode_json vn) as [N_|] eqn:Dn; [|discriminate].
  destruct (g_bn_decode_json ve) as [E|] eqn:De; [|discriminate].
  destruct (c_dec_opt (lookup g_d j)) as [D|] eqn:Dd; [|discriminate].
  destruct (c_dec_opt (lookup g_p j)) as [P|] eqn:Dp; [|discriminate].
  destruct (c_dec_opt (lookup g_q j)) as [Q|] eqn:Dq; [|discriminate].
  destruct (c_dec_opt (lookup g_dp j)) as [DP|] eqn:Ddp; [|discriminate].
  destruct (c_dec_opt (lookup g_dq j)) as [DQ|] eqn:Ddq; [|discriminate].
  destruct (c_dec_opt (lookup g_qi j)) as [QI|] eqn:Dqi; [|discriminate].
  destruct (c_factors_ok P Q) eqn:F; [|discriminate]. destruct (c_crt_ok DP DQ QI) eqn:C; [|discriminate].
  intro H. inversion H; subst k; clear H. cbn [or_p or_q or_dp or_dq or_qi].
  split; [discriminate|]. split; [|split; [exact F|exact C]].
  intros m Hm. unfold c_rsa_key_members in Hm. c_members Hm; unfold c_rsa_field; c_eqb;
    cbn [or_n or_e or_d or_p or_q or_dp or_dq or_qi]; try assumption.
  - rewrite Ln. cbn [c_dec_opt]. rewrite Dn. reflexivity.
  - rewrite Le. cbn [c_dec_opt]. rewrite De. reflexivity.
Qed.

(* to_RSA succeeds exactly when ... (the converse of the inversion) *)
Lemma jwk_to_rsa_some j kty N_ E D P Q DP DQ QI :
  g_req_s g_kty j = Some kty ->
  c_dec_opt (lookup g_n j) = Some (Some N_) -> c_dec_opt (lookup g_e j) = Some (Some E) ->
  c_dec_opt (lookup g_d j) = Some D -> c_dec_opt (lookup g_p j) = Some P -> c_dec_opt (lookup g_q j) = Some Q ->
  c_dec_opt (lookup g_dp j) = Some DP -> c_dec_opt (lookup g_dq j) = Some DQ -> c_dec_opt (lookup g_qi j) = Some QI ->
  c_factors_ok P Q = true -> c_crt_ok DP DQ QI = true ->
  jwk_to_rsa j = Some {| or_n := N_; or_e := E; or_d := D; or_p := P; or_q := Q; or_dp := DP; or_dq := DQ; or_qi := QI |}.
Proof.
  intros K Hn He Hd Hp Hq Hdp Hdq Hqi F C. unfold jwk_to_rsa. rewrite K.
  destruct (lookup g_n j) as [vn|]; [|discriminate]. destruct (lookup g_e j) as [ve|]; [|discriminate].
  cbn [c_dec_opt] in Hn, He.
  destruct (g_bn_decode_json vn) as [n0|]; [|discriminate]. destruct (g_bn_decode_json ve) as [e0|]; [|discriminate].
  inversion Hn; inversion He; subst. rewrite Hd, Hp, Hq, Hdp, Hdq, Hqi, F, C. reflexivity.
Qed.

Definition c_rsa_list (k : o_rsa) : list (bytes * option json) :=
  [(g_kty, Some (JStr g_RSA)); (g_n, g_bn_encode_json (or_n k) 0); (g_e, g_bn_encode_json (or_e k) 0)]
  ++ c_enc_opt g_d (or_d k) 0 ++ c_enc_opt g_p (or_p k) 0 ++ c_enc_opt g_q (or_q k) 0
  ++ c_enc_opt g_dp (or_dp k) 0 ++ c_enc_opt g_dq (or_dq k) 0 ++ c_enc_opt g_qi (or_qi k) 0.

Lemma c_rsa_list_lookup k m : In m c_rsa_key_members ->
  alookup m (c_rsa_list k) = option_map (fun x => g_bn_encode_json x 0) (c_rsa_field k m).
Proof.
  intro Hm. unfold c_rsa_key_members in Hm. unfold c_rsa_list.
  c_members Hm; unfold c_rsa_field; rewrite ?c_alookup_app, ?c_alookup_enc_opt; cbn [alookup]; c_eqb;
    repeat match goal with |- context [option_map ?f ?o] => destruct o; cbn [option_map] end; reflexivity.
Qed.

Lemma c_rsa_list_keys k m : In m (akeys (c_rsa_list k)) -> m = g_kty \/ In m c_rsa_key_members.
Proof.
  unfold c_rsa_list. rewrite !c_akeys_app. rewrite !in_app_iff. cbn [akeys map fst In]. unfold c_rsa_key_members. cbn [In].
  intros [[H|[H|[H|[]]]]|[H|[H|[H|[H|[H|H]]]]]]; try (apply c_akeys_enc_opt in H); subst; tauto.
Qed.

(* from_RSA: the members of the result *)
Lemma jwk_from_rsa_inv k j' : jwk_from_rsa k = Some j' ->
  exists m', j' = JObj m' /\ akeys m' = akeys (c_rsa_list k) /\
  lookup g_kty j' = Some (JStr g_RSA) /\
  (forall m, In m c_rsa_key_members ->
     option_map (fun x => g_bn_encode_json x 0) (c_rsa_field k m) = option_map Some (lookup m j')) /\
  (forall m, m <> g_kty -> ~ In m c_rsa_key_members -> lookup m j' = None).
Proof.
  unfold jwk_from_rsa. fold (c_rsa_list k). destruct (g_pack (c_rsa_list k)) as [m'|] eqn:P; [|discriminate].
  intro H. inversion H; subst j'; clear H. exists m'. split; [reflexivity|]. split; [apply c_pack_keys; exact P|].
  cbn [lookup]. split; [|split].
  - pose proof (c_pack_lookup _ _ g_kty P) as L. unfold c_rsa_list in L. cbn [app alookup] in L.
    change (bytes_eqb g_kty g_kty) with true in L. destruct (alookup g_kty m'); cbn in L; [inversion L; reflexivity|discriminate].
  - intros m Hm. rewrite <- (c_pack_lookup _ _ m P). symmetry. apply c_rsa_list_lookup. exact Hm.
  - intros m Nk Nm. apply alookup_none_notin. rewrite (c_pack_keys _ _ P). intro F.
    apply c_rsa_list_keys in F. tauto.
Qed.

Lemma jwk_from_rsa_some k : (forall m x, c_rsa_field k m = Some x -> x <> 0) -> exists j', jwk_from_rsa k = Some j'.
Proof.
  intro NZ. unfold jwk_from_rsa. fold (c_rsa_list k).
  destruct (c_pack_some (c_rsa_list k)) as [m' E]; [|rewrite E; eauto].
  intros name F. unfold c_rsa_list in F. rewrite !in_app_iff in F. cbn [In] in F.
  assert (Enc : forall x, x <> 0 -> g_bn_encode_json x 0 <> None).
  { intros x Hx. rewrite g_bn_encode_json_some; [discriminate|exact Hx|rewrite c_width0; lia]. }
  destruct F as [[F|[F|[F|[]]]]|[F|[F|[F|[F|[F|F]]]]]]; try discriminate.
  - inversion F as [[E1 E2]]. revert E2. apply Enc. apply (NZ g_n). reflexivity.
  - inversion F as [[E1 E2]]. revert E2. apply Enc. apply (NZ g_e). reflexivity.
  - apply c_in_enc_opt in F. destruct F as (x & Ex & Ev). symmetry in Ev. revert Ev. apply Enc. apply (NZ g_d). exact Ex.
  - apply c_in_enc_opt in F. destruct F as (x & Ex & Ev). symmetry in Ev. revert Ev. apply Enc. apply (NZ g_p). exact Ex.
  - apply c_in_enc_opt in F. destruct F as (x & Ex & Ev). symmetry in Ev. revert Ev. apply Enc. apply (NZ g_q). exact Ex.
  - apply c_in_enc_opt in F. destruct F as (x & Ex & Ev). symmetry in Ev. revert Ev. apply Enc. apply (NZ g_dp). exact Ex.
  - apply c_in_enc_opt in F. destruct F as (x & Ex & Ev). symmetry in Ev. revert Ev. apply Enc. apply (NZ g_dq). exact Ex.
  - apply c_in_enc_opt in F. destruct F as (x & Ex & Ev). symmetry in Ev. revert Ev. apply Enc. apply (NZ g_qi). exact Ex.
Qed.

(* what becomes of one numeric member: bn_decode_json, then bn_encode_json at [len] (0 = minimal length) *)
Definition c_renorm (len : N) (o : option json) : option json :=
  match o with
  | None => None
  | Some v => match g_bn_decode_json v with Some x => g_bn_encode_json x len | None => None end
  end.

Lemma c_option_map_some_inj {A} (a : option A) (b : option (option A)) :
  b = option_map Some a -> match b with Some (Some v) => a = Some v | Some None => False | None => a = None end.
Proof. intros ->. destruct a; reflexivity. Qed.

(* THE RSA MASTER STATEMENT: a successful round trip has kty "RSA", every one of the eight numeric members
   re-encoded from its value at minimal length (present stays present, absent stays absent), nothing else. *)
Theorem conv_rsa_members j j' : conv_rsa j = Some j' ->
  lookup g_kty j' = Some (JStr g_RSA) /\
  (forall m, In m c_rsa_key_members ->
     lookup m j' = c_renorm 0 (lookup m j) /\ (lookup m j <> None -> lookup m j' <> None)) /\
  (forall m, m <> g_kty -> ~ In m c_rsa_key_members -> lookup m j' = None).
Proof.
  unfold conv_rsa, obind. destruct (jwk_to_rsa j) as [k|] eqn:T; [|discriminate]. intro F.
  destruct (jwk_to_rsa_inv _ _ T) as (_ & Dec & _ & _).
  destruct (jwk_from_rsa_inv _ _ F) as (m' & -> & _ & Kty & Enc & Oth).
  split; [exact Kty|]. split; [|exact Oth].
  intros m Hm. specialize (Dec m Hm). specialize (Enc m Hm). unfold c_renorm.
  destruct (lookup m j) as [v|]; cbn [c_dec_opt] in Dec.
  - destruct (g_bn_decode_json v) as [x|]; [|discriminate]. inversion Dec as [Fx]. rewrite <- Fx in Enc.
    cbn [option_map] in Enc. destruct (lookup m (JObj m')) as [v'|]; cbn [option_map] in Enc; [|discriminate].
    inversion Enc as [Ev]. split; [reflexivity|intros _; congruence].
  - inversion Dec as [Fx]. rewrite <- Fx in Enc. cbn [option_map] in Enc.
    destruct (lookup m (JObj m')); [discriminate|]. split; [reflexivity|intro N; exfalso; apply N; reflexivity].
Qed.

(* ---- canonical RSA members ------------------------------------------------------------------------- *)

(* a JSON string, base64url, at least one octet, the first octet not zero *)
Definition c_min_member (v : json) : bool :=
  match v with
  | JStr s => match dec s with Some (c :: _) => negb (c =? 0) | _ => false end
  | _ => false
  end.
Definition c_req_min (o : option json) : bool := match o with Some v => c_min_member v | None => false end.
Definition c_opt_min (o : option json) : bool := match o with Some v => c_min_member v | None => true end.
Definition c_present {A} (o : option A) : bool := match o with Some _ => true | None => false end.

(* n and e minimal; d p q dp dq qi minimal or absent; p,q both or neither; dp,dq,qi all or none *)
Definition c_rsa_canonical (j : json) : bool :=
  c_req_min (lookup g_n j) && c_req_min (lookup g_e j)
  && forallb (fun m => c_opt_min (lookup m j)) [g_d; g_p; g_q; g_dp; g_dq; g_qi]
  && Bool.eqb (c_present (lookup g_p j)) (c_present (lookup g_q j))
  && Bool.eqb (c_present (lookup g_dp j)) (c_present (lookup g_dq j))
  && Bool.eqb (c_present (lookup g_dq j)) (c_present (lookup g_qi j)).

Lemma c_min_member_spec v : c_min_member v = true ->
  exists x, g_bn_decode_json v = Some x /\ x <> 0 /\ g_bn_encode_json x 0 = Some v.
Proof.
  destruct v as [| | | |s| |]; try discriminate. cbn [c_min_member].
  destruct (dec s) as [[|c r]|] eqn:D; try discriminate. intro H. apply Bool.negb_true_iff, N.eqb_neq in H.
  destruct (c_renorm_min _ _ D) as [Dc En]. destruct (enc_dec _ _ D) as [Es _].
  exists (g_os2ip (c :: r)). split; [exact Dc|]. pose proof (c_min_nonzero c r H) as NZ. split; [exact NZ|].
  rewrite En. apply N.eqb_neq in NZ. rewrite NZ. rewrite c_strip_min by exact H. rewrite Es. reflexivity.
Qed.

Lemma c_req_min_spec o : c_req_min o = true ->
  exists x, c_dec_opt o = Some (Some x) /\ x <> 0 /\ c_renorm 0 o = o.
Proof.
  destruct o as [v|]; [|discriminate]. cbn [c_req_min]. intro H.
  destruct (c_min_member_spec _ H) as (x & D & NZ & E). exists x. cbn [c_dec_opt c_renorm]. rewrite D.
  split; [reflexivity|]. split; [exact NZ|exact E].
Qed.

Lemma c_opt_min_spec o : c_opt_min o = true ->
  exists ox, c_dec_opt o = Some ox /\ c_present o = c_present ox /\ (forall x, ox = Some x -> x <> 0) /\ c_renorm 0 o = o.
Proof.
  destruct o as [v|]; cbn [c_opt_min]; intro H.
  - destruct (c_req_min_spec (Some v) H) as (x & D & NZ & E). exists (Some x). split; [exact D|]. split; [reflexivity|].
    split; [intros y Hy; inversion Hy; subst; exact NZ|exact E].
  - exists None. repeat split. discriminate.
Qed.

Lemma c_present_eq_factors (P Q : option N) : Bool.eqb (c_present P) (c_present Q) = true -> c_factors_ok P Q = true.
Proof. destruct P, Q; cbn; congruence. Qed.

Lemma c_present_eq_crt (A B C : option N) :
  Bool.eqb (c_present A) (c_present B) = true -> Bool.eqb (c_present B) (c_present C) = true -> c_crt_ok A B C = true.
Proof. destruct A, B, C; cbn; congruence. Qed.

(* ---- exactly which RSA keys convert ------------------------------------------------------------------- *)

(* a member that decodes to a non-zero number *)
Definition c_nz_member (v : json) : bool :=
  match g_bn_decode_json v with Some x => negb (x =? 0) | None => false end.
Definition c_req_nz (o : option json) : bool := match o with Some v => c_nz_member v | None => false end.
Definition c_opt_nz (o : option json) : bool := match o with Some v => c_nz_member v | None => true end.

(* kty a string; n and e present; every present number decodable and non-zero; p,q both or neither;
   dp,dq,qi all or none *)
Definition c_rsa_acceptable (j : json) : bool :=
  c_present (g_req_s g_kty j)
  && c_req_nz (lookup g_n j) && c_req_nz (lookup g_e j)
  && forallb (fun m => c_opt_nz (lookup m j)) [g_d; g_p; g_q; g_dp; g_dq; g_qi]
  && Bool.eqb (c_present (lookup g_p j)) (c_present (lookup g_q j))
  && Bool.eqb (c_present (lookup g_dp j)) (c_present (lookup g_dq j))
  && Bool.eqb (c_present (lookup g_dq j)) (c_present (lookup g_qi j)).

Lemma c_req_nz_spec o : c_req_nz o = true -> exists x, c_dec_opt o = Some (Some x) /\ x <> 0.
Proof.
  destruct o as [v|]; [|discriminate]. cbn [c_req_nz c_dec_opt]. unfold c_nz_member.
  destruct (g_bn_decode_json v) as [x|]; [|discriminate]. intro H. apply Bool.negb_true_iff, N.eqb_neq in H. eauto.
Qed.

Lemma c_opt_nz_spec o : c_opt_nz o = true ->
  exists ox, c_dec_opt o = Some ox /\ c_present o = c_present ox /\ (forall x, ox = Some x -> x <> 0).
Proof.
  destruct o as [v|]; cbn [c_opt_nz]; intro H.
  - destruct (c_req_nz_spec (Some v) H) as (x & D & NZ). exists (Some x). split; [exact D|]. split; [reflexivity|].
    intros y Hy; inversion Hy; subst; exact NZ.
  - exists None. repeat split. discriminate.
Qed.

Lemma c_dec_opt_present o ox : c_dec_opt o = Some ox -> c_present o = c_present ox.
Proof.
  destruct o as [v|]; cbn [c_dec_opt]; [destruct (g_bn_decode_json v); [|discriminate]|]; intro H; inversion H; reflexivity.
Qed.

Lemma c_dec_opt_nz o x : c_dec_opt o = Some (Some x) -> x <> 0 -> c_req_nz o = true /\ c_opt_nz o = true.
Proof.
  destruct o as [v|]; cbn [c_dec_opt]; [|discriminate]. cbn [c_req_nz c_opt_nz]. unfold c_nz_member.
  destruct (g_bn_decode_json v) as [y|]; [|discriminate]. intros H NZ. inversion H; subst y.
  apply N.eqb_neq in NZ. rewrite NZ. split; reflexivity.
Qed.

Lemma c_factors_present (P Q : option N) : c_factors_ok P Q = true -> Bool.eqb (c_present P) (c_present Q) = true.
Proof. destruct P, Q; cbn; congruence. Qed.

Lemma c_crt_present (A B C : option N) : c_crt_ok A B C = true ->
  Bool.eqb (c_present A) (c_present B) = true /\ Bool.eqb (c_present B) (c_present C) = true.
Proof. destruct A, B, C; cbn; split; congruence. Qed.

Theorem conv_rsa_accepts j : c_rsa_acceptable j = true -> exists j', conv_rsa j = Some j'.
Proof.
  intro C. unfold c_rsa_acceptable in C. cbn [forallb] in C. rewrite !andb_true_iff in C.
  destruct C as [[[[[[K Cn] Ce] (Cd & Cp & Cq & Cdp & Cdq & Cqi & _)] Hfac] Hcrt1] Hcrt2].
  destruct (g_req_s g_kty j) as [kty|] eqn:Kt; [clear K|discriminate].
  destruct (c_req_nz_spec _ Cn) as (xn & Dn & NZn).
  destruct (c_req_nz_spec _ Ce) as (xe & De & NZe).
  destruct (c_opt_nz_spec _ Cd) as (od & Dd & Pd & Zd).
  destruct (c_opt_nz_spec _ Cp) as (op & Dp & Pp & Zp).
  destruct (c_opt_nz_spec _ Cq) as (oq & Dq & Pq & Zq).
  destruct (c_opt_nz_spec _ Cdp) as (odp & Ddp & Pdp & Zdp).
  destruct (c_opt_nz_spec _ Cdq) as (odq & Ddq & Pdq & Zdq).
  destruct (c_opt_nz_spec _ Cqi) as (oqi & Dqi & Pqi & Zqi).
  rewrite Pp, Pq in Hfac. rewrite Pdp, Pdq in Hcrt1. rewrite Pdq, Pqi in Hcrt2.
  assert (T := jwk_to_rsa_some j kty xn xe od op oq odp odq oqi Kt Dn De Dd Dp Dq Ddp Ddq Dqi
                 (c_present_eq_factors _ _ Hfac) (c_present_eq_crt _ _ _ Hcrt1 Hcrt2)).
  match type of T with _ = Some ?k0 => set (k := k0) in * end.
  destruct (jwk_from_rsa_some k) as [j' F].
  { intros m x. unfold c_rsa_field, k. cbn [or_n or_e or_d or_p or_q or_dp or_dq or_qi].
    repeat match goal with |- context [if ?b then _ else _] => destruct b end;
      intro E; try (inversion E; subst; assumption); eauto; discriminate. }
  exists j'. unfold conv_rsa, obind. rewrite T. exact F.
Qed.

Theorem conv_rsa_accepted_only j j' : conv_rsa j = Some j' -> c_rsa_acceptable j = true.
Proof.
  unfold conv_rsa, obind. destruct (jwk_to_rsa j) as [k|] eqn:T; [|discriminate]. intro F.
  destruct (jwk_to_rsa_inv _ _ T) as (K & Dec & Fac & Crt).
  destruct (jwk_from_rsa_inv _ _ F) as (m' & -> & _ & _ & Enc & _).
  assert (NZ : forall m x, In m c_rsa_key_members -> c_rsa_field k m = Some x -> x <> 0).
  { intros m x Hm Fx. specialize (Enc m Hm). rewrite Fx in Enc. cbn [option_map] in Enc.
    destruct (lookup m (JObj m')) as [v'|]; [|discriminate]. inversion Enc as [Ev].
    apply g_bn_encode_json_inv in Ev. tauto. }
  assert (Opt : forall m, In m c_rsa_key_members -> c_opt_nz (lookup m j) = true /\ c_present (lookup m j) = c_present (c_rsa_field k m)).
  { intros m Hm. pose proof (Dec m Hm) as D. split; [|apply c_dec_opt_present; exact D].
    destruct (c_rsa_field k m) as [x|] eqn:Fx.
    - apply (c_dec_opt_nz _ x D). apply (NZ m x Hm Fx).
    - destruct (lookup m j) as [v|]; [|reflexivity]. cbn [c_dec_opt] in D. destruct (g_bn_decode_json v); discriminate. }
  assert (Req : forall m x, In m c_rsa_key_members -> c_rsa_field k m = Some x -> c_req_nz (lookup m j) = true).
  { intros m x Hm Fx. pose proof (Dec m Hm) as D. rewrite Fx in D. apply (c_dec_opt_nz _ x D). apply (NZ m x Hm Fx). }
  unfold c_rsa_acceptable. cbn [forallb]. rewrite !andb_true_iff.
  assert (I : forall m, In m [g_n; g_e; g_d; g_p; g_q; g_dp; g_dq; g_qi] -> In m c_rsa_key_members) by (intros; assumption).
  repeat split.
  - destruct (g_req_s g_kty j); [reflexivity|exfalso; apply K; reflexivity].
  - apply (Req g_n (or_n k)); [cbn; tauto|reflexivity].
  - apply (Req g_e (or_e k)); [cbn; tauto|reflexivity].
  - apply Opt; cbn; tauto. - apply Opt; cbn; tauto. - apply Opt; cbn; tauto.
  - apply Opt; cbn; tauto. - apply Opt; cbn; tauto. - apply Opt; cbn; tauto.
  - destruct (Opt g_p) as [_ ->]; [cbn; tauto|]. destruct (Opt g_q) as [_ ->]; [cbn; tauto|].
    apply c_factors_present. exact Fac.
  - destruct (Opt g_dp) as [_ ->]; [cbn; tauto|]. destruct (Opt g_dq) as [_ ->]; [cbn; tauto|].
    apply (c_crt_present _ _ _ Crt).
  - destruct (Opt g_dq) as [_ ->]; [cbn; tauto|]. destruct (Opt g_qi) as [_ ->]; [cbn; tauto|].
    apply (c_crt_present _ _ _ Crt).
Qed.

(* the exact boundary of the RSA conversion *)
Theorem conv_rsa_accepts_iff j : conv_rsa j <> None <-> c_rsa_acceptable j = true.
Proof.
  split.
  - destruct (conv_rsa j) as [j'|] eqn:E; [intros _; eapply conv_rsa_accepted_only; exact E|intro H; exfalso; apply H; reflexivity].
  - intro H. destruct (conv_rsa_accepts _ H) as [j' E]. rewrite E. discriminate.
Qed.

Lemma c_min_member_nz v : c_min_member v = true -> c_nz_member v = true.
Proof.
  intro H. destruct (c_min_member_spec _ H) as (x & D & NZ & _). unfold c_nz_member. rewrite D.
  apply N.eqb_neq in NZ. rewrite NZ. reflexivity.
Qed.

Lemma c_rsa_canonical_acceptable j : g_req_s g_kty j <> None -> c_rsa_canonical j = true -> c_rsa_acceptable j = true.
Proof.
  intros K C. unfold c_rsa_canonical in C. unfold c_rsa_acceptable. cbn [forallb] in *. rewrite !andb_true_iff in *.
  destruct C as [[[[[Cn Ce] (Cd & Cp & Cq & Cdp & Cdq & Cqi & _)] Hfac] Hcrt1] Hcrt2].
  assert (O : forall o, c_opt_min o = true -> c_opt_nz o = true) by (intros [v|] H; [apply c_min_member_nz; exact H|reflexivity]).
  assert (R : forall o, c_req_min o = true -> c_req_nz o = true) by (intros [v|] H; [apply c_min_member_nz; exact H|discriminate]).
  repeat split; auto. destruct (g_req_s g_kty j); [reflexivity|exfalso; apply K; reflexivity].
Qed.

(* (a) RSA: canonical members round-trip, every one of them equal, nothing else in the result *)
Theorem conv_rsa_roundtrip j :
  g_req_s g_kty j <> None -> c_rsa_canonical j = true ->
  exists j', conv_rsa j = Some j' /\
    lookup g_kty j' = Some (JStr g_RSA) /\
    (forall m, In m c_rsa_key_members -> lookup m j' = lookup m j) /\
    (forall m, m <> g_kty -> ~ In m c_rsa_key_members -> lookup m j' = None).
Proof.
  intros K C. destruct (conv_rsa_accepts j (c_rsa_canonical_acceptable j K C)) as [j' Cv].
  exists j'. split; [exact Cv|]. destruct (conv_rsa_members _ _ Cv) as (Kty & Mem & Oth).
  split; [exact Kty|]. split; [|exact Oth].
  unfold c_rsa_canonical in C. cbn [forallb] in C. rewrite !andb_true_iff in C.
  destruct C as [[[[[Cn Ce] (Cd & Cp & Cq & Cdp & Cdq & Cqi & _)] _] _] _].
  assert (R : forall o, c_req_min o = true -> c_renorm 0 o = o) by (intros o H; destruct (c_req_min_spec o H) as (? & ? & ? & E); exact E).
  assert (O : forall o, c_opt_min o = true -> c_renorm 0 o = o) by (intros o H; destruct (c_opt_min_spec o H) as (? & ? & ? & ? & E); exact E).
  intros m Hm. destruct (Mem m Hm) as [E _]. rewrite E. unfold c_rsa_key_members in Hm. c_members Hm; auto.
Qed.

(* ---- (c) the boundary of the RSA round trip ---------------------------------------------------------- *)

Lemma c_strip_length b : (length (c_strip b) <= length b)%nat.
Proof. induction b as [|c r IH]; [apply le_n|]. cbn [c_strip]. destruct (c =? 0); cbn [length]; lia. Qed.

(* any decodable member comes back as the base64url of its octets WITHOUT the leading zero octets: the value
   is preserved, the text only if there was no leading zero *)
Theorem conv_rsa_member_renormalised j j' m s b :
  conv_rsa j = Some j' -> In m c_rsa_key_members -> lookup m j = Some (JStr s) -> dec s = Some b ->
  lookup m j' = Some (JStr (enc (c_strip b))) /\ g_os2ip (c_strip b) = g_os2ip b /\ g_os2ip b <> 0.
Proof.
  intros Cv Hm L D. destruct (conv_rsa_members _ _ Cv) as (_ & Mem & _). destruct (Mem m Hm) as [E P].
  rewrite L in E, P. cbn [c_renorm] in E. destruct (c_renorm_min _ _ D) as [Dc En]. rewrite Dc, En in E.
  destruct (g_os2ip b =? 0) eqn:Z.
  - exfalso. apply P; [discriminate|exact E].
  - split; [exact E|]. split; [apply c_strip_value|apply N.eqb_neq; exact Z].
Qed.

(* ... so a member WITH a leading zero octet does not come back as it was *)
Theorem conv_rsa_leading_zero_dropped j j' m s r :
  conv_rsa j = Some j' -> In m c_rsa_key_members -> lookup m j = Some (JStr s) -> dec s = Some (0 :: r) ->
  lookup m j' = Some (JStr (enc (c_strip r))) /\ lookup m j' <> lookup m j /\
  g_bn_decode_json (JStr (enc (c_strip r))) = g_bn_decode_json (JStr s).
Proof.
  intros Cv Hm L D. destruct (conv_rsa_member_renormalised _ _ _ _ _ Cv Hm L D) as (E & V & _).
  rewrite c_strip_zero_head in E, V. destruct (enc_dec _ _ D) as [_ W].
  assert (Ws : wf_bytes (c_strip r)) by (apply c_strip_wf; inversion W; assumption).
  split; [exact E|]. split.
  - rewrite E, L. intro F. inversion F as [Fs]. revert Fs. apply (c_enc_inj_on_dec _ _ _ D Ws).
    intro Q. pose proof (c_strip_length r) as Len. rewrite Q in Len. cbn [length] in Len. lia.
  - cbn [g_bn_decode_json]. rewrite D. rewrite dec_enc by exact Ws. rewrite V. reflexivity.
Qed.

(* ---- (e) refusals ------------------------------------------------------------------------------------ *)

Theorem conv_rsa_missing_required j : lookup g_n j = None \/ lookup g_e j = None -> conv_rsa j = None.
Proof.
  intro H. unfold conv_rsa, obind, jwk_to_rsa. destruct (g_req_s g_kty j); [|reflexivity].
  destruct H as [H|H]; rewrite H; [reflexivity|]. destruct (lookup g_n j); reflexivity.
Qed.

Theorem conv_rsa_incomplete_factors j :
  c_present (lookup g_p j) <> c_present (lookup g_q j) -> conv_rsa j = None.
Proof.
  intro H. destruct (conv_rsa j) as [j'|] eqn:E; [exfalso|reflexivity].
  apply conv_rsa_accepted_only in E. unfold c_rsa_acceptable in E. rewrite !andb_true_iff in E.
  destruct E as [[[_ F] _] _]. apply Bool.eqb_prop in F. contradiction.
Qed.

Theorem conv_rsa_incomplete_crt j :
  ~ (c_present (lookup g_dp j) = c_present (lookup g_dq j) /\ c_present (lookup g_dq j) = c_present (lookup g_qi j)) ->
  conv_rsa j = None.
Proof.
  intro H. destruct (conv_rsa j) as [j'|] eqn:E; [exfalso|reflexivity].
  apply conv_rsa_accepted_only in E. unfold c_rsa_acceptable in E. rewrite !andb_true_iff in E.
  destruct E as [[_ F1] F2]. apply Bool.eqb_prop in F1, F2. tauto.
Qed.

(* a present member that is not a base64url string, or is the number 0, refuses the whole key *)
Theorem conv_rsa_bad_member j m v :
  In m c_rsa_key_members -> lookup m j = Some v -> c_nz_member v = false -> conv_rsa j = None.
Proof.
  intros Hm L B. destruct (conv_rsa j) as [j'|] eqn:E; [exfalso|reflexivity].
  destruct (conv_rsa_members _ _ E) as (_ & Mem & _). destruct (Mem m Hm) as [R P]. rewrite L in R, P.
  apply P; [discriminate|]. rewrite R. cbn [c_renorm]. unfold c_nz_member in B.
  destruct (g_bn_decode_json v) as [x|]; [|reflexivity]. apply Bool.negb_false_iff, N.eqb_eq in B. subst x.
  reflexivity.
Qed.

(* "oth" (RFC 7518 6.3.2.7, listed among the private RSA members in jose's own type table) is NOT converted:
   a multi-prime key comes back as a success without it *)
Theorem conv_rsa_oth_dropped j j' : conv_rsa j = Some j' -> lookup g_oth j' = None.
Proof.
  intro E. destruct (conv_rsa_members _ _ E) as (_ & _ & Oth). apply Oth; [discriminate|].
  unfold c_rsa_key_members. cbn [In]. intros [F|[F|[F|[F|[F|[F|[F|[F|[]]]]]]]]]; discriminate.
Qed.

(* ------------------------------------------------------------------------------------------------ *)
(* EC *)

Lemma c_alookup_cons_ne {A} m k (v : A) r : m <> k -> alookup m ((k, v) :: r) = alookup m r.
Proof. intro H. cbn [alookup]. rewrite (c_bytes_eqb_false _ _ H). reflexivity. Qed.

Lemma c_curve_name_cstr c : cstr (g_curve_name c) = g_curve_name c.
Proof. destruct c; reflexivity. Qed.

Lemma c_curve_of_name_name c : g_curve_of_name (g_curve_name c) = Some c.
Proof. destruct c; reflexivity. Qed.

Lemma c_curve_len_nz c : g_curve_len c <> 0.
Proof. destruct c; discriminate. Qed.

(* a reduced coordinate always fits the field length *)
Lemma c_reduced_fits c x : g_num_bytes (x mod g_curve_p c) <= g_curve_len c.
Proof.
  apply c_num_bytes_le. eapply N.lt_trans; [apply N.mod_lt; destruct c; discriminate|apply conv_curve_p_bounds].
Qed.

Section ConvEC.
  Variable valid : g_curve -> N -> N -> option N -> bool.

  (* to_EC_KEY: what a successful call has read and checked *)
  Lemma jwk_to_ec_inv j k : jwk_to_ec valid j = Some k ->
    g_req_s g_kty j = Some g_EC /\ g_req_s g_crv j = Some (g_curve_name (oe_crv k)) /\
    exists X Y, c_dec_opt (lookup g_x j) = Some (Some X) /\ c_dec_opt (lookup g_y j) = Some (Some Y) /\
      oe_x k = X mod g_curve_p (oe_crv k) /\ oe_y k = Y mod g_curve_p (oe_crv k) /\
      c_dec_opt (lookup g_d j) = Some (oe_d k) /\
      valid (oe_crv k) (oe_x k) (oe_y k) (oe_d k) = true.
  Proof.
    unfold jwk_to_ec. destruct (g_req_s g_kty j) as [kty|]; [|discriminate].
    destruct (g_req_s g_crv j) as [crv|]; [|discriminate].
    destruct (lookup g_x j) as [vx|] eqn:Lx; [|discriminate]. destruct (lookup g_y j) as [vy|] eqn:Ly; [|discriminate].
    destruct (bytes_eqb kty g_EC) eqn:Ek; cbn [negb]; [|discriminate]. apply bytes_eqb_eq in Ek. subst kty.
    destruct (g_curve_of_name crv) as [c|] eqn:Ec; [|discriminate]. apply curve_of_name_spec in Ec. subst crv.
    destruct (c_dec_opt (lookup g_d j)) as [D|] eqn:Dd; [|discriminate].
    destruct (g_bn_decode_json vx) as [X|] eqn:Dx; [|discriminate].
    destruct (g_bn_decode_json vy) as [Y|] eqn:Dy; [|discriminate].
    cbv zeta. destruct (valid c (X mod g_curve_p c) (Y mod g_curve_p c) D) eqn:V; [|discriminate].
    intro H. inversion H; subst k; clear H. cbn [oe_crv oe_x oe_y oe_d].
    split; [reflexivity|]. split; [reflexivity|]. exists X, Y. cbn [c_dec_opt]. rewrite Dx, Dy. repeat split. exact V.
  Qed.

  Lemma jwk_to_ec_some j c X Y D :
    g_req_s g_kty j = Some g_EC -> g_req_s g_crv j = Some (g_curve_name c) ->
    c_dec_opt (lookup g_x j) = Some (Some X) -> c_dec_opt (lookup g_y j) = Some (Some Y) ->
    c_dec_opt (lookup g_d j) = Some D ->
    valid c (X mod g_curve_p c) (Y mod g_curve_p c) D = true ->
    jwk_to_ec valid j = Some {| oe_crv := c; oe_x := X mod g_curve_p c; oe_y := Y mod g_curve_p c; oe_d := D |}.
  Proof.
    intros K Cv Hx Hy Hd V. unfold jwk_to_ec. rewrite K, Cv.
    destruct (lookup g_x j) as [vx|]; [|discriminate]. destruct (lookup g_y j) as [vy|]; [|discriminate].
    cbn [c_dec_opt] in Hx, Hy.
    destruct (g_bn_decode_json vx) as [x0|]; [|discriminate]. destruct (g_bn_decode_json vy) as [y0|]; [|discriminate].
    inversion Hx; inversion Hy; subst. change (bytes_eqb g_EC g_EC) with true. cbn [negb].
    rewrite c_curve_of_name_name, Hd. cbv zeta. rewrite V. reflexivity.
  Qed.

  (* from_EC_KEY: the exact shape of the result *)
  Lemma jwk_from_ec_inv k j' : jwk_from_ec k = Some j' ->
    exists vx vy, g_bn_encode_json (oe_x k) (g_curve_len (oe_crv k)) = Some vx /\
                  g_bn_encode_json (oe_y k) (g_curve_len (oe_crv k)) = Some vy /\
      match oe_d k with
      | None => j' = JObj [(g_kty, JStr g_EC); (g_crv, JStr (g_curve_name (oe_crv k))); (g_x, vx); (g_y, vy)]
      | Some d => exists vd, g_bn_encode_json d (g_curve_len (oe_crv k)) = Some vd /\
          j' = JObj [(g_kty, JStr g_EC); (g_crv, JStr (g_curve_name (oe_crv k))); (g_x, vx); (g_y, vy); (g_d, vd)]
      end.
  Proof.
    unfold jwk_from_ec. cbv zeta. cbn [app g_pack].
    destruct (g_bn_encode_json (oe_x k) _) as [vx|]; [|destruct (oe_d k); discriminate].
    destruct (g_bn_encode_json (oe_y k) _) as [vy|]; [|destruct (oe_d k); discriminate].
    intro H. exists vx, vy. split; [reflexivity|]. split; [reflexivity|].
    destruct (oe_d k) as [d|]; cbn [c_enc_opt g_pack] in H.
    - destruct (g_bn_encode_json d _) as [vd|]; [|discriminate]. exists vd. split; [reflexivity|]. inversion H. reflexivity.
    - inversion H. reflexivity.
  Qed.

  Lemma jwk_from_ec_some k vx vy :
    g_bn_encode_json (oe_x k) (g_curve_len (oe_crv k)) = Some vx ->
    g_bn_encode_json (oe_y k) (g_curve_len (oe_crv k)) = Some vy ->
    (forall d, oe_d k = Some d -> g_bn_encode_json d (g_curve_len (oe_crv k)) <> None) ->
    exists j', jwk_from_ec k = Some j'.
  Proof.
    intros Ex Ey Ed. unfold jwk_from_ec. cbv zeta. cbn [app g_pack]. rewrite Ex, Ey.
    destruct (oe_d k) as [d|]; cbn [c_enc_opt g_pack]; [|eauto].
    specialize (Ed d eq_refl). destruct (g_bn_encode_json d _); [eauto|exfalso; apply Ed; reflexivity].
  Qed.

  (* a coordinate: decode, reduce modulo the field prime, encode at the field length *)
  Definition c_renorm_mod (p len : N) (o : option json) : option json :=
    match o with
    | None => None
    | Some v => match g_bn_decode_json v with Some x => g_bn_encode_json (x mod p) len | None => None end
    end.

  Definition c_num (o : option json) : N :=
    match o with Some v => match g_bn_decode_json v with Some x => x | None => 0 end | None => 0 end.
  Definition c_num_opt (o : option json) : option N :=
    match o with Some v => g_bn_decode_json v | None => None end.

  Lemma c_dec_opt_num o x : c_dec_opt o = Some (Some x) -> c_num o = x /\ c_num_opt o = Some x.
  Proof.
    destruct o as [v|]; cbn [c_dec_opt c_num c_num_opt]; [|discriminate].
    destruct (g_bn_decode_json v); [|discriminate]. intro H. inversion H. split; reflexivity.
  Qed.

  Lemma c_dec_opt_num_opt o ox : c_dec_opt o = Some ox -> c_num_opt o = ox.
  Proof.
    destruct o as [v|]; cbn [c_dec_opt c_num_opt]; [destruct (g_bn_decode_json v); [|discriminate]|]; intro H; inversion H; reflexivity.
  Qed.

  (* THE EC MASTER STATEMENT *)
  Theorem conv_ec_members j j' : conv_ec valid j = Some j' ->
    exists c,
      g_req_s g_kty j = Some g_EC /\ g_req_s g_crv j = Some (g_curve_name c) /\
      lookup g_kty j' = Some (JStr g_EC) /\ lookup g_crv j' = Some (JStr (g_curve_name c)) /\
      lookup g_x j' = c_renorm_mod (g_curve_p c) (g_curve_len c) (lookup g_x j) /\ lookup g_x j' <> None /\
      lookup g_y j' = c_renorm_mod (g_curve_p c) (g_curve_len c) (lookup g_y j) /\ lookup g_y j' <> None /\
      lookup g_d j' = c_renorm (g_curve_len c) (lookup g_d j) /\ (lookup g_d j <> None -> lookup g_d j' <> None) /\
      (forall m, m <> g_kty -> ~ In m c_ec_key_members -> lookup m j' = None) /\
      valid c (c_num (lookup g_x j) mod g_curve_p c) (c_num (lookup g_y j) mod g_curve_p c) (c_num_opt (lookup g_d j)) = true.
  Proof.
    unfold conv_ec, obind. destruct (jwk_to_ec valid j) as [k|] eqn:T; [|discriminate]. intro F.
    destruct (jwk_to_ec_inv _ _ T) as (K & Cv & X & Y & Dx & Dy & Ex & Ey & Dd & V).
    destruct (jwk_from_ec_inv _ _ F) as (vx & vy & Enx & Eny & Sh).
    exists (oe_crv k). split; [exact K|]. split; [exact Cv|].
    destruct (c_dec_opt_num _ _ Dx) as [Nx _]. destruct (c_dec_opt_num _ _ Dy) as [Ny _].
    rewrite Nx, Ny, (c_dec_opt_num_opt _ _ Dd), <- Ex, <- Ey.
    assert (Rx : c_renorm_mod (g_curve_p (oe_crv k)) (g_curve_len (oe_crv k)) (lookup g_x j) = Some vx).
    { destruct (lookup g_x j) as [v|]; cbn [c_dec_opt] in Dx; [|discriminate]. cbn [c_renorm_mod].
      destruct (g_bn_decode_json v); [|discriminate]. inversion Dx; subst. rewrite <- Ex. exact Enx. }
    assert (Ry : c_renorm_mod (g_curve_p (oe_crv k)) (g_curve_len (oe_crv k)) (lookup g_y j) = Some vy).
    { destruct (lookup g_y j) as [v|]; cbn [c_dec_opt] in Dy; [|discriminate]. cbn [c_renorm_mod].
      destruct (g_bn_decode_json v); [|discriminate]. inversion Dy; subst. rewrite <- Ey. exact Eny. }
    rewrite Rx, Ry.
    assert (Oth : forall (l : list (bytes * json)) m, m <> g_kty -> ~ In m c_ec_key_members ->
                    (forall k0, In k0 (akeys l) -> k0 = g_kty \/ In k0 c_ec_key_members) -> alookup m l = None).
    { intros l m Nk Nm Hl. apply alookup_none_notin. intro Fi. destruct (Hl m Fi); [contradiction|contradiction]. }
    destruct (oe_d k) as [d|] eqn:Ed.
    - destruct Sh as (vd & End & ->). cbn [lookup].
      assert (Rd : c_renorm (g_curve_len (oe_crv k)) (lookup g_d j) = Some vd).
      { destruct (lookup g_d j) as [v|]; cbn [c_dec_opt] in Dd; [|discriminate]. cbn [c_renorm].
        destruct (g_bn_decode_json v); [|discriminate]. inversion Dd; subst. exact End. }
      rewrite Rd.
      match goal with |- context [alookup g_kty ?l] =>
        assert (O : forall m, m <> g_kty -> ~ In m c_ec_key_members -> alookup m l = None)
          by (intros m Nk Nm; apply Oth; [exact Nk|exact Nm|]; unfold c_ec_key_members; cbn [akeys map fst In]; intuition congruence)
      end.
      cbn [alookup]. c_eqb.
      repeat split; try discriminate; try exact V. exact O.
    - subst j'. cbn [lookup].
      match goal with |- context [alookup g_kty ?l] =>
        assert (O : forall m, m <> g_kty -> ~ In m c_ec_key_members -> alookup m l = None)
          by (intros m Nk Nm; apply Oth; [exact Nk|exact Nm|]; unfold c_ec_key_members; cbn [akeys map fst In]; intuition congruence)
      end.
      cbn [alookup]. c_eqb.
      assert (Ld : lookup g_d j = None).
      { destruct (lookup g_d j) as [v|]; [|reflexivity]. cbn [c_dec_opt] in Dd. destruct (g_bn_decode_json v); discriminate. }
      rewrite Ld. cbn [c_renorm].
      repeat split; try discriminate; try exact V; try (intro N0; exfalso; apply N0; reflexivity). exact O.
  Qed.
End ConvEC.

Lemma c_curve_name_inj c c' : g_curve_name c = g_curve_name c' -> c = c'.
Proof. intro H. pose proof (c_curve_of_name_name c) as A. rewrite H, c_curve_of_name_name in A. inversion A. reflexivity. Qed.

(* a JSON string, base64url, exactly [len] octets, value not zero *)
Definition c_fixed_member (len : N) (v : json) : bool :=
  match v with
  | JStr s => match dec s with Some b => (blen b =? len) && negb (g_os2ip b =? 0) | None => false end
  | _ => false
  end.
Definition c_req_fixed (len : N) (o : option json) : bool := match o with Some v => c_fixed_member len v | None => false end.
Definition c_opt_fixed (len : N) (o : option json) : bool := match o with Some v => c_fixed_member len v | None => true end.

Lemma c_fixed_member_spec len v : len <> 0 -> c_fixed_member len v = true ->
  exists x, g_bn_decode_json v = Some x /\ x <> 0 /\ x < 256 ^ len /\ g_bn_encode_json x len = Some v.
Proof.
  intro L. destruct v as [| | | |s| |]; try discriminate. cbn [c_fixed_member].
  destruct (dec s) as [b|] eqn:D; [|discriminate]. intro H. apply andb_true_iff in H. destruct H as [Hl Hz].
  apply N.eqb_eq in Hl. apply Bool.negb_true_iff in Hz. destruct (enc_dec _ _ D) as [Es W].
  pose proof (c_os2ip_lt _ W) as Up. rewrite Hl in Up.
  exists (g_os2ip b). split; [cbn [g_bn_decode_json]; rewrite D; reflexivity|]. split; [apply N.eqb_neq; exact Hz|].
  split; [exact Up|]. rewrite c_renorm_fixed by exact L. rewrite Hz. cbn [orb].
  pose proof (c_num_bytes_le _ _ Up) as Nb. destruct (len <? g_num_bytes (g_os2ip b)) eqn:F; [lia|].
  rewrite <- Hl. unfold blen. rewrite Nat2N.id. rewrite c_be_os2ip by exact W. rewrite Es. reflexivity.
Qed.

Section ConvEC2.
  Variable valid : g_curve -> N -> N -> option N -> bool.

  (* (a) EC: members of exactly the field length, below the field prime, accepted by OpenSSL's check:
     crv, x, y (and d) all come back equal, and nothing else *)
  Theorem conv_ec_roundtrip c j :
    g_req_s g_kty j = Some g_EC -> lookup g_crv j = Some (JStr (g_curve_name c)) ->
    c_req_fixed (g_curve_len c) (lookup g_x j) = true -> c_req_fixed (g_curve_len c) (lookup g_y j) = true ->
    c_opt_fixed (g_curve_len c) (lookup g_d j) = true ->
    c_num (lookup g_x j) < g_curve_p c -> c_num (lookup g_y j) < g_curve_p c ->
    valid c (c_num (lookup g_x j)) (c_num (lookup g_y j)) (c_num_opt (lookup g_d j)) = true ->
    exists j', conv_ec valid j = Some j' /\
      lookup g_kty j' = Some (JStr g_EC) /\
      (forall m, In m c_ec_key_members -> lookup m j' = lookup m j) /\
      (forall m, m <> g_kty -> ~ In m c_ec_key_members -> lookup m j' = None).
  Proof.
    intros K Lc Fx Fy Fd Px Py V. pose proof (c_curve_len_nz c) as Ln.
    assert (Cv : g_req_s g_crv j = Some (g_curve_name c)) by (rewrite (c_req_s_lookup _ _ _ Lc), c_curve_name_cstr; reflexivity).
    destruct (lookup g_x j) as [vx|] eqn:Lx; [|discriminate]. destruct (lookup g_y j) as [vy|] eqn:Ly; [|discriminate].
    cbn [c_req_fixed] in Fx, Fy.
    destruct (c_fixed_member_spec _ _ Ln Fx) as (X & Dx & NZx & Bx & Ex).
    destruct (c_fixed_member_spec _ _ Ln Fy) as (Y & Dy & NZy & By & Ey).
    cbn [c_num] in Px, Py, V. rewrite Dx in Px, V. rewrite Dy in Py, V.
    assert (Dd : exists D, c_dec_opt (lookup g_d j) = Some D /\ c_num_opt (lookup g_d j) = D /\
                           (forall d, D = Some d -> g_bn_encode_json d (g_curve_len c) = lookup g_d j) /\
                           (D = None -> lookup g_d j = None)).
    { destruct (lookup g_d j) as [vd|]; cbn [c_opt_fixed] in Fd.
      - destruct (c_fixed_member_spec _ _ Ln Fd) as (D & Dd & _ & _ & Ed). exists (Some D). cbn [c_dec_opt c_num_opt].
        rewrite Dd. repeat split; [|discriminate]. intros d Hd. inversion Hd; subst. exact Ed.
      - exists None. repeat split. discriminate. }
    destruct Dd as (D & Dd & Nd & Ed & Ad). rewrite Nd in V.
    assert (T := jwk_to_ec_some valid j c X Y D K Cv).
    rewrite Lx, Ly in T. cbn [c_dec_opt] in T. rewrite Dx, Dy in T. rewrite !N.mod_small in T by assumption.
    specialize (T eq_refl eq_refl Dd V).
    match type of T with _ = Some ?k0 => set (k := k0) in * end.
    destruct (jwk_from_ec_some k vx vy Ex Ey) as [j' F].
    { intros d Hd. cbn [k oe_d oe_crv] in *. rewrite (Ed d Hd). destruct (lookup g_d j); [discriminate|].
      subst D. cbn [c_dec_opt] in Dd. discriminate. }
    assert (C : conv_ec valid j = Some j') by (unfold conv_ec, obind; rewrite T; exact F).
    exists j'. split; [exact C|].
    destruct (conv_ec_members valid _ _ C) as (c' & _ & Cv' & Kty & Crv & Rx & _ & Ry & _ & Rd & _ & Oth & _).
    rewrite Cv in Cv'. inversion Cv' as [Cn]. apply c_curve_name_inj in Cn. subst c'.
    split; [exact Kty|]. split; [|exact Oth].
    intros m Hm. unfold c_ec_key_members in Hm. c_members Hm.
    - rewrite Crv, Lc. reflexivity.
    - rewrite Rx, Lx. cbn [c_renorm_mod]. rewrite Dx, N.mod_small by assumption. exact Ex.
    - rewrite Ry, Ly. cbn [c_renorm_mod]. rewrite Dy, N.mod_small by assumption. exact Ey.
    - rewrite Rd. destruct D as [d|].
      + specialize (Ed d eq_refl). destruct (lookup g_d j) as [vd|]; cbn [c_dec_opt] in Dd; [|discriminate].
        cbn [c_renorm]. destruct (g_bn_decode_json vd); [|discriminate]. inversion Dd; subst. exact Ed.
      + rewrite (Ad eq_refl). reflexivity.
  Qed.

  (* (c) EC: what a coordinate comes back as, in general: its value reduced modulo the field prime, written
     on exactly the field length *)
  Theorem conv_ec_coordinate_renormalised j j' m s b :
    conv_ec valid j = Some j' -> m = g_x \/ m = g_y -> lookup m j = Some (JStr s) -> dec s = Some b ->
    exists c, g_req_s g_crv j = Some (g_curve_name c) /\
      lookup m j' = Some (JStr (enc (g_be (N.to_nat (g_curve_len c)) (g_os2ip b mod g_curve_p c)))) /\
      g_os2ip b mod g_curve_p c <> 0.
  Proof.
    intros C Hm L D.
    destruct (conv_ec_members valid _ _ C) as (c & _ & Cv & _ & _ & Rx & Px & Ry & Py & _).
    exists c. split; [exact Cv|].
    assert (R : lookup m j' = c_renorm_mod (g_curve_p c) (g_curve_len c) (lookup m j) /\ lookup m j' <> None)
      by (destruct Hm; subst m; split; assumption).
    destruct R as [R P]. rewrite L in R. cbn [c_renorm_mod g_bn_decode_json] in R. rewrite D in R.
    rewrite c_renorm_fixed in R by apply c_curve_len_nz.
    destruct ((g_os2ip b mod g_curve_p c =? 0) || _) eqn:B; [exfalso; apply P; exact R|].
    split; [exact R|]. apply orb_false_iff in B. destruct B as [B _]. apply N.eqb_neq. exact B.
  Qed.

  (* a coordinate SHORTER than the field length comes back padded with zero octets in front *)
  Theorem conv_ec_short_coordinate_padded j j' m s b c :
    conv_ec valid j = Some j' -> m = g_x \/ m = g_y -> lookup m j = Some (JStr s) -> dec s = Some b ->
    g_req_s g_crv j = Some (g_curve_name c) -> blen b < g_curve_len c ->
    lookup m j' = Some (JStr (enc (repeatN 0 (N.to_nat (g_curve_len c) - length b) ++ b))) /\
    lookup m j' <> lookup m j.
  Proof.
    intros C Hm L D Cv Short.
    destruct (conv_ec_coordinate_renormalised _ _ _ _ _ C Hm L D) as (c' & Cv' & R & _).
    rewrite Cv in Cv'. inversion Cv' as [Cn]. apply c_curve_name_inj in Cn. subst c'.
    destruct (enc_dec _ _ D) as [_ W]. pose proof (c_os2ip_lt _ W) as Up.
    assert (Small : g_os2ip b < g_curve_p c).
    { eapply N.lt_trans; [|apply conv_curve_p_bounds]. eapply N.lt_le_trans; [exact Up|].
      apply N.pow_le_mono_r; [discriminate|lia]. }
    rewrite N.mod_small in R by exact Small.
    replace (N.to_nat (g_curve_len c)) with ((N.to_nat (g_curve_len c) - length b) + length b)%nat in R at 1
      by (unfold blen in Short; lia).
    rewrite c_be_pad in R by exact W. split; [exact R|].
    rewrite R, L. intro F. inversion F as [Fs]. revert Fs. apply (c_enc_inj_on_dec _ _ _ D).
    - apply Forall_app. split; [|exact W]. generalize (N.to_nat (g_curve_len c) - length b)%nat.
      intro n; induction n; cbn; constructor; [unfold wf_byte; lia|assumption].
    - intro Q. apply (f_equal (@length N)) in Q. rewrite app_length in Q.
      assert (Rl : forall n, length (repeatN 0 n) = n) by (intro n; induction n; cbn; congruence).
      rewrite Rl in Q. unfold blen in Short. lia.
  Qed.

  (* a coordinate that is NOT below the field prime is accepted (if the reduced point is) and comes back
     REDUCED: here not even the value is preserved *)
  Theorem conv_ec_coordinate_reduced j j' m s b c :
    conv_ec valid j = Some j' -> m = g_x \/ m = g_y -> lookup m j = Some (JStr s) -> dec s = Some b ->
    g_req_s g_crv j = Some (g_curve_name c) -> g_curve_p c <= g_os2ip b ->
    exists v', lookup m j' = Some v' /\
      g_bn_decode_json v' = Some (g_os2ip b mod g_curve_p c) /\
      g_bn_decode_json v' <> g_bn_decode_json (JStr s).
  Proof.
    intros C Hm L D Cv Big.
    destruct (conv_ec_coordinate_renormalised _ _ _ _ _ C Hm L D) as (c' & Cv' & R & _).
    rewrite Cv in Cv'. inversion Cv' as [Cn]. apply c_curve_name_inj in Cn. subst c'.
    eexists. split; [exact R|].
    assert (Lt : g_os2ip b mod g_curve_p c < g_curve_p c) by (apply N.mod_lt; destruct c; discriminate).
    assert (Dv : g_bn_decode_json (JStr (enc (g_be (N.to_nat (g_curve_len c)) (g_os2ip b mod g_curve_p c)))) =
                 Some (g_os2ip b mod g_curve_p c)).
    { cbn [g_bn_decode_json]. rewrite dec_enc by apply g_be_wf. rewrite g_os2ip_be_small; [reflexivity|].
      rewrite N2Nat.id. eapply N.lt_trans; [exact Lt|apply conv_curve_p_bounds]. }
    split; [exact Dv|]. rewrite Dv. cbn [g_bn_decode_json]. rewrite D. intro F. inversion F. lia.
  Qed.

  (* d: written on the field length, not reduced (a d that does not fit makes the conversion fail) *)
  Theorem conv_ec_d_renormalised j j' s b :
    conv_ec valid j = Some j' -> lookup g_d j = Some (JStr s) -> dec s = Some b ->
    exists c, g_req_s g_crv j = Some (g_curve_name c) /\
      lookup g_d j' = Some (JStr (enc (g_be (N.to_nat (g_curve_len c)) (g_os2ip b)))) /\
      g_os2ip b <> 0 /\ g_num_bytes (g_os2ip b) <= g_curve_len c.
  Proof.
    intros C L D.
    destruct (conv_ec_members valid _ _ C) as (c & _ & Cv & _ & _ & _ & _ & _ & _ & Rd & Pd & _).
    exists c. split; [exact Cv|]. rewrite L in Rd, Pd. cbn [c_renorm g_bn_decode_json] in Rd. rewrite D in Rd.
    rewrite c_renorm_fixed in Rd by apply c_curve_len_nz.
    destruct ((g_os2ip b =? 0) || _) eqn:B; [exfalso; apply Pd; [discriminate|exact Rd]|].
    split; [exact Rd|]. apply orb_false_iff in B. destruct B as [B1 B2]. split; [apply N.eqb_neq; exact B1|].
    apply N.ltb_ge. exact B2.
  Qed.

  (* ---- (e) EC refusals ---------------------------------------------------------------------------------- *)

  Theorem conv_ec_missing_required j :
    lookup g_crv j = None \/ lookup g_x j = None \/ lookup g_y j = None -> conv_ec valid j = None.
  Proof.
    intro H. unfold conv_ec, obind, jwk_to_ec. destruct (g_req_s g_kty j); [|reflexivity].
    destruct (g_req_s g_crv j) as [crv|] eqn:Cv.
    - destruct H as [H|[H|H]].
      + apply g_req_s_str in Cv. destruct Cv as (r & Lr & _). congruence.
      + rewrite H. reflexivity.
      + rewrite H. destruct (lookup g_x j); reflexivity.
    - reflexivity.
  Qed.

  Theorem conv_ec_unknown_curve j crv :
    g_req_s g_crv j = Some crv -> g_curve_of_name crv = None -> conv_ec valid j = None.
  Proof.
    intros Cv U. unfold conv_ec, obind, jwk_to_ec. rewrite Cv, U. destruct (g_req_s g_kty j); [|reflexivity].
    destruct (lookup g_x j); [|reflexivity]. destruct (lookup g_y j); [|reflexivity]. destruct (negb _); reflexivity.
  Qed.

  (* whatever OpenSSL's key check refuses is refused *)
  Theorem conv_ec_invalid_refused j c :
    g_req_s g_crv j = Some (g_curve_name c) ->
    valid c (c_num (lookup g_x j) mod g_curve_p c) (c_num (lookup g_y j) mod g_curve_p c) (c_num_opt (lookup g_d j)) = false ->
    conv_ec valid j = None.
  Proof.
    intros Cv V. destruct (conv_ec valid j) as [j'|] eqn:C; [exfalso|reflexivity].
    destruct (conv_ec_members valid _ _ C) as (c' & _ & Cv' & _ & _ & _ & _ & _ & _ & _ & _ & _ & V').
    rewrite Cv in Cv'. inversion Cv' as [Cn]. apply c_curve_name_inj in Cn. subst c'. congruence.
  Qed.

  (* a point with a zero coordinate cannot be written back: bn_encode_json returns NULL for 0 *)
  Theorem conv_ec_zero_coordinate_refused j c m :
    m = g_x \/ m = g_y -> g_req_s g_crv j = Some (g_curve_name c) -> c_num (lookup m j) mod g_curve_p c = 0 ->
    conv_ec valid j = None.
  Proof.
    intros Hm Cv Z. destruct (conv_ec valid j) as [j'|] eqn:C; [exfalso|reflexivity].
    destruct (conv_ec_members valid _ _ C) as (c' & _ & Cv' & _ & _ & Rx & Px & Ry & Py & _).
    rewrite Cv in Cv'. inversion Cv' as [Cn]. apply c_curve_name_inj in Cn. subst c'.
    assert (R : lookup m j' = c_renorm_mod (g_curve_p c) (g_curve_len c) (lookup m j) /\ lookup m j' <> None)
      by (destruct Hm; subst m; split; assumption).
    destruct R as [R P]. apply P. rewrite R. unfold c_num in Z. unfold c_renorm_mod.
    destruct (lookup m j) as [v|]; [|reflexivity]. destruct (g_bn_decode_json v) as [x|]; [|reflexivity].
    rewrite Z. unfold g_bn_encode_json. destruct (_ <? _); reflexivity.
  Qed.
End ConvEC2.

(* ------------------------------------------------------------------------------------------------ *)
(* oct *)

(* [c_b64_octets] is the two-call pattern of the C code (size query, buffer, decode, compare the count) *)
Definition c_b64_octets_c (o : option json) : option bytes :=
  match o with
  | None => None
  | Some i =>
      match ret (jose_b64_dec i None) with
      | None => None
      | Some size =>
          let r := jose_b64_dec i (Some size) in
          match ret r with
          | Some n => if n =? size then Some (replay (writes r) (zeros size)) else None
          | None => None
          end
      end
  end.

Lemma c_b64_octets_is_c o : c_b64_octets_c o = c_b64_octets o.
Proof.
  destruct o as [i|]; [|reflexivity]. destruct i as [| | | |s| |]; try reflexivity.
  cbn [c_b64_octets_c c_b64_octets jose_b64_dec str_sl ret]. rewrite b64_dlen_is_dlen.
  destruct (dlen (blen s)) as [size|] eqn:D.
  - pose proof (dec_buf_refines s size) as P. cbv zeta in P. destruct P as [_ P].
    rewrite D in P. rewrite N.ltb_irrefl in P. cbv zeta.
    destruct (dec s) as [bs|] eqn:E.
    + destruct P as [R W]. rewrite R, W. apply dec_length in E. rewrite D in E. inversion E; subst.
      rewrite N.eqb_refl. rewrite replay_enum_zeros. reflexivity.
    + rewrite P. reflexivity.
  - rewrite (dlen_none_dec s D). reflexivity.
Qed.

(* the oct conversion, exactly: "k" a base64url string of at least one octet; the result is kty and that same k *)
Theorem conv_oct_spec j j' :
  conv_oct j = Some j' <->
  exists s b, lookup g_k j = Some (JStr s) /\ dec s = Some b /\ b <> [] /\ j' = JObj [(g_kty, JStr g_oct); (g_k, JStr s)].
Proof.
  unfold conv_oct, obind, jwk_to_hmac, c_b64_octets. split.
  - destruct (lookup g_k j) as [v|]; [|discriminate]. destruct v as [| | | |s| |]; try discriminate.
    destruct (dec s) as [b|] eqn:D; [|discriminate]. destruct b as [|c r]; [discriminate|].
    destruct (enc_dec _ _ D) as [Es W]. unfold jwk_from_hmac. rewrite b64_enc_spec by exact W. cbn [g_pack].
    rewrite Es. intro H. inversion H. exists s, (c :: r). split; [reflexivity|]. split; [exact D|]. split; [discriminate|reflexivity].
  - intros (s & b & L & D & NE & ->). rewrite L, D. destruct b as [|c r]; [contradiction|].
    destruct (enc_dec _ _ D) as [Es W]. unfold jwk_from_hmac. rewrite b64_enc_spec by exact W. cbn [g_pack].
    rewrite Es. reflexivity.
Qed.

(* (a) oct: any non-empty octet string, leading zero octets included, comes back as the same text *)
Theorem conv_oct_roundtrip j s b :
  lookup g_k j = Some (JStr s) -> dec s = Some b -> b <> [] ->
  conv_oct j = Some (JObj [(g_kty, JStr g_oct); (g_k, JStr s)]).
Proof. intros L D NE. apply conv_oct_spec. exists s, b. repeat split; assumption. Qed.

(* the EMPTY key is refused (O9) *)
Theorem conv_oct_empty_refused j : lookup g_k j = Some (JStr []) -> conv_oct j = None.
Proof. intro L. unfold conv_oct, obind, jwk_to_hmac, c_b64_octets. rewrite L. reflexivity. Qed.

Theorem conv_oct_bad_k j : c_b64_octets (lookup g_k j) = None -> conv_oct j = None.
Proof. intro H. unfold conv_oct, obind, jwk_to_hmac. rewrite H. reflexivity. Qed.

(* ------------------------------------------------------------------------------------------------ *)
(* the EVP_PKEY route and the type-specific route *)

Definition c_key_members_of (kty : bytes) : list bytes :=
  if bytes_eqb kty g_EC then c_ec_key_members
  else if bytes_eqb kty g_RSA then c_rsa_key_members
  else if bytes_eqb kty g_oct then c_oct_key_members
  else [].

Definition c_kid : bytes := [107; 105; 100]. (* kid *)

Section ConvRoutes.
  Variable valid : g_curve -> N -> N -> option N -> bool.

  Lemma conv_route_rsa j : g_req_s g_kty j = Some g_RSA ->
    conv valid j = conv_rsa j /\ conv_typed valid j = conv_rsa j /\ conv_is_oct j = false.
  Proof.
    intro K. unfold conv, conv_typed, conv_is_oct, jwk_to_pkey, conv_rsa, obind. rewrite K. c_eqb.
    repeat split. destruct (jwk_to_rsa j); reflexivity.
  Qed.

  Lemma conv_route_ec j : g_req_s g_kty j = Some g_EC ->
    conv valid j = conv_ec valid j /\ conv_typed valid j = conv_ec valid j /\ conv_is_oct j = false.
  Proof.
    intro K. unfold conv, conv_typed, conv_is_oct, jwk_to_pkey, conv_ec, obind. rewrite K. c_eqb.
    repeat split. destruct (jwk_to_ec valid j); reflexivity.
  Qed.

  Lemma conv_route_oct j : g_req_s g_kty j = Some g_oct ->
    conv valid j = conv_oct j /\ conv_typed valid j = None /\ conv_is_oct j = true.
  Proof.
    intro K. unfold conv, conv_typed, conv_is_oct, jwk_to_pkey, conv_oct, obind. rewrite K. c_eqb.
    repeat split. destruct (jwk_to_hmac j); reflexivity.
  Qed.

  (* both routes give the same JWK wherever the type-specific route exists *)
  Theorem conv_typed_agrees j : conv_is_oct j = false -> conv_typed valid j = conv valid j.
  Proof.
    unfold conv_is_oct. intro O. destruct (g_req_s g_kty j) as [kty|] eqn:K.
    - destruct (bytes_eqb kty g_EC) eqn:E1; [apply bytes_eqb_eq in E1; subst; destruct (conv_route_ec j K) as (A & B & _); congruence|].
      destruct (bytes_eqb kty g_RSA) eqn:E2; [apply bytes_eqb_eq in E2; subst; destruct (conv_route_rsa j K) as (A & B & _); congruence|].
      unfold conv, conv_typed, jwk_to_pkey, obind. rewrite K, E1, E2, O. reflexivity.
    - unfold conv, conv_typed, jwk_to_pkey, obind. rewrite K. reflexivity.
  Qed.

  (* (e) kty: no string member, or a string other than exactly "EC", "RSA", "oct" *)
  Theorem conv_unknown_kty j :
    (forall kty, g_req_s g_kty j = Some kty -> kty <> g_EC /\ kty <> g_RSA /\ kty <> g_oct) -> conv valid j = None.
  Proof.
    intro H. unfold conv, jwk_to_pkey, obind. destruct (g_req_s g_kty j) as [kty|]; [|reflexivity].
    destruct (H kty eq_refl) as (A & B & C). rewrite !c_bytes_eqb_false by assumption. reflexivity.
  Qed.

  (* the dispatch is case-sensitive: "rsa", "Rsa", "ec", "OCT" ... are refused -- although jose_jwk_thp and
     jose_jwk_eql (find_type_ci) DO know such a key *)
  Theorem conv_kty_case_sensitive j kty t :
    g_req_s g_kty j = Some kty -> In t [g_EC; g_RSA; g_oct] -> strcasecmp_eq kty t = true -> kty <> t ->
    conv valid j = None /\ find_type_ci kty <> None.
  Proof.
    intros K Ht Ci Ne. split.
    - apply conv_unknown_kty. intros kty' K'. rewrite K in K'. inversion K'; subst kty'.
      cbn [In] in Ht. destruct Ht as [Ht|[Ht|[Ht|[]]]]; subst t; repeat split; try assumption;
        intro F; subst kty; vm_compute in Ci; discriminate.
    - unfold find_type_ci. cbn [In] in Ht.
      destruct Ht as [Ht|[Ht|[Ht|[]]]]; subst t; unfold jwk_types; cbn [find t_kty];
        change [69; 67] with g_EC; change [82; 83; 65] with g_RSA; change [111; 99; 116] with g_oct;
        rewrite ?Ci; try discriminate;
        repeat (destruct (strcasecmp_eq kty _); try discriminate).
  Qed.

  (* (e) NEVER A SUCCESS THAT DROPS A KEY MEMBER: every key member present in the input is present in the output *)
  Theorem conv_never_drops j j' kty :
    conv valid j = Some j' -> g_req_s g_kty j = Some kty ->
    forall m, In m (c_key_members_of kty) -> lookup m j <> None -> lookup m j' <> None.
  Proof.
    intros C K m Hm P. unfold c_key_members_of in Hm.
    destruct (bytes_eqb kty g_EC) eqn:E1.
    { apply bytes_eqb_eq in E1. subst kty. destruct (conv_route_ec j K) as (R & _). rewrite R in C.
      destruct (conv_ec_members valid _ _ C) as (c & _ & _ & _ & Crv & _ & Px & _ & Py & _ & Pd & _).
      unfold c_ec_key_members in Hm. c_members Hm; auto. rewrite Crv. discriminate. }
    destruct (bytes_eqb kty g_RSA) eqn:E2.
    { apply bytes_eqb_eq in E2. subst kty. destruct (conv_route_rsa j K) as (R & _). rewrite R in C.
      destruct (conv_rsa_members _ _ C) as (_ & Mem & _). apply (Mem m Hm). exact P. }
    destruct (bytes_eqb kty g_oct) eqn:E3; [|destruct Hm].
    apply bytes_eqb_eq in E3. subst kty. destruct (conv_route_oct j K) as (R & _). rewrite R in C.
    apply conv_oct_spec in C. destruct C as (s & b & L & _ & _ & ->).
    unfold c_oct_key_members in Hm. c_members Hm. cbn. discriminate.
  Qed.

  (* (d) THE RESULT HAS kty AND KEY MEMBERS ONLY: nothing else of the input is carried through *)
  Theorem conv_only_key_members j j' kty :
    conv valid j = Some j' -> g_req_s g_kty j = Some kty ->
    lookup g_kty j' = Some (JStr kty) /\
    forall m, m <> g_kty -> ~ In m (c_key_members_of kty) -> lookup m j' = None.
  Proof.
    intros C K. unfold c_key_members_of.
    destruct (bytes_eqb kty g_EC) eqn:E1.
    { apply bytes_eqb_eq in E1. subst kty. destruct (conv_route_ec j K) as (R & _). rewrite R in C.
      destruct (conv_ec_members valid _ _ C) as (c & _ & _ & Kty & _ & _ & _ & _ & _ & _ & _ & Oth & _). split; assumption. }
    destruct (bytes_eqb kty g_RSA) eqn:E2.
    { apply bytes_eqb_eq in E2. subst kty. destruct (conv_route_rsa j K) as (R & _). rewrite R in C.
      destruct (conv_rsa_members _ _ C) as (Kty & _ & Oth). split; assumption. }
    destruct (bytes_eqb kty g_oct) eqn:E3.
    - apply bytes_eqb_eq in E3. subst kty. destruct (conv_route_oct j K) as (R & _). rewrite R in C.
      apply conv_oct_spec in C. destruct C as (s & b & L & _ & _ & ->). split; [reflexivity|].
      intros m Nk Nm. cbn [lookup]. rewrite c_alookup_cons_ne by exact Nk.
      rewrite c_alookup_cons_ne; [reflexivity|]. intro F. apply Nm. left. symmetry. exact F.
    - exfalso. unfold conv, jwk_to_pkey, obind in C. rewrite K, E1, E2, E3 in C. discriminate.
  Qed.

  (* in particular alg, kid, use, key_ops never survive, whatever the key type *)
  Theorem conv_drops_non_key_members j j' :
    conv valid j = Some j' ->
    lookup g_alg j' = None /\ lookup c_kid j' = None /\ lookup g_use j' = None /\ lookup g_key_ops j' = None.
  Proof.
    intro C. destruct (g_req_s g_kty j) as [kty|] eqn:K.
    - destruct (conv_only_key_members _ _ _ C K) as [_ Oth].
      assert (M : forall m, In m [g_alg; c_kid; g_use; g_key_ops] -> m <> g_kty /\ ~ In m (c_key_members_of kty)).
      { intros m Hm. unfold c_key_members_of.
        destruct (bytes_eqb kty g_EC); [|destruct (bytes_eqb kty g_RSA); [|destruct (bytes_eqb kty g_oct)]];
          cbn [In] in Hm; destruct Hm as [Hm|[Hm|[Hm|[Hm|[]]]]]; subst m; (split; [discriminate|]);
          unfold c_ec_key_members, c_rsa_key_members, c_oct_key_members; cbn [In]; intuition discriminate. }
      repeat split; apply Oth; apply M; cbn; tauto.
    - unfold conv, jwk_to_pkey, obind in C. rewrite K in C. discriminate.
  Qed.
End ConvRoutes.

(* ------------------------------------------------------------------------------------------------ *)
(* (b) thumbprint and equality *)

Lemma c_kty_of_lookup j : kty_of j = match lookup s_kty j with Some (JStr s) => Some (cstr s) | _ => None end.
Proof. destruct j; reflexivity. Qed.

(* two keys with the same kty value and the same (string) required members: same thumbprint input, same
   thumbprints, equal under jose_jwk_eql -- no well-formedness premise is needed because every value compared
   is a string *)
Lemma c_thp_eql_same j j' kty t :
  kty_of j = Some kty -> find_type_ci kty = Some t -> lookup s_kty j' = lookup s_kty j ->
  (forall r, In r (t_req t) -> lookup r j' = lookup r j /\ exists s, lookup r j = Some (JStr s)) ->
  thp_object j' = thp_object j /\ thp_object j <> None /\ jwk_eql j j' = true /\
  (forall h, jwk_thp j' h = jwk_thp j h).
Proof.
  intros K T L R.
  assert (K' : kty_of j' = kty_of j) by (rewrite !c_kty_of_lookup, L; reflexivity).
  assert (E : thp_object j' = thp_object j).
  { rewrite !thp_object_unfold. rewrite K', K, T, L. destruct (lookup s_kty j) as [ktyv|]; [|reflexivity].
    generalize [(s_kty, ktyv)]. induction (t_req t) as [|r rest IH]; intro acc; cbn [req_obj]; [reflexivity|].
    destruct (R r (or_introl eq_refl)) as [Er _]. rewrite Er. destruct (lookup r j); [|reflexivity].
    apply IH. intros r' Hr. apply R. right. exact Hr. }
  destruct (kty_of_lookup _ _ K) as (sk & Lk & _).
  split; [exact E|]. split; [|split].
  - rewrite thp_object_unfold, K, T, Lk. intro F. apply req_obj_none in F. destruct F as (r & Hr & N).
    destruct (R r Hr) as [_ (s & Ls)]. congruence.
  - apply eql_spec. exists kty, t, (JStr sk), (JStr sk). split; [exact K|]. split; [exact T|]. split; [exact Lk|].
    split; [rewrite L; exact Lk|]. split; [cbn [jequal]; apply bytes_eqb_refl|].
    intros r Hr. destruct (R r Hr) as [Er (s & Ls)]. exists (JStr s), (JStr s). rewrite Er.
    repeat split; try exact Ls. cbn [jequal]. apply bytes_eqb_refl.
  - intro h. unfold jwk_thp, jwk_str. rewrite E. reflexivity.
Qed.

Lemma c_req_min_str o : c_req_min o = true -> exists s, o = Some (JStr s).
Proof. destruct o as [[| | | |s| |]|]; try discriminate. eauto. Qed.

Lemma c_req_fixed_str len o : c_req_fixed len o = true -> exists s, o = Some (JStr s).
Proof. destruct o as [[| | | |s| |]|]; try discriminate. eauto. Qed.

Section ConvThp.
  Variable valid : g_curve -> N -> N -> option N -> bool.

  (* RSA: for the thumbprint only n and e matter -- if THEY are minimal-length, any successful conversion keeps
     thumbprint and equality (whatever the form of the private members) *)
  Theorem conv_rsa_preserves_thp_ne j j' :
    lookup g_kty j = Some (JStr g_RSA) -> conv valid j = Some j' ->
    c_req_min (lookup g_n j) = true -> c_req_min (lookup g_e j) = true ->
    thp_object j' = thp_object j /\ thp_object j <> None /\ jwk_eql j j' = true /\
    (forall h, jwk_thp j' h = jwk_thp j h).
  Proof.
    intros Lk C Mn Me. pose proof (c_req_s_lookup _ _ _ Lk) as K. change (cstr g_RSA) with g_RSA in K.
    destruct (conv_route_rsa valid j K) as (R & _). rewrite R in C.
    destruct (conv_rsa_members _ _ C) as (Kty & Mem & _).
    apply (c_thp_eql_same j j' g_RSA {| t_kty := g_RSA; t_req := [g_e; g_n]; t_pub := [g_e; g_n];
                                         t_prv := [g_p; g_d; g_q; g_dp; g_dq; g_qi; g_oth] |}).
    - rewrite c_kty_of_lookup. change s_kty with g_kty. rewrite Lk. reflexivity.
    - reflexivity.
    - change s_kty with g_kty. rewrite Kty, Lk. reflexivity.
    - cbn [t_req]. intros r Hr.
      assert (Hm : In r c_rsa_key_members) by (unfold c_rsa_key_members; cbn [In] in *; tauto).
      destruct (Mem r Hm) as [E _].
      assert (Mr : c_req_min (lookup r j) = true) by (cbn [In] in Hr; destruct Hr as [Hr|[Hr|[]]]; subst r; assumption).
      destruct (c_req_min_spec _ Mr) as (_ & _ & _ & Rn). split; [rewrite E; exact Rn|apply c_req_min_str; exact Mr].
  Qed.

  (* (b) RSA, from the canonical form *)
  Theorem conv_rsa_preserves_thp j :
    lookup g_kty j = Some (JStr g_RSA) -> c_rsa_canonical j = true ->
    exists j', conv valid j = Some j' /\ conv_typed valid j = Some j' /\
      thp_object j' = thp_object j /\ thp_object j <> None /\ jwk_eql j j' = true /\
      (forall h, jwk_thp j' h = jwk_thp j h).
  Proof.
    intros Lk Can. pose proof (c_req_s_lookup _ _ _ Lk) as K. change (cstr g_RSA) with g_RSA in K.
    destruct (conv_rsa_roundtrip j) as (j' & C & _); [rewrite K; discriminate|exact Can|].
    destruct (conv_route_rsa valid j K) as (R & Rt & _). rewrite <- R in C.
    exists j'. split; [exact C|]. split; [rewrite Rt, <- R; exact C|].
    unfold c_rsa_canonical in Can. rewrite !andb_true_iff in Can. destruct Can as [[[[[Cn Ce] _] _] _] _].
    apply conv_rsa_preserves_thp_ne; assumption.
  Qed.

  (* (b) EC *)
  Theorem conv_ec_preserves_thp c j :
    lookup g_kty j = Some (JStr g_EC) -> lookup g_crv j = Some (JStr (g_curve_name c)) ->
    c_req_fixed (g_curve_len c) (lookup g_x j) = true -> c_req_fixed (g_curve_len c) (lookup g_y j) = true ->
    c_opt_fixed (g_curve_len c) (lookup g_d j) = true ->
    c_num (lookup g_x j) < g_curve_p c -> c_num (lookup g_y j) < g_curve_p c ->
    valid c (c_num (lookup g_x j)) (c_num (lookup g_y j)) (c_num_opt (lookup g_d j)) = true ->
    exists j', conv valid j = Some j' /\ conv_typed valid j = Some j' /\
      thp_object j' = thp_object j /\ thp_object j <> None /\ jwk_eql j j' = true /\
      (forall h, jwk_thp j' h = jwk_thp j h).
  Proof.
    intros Lk Lc Fx Fy Fd Px Py V. pose proof (c_req_s_lookup _ _ _ Lk) as K. change (cstr g_EC) with g_EC in K.
    destruct (conv_ec_roundtrip valid c j K Lc Fx Fy Fd Px Py V) as (j' & C & Kty & Mem & _).
    destruct (conv_route_ec valid j K) as (R & Rt & _).
    exists j'. split; [rewrite R; exact C|]. split; [rewrite Rt; exact C|].
    apply (c_thp_eql_same j j' g_EC {| t_kty := g_EC; t_req := [g_crv; g_x; g_y]; t_pub := [g_x; g_y]; t_prv := [g_d] |}).
    - rewrite c_kty_of_lookup. change s_kty with g_kty. rewrite Lk. reflexivity.
    - reflexivity.
    - change s_kty with g_kty. rewrite Kty, Lk. reflexivity.
    - cbn [t_req]. intros r Hr.
      assert (Hm : In r c_ec_key_members) by (unfold c_ec_key_members; cbn [In] in *; tauto).
      split; [apply Mem; exact Hm|]. cbn [In] in Hr. destruct Hr as [Hr|[Hr|[Hr|[]]]]; subst r.
      + eauto.
      + apply (c_req_fixed_str _ _ Fx).
      + apply (c_req_fixed_str _ _ Fy).
  Qed.

  (* (b) oct *)
  Theorem conv_oct_preserves_thp j s b :
    lookup g_kty j = Some (JStr g_oct) -> lookup g_k j = Some (JStr s) -> dec s = Some b -> b <> [] ->
    exists j', conv valid j = Some j' /\ lookup g_k j' = lookup g_k j /\
      thp_object j' = thp_object j /\ thp_object j <> None /\ jwk_eql j j' = true /\
      (forall h, jwk_thp j' h = jwk_thp j h).
  Proof.
    intros Lk L D NE. pose proof (c_req_s_lookup _ _ _ Lk) as K. change (cstr g_oct) with g_oct in K.
    destruct (conv_route_oct valid j K) as (R & _).
    exists (JObj [(g_kty, JStr g_oct); (g_k, JStr s)]). split; [rewrite R; eapply conv_oct_roundtrip; eassumption|].
    split; [rewrite L; reflexivity|].
    apply (c_thp_eql_same j _ g_oct {| t_kty := g_oct; t_req := [g_k]; t_pub := []; t_prv := [g_k] |}).
    - rewrite c_kty_of_lookup. change s_kty with g_kty. rewrite Lk. reflexivity.
    - reflexivity.
    - change s_kty with g_kty. rewrite Lk. reflexivity.
    - cbn [t_req]. intros r [Hr|[]]. subst r. rewrite L. split; [reflexivity|eauto].
  Qed.
End ConvThp.

(* ------------------------------------------------------------------------------------------------ *)
(* closed examples (the driver's instance: every point accepted) *)

Definition c_str (s : list N) : json := JStr s.

(* {"kty":"RSA","n":"DKE","e":"EQ","d":"AZ0","p":"PQ","q":"NQ","dp":"NQ","dq":"MQ","qi":"Jg"}: n = 3233 = 61 * 53, e = 17 *)
Definition c_ex_rsa : json :=
  JObj [(g_kty, JStr g_RSA); (g_n, JStr [68; 75; 69]); (g_e, JStr [69; 81]); (g_d, JStr [65; 90; 48]);
        (g_p, JStr [80; 81]); (g_q, JStr [78; 81]); (g_dp, JStr [78; 81]); (g_dq, JStr [77; 81]); (g_qi, JStr [74; 103]);
        (g_alg, JStr [82; 83; 50; 53; 54]); (c_kid, JStr [49])].

Example c_ex_rsa_numbers :
  map (fun m => c_num (lookup m c_ex_rsa)) c_rsa_key_members = [3233; 17; 413; 61; 53; 53; 49; 38].
Proof. vm_compute. reflexivity. Qed.

Example c_ex_rsa_canonical : c_rsa_canonical c_ex_rsa = true.
Proof. vm_compute. reflexivity. Qed.

Example c_ex_rsa_conv :
  conv_drv c_ex_rsa =
  Some (JObj [(g_kty, JStr g_RSA); (g_n, JStr [68; 75; 69]); (g_e, JStr [69; 81]); (g_d, JStr [65; 90; 48]);
              (g_p, JStr [80; 81]); (g_q, JStr [78; 81]); (g_dp, JStr [78; 81]); (g_dq, JStr [77; 81]); (g_qi, JStr [74; 103])]).
Proof. vm_compute. reflexivity. Qed.

(* (c) {"kty":"RSA","n":"AAyh","e":"ABE"} (n = 00 0c a1, e = 00 11) comes back as {"kty":"RSA","n":"DKE","e":"EQ"}:
   same numbers, other text -- and with it ANOTHER thumbprint input, and jose_jwk_eql says "different" *)
Definition c_ex_rsa_lz : json := JObj [(g_kty, JStr g_RSA); (g_n, JStr [65; 65; 121; 104]); (g_e, JStr [65; 66; 69])].
Definition c_ex_rsa_lz_out : json := JObj [(g_kty, JStr g_RSA); (g_n, JStr [68; 75; 69]); (g_e, JStr [69; 81])].

Example c_ex_rsa_leading_zero :
  conv_drv c_ex_rsa_lz = Some c_ex_rsa_lz_out /\
  c_num (lookup g_n c_ex_rsa_lz) = c_num (lookup g_n c_ex_rsa_lz_out) /\
  jwk_eql c_ex_rsa_lz c_ex_rsa_lz_out = false /\
  thp_object c_ex_rsa_lz <> thp_object c_ex_rsa_lz_out.
Proof. vm_compute. repeat split; discriminate. Qed.

(* incomplete p,q pair; incomplete dp,dq,qi triple; kty in another case; unknown kty; missing e *)
Example c_ex_rsa_refusals :
  conv_drv (JObj [(g_kty, JStr g_RSA); (g_n, JStr [68; 75; 69]); (g_e, JStr [69; 81]); (g_d, JStr [65; 90; 48]); (g_p, JStr [80; 81])]) = None /\
  conv_drv (JObj [(g_kty, JStr g_RSA); (g_n, JStr [68; 75; 69]); (g_e, JStr [69; 81]); (g_dp, JStr [78; 81]); (g_dq, JStr [77; 81])]) = None /\
  conv_drv (JObj [(g_kty, JStr [114; 115; 97]); (g_n, JStr [68; 75; 69]); (g_e, JStr [69; 81])]) = None /\
  conv_drv (JObj [(g_kty, JStr [102; 111; 111]); (g_n, JStr [68; 75; 69]); (g_e, JStr [69; 81])]) = None /\
  conv_drv (JObj [(g_kty, JStr g_RSA); (g_n, JStr [68; 75; 69])]) = None.
Proof. vm_compute. repeat split. Qed.

(* "oth" present, conversion succeeds, "oth" gone *)
Example c_ex_rsa_oth :
  conv_drv (JObj [(g_kty, JStr g_RSA); (g_n, JStr [68; 75; 69]); (g_e, JStr [69; 81]); (g_oth, JArr [])])
  = Some c_ex_rsa_lz_out.
Proof. vm_compute. reflexivity. Qed.

Example c_ex_oth_is_a_private_member :
  existsb (fun t => bytes_eqb (t_kty t) g_RSA && existsb (bytes_eqb g_oth) (t_prv t)) jwk_types = true.
Proof. vm_compute. reflexivity. Qed.

(* the P-256 base point, 32-octet coordinates *)
Definition c_ex_gx : N := 0x6b17d1f2e12c4247f8bce6e563a440f277037d812deb33a0f4a13945d898c296.
Definition c_ex_gy : N := 0x4fe342e2fe1a7f9b8ee7eb4a7c0f9e162bce33576b315ececbb6406837bf51f5.
Definition c_ex_ec : json :=
  JObj [(g_kty, JStr g_EC); (g_crv, JStr g_P256); (g_x, JStr (enc (g_be 32 c_ex_gx))); (g_y, JStr (enc (g_be 32 c_ex_gy)));
        (g_use, JStr [115; 105; 103])].

Example c_ex_ec_premises :
  lookup g_kty c_ex_ec = Some (JStr g_EC) /\ lookup g_crv c_ex_ec = Some (JStr (g_curve_name GC256)) /\
  c_req_fixed (g_curve_len GC256) (lookup g_x c_ex_ec) = true /\ c_req_fixed (g_curve_len GC256) (lookup g_y c_ex_ec) = true /\
  c_opt_fixed (g_curve_len GC256) (lookup g_d c_ex_ec) = true /\
  c_num (lookup g_x c_ex_ec) = c_ex_gx /\ c_num (lookup g_y c_ex_ec) = c_ex_gy /\
  c_ex_gx < g_curve_p GC256 /\ c_ex_gy < g_curve_p GC256 /\
  (* and it IS a point of the curve, by the reference arithmetic of Crypto/Ec.v *)
  valid_public BigNum.zops p256 (Z.of_N c_ex_gx) (Z.of_N c_ex_gy) = true.
Proof. vm_compute. repeat split. Qed.

Example c_ex_ec_conv :
  conv_drv c_ex_ec =
  Some (JObj [(g_kty, JStr g_EC); (g_crv, JStr g_P256); (g_x, JStr (enc (g_be 32 c_ex_gx))); (g_y, JStr (enc (g_be 32 c_ex_gy)))]).
Proof. vm_compute. reflexivity. Qed.

(* (c) a 1-octet x ("BQ" = 05) comes back on 32 octets; x + p comes back as x *)
Example c_ex_ec_short_and_reduced :
  let y := JStr (enc (g_be 32 c_ex_gy)) in
  let out := Some (JObj [(g_kty, JStr g_EC); (g_crv, JStr g_P256); (g_x, JStr (enc (g_be 32 5))); (g_y, y)]) in
  conv_drv (JObj [(g_kty, JStr g_EC); (g_crv, JStr g_P256); (g_x, JStr [66; 81]); (g_y, y)]) = out /\
  conv_drv (JObj [(g_kty, JStr g_EC); (g_crv, JStr g_P256); (g_x, JStr (enc (g_be 32 (5 + g_curve_p GC256)))); (g_y, y)]) = out.
Proof. vm_compute. split; reflexivity. Qed.

(* oct: leading zero octets are kept ("AAEC" = 00 01 02); the empty key is refused *)
Example c_ex_oct :
  conv_drv (JObj [(g_kty, JStr g_oct); (g_k, JStr [65; 65; 69; 67]); (g_alg, JStr [72; 83; 50; 53; 54])])
  = Some (JObj [(g_kty, JStr g_oct); (g_k, JStr [65; 65; 69; 67])]) /\
  conv_drv (JObj [(g_kty, JStr g_oct); (g_k, JStr [])]) = None /\
  conv_drv (JObj [(g_kty, JStr [79; 67; 84]); (g_k, JStr [65; 65; 69; 67])]) = None.
Proof. vm_compute. repeat split. Qed.

(* ------------------------------------------------------------------------------------------------ *)
(* what the boolean premises say *)

Lemma c_min_member_iff v :
  c_min_member v = true <-> exists s c r, v = JStr s /\ dec s = Some (c :: r) /\ c <> 0.
Proof.
  split.
  - destruct v as [| | | |s| |]; try discriminate. cbn [c_min_member].
    destruct (dec s) as [[|c r]|] eqn:D; try discriminate. intro H. apply Bool.negb_true_iff, N.eqb_neq in H.
    exists s, c, r. repeat split; assumption.
  - intros (s & c & r & -> & D & Hc). cbn [c_min_member]. rewrite D. apply Bool.negb_true_iff, N.eqb_neq. exact Hc.
Qed.

Lemma c_fixed_member_iff len v :
  c_fixed_member len v = true <-> exists s b, v = JStr s /\ dec s = Some b /\ blen b = len /\ g_os2ip b <> 0.
Proof.
  split.
  - destruct v as [| | | |s| |]; try discriminate. cbn [c_fixed_member].
    destruct (dec s) as [b|] eqn:D; [|discriminate]. intro H. apply andb_true_iff in H. destruct H as [Hl Hz].
    apply N.eqb_eq in Hl. apply Bool.negb_true_iff, N.eqb_neq in Hz. exists s, b. repeat split; assumption.
  - intros (s & b & -> & D & Hl & Hz). cbn [c_fixed_member]. rewrite D. apply andb_true_iff. split.
    + apply N.eqb_eq. exact Hl.
    + apply Bool.negb_true_iff, N.eqb_neq. exact Hz.
Qed.

(* ------------------------------------------------------------------------------------------------ *)
(* the clause, per key type: (a) and (b) together, for the EVP_PKEY route and the type-specific route *)

Section ConvClause.
  Variable valid : g_curve -> N -> N -> option N -> bool.

  Theorem conv_rsa_clause j :
    lookup g_kty j = Some (JStr g_RSA) -> c_rsa_canonical j = true ->
    exists j', conv valid j = Some j' /\ conv_typed valid j = Some j' /\
      lookup g_kty j' = lookup g_kty j /\
      (forall m, In m c_rsa_key_members -> lookup m j' = lookup m j) /\
      (forall m, m <> g_kty -> ~ In m c_rsa_key_members -> lookup m j' = None) /\
      thp_object j' = thp_object j /\ thp_object j <> None /\ jwk_eql j j' = true /\
      (forall h, jwk_thp j' h = jwk_thp j h).
  Proof.
    intros Lk Can. pose proof (c_req_s_lookup _ _ _ Lk) as K. change (cstr g_RSA) with g_RSA in K.
    destruct (conv_rsa_preserves_thp valid j Lk Can) as (j' & C & Ct & T).
    exists j'. split; [exact C|]. split; [exact Ct|].
    destruct (conv_route_rsa valid j K) as (R & _). rewrite R in C.
    destruct (conv_rsa_roundtrip j) as (j'' & C' & Kty & Mem & Oth); [rewrite K; discriminate|exact Can|].
    rewrite C in C'. inversion C'; subst j''. rewrite Lk. repeat split; try assumption; apply T.
  Qed.

  Theorem conv_ec_clause c j :
    lookup g_kty j = Some (JStr g_EC) -> lookup g_crv j = Some (JStr (g_curve_name c)) ->
    c_req_fixed (g_curve_len c) (lookup g_x j) = true -> c_req_fixed (g_curve_len c) (lookup g_y j) = true ->
    c_opt_fixed (g_curve_len c) (lookup g_d j) = true ->
    c_num (lookup g_x j) < g_curve_p c -> c_num (lookup g_y j) < g_curve_p c ->
    valid c (c_num (lookup g_x j)) (c_num (lookup g_y j)) (c_num_opt (lookup g_d j)) = true ->
    exists j', conv valid j = Some j' /\ conv_typed valid j = Some j' /\
      lookup g_kty j' = lookup g_kty j /\
      (forall m, In m c_ec_key_members -> lookup m j' = lookup m j) /\
      (forall m, m <> g_kty -> ~ In m c_ec_key_members -> lookup m j' = None) /\
      thp_object j' = thp_object j /\ thp_object j <> None /\ jwk_eql j j' = true /\
      (forall h, jwk_thp j' h = jwk_thp j h).
  Proof.
    intros Lk Lc Fx Fy Fd Px Py V. pose proof (c_req_s_lookup _ _ _ Lk) as K. change (cstr g_EC) with g_EC in K.
    destruct (conv_ec_preserves_thp valid c j Lk Lc Fx Fy Fd Px Py V) as (j' & C & Ct & T).
    exists j'. split; [exact C|]. split; [exact Ct|].
    destruct (conv_route_ec valid j K) as (R & _). rewrite R in C.
    destruct (conv_ec_roundtrip valid c j K Lc Fx Fy Fd Px Py V) as (j'' & C' & Kty & Mem & Oth).
    rewrite C in C'. inversion C'; subst j''. rewrite Lk. repeat split; try assumption; apply T.
  Qed.

  Theorem conv_oct_clause j s b :
    lookup g_kty j = Some (JStr g_oct) -> lookup g_k j = Some (JStr s) -> dec s = Some b -> b <> [] ->
    exists j', conv valid j = Some j' /\ j' = JObj [(g_kty, JStr g_oct); (g_k, JStr s)] /\
      lookup g_kty j' = lookup g_kty j /\ lookup g_k j' = lookup g_k j /\
      thp_object j' = thp_object j /\ thp_object j <> None /\ jwk_eql j j' = true /\
      (forall h, jwk_thp j' h = jwk_thp j h).
  Proof.
    intros Lk L D NE. pose proof (c_req_s_lookup _ _ _ Lk) as K. change (cstr g_oct) with g_oct in K.
    destruct (conv_oct_preserves_thp valid j s b Lk L D NE) as (j' & C & Lk' & T).
    exists j'. split; [exact C|]. destruct (conv_route_oct valid j K) as (R & _). rewrite R in C.
    rewrite (conv_oct_roundtrip j s b L D NE) in C. inversion C; subst j'.
    split; [reflexivity|]. split; [rewrite Lk; reflexivity|]. split; [exact Lk'|]. exact T.
  Qed.
End ConvClause.

(* ------------------------------------------------------------------------------------------------ *)
(* the readings of the clause that are FALSE of the C code, each with its witness *)

(* SEC 1 3.2.2.1 / 3.2.1 by the reference arithmetic of Crypto/Ec.v: a stand-in for EC_KEY_check_key that is
   not "always true" *)
Definition c_valid_sec1 (c : g_curve) (x y : N) (d : option N) : bool :=
  valid_public BigNum.zops (g_curve_params c) (Z.of_N x) (Z.of_N y)
  && match d with
     | None => true
     | Some d => valid_private BigNum.zops (g_curve_params c) (Z.of_N d) (Z.of_N x) (Z.of_N y)
     end.

(* (5, y0) is a point of P-256 *)
Definition c_ex_y0 : N := 0x459243b9aa581806fe913bce99817ade11ca503c64d9a3c533415c083248fbcc.

(* "x, y of exactly the field length and a key OpenSSL accepts => every member comes back equal": FALSE --
   x = 5 + p has 32 octets, the key is accepted (the point checked is (5, y0)), and x comes back as 5 *)
Theorem conv_ec_field_length_suffices_refuted :
  exists j j' s b,
    lookup g_kty j = Some (JStr g_EC) /\ lookup g_crv j = Some (JStr g_P256) /\
    lookup g_x j = Some (JStr s) /\ dec s = Some b /\ blen b = g_curve_len GC256 /\
    c_req_fixed (g_curve_len GC256) (lookup g_y j) = true /\
    conv c_valid_sec1 j = Some j' /\
    lookup g_x j' <> lookup g_x j /\ c_num (lookup g_x j') <> c_num (lookup g_x j) /\
    jwk_eql j j' = false.
Proof.
  exists (JObj [(g_kty, JStr g_EC); (g_crv, JStr g_P256); (g_x, JStr (enc (g_be 32 (5 + g_curve_p GC256))));
                (g_y, JStr (enc (g_be 32 c_ex_y0)))]).
  exists (JObj [(g_kty, JStr g_EC); (g_crv, JStr g_P256); (g_x, JStr (enc (g_be 32 5))); (g_y, JStr (enc (g_be 32 c_ex_y0)))]).
  exists (enc (g_be 32 (5 + g_curve_p GC256))), (g_be 32 (5 + g_curve_p GC256)).
  vm_compute. repeat split; discriminate.
Qed.

(* "oct: ANY octet string round-trips": FALSE for the empty one *)
Theorem conv_oct_any_octets_refuted :
  exists j s b, lookup g_kty j = Some (JStr g_oct) /\ lookup g_k j = Some (JStr s) /\ dec s = Some b /\
    forall valid, conv valid j = None.
Proof.
  exists (JObj [(g_kty, JStr g_oct); (g_k, JStr [])]), [], []. repeat split.
Qed.

(* "a success never drops a key member", read with jose's OWN list of private RSA members (t_prv): FALSE -- "oth" *)
Theorem conv_keeps_every_private_member_refuted :
  exists j j' t m, In t jwk_types /\ t_kty t = g_RSA /\ In m (t_prv t) /\
    lookup m j <> None /\ (forall valid, conv valid j = Some j') /\ lookup m j' = None.
Proof.
  exists (JObj [(g_kty, JStr g_RSA); (g_n, JStr [68; 75; 69]); (g_e, JStr [69; 81]); (g_oth, JArr [])]), c_ex_rsa_lz_out.
  exists {| t_kty := g_RSA; t_req := [g_e; g_n]; t_pub := [g_e; g_n]; t_prv := [g_p; g_d; g_q; g_dp; g_dq; g_qi; g_oth] |}, g_oth.
  split; [right; left; reflexivity|]. split; [reflexivity|]. split; [cbn; tauto|].
  split; [discriminate|]. split; [intro valid; reflexivity|reflexivity].
Qed.

(* "thumbprint and equality are preserved" without the canonical-form premise: FALSE -- a leading zero octet *)
Theorem conv_preserves_thp_unconditionally_refuted :
  exists j j', (forall valid, conv valid j = Some j') /\ thp_object j <> None /\
    thp_object j' <> thp_object j /\ jwk_eql j j' = false.
Proof.
  exists c_ex_rsa_lz, c_ex_rsa_lz_out. split; [intro valid; reflexivity|]. vm_compute. repeat split; discriminate.
Qed.
