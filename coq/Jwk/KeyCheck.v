(* C10: the key-material acceptance tests the algorithms perform before any cryptography,
   collected per (operation, algorithm). *)
From JoseV Require Export Jose.EncAlgs Jose.SigAlgs.
From JoseV Require Import Gen.Consts.
Local Open Scope N_scope.

Inductive kop := KSignOp | KVerifyOp | KEncOp | KDecOp | KWrapOp | KUnwrapOp.

(* symmetric algorithms (the public-key ones are in Jwk/KeyCheckPk.v, over BigZ) *)
Definition keyok_sym (op : kop) (alg : bytes) (key : json) : option bool :=
  match op with
  | KSignOp | KVerifyOp => if mem alg hs_names then Some (sig_key_ok alg key) else None
  | KEncOp | KDecOp => if mem alg encr_names then Some (enc_key_ok alg key) else None
  | KWrapOp | KUnwrapOp =>
      if mem alg kw_names || mem alg gcmkw_names then
        Some (match key_exact key (kw_keylen alg) with Some _ => true | None => false end)
      else if mem alg pbes2_names then
        Some (match pbes2_password key with Some _ => true | None => false end)
      else None
  end.
