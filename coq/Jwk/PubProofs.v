(* C06: public export removes every private member, keeps everything else. *)
From JoseV Require Import Jwk.Pub Jwk.Thp Gen.Tables Jwk.PrmProofs.
Local Open Scope N_scope.

(* private / symmetric members per RFC 7518 section 6 (written from the RFC, not from the code) *)
Definition n_k : bytes := [107].
Definition n_d : bytes := [100].
Definition n_p : bytes := [112].
Definition n_q : bytes := [113].
Definition n_dp : bytes := [100; 112].
Definition n_dq : bytes := [100; 113].
Definition n_qi : bytes := [113; 105].
Definition n_oth : bytes := [111; 116; 104].
Definition t_oct : bytes := [111; 99; 116].
Definition t_RSA : bytes := [82; 83; 65].
Definition t_EC : bytes := [69; 67].

Definition rfc_private (kty : bytes) : list bytes :=
  if bytes_eqb kty t_oct then [n_k]
  else if bytes_eqb kty t_RSA then [n_d; n_p; n_q; n_dp; n_dq; n_qi; n_oth]
  else if bytes_eqb kty t_EC then [n_d]
  else [].

Definition incl_b (a b : list bytes) : bool := forallb (fun x => existsb (bytes_eqb x) b) a.

(* the generated private-member lists cover RFC 7518's, for every registered type; key_ops is never among them *)
Lemma tables_cover_rfc :
  forallb (fun t => incl_b (rfc_private (t_kty t)) (t_prv t) && negb (existsb (bytes_eqb s_key_ops) (t_prv t))
                    && negb (existsb (bytes_eqb s_kty) (t_prv t))) jwk_types = true.
Proof. vm_compute. reflexivity. Qed.

Lemma registered_types : map t_kty jwk_types = [t_EC; t_RSA; t_oct].
Proof. reflexivity. Qed.

(* ---- del_all -------------------------------------------------------------------------- *)

Lemma del_all_nodup ks : forall m, NoDup (akeys m) -> NoDup (akeys (del_all ks m)).
Proof.
  induction ks as [|k r IH]; intros m H; cbn [del_all]; [exact H|].
  apply IH. destruct (alookup k m); [apply adel_nodup; exact H|exact H].
Qed.

Lemma del_all_other ks : forall m k, ~ In k ks -> alookup k (del_all ks m) = alookup k m.
Proof.
  induction ks as [|k0 r IH]; intros m k H; cbn [del_all]; [reflexivity|].
  rewrite IH by (intro F; apply H; right; exact F).
  destruct (alookup k0 m); [|reflexivity]. apply alookup_adel_other. intro; subst. apply H. left. reflexivity.
Qed.

Lemma del_all_in ks : forall m k, NoDup (akeys m) -> In k ks -> alookup k (del_all ks m) = None.
Proof.
  induction ks as [|k0 r IH]; intros m k ND H; [destruct H|]. cbn [del_all].
  destruct (in_dec bytes_eq_dec k r) as [i|n].
  - apply IH; [|exact i]. destruct (alookup k0 m); [apply adel_nodup; exact ND|exact ND].
  - destruct H as [H|H]; [subst k0|contradiction].
    rewrite del_all_other by exact n.
    destruct (alookup k m) eqn:E; [apply alookup_adel_same; exact ND|exact E].
Qed.

(* ---- one key ---------------------------------------------------------------------------- *)

Definition is_removed (rm : list bytes) (v : json) : bool := negb (keep_op rm v).

Theorem clean_spec m j' :
  NoDup (akeys m) -> jwk_clean (JObj m) = Some j' ->
  exists kty t m', kty_of (JObj m) = Some kty /\ find_type_ci kty = Some t /\ j' = JObj m' /\
    NoDup (akeys m') /\
    (* every private member of the type is gone *)
    (forall p, In p (t_prv t) -> alookup p m' = None) /\
    (* everything else is unchanged *)
    (forall k, ~ In k (t_prv t) -> k <> s_key_ops -> alookup k m' = alookup k m) /\
    (* key_ops loses exactly the private (for symmetric keys: all) operations *)
    alookup s_key_ops m' =
      match alookup s_key_ops m with
      | Some (JArr l) => Some (JArr (filter (keep_op (removed_ops (match t_pub t with [] => true | _ => false end))) l))
      | x => x
      end.
Proof.
  intros ND H. unfold jwk_clean in H.
  destruct (kty_of (JObj m)) as [kty|] eqn:K; [|discriminate].
  destruct (find_type_ci kty) as [t|] eqn:T; [|discriminate].
  pose proof tables_cover_rfc as Cov. rewrite forallb_forall in Cov.
  assert (Tin : In t jwk_types) by (unfold find_type_ci in T; apply find_some in T; tauto).
  specialize (Cov t Tin). apply andb_true_iff in Cov. destruct Cov as [Cov NKty].
  apply andb_true_iff in Cov. destruct Cov as [_ NKo].
  assert (Hko : ~ In s_key_ops (t_prv t)).
  { intro F. apply Bool.negb_true_iff in NKo. assert (existsb (bytes_eqb s_key_ops) (t_prv t) = true).
    { apply existsb_exists. exists s_key_ops. split; [exact F|apply bytes_eqb_refl]. } congruence. }
  set (m1 := del_all (t_prv t) m) in *.
  assert (ND1 : NoDup (akeys m1)) by (apply del_all_nodup; exact ND).
  assert (Ko1 : alookup s_key_ops m1 = alookup s_key_ops m) by (apply del_all_other; exact Hko).
  exists kty, t. inversion H; subst j'. clear H. eexists. split; [reflexivity|]. split; [exact T|]. split; [reflexivity|].
  rewrite Ko1. destruct (alookup s_key_ops m) as [ko|] eqn:Eko.
  - destruct ko as [| | | | |l|];
      try (split; [exact ND1|]; split; [intros p Hp; apply del_all_in; assumption|];
           split; [intros k Hk _; apply del_all_other; exact Hk|rewrite Ko1; reflexivity]).
    split; [apply aset_nodup; exact ND1|]. split.
    + intros p Hp. rewrite alookup_aset_other by (intro; subst; contradiction). apply del_all_in; assumption.
    + split.
      * intros k Hk Hne. rewrite alookup_aset_other by congruence. apply del_all_other. exact Hk.
      * apply alookup_aset_same.
  - split; [exact ND1|]. split; [intros p Hp; apply del_all_in; assumption|].
    split; [intros k Hk _; apply del_all_other; exact Hk|rewrite Ko1; reflexivity].
Qed.

(* the RFC's private members in particular *)
Corollary clean_no_rfc_private m j' :
  NoDup (akeys m) -> jwk_clean (JObj m) = Some j' ->
  exists t m', j' = JObj m' /\ In t jwk_types /\ forall p, In p (rfc_private (t_kty t)) -> alookup p m' = None.
Proof.
  intros ND H. destruct (clean_spec m j' ND H) as (kty & t & m' & K & T & -> & _ & Hp & _).
  exists t, m'. split; [reflexivity|].
  assert (Tin : In t jwk_types) by (unfold find_type_ci in T; apply find_some in T; tauto).
  split; [exact Tin|]. intros p Hin. apply Hp.
  pose proof tables_cover_rfc as Cov. rewrite forallb_forall in Cov. specialize (Cov t Tin).
  apply andb_true_iff in Cov. destruct Cov as [Cov _]. apply andb_true_iff in Cov. destruct Cov as [Cov _].
  unfold incl_b in Cov. rewrite forallb_forall in Cov. specialize (Cov p Hin).
  apply existsb_exists in Cov. destruct Cov as (x & Hx & E). apply bytes_eqb_eq in E. subst. exact Hx.
Qed.

(* what remains in key_ops names no removed operation *)
Lemma filter_keep_none rm l v : In v (filter (keep_op rm) l) -> keep_op rm v = true.
Proof. intro H. apply filter_In in H. tauto. Qed.

Lemma removed_ops_content :
  incl_b [op_sign; op_decrypt; op_unwrapKey] (removed_ops false) = true /\
  incl_b [op_sign; op_verify; op_encrypt; op_decrypt; op_wrapKey; op_unwrapKey; op_deriveKey; op_deriveBits] (removed_ops true) = true.
Proof. split; vm_compute; reflexivity. Qed.

(* exporting again changes nothing *)
Lemma filter_idem {A} (f : A -> bool) l : filter f (filter f l) = filter f l.
Proof.
  induction l as [|x l IH]; cbn [filter]; [reflexivity|].
  destruct (f x) eqn:E; cbn [filter]; [rewrite E, IH; reflexivity|exact IH].
Qed.

Lemma del_all_absent ks : forall m, (forall k, In k ks -> alookup k m = None) -> del_all ks m = m.
Proof.
  induction ks as [|k r IH]; intros m H; cbn [del_all]; [reflexivity|].
  rewrite (H k (or_introl eq_refl)). apply IH. intros k' Hk. apply H. right. exact Hk.
Qed.

Lemma aset_same_value {A} k (v : A) m : alookup k m = Some v -> aset k v m = m.
Proof.
  induction m as [|[k' v'] m IH]; cbn [alookup aset]; intro H; [discriminate|].
  destruct (bytes_eqb k k') eqn:E; [inversion H; reflexivity|]. rewrite IH by exact H. reflexivity.
Qed.

Theorem clean_idempotent m j' :
  NoDup (akeys m) -> jwk_clean (JObj m) = Some j' -> jwk_clean j' = Some j'.
Proof.
  intros ND H. destruct (clean_spec m j' ND H) as (kty & t & m' & K & T & -> & ND' & Hp & Hf & Hko).
  pose proof tables_cover_rfc as Cov. rewrite forallb_forall in Cov.
  assert (Tin : In t jwk_types) by (unfold find_type_ci in T; apply find_some in T; tauto).
  specialize (Cov t Tin). apply andb_true_iff in Cov. destruct Cov as [Cov NKty].
  assert (Hkty : ~ In s_kty (t_prv t)).
  { intro F. apply Bool.negb_true_iff in NKty. assert (existsb (bytes_eqb s_kty) (t_prv t) = true).
    { apply existsb_exists. exists s_kty. split; [exact F|apply bytes_eqb_refl]. } congruence. }
  assert (K' : kty_of (JObj m') = Some kty).
  { unfold kty_of in *. rewrite Hf; [exact K|exact Hkty|discriminate]. }
  unfold jwk_clean. rewrite K', T. rewrite (del_all_absent _ _ Hp). rewrite Hko.
  destruct (alookup s_key_ops m) as [ko|] eqn:E; [|reflexivity].
  destruct ko; try reflexivity.
  rewrite filter_idem. rewrite aset_same_value by exact Hko. reflexivity.
Qed.

(* ---- containers --------------------------------------------------------------------------- *)

Theorem clean_all_spec l l' :
  clean_all l = Some l' -> length l' = length l /\
  forall i k, nth_error l i = Some k -> exists k', nth_error l' i = Some k' /\ jwk_clean k = Some k'.
Proof.
  revert l'. induction l as [|k r IH]; intros l' H; cbn [clean_all] in H.
  - inversion H; subst. split; [reflexivity|]. intros [|i] k0 F; discriminate.
  - destruct (jwk_clean k) as [k'|] eqn:E; [|discriminate].
    destruct (clean_all r) as [r'|] eqn:Er; [|discriminate]. inversion H; subst.
    destruct (IH r' eq_refl) as [L Hn]. split; [cbn [length]; rewrite L; reflexivity|].
    intros [|i] k0 F; cbn [nth_error] in *.
    + inversion F; subst. exists k'. auto.
    + apply Hn. exact F.
Qed.

Theorem pub_array l j' :
  jwk_pub (JArr l) = Some j' -> exists l', j' = JArr l' /\ clean_all l = Some l'.
Proof. cbn [jwk_pub]. destruct (clean_all l) as [l'|]; [|discriminate]. intro H; inversion H; subst. eauto. Qed.

Theorem pub_set m l j' :
  alookup s_keys m = Some (JArr l) -> jwk_pub (JObj m) = Some j' ->
  exists l', j' = JObj (aset s_keys (JArr l') m) /\ clean_all l = Some l'.
Proof. intros K. cbn [jwk_pub]. rewrite K. destruct (clean_all l) as [l'|]; [|discriminate]. intro H; inversion H; subst. eauto. Qed.

Theorem pub_single m j' :
  (forall l, alookup s_keys m <> Some (JArr l)) -> jwk_pub (JObj m) = Some j' -> jwk_clean (JObj m) = Some j'.
Proof.
  intros K. cbn [jwk_pub]. destruct (alookup s_keys m) as [v|]; [|auto].
  destruct v; auto. exfalso. eapply K. reflexivity.
Qed.

(* ---- the thumbprint input of asymmetric keys is unchanged ---------------------------------- *)

Lemma req_disjoint_prv_asym :
  forallb (fun t => match t_pub t with
                    | [] => true
                    | _ => forallb (fun r => negb (existsb (bytes_eqb r) (t_prv t)) && negb (bytes_eqb r s_key_ops)) (t_req t)
                    end) jwk_types = true.
Proof. vm_compute. reflexivity. Qed.

Theorem clean_keeps_thp_input m j' :
  NoDup (akeys m) -> jwk_clean (JObj m) = Some j' ->
  (exists kty t, kty_of (JObj m) = Some kty /\ find_type_ci kty = Some t /\ t_pub t <> []) ->
  thp_object j' = thp_object (JObj m).
Proof.
  intros ND H (kty0 & t0 & K0 & T0 & Asym).
  destruct (clean_spec m j' ND H) as (kty & t & m' & K & T & -> & ND' & Hp & Hf & Hko).
  rewrite K in K0. inversion K0; subst kty0. rewrite T in T0. inversion T0; subst t0.
  pose proof tables_cover_rfc as Cov. rewrite forallb_forall in Cov.
  assert (Tin : In t jwk_types) by (unfold find_type_ci in T; apply find_some in T; tauto).
  specialize (Cov t Tin). apply andb_true_iff in Cov. destruct Cov as [Cov NKty].
  assert (Hkty : ~ In s_kty (t_prv t)).
  { intro F. apply Bool.negb_true_iff in NKty. assert (existsb (bytes_eqb s_kty) (t_prv t) = true).
    { apply existsb_exists. exists s_kty. split; [exact F|apply bytes_eqb_refl]. } congruence. }
  assert (Lkty : alookup s_kty m' = alookup s_kty m) by (apply Hf; [exact Hkty|discriminate]).
  assert (K' : kty_of (JObj m') = Some kty) by (unfold kty_of in *; rewrite Lkty; exact K).
  pose proof req_disjoint_prv_asym as Dj. rewrite forallb_forall in Dj. specialize (Dj t Tin).
  destruct (t_pub t) as [|p0 pr] eqn:Pub; [contradiction|]. rewrite forallb_forall in Dj.
  assert (Lreq : forall r, In r (t_req t) -> alookup r m' = alookup r m).
  { intros r Hr. specialize (Dj r Hr). apply andb_true_iff in Dj. destruct Dj as [D1 D2].
    apply Hf.
    - intro F. apply Bool.negb_true_iff in D1. assert (existsb (bytes_eqb r) (t_prv t) = true).
      { apply existsb_exists. exists r. split; [exact F|apply bytes_eqb_refl]. } congruence.
    - intro; subst. rewrite bytes_eqb_refl in D2. discriminate. }
  unfold thp_object. rewrite K', K, T. cbn [lookup]. rewrite Lkty.
  destruct (alookup s_kty m) as [ktyv|]; [|reflexivity].
  generalize [(s_kty, ktyv)]. clear - Lreq. induction (t_req t) as [|r rest IH]; intro acc; [reflexivity|].
  rewrite (Lreq r (or_introl eq_refl)). destruct (alookup r m); [|reflexivity].
  apply IH. intros r' Hr'. apply Lreq. right. exact Hr'.
Qed.
