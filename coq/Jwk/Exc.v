(* lib/jwk.c jose_jwk_exc: the decision around the exchange primitive. *)
From JoseV Require Export Base.Json Jwk.Prm.
Local Open Scope N_scope.

Record exch_alg := {
  xa_name : bytes;
  xa_prm : bytes;
  xa_sug : json -> json -> option bytes;      (* exch.sug(prv, pub) *)
  xa_exc : json -> json -> option json        (* exch.exc(prv, pub) *)
}.

Definition x_kty : bytes := [107; 116; 121].
Definition x_alg : bytes := [97; 108; 103].

(* json_unpack "{s:s,s?s}" kty alg : None = error *)
Definition unpack_kty_alg (j : json) : option (bytes * option bytes) :=
  match j with
  | JObj m =>
      match alookup x_kty m with
      | Some (JStr t) =>
          match alookup x_alg m with
          | None => Some (cstr t, None)
          | Some (JStr a) => Some (cstr t, Some (cstr a))
          | Some _ => None
          end
      | _ => None
      end
  | _ => None
  end.

Fixpoint first_sug (xalgs : list exch_alg) (prv pub : json) : option bytes :=
  match xalgs with
  | [] => None
  | a :: r => match xa_sug a prv pub with Some n => Some n | None => first_sug r prv pub end
  end.

Definition jwk_exc (xalgs : list exch_alg) (prv pub : json) : option json :=
  match unpack_kty_alg prv, unpack_kty_alg pub with
  | Some (ktya, alga), Some (ktyb, algb) =>
      if negb (bytes_eqb ktya ktyb) then None
      else
        let clash := match alga, algb with Some a, Some b => negb (bytes_eqb a b) | _, _ => false end in
        if clash then None
        else
          let name := match alga, algb with
                      | Some a, _ => Some a
                      | None, Some b => Some b
                      | None, None => first_sug xalgs prv pub
                      end in
          match name with
          | None => None
          | Some n =>
              match find (fun a => bytes_eqb (xa_name a) n) xalgs with
              | None => None
              | Some a =>
                  if negb (jwk_prm prv false (Some (xa_prm a))) then None
                  else if negb (jwk_prm pub false (Some (xa_prm a))) then None
                  else xa_exc a prv pub
              end
          end
  | _, _ => None
  end.
