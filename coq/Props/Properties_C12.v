(* C12 -- thumbprints follow RFC 7638 and agree with key equality.
   Only statements, each closed by [exact] of a lemma proved elsewhere. *)
From JoseV Require Import Jwk.Pub Jwk.Thp Jwk.ThpProofs Jwk.PubProofs Base.JsonEq Base.JsonDump Gen.Tables.
Local Open Scope N_scope.

(* the generated required-member lists are RFC 7638's: oct k; RSA e n; EC crv x y *)
Theorem C12_required_is_rfc7638 :
  forallb (fun t => lbeq (t_req t) (rfc7638_required (t_kty t))
                    && negb (existsb (bytes_eqb s_kty) (t_req t))) jwk_types = true.
Proof. exact required_is_rfc7638. Qed.
Print Assumptions C12_required_is_rfc7638.

(* the digest input is the compact, key-sorted dump of the object holding exactly kty and the
   required members with the key's own values; nothing else *)
Theorem C12_input : forall jwk o,
  thp_object jwk = Some o ->
  exists kty t m, kty_of jwk = Some kty /\ find_type_ci kty = Some t /\ o = JObj m /\
    alookup s_kty m = lookup s_kty jwk /\
    (forall r, In r (t_req t) -> alookup r m = lookup r jwk /\ lookup r jwk <> None) /\
    (forall k, k <> s_kty -> ~ In k (t_req t) -> alookup k m = None).
Proof. exact thp_object_spec. Qed.
Print Assumptions C12_input.

Theorem C12_ignores_others : forall j j',
  (forall k, lookup k j' = lookup k j) \/
  (kty_of j' = kty_of j /\ lookup s_kty j' = lookup s_kty j /\
   forall t, In t jwk_types -> forall r, In r (t_req t) -> lookup r j' = lookup r j) ->
  thp_object j' = thp_object j.
Proof. exact thp_ignores_others. Qed.
Print Assumptions C12_ignores_others.

(* same for a private key and its public half (asymmetric types) *)
Theorem C12_pub_same : forall m j',
  NoDup (akeys m) -> jwk_clean (JObj m) = Some j' ->
  (exists kty t, kty_of (JObj m) = Some kty /\ find_type_ci kty = Some t /\ t_pub t <> []) ->
  thp_object j' = thp_object (JObj m).
Proof. exact clean_keeps_thp_input. Qed.
Print Assumptions C12_pub_same.

(* string form = base64url of the buffer form; the size query is the digest length *)
Theorem C12_forms_agree : forall jwk h hn l,
  hash_of_name hn = Some h -> hash_len h <= l -> l <> 0 ->
  jwk_thp jwk hn = match jwk_str jwk with Some str => jose_b64_enc (hash h str) | None => None end /\
  jwk_thp_buf jwk hn (Some l) = match jwk_str jwk with Some str => (Some (hash_len h), hash h str) | None => (None, []) end /\
  fst (jwk_thp_buf jwk hn None) = Some (hash_len h).
Proof. exact thp_forms_agree. Qed.
Print Assumptions C12_forms_agree.

Theorem C12_buf_too_small : forall jwk h hn l,
  hash_of_name hn = Some h -> l <> 0 -> l < hash_len h -> jwk_thp_buf jwk hn (Some l) = (None, []).
Proof. exact thp_buf_too_small. Qed.
Print Assumptions C12_buf_too_small.

Theorem C12_hash_names :
  map (fun n => match hash_of_name n with Some h => Some (hash_len h) | None => None end)
      [[83; 49]; [83; 50; 50; 52]; [83; 50; 53; 54]; [83; 51; 56; 52]; [83; 53; 49; 50]; [83; 50]]
  = [Some 20; Some 28; Some 32; Some 48; Some 64; None].
Proof. exact hash_names. Qed.
Print Assumptions C12_hash_names.

(* equality: exactly "type known, kty and all required members present and equal in both" *)
Theorem C12_eql_spec : forall a b,
  jwk_eql a b = true <->
  exists kty t ka kb, kty_of a = Some kty /\ find_type_ci kty = Some t /\
    lookup s_kty a = Some ka /\ lookup s_kty b = Some kb /\ jequal ka kb = true /\
    forall r, In r (t_req t) -> exists x y, lookup r a = Some x /\ lookup r b = Some y /\ jequal x y = true.
Proof. exact eql_spec. Qed.
Print Assumptions C12_eql_spec.

(* an equivalence relation on keys that have a thumbprint *)
Theorem C12_eql_refl : forall a, wfj a -> thp_object a <> None -> jwk_eql a a = true.
Proof. exact eql_refl. Qed.
Print Assumptions C12_eql_refl.
Theorem C12_eql_sym : forall a b, wfj a -> wfj b -> jwk_eql a b = true -> jwk_eql b a = true.
Proof. exact eql_sym. Qed.
Print Assumptions C12_eql_sym.
Theorem C12_eql_trans : forall a b c, wfj a -> wfj b -> wfj c -> jwk_eql a b = true -> jwk_eql b c = true -> jwk_eql a c = true.
Proof. exact eql_trans. Qed.
Print Assumptions C12_eql_trans.

(* no thumbprint (missing member, unknown type): equals nothing *)
Theorem C12_none_left : forall a b, thp_object a = None -> jwk_eql a b = false.
Proof. exact eql_none_left. Qed.
Print Assumptions C12_none_left.
Theorem C12_none_right : forall a b, wfj a -> wfj b -> thp_object b = None -> jwk_eql a b = false.
Proof. exact eql_none_right. Qed.
Print Assumptions C12_none_right.

(* json_equal itself is an equivalence on values without duplicate member names *)
Theorem C12_json_equal_equiv :
  (forall j, wfj j -> jequal j j = true) /\
  (forall a b, wfj a -> wfj b -> jequal a b = true -> jequal b a = true) /\
  (forall a b c, wfj a -> wfj b -> wfj c -> jequal a b = true -> jequal b c = true -> jequal a c = true).
Proof. exact (conj jequal_refl (conj jequal_sym jequal_trans)). Qed.
Print Assumptions C12_json_equal_equiv.

(* RFC 7638 section 3.1 example key: the input text *)
Example C12_ex :
  jwk_str (JObj [([107; 116; 121], JStr [82; 83; 65]); ([110], JStr [65; 81]); ([101], JStr [65; 81; 65; 66]);
                 ([97; 108; 103], JStr [82; 83; 50; 53; 54]); ([107; 105; 100], JStr [49])])
  = Some [123; 34; 101; 34; 58; 34; 65; 81; 65; 66; 34; 44; 34; 107; 116; 121; 34; 58; 34; 82; 83; 65; 34; 44; 34; 110; 34; 58; 34; 65; 81; 34; 125].
Proof. vm_compute. reflexivity. Qed.
