(* C12 -- thumbprints follow RFC 7638 and agree with key equality.
   Only statements, each closed by [exact] of a lemma proved elsewhere. *)
From JoseV Require Import Jwk.Pub Jwk.Thp Jwk.ThpProofs Jwk.PubProofs Base.JsonEq Base.JsonDump Gen.Tables.
From JoseV Require Import Codec.B64Spec Codec.B64Json Jwk.Gen Jwk.Conv Jwk.ConvProofs.
Local Open Scope N_scope.

(* the generated required-member lists are RFC 7638's: oct k; RSA e n; EC crv x y *)
Theorem C12_required_is_rfc7638 :
  forallb (fun t => lbeq (t_req t) (rfc7638_required (t_kty t))
                    && negb (existsb (bytes_eqb s_kty) (t_req t))) jwk_types = true.
Proof. exact required_is_rfc7638. Qed.
Print Assumptions C12_required_is_rfc7638.

(* the digest input is the compact, key-sorted dump of the object holding exactly kty and the
   required members with the key's own values; nothing else *)
Theorem C12_input : forall jwk o,
  thp_object jwk = Some o ->
  exists kty t m, kty_of jwk = Some kty /\ find_type_ci kty = Some t /\ o = JObj m /\
    alookup s_kty m = lookup s_kty jwk /\
    (forall r, In r (t_req t) -> alookup r m = lookup r jwk /\ lookup r jwk <> None) /\
    (forall k, k <> s_kty -> ~ In k (t_req t) -> alookup k m = None).
Proof. exact thp_object_spec. Qed.
Print Assumptions C12_input.

Theorem C12_ignores_others : forall j j',
  (forall k, lookup k j' = lookup k j) \/
  (kty_of j' = kty_of j /\ lookup s_kty j' = lookup s_kty j /\
   forall t, In t jwk_types -> forall r, In r (t_req t) -> lookup r j' = lookup r j) ->
  thp_object j' = thp_object j.
Proof. exact thp_ignores_others. Qed.
Print Assumptions C12_ignores_others.

(* same for a private key and its public half (asymmetric types) *)
Theorem C12_pub_same : forall m j',
  NoDup (akeys m) -> jwk_clean (JObj m) = Some j' ->
  (exists kty t, kty_of (JObj m) = Some kty /\ find_type_ci kty = Some t /\ t_pub t <> []) ->
  thp_object j' = thp_object (JObj m).
Proof. exact clean_keeps_thp_input. Qed.
Print Assumptions C12_pub_same.

(* string form = base64url of the buffer form; the size query is the digest length *)
Theorem C12_forms_agree : forall jwk h hn l,
  hash_of_name hn = Some h -> hash_len h <= l -> l <> 0 ->
  jwk_thp jwk hn = match jwk_str jwk with Some str => jose_b64_enc (hash h str) | None => None end /\
  jwk_thp_buf jwk hn (Some l) = match jwk_str jwk with Some str => (Some (hash_len h), hash h str) | None => (None, []) end /\
  fst (jwk_thp_buf jwk hn None) = Some (hash_len h).
Proof. exact thp_forms_agree. Qed.
Print Assumptions C12_forms_agree.

Theorem C12_buf_too_small : forall jwk h hn l,
  hash_of_name hn = Some h -> l <> 0 -> l < hash_len h -> jwk_thp_buf jwk hn (Some l) = (None, []).
Proof. exact thp_buf_too_small. Qed.
Print Assumptions C12_buf_too_small.

Theorem C12_hash_names :
  map (fun n => match hash_of_name n with Some h => Some (hash_len h) | None => None end)
      [[83; 49]; [83; 50; 50; 52]; [83; 50; 53; 54]; [83; 51; 56; 52]; [83; 53; 49; 50]; [83; 50]]
  = [Some 20; Some 28; Some 32; Some 48; Some 64; None].
Proof. exact hash_names. Qed.
Print Assumptions C12_hash_names.

(* equality: exactly "type known, kty and all required members present and equal in both" *)
Theorem C12_eql_spec : forall a b,
  jwk_eql a b = true <->
  exists kty t ka kb, kty_of a = Some kty /\ find_type_ci kty = Some t /\
    lookup s_kty a = Some ka /\ lookup s_kty b = Some kb /\ jequal ka kb = true /\
    forall r, In r (t_req t) -> exists x y, lookup r a = Some x /\ lookup r b = Some y /\ jequal x y = true.
Proof. exact eql_spec. Qed.
Print Assumptions C12_eql_spec.

(* an equivalence relation on keys that have a thumbprint *)
Theorem C12_eql_refl : forall a, wfj a -> thp_object a <> None -> jwk_eql a a = true.
Proof. exact eql_refl. Qed.
Print Assumptions C12_eql_refl.
Theorem C12_eql_sym : forall a b, wfj a -> wfj b -> jwk_eql a b = true -> jwk_eql b a = true.
Proof. exact eql_sym. Qed.
Print Assumptions C12_eql_sym.
Theorem C12_eql_trans : forall a b c, wfj a -> wfj b -> wfj c -> jwk_eql a b = true -> jwk_eql b c = true -> jwk_eql a c = true.
Proof. exact eql_trans. Qed.
Print Assumptions C12_eql_trans.

(* no thumbprint (missing member, unknown type): equals nothing *)
Theorem C12_none_left : forall a b, thp_object a = None -> jwk_eql a b = false.
Proof. exact eql_none_left. Qed.
Print Assumptions C12_none_left.
Theorem C12_none_right : forall a b, wfj a -> wfj b -> thp_object b = None -> jwk_eql a b = false.
Proof. exact eql_none_right. Qed.
Print Assumptions C12_none_right.

(* json_equal itself is an equivalence on values without duplicate member names *)
Theorem C12_json_equal_equiv :
  (forall j, wfj j -> jequal j j = true) /\
  (forall a b, wfj a -> wfj b -> jequal a b = true -> jequal b a = true) /\
  (forall a b c, wfj a -> wfj b -> wfj c -> jequal a b = true -> jequal b c = true -> jequal a c = true).
Proof. exact (conj jequal_refl (conj jequal_sym jequal_trans)). Qed.
Print Assumptions C12_json_equal_equiv.

(* RFC 7638 section 3.1 example key: the input text *)
Example C12_ex :
  jwk_str (JObj [([107; 116; 121], JStr [82; 83; 65]); ([110], JStr [65; 81]); ([101], JStr [65; 81; 65; 66]);
                 ([97; 108; 103], JStr [82; 83; 50; 53; 54]); ([107; 105; 100], JStr [49])])
  = Some [123; 34; 101; 34; 58; 34; 65; 81; 65; 66; 34; 44; 34; 107; 116; 121; 34; 58; 34; 82; 83; 65; 34; 44; 34; 110; 34; 58; 34; 65; 81; 34; 125].
Proof. vm_compute. reflexivity. Qed.

(* ================================================================================================== *)
(* Conversion to the OpenSSL key representation and back (jose/openssl.h; model: Jwk/Conv.v, which lists the
   OpenSSL behaviours it assumes; proofs: Jwk/ConvProofs.v).
   [conv valid] = jose_openssl_jwk_to_EVP_PKEY ; jose_openssl_jwk_from_EVP_PKEY,
   [conv_typed valid] = to_RSA ; from_RSA / to_EC_KEY ; from_EC_KEY, [valid] = EC_KEY_check_key (any function). *)

(* what the canonical-form premises below say *)
Theorem C12_conv_canonical_means :
  (forall v, c_min_member v = true <-> exists s c r, v = JStr s /\ dec s = Some (c :: r) /\ c <> 0) /\
  (forall len v, c_fixed_member len v = true <->
     exists s b, v = JStr s /\ dec s = Some b /\ blen b = len /\ g_os2ip b <> 0).
Proof. exact (conj c_min_member_iff c_fixed_member_iff). Qed.
Print Assumptions C12_conv_canonical_means.

(* the EVP_PKEY route dispatches on kty exactly; the type-specific routes agree with it *)
Theorem C12_conv_routes : forall valid j,
  (g_req_s g_kty j = Some g_RSA -> conv valid j = conv_rsa j /\ conv_typed valid j = conv_rsa j /\ conv_is_oct j = false) /\
  (g_req_s g_kty j = Some g_EC -> conv valid j = conv_ec valid j /\ conv_typed valid j = conv_ec valid j /\ conv_is_oct j = false) /\
  (g_req_s g_kty j = Some g_oct -> conv valid j = conv_oct j /\ conv_typed valid j = None /\ conv_is_oct j = true) /\
  (conv_is_oct j = false -> conv_typed valid j = conv valid j).
Proof.
  exact (fun valid j => conj (conv_route_rsa valid j) (conj (conv_route_ec valid j)
                          (conj (conv_route_oct valid j) (conv_typed_agrees valid j)))).
Qed.
Print Assumptions C12_conv_routes.

(* (a)+(b) RSA: n, e minimal-length, d p q dp dq qi minimal-length or absent, p,q both or neither, dp,dq,qi all or
   none: every one of the eight members comes back EQUAL, nothing else but kty does, thumbprint input, thumbprints
   (every hash) and jose_jwk_eql are preserved.  No size bound. *)
Theorem C12_conv_rsa_roundtrip : forall valid j,
  lookup g_kty j = Some (JStr g_RSA) -> c_rsa_canonical j = true ->
  exists j', conv valid j = Some j' /\ conv_typed valid j = Some j' /\
    lookup g_kty j' = lookup g_kty j /\
    (forall m, In m c_rsa_key_members -> lookup m j' = lookup m j) /\
    (forall m, m <> g_kty -> ~ In m c_rsa_key_members -> lookup m j' = None) /\
    thp_object j' = thp_object j /\ thp_object j <> None /\ jwk_eql j j' = true /\
    (forall h, jwk_thp j' h = jwk_thp j h).
Proof. exact conv_rsa_clause. Qed.
Print Assumptions C12_conv_rsa_roundtrip.

(* for thumbprint and equality alone, n and e minimal-length is enough *)
Theorem C12_conv_rsa_thp_needs_n_e : forall valid j j',
  lookup g_kty j = Some (JStr g_RSA) -> conv valid j = Some j' ->
  c_req_min (lookup g_n j) = true -> c_req_min (lookup g_e j) = true ->
  thp_object j' = thp_object j /\ thp_object j <> None /\ jwk_eql j j' = true /\
  (forall h, jwk_thp j' h = jwk_thp j h).
Proof. exact conv_rsa_preserves_thp_ne. Qed.
Print Assumptions C12_conv_rsa_thp_needs_n_e.

(* (a)+(b) EC: crv one of the four names, x y (and d) of exactly the field length, non-zero, x y below the field
   prime, the key accepted by OpenSSL's check: crv, x, y, d all come back EQUAL, nothing else but kty does *)
Theorem C12_conv_ec_roundtrip : forall valid c j,
  lookup g_kty j = Some (JStr g_EC) -> lookup g_crv j = Some (JStr (g_curve_name c)) ->
  c_req_fixed (g_curve_len c) (lookup g_x j) = true -> c_req_fixed (g_curve_len c) (lookup g_y j) = true ->
  c_opt_fixed (g_curve_len c) (lookup g_d j) = true ->
  c_num (lookup g_x j) < g_curve_p c -> c_num (lookup g_y j) < g_curve_p c ->
  valid c (c_num (lookup g_x j)) (c_num (lookup g_y j)) (c_num_opt (lookup g_d j)) = true ->
  exists j', conv valid j = Some j' /\ conv_typed valid j = Some j' /\
    lookup g_kty j' = lookup g_kty j /\
    (forall m, In m c_ec_key_members -> lookup m j' = lookup m j) /\
    (forall m, m <> g_kty -> ~ In m c_ec_key_members -> lookup m j' = None) /\
    thp_object j' = thp_object j /\ thp_object j <> None /\ jwk_eql j j' = true /\
    (forall h, jwk_thp j' h = jwk_thp j h).
Proof. exact conv_ec_clause. Qed.
Print Assumptions C12_conv_ec_roundtrip.

(* (a)+(b) oct: "k" any base64url string of at least one octet, leading zero octets included *)
Theorem C12_conv_oct_roundtrip : forall valid j s b,
  lookup g_kty j = Some (JStr g_oct) -> lookup g_k j = Some (JStr s) -> dec s = Some b -> b <> [] ->
  exists j', conv valid j = Some j' /\ j' = JObj [(g_kty, JStr g_oct); (g_k, JStr s)] /\
    lookup g_kty j' = lookup g_kty j /\ lookup g_k j' = lookup g_k j /\
    thp_object j' = thp_object j /\ thp_object j <> None /\ jwk_eql j j' = true /\
    (forall h, jwk_thp j' h = jwk_thp j h).
Proof. exact conv_oct_clause. Qed.
Print Assumptions C12_conv_oct_roundtrip.

Theorem C12_conv_oct_exact : forall j j',
  conv_oct j = Some j' <->
  exists s b, lookup g_k j = Some (JStr s) /\ dec s = Some b /\ b <> [] /\ j' = JObj [(g_kty, JStr g_oct); (g_k, JStr s)].
Proof. exact conv_oct_spec. Qed.
Print Assumptions C12_conv_oct_exact.

(* the octets of "k" / of a number member are read by the C two-call pattern of jose_b64_dec *)
Theorem C12_conv_b64_octets_is_c : forall o, c_b64_octets_c o = c_b64_octets o.
Proof. exact c_b64_octets_is_c. Qed.
Print Assumptions C12_conv_b64_octets_is_c.

(* THE GENERAL RSA STATEMENT: every successful conversion re-encodes each numeric member from its value at
   minimal length, keeps present present and absent absent, and has nothing else *)
Theorem C12_conv_rsa_members : forall j j', conv_rsa j = Some j' ->
  lookup g_kty j' = Some (JStr g_RSA) /\
  (forall m, In m c_rsa_key_members ->
     lookup m j' = c_renorm 0 (lookup m j) /\ (lookup m j <> None -> lookup m j' <> None)) /\
  (forall m, m <> g_kty -> ~ In m c_rsa_key_members -> lookup m j' = None).
Proof. exact conv_rsa_members. Qed.
Print Assumptions C12_conv_rsa_members.

(* exactly which RSA keys convert *)
Theorem C12_conv_rsa_accepts_iff : forall j, conv_rsa j <> None <-> c_rsa_acceptable j = true.
Proof. exact conv_rsa_accepts_iff. Qed.
Print Assumptions C12_conv_rsa_accepts_iff.

(* (c) the boundary: value preserved, text re-normalised *)
Theorem C12_conv_rsa_member_renormalised : forall j j' m s b,
  conv_rsa j = Some j' -> In m c_rsa_key_members -> lookup m j = Some (JStr s) -> dec s = Some b ->
  lookup m j' = Some (JStr (enc (c_strip b))) /\ g_os2ip (c_strip b) = g_os2ip b /\ g_os2ip b <> 0.
Proof. exact conv_rsa_member_renormalised. Qed.
Print Assumptions C12_conv_rsa_member_renormalised.

Theorem C12_conv_rsa_leading_zero_dropped : forall j j' m s r,
  conv_rsa j = Some j' -> In m c_rsa_key_members -> lookup m j = Some (JStr s) -> dec s = Some (0 :: r) ->
  lookup m j' = Some (JStr (enc (c_strip r))) /\ lookup m j' <> lookup m j /\
  g_bn_decode_json (JStr (enc (c_strip r))) = g_bn_decode_json (JStr s).
Proof. exact conv_rsa_leading_zero_dropped. Qed.
Print Assumptions C12_conv_rsa_leading_zero_dropped.

Theorem C12_conv_ec_members : forall valid j j', conv_ec valid j = Some j' ->
  exists c,
    g_req_s g_kty j = Some g_EC /\ g_req_s g_crv j = Some (g_curve_name c) /\
    lookup g_kty j' = Some (JStr g_EC) /\ lookup g_crv j' = Some (JStr (g_curve_name c)) /\
    lookup g_x j' = c_renorm_mod (g_curve_p c) (g_curve_len c) (lookup g_x j) /\ lookup g_x j' <> None /\
    lookup g_y j' = c_renorm_mod (g_curve_p c) (g_curve_len c) (lookup g_y j) /\ lookup g_y j' <> None /\
    lookup g_d j' = c_renorm (g_curve_len c) (lookup g_d j) /\ (lookup g_d j <> None -> lookup g_d j' <> None) /\
    (forall m, m <> g_kty -> ~ In m c_ec_key_members -> lookup m j' = None) /\
    valid c (c_num (lookup g_x j) mod g_curve_p c) (c_num (lookup g_y j) mod g_curve_p c) (c_num_opt (lookup g_d j)) = true.
Proof. exact conv_ec_members. Qed.
Print Assumptions C12_conv_ec_members.

Theorem C12_conv_ec_short_coordinate_padded : forall valid j j' m s b c,
  conv_ec valid j = Some j' -> m = g_x \/ m = g_y -> lookup m j = Some (JStr s) -> dec s = Some b ->
  g_req_s g_crv j = Some (g_curve_name c) -> blen b < g_curve_len c ->
  lookup m j' = Some (JStr (enc (repeatN 0 (N.to_nat (g_curve_len c) - length b) ++ b))) /\
  lookup m j' <> lookup m j.
Proof. exact conv_ec_short_coordinate_padded. Qed.
Print Assumptions C12_conv_ec_short_coordinate_padded.

(* a coordinate not below the field prime is accepted and comes back REDUCED: the value is not preserved *)
Theorem C12_conv_ec_coordinate_reduced : forall valid j j' m s b c,
  conv_ec valid j = Some j' -> m = g_x \/ m = g_y -> lookup m j = Some (JStr s) -> dec s = Some b ->
  g_req_s g_crv j = Some (g_curve_name c) -> g_curve_p c <= g_os2ip b ->
  exists v', lookup m j' = Some v' /\
    g_bn_decode_json v' = Some (g_os2ip b mod g_curve_p c) /\
    g_bn_decode_json v' <> g_bn_decode_json (JStr s).
Proof. exact conv_ec_coordinate_reduced. Qed.
Print Assumptions C12_conv_ec_coordinate_reduced.

Theorem C12_conv_ec_d_renormalised : forall valid j j' s b,
  conv_ec valid j = Some j' -> lookup g_d j = Some (JStr s) -> dec s = Some b ->
  exists c, g_req_s g_crv j = Some (g_curve_name c) /\
    lookup g_d j' = Some (JStr (enc (g_be (N.to_nat (g_curve_len c)) (g_os2ip b)))) /\
    g_os2ip b <> 0 /\ g_num_bytes (g_os2ip b) <= g_curve_len c.
Proof. exact conv_ec_d_renormalised. Qed.
Print Assumptions C12_conv_ec_d_renormalised.

(* (d) nothing but kty and the key members of the type is carried through *)
Theorem C12_conv_only_key_members : forall valid j j' kty,
  conv valid j = Some j' -> g_req_s g_kty j = Some kty ->
  lookup g_kty j' = Some (JStr kty) /\
  forall m, m <> g_kty -> ~ In m (c_key_members_of kty) -> lookup m j' = None.
Proof. exact conv_only_key_members. Qed.
Print Assumptions C12_conv_only_key_members.

Theorem C12_conv_drops_non_key_members : forall valid j j',
  conv valid j = Some j' ->
  lookup g_alg j' = None /\ lookup c_kid j' = None /\ lookup g_use j' = None /\ lookup g_key_ops j' = None.
Proof. exact conv_drops_non_key_members. Qed.
Print Assumptions C12_conv_drops_non_key_members.

(* (e) never a success that drops one of n e d p q dp dq qi / crv x y d / k *)
Theorem C12_conv_never_drops : forall valid j j' kty,
  conv valid j = Some j' -> g_req_s g_kty j = Some kty ->
  forall m, In m (c_key_members_of kty) -> lookup m j <> None -> lookup m j' <> None.
Proof. exact conv_never_drops. Qed.
Print Assumptions C12_conv_never_drops.

Theorem C12_conv_unknown_kty : forall valid j,
  (forall kty, g_req_s g_kty j = Some kty -> kty <> g_EC /\ kty <> g_RSA /\ kty <> g_oct) -> conv valid j = None.
Proof. exact conv_unknown_kty. Qed.
Print Assumptions C12_conv_unknown_kty.

Theorem C12_conv_kty_case_sensitive : forall valid j kty t,
  g_req_s g_kty j = Some kty -> In t [g_EC; g_RSA; g_oct] -> strcasecmp_eq kty t = true -> kty <> t ->
  conv valid j = None /\ find_type_ci kty <> None.
Proof. exact conv_kty_case_sensitive. Qed.
Print Assumptions C12_conv_kty_case_sensitive.

Theorem C12_conv_rsa_missing_required : forall j, lookup g_n j = None \/ lookup g_e j = None -> conv_rsa j = None.
Proof. exact conv_rsa_missing_required. Qed.
Print Assumptions C12_conv_rsa_missing_required.

Theorem C12_conv_rsa_incomplete_factors : forall j,
  c_present (lookup g_p j) <> c_present (lookup g_q j) -> conv_rsa j = None.
Proof. exact conv_rsa_incomplete_factors. Qed.
Print Assumptions C12_conv_rsa_incomplete_factors.

Theorem C12_conv_rsa_incomplete_crt : forall j,
  ~ (c_present (lookup g_dp j) = c_present (lookup g_dq j) /\ c_present (lookup g_dq j) = c_present (lookup g_qi j)) ->
  conv_rsa j = None.
Proof. exact conv_rsa_incomplete_crt. Qed.
Print Assumptions C12_conv_rsa_incomplete_crt.

Theorem C12_conv_rsa_bad_member : forall j m v,
  In m c_rsa_key_members -> lookup m j = Some v -> c_nz_member v = false -> conv_rsa j = None.
Proof. exact conv_rsa_bad_member. Qed.
Print Assumptions C12_conv_rsa_bad_member.

Theorem C12_conv_ec_missing_required : forall valid j,
  lookup g_crv j = None \/ lookup g_x j = None \/ lookup g_y j = None -> conv_ec valid j = None.
Proof. exact conv_ec_missing_required. Qed.
Print Assumptions C12_conv_ec_missing_required.

Theorem C12_conv_ec_unknown_curve : forall valid j crv,
  g_req_s g_crv j = Some crv -> g_curve_of_name crv = None -> conv_ec valid j = None.
Proof. exact conv_ec_unknown_curve. Qed.
Print Assumptions C12_conv_ec_unknown_curve.

Theorem C12_conv_ec_invalid_refused : forall valid j c,
  g_req_s g_crv j = Some (g_curve_name c) ->
  valid c (c_num (lookup g_x j) mod g_curve_p c) (c_num (lookup g_y j) mod g_curve_p c) (c_num_opt (lookup g_d j)) = false ->
  conv_ec valid j = None.
Proof. exact conv_ec_invalid_refused. Qed.
Print Assumptions C12_conv_ec_invalid_refused.

Theorem C12_conv_ec_zero_coordinate_refused : forall valid j c m,
  m = g_x \/ m = g_y -> g_req_s g_crv j = Some (g_curve_name c) -> c_num (lookup m j) mod g_curve_p c = 0 ->
  conv_ec valid j = None.
Proof. exact conv_ec_zero_coordinate_refused. Qed.
Print Assumptions C12_conv_ec_zero_coordinate_refused.

Theorem C12_conv_oct_empty_refused : forall j, lookup g_k j = Some (JStr []) -> conv_oct j = None.
Proof. exact conv_oct_empty_refused. Qed.
Print Assumptions C12_conv_oct_empty_refused.

(* "oth" never survives *)
Theorem C12_conv_rsa_oth_dropped : forall j j', conv_rsa j = Some j' -> lookup g_oth j' = None.
Proof. exact conv_rsa_oth_dropped. Qed.
Print Assumptions C12_conv_rsa_oth_dropped.

(* ---- readings of the clause that are false of the C code, with their witnesses ---- *)

Theorem C12_conv_ec_field_length_suffices_refuted :
  exists j j' s b,
    lookup g_kty j = Some (JStr g_EC) /\ lookup g_crv j = Some (JStr g_P256) /\
    lookup g_x j = Some (JStr s) /\ dec s = Some b /\ blen b = g_curve_len GC256 /\
    c_req_fixed (g_curve_len GC256) (lookup g_y j) = true /\
    conv c_valid_sec1 j = Some j' /\
    lookup g_x j' <> lookup g_x j /\ c_num (lookup g_x j') <> c_num (lookup g_x j) /\
    jwk_eql j j' = false.
Proof. exact conv_ec_field_length_suffices_refuted. Qed.
Print Assumptions C12_conv_ec_field_length_suffices_refuted.

Theorem C12_conv_oct_any_octets_refuted :
  exists j s b, lookup g_kty j = Some (JStr g_oct) /\ lookup g_k j = Some (JStr s) /\ dec s = Some b /\
    forall valid, conv valid j = None.
Proof. exact conv_oct_any_octets_refuted. Qed.
Print Assumptions C12_conv_oct_any_octets_refuted.

Theorem C12_conv_keeps_every_private_member_refuted :
  exists j j' t m, In t jwk_types /\ t_kty t = g_RSA /\ In m (t_prv t) /\
    lookup m j <> None /\ (forall valid, conv valid j = Some j') /\ lookup m j' = None.
Proof. exact conv_keeps_every_private_member_refuted. Qed.
Print Assumptions C12_conv_keeps_every_private_member_refuted.

Theorem C12_conv_preserves_thp_unconditionally_refuted :
  exists j j', (forall valid, conv valid j = Some j') /\ thp_object j <> None /\
    thp_object j' <> thp_object j /\ jwk_eql j j' = false.
Proof. exact conv_preserves_thp_unconditionally_refuted. Qed.
Print Assumptions C12_conv_preserves_thp_unconditionally_refuted.

(* ---- the premises are satisfiable: n = 3233 = 61 * 53, e = 17 with all private members; the P-256 base point ---- *)

Example C12_conv_ex_rsa :
  lookup g_kty c_ex_rsa = Some (JStr g_RSA) /\ c_rsa_canonical c_ex_rsa = true /\
  map (fun m => c_num (lookup m c_ex_rsa)) c_rsa_key_members = [3233; 17; 413; 61; 53; 53; 49; 38] /\
  conv conv_valid_true c_ex_rsa =
  Some (JObj [(g_kty, JStr g_RSA); (g_n, JStr [68; 75; 69]); (g_e, JStr [69; 81]); (g_d, JStr [65; 90; 48]);
              (g_p, JStr [80; 81]); (g_q, JStr [78; 81]); (g_dp, JStr [78; 81]); (g_dq, JStr [77; 81]); (g_qi, JStr [74; 103])]).
Proof. vm_compute. repeat split. Qed.

Example C12_conv_ex_ec :
  let j := c_ex_ec in
  lookup g_kty j = Some (JStr g_EC) /\ lookup g_crv j = Some (JStr (g_curve_name GC256)) /\
  c_req_fixed (g_curve_len GC256) (lookup g_x j) = true /\ c_req_fixed (g_curve_len GC256) (lookup g_y j) = true /\
  c_opt_fixed (g_curve_len GC256) (lookup g_d j) = true /\
  c_num (lookup g_x j) < g_curve_p GC256 /\ c_num (lookup g_y j) < g_curve_p GC256 /\
  conv_valid_true GC256 (c_num (lookup g_x j)) (c_num (lookup g_y j)) (c_num_opt (lookup g_d j)) = true /\
  c_valid_sec1 GC256 (c_num (lookup g_x j)) (c_num (lookup g_y j)) (c_num_opt (lookup g_d j)) = true /\
  conv c_valid_sec1 j =
  Some (JObj [(g_kty, JStr g_EC); (g_crv, JStr g_P256); (g_x, JStr (enc (g_be 32 c_ex_gx))); (g_y, JStr (enc (g_be 32 c_ex_gy)))]).
Proof. vm_compute. repeat split. Qed.

Example C12_conv_ex_leading_zero :
  conv conv_valid_true c_ex_rsa_lz = Some c_ex_rsa_lz_out /\
  c_num (lookup g_n c_ex_rsa_lz) = c_num (lookup g_n c_ex_rsa_lz_out) /\
  jwk_eql c_ex_rsa_lz c_ex_rsa_lz_out = false.
Proof. vm_compute. repeat split. Qed.

Example C12_conv_ex_oct :
  conv conv_valid_true (JObj [(g_kty, JStr g_oct); (g_k, JStr [65; 65; 69; 67]); (g_alg, JStr [72; 83; 50; 53; 54])])
  = Some (JObj [(g_kty, JStr g_oct); (g_k, JStr [65; 65; 69; 67])]).
Proof. vm_compute. reflexivity. Qed.
