(* C03 -- JWS sign/verify round trip and RFC 7515 interoperability.
   Only statements, each closed by [exact] of a lemma proved elsewhere. *)
From JoseV Require Import Jose.Jws Jose.SigAlgs Jose.SigProofs Jose.JwsProofs Jose.HdrProofs Codec.B64Spec.
Local Open Scope N_scope.

(* what jose_jws_sig adds is the RFC 7515 construction: the algorithm is the one find_alg chose and
   recorded (C15), the protected header is encoded once and then used verbatim, the signing input is
   protected || '.' || payload, the signature member is the base64url text of the signature octets,
   and the entry is merged by add_entity (C16) *)
Theorem C03_product : forall algs jws sig jwk rnd pay j',
  sig_single algs jws sig jwk rnd pay = Some j' ->
  exists a s1 s2 pre sg e s3,
    sig_find_alg algs (match sig with Some s => s | None => JObj [] end) jwk = Some (a, s1) /\
    encode_protected s1 = Some s2 /\ prefix_bytes s2 = Some pre /\
    sa_sig_ok a jwk = true /\
    sa_sign a jwk rnd (pre ++ pay) = Some sg /\
    jose_b64_enc sg = Some e /\ jset s_signature e s2 = Some s3 /\
    add_signature jws s3 = Some j'.
Proof. exact sig_single_product. Qed.
Print Assumptions C03_product.

Theorem C03_signature_text : forall sg e,
  wf_bytes sg -> jose_b64_enc sg = Some e -> e = JStr (enc sg) /\ b64_member e = Some sg.
Proof. exact sig_member_text. Qed.
Print Assumptions C03_signature_text.

Theorem C03_signing_input : forall m pre,
  prefix_bytes (JObj m) = Some pre ->
  pre = (match alookup s_protected m with Some (JStr s) => s | _ => [] end) ++ [46].
Proof. exact prefix_is_protected_dot. Qed.
Print Assumptions C03_signing_input.

(* the verifier evaluates the primitive on the same bytes (C01_sound_single), so a signature made by
   sa_sign verifies whenever the primitive law holds; the HMAC family of the model satisfies it *)
Theorem C03_hmac_law : forall name sprm vprm jwk r m sg,
  sa_sign (hs_alg name sprm vprm) jwk r m = Some sg -> sa_verify (hs_alg name sprm vprm) jwk m sg = true.
Proof. exact hs_sign_verifies. Qed.
Print Assumptions C03_hmac_law.

(* RFC 7515 Appendix A.1: the HS256 example, produced and verified by the model, bit for bit *)
Definition a1_key : json :=
  JObj [([107;116;121], JStr [111;99;116]);
        ([107], JStr [65;121;77;49;83;121;115;80;112;98;121;68;102;103;90;108;100;51;117;109;106;49;113;122;75;79;98;119;86;77;107;111;113;81;45;69;115;116;74;81;76;114;95;84;45;49;113;83;48;103;90;72;55;53;97;75;116;77;78;51;89;106;48;105;80;83;52;104;99;103;85;117;84;119;106;65;122;90;114;49;90;57;67;65;111;119])].
Definition a1_protected : bytes :=
  [101;121;74;48;101;88;65;105;79;105;74;75;86;49;81;105;76;65;48;75;73;67;74;104;98;71;99;105;79;105;74;73;85;122;73;49;78;105;74;57].
Definition a1_payload : bytes :=
  [101;121;74;112;99;51;77;105;79;105;74;113;98;50;85;105;76;65;48;75;73;67;74;108;101;72;65;105;79;106;69;122;77;68;65;52;77;84;107;122;79;68;65;115;68;81;111;103;73;109;104;48;100;72;65;54;76;121;57;108;101;71;70;116;99;71;120;108;76;109;78;118;98;83;57;112;99;49;57;121;98;50;57;48;73;106;112;48;99;110;86;108;102;81].
Definition a1_signature : bytes :=
  [100;66;106;102;116;74;101;90;52;67;86;80;45;109;66;57;50;75;50;55;117;104;98;85;74;85;49;112;49;114;95;119;87;49;103;70;87;70;79;69;106;88;107].

Example C03_rfc7515_a1 :
  jws_sig real_sign_algs (JObj [(s_payload, JStr a1_payload)]) (Some (JObj [(s_protected, JStr a1_protected)])) a1_key []
  = Some (JObj [(s_payload, JStr a1_payload); (s_protected, JStr a1_protected); (s_signature, JStr a1_signature)])
  /\ jws_ver real_sign_algs (JObj [(s_payload, JStr a1_payload); (s_signature, JStr a1_signature); (s_protected, JStr a1_protected)]) None a1_key false = true
  /\ jws_ver real_sign_algs (JObj [(s_payload, JStr (a1_payload ++ [65])); (s_signature, JStr a1_signature); (s_protected, JStr a1_protected)]) None a1_key false = false.
Proof. vm_compute. repeat split. Qed.
