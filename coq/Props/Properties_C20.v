(* C20 -- a failed memory allocation makes the operation fail, never lie or crash
   (the part proved on the IO-chain model; the glue code and the algorithm back ends are the
   subject of the fault enumeration, tools/props/c20.py).
   Only statements, each closed by [exact] of a lemma proved in Fault/AllocProofs.v. *)
From JoseV Require Import Io.Chain Io.ChainProofs Fault.Alloc Fault.AllocProofs Crypto.Sha.
Local Open Scope N_scope.

(* THE propagation theorem: for every chain built from malloc/buffer sinks, stages that return a
   genuine boolean verdict and (nested) any/all multiplexers, every index k of the allocation
   that fails (constructors' calloc, malloc_feed's realloc, numbered in execution order) and
   every sequence of feeds: the run fails, or it succeeds AND the fault-free run succeeds AND
   every sink that was not dropped by an any-multiplexer holds exactly the fault-free bytes
   ([dle]: the faulted result is the fault-free one with whole dropped branches erased). *)
Theorem C20_propagates : forall p, genuine p = true -> forall k xs,
  run_failing (fault_at k) p xs = Failed \/
  exists d d0, run_failing (fault_at k) p xs = Ok d /\ run_failing no_fault p xs = Ok d0 /\ dle d d0.
Proof. exact propagates_k. Qed.
Print Assumptions C20_propagates.

(* without any-multiplexers: Failed, or literally the fault-free result -- never "Ok wrong" *)
Theorem C20_propagates_exact : forall p, genuine p = true -> no_any p = true -> forall k xs,
  run_failing (fault_at k) p xs = Failed \/ run_failing (fault_at k) p xs = run_failing no_fault p xs.
Proof. exact propagates_exact_k. Qed.
Print Assumptions C20_propagates_exact.

(* the same for ANY set of failing requests, not just one *)
Theorem C20_propagates_any_fault_set : forall p, genuine p = true -> forall F xs,
  run_failing F p xs = Failed \/
  exists d d0, run_failing F p xs = Ok d /\ run_failing no_fault p xs = Ok d0 /\ dle d d0.
Proof. exact propagates. Qed.
Print Assumptions C20_propagates_any_fault_set.

(* an operation that fails without faults never succeeds with one (a forged input stays rejected) *)
Theorem C20_failure_stays : forall p, genuine p = true -> forall F xs,
  run_failing no_fault p xs = Failed -> run_failing F p xs = Failed.
Proof. exact failure_stays. Qed.
Print Assumptions C20_failure_stays.

(* on the whole-input semantics of Io/Chain.v (what C07 ties to lib/io.c), reusing its lemmas:
   replace any malloc sinks by sinks whose realloc fails at arbitrary calls ([inj]) -- success of
   the faulted chain implies success of the original one with the same bytes in undropped sinks *)
Theorem C20_chain_propagates : forall c cf, inj c cf -> forall xs, snd (runc cf xs) = true ->
  snd (runc c xs) = true /\
  dle (delivered (fst (fst (runc cf xs)))) (delivered (fst (fst (runc c xs)))).
Proof. exact chain_propagates. Qed.
Print Assumptions C20_chain_propagates.

(* lib/io.c malloc_feed: realloc fails => the feed is rejected, nothing more is stored *)
Theorem C20_malloc_sink : forall f F d x cnt,
  x <> [] -> F cnt = true -> feed (S f) F (OMalloc d) x cnt = (OMalloc d, false, S cnt).
Proof. exact malloc_sink_fault. Qed.
Print Assumptions C20_malloc_sink.

(* ... and a caller that stops at the first rejection leaves a prefix of what it fed in the
   sink, all of it exactly when every feed was accepted *)
Theorem C20_malloc_sink_prefix : forall f F xs d cnt,
  exists d' ok c, feed_all (S f) F (OMalloc d) xs cnt = (OMalloc d', ok, c) /\
                  exists k, d' = d ++ concat (firstn k xs) /\ (ok = true -> d' = d ++ concat xs).
Proof. exact malloc_sink_prefix. Qed.
Print Assumptions C20_malloc_sink_prefix.

Theorem C20_chain_sink : forall j fd d x,
  sink_feed (SFaulty (Some j) fd j d) x = (SFaulty (Some j) fd (S j) d, false).
Proof. exact chain_sink_fault. Qed.
Print Assumptions C20_chain_sink.

(* the premise "genuine boolean verdict" is necessary: a stage whose done() returns a size_t
   (length / SIZE_MAX) through a bool return type reports success when its downstream failed --
   a run that says Ok with bytes that are NOT the fault-free ones (not even up to dropped branches) *)
Theorem C20_stage_verdicts_boolean :
  exists p k xs d d0, genuine p = false /\
    run_failing (fault_at k) p xs = Ok d /\ run_failing no_fault p xs = Ok d0 /\ ~ dle d d0.
Proof. exact boolean_verdict_needed. Qed.
Print Assumptions C20_stage_verdicts_boolean.

(* for every non-empty input: the mis-typed stage says Ok with an EMPTY sink, the well-typed one Failed *)
Theorem C20_mistyped_done_hides_failure : forall x, x <> [] ->
  run_failing (fault_at 2) mistyped [x] = Ok [Some []] /\
  run_failing no_fault mistyped [x] = Ok [Some x] /\
  run_failing (fault_at 2) welltyped [x] = Failed.
Proof. exact mistyped_done_hides_failure. Qed.
Print Assumptions C20_mistyped_done_hides_failure.

(* whatever fails (its own finalisation, a downstream feed or done), a size_t verdict says true *)
Theorem C20_vsize_done_never_fails : forall f F T st next cnt,
  (tdone T st = None \/ exists outs, tdone T st = Some outs /\ outs <> [] /\ concat outs <> []) ->
  snd (fst (done (S f) F (OStage VSize T st next) cnt)) = true.
Proof. exact vsize_done_never_fails. Qed.
Print Assumptions C20_vsize_done_never_fails.

(* ---- the premises are satisfiable by non-trivial chains; the two semantics agree -------------- *)

Definition hash_T : transducer := atdone_T (fun m => Some (hash SHA256 m)).
Definition ex_plan : plan :=
  PPlex false [PStage VBool b64enc_T PMalloc;
               PPlex true [PStage VBool hash_T (PBuffer 32); PStage VBool b64enc_T (PStage VBool b64dec_T PMalloc)]].
Definition ex_in : list bytes := [[1; 2; 3; 4]; []; [5]; [6; 7; 8; 9; 10; 11; 12]].

Example ex_genuine : genuine ex_plan = true.
Proof. vm_compute. reflexivity. Qed.

(* 9 constructors + 4 reallocs (empty buffers passed downstream do not allocate) *)
Example ex_count : alloc_count ex_plan ex_in = 13%nat.
Proof. vm_compute. reflexivity. Qed.

(* fault-free: the operational semantics and Io/Chain.v's runc give the same result *)
Example ex_agree : run_failing no_fault ex_plan ex_in = chain_result ex_plan ex_in.
Proof. vm_compute. reflexivity. Qed.

(* every single fault: 9 x Failed (constructors), then the any-multiplexer absorbs the loss of one branch
   (value = 1 + number of dropped branches), then (k >= N) the fault-free result *)
Example ex_all_k :
  map (fun k => match run_failing (fault_at k) ex_plan ex_in with Failed => 0 | Ok d => N.of_nat (length (filter (fun o => match o with None => true | _ => false end) d)) + 1 end)
      (seq 0 15) = [0; 0; 0; 0; 0; 0; 0; 0; 0; 2; 2; 2; 2; 1; 1].
Proof. vm_compute. reflexivity. Qed.

(* a chain without any-multiplexer: Failed for every k < N, the fault-free result for k >= N *)
Definition ex_plan2 : plan := PPlex true [PStage VBool b64enc_T PMalloc; PStage VBool hash_T (PStage VBool b64enc_T PMalloc)].
Example ex2_all_k :
  forallb (fun k => match run_failing (fault_at k) ex_plan2 ex_in with Failed => true | Ok _ => false end) (seq 0 (alloc_count ex_plan2 ex_in)) = true
  /\ run_failing (fault_at (alloc_count ex_plan2 ex_in)) ex_plan2 ex_in = run_failing no_fault ex_plan2 ex_in
  /\ run_failing no_fault ex_plan2 ex_in = chain_result ex_plan2 ex_in
  /\ no_any ex_plan2 = true.
Proof. vm_compute. repeat split; reflexivity. Qed.

(* a buffer sink that is too small: fails without faults, hence with every fault *)
Example ex_small : run_failing no_fault (PStage VBool b64enc_T (PBuffer 4)) ex_in = Failed.
Proof. vm_compute. reflexivity. Qed.
