(* C14 -- hostile parameters cannot force unbounded work or oversized buffers.
   Only statements, each closed by [exact] of a lemma of Jose/LimitsProofs.v.  The numbers are the
   property's (1024, 262144, 1000, 32768); the model reads them from Gen/Consts.v, which is
   regenerated from the C sources on every run, so a changed constant breaks these proofs.

   (Two statements used to be refuted by the code -- p2c narrowed to int before the range test on wrap, no
   lower bound and narrowing after the test on unwrap; both were repaired in /repo and the theorems below
   are the full statements.) *)
From JoseV Require Import Codec.B64Impl Codec.B64Json Jose.Limits Jose.LimitsProofs.
Local Open Scope N_scope.

Theorem C14_consts :
  keymax = 1024 /\ max_compressed_size = 262144 /\ p2c_min_iterations = 1000 /\ p2c_max_iterations = 32768.
Proof. exact consts_are_the_propertys. Qed.
Print Assumptions C14_consts.

(* ---- PBES2 iteration count, unwrap ----------------------------------------------------------------- *)

(* every JSON value of "p2c": an integer above 32768 or below 1 of whatever size, a value that is not an
   integer, no value at all => refused, no iteration requested *)
Theorem C14_p2c_unw : forall alg hdr jwk,
  match lookup l_p2c hdr with
  | Some (JInt z) =>
      (32768 < z \/ z < 1)%Z ->
      pbes2_unw_guard alg hdr jwk = Refuse /\ iters_requested (pbes2_unw_guard alg hdr jwk) = 0%Z
  | _ => pbes2_unw_guard alg hdr jwk = Refuse /\ iters_requested (pbes2_unw_guard alg hdr jwk) = 0%Z
  end.
Proof. exact p2c_unw. Qed.
Print Assumptions C14_p2c_unw.

(* what passes is the count of the header itself, in 1..32768 (no wrap-around) *)
Theorem C14_p2c_unw_passes : forall alg hdr jwk r,
  pbes2_unw_guard alg hdr jwk = Proceed r ->
  exists z, lookup l_p2c hdr = Some (JInt z) /\ (1 <= z <= 32768)%Z /\ kr_iter r = z.
Proof. exact p2c_unw_passes. Qed.
Print Assumptions C14_p2c_unw_passes.

(* ---- PBES2 iteration count, wrap ------------------------------------------------------------------- *)

(* whenever the wrap path proceeds the count handed to the KDF is in [1000, 32768] and is the number recorded
   in the produced header *)
Theorem C14_p2c_wrp : forall alg hdr jwk rec r,
  pbes2_wrp_guard alg hdr jwk = Proceed (rec, r) ->
  (1000 <= kr_iter r <= 32768)%Z /\ rec = JInt (kr_iter r) /\
  match lookup l_p2c hdr with None => kr_iter r = 32768%Z | Some j => j = rec end.
Proof. exact p2c_wrp. Qed.
Print Assumptions C14_p2c_wrp.

Theorem C14_p2c_wrp_refuses : forall alg hdr jwk,
  match lookup l_p2c hdr with
  | Some (JInt z) => (z < 1000 \/ 32768 < z)%Z -> pbes2_wrp_guard alg hdr jwk = Refuse
  | Some _ => pbes2_wrp_guard alg hdr jwk = Refuse
  | None => True
  end.
Proof. exact p2c_wrp_refuses. Qed.
Print Assumptions C14_p2c_wrp_refuses.

(* ---- work ------------------------------------------------------------------------------------------- *)

(* iterations performed: at most 32768 on both paths, whatever the KDF itself accepts *)
Theorem C14_work_bound : forall (accepts : Z -> bool),
  (forall alg hdr jwk, (0 <= kdf_work accepts (pbes2_wrp_req alg hdr jwk) <= 32768)%Z) /\
  (forall alg hdr jwk, (0 <= kdf_work accepts (pbes2_unw_guard alg hdr jwk) <= 32768)%Z).
Proof.
  intros accepts. split.
  - exact (work_bound_wrp accepts).
  - exact (work_bound_unw accepts).
Qed.
Print Assumptions C14_work_bound.

(* ---- PBES2 salt ------------------------------------------------------------------------------------- *)

Theorem C14_salt : forall alg hdr jwk r,
  pbes2_unw_guard alg hdr jwk = Proceed r ->
  sr_cap (pbes2_unw_st hdr) = 1024 /\
  Forall (fun iw => fst iw < 1024) (sr_writes (pbes2_unw_st hdr)) /\
  exists p2s stl,
    lookup l_p2s hdr = Some p2s /\ ret (jose_b64_dec p2s None) = Some stl /\
    8 <= stl /\ stl <= 1024 /\
    kr_saltl r = blen alg + 1 + stl /\
    pbkdf2_slt alg stl = (kr_saltl r, kr_saltl r).
Proof. exact salt. Qed.
Print Assumptions C14_salt.

Theorem C14_salt_buffer : forall hdr,
  sr_cap (pbes2_unw_st hdr) = 1024 /\ Forall (fun iw => fst iw < 1024) (sr_writes (pbes2_unw_st hdr)).
Proof. exact salt_buffer. Qed.
Print Assumptions C14_salt_buffer.

(* ---- compressed ciphertext, inflate block ------------------------------------------------------------- *)

Theorem C14_zip_ct : forall jwe io_ok n,
  (zip_in_protected_header jwe = true -> 262144 < n -> dec_cek_guard jwe (Some n) io_ok = Refuse) /\
  (zip_in_protected_header jwe = true -> n <= 262144 -> io_ok = true -> dec_cek_guard jwe (Some n) io_ok = Proceed n) /\
  (zip_in_protected_header jwe = false -> io_ok = true -> dec_cek_guard jwe (Some n) io_ok = Proceed n) /\
  (forall m, dec_cek_guard jwe (Some n) io_ok = Proceed m -> m = n).
Proof. exact zip_ct. Qed.
Print Assumptions C14_zip_ct.

Theorem C14_zip_ct_json : forall jwe cek s,
  lookup l_ciphertext jwe = Some (JStr s) -> zip_in_protected_header jwe = true -> 262144 < blen s ->
  dec_cek jwe cek = Refuse.
Proof. exact zip_ct_json. Qed.
Print Assumptions C14_zip_ct_json.

Theorem C14_inf_block : forall len,
  (262144 < len -> inf_feed_guard len = Refuse) /\
  (forall n, inf_feed_guard len = Proceed n -> n = len /\ n <= 262144).
Proof. exact inf_block. Qed.
Print Assumptions C14_inf_block.

(* ---- fixed buffers ---------------------------------------------------------------------------------- *)

Theorem C14_keymax_hmac : forall mdsize jwk,
  let r := jhmac mdsize jwk in
  sr_cap r = 1024 /\
  Forall (fun iw => fst iw < 1024) (sr_writes r) /\
  forall n, sr_go r = Some n -> mdsize <= n /\ n <= 1024.
Proof. exact keymax_hmac. Qed.
Print Assumptions C14_keymax_hmac.

Theorem C14_keymax_oct : forall jwk n,
  oct_make jwk = Proceed n ->
  1 <= n /\ n <= 1024 /\ exists z, lookup l_bytes jwk = Some (JInt z) /\ Z.of_N n = z.
Proof. exact keymax_oct. Qed.
Print Assumptions C14_keymax_oct.

Theorem C14_keymax_oct_refuses : forall jwk,
  match lookup l_bytes jwk with
  | Some (JInt z) => (z <= 0 \/ 1024 < z)%Z -> oct_make jwk = Refuse
  | _ => oct_make jwk = Refuse
  end.
Proof. exact oct_refuses. Qed.
Print Assumptions C14_keymax_oct_refuses.

Theorem C14_keymax_aeskw_wrp : forall cek,
  let r := aeskw_wrp_pt cek in
  sr_cap r = 1024 /\
  Forall (fun iw => fst iw < 1024) (sr_writes r) /\
  forall ptl, sr_go r = Some ptl ->
    ptl <= 1024 /\ fst (aeskw_wrp_ct ptl) <= snd (aeskw_wrp_ct ptl) /\ snd (aeskw_wrp_ct ptl) = 1040.
Proof. exact keymax_aeskw_wrp. Qed.
Print Assumptions C14_keymax_aeskw_wrp.

Theorem C14_keymax_aeskw_unw : forall rcp,
  let r := aeskw_unw_ct rcp in
  sr_cap r = 1040 /\
  Forall (fun iw => fst iw < 1040) (sr_writes r) /\
  forall ctl, sr_go r = Some ctl ->
    ctl <= 1040 /\ fst (aeskw_unw_pt ctl) <= snd (aeskw_unw_pt ctl) /\ snd (aeskw_unw_pt ctl) = 1040.
Proof. exact keymax_aeskw_unw. Qed.
Print Assumptions C14_keymax_aeskw_unw.

Theorem C14_keymax_pbkdf2 : forall jwk,
  let r := pbkdf2_ky jwk in
  sr_cap r = 1024 /\
  Forall (fun iw => fst iw < 1024) (sr_writes r) /\
  forall n, sr_go r = Some n -> n <= 1024.
Proof. exact keymax_pbkdf2. Qed.
Print Assumptions C14_keymax_pbkdf2.

Theorem C14_keymax_ecdhes : forall dkl hdr key d,
  ecdhes_derive dkl hdr key = Proceed d ->
  (exists l, dkl = Some l /\ dv_dk d = l /\ 16 <= l) /\
  dv_dk d <= 1024 /\ dv_pu d <= 1024 /\ dv_pv d <= 1024 /\ dv_ky d <= 1024.
Proof. exact keymax_ecdhes. Qed.
Print Assumptions C14_keymax_ecdhes.

Theorem C14_keymax_ecdhes_buffers : forall obj name,
  Forall (fun iw => fst iw < 1024) (sr_writes (ecdhes_decode obj name keymax)).
Proof. exact keymax_ecdhes_buffers. Qed.
Print Assumptions C14_keymax_ecdhes_buffers.

Theorem C14_keymax_ecdhes_refuses : forall obj name s d,
  lookup name obj = Some (JStr s) -> ret (dec_buf s None) = Some d -> 1024 < d ->
  sr_go (ecdhes_decode obj name keymax) = None.
Proof. exact ecdhes_refuses_long. Qed.
Print Assumptions C14_keymax_ecdhes_refuses.

(* ---- non-vacuity: the premises are met by concrete, non-trivial values ------------------------------- *)

(* a well-formed header with p2c = 1000 and a 16-byte salt proceeds: 1000 iterations, salt of 19 + 16 *)
Example C14_ex_unw_ok :
  pbes2_unw_guard n_pbes2_256 (hdr_of_p2c 1000) password_jwk =
  Proceed {| kr_iter := 1000; kr_passl := 8; kr_saltl := 35 |}.
Proof. vm_compute. reflexivity. Qed.

Example C14_ex_unw_refused :
  pbes2_unw_guard n_pbes2_256 (hdr_of_p2c 32769) password_jwk = Refuse /\
  pbes2_unw_guard n_pbes2_256 (hdr_of_p2c 1099511627776) password_jwk = Refuse /\
  iters_requested (pbes2_unw_guard n_pbes2_256 (hdr_of_p2c 32768) password_jwk) = 32768%Z.
Proof. vm_compute. repeat split; reflexivity. Qed.

(* the default count of the wrap path is recorded and used *)
Example C14_ex_wrp_default :
  pbes2_wrp_guard n_pbes2_256 (JObj []) password_jwk =
  Proceed (JInt 32768, {| kr_iter := 32768; kr_passl := 8; kr_saltl := 35 |}).
Proof. vm_compute. reflexivity. Qed.

Example C14_ex_wrp_refused :
  pbes2_wrp_guard n_pbes2_256 (JObj [(l_p2c, JInt 999)]) password_jwk = Refuse /\
  pbes2_wrp_guard n_pbes2_256 (JObj [(l_p2c, JInt 4294968295)]) password_jwk = Refuse /\
  pbes2_wrp_guard n_pbes2_256 (JObj [(l_p2c, JInt 2147483653)]) password_jwk = Refuse.
Proof. vm_compute. repeat split; reflexivity. Qed.

(* protected header {"zip":"DEF"} (eyJ6aXAiOiJERUYifQ) is recognised, {"zip":"XYZ"} and no zip are not *)
Example C14_ex_zip :
  zip_in_protected_header
    (JObj [(l_protected, JStr [101;121;74;54;97;88;65;105;79;105;74;69;82;85;89;105;102;81])]) = true /\
  zip_in_protected_header
    (JObj [(l_protected, JStr [101;121;74;54;97;88;65;105;79;105;74;89;87;86;111;105;102;81])]) = false /\
  zip_in_protected_header (JObj [(l_protected, JStr [101;51;48])]) = false.
Proof. vm_compute. repeat split; reflexivity. Qed.

(* a 1024-byte key is copied, a 1025-byte key is not; 'A' x 1366 decodes to 1024 bytes (+ 2 spare bits = 0) *)
Example C14_ex_hmac :
  sr_go (jhmac 32 (JObj [(l_k, JStr (repeatN 65 1366))])) = Some 1024 /\
  sr_go (jhmac 32 (JObj [(l_k, JStr (repeatN 65 1367))])) = None /\
  sr_go (jhmac 32 (JObj [(l_k, JStr (repeatN 65 42))])) = None.
Proof. vm_compute. repeat split; reflexivity. Qed.
