(* C02 -- JWE decryption is authenticated over protected, aad, iv, ciphertext, tag.
   Only statements, each closed by [exact] of a lemma proved elsewhere. *)
From JoseV Require Import Jose.Jwe Jose.EncAlgs Jose.JweProofs Codec.B64Spec.
Local Open Scope N_scope.

(* one-shot decryption succeeded => a CEK was unwrapped, the ciphertext text decoded canonically, and
   content decryption under THAT CEK succeeded on those octets *)
Theorem C02_sound : forall walgs jwe rcp jwk pt,
  jwe_dec_with walgs jwe rcp jwk = Some pt ->
  exists cek ct cto,
    dec_jwk walgs jwe rcp jwk = Some cek /\
    lookup s_ciphertext jwe = Some (JStr ct) /\ dec ct = Some cto /\
    dec_cek_octets real_encr_algs inflate jwe cek cto = Some pt.
Proof. exact jwe_dec_sound. Qed.
Print Assumptions C02_sound.

(* the CEK comes from a key of the set and a recipient object of the JWE through the algorithm's unwrap *)
Theorem C02_unwrap_source : forall walgs jwe rcp jwk cek,
  dec_jwk walgs jwe rcp jwk = Some cek ->
  exists k r, (key_list jwk = None /\ k = jwk \/ exists keys, key_list jwk = Some keys /\ In k keys) /\
              dec_jwk_single walgs jwe r k = Some cek /\
              (rcp = Some r \/
               rcp = None /\ (lookup s_recipients jwe = None /\ r = jwe \/
                              exists l, lookup s_recipients jwe = Some (JArr l) /\ In r l)).
Proof. exact dec_jwk_sound. Qed.
Print Assumptions C02_unwrap_source.

Theorem C02_unwrap_single : forall walgs jwe rcp jwk cek,
  dec_jwk_single walgs jwe rcp jwk = Some cek ->
  exists hdr a encv,
    jwe_hdr jwe (Some rcp) = Some hdr /\ In a walgs /\
    jwk_prm jwk false (Some (wa_dprm a)) = true /\ lookup Jwe.s_enc hdr = Some encv /\
    wa_unw a jwe rcp jwk (JObj [(Jwe.s_kty, JStr s_oct); (s_use, JStr Jwe.s_enc); (Jwe.s_enc, encv);
                                (s_key_ops, JArr [JStr s_encrypt; JStr s_decrypt])]) = Some cek.
Proof. exact dec_jwk_single_sound. Qed.
Print Assumptions C02_unwrap_single.

(* content decryption: AEAD-open, then inflate exactly when zip=DEF is in the encoded protected header *)
Theorem C02_content : forall ealgs infl jwe cek ct pt,
  dec_cek_octets ealgs infl jwe cek ct = Some pt ->
  exists a, In a ealgs /\ jwk_prm cek false (Some (ea_dprm a)) = true /\
    match protected_zip jwe with
    | Some z => z = s_DEF /\ exists body, ea_dec a jwe cek ct = Some body /\ infl body = Some pt
    | None => ea_dec a jwe cek ct = Some pt
    end.
Proof. exact dec_cek_sound. Qed.
Print Assumptions C02_content.

(* AES-GCM: every member is an argument of the tag check; the AAD holds protected and aad in full *)
Theorem C02_gcm : forall name eprm dprm jwe cek ct pt,
  ea_dec (gcm_alg name eprm dprm) jwe cek ct = Some pt ->
  exists aad key iv tag,
    gcm_aad_input jwe = Some aad /\
    key_exact cek (match enc_key_len name with Some n => n | None => 0 end) = Some key /\
    member_bytes s_iv jwe = Some iv /\ member_bytes s_tag jwe = Some tag /\
    blen iv = 12 /\ blen tag = 16 /\ gcm_decrypt key iv aad ct tag = Some pt.
Proof. exact gcm_dec_is_open. Qed.
Print Assumptions C02_gcm.

Theorem C02_gcm_aad_full : forall m p a,
  alookup s_protected m = Some (JStr p) -> alookup s_aad m = Some (JStr a) ->
  gcm_aad_input (JObj m) = Some (p ++ 46 :: a).
Proof. exact gcm_aad_full. Qed.
Print Assumptions C02_gcm_aad_full.

Theorem C02_cbchs : forall name eprm dprm jwe cek ct pt,
  ea_dec (cbchs_alg name eprm dprm) jwe cek ct = Some pt ->
  exists aad key iv tag,
    cbc_aad_input jwe = Some aad /\
    key_exact cek (match enc_key_len name with Some n => n | None => 0 end) = Some key /\
    member_bytes s_iv jwe = Some iv /\ member_bytes s_tag jwe = Some tag /\ blen iv = 16 /\
    cbchs_decrypt (hmac (cbc_hash name)) (hash_len (cbc_hash name) / 2) key iv aad ct tag = Some pt.
Proof. exact cbchs_dec_is_open. Qed.
Print Assumptions C02_cbchs.

Theorem C02_no_keys : forall walgs jwe rcp jwk, key_list jwk = Some [] -> dec_jwk walgs jwe rcp jwk = None.
Proof. exact dec_no_keys. Qed.
Print Assumptions C02_no_keys.

Theorem C02_no_recipients : forall walgs jwe jwk,
  key_list jwk = None -> lookup s_recipients jwe = Some (JArr []) -> dec_jwk walgs jwe None jwk = None.
Proof. exact dec_no_recipients. Qed.
Print Assumptions C02_no_recipients.
