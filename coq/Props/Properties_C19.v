(* C19 -- 'jose fmt' executes its option string as the documented stack machine.
   Statements about the reference semantics Cli/Fmt.v (written from jose-fmt.1.adoc), each closed
   by [exact] of a lemma of Cli/FmtProofs.v.  The tie to cmd/fmt.c is the correspondence run by
   ./check C19: the binary's (exit status, stdout, files) must be a member of [runs p]. *)
From Coq Require String.
Import String.StringSyntax.
From JoseV Require Import Cli.Fmt Cli.FmtProofs.
Local Open Scope N_scope.

(* ---- exit status ------------------------------------------------------------------------- *)

(* status 0: every option succeeded.  status k <> 0: k is the 1-based index of the first option
   that failed; the k-1 options before it all succeeded ([reaches]), stdout is exactly what those
   wrote, option k itself has a failing outcome and nothing after it is executed or printed.
   With at most 255 options the index fits the 8-bit exit status. *)
Theorem C19_exit_index : forall p k so fs,
  (length p <= 255)%nat ->
  In (k, so, fs) (runs p) ->
  (k = 0 /\ exists st', reaches init p [] st' /\ so = out st' /\ fs = files st')
  \/
  (exists pre o rest st',
      p = pre ++ o :: rest /\ k = N.of_nat (S (length pre)) /\
      1 <= k /\ k <= N.of_nat (length p) /\ k < 256 /\
      reaches init pre (o :: rest) st' /\
      In (Fail fs) (step st' o (hd_error rest)) /\
      so = out st').
Proof. exact exit_index. Qed.
Print Assumptions C19_exit_index.

(* conversely every such execution is a member of [runs] *)
Theorem C19_exit_index_complete : forall p,
  (forall st', reaches init p [] st' -> In (0, out st', files st') (runs p)) /\
  (forall pre o rest st' fs,
      p = pre ++ o :: rest -> reaches init pre (o :: rest) st' ->
      In (Fail fs) (step st' o (hd_error rest)) ->
      In (N.of_nat (S (length pre)), out st', fs) (runs p)).
Proof. exact exit_index_complete. Qed.
Print Assumptions C19_exit_index_complete.

Theorem C19_out_monotone : forall st o nxt st',
  In (Ok st') (step st o nxt) -> exists d, out st' = out st ++ d.
Proof. exact out_monotone. Qed.
Print Assumptions C19_out_monotone.

Theorem C19_run_in_runs : forall p, In (run p) (runs p).
Proof. exact run_in_runs. Qed.
Print Assumptions C19_run_in_runs.

(* ---- wrong type / missing TOP or PREV: failure, never ignored --------------------------------- *)

(* [req_top] / [req_prev] / [req_joint] are the table of what each option demands of TOP / PREV
   (the parenthesised types of the manual); if the demand is not met, EVERY allowed outcome is a
   failure.  Assertions: when not inverted by a pending -X. *)
Theorem C19_type_errors : forall st o nxt,
  operands_ok st o = false ->
  (is_assert o = true -> inv st = false) ->
  forall r, In r (step st o nxt) -> is_fail r = true.
Proof. exact type_errors. Qed.
Print Assumptions C19_type_errors.

Theorem C19_trunc_non_array : forall st z nxt,
  (forall l, top_node st <> Some (NArr l)) ->
  forall r, In r (step st (OTrunc z) nxt) -> is_fail r = true.
Proof. exact trunc_non_array. Qed.
Print Assumptions C19_trunc_non_array.

(* ---- frame: for EVERY option, what a successful execution may touch ---------------------------- *)

(* the stack: push one cell / pop one cell / unchanged / TOP moved back n places *)
Theorem C19_frame_stack : forall st o nxt st',
  In (Ok st') (step st o nxt) -> stack_frame o (stk st) (stk st').
Proof. exact frame_stack. Qed.
Print Assumptions C19_frame_stack.

(* the store: unchanged / extended (old cells untouched) / only TOP's node / only PREV's node *)
Theorem C19_frame_heap : forall st o nxt st',
  In (Ok st') (step st o nxt) -> heap_frame o st (hp st').
Proof. exact frame_heap. Qed.
Print Assumptions C19_frame_heap.

Theorem C19_frame_heap_alloc_values : forall st o nxt st' b v,
  heap_effect o = HAlloc -> In (Ok st') (step st o nxt) ->
  value (hp st) b = Some v -> value (hp st') b = Some v.
Proof. exact frame_heap_alloc_values. Qed.
Print Assumptions C19_frame_heap_alloc_values.

Theorem C19_store_update : forall (l : heap) a x,
  (forall b, a <> b -> nth_error (upd l a x) b = nth_error l b) /\
  ((a < length l)%nat -> nth_error (upd l a x) a = Some x).
Proof. exact store_update. Qed.
Print Assumptions C19_store_update.

(* stdout and files: only -o -f -u write; stdout is only appended to *)
Theorem C19_frame_io : forall st o nxt st',
  In (Ok st') (step st o nxt) -> io_frame o st st'.
Proof. exact frame_io. Qed.
Print Assumptions C19_frame_io.

(* the -X flag is set by -X and by nothing else, and does not survive the next option *)
Theorem C19_frame_flag : forall st o nxt st',
  In (Ok st') (step st o nxt) -> inv st' = match o with ONot => true | _ => false end.
Proof. exact frame_flag. Qed.
Print Assumptions C19_frame_flag.

(* ---- frame: the main families, with the values ------------------------------------------------ *)

(* allocation: the new cell is fresh and reads back as exactly the value *)
Theorem C19_alloc_value : forall j h,
  exists e, fst (alloc j h) = h ++ e /\ (length h <= snd (alloc j h))%nat /\
            value (fst (alloc j h)) (snd (alloc j h)) = Some j.
Proof. exact alloc_value. Qed.
Print Assumptions C19_alloc_value.

(* -j pushes one value and changes nothing else *)
Theorem C19_frame_json : forall st v nxt st',
  In (Ok st') (step st (OJson v) nxt) -> pushes_value v st st'.
Proof. exact frame_json. Qed.
Print Assumptions C19_frame_json.

Theorem C19_frame_quote : forall st s nxt st',
  In (Ok st') (step st (OQuote s) nxt) -> pushes_value (JStr s) st st'.
Proof. exact frame_quote. Qed.
Print Assumptions C19_frame_quote.

(* -c pushes a fresh deep copy *)
Theorem C19_frame_copy : forall st nxt st',
  In (Ok st') (step st OCopy nxt) ->
  exists t v, top_addr st = Some t /\ value (hp st) t = Some v /\ pushes_value v st st'.
Proof. exact frame_copy. Qed.
Print Assumptions C19_frame_copy.

(* -l pushes the integer length *)
Theorem C19_frame_length : forall st nxt st',
  In (Ok st') (step st OLength nxt) ->
  exists n, pushes_value (JInt (Z.of_nat n)) st st' /\
            ((exists l, top_node st = Some (NArr l) /\ n = length l) \/
             (exists m, top_node st = Some (NObj m) /\ n = length m) \/
             (exists s, top_node st = Some (NScal (JStr s)) /\ n = length s)).
Proof. exact frame_length. Qed.
Print Assumptions C19_frame_length.

(* -g pushes the member's cell without altering TOP's value or anything else *)
Theorem C19_frame_get : forall st arg nxt st',
  In (Ok st') (step st (OGet arg) nxt) ->
  hp st' = hp st /\ same_io st st' /\
  exists a, stk st' = a :: stk st /\
    ((exists m, top_node st = Some (NObj m) /\ alookup arg m = Some a) \/
     (exists l i, top_node st = Some (NArr l) /\ arg_index (length l) arg = Some i /\ nth_error l i = Some a)).
Proof. exact frame_get. Qed.
Print Assumptions C19_frame_get.

(* -U pops *)
Theorem C19_frame_unwind : forall st nxt st',
  In (Ok st') (step st OUnwind nxt) -> exists t, stk st = t :: stk st' /\ hp st' = hp st /\ same_io st st'.
Proof. exact frame_unwind. Qed.
Print Assumptions C19_frame_unwind.

(* -s rewrites PREV's node only, storing a REFERENCE to TOP's cell *)
Theorem C19_frame_set : forall st arg nxt st',
  In (Ok st') (step st (OSet arg) nxt) ->
  stk st' = stk st /\ same_io st st' /\
  exists t p, top_addr st = Some t /\ prev_addr st = Some p /\
    ((exists m, prev_node st = Some (NObj m) /\ hp st' = upd (hp st) p (NObj (aset arg t m))) \/
     (exists l i, prev_node st = Some (NArr l) /\ arg_index (length l) arg = Some i /\
                  hp st' = upd (hp st) p (NArr (upd l i t)))).
Proof. exact frame_set. Qed.
Print Assumptions C19_frame_set.

Theorem C19_frame_append : forall st nxt st',
  In (Ok st') (step st OAppend nxt) ->
  stk st' = stk st /\ same_io st st' /\
  exists t p, top_addr st = Some t /\ prev_addr st = Some p /\
    ((exists l, prev_node st = Some (NArr l) /\ hp st' = upd (hp st) p (NArr (l ++ [t]))) \/
     (exists m o, prev_node st = Some (NObj m) /\ top_node st = Some (NObj o) /\
                   hp st' = upd (hp st) p (NObj (add_missing m o)))).
Proof. exact frame_append. Qed.
Print Assumptions C19_frame_append.

(* -o writes the serialization of TOP and changes nothing else *)
Theorem C19_frame_output : forall st d nxt st',
  In (Ok st') (step st (OOutput d) nxt) ->
  stk st' = stk st /\ hp st' = hp st /\
  exists t v, top_addr st = Some t /\ value (hp st) t = Some v /\
    match d with
    | DStdout => out st' = out st ++ dump v /\ files st' = files st
    | DFile p => out st' = out st /\ files st' = aset p (dump v) (files st)
    end.
Proof. exact frame_output. Qed.
Print Assumptions C19_frame_output.

Theorem C19_frame_assert : forall st a nxt st',
  In (Ok st') (step st (OAssert a) nxt) -> st' = set_inv false st.
Proof. exact frame_assert. Qed.
Print Assumptions C19_frame_assert.

(* ---- -X ---------------------------------------------------------------------------------------- *)

Theorem C19_assertion_law : forall a st nxt b,
  holds a st = VHolds b ->
  step st (OAssert a) nxt = if xorb (inv st) b then [Ok (set_inv false st)] else [Fail (files st)].
Proof. exact assertion_law. Qed.
Print Assumptions C19_assertion_law.

(* -X inverts exactly the next assertion *)
Theorem C19_not_applies_once : forall st a a' nxt b b',
  inv st = false -> holds a st = VHolds b -> holds a' st = VHolds b' ->
  step st ONot (Some (OAssert a)) = [Ok (set_inv true st)] /\
  step (set_inv true st) (OAssert a) (Some (OAssert a')) =
    (if b then [Fail (files st)] else [Ok (set_inv false st)]) /\
  step (set_inv false st) (OAssert a') nxt =
    (if b' then [Ok (set_inv false st)] else [Fail (files st)]).
Proof. exact not_applies_once. Qed.
Print Assumptions C19_not_applies_once.

(* ---- indices ----------------------------------------------------------------------------------- *)

(* negative indices count from the end; out of range is no position *)
Theorem C19_index_conv : forall len z,
  match conv_index len z with
  | Some i => (i < len)%nat /\
              (((0 <= z)%Z /\ Z.of_nat i = z) \/ ((z < 0)%Z /\ Z.of_nat i = (Z.of_nat len + z)%Z))
  | None => (Z.of_nat len <= z)%Z \/ (z < - Z.of_nat len)%Z
  end.
Proof. exact conv_index_spec. Qed.
Print Assumptions C19_index_conv.

Theorem C19_get_by_index : forall st arg nxt l z,
  inv st = false -> top_node st = Some (NArr l) -> parse_index arg = Some z ->
  ((- Z.of_nat (length l) <= z < Z.of_nat (length l))%Z ->
     exists a, nth_error l (Z.to_nat (if (z <? 0)%Z then Z.of_nat (length l) + z else z)%Z) = Some a /\
               step st (OGet arg) nxt = [Ok (push_addr a st)]) /\
  ((Z.of_nat (length l) <= z)%Z \/ (z < - Z.of_nat (length l))%Z ->
     step st (OGet arg) nxt = [Fail (files st)]).
Proof. exact get_by_index. Qed.
Print Assumptions C19_get_by_index.

Theorem C19_delete_by_index : forall st arg nxt t l z,
  inv st = false -> top_addr st = Some t -> top_node st = Some (NArr l) -> parse_index arg = Some z ->
  ((- Z.of_nat (length l) <= z < Z.of_nat (length l))%Z ->
     step st (ODelete arg) nxt =
       [Ok (set_node t (NArr (remove_at (Z.to_nat (if (z <? 0)%Z then Z.of_nat (length l) + z else z)%Z) l)) st)]) /\
  ((Z.of_nat (length l) <= z)%Z \/ (z < - Z.of_nat (length l))%Z ->
     step st (ODelete arg) nxt = [Fail (files st)]).
Proof. exact delete_by_index. Qed.
Print Assumptions C19_delete_by_index.

(* ---- -t ---------------------------------------------------------------------------------------- *)

(* -t #: to length #;  -t -#: the last # items are discarded *)
Theorem C19_trunc : forall st z nxt t l,
  inv st = false -> top_addr st = Some t -> top_node st = Some (NArr l) ->
  ((0 <= z <= Z.of_nat (length l))%Z ->
     step st (OTrunc z) nxt = [Ok (set_node t (NArr (firstn (Z.to_nat z) l)) st)] /\
     length (firstn (Z.to_nat z) l) = Z.to_nat z) /\
  ((- Z.of_nat (length l) <= z < 0)%Z ->
     step st (OTrunc z) nxt = [Ok (set_node t (NArr (firstn (length l - Z.to_nat (- z)) l)) st)] /\
     length (firstn (length l - Z.to_nat (- z)) l) = (length l - Z.to_nat (- z))%nat).
Proof. exact trunc_spec. Qed.
Print Assumptions C19_trunc.

(* ---- non-vacuity ------------------------------------------------------------------------------- *)

(* the manual's own example: jose fmt -j '{}' -cs unprotected -q A128KW -s alg -UUo-
   (it only comes out like this because -s stores a reference, see the design note in Fmt.v) *)
Example C19_ex_manual :
  runs [OJson (JObj []); OCopy; OSet (s2b "unprotected"); OQuote (s2b "A128KW"); OSet (s2b "alg");
        OUnwind; OUnwind; OOutput DStdout]
  = [(0, s2b "{""unprotected"":{""alg"":""A128KW""}}", [])].
Proof. vm_compute. reflexivity. Qed.

(* sharing through -g, and its absence after -c *)
Example C19_ex_sharing :
  let v := JObj [(s2b "a", JArr [JInt 1])] in
  runs [OJson v; OGet (s2b "a"); OJson (JInt 7); OAppend; OUnwind; OUnwind; OOutput DStdout]
  = [(0, s2b "{""a"":[1,7]}", [])] /\
  runs [OJson v; OGet (s2b "a"); OCopy; OJson (JInt 7); OAppend; OUnwind; OUnwind; OUnwind; OOutput DStdout]
  = [(0, s2b "{""a"":[1]}", [])].
Proof. vm_compute. split; reflexivity. Qed.

(* a five-option program failing at its third option: what was printed before stays, nothing after *)
Example C19_ex_fail_index :
  runs [OJson (JArr [JInt 1; JInt 2; JInt 3]); OOutput DStdout; OGet (s2b "5"); OOutput DStdout; OUnwind]
  = [(3, s2b "[1,2,3]", [])].
Proof. vm_compute. reflexivity. Qed.

Example C19_ex_trunc :
  runs [OJson (JArr [JInt 1; JInt 2; JInt 3]); OTrunc (-1); OOutput DStdout] = [(0, s2b "[1,2]", [])] /\
  runs [OJson (JArr [JInt 1; JInt 2; JInt 3]); OTrunc 1; OOutput DStdout] = [(0, s2b "[1]", [])] /\
  runs [OJson (JInt 1); OTrunc 1; OOutput DStdout] = [(2, [], [])] /\
  runs [OTrunc 1] = [(1, [], [])].
Proof. vm_compute. repeat split; reflexivity. Qed.

Example C19_ex_not :
  runs [OJson (JInt 1); ONot; OAssert AObject; OAssert AObject] = [(4, [], [])] /\
  runs [OJson (JInt 1); ONot; OAssert AInteger] = [(3, [], [])] /\
  runs [OJson (JInt 1); OAssert AInteger; OAssert ANumber; ONot; OAssert AReal] = [(0, [], [])].
Proof. vm_compute. repeat split; reflexivity. Qed.

(* negative indices, files, foreach *)
Example C19_ex_misc :
  runs [OJson (JArr [JInt 1; JInt 2; JInt 3]); OGet (s2b "-1"); OOutput (DFile (s2b "f")); OUnwind;
        OGet (s2b "-4")] = [(5, [], [(s2b "f", s2b "3")])] /\
  runs [OJson (JObj [(s2b "b", JInt 1); (s2b "a", JStr (s2b "x"))]); OForeach DStdout; OLength; OOutput DStdout]
  = [(0, s2b "b=1" ++ [10] ++ s2b "a=""x""" ++ [10] ++ s2b "2", [])].
Proof. vm_compute. split; reflexivity. Qed.

(* a place where the manual is silent: both readings are members of the set *)
Example C19_ex_silent :
  runs [OJson (JInt 1); OB64Dump; OOutput DStdout] = [(2, [], []); (0, s2b """MQ""", [])] /\
  runs [ONot; OJson (JInt 1)] = [(1, [], []); (2, [], []); (0, [], [])].
Proof. vm_compute. split; reflexivity. Qed.

(* the premises of C19_type_errors are satisfiable: -l on an integer, -a without PREV *)
Example C19_ex_type_errors :
  forall st, In (Ok st) (step init (OJson (JInt 1)) None) ->
  operands_ok st OLength = false /\ operands_ok st OAppend = false /\ operands_ok st (OAssert AInteger) = true.
Proof. intros st [E|[]]. inversion E. vm_compute. repeat split; reflexivity. Qed.

(* ---- the acyclicity invariant --------------------------------------------------------------- *)

From JoseV Require Import Cli.FmtAcyclic.

(* -a -i -s -x store references and refuse to close a cycle.  Hence, for ALL programs and ALL
   states they can reach: every address of the store reads back (the value below it is finite and
   has no dangling reference), and every stack cell is an address of the store. *)
Theorem C19_acyclic_init :
  (forall a, (a < length (hp init))%nat -> value (hp init) a <> None) /\
  (forall a, In a (stk init) -> (a < length (hp init))%nat).
Proof. exact acyclic_init. Qed.
Print Assumptions C19_acyclic_init.

(* preservation: EVERY option, every successful outcome the manual allows *)
Theorem C19_acyclic_step : forall st o nxt st',
  ((forall a, (a < length (hp st))%nat -> value (hp st) a <> None) /\
   (forall a, In a (stk st) -> (a < length (hp st))%nat)) ->
  In (Ok st') (step st o nxt) ->
  (forall a, (a < length (hp st'))%nat -> value (hp st') a <> None) /\
  (forall a, In a (stk st') -> (a < length (hp st'))%nat).
Proof. exact acyclic_step. Qed.
Print Assumptions C19_acyclic_step.

(* [reaches init pre rest st]: st is a state after the successful options [pre] of a program
   [pre ++ rest] (the states [runs] goes through, see C19_exit_index) *)
Theorem C19_acyclic_reachable : forall pre rest st,
  reaches init pre rest st ->
  (forall a, (a < length (hp st))%nat -> value (hp st) a <> None) /\
  (forall a, In a (stk st) -> (a < length (hp st))%nat).
Proof. exact reachable_acyclic. Qed.
Print Assumptions C19_acyclic_reachable.

Theorem C19_acyclic_stack_value : forall pre rest st a,
  reaches init pre rest st -> In a (stk st) -> exists v, value (hp st) a = Some v.
Proof. exact reachable_stack_value. Qed.
Print Assumptions C19_acyclic_stack_value.

(* the two store lemmas behind it.  (1) fuel: what can be read with SOME fuel can be read by
   [value], i.e. "an acyclic value is never deeper than the number of nodes" *)
Theorem C19_acyclic_fuel : forall f h a, reify f h a <> None -> value h a <> None.
Proof. exact rd_value. Qed.
Print Assumptions C19_acyclic_fuel.

(* (2) one node replaced by any node: if the replaced node reads back afterwards, everything does *)
Theorem C19_acyclic_guarded_update : forall h p n,
  (forall a, (a < length h)%nat -> value h a <> None) ->
  value (upd h p n) p <> None ->
  forall a, (a < length (upd h p n))%nat -> value (upd h p n) a <> None.
Proof. exact upd_guard_ok. Qed.
Print Assumptions C19_acyclic_guarded_update.

(* what the guard of -a -i -s -x does *)
Theorem C19_acyclic_guard : forall p st' st r,
  In r (guard_cyc p st' st) ->
  (r = Ok st' /\ value (hp st') p <> None) \/ (r = Fail (files st) /\ value (hp st') p = None).
Proof. exact guard_cyc_sound. Qed.
Print Assumptions C19_acyclic_guard.

(* consequences, in every reachable state (no -X pending where the option is not an assertion:
   a pending -X adds the documented "silent" failure, nothing else).
   -o with a TOP: exactly one outcome, success *)
Theorem C19_acyclic_output : forall pre rest st d nxt t,
  reaches init pre rest st -> inv st = false -> top_addr st = Some t ->
  exists v, value (hp st) t = Some v /\ step st (OOutput d) nxt = [Ok (write d (dump v) st)].
Proof. exact reachable_output. Qed.
Print Assumptions C19_acyclic_output.

(* -f on an array / object: exactly one outcome, success; no item is unreadable *)
Theorem C19_acyclic_foreach : forall pre rest st d nxt n,
  reaches init pre rest st -> inv st = false -> top_node st = Some n -> (forall v, n <> NScal v) ->
  exists text, foreach_lines (hp st) n = Some (Some text) /\
               step st (OForeach d) nxt = [Ok (write d text st)].
Proof. exact reachable_foreach. Qed.
Print Assumptions C19_acyclic_foreach.

(* no assertion, -E included, ever has the verdict "undefined" *)
Theorem C19_acyclic_holds : forall pre rest st a, reaches init pre rest st -> holds a st <> VUndef.
Proof. exact reachable_holds. Qed.
Print Assumptions C19_acyclic_holds.

(* -E with both operands: decided by the comparison of the two values and the pending -X alone *)
Theorem C19_acyclic_equal : forall pre rest st nxt t p,
  reaches init pre rest st -> top_addr st = Some t -> prev_addr st = Some p ->
  exists x y, value (hp st) t = Some x /\ value (hp st) p = Some y /\
    step st (OAssert AEqual) nxt =
      if xorb (inv st) (jequal x y) then [Ok (set_inv false st)] else [Fail (files st)].
Proof. exact reachable_equal. Qed.
Print Assumptions C19_acyclic_equal.

(* -c with a TOP: exactly one outcome, success *)
Theorem C19_acyclic_copy : forall pre rest st nxt t,
  reaches init pre rest st -> inv st = false -> top_addr st = Some t ->
  exists v, value (hp st) t = Some v /\ step st OCopy nxt = [Ok (push_val v st)].
Proof. exact reachable_copy. Qed.
Print Assumptions C19_acyclic_copy.

(* -Y with a TOP: the value is found; only the documented choice for scalars remains *)
Theorem C19_acyclic_b64dump : forall pre rest st nxt t,
  reaches init pre rest st -> inv st = false -> top_addr st = Some t ->
  exists v, value (hp st) t = Some v /\
    step st OB64Dump nxt =
      if is_container v then [Ok (push_val (JStr (b64url_enc (dump v))) st)]
      else [Fail (files st); Ok (push_val (JStr (b64url_enc (dump v))) st)].
Proof. exact reachable_b64dump. Qed.
Print Assumptions C19_acyclic_b64dump.

(* -Q never fails *)
Theorem C19_acyclic_query : forall pre rest st nxt,
  reaches init pre rest st -> inv st = false ->
  exists vs, mapM (value (hp st)) (stk st) = Some vs /\
    step st OQuery nxt = [Ok (push_val (JArr vs) st); Ok (push_val (JArr (rev vs)) st)].
Proof. exact reachable_query. Qed.
Print Assumptions C19_acyclic_query.

(* the hypotheses are met by a non-trivial state: after  -j '{}' -j '[1]' -s x  the store holds a
   shared node (cell 2 is TOP and the member "x" of PREV); and an option that would close a cycle
   ( [] appended to the object that is its own member ) fails, here as option 5 *)
Example C19_ex_acyclic :
  let st := mkst [2; 0]%nat [NObj [(s2b "x", 2%nat)]; NScal (JInt 1); NArr [1%nat]] false [] [] in
  reaches init [OJson (JObj []); OJson (JArr [JInt 1]); OSet (s2b "x")] [] st /\
  inv st = false /\ top_addr st = Some 2%nat /\ prev_addr st = Some 0%nat /\
  top_node st = Some (NArr [1%nat]) /\
  value (hp st) 0%nat = Some (JObj [(s2b "x", JArr [JInt 1])]) /\
  runs [OJson (JObj []); OJson (JArr []); OSet (s2b "x"); OMove 1; OAppend; OOutput DStdout] = [(5, [], [])] /\
  runs [OJson (JObj []); OJson (JArr []); OSet (s2b "x"); OMove 1; OUnwind; OOutput DStdout]
    = [(0, s2b "[]", [])].
Proof.
  cbv zeta. split.
  - eapply reaches_cons; [vm_compute; left; reflexivity|].
    eapply reaches_cons; [vm_compute; left; reflexivity|].
    eapply reaches_cons; [vm_compute; left; reflexivity|]. apply reaches_nil.
  - vm_compute. repeat split; reflexivity.
Qed.
