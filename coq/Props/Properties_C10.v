(* C10 -- weak or invalid key material is refused.
   Only statements, each closed by [exact] of a lemma of Jwk/KeyCheckProofs.v.  The tests are those the
   models of sign / verify / encrypt / decrypt / wrap / unwrap / exchange call before any cryptography
   (C01..C04, C13 use the same definitions). *)
From JoseV Require Import Jwk.KeyCheck Jwk.KeyCheckPk Jwk.KeyCheckProofs Gen.Consts Gen.Tables Codec.B64Spec.
From JoseV Require Import Crypto.BigNum Crypto.Ec Jose.PkAlgs Jose.PkEncAlgs.
Local Open Scope N_scope.

(* HMAC: accepted keys decode to at least the hash output size and at most KEYMAX octets *)
Theorem C10_hmac_key : forall alg key,
  mem alg hs_names = true -> sig_key_ok alg key = true ->
  exists k, oct_key key = Some k /\ rfc7518_hmac_min alg <= blen k /\ blen k <= keymax.
Proof. exact hmac_key_accepted. Qed.
Print Assumptions C10_hmac_key.

Theorem C10_hmac_min_is_hash_len :
  rfc7518_hmac_min n_HS256 = hash_len (hs_hash n_HS256) /\ rfc7518_hmac_min n_HS384 = hash_len (hs_hash n_HS384) /\
  rfc7518_hmac_min n_HS512 = hash_len (hs_hash n_HS512).
Proof. exact hmac_min_is_hash_len. Qed.
Print Assumptions C10_hmac_min_is_hash_len.

(* content encryption keys: exactly 16/24/32 (GCM), 32/48/64 (CBC-HMAC) octets *)
Theorem C10_cek_exact : forall alg cek,
  enc_key_ok alg cek = true ->
  exists n k, rfc7518_cek_len alg = Some n /\ member_bytes s_k cek = Some k /\ blen k = n.
Proof. exact cek_accepted. Qed.
Print Assumptions C10_cek_exact.

Theorem C10_content_alg_uses_exact_key : forall name eprm dprm jwe cek ct pt,
  ea_dec (gcm_alg name eprm dprm) jwe cek ct = Some pt \/ ea_dec (cbchs_alg name eprm dprm) jwe cek ct = Some pt ->
  exists k, key_exact cek (match enc_key_len name with Some n => n | None => 0 end) = Some k.
Proof. exact content_alg_uses_exact_key. Qed.
Print Assumptions C10_content_alg_uses_exact_key.

Theorem C10_key_exact_len : forall jwk n k, key_exact jwk n = Some k -> blen k = n.
Proof. exact key_exact_len. Qed.
Print Assumptions C10_key_exact_len.

(* key wrapping keys: exactly 16/24/32 octets *)
Theorem C10_kw_keylen_table :
  map kw_keylen [n_A128KW; n_A192KW; n_A256KW; n_A128GCMKW; n_A192GCMKW; n_A256GCMKW] = [16; 24; 32; 16; 24; 32].
Proof. exact kw_keylen_table. Qed.
Print Assumptions C10_kw_keylen_table.

Theorem C10_kw_unwrap_needs_exact_kek : forall name rcp jwk cek r,
  aeskw_unw name rcp jwk cek = Some r -> exists kek, key_exact jwk (kw_keylen name) = Some kek.
Proof. exact kw_unwrap_needs_exact_kek. Qed.
Print Assumptions C10_kw_unwrap_needs_exact_kek.

(* larger than the supported maximum: refused *)
Theorem C10_pbes2_password_bound : forall jwk pw, pbes2_password jwk = Some pw -> blen pw <= keymax.
Proof. exact pbes2_password_bound. Qed.
Print Assumptions C10_pbes2_password_bound.

Theorem C10_kw_wrapped_key_bound : forall name rcp jwk cek r s,
  aeskw_unw name rcp jwk cek = Some r -> lookup s_encrypted_key rcp = Some (JStr s) ->
  exists ctl, b64_dlen (blen s) = Some ctl /\ ctl <= keymax + 16.
Proof. exact kw_wrapped_key_bound. Qed.
Print Assumptions C10_kw_wrapped_key_bound.

Theorem C10_keymax : keymax = 1024.
Proof. exact keymax_is_1024. Qed.
Print Assumptions C10_keymax.

(* RSA signature keys: modulus of at least 256 octets, signing and verifying *)
Theorem C10_rsa_sig_key : forall jwk,
  rsa_sig_key_ok jwk = true ->
  exists n e, rsa_pub jwk = Some (n, e) /\ (256 <= octet_len B (of_bytes B n))%nat.
Proof. exact rsa_sig_key_accepted. Qed.
Print Assumptions C10_rsa_sig_key.

Theorem C10_rsa_algs_test_keys : forall a,
  In a pk_sign_algs -> mem (sa_name a) rs_names = true ->
  sa_sig_ok a = rsa_sig_key_ok /\ sa_ver_ok a = rsa_sig_key_ok.
Proof. exact pk_sign_algs_test_keys. Qed.
Print Assumptions C10_rsa_algs_test_keys.

(* EC keys: named curve; the point that is used is (x mod p, y mod p) -- OpenSSL reduces the supplied
   coordinates -- and it satisfies the curve equation; a present private value is in [1, n) with d G = that point *)
Theorem C10_ec_key : forall jwk cv X Y,
  ec_pub jwk = Some (cv, X, Y) ->
  exists c x y,
    get_opt_str s_crv jwk = OStr c /\ curve_by_name c = Some cv /\
    b64m s_x jwk = Some x /\ b64m s_y jwk = Some y /\
    X = imod B (of_bytes B x) (c_p (curve_of B cv)) /\ Y = imod B (of_bytes B y) (c_p (curve_of B cv)) /\
    valid_public B (curve_of B cv) X Y = true /\
    (forall dv, lookup s_d jwk = Some dv ->
       exists ds d, dv = JStr ds /\ dec ds = Some d /\
                    valid_private B (curve_of B cv) (of_bytes B d) X Y = true).
Proof. exact ec_key_accepted. Qed.
Print Assumptions C10_ec_key.

Theorem C10_valid_public_spec : forall T (ops : intops T) c x y,
  valid_public ops c x y = in_range ops x (c_p c) && in_range ops y (c_p c) && on_curve ops c x y.
Proof. exact @valid_public_spec. Qed.
Print Assumptions C10_valid_public_spec.

Theorem C10_valid_private_spec : forall T (ops : intops T) c d x y,
  valid_private ops c d x y = in_range1 ops d (c_n c) && point_eqb ops (smul ops c d (base c)) (Aff x y).
Proof. exact @valid_private_spec. Qed.
Print Assumptions C10_valid_private_spec.

Theorem C10_named_curves : forall c cv,
  curve_by_name c = Some cv -> In (c, cv) [(c_P256, p256); (c_P384, p384); (c_P521, p521); (c_K256, secp256k1)].
Proof. exact named_curves. Qed.
Print Assumptions C10_named_curves.

Theorem C10_ecdh_needs_valid_keys : forall prv pub z,
  ecdh_x prv pub = Some z -> ec_ok prv = true /\ ec_ok pub = true /\ has_d prv = true.
Proof. exact ecdh_needs_valid_keys. Qed.
Print Assumptions C10_ecdh_needs_valid_keys.

(* the premises are satisfiable *)
Example C10_hmac_ex : sig_key_ok n_HS256 (JObj [(s_kty, JStr t_oct); (s_k, JStr (enc (repeatN 7 32)))]) = true
                   /\ sig_key_ok n_HS256 (JObj [(s_kty, JStr t_oct); (s_k, JStr (enc (repeatN 7 31)))]) = false.
Proof. vm_compute. split; reflexivity. Qed.
Example C10_cek_ex : enc_key_ok n_A128GCM (JObj [(s_k, JStr (enc (repeatN 7 16)))]) = true
                  /\ enc_key_ok n_A128GCM (JObj [(s_k, JStr (enc (repeatN 7 17)))]) = false.
Proof. vm_compute. split; reflexivity. Qed.
