(* C18 -- the command-line tool is faithful to the library: exit status and output.
   Only statements, each closed by [exact] of a lemma proved in Cli/CmdsProofs.v.

   The models (Cli/Cmds.v, Cli/Compact.v) are functions of the library models of the other
   properties (Jose/Jws.v ver_io, Jose/Jwe.v dec_jwk / dec_cek_octets, Jwk/*.v, Io/Chain.v).
   The models follow the code after the repairs recorded in Cli/C18_NOTES.md (NULL verifier test,
   `!= dlen`, recipient count, json_object_del of the streamed member, EXIT_FAILURE on a missing tag):
   every statement is at full strength; no `_refuted` theorem is left. *)
From JoseV Require Import Cli.Compact Cli.Cmds Cli.CmdsProofs Jose.JwsProofs Jose.SigAlgs Jose.EncAlgs Io.ChainProofs.
From JoseV Require Import Gen.Consts.
Local Open Scope N_scope.

(* ---- jose jws ver ------------------------------------------------------------------------------------ *)

(* exit status 0 => the library's verification of the payload text that was fed, with the same keys
   and the same -a flag, says true.  For EVERY option combination (-a, -O, -I, any key list, any of the
   three ways the payload arrives). *)
Theorem C18_ver_exit : forall algs o,
  cli_src_wf (cv_src o) ->
  fst (cli_jws_ver algs o) = 0 ->
  exists text, cli_jws_text (cv_jws o) (cv_src o) = Some text /\ cli_lib_ver algs o text = true.
Proof. intros algs o W. exact (ver_exit_sound algs true o W (or_introl eq_refl)). Qed.
Print Assumptions C18_ver_exit.

(* the payload is the member of the object: that verdict is jose_jws_ver's *)
Theorem C18_ver_exit_member : forall algs o pay,
  cv_src o = Src_member -> lookup cli_s_payload (cv_jws o) = Some (JStr pay) ->
  fst (cli_jws_ver algs o) = 0 ->
  jws_ver algs (cv_jws o) None (JArr (cv_keys o)) (cv_all o) = true.
Proof. intros algs o pay. exact (ver_exit_member algs true o pay (or_introl eq_refl)). Qed.
Print Assumptions C18_ver_exit_member.

(* what the NULL test between jose_jws_ver_io() and jcmd_jws_prep_io() is for: the same program without it
   exits 0 and prints the payload for -a -O with a key the library refuses (the defect repaired in /repo) *)
Theorem C18_ver_null_test_needed :
  exists algs o,
    cli_jws_ver_unchecked algs o = (0, [104; 105]) /\
    jws_ver algs (cv_jws o) None (JArr (cv_keys o)) (cv_all o) = false /\
    cli_jws_ver algs o = (1, []).
Proof. exact ver_null_test_needed. Qed.
Print Assumptions C18_ver_null_test_needed.

(* the exit status as a function of the verdicts of the multiplexer's branches (what the
   correspondence driver evaluates) *)
Theorem C18_ver_glue : forall algs o chunks,
  cli_ver_valid_input o = true ->
  cli_jws_chunks (cv_jws o) (cv_src o) = Some chunks ->
  let wrap := fun c => if cli_src_detached (cv_src o) then B64Enc c else c in
  fst (cli_jws_ver algs o) =
  cli_ver_glue (option_map (fun v => snd (runc (wrap v) chunks))
                           (ver_io algs (cv_jws o) None (JArr (cv_keys o)) (cv_all o)))
               (if cv_detach o then Some (snd (runc (wrap (B64Dec (Sink (SFile [])))) chunks)) else None).
Proof. exact ver_glue_correct. Qed.
Print Assumptions C18_ver_glue.

(* ---- jose jwe dec ------------------------------------------------------------------------------------ *)

Theorem C18_dec_exit : forall walgs ealgs inflate o,
  fst (cli_jwe_dec walgs ealgs inflate o) = 0 ->
  exists cek cto,
    dec_jwk walgs (cd_jwe o) None (JArr (cd_keys o)) = Some cek /\
    cli_jwe_octets (cd_jwe o) (cd_src o) = Some cto /\
    dec_cek_octets ealgs inflate (cd_jwe o) cek cto = Some (snd (cli_jwe_dec walgs ealgs inflate o)).
Proof. exact dec_exit_sound. Qed.
Print Assumptions C18_dec_exit.

Theorem C18_dec_exit_member : forall o ct,
  cd_src o = Src_member -> lookup cli_s_ciphertext (cd_jwe o) = Some (JStr ct) ->
  (match protected_zip (cd_jwe o) with Some z => bytes_eqb z s_DEF | None => false end
   && (max_compressed_size <? blen ct) = false) ->
  fst (cli_jwe_dec real_wrap_algs real_encr_algs inflate o) = 0 ->
  jwe_dec (cd_jwe o) None (JArr (cd_keys o)) = Some (snd (cli_jwe_dec real_wrap_algs real_encr_algs inflate o)).
Proof. exact dec_exit_member. Qed.
Print Assumptions C18_dec_exit_member.

(* the exit status is the conjunction of the three library steps (what the correspondence driver evaluates
   for key types the executable model has no primitive for) *)
Theorem C18_dec_glue : forall walgs ealgs inflate o chunks,
  is_object (cd_jwe o) = true -> cd_keys o <> [] ->
  cli_jwe_chunks (cd_jwe o) (cd_src o) = Some chunks ->
  fst (cli_jwe_dec walgs ealgs inflate o) =
  cli_dec_glue (cli_is_some (dec_jwk walgs (cd_jwe o) None (JArr (cd_keys o))))
               (cli_is_some (cli_jwe_octets (cd_jwe o) (cd_src o)))
               (match dec_jwk walgs (cd_jwe o) None (JArr (cd_keys o)), cli_jwe_octets (cd_jwe o) (cd_src o) with
                | Some cek, Some cto => cli_is_some (dec_cek_octets ealgs inflate (cd_jwe o) cek cto)
                | _, _ => false
                end).
Proof. exact dec_glue_correct. Qed.
Print Assumptions C18_dec_glue.

(* ---- jose jwk thp: `jose_jwk_thp_buf(...) != dlen` ---------------------------------------------------- *)

Theorem C18_refusal_thp : forall h dlen,
  In h cli_hash_names -> fst (jwk_thp_buf JNull h None) = Some dlen ->
  forall keys, (exists k, In k keys /\ cli_thp_refuses h dlen k) ->
  fst (cli_jwk_thp keys h None) = 1.
Proof. exact refusal_thp. Qed.
Print Assumptions C18_refusal_thp.

Theorem C18_refusal_thp_single : forall h dlen,
  In h cli_hash_names -> fst (jwk_thp_buf JNull h None) = Some dlen ->
  forall k, cli_thp_refuses h dlen k -> cli_jwk_thp [k] h None = (1, []).
Proof. exact refusal_thp_single. Qed.
Print Assumptions C18_refusal_thp_single.

(* and on success the output is the base64url of the library's digest *)
Theorem C18_thp_single_ok : forall h dlen,
  In h cli_hash_names -> fst (jwk_thp_buf JNull h None) = Some dlen ->
  forall k d, jwk_thp_buf k h (Some dlen) = (Some dlen, d) -> cli_jwk_thp [k] h None = (0, enc d).
Proof. exact thp_single_ok. Qed.
Print Assumptions C18_thp_single_ok.

(* ---- the other subcommands: library refuses => status 1 and no product ---------------------------- *)

Theorem C18_refusal_pub : forall keys set k, In k keys -> jwk_pub k = None -> cli_jwk_pub keys set = (1, []).
Proof. exact refusal_pub. Qed.
Print Assumptions C18_refusal_pub.

Theorem C18_pub_success : forall keys set out,
  cli_jwk_pub keys set = (0, out) ->
  exists ks, cli_all_some jwk_pub keys = Some ks /\ ks <> [] /\ cli_jwk_out ks set = Some out.
Proof. exact pub_success. Qed.
Print Assumptions C18_pub_success.

Theorem C18_refusal_use : forall keys uses all req set k,
  In k keys -> cli_use_status all req uses k = false -> cli_jwk_use keys uses all req false set = (1, []).
Proof. exact refusal_use. Qed.
Print Assumptions C18_refusal_use.

Theorem C18_refusal_use_filter : forall keys uses all req set,
  (forall k, In k keys -> cli_use_status all req uses k = false) ->
  cli_jwk_use keys uses all req true set = (1, []).
Proof. exact refusal_use_filter. Qed.
Print Assumptions C18_refusal_use_filter.

Theorem C18_use_status : forall all req uses k,
  cli_use_status all req uses k = true <->
  if all then forall u, In u uses -> jwk_prm k req (Some u) = true
  else exists u, In u uses /\ jwk_prm k req (Some u) = true.
Proof. exact use_status_spec. Qed.
Print Assumptions C18_use_status.

Theorem C18_refusal_eql : forall l1 a b l2, jwk_eql a b = false -> cli_jwk_eql (l1 ++ a :: b :: l2) = 1.
Proof. exact refusal_eql. Qed.
Print Assumptions C18_refusal_eql.

Theorem C18_eql_two : forall a b, cli_jwk_eql [a; b] = 0 <-> jwk_eql a b = true.
Proof. exact eql_two. Qed.
Print Assumptions C18_eql_two.

Theorem C18_refusal_exc : forall xalgs tmpls l r,
  jwk_exc xalgs l r = None -> cli_jwk_exc xalgs tmpls [l] [r] = (1, []).
Proof. exact refusal_exc. Qed.
Print Assumptions C18_refusal_exc.

Theorem C18_refusal_gen : forall gen tmpls set t,
  In t tmpls -> gen t = None -> cli_jwk_gen gen tmpls set = (1, []).
Proof. exact refusal_gen. Qed.
Print Assumptions C18_refusal_gen.

Theorem C18_b64_dec_exit : forall input,
  fst (cli_b64_dec input) = 0 -> dec (cli_b64_text input) = Some (snd (cli_b64_dec input)).
Proof. exact b64_dec_exit. Qed.
Print Assumptions C18_b64_dec_exit.

Theorem C18_refusal_b64_dec : forall input, dec (cli_b64_text input) = None -> fst (cli_b64_dec input) = 1.
Proof. exact refusal_b64_dec. Qed.
Print Assumptions C18_refusal_b64_dec.

Theorem C18_b64_enc_total : forall input, wf_bytes input -> cli_b64_enc input = (0, enc input).
Proof. exact b64_enc_total. Qed.
Print Assumptions C18_b64_enc_total.

Theorem C18_refusal_sig : forall algs o signed,
  (forall t, signed t = None) ->
  fst (cli_jws_sig_glue algs o signed) = 1 /\
  (snd (cli_jws_sig_glue algs o signed) = [] \/
   exists head body,
     snd (cli_jws_sig_glue algs o signed) = head ++ body /\
     (body = [] \/ cli_jws_text (cs_jws o) (cs_src o) = Some body) /\
     if cs_compact o then exists p, head = p ++ [cli_dot]
     else head = 123 :: (if cs_detach o then [] else cli_q_payload)).
Proof. exact refusal_sig. Qed.
Print Assumptions C18_refusal_sig.

Theorem C18_refusal_sig_no_token : forall algs o signed,
  (forall t, signed t = None) -> cs_compact o = false ->
  (forall t, cli_jws_text (cs_jws o) (cs_src o) = Some t -> cli_b64text t) ->
  cli_is_token false 2 (snd (cli_jws_sig_glue algs o signed)) = false.
Proof. exact refusal_sig_no_json_token. Qed.
Print Assumptions C18_refusal_sig_no_token.

Theorem C18_refusal_enc_wrap : forall enc_jwk enc_cek_new enc_cek_run o,
  (forall j r k c, enc_jwk j r k c = None) -> ce_keys o <> [] ->
  cli_jwe_enc enc_jwk enc_cek_new enc_cek_run o = (1, []).
Proof. exact refusal_enc_wrap. Qed.
Print Assumptions C18_refusal_enc_wrap.

Theorem C18_refusal_enc_new : forall enc_jwk enc_cek_new enc_cek_run o,
  (forall j c, enc_cek_new j c = None) -> cli_jwe_enc enc_jwk enc_cek_new enc_cek_run o = (1, []).
Proof. exact refusal_enc_new. Qed.
Print Assumptions C18_refusal_enc_new.

Theorem C18_refusal_enc_run : forall enc_jwk enc_cek_new enc_cek_run o,
  (forall j c p, enc_cek_run j c p = None) ->
  let r := cli_jwe_enc enc_jwk enc_cek_new enc_cek_run o in
  fst r = 1 /\
  (snd r = [] \/
   if ce_compact o then exists p k iv, snd r = p ++ [cli_dot] ++ k ++ [cli_dot] ++ iv ++ [cli_dot]
   else snd r = 123 :: (if ce_detach o then [] else cli_q_ciphertext)).
Proof. exact refusal_enc_run. Qed.
Print Assumptions C18_refusal_enc_run.

(* status 0 in compact mode means the tag was printed ("Missing tag parameter!" is a failure) *)
Theorem C18_enc_compact_complete : forall enc_jwk enc_cek_new enc_cek_run o out,
  ce_compact o = true -> cli_jwe_enc enc_jwk enc_cek_new enc_cek_run o = (0, out) ->
  exists body t, out = body ++ [cli_dot] ++ t.
Proof. exact enc_compact_complete. Qed.
Print Assumptions C18_enc_compact_complete.

(* ---- the streamed member is printed once; -O really detaches ------------------------------------------ *)

Theorem C18_streamed_member_removed : forall k m,
  NoDup (akeys m) ->
  lookup k (cli_without k (JObj m)) = None /\
  forall k', k <> k' -> lookup k' (cli_without k (JObj m)) = lookup k' (JObj m).
Proof. exact without_removes. Qed.
Print Assumptions C18_streamed_member_removed.

(* `jws sig`, JSON output: the payload text (absent with -O), then the library's object without "payload" *)
Theorem C18_sig_json_shape : forall algs o signed out,
  cs_compact o = false -> cli_jws_sig_glue algs o signed = (0, out) ->
  exists text j',
    cli_jws_text (cs_jws o) (cs_src o) = Some text /\ signed text = Some j' /\
    out = (123 :: (if cs_detach o then [] else cli_q_payload)) ++ (if cs_detach o then [] else text)
          ++ (if cs_detach o then [] else [34; 44]) ++ cli_dump_embed (cli_without cli_s_payload j') ++ [125].
Proof. exact sig_json_shape. Qed.
Print Assumptions C18_sig_json_shape.

(* `jws fmt` / `jwe fmt`, JSON output *)
Theorem C18_fmt_json_no_repeat : forall jwe arg file st out,
  cli_fmt jwe false arg file = Some (st, out) -> st = 0 ->
  exists body j, out = 123 :: (if jwe then cli_q_ciphertext else cli_q_payload) ++ body ++ [34; 44]
                       ++ cli_dump_embed (cli_without (if jwe then cli_s_ciphertext else cli_s_payload) j) ++ [125].
Proof. exact fmt_json_no_repeat. Qed.
Print Assumptions C18_fmt_json_no_repeat.

(* ---- what `jwe enc` prints, `jwe dec` accepts ------------------------------------------------------------ *)

(* for the object `jwe enc` prints ("ciphertext" = base64url of the octets ct, or ct in the -O file): whenever the
   library decrypts ct under the keys given (its own round trip -- compression included -- is C04/C07's subject),
   `jwe dec` exits 0 with exactly that plaintext, from the member and from -I alike *)
Theorem C18_dec_accepts : forall walgs ealgs inflate jwe keys cek ct pt,
  is_object jwe = true -> keys <> [] -> wf_bytes ct ->
  dec_jwk walgs jwe None (JArr keys) = Some cek ->
  dec_cek_octets ealgs inflate jwe cek ct = Some pt ->
  (lookup cli_s_ciphertext jwe = Some (JStr (enc ct)) ->
   cli_jwe_dec walgs ealgs inflate {| cd_jwe := jwe; cd_keys := keys; cd_pwd := false; cd_src := Src_member |} = (0, pt)) /\
  cli_jwe_dec walgs ealgs inflate {| cd_jwe := jwe; cd_keys := keys; cd_pwd := false; cd_src := Src_detached ct |} = (0, pt).
Proof. exact dec_accepts. Qed.
Print Assumptions C18_dec_accepts.

(* ---- compact <-> JSON -------------------------------------------------------------------------------- *)

(* what parse_compact accepts, exactly, for dot-free fields *)
Theorem C18_parse_compact_exact : forall names fs acc,
  length names = length fs -> names <> [] -> Forall cli_nodot fs ->
  cli_parse_fields names (join [cli_dot] fs) acc =
  if forallb cli_valid_b64 fs
  then Some (fold_left (fun a nf => aset (fst nf) (JStr (snd nf)) a) (combine names fs) acc)
  else None.
Proof. exact parse_fields_join. Qed.
Print Assumptions C18_parse_compact_exact.

Theorem C18_parse_compact_rejects : forall fields fs,
  length fields = length fs -> fields <> [] -> Forall cli_nodot fs ->
  (exists f c, In f fs /\ In c f /\ ~ In c alphabet) ->
  cli_parse_compact fields (join [cli_dot] fs) = None.
Proof. exact parse_compact_rejects. Qed.
Print Assumptions C18_parse_compact_rejects.

Theorem C18_parse_compact_short : forall fields fs,
  (0 < length fs < length fields)%nat -> Forall cli_nodot fs ->
  cli_parse_compact fields (join [cli_dot] fs) = None.
Proof. exact parse_compact_short. Qed.
Print Assumptions C18_parse_compact_short.

(* to_compact (to_flat c) = c for every well-formed compact JWS / JWE *)
Theorem C18_fmt_roundtrip : forall p pl sg,
  cli_b64text p -> cli_b64text pl -> cli_b64text sg ->
  let c := p ++ [cli_dot] ++ pl ++ [cli_dot] ++ sg in
  exists j, cli_parse_compact cli_jws_fields c = Some j /\ cli_jws_fmt_compact j = Some c.
Proof. exact fmt_roundtrip_jws. Qed.
Print Assumptions C18_fmt_roundtrip.

Theorem C18_fmt_roundtrip_jwe : forall p k iv ct t,
  cli_b64text p -> cli_b64text k -> cli_b64text iv -> cli_b64text ct -> cli_b64text t ->
  let c := p ++ [cli_dot] ++ k ++ [cli_dot] ++ iv ++ [cli_dot] ++ ct ++ [cli_dot] ++ t in
  exists j, cli_parse_compact cli_jwe_fields c = Some j /\ cli_jwe_fmt_compact j = Some c.
Proof. exact fmt_roundtrip_jwe. Qed.
Print Assumptions C18_fmt_roundtrip_jwe.

(* flattened -> general -> flattened keeps every member *)
Theorem C18_flat_general_flat : forall plural ks m,
  alookup plural m = None -> existsb (bytes_eqb plural) ks = false ->
  exists g f, cli_to_general plural ks (JObj m) = Some g /\ cli_to_flat plural g = Some f /\
              forall k, lookup k f = lookup k (JObj m).
Proof. exact flat_general_flat. Qed.
Print Assumptions C18_flat_general_flat.

(* the compact writer reads a general object with ONE signature as it reads its flattened form *)
Theorem C18_compact_general_is_flat : forall m e pay,
  NoDup (akeys m) ->
  alookup s_signatures m = Some (JArr [JObj e]) ->
  alookup s_protected m = None -> alookup s_signature m = None ->
  alookup s_signatures e = None ->
  (match alookup s_protected e with Some (JStr _) | None => True | _ => False end) ->
  exists f, cli_to_flat s_signatures (JObj m) = Some f /\
            cli_jws_compact f pay = cli_jws_compact (JObj m) pay.
Proof. exact compact_general_is_flat. Qed.
Print Assumptions C18_compact_general_is_flat.

(* more than one signature: the request for the compact form fails *)
Theorem C18_compact_multi_fails : forall m s1 s2 r pay,
  alookup s_signatures m = Some (JArr (s1 :: s2 :: r)) ->
  alookup s_signature m = None ->
  cli_jws_compact (JObj m) pay = None.
Proof. exact compact_multi_fails_jws. Qed.
Print Assumptions C18_compact_multi_fails.

(* more than one recipient: likewise (the count is tested before any field is read) *)
Theorem C18_compact_multi_fails_jwe : forall j r1 r2 r ct,
  lookup s_recipients j = Some (JArr (r1 :: r2 :: r)) -> cli_jwe_compact j ct = None.
Proof. exact compact_multi_fails_jwe. Qed.
Print Assumptions C18_compact_multi_fails_jwe.

Theorem C18_compact_multi_fails_jwe_fmt : forall j r1 r2 r,
  lookup s_recipients j = Some (JArr (r1 :: r2 :: r)) -> cli_jwe_fmt_compact j = None.
Proof. exact compact_multi_fails_jwe_fmt. Qed.
Print Assumptions C18_compact_multi_fails_jwe_fmt.

(* ---- the premises are satisfiable: concrete runs with the real HMAC model --------------------------- *)

Definition ex_jws : json :=
  JObj [(cli_s_payload, JStr [97; 71; 86; 115; 98; 71; 56]);
        (s_protected, JStr [101; 121; 74; 104; 98; 71; 99; 105; 79; 105; 74; 73; 85; 122; 85; 120; 77; 105; 74; 57]);
        (s_signature, JStr [56; 117; 105; 109; 97; 73; 75; 69; 104; 69; 75; 95; 85; 116; 87; 57; 83; 49; 100; 117; 72; 84; 72; 70; 102; 113; 79; 109; 45; 114; 113; 76; 85; 97; 50; 78; 57; 67; 109; 118; 71; 79; 86; 99; 104; 55; 73; 108; 116; 112; 120; 73; 52; 99; 100; 102; 45; 115; 100; 121; 71; 66; 70; 110; 118; 116; 80; 65; 113; 110; 75; 103; 72; 57; 80; 81; 53; 82; 49; 111; 66; 97; 121; 110; 114; 103])].

Definition ex_key (n : nat) : json := JObj [(Pub.s_kty, JStr [111; 99; 116]); ([107], JStr (repeatN 65 n))].

(* a token made by `jose jws sig` with a 64-byte key: verified, payload decoded to standard output,
   from the member and from a detached payload file alike; -a with two usable keys *)
Example C18_ex_ver_ok :
  cli_jws_ver real_sign_algs {| cv_jws := ex_jws; cv_keys := [ex_key 86]; cv_all := false; cv_detach := true; cv_src := Src_member |}
    = (0, [104; 101; 108; 108; 111]) /\
  cli_jws_ver real_sign_algs {| cv_jws := ex_jws; cv_keys := [ex_key 86; ex_key 86]; cv_all := true; cv_detach := false;
                                cv_src := Src_detached [104; 101; 108; 108; 111] |} = (0, []) /\
  cli_jws_ver real_sign_algs {| cv_jws := ex_jws; cv_keys := [ex_key 86]; cv_all := false; cv_detach := false;
                                cv_src := Src_detached [104; 101; 108; 108; 112] |} = (1, []).
Proof. vm_compute. repeat split; reflexivity. Qed.

(* the same token with a key that is too short for HS512: refused whatever the options; the program
   without the NULL test would "verify" it with -a -O *)
Example C18_ex_ver_short_key :
  let o a d := {| cv_jws := ex_jws; cv_keys := [ex_key 4]; cv_all := a; cv_detach := d; cv_src := Src_member |} in
  fst (cli_jws_ver real_sign_algs (o false true)) = 1 /\
  fst (cli_jws_ver real_sign_algs (o true false)) = 1 /\
  cli_jws_ver real_sign_algs (o true true) = (1, []) /\
  jws_ver real_sign_algs ex_jws None (JArr [ex_key 4]) true = false /\
  cli_jws_ver_unchecked real_sign_algs (o true true) = (0, [104; 101; 108; 108; 111]).
Proof. vm_compute. repeat split; reflexivity. Qed.

(* the glue on branch verdicts *)
Example C18_ex_glue :
  cli_ver_glue (Some true) (Some true) = 0 /\ cli_ver_glue (Some false) (Some true) = 1 /\
  cli_ver_glue None None = 1 /\ cli_ver_glue None (Some true) = 1 /\
  cli_ver_glue (Some true) (Some false) = 1 /\ cli_ver_glue (Some true) None = 0.
Proof. vm_compute. repeat split; reflexivity. Qed.

(* a compact JWS through parse_compact and back; five fields are not three *)
Example C18_ex_compact :
  let c := [101; 51; 48; 46; 97; 71; 107; 46; 99; 50; 108; 110] in     (* e30.aGk.c2ln *)
  (exists j, cli_parse_compact cli_jws_fields c = Some j /\ cli_jws_fmt_compact j = Some c) /\
  cli_parse_compact cli_jwe_fields c = None /\
  cli_parse_compact cli_jws_fields [101; 51; 48; 46; 97; 61; 107; 46; 99] = None.
Proof. split; [eexists; split; vm_compute; reflexivity|]. vm_compute. split; reflexivity. Qed.

(* thp: a proper key gives a thumbprint, status 0; a key without "k" is refused and nothing is printed;
   two recipients cannot be written in the compact form *)
Example C18_ex_thp :
  cli_size_is None 32 = false /\ cli_size_is (Some 32) 32 = true /\
  fst (cli_jwk_thp [ex_key 4] cli_S256 None) = 0 /\
  cli_jwk_thp [JObj [(Pub.s_kty, JStr [111; 99; 116])]] cli_S256 None = (1, []) /\
  fst (cli_jwk_thp [ex_key 4; JObj [(Pub.s_kty, JStr [111; 99; 116])]] cli_S256 None) = 1 /\
  cli_jwe_fmt_compact (JObj [(s_protected, JStr [101; 51; 48]);
        (s_recipients, JArr [JObj [(s_encrypted_key, JStr [65; 65])]; JObj [(s_encrypted_key, JStr [66; 66])]]);
        (cli_s_iv, JStr [67; 67]); (cli_s_ciphertext, JStr [68; 68]); (cli_s_tag, JStr [69; 69])]) = None.
Proof. vm_compute. repeat split; reflexivity. Qed.

Example C18_ex_b64 :
  cli_b64_enc [104; 105] = (0, [97; 71; 107]) /\ cli_b64_dec [97; 71; 107; 10] = (0, [104; 105]) /\
  fst (cli_b64_dec [97; 71; 108]) = 1 /\ fst (cli_b64_dec [97; 61]) = 1.
Proof. vm_compute. repeat split; reflexivity. Qed.
