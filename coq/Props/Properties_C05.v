(* C05 -- key restrictions are enforced: declared alg, use and key_ops.
   Only statements, each closed by [exact] of a lemma proved elsewhere. *)
From JoseV Require Import Jwk.Prm Jwk.PrmProofs Jwk.Exc Jose.Jws Jose.Jwe Jose.AlgCheckProofs Gen.Tables.
Local Open Scope N_scope.

(* the permission decision IS the RFC 7517 grant formula, for every JSON object whose 'use' is absent
   or a string (the operation table is the generated one: a changed table breaks this proof) *)
Theorem C05_prm_spec : forall m req op,
  use_well_typed m = true -> jwk_prm (JObj m) req (Some op) = grant_spec m req op.
Proof. exact prm_is_grant_spec. Qed.
Print Assumptions C05_prm_spec.

(* a 'use' of the wrong JSON type refuses every operation (stricter than the formula, never laxer) *)
Theorem C05_prm_bad_use : forall m req op v,
  alookup s_use m = Some v -> is_string v = false -> jwk_prm (JObj m) req (Some op) = false.
Proof. exact prm_bad_use_refuses. Qed.
Print Assumptions C05_prm_bad_use.

Theorem C05_opers_rfc7517 :
  map (fun o => (o_pub o, o_prv o, o_use o)) jwk_opers =
  [ (Some op_deriveBits, None, None); (Some op_deriveKey, None, None);
    (Some op_wrapKey, Some op_unwrapKey, Some PrmProofs.s_enc);
    (Some op_encrypt, Some op_decrypt, Some PrmProofs.s_enc);
    (Some op_verify, Some op_sign, Some s_sig) ].
Proof. exact opers_are_rfc7517. Qed.
Print Assumptions C05_opers_rfc7517.

(* declared algorithm vs header algorithm: refused for ALL pairs of different strings,
   regardless of how they compare, whatever the registered algorithms are *)
Theorem C05_alg_mismatch_ver : forall algs sig jwk hdr h k,
  get_opt_str s_alg jwk = OStr k -> jws_hdr sig = Some hdr -> get_opt_str s_alg hdr = OStr h ->
  h <> k -> ver_single algs sig jwk = None.
Proof. exact ver_alg_mismatch. Qed.
Print Assumptions C05_alg_mismatch_ver.

Theorem C05_alg_mismatch_sig : forall algs sig jwk hdr h k,
  jws_hdr sig = Some hdr -> get_opt_str s_alg hdr = OStr h -> get_opt_str s_alg jwk = OStr k ->
  h <> k -> sig_find_alg algs sig jwk = None.
Proof. exact sig_alg_mismatch. Qed.
Print Assumptions C05_alg_mismatch_sig.

Theorem C05_alg_mismatch_dec_jwk : forall walgs jwe rcp jwk hdr h k,
  jwe_hdr jwe (Some rcp) = Some hdr -> get_opt_str s_alg hdr = OStr h ->
  lookup s_alg jwk = Some (JStr k) -> h <> cstr k ->
  (match get_opt_str Jwe.s_enc hdr with OStr e => e <> cstr k | _ => True end) ->
  dec_jwk_single walgs jwe rcp jwk = None.
Proof. exact dec_jwk_alg_mismatch. Qed.
Print Assumptions C05_alg_mismatch_dec_jwk.

Theorem C05_alg_mismatch_dec_cek : forall ealgs inflate jwe cek ct hdr h k,
  jwe_hdr jwe None = Some hdr -> get_opt_str Jwe.s_enc hdr = OStr h -> get_opt_str s_alg cek = OStr k ->
  h <> k -> dec_cek_octets ealgs inflate jwe cek ct = None.
Proof. exact dec_cek_alg_mismatch. Qed.
Print Assumptions C05_alg_mismatch_dec_cek.

Theorem C05_alg_mismatch_enc_cek : forall ealgs m cek pm h k,
  alookup s_protected m = Some (JObj pm) -> alookup Jwe.s_enc pm = Some (JStr h) ->
  (match alookup s_unprotected m with
   | None => True
   | Some (JObj um) => match alookup Jwe.s_enc um with None | Some (JStr _) => True | _ => False end
   | _ => False end) ->
  get_opt_str s_alg cek = OStr k -> cstr h <> k ->
  enc_cek_prepare ealgs (JObj m) cek = None.
Proof. exact enc_cek_alg_mismatch. Qed.
Print Assumptions C05_alg_mismatch_enc_cek.

Theorem C05_alg_mismatch_exc : forall xalgs prv pub ta tb a b,
  unpack_kty_alg prv = Some (ta, Some a) -> unpack_kty_alg pub = Some (tb, Some b) -> a <> b ->
  jwk_exc xalgs prv pub = None.
Proof. exact exc_alg_mismatch. Qed.
Print Assumptions C05_alg_mismatch_exc.

(* permission refusals: an operation that goes ahead was granted by jwk_prm (= the formula above) *)
Theorem C05_denied_ver : forall algs sig jwk c,
  ver_single algs sig jwk = Some c -> exists a, In a algs /\ jwk_prm jwk false (Some (sa_vprm a)) = true.
Proof. exact ver_denied. Qed.
Print Assumptions C05_denied_ver.

Theorem C05_denied_sig : forall algs sig jwk a s,
  sig_find_alg algs sig jwk = Some (a, s) -> jwk_prm jwk false (Some (sa_sprm a)) = true.
Proof. exact sig_denied. Qed.
Print Assumptions C05_denied_sig.

Theorem C05_denied_exc : forall xalgs prv pub r,
  jwk_exc xalgs prv pub = Some r ->
  exists a, In a xalgs /\ jwk_prm prv false (Some (xa_prm a)) = true /\ jwk_prm pub false (Some (xa_prm a)) = true.
Proof. exact exc_denied. Qed.
Print Assumptions C05_denied_exc.

(* non-vacuity *)
Example C05_ex1 :
  jwk_prm (JObj [(s_use, JStr s_sig)]) true (Some op_verify) = true /\
  jwk_prm (JObj [(s_use, JStr s_sig)]) false (Some op_encrypt) = false /\
  jwk_prm (JObj [(s_key_ops, JArr [JStr op_wrapKey; JInt 5])]) false (Some op_wrapKey) = true /\
  jwk_prm (JObj []) true (Some op_sign) = false /\ jwk_prm (JObj []) false (Some op_sign) = true.
Proof. vm_compute. repeat split. Qed.
