(* C08 -- base64url codec is a canonical bijection and respects output bounds.
   Only statements, each closed by [exact] of a lemma proved elsewhere. *)
From JoseV Require Import Codec.B64Spec Codec.B64Impl Codec.B64Proofs Codec.B64ImplProofs Gen.Consts.
From JoseV Require Import Base.Json Base.JsonParse Base.JsonDump Codec.B64Json Codec.B64JsonProofs.
Local Open Scope N_scope.

(* the alphabet the code uses (generated from include/jose/b64.h on every run)
   is RFC 4648 table 2 *)
Theorem C08_alphabet : b64_map = rfc4648_url_alphabet.
Proof. exact alphabet_is_rfc4648. Qed.
Print Assumptions C08_alphabet.

Theorem C08_dec_enc : forall bs, wf_bytes bs -> dec (enc bs) = Some bs.
Proof. exact dec_enc. Qed.
Print Assumptions C08_dec_enc.

(* the decoder accepts exactly canonical encodings *)
Theorem C08_enc_dec : forall s bs, dec s = Some bs -> enc bs = s /\ wf_bytes bs.
Proof. exact enc_dec. Qed.
Print Assumptions C08_enc_dec.

Theorem C08_rejects_foreign : forall s c, In c s -> ~ In c b64_map -> dec s = None.
Proof. exact dec_bad_char. Qed.
Print Assumptions C08_rejects_foreign.

(* '=' '+' '/' SP TAB LF CR NUL are foreign *)
Theorem C08_named_foreign :
  forallb (fun c => match idx c with None => true | Some _ => false end) [61; 43; 47; 32; 9; 10; 13; 0] = true.
Proof. exact named_outside. Qed.
Print Assumptions C08_named_foreign.

Theorem C08_rejects_len1 : forall s, blen s mod 4 = 1 -> dec s = None.
Proof. exact dec_len1. Qed.
Print Assumptions C08_rejects_len1.

Theorem C08_rejects_trailing2 : forall c0 c1 b, idx c1 = Some b -> b mod 16 <> 0 -> dec [c0; c1] = None.
Proof. exact dec_trailing2. Qed.
Print Assumptions C08_rejects_trailing2.

Theorem C08_rejects_trailing3 : forall c0 c1 c2 c, idx c2 = Some c -> c mod 4 <> 0 -> dec [c0; c1; c2] = None.
Proof. exact dec_trailing3. Qed.
Print Assumptions C08_rejects_trailing3.

(* a long text is judged group by group, so the two lemmas above cover the final group of any text *)
Theorem C08_groups : forall c0 c1 c2 c3 r,
  dec (c0 :: c1 :: c2 :: c3 :: r) =
  match dec [c0; c1; c2; c3], dec r with Some a, Some b => Some (a ++ b) | _, _ => None end.
Proof. exact dec_app4. Qed.
Print Assumptions C08_groups.

Theorem C08_len_dec : forall s bs, dec s = Some bs -> dlen (blen s) = Some (blen bs).
Proof. exact dec_length. Qed.
Print Assumptions C08_len_dec.

Theorem C08_len_enc : forall bs, blen (enc bs) = elen (blen bs).
Proof. exact enc_length. Qed.
Print Assumptions C08_len_enc.

(* the C-shaped decoder: verdict and bytes are the specification's; too small an
   output is an error with nothing written; the look-ahead stays in range *)
Theorem C08_dec_buf_refines : forall s ol,
  let r := dec_buf s (Some ol) in
  oob r = false /\
  match dlen (blen s) with
  | None => ret r = None /\ writes r = []
  | Some need =>
      if ol <? need then ret r = None /\ writes r = []
      else match dec s with
           | Some bs => ret r = Some (blen bs) /\ writes r = enum 0 bs
           | None => ret r = None
           end
  end.
Proof. exact dec_buf_refines. Qed.
Print Assumptions C08_dec_buf_refines.

(* never a write at or beyond the stated output size -- also on inputs that are rejected half way *)
Theorem C08_dec_buf_bounds : forall s ol, Forall (fun iw => fst iw < ol) (writes (dec_buf s (Some ol))).
Proof. exact dec_buf_bounds. Qed.
Print Assumptions C08_dec_buf_bounds.

Theorem C08_dec_buf_query : forall s, ret (dec_buf s None) = dlen (blen s) /\ writes (dec_buf s None) = [].
Proof. exact dec_buf_query. Qed.
Print Assumptions C08_dec_buf_query.

Theorem C08_enc_buf_refines : forall ib ol, wf_bytes ib ->
  let r := enc_buf ib (Some ol) in
  oob r = false /\
  if ol <? elen (blen ib) then ret r = None /\ writes r = []
  else ret r = Some (blen (enc ib)) /\
       Forall (fun iw => fst iw < elen (blen ib)) (writes r) /\
       forall buf, replay (writes r) buf = replay (enum 0 (enc ib)) buf.
Proof. exact enc_buf_refines. Qed.
Print Assumptions C08_enc_buf_refines.

Theorem C08_enc_buf_query : forall ib, ret (enc_buf ib None) = Some (elen (blen ib)) /\ writes (enc_buf ib None) = [].
Proof. exact enc_buf_query. Qed.
Print Assumptions C08_enc_buf_query.

(* the JSON-string, JSON-load, JSON-encode and JSON-dump forms are the raw-buffer form applied to the WHOLE
   string value (every byte of it, an embedded NUL included) *)
Theorem C08_json_dec : forall s ol,
  jose_b64_dec (JStr s) (Some ol) = dec_buf s (Some ol) /\ ret (jose_b64_dec (JStr s) None) = dlen (blen s).
Proof. exact b64_dec_json_spec. Qed.
Print Assumptions C08_json_dec.

Theorem C08_json_load : forall s,
  jose_b64_dec_load (JStr s) = match dec s with Some bs => parse_any bs | None => None end.
Proof. exact b64_dec_load_spec. Qed.
Print Assumptions C08_json_load.

Theorem C08_json_nonstring : forall j, is_string j = false -> jose_b64_dec_load j = None.
Proof. exact b64_dec_load_nonstring. Qed.
Print Assumptions C08_json_nonstring.

Theorem C08_json_enc : forall ib, wf_bytes ib -> jose_b64_enc ib = Some (JStr (enc ib)).
Proof. exact b64_enc_spec. Qed.
Print Assumptions C08_json_enc.

Theorem C08_json_dump : forall j,
  jose_b64_enc_dump j = match dump_top j with Some t => jose_b64_enc (cstr t) | None => None end.
Proof. exact b64_enc_dump_spec. Qed.
Print Assumptions C08_json_dump.

Example C08_ex_nul : ret (jose_b64_dec (JStr [90; 109; 57; 118; 0; 33; 33]) (Some 8)) = None
                  /\ jose_b64_dec_load (JStr [77; 84; 73; 122; 0; 65]) = None.
Proof. vm_compute. split; reflexivity. Qed.

(* non-vacuity: "Man" / "TWFu", a rejected non-canonical text, a bounded partial write *)
Example C08_ex1 : enc [77; 97; 110] = [84; 87; 70; 117] /\ dec [84; 87; 70; 117] = Some [77; 97; 110].
Proof. vm_compute. split; reflexivity. Qed.
Example C08_ex2 : dec [84; 87; 70] = None /\ dec [84; 87; 69] = Some [77; 97].
Proof. vm_compute. split; reflexivity. Qed.
Example C08_ex3 : writes (dec_buf [84; 87; 70; 117; 84; 61] (Some 4)) = [(0, 77); (1, 97); (2, 110)]
                  /\ ret (dec_buf [84; 87; 70; 117; 84; 61] (Some 4)) = None.
Proof. vm_compute. split; reflexivity. Qed.
