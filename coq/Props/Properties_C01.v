(* C01 -- JWS verification is sound: only genuinely signed content verifies.
   Only statements, each closed by [exact] of a lemma proved elsewhere.
   [algs] is ANY list of signature algorithms (name, permissions, key test, primitive
   verification predicate sa_verify): the theorems are about the composition in lib/jws.c
   and lib/io.c, not about the strength of the primitives. *)
From JoseV Require Import Jose.Jws Jose.JwsProofs Io.Chain Io.ChainProofs.
Local Open Scope N_scope.

(* THE verdict theorem: for every split of the payload into feed calls, the verdict of the final
   done() of the IO object built by jose_jws_ver_io equals [ver_valid], a function of the JWS, the
   keys, the mode and the CONCATENATED payload that mentions no IO object: any/all over keys of
   any-over-signature-objects of "the key may verify, the merged header's (or the key's) algorithm
   is a, and sa_verify a key (protected || '.' || payload) (decoded signature)" *)
Theorem C01_verdict : forall algs jws sig jwk all chunks,
  chain_verdict (ver_io algs jws sig jwk all) chunks = ver_valid algs jws sig jwk all (concat chunks).
Proof. exact ver_io_verdict. Qed.
Print Assumptions C01_verdict.

(* one-shot verification is the same function of the payload member *)
Theorem C01_oneshot : forall algs jws sig jwk all,
  jws_ver algs jws sig jwk all =
  match lookup s_payload jws with Some (JStr pay) => ver_valid algs jws sig jwk all pay | _ => false end.
Proof. exact jws_ver_spec. Qed.
Print Assumptions C01_oneshot.

Theorem C01_stream_same : forall algs jws sig jwk all chunks c,
  ver_io algs jws sig jwk all = Some c -> snd (runc c chunks) = ver_valid algs jws sig jwk all (concat chunks).
Proof. exact ver_stream_same. Qed.
Print Assumptions C01_stream_same.

(* the verifier objects are lawful chains, so C07's chunking theorem applies to them as well *)
Theorem C01_lawful : forall algs jws sig jwk all c, ver_io algs jws sig jwk all = Some c -> lawful c.
Proof. exact ver_io_lawful. Qed.
Print Assumptions C01_lawful.

(* soundness of one (signature object, key) pair: exactly the protected text, a dot, the payload;
   exactly the decoded signature member; the key permitted; the algorithm a registered one *)
Theorem C01_sound_single : forall algs sig jwk pay,
  single_valid algs sig jwk pay = true ->
  exists a pre sv sg,
    single_choice algs sig jwk = Some (a, pre) /\ prefix_bytes sig = Some pre /\
    In a algs /\ jwk_prm jwk false (Some (sa_vprm a)) = true /\
    lookup s_signature sig = Some sv /\ b64_member sv = Some sg /\
    sa_verify a jwk (pre ++ pay) sg = true.
Proof. exact single_valid_sound. Qed.
Print Assumptions C01_sound_single.

(* key sets: at least one key; every key (all) / some key (any) is satisfied *)
Theorem C01_sound_keys : forall algs jws sig keys jwk all pay,
  key_list jwk = Some keys -> ver_valid algs jws sig jwk all pay = true ->
  keys <> [] /\
  exists sl, sig_list sig keys = Some sl /\
    if all then forall sk, In sk (combine sl keys) -> one_valid algs jws (fst sk) (snd sk) pay = true
    else exists sk, In sk (combine sl keys) /\ one_valid algs jws (fst sk) (snd sk) pay = true.
Proof. exact ver_valid_keys. Qed.
Print Assumptions C01_sound_keys.

(* the vacuous cases fail *)
Theorem C01_empty_key_set : forall algs jws sig jwk all pay,
  key_list jwk = Some [] -> ver_valid algs jws sig jwk all pay = false.
Proof. exact ver_empty_keys. Qed.
Print Assumptions C01_empty_key_set.

Theorem C01_empty_signature_list : forall algs jws jwk pay,
  lookup s_signatures jws = Some (JArr []) -> nosig_valid algs jws jwk pay = false.
Proof. exact ver_empty_signatures. Qed.
Print Assumptions C01_empty_signature_list.

Theorem C01_absent_signature : forall algs sig jwk pay,
  lookup s_signature sig = None -> single_valid algs sig jwk pay = false.
Proof. exact ver_absent_signature. Qed.
Print Assumptions C01_absent_signature.

(* an algorithm name that is not registered ('none' included) yields no verifier *)
Theorem C01_unknown_alg : forall algs sig jwk pay name hdr,
  jws_hdr sig = Some hdr -> get_opt_str s_alg hdr = OStr name -> find_sign algs name = None ->
  single_valid algs sig jwk pay = false.
Proof. exact ver_unknown_alg. Qed.
Print Assumptions C01_unknown_alg.
