(* C15 -- header merge precedence; the algorithm used is the one recorded.
   Only statements, each closed by [exact] of a lemma proved elsewhere. *)
From JoseV Require Import Jose.Jws Jose.Jwe Jose.Entity Jose.HdrProofs Jose.Suggest.
Local Open Scope N_scope.

(* JWS: a protected parameter hides an unprotected one of the same name -- whether protected is
   an object, base64url text, or absent *)
Theorem C15_precedence_jws : forall sig pm hdr k,
  (lookup s_protected sig = Some (JObj pm) \/
   (exists s, lookup s_protected sig = Some (JStr s) /\ jose_b64_dec_load (JStr s) = Some (JObj pm)) \/
   (lookup s_protected sig = None /\ pm = [])) ->
  jws_hdr sig = Some hdr ->
  (forall hm, lookup s_header sig = Some (JObj hm) -> NoDup (akeys hm)) ->
  lookup k hdr = first_some2 (alookup k pm)
                   (match lookup s_header sig with Some (JObj hm) => alookup k hm | _ => None end).
Proof. exact jws_precedence. Qed.
Print Assumptions C15_precedence_jws.

(* JWE: protected hides shared unprotected hides per-recipient *)
Theorem C15_precedence_jwe : forall jwe rcp pm hdr k,
  (lookup s_protected jwe = Some (JObj pm) \/
   (exists s, lookup s_protected jwe = Some (JStr s) /\ jose_b64_dec_load (JStr s) = Some (JObj pm)) \/
   (lookup s_protected jwe = None /\ pm = [])) ->
  jwe_hdr jwe rcp = Some hdr ->
  (forall um, lookup s_unprotected jwe = Some (JObj um) -> NoDup (akeys um)) ->
  (forall r hm, rcp = Some r -> lookup s_header r = Some (JObj hm) -> NoDup (akeys hm)) ->
  lookup k hdr =
    first_some2 (alookup k pm)
      (first_some2 (match lookup s_unprotected jwe with Some (JObj um) => alookup k um | _ => None end)
                   (match rcp with
                    | Some r => match lookup s_header r with Some (JObj hm) => alookup k hm | _ => None end
                    | None => None
                    end)).
Proof. exact jwe_precedence. Qed.
Print Assumptions C15_precedence_jwe.

Theorem C15_encoded_same : forall m s pm,
  alookup s_protected m = Some (JStr s) -> jose_b64_dec_load (JStr s) = Some (JObj pm) ->
  jws_hdr (JObj m) = jws_hdr (JObj (aset s_protected (JObj pm) m)).
Proof. exact jws_hdr_encoded_same. Qed.
Print Assumptions C15_encoded_same.

(* compression is honoured only when "zip" is in the protected header *)
Theorem C15_zip_protected_only : forall jwe, (forall s, lookup s_protected jwe <> Some (JStr s)) -> protected_zip jwe = None.
Proof. exact zip_protected_only. Qed.
Print Assumptions C15_zip_protected_only.

Theorem C15_zip_ignores_unprotected : forall m v, protected_zip (JObj (aset s_unprotected v m)) = protected_zip (JObj m).
Proof. exact zip_ignores_other_headers. Qed.
Print Assumptions C15_zip_ignores_unprotected.

(* the algorithm applied is the one the merged header of the result names *)
Theorem C15_caller_respected_sig : forall algs sig jwk hdr h a s',
  jws_hdr sig = Some hdr -> get_opt_str s_alg hdr = OStr h ->
  sig_find_alg algs sig jwk = Some (a, s') -> sa_name a = h /\ s' = sig.
Proof. exact sig_alg_caller_respected. Qed.
Print Assumptions C15_caller_respected_sig.

Theorem C15_recorded_sig : forall algs m jwk hdr a s',
  jws_hdr (JObj m) = Some hdr -> (forall h, get_opt_str s_alg hdr <> OStr h) ->
  sig_find_alg algs (JObj m) jwk = Some (a, s') ->
  exists pm', s' = JObj (aset s_protected (JObj pm') m) /\ alookup s_alg pm' = Some (JStr (sa_name a)).
Proof. exact sig_alg_inferred_recorded. Qed.
Print Assumptions C15_recorded_sig.

Theorem C15_inferred_is_first_suggestion : forall algs m jwk hdr a s',
  jws_hdr (JObj m) = Some hdr -> (forall h, get_opt_str s_alg hdr <> OStr h) ->
  sig_find_alg algs (JObj m) jwk = Some (a, s') ->
  exists n r, somes (map (fun a0 => sa_sug a0 jwk) algs) = n :: r /\ sa_name a = n.
Proof. exact sig_alg_inferred_is_suggestion. Qed.
Print Assumptions C15_inferred_is_first_suggestion.

(* where an inferred "enc" is written: protected while it is still an object, else shared unprotected *)
Theorem C15_recorded_enc_where : forall m name v r,
  jwe_hdr_set (JObj m) name v = Some r ->
  match alookup s_protected m with
  | Some (JObj pm) => r = JObj (aset s_protected (JObj (aset name v pm)) m)
  | Some (JStr _) => exists um', r = JObj (aset s_unprotected (JObj um') m) /\ alookup name um' = Some v
  | None => match alookup s_unprotected m with
            | Some _ => exists um', r = JObj (aset s_unprotected (JObj um') m) /\ alookup name um' = Some v
            | None => r = JObj (aset s_protected (JObj [(name, v)]) m)
            end
  | Some _ => False
  end.
Proof. exact hdr_set_where. Qed.
Print Assumptions C15_recorded_enc_where.

(* the inference table, as the suggestion hooks compute it, on representative key shapes
   (the complete table is compared with the implementation by the correspondence) *)
Example C15_inference_examples :
  suggest_sign (JObj [(Jwe.s_kty, JStr t_EC); (s_crv, JStr c_P384)]) = Some n_ES384 /\
  suggest_sign (JObj [(Jwe.s_kty, JStr t_EC); (s_crv, JStr c_K256)]) = Some n_ES256K /\
  suggest_sign (JObj [(Jwe.s_kty, JStr t_oct); (s_alg, JStr n_HS384)]) = Some n_HS384 /\
  suggest_wrap (JStr [112; 119]) = Some n_PBES2_256 /\
  suggest_wrap (JObj [(Jwe.s_kty, JStr t_RSA)]) = Some n_RSAOAEP /\
  suggest_wrap (JObj [(Jwe.s_kty, JStr t_EC); (s_crv, JStr c_P521)]) = Some n_ECDHES256.
Proof. vm_compute. repeat split. Qed.

(* ---- the protected header already encoded (base64url text) in an encryption template: /repo 54a50c4 *)

(* the caller's "enc" inside the encoded header is the one applied; the object is not rewritten *)
Theorem C15_encoded_protected_enc_respected : forall ealgs m cek s pm h a,
  alookup s_protected m = Some (JStr s) -> jose_b64_dec_load (JStr s) = Some (JObj pm) ->
  alookup s_enc pm = Some (JStr h) -> alookup s_unprotected m = None ->
  get_opt_str s_alg cek = OAbsent -> find_encr ealgs (cstr h) = Some a ->
  jwk_prm cek false (Some (ea_eprm a)) = true ->
  enc_cek_prepare ealgs (JObj m) cek = Some (a, JObj m).
Proof. exact enc_cek_encoded_caller. Qed.
Print Assumptions C15_encoded_protected_enc_respected.

(* an inferred "enc" goes to the shared unprotected header, the encoded protected header stays untouched *)
Theorem C15_encoded_protected_enc_inferred : forall ealgs m cek s pm k a,
  alookup s_protected m = Some (JStr s) -> jose_b64_dec_load (JStr s) = Some (JObj pm) ->
  alookup s_enc pm = None -> alookup s_unprotected m = None ->
  get_opt_str s_alg cek = OStr k -> find_encr ealgs k = Some a ->
  jwk_prm cek false (Some (ea_eprm a)) = true ->
  enc_cek_prepare ealgs (JObj m) cek =
    Some (a, JObj (aset s_unprotected (JObj [(s_enc, JStr (ea_name a))]) m)).
Proof. exact enc_cek_encoded_inferred. Qed.
Print Assumptions C15_encoded_protected_enc_inferred.

(* text that does not decode to a JSON object is refused *)
Theorem C15_encoded_protected_undecodable : forall ealgs m cek s,
  alookup s_protected m = Some (JStr s) ->
  (forall pm, jose_b64_dec_load (JStr s) <> Some (JObj pm)) ->
  enc_cek_prepare ealgs (JObj m) cek = None.
Proof. exact enc_cek_encoded_undecodable. Qed.
Print Assumptions C15_encoded_protected_undecodable.

(* non-vacuity, with the real algorithm table: {"protected":"eyJhbGciOiJBMTI4S1cifQ"} (= {"alg":"A128KW"}) and a content
   key declaring A128GCM: the algorithm is applied and recorded in the shared unprotected header *)
From JoseV Require Import Jose.EncAlgs.
Example C15_ex_encoded_protected :
  let b := [101;121;74;104;98;71;99;105;79;105;74;66;77;84;73;52;83;49;99;105;102;81] in
  let n := [65;49;50;56;71;67;77] in
  let cek := JObj [(Jwe.s_kty, JStr t_oct); ([107], JStr [109;50;115;55;115;87;55;109;77;68;117;110;49;67;90;49;79;88;108;90;65;81]); (s_alg, JStr n)] in
  exists a m', enc_cek_prepare real_sug_encr (JObj [(s_protected, JStr b)]) cek = Some (a, JObj m') /\
               ea_name a = n /\ alookup s_unprotected m' = Some (JObj [(s_enc, JStr n)]) /\
               alookup s_protected m' = Some (JStr b).
Proof. vm_compute. eexists. eexists. repeat split. Qed.
