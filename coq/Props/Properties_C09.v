(* C09 -- no memory-safety violation and no leak for any JSON input to the API.

   PARTIAL.  What can be a Coq theorem here is the reference-count discipline of the jansson glue, on the
   ownership model of Mem/Own.v (a heap of reference-counted nodes; Stuck = use or release of a freed node),
   and the fixed-buffer obligations of Mem/Buffers.v.  Absence of out-of-bounds access, use after free and
   undefined behaviour in the C text is NOT proved (no C semantics is available); it is observed under
   ASan/UBSan/LSan by the correspondence harness.

   Shape of the statements.  The caller's heap is the layout [jseg j 0] of an arbitrary JSON tree j (what
   json_loads builds: every node with count 1), so "for every JSON type of every member" is the quantifier
   over j.  [restored H0 h]: h is H0 followed by freed slots only -- every caller node has the value and the
   count it had, and nothing the function created is alive.  Only statements here, each closed by [exact]. *)
From JoseV Require Import Base.Json Codec.B64Impl Mem.Own Mem.OwnProofs Mem.Buffers.
From Coq Require Import List.
Import ListNotations.

(* jose_jws_hdr: never Stuck; after the caller released the result its heap is restored -- for every sig *)
Theorem C09_refs_balanced_jws_hdr : forall (dl : bytes -> option json) (sig : json),
  exists h1 r, own_jws_hdr dl (Some 0) (jseg sig 0) = MOk h1 r /\
               exists h2, m_decref r h1 = MOk h2 tt /\ restored (jseg sig 0) h2.
Proof. exact jws_hdr_balanced. Qed.
Print Assumptions C09_refs_balanced_jws_hdr.

(* jose_jwe_hdr(jwe, rcp), rcp possibly NULL *)
Theorem C09_refs_balanced_jwe_hdr : forall (dl : bytes -> option json) (jwe : json) (rcp : option json),
  let H0 := jsegs (jwe :: rcp_args rcp) 0 in
  exists h1 r, own_jwe_hdr dl (Some 0) (option_map (fun _ => jsize jwe) rcp) H0 = MOk h1 r /\
               exists h2, m_decref r h1 = MOk h2 tt /\ restored H0 h2.
Proof. exact jwe_hdr_balanced. Qed.
Print Assumptions C09_refs_balanced_jwe_hdr.

(* the prt / hdr prologue of jose_jwe_dec_cek_io: every exit releases the decoded header and the merged header *)
Theorem C09_refs_balanced_dec_cek_io_prologue :
  forall (dl : bytes -> option json) (comp_ok : bytes -> bool) (jwe : json) (go_on : bool),
  exists h1 r, own_dec_cek_io_prologue dl comp_ok (Some 0) go_on (jseg jwe 0) = MOk h1 r /\ restored (jseg jwe 0) h1.
Proof. exact dec_cek_io_prologue_balanced. Qed.
Print Assumptions C09_refs_balanced_dec_cek_io_prologue.

(* encode_protected mutates its argument: never Stuck, and when the caller releases the object nothing stays alive *)
Theorem C09_refs_balanced_encode_protected : forall (ed : json -> option bytes) (obj : json),
  exists h1 b, own_encode_protected ed (Some 0) (jseg obj 0) = MOk h1 b /\
               exists h2, m_decref (Some 0) h1 = MOk h2 tt /\ hcount h2 = 0.
Proof. exact encode_protected_balanced. Qed.
Print Assumptions C09_refs_balanced_encode_protected.

(* zip_in_protected_header, current text (since cba5ab8: the decoded header in a json_auto_t of its own):
   balanced for EVERY input *)
Theorem C09_refs_balanced_zip_in_protected_header :
  forall (dl : bytes -> option json) (comp_ok : bytes -> bool) (j : json),
  exists h1 b, own_zip_in_protected_header dl comp_ok (Some 0) (jseg j 0) = MOk h1 b /\ restored (jseg j 0) h1.
Proof. exact zip_in_protected_header_balanced. Qed.
Print Assumptions C09_refs_balanced_zip_in_protected_header.

(* the zip epilogue of jose_jwe_enc_cek_io (since cba5ab8), JSON part: every exit releases the decoded header *)
Theorem C09_refs_balanced_enc_cek_io_zip :
  forall (dl : bytes -> option json) (comp_ok : bytes -> bool) (jwe : json),
  exists h1 r, own_enc_cek_io_zip dl comp_ok (Some 0) (jseg jwe 0) = MOk h1 r /\ restored (jseg jwe 0) h1.
Proof. exact enc_cek_io_zip_balanced. Qed.
Print Assumptions C09_refs_balanced_enc_cek_io_zip.

(* regression witnesses (repaired in cba5ab8 / cd23cd6, not open findings): the former text of
   zip_in_protected_header / handle_zip_enc was balanced exactly when "protected" is not a string
   jose_b64_dec_load accepts, and leaked the decoded header otherwise (witness {"protected":"e30"}) *)
Theorem C09_zip_in_protected_header_before_cba5ab8_partial :
  forall (dl : bytes -> option json) (comp_ok : bytes -> bool) (j : json),
  not_decodable dl j ->
  exists b, own_zip_in_protected_header_old dl comp_ok (Some 0) (jseg j 0) = MOk (jseg j 0) b.
Proof. exact zip_in_protected_header_old_balanced. Qed.
Print Assumptions C09_zip_in_protected_header_before_cba5ab8_partial.

Theorem C09_zip_in_protected_header_before_cba5ab8_leaks :
  exists j, leaks (own_zip_in_protected_header_old real_dl real_comp_ok) j.
Proof. exact zip_in_protected_header_old_leaks. Qed.
Print Assumptions C09_zip_in_protected_header_before_cba5ab8_leaks.

(* jwe_hdr_set_new: clean (not Stuck, counts consistent, nothing alive after the caller released jwe) for every
   combination of the kinds of "protected", "unprotected" (absent included), of jwe itself and of the value;
   by computation over representatives, NOT for arbitrary subtrees (see C09_NOTES.md) *)
Theorem C09_refs_balanced_jwe_hdr_set_new_kinds : forall jwe v name,
  In jwe set_new_jwes -> In v set_new_values -> In name [k_enc; k_alg; k_protected] ->
  mem_clean (mem_jwe_hdr_set_new jwe name v) = true.
Proof. exact jwe_hdr_set_new_kinds. Qed.
Print Assumptions C09_refs_balanced_jwe_hdr_set_new_kinds.

(* IO stages of the compressing chain built by jose_jwe_enc_cek_io (sink <- cipher stage <- deflate stage): with a
   deflate stage whose free() releases its downstream (the text since cd23cd6) nothing survives the caller's two
   releases; with the former def_free / inf_free the chain below the deflate stage survived *)
Theorem C09_io_chain_balanced : exists h, own_enc_cek_io_chain true [] = MOk h tt /\ hcount h = 0.
Proof. exact io_releasing_stage_balanced. Qed.
Print Assumptions C09_io_chain_balanced.

Theorem C09_io_def_free_before_cd23cd6_leaks : exists h, own_enc_cek_io_chain false [] = MOk h tt /\ 0 < hcount h.
Proof. exact io_forgetful_stage_leaks. Qed.
Print Assumptions C09_io_def_free_before_cd23cd6_leaks.

(* the model sees the defect repaired in 530be9d (kept as a regression witness, not an open finding) *)
Theorem C09_jws_hdr_before_530be9d_stuck : mr_stuck (memr_jws_hdr_old borrowed_witness) = true.
Proof. exact jws_hdr_old_stuck. Qed.
Print Assumptions C09_jws_hdr_before_530be9d_stuck.

(* fixed buffers: at every call site of the decoder with an output buffer the requested length is at most the
   capacity of the destination (under the guard that precedes the call), so every write is inside it *)
Theorem C09_buffers : forall s e, In s sites -> guards_hold e s -> (seval e (s_ol s) <= seval e (s_cap s))%N.
Proof. exact buffers_len_le_cap. Qed.
Print Assumptions C09_buffers.

Theorem C09_buffer_writes_inside : forall s e (text : bytes),
  In s sites -> guards_hold e s ->
  Forall (fun iw => (fst iw < seval e (s_cap s))%N) (writes (dec_buf text (Some (seval e (s_ol s))))).
Proof. exact buffers_writes_inside. Qed.
Print Assumptions C09_buffer_writes_inside.

(* the premises are met by concrete values *)
Example C09_ex_jws_hdr :
  mem_clean (memr_jws_hdr (JObj [(k_protected, JObj [(k_alg, JStr [72%N])]); (k_header, JObj [(k_zip, JArr [JNull; JInt 1])])])) = true.
Proof. vm_compute. reflexivity. Qed.

Example C09_ex_not_decodable : not_decodable real_dl (JObj [(k_protected, JStr [33%N])]).
Proof. intros s H. vm_compute in H. inversion H; subst. vm_compute. reflexivity. Qed.

Example C09_ex_zip : mem_clean (memr_zip_in_protected_header leak_witness) = true /\
                     mem_clean (memr_enc_cek_io_zip leak_witness) = true /\
                     mem_clean (memr_zip_in_protected_header_old leak_witness) = false.
Proof. vm_compute. repeat split. Qed.

Example C09_ex_sites : length sites = 25.
Proof. reflexivity. Qed.

Example C09_ex_now_clean : mem_clean (memr_jws_hdr borrowed_witness) = true.
Proof. exact jws_hdr_now_clean. Qed.
