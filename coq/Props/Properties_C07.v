(* C07 -- IO chains: result independent of chunking; failures and bounds propagate.
   Only statements, each closed by [exact] of a lemma proved elsewhere. *)
From JoseV Require Import Codec.B64Spec Codec.B64Impl Io.Chain Io.B64Stream Io.ChainProofs Crypto.Sha.
Local Open Scope N_scope.

(* the streaming decoder accepts exactly the canonical texts and passes on their
   decoding, for EVERY split of the input into feed calls (empty and single-byte feeds included) *)
Theorem C07_b64dec_stream : forall cs, taccept b64dec_T [] cs = dec (concat cs).
Proof. exact b64dec_stream. Qed.
Print Assumptions C07_b64dec_stream.

Theorem C07_b64enc_stream : forall cs, Forall wf_bytes cs -> taccept b64enc_T [] cs = Some (enc (concat cs)).
Proof. exact b64enc_stream. Qed.
Print Assumptions C07_b64enc_stream.

(* stages that accumulate and emit at done (hash, sign, verify): determined by the concatenation *)
Theorem C07_atdone_stream : forall f st cs, taccept (atdone_T f) st cs = f (st ++ concat cs).
Proof. exact atdone_accept. Qed.
Print Assumptions C07_atdone_stream.

(* stages that emit incrementally (ciphers, deflate/inflate) obey the stream law provided
   their output for a longer input extends their output for a prefix -- the stated property
   of EVP_{En,De}cryptUpdate and zlib (hypothesis, validated by the correspondence) *)
Theorem C07_prefix_stream : forall emit final,
  (forall a b, exists t, emit (a ++ b) = emit a ++ t) -> forall st, tlaw (prefix_T emit final) st.
Proof. exact prefix_lawful. Qed.
Print Assumptions C07_prefix_stream.

(* THE chunking theorem: for every chain built from lawful stages, sinks and (nested)
   multiplexers, the verdict after done and -- on success -- the bytes held by every sink
   that was not dropped depend only on the concatenation of what was fed *)
Theorem C07_chunking : forall c, lawful c -> forall cs cs', concat cs = concat cs' ->
  snd (runc c cs) = snd (runc c cs') /\
  (snd (runc c cs) = true -> delivered (fst (fst (runc c cs))) = delivered (fst (fst (runc c cs')))).
Proof. exact chunking. Qed.
Print Assumptions C07_chunking.

Theorem C07_oneshot : forall c cs, lawful c ->
  snd (runc c cs) = snd (runc c [concat cs]) /\
  (snd (runc c cs) = true -> delivered (fst (fst (runc c cs))) = delivered (fst (fst (runc c [concat cs])))).
Proof. exact oneshot_same. Qed.
Print Assumptions C07_oneshot.

Theorem C07_b64dec_lawful : tlaw b64dec_T [].
Proof. exact b64dec_lawful. Qed.
Print Assumptions C07_b64dec_lawful.

(* failure propagation: the head succeeds only if the stage accepted everything and the rest of
   the chain succeeded (its feeds and its done) on exactly what the stage passed on *)
Theorem C07_failure_propagates : forall T st next xs,
  snd (runc (Stage T st next) xs) = true ->
  exists y L, taccept T st xs = Some y /\ concat L = y /\ snd (runc next L) = true.
Proof. exact failure_propagates. Qed.
Print Assumptions C07_failure_propagates.

Theorem C07_done_failure_propagates : forall ff fd calls d xs,
  fd = true -> snd (runc (Sink (SFaulty ff fd calls d)) xs) = false.
Proof. exact sink_done_propagates. Qed.
Print Assumptions C07_done_failure_propagates.

Theorem C07_true_means_all_accepted : forall c xs, snd (runc c xs) = true -> snd (fst (runc c xs)) = length xs.
Proof. exact runc_true_all. Qed.
Print Assumptions C07_true_means_all_accepted.

(* a fixed-size buffer never stores more than its capacity, and overflow is a rejection *)
Theorem C07_buffer_bound : forall xs cap d, blen d <= cap ->
  forall s' k, sink_feeds (SBuffer cap d) xs = (s', k) ->
  exists d', s' = SBuffer cap d' /\ blen d' <= cap /\ (blen d + blen (concat xs) > cap -> (k < length xs)%nat).
Proof. exact buffer_never_exceeds. Qed.
Print Assumptions C07_buffer_bound.

(* multiplexers *)
Theorem C07_plex_all : forall bs xs,
  snd (runc (Plex true bs) xs) = true <->
  (exists fb, In fb bs /\ fst fb = true) /\
  (forall fb, In fb bs -> fst fb = true -> snd (runc (snd fb) xs) = true).
Proof. exact plex_all_verdict. Qed.
Print Assumptions C07_plex_all.

Theorem C07_plex_any : forall bs xs,
  snd (runc (Plex false bs) xs) = true <->
  exists fb, In fb bs /\ fst fb = true /\ snd (runc (snd fb) xs) = true.
Proof. exact plex_any_verdict. Qed.
Print Assumptions C07_plex_any.

Theorem C07_plex_empty_fails : forall all xs, snd (runc (Plex all []) xs) = false.
Proof. exact plex_empty_fails. Qed.
Print Assumptions C07_plex_empty_fails.

(* a branch of an any-multiplexer that failed is dropped in the state in which it rejected *)
Theorem C07_plex_dropped : forall bs xs,
  snd (runc (Plex false bs) xs) = true ->
  fst (fst (runc (Plex false bs) xs)) =
  Plex false (map (fun fb : bool * chain =>
                     if fst fb then (snd (runc (snd fb) xs), fst (fst (runc (snd fb) xs))) else (false, snd fb)) bs).
Proof. exact plex_any_dropped. Qed.
Print Assumptions C07_plex_dropped.

Theorem C07_sink_stops_at_rejection : forall s xs s' k,
  sink_feeds s xs = (s', k) -> (k < length xs)%nat -> sink_feeds s (take (S k) xs) = (s', k).
Proof. exact sink_feeds_stops. Qed.
Print Assumptions C07_sink_stops_at_rejection.

(* non-vacuity: a 3-chunk stream through a 2-branch multiplexer with a decoder and a too-small buffer *)
Example C07_ex1 :
  let c := Plex false [(true, B64Dec (Sink (SMalloc []))); (true, Sink (SBuffer 3 []))] in
  lawful c /\
  snd (runc c [[84; 87]; []; [70; 117]]) = true /\
  delivered (fst (fst (runc c [[84; 87]; []; [70; 117]]))) = [Some [77; 97; 110]; None] /\
  snd (runc c [[84; 87; 70; 117]]) = true.
Proof.
  cbv zeta. split.
  - cbn [lawful snd B64Dec sink_ok]. split; [split; [exact b64dec_lawful|exact I]|]. split; [|exact I].
    vm_compute. discriminate.
  - vm_compute. auto.
Qed.
