(* C07 -- IO chains: result independent of chunking; failures and bounds propagate.
   Only statements, each closed by [exact] of a lemma proved elsewhere. *)
From JoseV Require Import Codec.B64Spec Codec.B64Impl Io.Chain Io.B64Stream Io.ChainProofs Crypto.Sha.
Local Open Scope N_scope.

(* the streaming decoder accepts exactly the canonical texts and passes on their
   decoding, for EVERY split of the input into feed calls (empty and single-byte feeds included) *)
Theorem C07_b64dec_stream : forall cs, taccept b64dec_T [] cs = dec (concat cs).
Proof. exact b64dec_stream. Qed.
Print Assumptions C07_b64dec_stream.

Theorem C07_b64enc_stream : forall cs, Forall wf_bytes cs -> taccept b64enc_T [] cs = Some (enc (concat cs)).
Proof. exact b64enc_stream. Qed.
Print Assumptions C07_b64enc_stream.

(* stages that accumulate and emit at done (hash, sign, verify): determined by the concatenation *)
Theorem C07_atdone_stream : forall f st cs, taccept (atdone_T f) st cs = f (st ++ concat cs).
Proof. exact atdone_accept. Qed.
Print Assumptions C07_atdone_stream.

(* stages that emit incrementally (ciphers, deflate/inflate) obey the stream law provided
   their output for a longer input extends their output for a prefix -- the stated property
   of EVP_{En,De}cryptUpdate and zlib (hypothesis, validated by the correspondence) *)
Theorem C07_prefix_stream : forall emit final,
  (forall a b, exists t, emit (a ++ b) = emit a ++ t) -> forall st, tlaw (prefix_T emit final) st.
Proof. exact prefix_lawful. Qed.
Print Assumptions C07_prefix_stream.

(* THE chunking theorem: for every chain built from lawful stages, sinks and (nested)
   multiplexers, the verdict after done and -- on success -- the bytes held by every sink
   that was not dropped depend only on the concatenation of what was fed *)
Theorem C07_chunking : forall c, lawful c -> forall cs cs', concat cs = concat cs' ->
  snd (runc c cs) = snd (runc c cs') /\
  (snd (runc c cs) = true -> delivered (fst (fst (runc c cs))) = delivered (fst (fst (runc c cs')))).
Proof. exact chunking. Qed.
Print Assumptions C07_chunking.

Theorem C07_oneshot : forall c cs, lawful c ->
  snd (runc c cs) = snd (runc c [concat cs]) /\
  (snd (runc c cs) = true -> delivered (fst (fst (runc c cs))) = delivered (fst (fst (runc c [concat cs])))).
Proof. exact oneshot_same. Qed.
Print Assumptions C07_oneshot.

Theorem C07_b64dec_lawful : tlaw b64dec_T [].
Proof. exact b64dec_lawful. Qed.
Print Assumptions C07_b64dec_lawful.

(* failure propagation: the head succeeds only if the stage accepted everything and the rest of
   the chain succeeded (its feeds and its done) on exactly what the stage passed on *)
Theorem C07_failure_propagates : forall T st next xs,
  snd (runc (Stage T st next) xs) = true ->
  exists y L, taccept T st xs = Some y /\ concat L = y /\ snd (runc next L) = true.
Proof. exact failure_propagates. Qed.
Print Assumptions C07_failure_propagates.

Theorem C07_done_failure_propagates : forall ff fd calls d xs,
  fd = true -> snd (runc (Sink (SFaulty ff fd calls d)) xs) = false.
Proof. exact sink_done_propagates. Qed.
Print Assumptions C07_done_failure_propagates.

Theorem C07_true_means_all_accepted : forall c xs, snd (runc c xs) = true -> snd (fst (runc c xs)) = length xs.
Proof. exact runc_true_all. Qed.
Print Assumptions C07_true_means_all_accepted.

(* a fixed-size buffer never stores more than its capacity, and overflow is a rejection *)
Theorem C07_buffer_bound : forall xs cap d, blen d <= cap ->
  forall s' k, sink_feeds (SBuffer cap d) xs = (s', k) ->
  exists d', s' = SBuffer cap d' /\ blen d' <= cap /\ (blen d + blen (concat xs) > cap -> (k < length xs)%nat).
Proof. exact buffer_never_exceeds. Qed.
Print Assumptions C07_buffer_bound.

(* multiplexers *)
Theorem C07_plex_all : forall bs xs,
  snd (runc (Plex true bs) xs) = true <->
  (exists fb, In fb bs /\ fst fb = true) /\
  (forall fb, In fb bs -> fst fb = true -> snd (runc (snd fb) xs) = true).
Proof. exact plex_all_verdict. Qed.
Print Assumptions C07_plex_all.

Theorem C07_plex_any : forall bs xs,
  snd (runc (Plex false bs) xs) = true <->
  exists fb, In fb bs /\ fst fb = true /\ snd (runc (snd fb) xs) = true.
Proof. exact plex_any_verdict. Qed.
Print Assumptions C07_plex_any.

Theorem C07_plex_empty_fails : forall all xs, snd (runc (Plex all []) xs) = false.
Proof. exact plex_empty_fails. Qed.
Print Assumptions C07_plex_empty_fails.

(* a branch of an any-multiplexer that failed is dropped in the state in which it rejected *)
Theorem C07_plex_dropped : forall bs xs,
  snd (runc (Plex false bs) xs) = true ->
  fst (fst (runc (Plex false bs) xs)) =
  Plex false (map (fun fb : bool * chain =>
                     if fst fb then (snd (runc (snd fb) xs), fst (fst (runc (snd fb) xs))) else (false, snd fb)) bs).
Proof. exact plex_any_dropped. Qed.
Print Assumptions C07_plex_dropped.

Theorem C07_sink_stops_at_rejection : forall s xs s' k,
  sink_feeds s xs = (s', k) -> (k < length xs)%nat -> sink_feeds s (take (S k) xs) = (s', k).
Proof. exact sink_feeds_stops. Qed.
Print Assumptions C07_sink_stops_at_rejection.

(* non-vacuity: a 3-chunk stream through a 2-branch multiplexer with a decoder and a too-small buffer *)
Example C07_ex1 :
  let c := Plex false [(true, B64Dec (Sink (SMalloc []))); (true, Sink (SBuffer 3 []))] in
  lawful c /\
  snd (runc c [[84; 87]; []; [70; 117]]) = true /\
  delivered (fst (fst (runc c [[84; 87]; []; [70; 117]]))) = [Some [77; 97; 110]; None] /\
  snd (runc c [[84; 87; 70; 117]]) = true.
Proof.
  cbv zeta. split.
  - cbn [lawful snd B64Dec sink_ok]. split; [split; [exact b64dec_lawful|exact I]|]. split; [|exact I].
    vm_compute. discriminate.
  - vm_compute. auto.
Qed.

(* ---- multiplexers call by call: what happens AFTER a branch has failed ------------------
   (Io/Step.v: every feed and done is a step of its own, the caller may go on after a refusal) *)
From JoseV Require Import Io.Step Io.StepProofs.

(* a multiplexer requiring all branches: once a feed has answered false, every later feed
   answers false and so does done *)
Theorem C07_step_all_sticky : forall failed bs xs c' vs d,
  session (PPlex true failed bs) xs = (c', vs, d) ->
  forall i, nth_error vs i = Some false ->
    (forall j v, (i <= j)%nat -> nth_error vs j = Some v -> v = false) /\ d = false.
Proof. exact (plex_sticky true). Qed.
Print Assumptions C07_step_all_sticky.

(* the same holds for one requiring any (its false means that the last branch has gone) *)
Theorem C07_step_plex_sticky : forall all failed bs xs c' vs d,
  session (PPlex all failed bs) xs = (c', vs, d) ->
  forall i, nth_error vs i = Some false ->
    (forall j v, (i <= j)%nat -> nth_error vs j = Some v -> v = false) /\ d = false.
Proof. exact plex_sticky. Qed.
Print Assumptions C07_step_plex_sticky.

(* after a feed (a done) that answered false nothing changes any more, whatever is called *)
Theorem C07_step_feed_false_forever : forall all failed bs x,
  snd (feed1 (PPlex all failed bs) x) = false ->
  forall xs, session (fst (feed1 (PPlex all failed bs) x)) xs
             = (fst (feed1 (PPlex all failed bs) x), repeat false (length xs), false).
Proof. exact feed_false_forever. Qed.
Print Assumptions C07_step_feed_false_forever.

Theorem C07_step_done_false_forever : forall all failed bs,
  snd (done1 (PPlex all failed bs)) = false ->
  forall xs, session (fst (done1 (PPlex all failed bs))) xs
             = (fst (done1 (PPlex all failed bs)), repeat false (length xs), false).
Proof. exact done_false_forever. Qed.
Print Assumptions C07_step_done_false_forever.

(* a failed branch receives no further data: a released branch stays released in the very
   state in which it was released ... *)
Theorem C07_step_released_stays : forall all failed bs xs i b,
  nth_error bs i = Some (false, b) ->
  nth_error (branches (fst (fst (session (PPlex all failed bs) xs)))) i = Some (false, b).
Proof. exact released_stays. Qed.
Print Assumptions C07_step_released_stays.

(* ... at any depth: a sink below a released branch (of any multiplexer on the way down) holds
   the same bytes after any further feeds and done ... *)
Theorem C07_step_no_further_data : forall c xs i d,
  nth_error (frozen c) i = Some (Some d) ->
  nth_error (sinks_of (fst (fst (session c xs)))) i = Some d.
Proof. exact no_further_data. Qed.
Print Assumptions C07_step_no_further_data.

(* ([frozen] marks exactly the sinks of released branches, with what they hold) *)
Theorem C07_step_frozen_is_content : forall c i d,
  nth_error (frozen c) i = Some (Some d) -> nth_error (sinks_of c) i = Some d.
Proof. exact frozen_is_content. Qed.
Print Assumptions C07_step_frozen_is_content.

Theorem C07_step_released_is_frozen : forall all failed pre b post,
  frozen (PPlex all failed (pre ++ (false, b) :: post))
  = frozen (PPlex all failed pre) ++ map Some (sinks_of b) ++ frozen (PPlex all failed post).
Proof. exact released_is_frozen. Qed.
Print Assumptions C07_step_released_is_frozen.

(* ... and the call in which a sink is released has not added to it: it holds what it had accepted *)
Theorem C07_step_released_sink_holds : forall all failed bs x i s b',
  nth_error bs i = Some (true, PSink s) ->
  nth_error (branches (fst (feed1 (PPlex all failed bs) x))) i = Some (false, b') ->
  exists s', b' = PSink s' /\ sink_data s' = sink_data s.
Proof. exact released_sink_holds. Qed.
Print Assumptions C07_step_released_sink_holds.

(* one requiring any: a feed answers true iff a branch that was live before the call accepted
   the buffer; every live branch is fed, exactly the refusing ones are released *)
Theorem C07_step_any_feed : forall bs x,
  snd (feed1 (PPlex false false bs) x) = true <->
  exists fb, In fb bs /\ fst fb = true /\ snd (feed1 (snd fb) x) = true.
Proof. exact any_feed_verdict. Qed.
Print Assumptions C07_step_any_feed.

Theorem C07_step_any_done : forall bs,
  snd (done1 (PPlex false false bs)) = true <->
  exists fb, In fb bs /\ fst fb = true /\ snd (done1 (snd fb)) = true.
Proof. exact any_done_verdict. Qed.
Print Assumptions C07_step_any_done.

Theorem C07_step_any_state : forall bs x,
  fst (feed1 (PPlex false false bs) x)
  = PPlex false false (map (fun fb : bool * pchain =>
                             if fst fb then (snd (feed1 (snd fb) x), fst (feed1 (snd fb) x)) else fb) bs).
Proof. exact any_feed_state. Qed.
Print Assumptions C07_step_any_state.

(* it answers false for ever once no branch is live *)
Theorem C07_step_any_no_live : forall failed bs xs,
  existsb (fun fb : bool * pchain => fst fb) bs = false ->
  session (PPlex false failed bs) xs = (PPlex false failed bs, repeat false (length xs), false).
Proof. exact any_no_live_forever. Qed.
Print Assumptions C07_step_any_no_live.

Theorem C07_step_any_false_no_live : forall bs x,
  snd (feed1 (PPlex false false bs) x) = false ->
  exists bs', fst (feed1 (PPlex false false bs) x) = PPlex false false bs' /\
              existsb (fun fb : bool * pchain => fst fb) bs' = false.
Proof. exact any_false_no_live. Qed.
Print Assumptions C07_step_any_false_no_live.

(* one requiring all, a single call: true iff it had not failed, has a live branch and every
   live branch accepted *)
Theorem C07_step_all_feed : forall failed bs x,
  snd (feed1 (PPlex true failed bs) x) = true <->
  failed = false /\
  (exists fb, In fb bs /\ fst fb = true) /\
  (forall fb, In fb bs -> fst fb = true -> snd (feed1 (snd fb) x) = true).
Proof. exact all_feed_verdict. Qed.
Print Assumptions C07_step_all_feed.

Theorem C07_step_all_done : forall failed bs,
  snd (done1 (PPlex true failed bs)) = true <->
  failed = false /\
  (exists fb, In fb bs /\ fst fb = true) /\
  (forall fb, In fb bs -> fst fb = true -> snd (done1 (snd fb)) = true).
Proof. exact all_done_verdict. Qed.
Print Assumptions C07_step_all_done.

(* on the first refusing branch: the live branches before it have received the buffer, it is
   released, the branches after it are NOT fed in that call, the multiplexer is marked failed *)
Theorem C07_step_all_refused : forall pre b post x,
  (forall fb, In fb pre -> fst fb = true -> snd (feed1 (snd fb) x) = true) ->
  snd (feed1 b x) = false ->
  feed1 (PPlex true false (pre ++ (true, b) :: post)) x
  = (PPlex true true
       (map (fun fb : bool * pchain =>
               if fst fb then (snd (feed1 (snd fb) x), fst (feed1 (snd fb) x)) else fb) pre
        ++ (false, fst (feed1 b x)) :: post), false).
Proof. exact all_feed_refused. Qed.
Print Assumptions C07_step_all_refused.

Theorem C07_step_all_false_why : forall bs x,
  snd (feed1 (PPlex true false bs) x) = false ->
  existsb (fun fb : bool * pchain => fst fb) bs = false \/
  exists pre b post, bs = pre ++ (true, b) :: post /\
    (forall fb, In fb pre -> fst fb = true -> snd (feed1 (snd fb) x) = true) /\
    snd (feed1 b x) = false.
Proof. exact all_feed_false_why. Qed.
Print Assumptions C07_step_all_false_why.

(* up to the first refusal this is the whole-run semantics above: on a chain without stages
   and with no multiplexer marked failed, [feeds] returns the number of feeds the per-call
   semantics accepts before its first refusal, and the state the per-call semantics is in
   after the refused call (after the last call if none is refused) *)
Theorem C07_step_agreement : forall c, clean c -> forall xs,
  feeds (to_chain c) xs
  = (to_chain (fst (feeds1 c (take (S (lead (snd (feeds1 c xs)))) xs))), lead (snd (feeds1 c xs))).
Proof. exact agreement. Qed.
Print Assumptions C07_step_agreement.

Theorem C07_step_agreement_prefix : forall c, clean c -> forall xs j,
  (j <= lead (snd (feeds1 c xs)))%nat ->
  feeds (to_chain c) (take j xs) = (to_chain (fst (feeds1 c (take j xs))), j).
Proof. exact agreement_prefix. Qed.
Print Assumptions C07_step_agreement_prefix.

Theorem C07_step_agreement_chain : forall c p xs, of_chain c = Some p ->
  feeds c xs = (to_chain (stop1 p xs), acc1 p xs) /\
  all_sinks (fst (feeds c xs)) = sinks_of (stop1 p xs).
Proof. exact agreement_chain. Qed.
Print Assumptions C07_step_agreement_chain.

(* ... and the whole run succeeds ([runc]: every buffer fed, then done) iff, call by call, every
   feed is accepted and done succeeds *)
Theorem C07_step_run_agreement : forall c, clean c -> forall xs,
  snd (runc (to_chain c) xs)
  = forallb (fun v : bool => v) (snd (feeds1 c xs)) && snd (done1 (fst (feeds1 c xs))).
Proof. exact run_agreement. Qed.
Print Assumptions C07_step_run_agreement.

Theorem C07_step_run_agreement_chain : forall c p xs, of_chain c = Some p ->
  (snd (run c xs) = true <->
   (forall v, In v (snd (fst (session p xs))) -> v = true) /\ snd (session p xs) = true).
Proof. exact run_agreement_chain. Qed.
Print Assumptions C07_step_run_agreement_chain.

(* of_chain succeeds exactly on the chains without stages, and gives a clean chain *)
Theorem C07_step_of_chain : forall c p, of_chain c = Some p -> to_chain p = c /\ clean p.
Proof. exact of_chain_spec. Qed.
Print Assumptions C07_step_of_chain.

Theorem C07_step_lead : forall vs,
  (forall i, (i < lead vs)%nat -> nth_error vs i = Some true) /\
  ((lead vs < length vs)%nat -> nth_error vs (lead vs) = Some false).
Proof. exact lead_spec. Qed.
Print Assumptions C07_step_lead.

(* non-vacuity: plexall(buffer:4, malloc) and plexany(buffer:4, malloc) fed "abc","de","f","g","h" *)
Example C07_step_ex_all :
  let c := PPlex true false [(true, PSink (SBuffer 4 [])); (true, PSink (SMalloc []))] in
  let xs := [[97; 98; 99]; [100; 101]; [102]; [103]; [104]] in
  session c xs
  = (PPlex true true [(false, PSink (SBuffer 4 [97; 98; 99])); (true, PSink (SMalloc [97; 98; 99]))],
     [true; false; false; false; false], false) /\
  sinks_of (fst (fst (session c xs))) = [[97; 98; 99]; [97; 98; 99]] /\
  frozen (fst (fst (session c xs))) = [Some [97; 98; 99]; None] /\
  of_chain (Plex true [(true, Sink (SBuffer 4 [])); (true, Sink (SMalloc []))]) = Some c /\
  clean c.
Proof. vm_compute. repeat split. Qed.

Example C07_step_ex_any :
  let c := PPlex false false [(true, PSink (SBuffer 4 [])); (true, PSink (SMalloc []))] in
  let xs := [[97; 98; 99]; [100; 101]; [102]; [103]; [104]] in
  session c xs
  = (PPlex false false [(false, PSink (SBuffer 4 [97; 98; 99]));
                        (true, PSink (SMalloc [97; 98; 99; 100; 101; 102; 103; 104]))],
     [true; true; true; true; true], true) /\
  sinks_of (fst (fst (session c xs))) = [[97; 98; 99]; [97; 98; 99; 100; 101; 102; 103; 104]] /\
  frozen (fst (fst (session c xs))) = [Some [97; 98; 99]; None].
Proof. vm_compute. repeat split. Qed.
