(* C13 -- key exchange algebra: ECDH agreement and McCallum-Relyea recovery.
   Only statements, each closed by [exact] of a lemma proved in Jwk/ExcProofs.v (model:
   Jwk/Exc.v, Jwk/ExcAlg.v; concrete arithmetic instance: Jwk/ExcEc.v over Crypto/Ec.v).

   The algebraic theorems hold in EVERY abelian group with an integer action
   ([scalar_group]); that the named curves with the arithmetic of Crypto/Ec.v (or of
   OpenSSL) form such a group is NOT proved here -- it is the stated hypothesis, and the
   concrete instance is validated numerically by the correspondence (tools/props/c13.py). *)
From JoseV Require Import Jwk.Exc Jwk.ExcAlg Jwk.ExcProofs Jwk.Prm Jwk.PrmProofs Jose.Suggest.
From JoseV Require Import Jwk.ExcEc Crypto.BigNum Crypto.Ec Base.JsonParse Base.JsonDump.
Local Open Scope Z_scope.

(* the two roles of an ECDH exchange agree: a (b P) = b (a P), also as computed by the
   model's operation (local private value times remote public point) *)
Theorem C13_ecdh_sym : forall (G : Type) (add : G -> G -> G) (neg : G -> G) (zero : G) (smul : Z -> G -> G),
  scalar_group add neg zero smul ->
  forall a b P,
    smul a (smul b P) = smul b (smul a P) /\
    ecdh_op zero smul (Some a) (smul b P) = ecdh_op zero smul (Some b) (smul a P).
Proof. exact @thm_ecdh_sym. Qed.
Print Assumptions C13_ecdh_sym.

(* ECDH on imported keys: local private value times remote public point (a missing local
   private value gives the point at infinity, see C13_refusals) *)
Theorem C13_ecdh_mode : forall (G : Type) (I : ec_impl G) prv pub l r,
  to_ec_key I prv = Some l -> to_ec_key I pub = Some r ->
  ecdh_exc I prv pub =
    if crv_eqb (k_crv l) (k_crv r) then
      from_point I (k_crv r)
        (match k_prv l with
         | Some d => ei_smul I (k_crv l) d (k_pub r)
         | None => ei_zero I (k_crv l)
         end)
    else None.
Proof. exact @thm_ecdh_mode. Qed.
Print Assumptions C13_ecdh_mode.

(* ECMR performs exactly: local "d" present -> d_local * Q_remote; local absent and remote
   "d" present -> Q_local + Q_remote; neither -> Q_local - Q_remote.  "local" is the first
   argument of jose_jwk_exc (prv, `jose jwk exc -l`), "remote" the second (pub, `-r`);
   a key has a private value exactly when its JWK has a member "d". *)
Theorem C13_ecmr_modes : forall (G : Type) (I : ec_impl G) prv pub l r,
  to_ec_key I prv = Some l -> to_ec_key I pub = Some r ->
  (k_prv l = None <-> lookup s_d prv = None) /\
  (k_prv r = None <-> lookup s_d pub = None) /\
  ecmr_exc I prv pub =
    if crv_eqb (k_crv l) (k_crv r) then
      from_point I (k_crv r)
        (match k_prv l, k_prv r with
         | Some d, _ => ei_smul I (k_crv l) d (k_pub r)
         | None, Some _ => ei_add I (k_crv l) (k_pub l) (k_pub r)
         | None, None => ei_add I (k_crv l) (k_pub l) (ei_neg I (k_crv l) (k_pub r))
         end)
    else None.
Proof. exact @thm_ecmr_modes. Qed.
Print Assumptions C13_ecmr_modes.

(* the same three modes on the operation itself *)
Theorem C13_ecmr_op_modes : forall (G : Type) (add : G -> G -> G) (neg : G -> G) (smul : Z -> G -> G),
  (forall d Ql dr Qr, ecmr_op add neg smul (Some d) Ql dr Qr = smul d Qr) /\
  (forall Ql d Qr, ecmr_op add neg smul None Ql (Some d) Qr = add Ql Qr) /\
  (forall Ql Qr, ecmr_op add neg smul None Ql None Qr = add Ql (neg Qr)).
Proof. exact @ecmr_op_modes. Qed.
Print Assumptions C13_ecmr_op_modes.

(* McCallum-Relyea recovery, for all client (c), server (s) and ephemeral (e) keys over
   any base point: with X := C + E (mode add), Y := s X (mode mul), Z := e S (mode mul),
   the difference Y - Z (mode sub) is c S = s C, the key exchanged directly (by ECDH or by
   ECMR in multiplication mode, from either side). *)
Theorem C13_ecmr_recovery : forall (G : Type) (add : G -> G -> G) (neg : G -> G) (zero : G) (smul : Z -> G -> G),
  scalar_group add neg zero smul ->
  forall c s e P,
    let Cp := smul c P in
    let Sp := smul s P in
    let Ep := smul e P in
    let X := ecmr_op add neg smul None Cp (Some e) Ep in
    let Y := ecmr_op add neg smul (Some s) Sp None X in
    let Zp := ecmr_op add neg smul (Some e) Ep None Sp in
    let K := ecmr_op add neg smul None Y None Zp in
    X = add Cp Ep /\ Y = smul s X /\ Zp = smul e Sp /\ K = add Y (neg Zp) /\
    K = smul c Sp /\ K = smul s Cp /\
    K = ecdh_op zero smul (Some c) Sp /\
    K = ecmr_op add neg smul (Some c) Cp None Sp /\
    K = ecdh_op zero smul (Some s) Cp.
Proof. exact @ecmr_recovery. Qed.
Print Assumptions C13_ecmr_recovery.

(* the result object of either exchange -- from the hooks or through jose_jwk_exc -- has
   exactly the members kty, crv, x, y (strings), and no "d" *)
Theorem C13_no_private : forall (G : Type) (I : ec_impl G) prv pub j,
  ecdh_exc I prv pub = Some j \/ ecmr_exc I prv pub = Some j \/ jose_jwk_exc I prv pub = Some j ->
  (exists c bx by_, j = JObj [(x_kty, JStr t_EC); (s_crv, JStr (crv_name c)); (s_x, JStr bx); (s_y, JStr by_)]) /\
  (exists m, j = JObj m /\ akeys m = [x_kty; s_crv; s_x; s_y]) /\
  lookup s_d j = None.
Proof. exact @no_private. Qed.
Print Assumptions C13_no_private.

(* refusals.  The only hypothesis about the arithmetic: the point at infinity has no affine
   coordinates (true of both instances, see the Examples). *)
Theorem C13_refusals : forall (G : Type) (I : ec_impl G),
  (forall c, ei_affine I c (ei_zero I c) = None) ->
  forall prv pub,
  (* different key types *)
  (forall ta tb a b, unpack_kty_alg prv = Some (ta, a) -> unpack_kty_alg pub = Some (tb, b) ->
     ta <> tb -> jose_jwk_exc I prv pub = None) /\
  (* key types other than EC (e.g. both oct, both RSA) *)
  (forall t, lookup x_kty prv = Some (JStr t) \/ lookup x_kty pub = Some (JStr t) -> cstr t <> t_EC ->
     ecdh_exc I prv pub = None /\ ecmr_exc I prv pub = None /\ jose_jwk_exc I prv pub = None) /\
  (* different declared algorithms *)
  (forall ta tb a b, unpack_kty_alg prv = Some (ta, Some a) -> unpack_kty_alg pub = Some (tb, Some b) ->
     a <> b -> jose_jwk_exc I prv pub = None) /\
  (* different curves: the algorithms' same-group check *)
  (forall ca cb, lookup s_crv prv = Some (JStr ca) -> lookup s_crv pub = Some (JStr cb) ->
     cstr ca <> cstr cb ->
     ecdh_exc I prv pub = None /\ ecmr_exc I prv pub = None /\ jose_jwk_exc I prv pub = None) /\
  (* ECDH always needs the local private value (ECMR has a defined mode for every
     combination, so it never refuses for this reason) *)
  (lookup s_d prv = None ->
     ecdh_exc I prv pub = None /\
     ((forall ta a, unpack_kty_alg prv = Some (ta, Some a) -> a = n_ECDH) ->
      (forall ta tb b, unpack_kty_alg prv = Some (ta, None) ->
                       unpack_kty_alg pub = Some (tb, Some b) -> b = n_ECDH) ->
      jose_jwk_exc I prv pub = None)) /\
  (* deriveKey not granted to either key *)
  (jwk_prm prv false (Some op_deriveKey) = false \/ jwk_prm pub false (Some op_deriveKey) = false ->
     jose_jwk_exc I prv pub = None) /\
  (* a key that cannot be imported (see C13_invalid_key) *)
  (to_ec_key I prv = None \/ to_ec_key I pub = None ->
     ecdh_exc I prv pub = None /\ ecmr_exc I prv pub = None /\ jose_jwk_exc I prv pub = None).
Proof. exact @thm_refusals. Qed.
Print Assumptions C13_refusals.

(* a key whose point / private value fails EC_KEY_check_key is not importable *)
Theorem C13_invalid_key : forall (G : Type) (I : ec_impl G) jwk m X Y c d,
  jwk = JObj m ->
  (match alookup s_crv m with Some (JStr cn) => crv_of_name (cstr cn) = Some c | _ => False end) ->
  (match alookup s_x m with Some jx => bn_decode_json jx = Some X | None => False end) ->
  (match alookup s_y m with Some jy => bn_decode_json jy = Some Y | None => False end) ->
  (match alookup s_d m with
   | Some jd => exists z, bn_decode_json jd = Some z /\ d = Some z
   | None => d = None end) ->
  ei_check I c (ei_mk I c X Y) d = false ->
  to_ec_key I jwk = None.
Proof. exact @thm_check_fails. Qed.
Print Assumptions C13_invalid_key.

(* when deriveKey is not granted: key_ops without it, or any "use" without a key_ops entry *)
Theorem C13_derive_not_granted : forall m req,
  (forall ko, alookup s_use m = None -> alookup s_key_ops m = Some ko ->
              listed op_deriveKey (Some ko) = false ->
              jwk_prm (JObj m) req (Some op_deriveKey) = false) /\
  (forall u, alookup s_use m = Some u -> listed op_deriveKey (alookup s_key_ops m) = false ->
             jwk_prm (JObj m) req (Some op_deriveKey) = false).
Proof. exact thm_derive_not_granted. Qed.
Print Assumptions C13_derive_not_granted.

(* ------------------------------------------------------------------ *)
(* The premises are satisfiable, and the concrete instance behaves as the theorems say on
   a non-trivial value (P-256; c = 5, s = 7, e = 11 times the generator). *)
Module C13Examples.
  Example integers_are_a_scalar_group : scalar_group Z.add Z.opp 0 Z.mul.
  Proof. exact Z_scalar_group. Qed.

  Example infinity_has_no_coordinates :
    (forall c, ei_affine ec_shape c (ei_zero ec_shape c) = None) /\
    (forall c, ei_affine (ec_concrete bigzops) c (ei_zero (ec_concrete bigzops) c) = None).
  Proof. split; reflexivity. Qed.

  Example lengths_agree :
    map (fun c => bytes_len (curve_Z c)) [P256; P384; P521; K256] = map crv_len [P256; P384; P521; K256].
  Proof. reflexivity. Qed.

  Example octets_agree :
    let b := [0; 1; 2; 255; 128; 7]%N in
    ExcAlg.os2ip b = BigNum.os2ip b /\ ExcAlg.i2osp 66051 5 = BigNum.i2osp 66051 5 /\
    ExcAlg.i2osp 66051 2 = BigNum.i2osp 66051 2 /\ ExcAlg.i2osp 0 3 = BigNum.i2osp 0 3.
  Proof. vm_compute. repeat split. Qed.

  (* {"kty":"EC","crv":"P-256","x":"UVkLelFRQNLXhMhWCGaP3--Mgv0fW-UkIVVKDcPQM-0","y":"4MF9qJBKcn2K4b82v4p5Jg0BLwDU2AiI0dC7RP2hbaQ","d":"AAAAAAAAAAAAAAAAAAAAAAAAAAAAAAAAAAAAAAAAAAU"} *)
  Definition t_c_prv : bytes :=
    [123; 34; 107; 116; 121; 34; 58; 34; 69; 67; 34; 44; 34; 99; 114; 118; 34; 58; 34; 80; 45; 50; 53; 54; 34; 44; 34; 120; 34; 58; 34; 85; 86; 107; 76; 101; 108; 70; 82; 81; 78; 76; 88; 104; 77; 104; 87; 67; 71; 97; 80; 51; 45; 45; 77; 103; 118; 48; 102; 87; 45; 85; 107; 73; 86; 86; 75; 68; 99; 80; 81; 77; 45; 48; 34; 44; 34; 121; 34; 58; 34; 52; 77; 70; 57; 113; 74; 66; 75; 99; 110; 50; 75; 52; 98; 56; 50; 118; 52; 112; 53; 74; 103; 48; 66; 76; 119; 68; 85; 50; 65; 105; 73; 48; 100; 67; 55; 82; 80; 50; 104; 98; 97; 81; 34; 44; 34; 100; 34; 58; 34; 65; 65; 65; 65; 65; 65; 65; 65; 65; 65; 65; 65; 65; 65; 65; 65; 65; 65; 65; 65; 65; 65; 65; 65; 65; 65; 65; 65; 65; 65; 65; 65; 65; 65; 65; 65; 65; 65; 65; 65; 65; 65; 85; 34; 125]%N.
  (* {"kty":"EC","crv":"P-256","x":"UVkLelFRQNLXhMhWCGaP3--Mgv0fW-UkIVVKDcPQM-0","y":"4MF9qJBKcn2K4b82v4p5Jg0BLwDU2AiI0dC7RP2hbaQ","alg":"ECMR"} *)
  Definition t_c_pub : bytes :=
    [123; 34; 107; 116; 121; 34; 58; 34; 69; 67; 34; 44; 34; 99; 114; 118; 34; 58; 34; 80; 45; 50; 53; 54; 34; 44; 34; 120; 34; 58; 34; 85; 86; 107; 76; 101; 108; 70; 82; 81; 78; 76; 88; 104; 77; 104; 87; 67; 71; 97; 80; 51; 45; 45; 77; 103; 118; 48; 102; 87; 45; 85; 107; 73; 86; 86; 75; 68; 99; 80; 81; 77; 45; 48; 34; 44; 34; 121; 34; 58; 34; 52; 77; 70; 57; 113; 74; 66; 75; 99; 110; 50; 75; 52; 98; 56; 50; 118; 52; 112; 53; 74; 103; 48; 66; 76; 119; 68; 85; 50; 65; 105; 73; 48; 100; 67; 55; 82; 80; 50; 104; 98; 97; 81; 34; 44; 34; 97; 108; 103; 34; 58; 34; 69; 67; 77; 82; 34; 125]%N.
  (* {"kty":"EC","crv":"P-256","x":"jlM7b6C_e0YluzBmfAH7YH75-LioD-9bMAYocDGHsqM","y":"c-sdveAzGDZtBp-DpvWQAFPHNjPLBBshxV4ahsH0ALQ","d":"AAAAAAAAAAAAAAAAAAAAAAAAAAAAAAAAAAAAAAAAAAc","alg":"ECMR","key_ops":["deriveKey"]} *)
  Definition t_s_prv : bytes :=
    [123; 34; 107; 116; 121; 34; 58; 34; 69; 67; 34; 44; 34; 99; 114; 118; 34; 58; 34; 80; 45; 50; 53; 54; 34; 44; 34; 120; 34; 58; 34; 106; 108; 77; 55; 98; 54; 67; 95; 101; 48; 89; 108; 117; 122; 66; 109; 102; 65; 72; 55; 89; 72; 55; 53; 45; 76; 105; 111; 68; 45; 57; 98; 77; 65; 89; 111; 99; 68; 71; 72; 115; 113; 77; 34; 44; 34; 121; 34; 58; 34; 99; 45; 115; 100; 118; 101; 65; 122; 71; 68; 90; 116; 66; 112; 45; 68; 112; 118; 87; 81; 65; 70; 80; 72; 78; 106; 80; 76; 66; 66; 115; 104; 120; 86; 52; 97; 104; 115; 72; 48; 65; 76; 81; 34; 44; 34; 100; 34; 58; 34; 65; 65; 65; 65; 65; 65; 65; 65; 65; 65; 65; 65; 65; 65; 65; 65; 65; 65; 65; 65; 65; 65; 65; 65; 65; 65; 65; 65; 65; 65; 65; 65; 65; 65; 65; 65; 65; 65; 65; 65; 65; 65; 99; 34; 44; 34; 97; 108; 103; 34; 58; 34; 69; 67; 77; 82; 34; 44; 34; 107; 101; 121; 95; 111; 112; 115; 34; 58; 91; 34; 100; 101; 114; 105; 118; 101; 75; 101; 121; 34; 93; 125]%N.
  (* {"kty":"EC","crv":"P-256","x":"jlM7b6C_e0YluzBmfAH7YH75-LioD-9bMAYocDGHsqM","y":"c-sdveAzGDZtBp-DpvWQAFPHNjPLBBshxV4ahsH0ALQ"} *)
  Definition t_s_pub : bytes :=
    [123; 34; 107; 116; 121; 34; 58; 34; 69; 67; 34; 44; 34; 99; 114; 118; 34; 58; 34; 80; 45; 50; 53; 54; 34; 44; 34; 120; 34; 58; 34; 106; 108; 77; 55; 98; 54; 67; 95; 101; 48; 89; 108; 117; 122; 66; 109; 102; 65; 72; 55; 89; 72; 55; 53; 45; 76; 105; 111; 68; 45; 57; 98; 77; 65; 89; 111; 99; 68; 71; 72; 115; 113; 77; 34; 44; 34; 121; 34; 58; 34; 99; 45; 115; 100; 118; 101; 65; 122; 71; 68; 90; 116; 66; 112; 45; 68; 112; 118; 87; 81; 65; 70; 80; 72; 78; 106; 80; 76; 66; 66; 115; 104; 120; 86; 52; 97; 104; 115; 72; 48; 65; 76; 81; 34; 125]%N.
  (* {"kty":"EC","crv":"P-256","x":"PtETt4g7TFkGODedsMIc2hZ0LtAlUEi_QzOR03S8IdE","y":"kJkgmszEyKIkyEOvpPTGigkNBNpemIna4vju_OgqN0A","d":"AAAAAAAAAAAAAAAAAAAAAAAAAAAAAAAAAAAAAAAAAAs","alg":"ECMR"} *)
  Definition t_e_prv : bytes :=
    [123; 34; 107; 116; 121; 34; 58; 34; 69; 67; 34; 44; 34; 99; 114; 118; 34; 58; 34; 80; 45; 50; 53; 54; 34; 44; 34; 120; 34; 58; 34; 80; 116; 69; 84; 116; 52; 103; 55; 84; 70; 107; 71; 79; 68; 101; 100; 115; 77; 73; 99; 50; 104; 90; 48; 76; 116; 65; 108; 85; 69; 105; 95; 81; 122; 79; 82; 48; 51; 83; 56; 73; 100; 69; 34; 44; 34; 121; 34; 58; 34; 107; 74; 107; 103; 109; 115; 122; 69; 121; 75; 73; 107; 121; 69; 79; 118; 112; 80; 84; 71; 105; 103; 107; 78; 66; 78; 112; 101; 109; 73; 110; 97; 52; 118; 106; 117; 95; 79; 103; 113; 78; 48; 65; 34; 44; 34; 100; 34; 58; 34; 65; 65; 65; 65; 65; 65; 65; 65; 65; 65; 65; 65; 65; 65; 65; 65; 65; 65; 65; 65; 65; 65; 65; 65; 65; 65; 65; 65; 65; 65; 65; 65; 65; 65; 65; 65; 65; 65; 65; 65; 65; 65; 115; 34; 44; 34; 97; 108; 103; 34; 58; 34; 69; 67; 77; 82; 34; 125]%N.

  Definition J (t : bytes) : json := match parse_proto t with Some j => j | None => JNull end.
  Definition X := jose_jwk_exc (ec_concrete bigzops).
  Definition with_ecmr (j : option json) : json :=
    match j with
    | Some j => match jset x_alg (JStr n_ECMR) j with Some j' => j' | None => JNull end
    | None => JNull
    end.

  (* both role orders give the same point; the result has four members *)
  Example ecdh_roles_agree :
    X (J t_c_prv) (J t_s_pub) = X (J t_s_prv) (J t_c_pub) /\
    option_map (fun j => length (match j with JObj m => m | _ => [] end)) (X (J t_c_prv) (J t_s_pub)) = Some 4%nat.
  Proof. vm_compute. split; reflexivity. Qed.

  (* the whole recovery protocol on the JSON level *)
  Example recovery_protocol :
    let x := X (J t_c_pub) (J t_e_prv) in                       (* add *)
    let y := X (J t_s_prv) (with_ecmr x) in                     (* mul *)
    let z := X (J t_e_prv) (J t_s_pub) in                       (* mul *)
    let k := X (with_ecmr y) (with_ecmr z) in                   (* sub *)
    k <> None /\ k = X (J t_c_prv) (J t_s_pub).
  Proof. vm_compute. split; [discriminate|reflexivity]. Qed.

  (* refusal on the concrete instance: no local d under (inferred) ECDH *)
  Example ecdh_without_private_refused : X (J t_s_pub) (J t_c_prv) = None.
  Proof. vm_compute. reflexivity. Qed.
End C13Examples.
