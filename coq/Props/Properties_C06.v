(* C06 -- private key material never leaves: public export.
   Only statements, each closed by [exact] of a lemma proved elsewhere. *)
From JoseV Require Import Jwk.Pub Jwk.Thp Jwk.PubProofs Jwk.PrmProofs Gen.Tables.
Local Open Scope N_scope.

(* the generated private-member lists cover RFC 7518 section 6 for every registered key type *)
Theorem C06_tables_cover_rfc7518 :
  forallb (fun t => incl_b (rfc_private (t_kty t)) (t_prv t) && negb (existsb (bytes_eqb s_key_ops) (t_prv t))
                    && negb (existsb (bytes_eqb s_kty) (t_prv t))) jwk_types = true.
Proof. exact tables_cover_rfc. Qed.
Print Assumptions C06_tables_cover_rfc7518.

(* one key: private members gone, every other member unchanged, key_ops filtered *)
Theorem C06_clean : forall m j',
  NoDup (akeys m) -> jwk_clean (JObj m) = Some j' ->
  exists kty t m', kty_of (JObj m) = Some kty /\ find_type_ci kty = Some t /\ j' = JObj m' /\
    NoDup (akeys m') /\
    (forall p, In p (t_prv t) -> alookup p m' = None) /\
    (forall k, ~ In k (t_prv t) -> k <> s_key_ops -> alookup k m' = alookup k m) /\
    alookup s_key_ops m' =
      match alookup s_key_ops m with
      | Some (JArr l) => Some (JArr (filter (keep_op (removed_ops (match t_pub t with [] => true | _ => false end))) l))
      | x => x
      end.
Proof. exact clean_spec. Qed.
Print Assumptions C06_clean.

Theorem C06_no_rfc_private : forall m j',
  NoDup (akeys m) -> jwk_clean (JObj m) = Some j' ->
  exists t m', j' = JObj m' /\ In t jwk_types /\ forall p, In p (rfc_private (t_kty t)) -> alookup p m' = None.
Proof. exact clean_no_rfc_private. Qed.
Print Assumptions C06_no_rfc_private.

(* what key_ops keeps names no private operation (asymmetric) / no registered operation at all (symmetric) *)
Theorem C06_key_ops_kept : forall rm l v, In v (filter (keep_op rm) l) -> keep_op rm v = true.
Proof. exact filter_keep_none. Qed.
Print Assumptions C06_key_ops_kept.

Theorem C06_removed_ops :
  incl_b [op_sign; op_decrypt; op_unwrapKey] (removed_ops false) = true /\
  incl_b [op_sign; op_verify; op_encrypt; op_decrypt; op_wrapKey; op_unwrapKey; op_deriveKey; op_deriveBits] (removed_ops true) = true.
Proof. exact removed_ops_content. Qed.
Print Assumptions C06_removed_ops.

Theorem C06_idempotent : forall m j', NoDup (akeys m) -> jwk_clean (JObj m) = Some j' -> jwk_clean j' = Some j'.
Proof. exact clean_idempotent. Qed.
Print Assumptions C06_idempotent.

(* the RFC 7638 thumbprint input of an asymmetric key is unchanged by the export *)
Theorem C06_thp_preserved : forall m j',
  NoDup (akeys m) -> jwk_clean (JObj m) = Some j' ->
  (exists kty t, kty_of (JObj m) = Some kty /\ find_type_ci kty = Some t /\ t_pub t <> []) ->
  thp_object j' = thp_object (JObj m).
Proof. exact clean_keeps_thp_input. Qed.
Print Assumptions C06_thp_preserved.

(* arrays and JWKSets of any length: every element is exported, in place *)
Theorem C06_containers : forall l l',
  clean_all l = Some l' -> length l' = length l /\
  forall i k, nth_error l i = Some k -> exists k', nth_error l' i = Some k' /\ jwk_clean k = Some k'.
Proof. exact clean_all_spec. Qed.
Print Assumptions C06_containers.

Theorem C06_array : forall l j', jwk_pub (JArr l) = Some j' -> exists l', j' = JArr l' /\ clean_all l = Some l'.
Proof. exact pub_array. Qed.
Print Assumptions C06_array.

Theorem C06_jwkset : forall m l j',
  alookup s_keys m = Some (JArr l) -> jwk_pub (JObj m) = Some j' ->
  exists l', j' = JObj (aset s_keys (JArr l') m) /\ clean_all l = Some l'.
Proof. exact pub_set. Qed.
Print Assumptions C06_jwkset.

Example C06_ex :
  jwk_pub (JObj [(s_kty, JStr [114; 115; 97]); ([110], JStr [65]); ([101], JStr [66]); ([100], JStr [67]);
                 ([113; 105], JStr [68]); (s_key_ops, JArr [JStr op_sign; JStr op_verify; JInt 3])])
  = Some (JObj [(s_kty, JStr [114; 115; 97]); ([110], JStr [65]); ([101], JStr [66]);
                (s_key_ops, JArr [JStr op_verify; JInt 3])]).
Proof. vm_compute. reflexivity. Qed.
