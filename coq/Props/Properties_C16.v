(* C16 -- serialization shape stays well-formed across any history of additions.
   Only statements, each closed by [exact] of a lemma proved elsewhere. *)
From JoseV Require Import Jose.Entity Jose.EntityProofs.
Local Open Scope N_scope.

(* one addition: the result is again in exactly one form, the entries are the old ones
   (moved unchanged when flattened becomes general) followed by the new one, and nothing
   else in the object is touched by a migration or an append *)
Theorem C16_step : forall plural keys, NoDup keys -> ~ In plural keys -> forall m om r,
  NoDup (akeys m) -> NoDup (akeys om) -> form_ok plural keys m ->
  any_key keys om = true -> alookup plural om = None ->
  add_entity (JObj m) (JObj om) plural keys = Some r ->
  exists m', r = JObj m' /\ NoDup (akeys m') /\ form_ok plural keys m' /\
    map (vw keys) (entries plural keys m') = map (vw keys) (entries plural keys m) ++ [vw keys (JObj om)] /\
    (entries plural keys m = [] -> is_flat plural keys m') /\
    (entries plural keys m <> [] ->
       is_general plural keys m' (S (length (entries plural keys m))) /\
       exists es, alookup plural m' = Some (JArr (es ++ [JObj om])) /\
                  map (vw keys) es = map (vw keys) (entries plural keys m) /\
                  (forall l0, alookup plural m = Some (JArr l0) -> l0 <> [] -> es = l0)) /\
    (entries plural keys m <> [] -> forall k, ~ In k keys -> k <> plural -> alookup k m' = alookup k m).
Proof. exact add_entity_step. Qed.
Print Assumptions C16_step.

(* any history: a list of entries in the order added; flattened iff one entry, general iff more *)
Theorem C16_history : forall plural keys, NoDup keys -> ~ In plural keys -> forall m objs r,
  NoDup (akeys m) -> form_ok plural keys m -> Forall (addable plural keys) objs ->
  add_all plural keys (JObj m) objs = Some r ->
  exists m', r = JObj m' /\ NoDup (akeys m') /\ form_ok plural keys m' /\
    map (vw keys) (entries plural keys m') =
      map (vw keys) (entries plural keys m) ++ map (fun om => vw keys (JObj om)) objs /\
    match length (entries plural keys m') with
    | O => objs = [] /\ entries plural keys m = []
    | S O => is_flat plural keys m' \/ (objs = [] /\ length (entries plural keys m) = 1%nat)
    | S (S n) => is_general plural keys m' (S (S n)) \/ objs = []
    end.
Proof. exact history. Qed.
Print Assumptions C16_history.

(* the two instances the library uses *)
Theorem C16_jws_keys_ok : NoDup jws_keys /\ ~ In s_signatures jws_keys.
Proof.
  split.
  - repeat constructor; cbn; intros H; repeat (destruct H as [H|H]; [discriminate H|]); exact H.
  - cbn. intros H; repeat (destruct H as [H|H]; [discriminate H|]); exact H.
Qed.
Print Assumptions C16_jws_keys_ok.

Theorem C16_jwe_keys_ok : NoDup jwe_keys /\ ~ In s_recipients jwe_keys.
Proof.
  split.
  - repeat constructor; cbn; intros H; repeat (destruct H as [H|H]; [discriminate H|]); exact H.
  - cbn. intros H; repeat (destruct H as [H|H]; [discriminate H|]); exact H.
Qed.
Print Assumptions C16_jwe_keys_ok.

(* an already encoded protected header is never re-encoded or altered *)
Theorem C16_protected_stable : forall m s,
  alookup s_protected m = Some (JStr s) -> encode_protected (JObj m) = Some (JObj m).
Proof. exact encode_protected_string. Qed.
Print Assumptions C16_protected_stable.

Theorem C16_protected_result : forall obj r,
  encode_protected obj = Some r ->
  exists m m', obj = JObj m /\ r = JObj m' /\
    (forall k, k <> s_protected -> alookup k m' = alookup k m) /\
    match alookup s_protected m with
    | None => m' = m
    | Some (JStr _) => m' = m
    | Some p => exists e, jose_b64_enc_dump p = Some e /\ alookup s_protected m' = Some e
    end.
Proof. exact encode_protected_result. Qed.
Print Assumptions C16_protected_result.

(* non-vacuity: empty -> flattened -> general(2) -> general(3) *)
Example C16_ex :
  let s1 := [(s_signature, JStr [97]); (s_protected, JStr [98])] in
  let s2 := [(s_signature, JStr [99])] in
  let s3 := [(s_signature, JStr [100]); (s_header, JObj [])] in
  match add_all s_signatures jws_keys (JObj [([112], JStr [120])]) [s1; s2; s3] with
  | Some (JObj m) => length (entries s_signatures jws_keys m) = 3%nat /\
                     is_general s_signatures jws_keys m 3 /\ alookup [112] m = Some (JStr [120])
  | _ => False
  end.
Proof. vm_compute. split; [reflexivity|]. split; [|reflexivity]. eexists. split; [reflexivity|]. split; reflexivity. Qed.
