(* C17 -- no hidden state: contexts isolated (part A), read-only calls pure (part B, checked
   dynamically: see Cfg/Pure.v), calls re-entrant (part C, under a footprint premise that is
   checked dynamically: see Conc/Interleave.v).
   Only statements, each closed by [exact] of a lemma proved elsewhere. *)
From JoseV Require Import Cfg.Cfg Cfg.CfgProofs Cfg.Pure Cfg.PureProofs Conc.Interleave Conc.InterleaveProofs.
Local Open Scope N_scope.

(* ---- part A: configuration contexts ----------------------------------------------------- *)

(* Take ANY history of create/incref/decref/auto/set_err_func/get_err_misc/err operations on any
   number of contexts (and on NULL) and erase every operation that does not address c: the
   record of c, the reports delivered through c and the result of every call made on c are
   the same.  So no operation on another context (or on the NULL context) is visible from c. *)
Theorem C17_ctx_isolated : forall v (history : list cop) (c : cid),
  cview (crun v cinit history) c = cview (crun v cinit (filter (addresses c) history)) c /\
  outs_on v c cinit history = outs_on v c cinit (filter (addresses c) history).
Proof. exact ctx_isolated. Qed.
Print Assumptions C17_ctx_isolated.

(* one step: an operation on c (or on NULL) never changes the view of another context c' *)
Theorem C17_ctx_isolated_step : forall v st o c c',
  ctarget o = Some c \/ ctarget o = None -> c' <> c -> cview (fst (cstep v st o)) c' = cview st c'.
Proof. exact ctx_isolated_step. Qed.
Print Assumptions C17_ctx_isolated_step.

(* After handler h was registered with c together with the user pointer m (in any reachable or
   unreachable state st0), and after ANY further history [mid] that does not re-register or
   re-create c (operations on other contexts, incref/decref/get/err on c, registrations on other
   contexts with the same handler and other pointers ...), as long as c is still alive: an error
   reported on c is delivered to h, with m. *)
Theorem C17_handler_gets_own_misc : forall v st0 st1 st2 c h m mid,
  cstep v st0 (OpSet (Some c) (Some h) m) = (st1, OOk) ->
  no_reg c mid = true -> st2 = crun v st1 mid -> cfind c (ctxs st2) <> None ->
  forall code, snd (cstep v st2 (OpErr (Some c) code)) =
    OEvent {| ev_ctx := Some c; ev_handler := Some h; ev_misc := m; ev_code := code |}.
Proof. intros v st0 st1 st2 c h m mid. exact (err_delivery v st0 st1 st2 c (Some h) m mid). Qed.
Print Assumptions C17_handler_gets_own_misc.

(* every report ever delivered through a context, in any history, went to the handler and
   carried the pointer held by that context at that moment *)
Theorem C17_every_delivery : forall v history st o x, In (st, o, x) (ctrace v cinit history) ->
  forall c code cx, o = OpErr (Some c) code -> cfind c (ctxs st) = Some cx ->
  x = OEvent {| ev_ctx := Some c; ev_handler := handler cx; ev_misc := misc cx; ev_code := code |}.
Proof. intros v history. exact (every_delivery v history cinit). Qed.
Print Assumptions C17_every_delivery.

(* clearing the handler (set_err_func(c, NULL, m)): reports on c go to the default handler *)
Theorem C17_clear_default : forall v st0 st1 st2 c m mid code,
  cstep v st0 (OpSet (Some c) None m) = (st1, OOk) ->
  no_reg c mid = true -> st2 = crun v st1 mid -> cfind c (ctxs st2) <> None ->
  exists e, snd (cstep v st2 (OpErr (Some c) code)) = OEvent e /\ ev_handler e = None /\ ev_ctx e = Some c.
Proof.
  intros v st0 st1 st2 c m mid code H1 H2 H3 H4.
  eexists. split; [exact (err_delivery v st0 st1 st2 c None m mid H1 H2 H3 H4 code)|]. split; reflexivity.
Qed.
Print Assumptions C17_clear_default.

(* a new context and the NULL context use the default handler *)
Theorem C17_fresh_and_null_default : forall v st code,
  (forall c st1, cstep v st (OpCreate c) = (st1, OOk) -> cfind c (ctxs st1) = Some cfg_new) /\
  handler cfg_new = None /\
  snd (cstep v st (OpErr None code)) =
    OEvent {| ev_ctx := None; ev_handler := None; ev_misc := 0; ev_code := code |} /\
  ctxs (fst (cstep v st (OpErr None code))) = ctxs st.
Proof.
  intros v st code. split; [intros c st1; exact (create_default v st st1 c)|].
  split; [reflexivity|]. exact (null_default v st code).
Qed.
Print Assumptions C17_fresh_and_null_default.

(* jose_cfg_get_err_misc returns the pointer last registered -- this holds for every variant of
   the model in which the function is REPAIRED (`return cfg->misc;`), in particular [Fixed] ... *)
Theorem C17_get_misc_fixed_model : forall v, get_returns_misc v = true ->
  forall st0 st1 st2 c h m mid,
  cstep v st0 (OpSet (Some c) h m) = (st1, OOk) ->
  no_reg c mid = true -> st2 = crun v st1 mid -> cfind c (ctxs st2) <> None ->
  snd (cstep v st2 (OpGet (Some c))) = OPtr (PMisc m).
Proof.
  intros v Hv st0 st1 st2 c h m mid H1 H2 H3 H4.
  exact (get_fixed v st0 st1 st2 c h m mid H1 H2 H3 H4 Hv).
Qed.
Print Assumptions C17_get_misc_fixed_model.

(* ... and is REFUTED for the code as it is ([Current]: `return cfg->err;`): after
   create; set_err_func(c, handler 1, misc 1) the call returns handler 1's address.
   The history is replayed on the implementation by tools/props/c17.py. *)
Theorem C17_get_misc_refuted : exists (history : list cop) (c : cid) (m : N),
  history = [OpCreate c; OpSet (Some c) (Some 1) m; OpGet (Some c)] /\
  crun_out Current cinit history = [OOk; OOk; OPtr (PHandler 1)] /\
  PHandler 1 <> PMisc m /\
  crun_out Fixed cinit history = [OOk; OOk; OPtr (PMisc m)].
Proof.
  exists refuting_history, 0, 1. split; [reflexivity|].
  destruct get_misc_refuted as [H1 H2]. split; [exact H1|]. split; [discriminate|exact H2].
Qed.
Print Assumptions C17_get_misc_refuted.

(* in general, the code as it is returns whatever handler is registered *)
Theorem C17_get_misc_current_returns_handler : forall v, get_returns_misc v = false ->
  forall st0 st1 st2 c h m mid,
  cstep v st0 (OpSet (Some c) h m) = (st1, OOk) ->
  no_reg c mid = true -> st2 = crun v st1 mid -> cfind c (ctxs st2) <> None ->
  snd (cstep v st2 (OpGet (Some c))) = OPtr (match h with Some k => PHandler k | None => PDefault end).
Proof.
  intros v Hv st0 st1 st2 c h m mid H1 H2 H3 H4.
  exact (get_current v st0 st1 st2 c h m mid H1 H2 H3 H4 Hv).
Qed.
Print Assumptions C17_get_misc_current_returns_handler.

(* ---- part B: read-only calls -------------------------------------------------------------- *)

(* on the functional (immutable-tree) model this is true by construction; the C code is checked
   dynamically by the `pure` command against this specification: one `=` per argument *)
Theorem C17_args_preserved_model : forall (A B : Type) (f : A -> B) a,
  fst (ro_call f a) = a /\ (forall a', a = a' -> snd (ro_call f a) = snd (ro_call f a')).
Proof. intros A B f a. split; [exact (ro_args_preserved f a)|exact (ro_result_function f a)]. Qed.
Print Assumptions C17_args_preserved_model.

Theorem C17_pure_spec : forall n, length (pure_spec n) = n /\ Forall (fun t => t = TSame) (pure_spec n).
Proof. intro n. split; [exact (pure_spec_length n)|exact (pure_spec_all_same n)]. Qed.
Print Assumptions C17_pure_spec.

(* the header-merge prologues: jose_jwe_hdr gives back every reference it takes on the caller's
   "protected" member, whatever its JSON type ... *)
Theorem C17_jwe_hdr_refs_balanced : forall k, caller_delta jwe_hdr_prog k = 0%Z.
Proof. exact jwe_hdr_balanced. Qed.
Print Assumptions C17_jwe_hdr_refs_balanced.

(* ... jose_jws_hdr does not: REFUTED for an integer / real / array member (json_auto_t on a
   borrowed pointer); `pure jws_hdr {"protected":5}` shows R-1 on the implementation *)
Theorem C17_jws_hdr_refs_refuted :
  (forall k, k <> KCounted -> caller_delta jws_hdr_prog k = 0%Z) /\
  exists k, caller_delta jws_hdr_prog k = (-1)%Z.
Proof. split; [exact jws_hdr_balanced_ok|exact jws_hdr_unbalanced]. Qed.
Print Assumptions C17_jws_hdr_refs_refuted.

(* ---- part C: schedules ("partial": the footprint premise is checked dynamically) ------------ *)

(* threads = step functions over a product state with a shared read-only component.  IF every
   thread writes only its own component and what it does depends only on that component and the
   read-only one, THEN after any schedule s (any interleaving, as a list of thread ids) every
   thread's component is what it is after running the threads one after another *)
Theorem C17_schedule_free : forall (R S : Type) (cstep : tid -> R -> gstate S -> gstate S),
  writes_own R S cstep -> reads_own R S cstep ->
  forall r ts s sigma, NoDup ts -> incl s ts ->
  forall t, run_sched R S cstep r s sigma t = run_sched R S cstep r (sequential ts s) sigma t.
Proof. exact schedule_free. Qed.
Print Assumptions C17_schedule_free.

(* ... and what it is after running that thread alone *)
Theorem C17_schedule_free_alone : forall (R S : Type) (cstep : tid -> R -> gstate S -> gstate S),
  writes_own R S cstep -> reads_own R S cstep ->
  forall r s sigma t,
  run_sched R S cstep r s sigma t = run_sched R S cstep r (repeat t (tcount t s)) sigma t.
Proof. exact schedule_free_alone. Qed.
Print Assumptions C17_schedule_free_alone.

(* the premise cannot be dropped: two threads writing one shared cell give schedule-dependent results *)
Theorem C17_footprint_needed :
  run_sched unit N bad_step tt [0; 1] (fun _ => 0) 0 <> run_sched unit N bad_step tt [1; 0] (fun _ => 0) 0.
Proof. exact footprint_needed. Qed.
Print Assumptions C17_footprint_needed.

(* ---- the premises are satisfiable by concrete non-trivial values ----------------------------- *)

(* two contexts, the same handler registered with different pointers, interleaved: each report
   carries its own context's pointer; clearing one does not affect the other *)
Example C17_ex_two_contexts :
  crun_out Current cinit
    [OpCreate 0; OpCreate 1; OpSet (Some 0) (Some 1) 7; OpSet (Some 1) (Some 1) 9;
     OpErr (Some 0) 101; OpErr (Some 1) 102; OpSet (Some 0) None 7; OpErr (Some 0) 103; OpErr (Some 1) 104;
     OpDecref (Some 0); OpErr (Some 0) 105; OpErr None 106] =
    [OOk; OOk; OOk; OOk;
     OEvent {| ev_ctx := Some 0; ev_handler := Some 1; ev_misc := 7; ev_code := 101 |};
     OEvent {| ev_ctx := Some 1; ev_handler := Some 1; ev_misc := 9; ev_code := 102 |};
     OOk;
     OEvent {| ev_ctx := Some 0; ev_handler := None; ev_misc := 7; ev_code := 103 |};
     OEvent {| ev_ctx := Some 1; ev_handler := Some 1; ev_misc := 9; ev_code := 104 |};
     OOk; OSkip;
     OEvent {| ev_ctx := None; ev_handler := None; ev_misc := 0; ev_code := 106 |}].
Proof. vm_compute. reflexivity. Qed.

(* NULL handed to jose_cfg_decref / jose_cfg_auto: dereferenced by the code as it is (the process dies),
   tolerated by the repaired variant; jose_cfg_err and jose_cfg_incref accept NULL in both *)
Example C17_ex_null :
  crun_out Current cinit [OpErr None 101; OpIncref None; OpAuto None; OpErr None 102] =
    [OEvent {| ev_ctx := None; ev_handler := None; ev_misc := 0; ev_code := 101 |}; OOk; OCrash] /\
  crun_out Fixed cinit [OpIncref None; OpAuto None; OpDecref None] = [OOk; OOk; OOk].
Proof. vm_compute. split; reflexivity. Qed.

(* the premises of C17_handler_gets_own_misc hold for a concrete non-trivial middle history *)
Example C17_ex_premises :
  let st0 := crun Current cinit [OpCreate 0; OpCreate 1] in
  let mid := [OpSet (Some 1) (Some 2) 5; OpIncref (Some 0); OpErr (Some 1) 101; OpDecref (Some 0); OpGet (Some 0)] in
  let st1 := fst (cstep Current st0 (OpSet (Some 0) (Some 1) 3)) in
  snd (cstep Current st0 (OpSet (Some 0) (Some 1) 3)) = OOk /\ no_reg 0 mid = true /\
  cfind 0 (ctxs (crun Current st1 mid)) <> None.
Proof. vm_compute. repeat split; discriminate. Qed.

(* the executable thread system satisfies the footprint premise, and a schedule of 3 threads *)
Example C17_ex_footprint : writes_own N tstate tstep /\ reads_own N tstate tstep.
Proof. split; [exact tstep_writes_own|exact tstep_reads_own]. Qed.

Example C17_ex_threads : threads_check 5 17 6 = None /\ threads_check 16 3 4 = None.
Proof. vm_compute. split; reflexivity. Qed.
