(* C04 -- JWE encrypt/decrypt round trip and RFC 7516 interoperability.
   Only statements, each closed by [exact] of a lemma proved elsewhere. *)
From JoseV Require Import Jose.Jwe Jose.EncAlgs Jose.EncProofs Jose.JweProofs Codec.B64Spec.
Local Open Scope N_scope.

(* content layer round trip, from the AEAD law of the primitive: what enc puts into the JWE (iv, tag,
   ciphertext octets) is exactly what dec reads back, over the same AAD input *)
Theorem C04_gcm_roundtrip :
  (forall k iv aad pt, gcm_decrypt k iv aad (fst (gcm_encrypt k iv aad pt)) (snd (gcm_encrypt k iv aad pt)) = Some pt) ->
  (forall k iv aad pt, wf_bytes (snd (gcm_encrypt k iv aad pt)) /\ blen (snd (gcm_encrypt k iv aad pt)) = 16) ->
  forall name eprm dprm m cek rnd pt jwe2 ct,
    wf_bytes rnd -> (12 <= length rnd)%nat ->
    ea_enc (gcm_alg name eprm dprm) (JObj m) cek rnd pt = Some (jwe2, ct) ->
    ea_dec (gcm_alg name eprm dprm) jwe2 cek ct = Some pt.
Proof. exact gcm_content_roundtrip. Qed.
Print Assumptions C04_gcm_roundtrip.

Theorem C04_cbchs_roundtrip :
  (forall mac tl k iv aad pt,
     cbchs_decrypt mac tl k iv aad (fst (cbchs_encrypt mac tl k iv aad pt)) (snd (cbchs_encrypt mac tl k iv aad pt)) = Some pt) ->
  (forall mac tl k iv aad pt, wf_bytes (snd (cbchs_encrypt mac tl k iv aad pt))) ->
  forall name eprm dprm m cek rnd pt jwe2 ct,
    wf_bytes rnd -> (16 <= length rnd)%nat ->
    ea_enc (cbchs_alg name eprm dprm) (JObj m) cek rnd pt = Some (jwe2, ct) ->
    ea_dec (cbchs_alg name eprm dprm) jwe2 cek ct = Some pt.
Proof. exact cbchs_content_roundtrip. Qed.
Print Assumptions C04_cbchs_roundtrip.

(* what jose_jwe_enc_cek produces (RFC 7516 5.1 steps 11-19): enc chosen and recorded, protected header
   encoded once, compress-before-encrypt exactly when zip=DEF is protected, AEAD seal, base64url ciphertext *)
Theorem C04_product : forall defl jwe cek rnd pt j',
  jwe_enc_cek defl jwe cek rnd pt = Some j' ->
  exists a0 a jwe1 body jwe2 ct,
    enc_cek_prepare real_sug_encr jwe cek = Some (a0, jwe1) /\ find_encr real_encr_algs (ea_name a0) = Some a /\
    body = (match protected_zip jwe1 with Some _ => defl pt | None => pt end) /\
    (forall z, protected_zip jwe1 = Some z -> z = s_DEF) /\
    ea_enc a jwe1 cek rnd body = Some (jwe2, ct) /\ set_b64 s_ciphertext ct jwe2 = Some j'.
Proof. exact enc_cek_product. Qed.
Print Assumptions C04_product.

(* decryption is the exact mirror (C02): unwrap, decode, AEAD-open, inflate *)
Theorem C04_decrypt_mirror : forall ealgs infl jwe cek ct pt,
  dec_cek_octets ealgs infl jwe cek ct = Some pt ->
  exists a, In a ealgs /\ jwk_prm cek false (Some (ea_dprm a)) = true /\
    match protected_zip jwe with
    | Some z => z = s_DEF /\ exists body, ea_dec a jwe cek ct = Some body /\ infl body = Some pt
    | None => ea_dec a jwe cek ct = Some pt
    end.
Proof. exact dec_cek_sound. Qed.
Print Assumptions C04_decrypt_mirror.
