(* C11 -- generated keys are complete, sized as requested, consistent; generation-only members, key_ops,
   rejections.  Only statements, each closed by [exact] of a lemma of Jwk/GenProofs.v.
   [X : g_ext] is what OpenSSL contributes to one call of jose_jwk_gen(): the octets RAND_bytes delivers, the
   RSA key RSA_generate_key_ex returns for (bits, e), the EC key EC_KEY_generate_key returns for a curve.
   "Never repeat" (freshness of OpenSSL's RNG) is NOT a theorem: see C11_random_passed_through and the dynamic
   check of tools/props/c11.py. *)
From JoseV Require Import Jwk.Gen Jwk.GenProofs Gen.Tables Gen.Consts Codec.B64Spec Crypto.BigNum Crypto.Ec.
Local Open Scope N_scope.

(* ---- the template logic as a whole ------------------------------------------------------------------- *)

(* the PREP hooks: at most one handles a template (their name sets are disjoint), so the running order of the
   hook list does not matter *)
Theorem C11_prep_dispatch : forall jwk,
  gen_prep jwk = match g_req_s g_alg jwk with
                 | None => Some jwk
                 | Some a => match g_handler a with
                             | Some h => g_prep_execute h jwk
                             | None => Some jwk
                             end
                 end.
Proof. exact gen_prep_spec. Qed.
Print Assumptions C11_prep_dispatch.

(* algorithm -> implied key, for EVERY string, is the written-out table (RFC 7518 sizes / curves) *)
Theorem C11_alg_implied : forall a, g_alg_implies a = alookup a g_alg_key_table.
Proof. exact alg_implies_table. Qed.
Print Assumptions C11_alg_implied.

Theorem C11_alg_implied_registered : forall a i, g_alg_implies a = Some i -> In a (map a_name alg_registry).
Proof. exact alg_implies_registered. Qed.
Print Assumptions C11_alg_implied_registered.

(* the key type of an accepted key is the one the template asks for (the algorithm's, else "kty") *)
Theorem C11_kty_as_requested : forall X, wf_bytes (x_rand X) -> forall t k,
  jwk_gen X t = Some k -> nodup_keys t ->
  exists h, g_kty_request t = Some h /\ g_req_s g_kty k = Some (g_make_kty h).
Proof. exact gen_kty_as_requested. Qed.
Print Assumptions C11_kty_as_requested.

(* every accepted template is a consistent request for something generable with supported parameters ...
   [g_template_ok] asks for an EVEN RSA size: with what OpenSSL 3 delivers for the requests mkrsa lets through
   (a modulus of 2 * (bits / 2) bits; hypothesis) mkrsa's test RSA_bits(key) != bits refuses every odd size *)
Theorem C11_accepted_is_consistent : forall X, wf_bytes (x_rand X) ->
  (forall bits e rk, (2048 <= bits <= g_rsa_max_bits)%Z -> g_check_public_exponent e = true ->
     x_rsa X bits e = Some rk -> Z.of_N (N.size (rk_n rk)) = (2 * (bits / 2))%Z) ->
  forall t k, jwk_gen X t = Some k -> nodup_keys t -> g_template_ok t = true.
Proof. exact gen_accepted_ok. Qed.
Print Assumptions C11_accepted_is_consistent.

(* ... so contradictory / unsupported / too small / odd-RSA-size / nothing-generable templates are rejected *)
Theorem C11_rejects : forall X, wf_bytes (x_rand X) ->
  (forall bits e rk, (2048 <= bits <= g_rsa_max_bits)%Z -> g_check_public_exponent e = true ->
     x_rsa X bits e = Some rk -> Z.of_N (N.size (rk_n rk)) = (2 * (bits / 2))%Z) ->
  forall t, nodup_keys t -> g_template_ok t = false -> jwk_gen X t = None.
Proof. exact gen_rejects. Qed.
Print Assumptions C11_rejects.

Theorem C11_contradictory_rejected : forall X, wf_bytes (x_rand X) -> forall t,
  nodup_keys t -> g_consistent_with_alg t = false -> jwk_gen X t = None.
Proof. exact gen_contradictory_rejected. Qed.
Print Assumptions C11_contradictory_rejected.

(* and conversely, when the generators deliver, exactly those templates are accepted *)
Theorem C11_accepts_iff : forall X,
  wf_bytes (x_rand X) -> (N.to_nat keymax <= length (x_rand X))%nat ->
  (forall bits e, (2048 <= bits <= g_rsa_max_bits)%Z -> g_check_public_exponent e = true ->
     exists rk, x_rsa X bits e = Some rk /\ Forall (fun mx => snd mx <> 0) (g_rsa_fields rk) /\
                Z.of_N (N.size (rk_n rk)) = (2 * (bits / 2))%Z) ->
  (forall c, exists ek, x_ec X c = Some ek /\
     Forall (fun mx => snd mx <> 0 /\ g_num_bytes (snd mx) <= g_curve_len c) (g_ec_fields ek)) ->
  forall t, g_plain_template t -> (jwk_gen X t <> None <-> g_template_ok t = true).
Proof. exact gen_accepts_iff. Qed.
Print Assumptions C11_accepts_iff.

(* ---- oct ------------------------------------------------------------------------------------------------- *)

Theorem C11_oct_exact : forall X, wf_bytes (x_rand X) -> forall t k,
  jwk_gen X t = Some k -> nodup_keys t -> g_req_s g_kty k = Some g_oct ->
  exists len : Z,
    g_oct_request t = Some len /\ (0 < len <= Z.of_N keymax)%Z /\
    let r := take (Z.to_nat len) (x_rand X) in
    lookup g_k k = Some (JStr (enc r)) /\ dec (enc r) = Some r /\ length r = Z.to_nat len /\
    lookup g_bytes k = None.
Proof. exact gen_oct_exact. Qed.
Print Assumptions C11_oct_exact.

(* the random octets are passed through: two runs that give the same key drew the same octets *)
Theorem C11_random_passed_through : forall X1 X2 t k,
  wf_bytes (x_rand X1) -> wf_bytes (x_rand X2) -> nodup_keys t ->
  jwk_gen X1 t = Some k -> jwk_gen X2 t = Some k -> g_req_s g_kty k = Some g_oct ->
  exists len, g_oct_request t = Some len /\
              take (Z.to_nat len) (x_rand X1) = take (Z.to_nat len) (x_rand X2).
Proof. exact gen_oct_injective. Qed.
Print Assumptions C11_random_passed_through.

(* ---- RSA ------------------------------------------------------------------------------------------------- *)

(* what check_public_exponent accepts, as arithmetic: 3, or odd with 2^16 <= e < 2^256 *)
Theorem C11_rsa_exponent_rule : forall e,
  g_check_public_exponent e = true <-> e = 3 \/ (N.odd e = true /\ 2 ^ 16 <= e < 2 ^ 256).
Proof. exact public_exponent_rule. Qed.
Print Assumptions C11_rsa_exponent_rule.

(* "bits" is the 64-bit value itself: under 2048 or over OPENSSL_RSA_MAX_MODULUS_BITS (16384) is refused *)
Theorem C11_rsa_size_range : forall t z,
  lookup g_bits t = Some (JInt z) -> (z < 2048 \/ g_rsa_max_bits < z)%Z -> g_rsa_request t = None.
Proof. exact rsa_bits_out_of_range_rejected. Qed.
Print Assumptions C11_rsa_size_range.

(* an integer "e" reaches OpenSSL as the number it is; a negative one is refused *)
Theorem C11_rsa_exponent_as_requested : forall t z bits e,
  lookup g_e t = Some (JInt z) -> (z < 18446744073709551616)%Z -> g_rsa_request t = Some (bits, e) ->
  (0 <= z)%Z /\ e = Z.to_N z.
Proof. exact rsa_int_exponent_as_requested. Qed.
Print Assumptions C11_rsa_exponent_as_requested.

Theorem C11_rsa_negative_exponent_rejected : forall t z,
  lookup g_e t = Some (JInt z) -> (z < 0)%Z -> g_rsa_request t = None.
Proof. exact rsa_negative_exponent_rejected. Qed.
Print Assumptions C11_rsa_negative_exponent_rejected.

(* the members of an accepted RSA key are the generated numbers, minimal-width big-endian base64url; the modulus
   has EXACTLY the requested number of bits (mkrsa fails when RSA_bits(key) != bits) -- no hypothesis on OpenSSL *)
Theorem C11_rsa_members : forall X, wf_bytes (x_rand X) -> forall t k,
  jwk_gen X t = Some k -> nodup_keys t -> g_req_s g_kty k = Some g_RSA ->
  exists bits e rk,
    g_rsa_request t = Some (bits, e) /\ (2048 <= bits <= g_rsa_max_bits)%Z /\ g_check_public_exponent e = true /\
    x_rsa X bits e = Some rk /\ Z.of_N (N.size (rk_n rk)) = bits /\
    (forall m x, In (m, x) (g_rsa_fields rk) ->
       exists jm, lookup m k = Some jm /\ g_bn_decode_json jm = Some x /\
                  exists b, jm = JStr (enc b) /\ dec (enc b) = Some b /\ blen b = g_num_bytes x /\ g_os2ip b = x) /\
    lookup g_bits k = None.
Proof. exact gen_rsa_members. Qed.
Print Assumptions C11_rsa_members.

(* with OpenSSL's guarantee about RSA_generate_key_ex as a hypothesis (g_rsa_good: modulus of 2*(bits/2) bits,
   exponent as asked, n = p q, e d = 1 mod lcm(p-1, q-1), CRT members): the size is EXACTLY the requested one
   (from the model alone), hence the requested size is even (OpenSSL's one-bit-short key for an odd size is
   refused by mkrsa); exponent as requested; consistency *)
Theorem C11_rsa_consistent : forall X, wf_bytes (x_rand X) ->
  (forall bits e rk, x_rsa X bits e = Some rk -> g_rsa_good bits e rk) ->
  forall t k, jwk_gen X t = Some k -> nodup_keys t -> g_req_s g_kty k = Some g_RSA ->
  exists bits e rk,
    g_bits_read t = Some bits /\ (2048 <= bits <= g_rsa_max_bits)%Z /\ g_exp_read t = Some e /\
    (e = 3 \/ (N.odd e = true /\ 2 ^ 16 <= e < 2 ^ 256)) /\
    (forall m x, In (m, x) (g_rsa_fields rk) -> g_member_num m k = Some x) /\
    g_rsa_good bits e rk /\
    Z.of_N (N.size (rk_n rk)) = bits /\
    Z.even bits = true /\
    lookup g_bits k = None.
Proof. exact gen_rsa_consistent. Qed.
Print Assumptions C11_rsa_consistent.

(* under OpenSSL's behaviour a request for an RSA key of odd size is always refused (never a key one bit short) *)
Theorem C11_rsa_odd_size_refused : forall X, wf_bytes (x_rand X) ->
  (forall bits e rk, x_rsa X bits e = Some rk -> g_rsa_good bits e rk) ->
  forall t bits e, nodup_keys t -> g_kty_request t = Some GMRsa -> g_rsa_request t = Some (bits, e) ->
  Z.odd bits = true -> jwk_gen X t = None.
Proof. exact gen_rsa_odd_refused. Qed.
Print Assumptions C11_rsa_odd_size_refused.

(* the same from the size clause of the guarantee alone, and only for the requests mkrsa lets through *)
Theorem C11_rsa_odd_size_rejected : forall X, wf_bytes (x_rand X) ->
  (forall bits e rk, (2048 <= bits <= g_rsa_max_bits)%Z -> g_check_public_exponent e = true ->
     x_rsa X bits e = Some rk -> Z.of_N (N.size (rk_n rk)) = (2 * (bits / 2))%Z) ->
  forall t bits e, nodup_keys t -> g_kty_request t = Some GMRsa -> g_rsa_request t = Some (bits, e) ->
  Z.odd bits = true -> jwk_gen X t = None.
Proof. exact gen_rsa_odd_size_rejected. Qed.
Print Assumptions C11_rsa_odd_size_rejected.

(* ---- EC -------------------------------------------------------------------------------------------------- *)

(* with OpenSSL's guarantee about EC_KEY_generate_key as a hypothesis: requested curve, d G = (x, y),
   coordinates and d at the full field width *)
Theorem C11_ec_valid : forall X, wf_bytes (x_rand X) ->
  (forall c ek, x_ec X c = Some ek -> g_ec_good c ek) ->
  forall t k, jwk_gen X t = Some k -> nodup_keys t -> g_req_s g_kty k = Some g_EC ->
  exists c ek,
    g_crv_request t = Some c /\ lookup g_crv k = Some (JStr (g_curve_name c)) /\
    (forall m x, In (m, x) (g_ec_fields ek) ->
       exists b, lookup m k = Some (JStr (enc b)) /\ dec (enc b) = Some b /\
                 blen b = g_curve_len c /\ g_os2ip b = x) /\
    g_ec_good c ek.
Proof. exact gen_ec_valid. Qed.
Print Assumptions C11_ec_valid.

(* ---- generation-only members, key_ops, everything else ------------------------------------------------ *)

(* generation-only members are gone from every generated key, whatever its type *)
Theorem C11_generation_members_gone : forall X, wf_bytes (x_rand X) -> forall t k,
  jwk_gen X t = Some k -> nodup_keys t -> lookup g_bytes k = None /\ lookup g_bits k = None.
Proof. exact gen_members_gone. Qed.
Print Assumptions C11_generation_members_gone.

(* key_ops: inferred from alg exactly when neither use nor key_ops is given; otherwise left as given *)
Theorem C11_key_ops_inferred : forall X, wf_bytes (x_rand X) -> forall t k,
  jwk_gen X t = Some k -> nodup_keys t ->
  lookup g_key_ops k =
    match g_opt_s g_alg t, g_opt_s g_use t, lookup g_key_ops t with
    | GStr a, GAbsent, None => g_expected_ops a
    | _, _, ko => ko
    end.
Proof. exact gen_key_ops. Qed.
Print Assumptions C11_key_ops_inferred.

(* the exact table, over the generated registry: by kind of algorithm *)
Theorem C11_key_ops_table :
  map (fun e => g_expected_ops (a_name e)) alg_registry = map (fun e => g_kind_ops (a_kind e)) alg_registry.
Proof. exact expected_ops_table. Qed.
Print Assumptions C11_key_ops_table.

(* "the key works with its algorithm", permission part: the inferred key_ops list the operations the
   algorithm itself checks (prm columns of the generated registry) -- for every algorithm but "dir" *)
Theorem C11_key_ops_grant_algorithm : forall e,
  In e alg_registry -> a_name e <> ga_dir -> g_ops_grant e = true.
Proof. exact inferred_ops_grant_alg. Qed.
Print Assumptions C11_key_ops_grant_algorithm.

Theorem C11_key_ops_grant_algorithm_refuted_dir :
  exists e, In e alg_registry /\ a_name e = ga_dir /\ g_ops_grant e = false /\
            g_expected_ops ga_dir = Some (JArr [JStr g_wrapKey; JStr g_unwrapKey]) /\
            a_prm1 e = Some g_encrypt /\ a_prm2 e = Some g_decrypt.
Proof. exact dir_key_ops_do_not_grant_dir. Qed.
Print Assumptions C11_key_ops_grant_algorithm_refuted_dir.

(* members the generator has no business with (alg, use, kid, ...) come out exactly as given *)
Theorem C11_untouched : forall X, wf_bytes (x_rand X) -> forall t k,
  jwk_gen X t = Some k -> nodup_keys t ->
  forall key, ~ In key all_touched -> lookup key k = lookup key t.
Proof. exact gen_untouched. Qed.
Print Assumptions C11_untouched.

(* the result carries every member the registered key type requires *)
Theorem C11_complete : forall X t k,
  jwk_gen X t = Some k ->
  exists kty ty, g_req_s g_kty k = Some kty /\ In ty jwk_types /\ t_kty ty = kty /\
                 forall r, In r (t_req ty) -> lookup r k <> None.
Proof. exact gen_complete. Qed.
Print Assumptions C11_complete.

(* a "bytes" member other than exactly the algorithm's size contradicts the algorithm (0 included) *)
Theorem C11_oct_size_contradicts_alg_rejected : forall X, wf_bytes (x_rand X) -> forall t a L v,
  nodup_keys t -> g_req_s g_alg t = Some a -> g_alg_implies a = Some (IOct L) ->
  lookup g_bytes t = Some v -> v <> JInt L -> jwk_gen X t = None.
Proof. exact gen_bytes_contradict_alg_rejected. Qed.
Print Assumptions C11_oct_size_contradicts_alg_rejected.

(* ---- the premises are satisfiable: closed, non-trivial instances ------------------------------------------ *)

Definition ex_hs256 : json := JObj [(g_alg, JStr ga_HS256)].
Definition ex_es384_kid : json := JObj [(g_alg, JStr ga_ES384); ([107; 105; 100], JStr [49])].
Definition ex_rsa_3072 : json := JObj [(g_kty, JStr g_RSA); (g_bits, JInt 3072); (g_e, JStr [65; 81; 65; 66])].

Example ex_oct_accepted :
  match jwk_gen g_demo_ext ex_hs256 with
  | Some k => g_req_s g_kty k = Some g_oct /\ lookup g_key_ops k = Some (JArr [JStr g_sign; JStr g_verify])
              /\ lookup g_bytes k = None /\ g_oct_request ex_hs256 = Some 32%Z
  | None => False
  end.
Proof. vm_compute. repeat split; reflexivity. Qed.

Example ex_ec_accepted :
  match jwk_gen g_demo_ext ex_es384_kid with
  | Some k => g_req_s g_kty k = Some g_EC /\ lookup g_crv k = Some (JStr g_P384) /\
              lookup [107; 105; 100] k = Some (JStr [49]) /\ g_crv_request ex_es384_kid = Some GC384
  | None => False
  end.
Proof. vm_compute. repeat split; reflexivity. Qed.

Example ex_members_gone_other_type :
  match jwk_gen g_demo_ext (JObj [(g_alg, JStr ga_HS256); (g_bits, JInt 2048)]),
        jwk_gen g_demo_ext (JObj [(g_kty, JStr g_EC); (g_crv, JStr g_P256); (g_bytes, JInt 5); (g_bits, JInt 7)]) with
  | Some k1, Some k2 => lookup g_bits k1 = None /\ lookup g_bits k2 = None /\ lookup g_bytes k2 = None
  | _, _ => False
  end.
Proof. vm_compute. repeat split; reflexivity. Qed.

Example ex_rsa_accepted :
  g_rsa_request ex_rsa_3072 = Some (3072%Z, 65537) /\
  match jwk_gen g_demo_ext ex_rsa_3072 with
  | Some k => g_req_s g_kty k = Some g_RSA /\ lookup g_bits k = None /\
              g_member_num g_n k = Some (g_demo_modulus 3072) /\ N.size (g_demo_modulus 3072) = 3072
  | None => False
  end.
Proof. vm_compute. repeat split; reflexivity. Qed.

(* an odd size: the generator delivers 2048 bits for 2049, mkrsa refuses; 2050 is delivered as asked *)
Example ex_rsa_odd_refused :
  g_rsa_request (JObj [(g_kty, JStr g_RSA); (g_bits, JInt 2049)]) = Some (2049%Z, 65537) /\
  option_map (fun rk => N.size (rk_n rk)) (x_rsa g_demo_ext 2049 65537) = Some 2048 /\
  jwk_gen g_demo_ext (JObj [(g_kty, JStr g_RSA); (g_bits, JInt 2049)]) = None /\
  match jwk_gen g_demo_ext (JObj [(g_kty, JStr g_RSA); (g_bits, JInt 2050)]) with
  | Some k => option_map N.size (g_member_num g_n k) = Some 2050 /\ lookup g_bits k = None
  | None => False
  end.
Proof. vm_compute. repeat split; reflexivity. Qed.

Example ex_template_ok :
  map g_template_ok
    [ex_hs256; ex_es384_kid; ex_rsa_3072;
     JObj [];                                                           (* names nothing *)
     JObj [(g_kty, JStr g_oct)];                                        (* no size *)
     JObj [(g_alg, JStr ga_HS256); (g_kty, JStr g_RSA)];                (* kty contradicts alg *)
     JObj [(g_alg, JStr ga_ES256); (g_crv, JStr g_P384)];               (* crv contradicts alg *)
     JObj [(g_alg, JStr ga_A128KW); (g_bytes, JInt 32)];                (* size contradicts alg *)
     JObj [(g_kty, JStr g_oct); (g_bytes, JInt 0)];
     JObj [(g_kty, JStr g_oct); (g_bytes, JInt (-1))];
     JObj [(g_kty, JStr g_oct); (g_bytes, JInt 1024)];
     JObj [(g_kty, JStr g_oct); (g_bytes, JInt 1025)];
     JObj [(g_kty, JStr g_RSA); (g_bits, JInt 2047)];
     JObj [(g_kty, JStr g_RSA); (g_bits, JInt 2048)];
     JObj [(g_kty, JStr g_RSA); (g_e, JInt 4)];
     JObj [(g_kty, JStr g_RSA); (g_e, JInt 1)];
     JObj [(g_kty, JStr g_RSA); (g_e, JBool true)];
     JObj [(g_kty, JStr g_EC); (g_crv, JStr [80; 45; 49; 57; 50])];     (* P-192 *)
     JObj [(g_alg, JStr ga_HS256); (g_bytes, JInt 0)];                  (* 0 contradicts the algorithm's 32 *)
     JObj [(g_kty, JStr g_RSA); (g_bits, JInt 16384)];
     JObj [(g_kty, JStr g_RSA); (g_bits, JInt 16385)];
     JObj [(g_kty, JStr g_RSA); (g_bits, JInt 4294969344)];             (* 2^32 + 2048: no narrowing any more *)
     JObj [(g_kty, JStr g_RSA); (g_e, JInt (-1))];
     JObj [(g_kty, JStr g_RSA); (g_e, JInt (-65537))];
     JObj [(g_kty, JStr g_RSA); (g_bits, JInt 2049)];                   (* odd: the key would be one bit short *)
     JObj [(g_kty, JStr g_RSA); (g_bits, JInt 2050)];
     JObj [(g_alg, JStr ga_HS256); (g_bits, JInt 2049)]]                (* not an RSA request: "bits" is just deleted *)
  = [true; true; true; false; false; false; false; false; false; false; true; false; false; true; false; false; false; false;
     false; true; false; false; false; false; false; true; true].
Proof. vm_compute. reflexivity. Qed.

(* the hypotheses about OpenSSL's generators are satisfiable *)
Example ex_rsa_good : g_rsa_good 12 17 g_demo_rsa.
Proof. unfold g_rsa_good. vm_compute. repeat split; reflexivity. Qed.

(* the hypotheses of C11_accepted_is_consistent / C11_rejects / C11_rsa_odd_size_rejected (size clause) and of
   C11_accepts_iff (the generators deliver) are satisfiable: the demo generator meets all of them ... *)
Example ex_demo_rsa_size : forall bits e rk,
  (2 <= bits)%Z -> x_rsa g_demo_ext bits e = Some rk -> Z.of_N (N.size (rk_n rk)) = (2 * (bits / 2))%Z.
Proof. exact g_demo_rsa_size. Qed.

Example ex_demo_delivers :
  wf_bytes (x_rand g_demo_ext) /\
  (N.to_nat keymax <= length (x_rand g_demo_ext))%nat /\
  (forall bits e, (2048 <= bits <= g_rsa_max_bits)%Z -> g_check_public_exponent e = true ->
     exists rk, x_rsa g_demo_ext bits e = Some rk /\ Forall (fun mx => snd mx <> 0) (g_rsa_fields rk) /\
                Z.of_N (N.size (rk_n rk)) = (2 * (bits / 2))%Z) /\
  (forall c, exists ek, x_ec g_demo_ext c = Some ek /\
     Forall (fun mx => snd mx <> 0 /\ g_num_bytes (snd mx) <= g_curve_len c) (g_ec_fields ek)).
Proof. exact g_demo_delivers. Qed.

(* ... so for it the decision is exact, without any hypothesis left *)
Example ex_demo_accepts_iff : forall t,
  g_plain_template t -> (jwk_gen g_demo_ext t <> None <-> g_template_ok t = true).
Proof. exact g_demo_accepts_iff. Qed.
Print Assumptions ex_demo_accepts_iff.

Example ex_ec_good :
  g_ec_good GC256 {| ek_d := 1; ek_x := Z.to_N (c_gx p256); ek_y := Z.to_N (c_gy p256) |}.
Proof. unfold g_ec_good. split; vm_compute; reflexivity. Qed.

Example ex_plain : g_plain_template ex_es384_kid.
Proof.
  unfold g_plain_template. split; [apply nodupb_spec; vm_compute; reflexivity|]. split.
  - intros m Hm. simpl in Hm. repeat (destruct Hm as [<-|Hm]; [reflexivity|]). contradiction.
  - intros s Hs. vm_compute in Hs. discriminate.
Qed.
