(* ConcatKdf: the single-step Concatenation KDF of NIST SP 800-56A
   (section 5.8.1), as profiled by RFC 7518 section 4.6.2:

     K(i) = H( counter_be32(i) || Z || OtherInfo ),  i = 1 .. reps
     DerivedKeyingMaterial = leftmost keydatalen bytes of K(1) || K(2) || ...

   [keydatalen_bytes] is in BYTES.  Also defines the big-endian encoders
   [be32] / [be64] and the length-prefixed datum used by RFC 7518 OtherInfo. *)
From JoseV Require Import Base.Bytes.
From JoseV Require Export Crypto.Sha.
Local Open Scope N_scope.

(* low 32 / 64 bits of n, big endian, 4 / 8 bytes *)
Definition be32 (n : N) : bytes := be_bytes 4 n.
Definition be64 (n : N) : bytes := be_bytes 8 n.

Definition concatkdf (h : hname) (z otherinfo : bytes) (keydatalen_bytes : N) : bytes :=
  let reps := ceil_div keydatalen_bytes (hash_len h) in
  let tail := z ++ otherinfo in
  takeN keydatalen_bytes (ctr_blocks (fun i => hash h (be32 i ++ tail)) 1 reps).

(* RFC 7518 4.6.2: Datalen (32-bit big endian) || Data *)
Definition lenpfx (d : bytes) : bytes := be32 (nlen d) ++ d.

(* RFC 7518 4.6.2 OtherInfo = AlgorithmID || PartyUInfo || PartyVInfo ||
   SuppPubInfo (keydatalen in BITS, be32) || SuppPrivInfo (empty) *)
Definition jose_otherinfo (alg apu apv : bytes) (keydatalen_bits : N) : bytes :=
  lenpfx alg ++ lenpfx apu ++ lenpfx apv ++ be32 keydatalen_bits.

(* ------------------------------------------------------------------ *)
(* Test vectors *)
From Coq Require Import String.
From JoseV Require Import Crypto.Hex.

Example be32_ex : be32 0x01020304 = [1; 2; 3; 4].
Proof. vm_compute; reflexivity. Qed.
Example be32_ex0 : be32 7 = [0; 0; 0; 7].
Proof. vm_compute; reflexivity. Qed.
Example be32_wrap : be32 0x1aabbccdd = [0xaa; 0xbb; 0xcc; 0xdd].
Proof. vm_compute; reflexivity. Qed.
Example be64_ex : be64 0x0102030405060708 = [1; 2; 3; 4; 5; 6; 7; 8].
Proof. vm_compute; reflexivity. Qed.
Example be64_ex2 : be64 408 = [0; 0; 0; 0; 0; 0; 1; 152].
Proof. vm_compute; reflexivity. Qed.

(* RFC 7518 Appendix C *)
Definition rfc7518_Z : bytes :=
  [158; 86; 217; 29; 129; 113; 53; 211; 114; 131; 66; 131; 191; 132; 38; 156;
   251; 49; 110; 163; 218; 128; 106; 72; 246; 218; 167; 121; 140; 254; 144; 196].

Example rfc7518_C_otherinfo :
  jose_otherinfo (str "A128GCM") (str "Alice") (str "Bob") 128 =
  [0; 0; 0; 7; 65; 49; 50; 56; 71; 67; 77;
   0; 0; 0; 5; 65; 108; 105; 99; 101;
   0; 0; 0; 3; 66; 111; 98;
   0; 0; 0; 128].
Proof. vm_compute; reflexivity. Qed.

(* derived key = base64url "VqqN6vgjbSBcIijNcacQGg" *)
Example rfc7518_C :
  concatkdf SHA256 rfc7518_Z
    (jose_otherinfo (str "A128GCM") (str "Alice") (str "Bob") 128) 16 =
  [86; 170; 141; 234; 248; 35; 109; 32; 92; 34; 40; 205; 113; 167; 16; 26].
Proof. vm_compute; reflexivity. Qed.

(* multi-block outputs, cross-checked with python hashlib *)
Example concatkdf_sha256_80 :
  concatkdf SHA256 rfc7518_Z
    (jose_otherinfo (str "A128GCM") (str "Alice") (str "Bob") 128) 80 =
  hex "56aa8deaf8236d205c2228cd71a7101aa4a8a036b0436d4f591331c26af44460b0d12ce7559d8af6f9945ce1dbd17c4541996713b3200dcc6d00f024ae5a3885498564e877b08c0f7289af4c91e745ce".
Proof. vm_compute; reflexivity. Qed.
Example concatkdf_sha512_70 :
  concatkdf SHA512 rfc7518_Z
    (jose_otherinfo (str "A128GCM") (str "Alice") (str "Bob") 128) 70 =
  hex "518d482b42cad8eb50e01bcd6a9676a1e02d83120fc665d447696a0ce81ab3bd2bfbf3dc1f31e54b7b99b0a2a7601dbf2d85042485ad4bc7c1dc19b5c26f35992bfed3c5d9ae".
Proof. vm_compute; reflexivity. Qed.
Example concatkdf_sha1_45 :
  concatkdf SHA1 rfc7518_Z
    (jose_otherinfo (str "A128GCM") (str "Alice") (str "Bob") 128) 45 =
  hex "b3b4d1d1cf2d4112cd5df90029813550b3097ecdcdcbb74f91601d8dc38435adfa57915e6ef02e332d5aaa55d2".
Proof. vm_compute; reflexivity. Qed.
Example concatkdf_len0 : concatkdf SHA256 rfc7518_Z [] 0 = [].
Proof. vm_compute; reflexivity. Qed.
