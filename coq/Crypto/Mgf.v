(* Mgf: MGF1 (RFC 8017 appendix B.2.1):
     T = Hash(seed || C(0)) || Hash(seed || C(1)) || ...,  C(i) = be32 i,
     output = leading [len] bytes of T.
   The hash state after absorbing the seed is computed once. *)
From JoseV Require Import Base.Bytes.
From JoseV Require Export Crypto.Sha.
From JoseV Require Import Crypto.ConcatKdf.
Local Open Scope N_scope.

Definition mgf1 (h : hname) (seed : bytes) (len : N) : bytes :=
  let st := hash_update (hash_init h) seed in
  takeN len (ctr_blocks (fun i => hash_final (hash_update st (be32 i))) 0
                        (ceil_div len (hash_len h))).

(* each block really is Hash(seed || C(i)) *)
Lemma mgf1_block h seed i :
  hash_final (hash_update (hash_update (hash_init h) seed) (be32 i))
  = hash h (seed ++ be32 i).
Proof. apply hash_split. Qed.

(* ------------------------------------------------------------------ *)
(* Test vectors: the commonly published MGF1 examples ("foo"/"bar") and
   further values cross-checked with a python hashlib implementation *)
From Coq Require Import String.
From JoseV Require Import Crypto.Hex.

Example mgf1_sha1_foo3 : mgf1 SHA1 (str "foo") 3 = hex "1ac907".
Proof. vm_compute; reflexivity. Qed.
Example mgf1_sha1_foo5 : mgf1 SHA1 (str "foo") 5 = hex "1ac9075cd4".
Proof. vm_compute; reflexivity. Qed.
Example mgf1_sha1_bar5 : mgf1 SHA1 (str "bar") 5 = hex "bc0c655e01".
Proof. vm_compute; reflexivity. Qed.
Example mgf1_sha1_bar50 :
  mgf1 SHA1 (str "bar") 50 =
  hex "bc0c655e016bc2931d85a2e675181adcef7f581f76df2739da74faac41627be2f7f415c89e983fd0ce80ced9878641cb4876".
Proof. vm_compute; reflexivity. Qed.
Example mgf1_sha256_bar50 :
  mgf1 SHA256 (str "bar") 50 =
  hex "382576a7841021cc28fc4c0948753fb8312090cea942ea4c4e735d10dc724b155f9f6069f289d61daca0cb814502ef04eae1".
Proof. vm_compute; reflexivity. Qed.
Example mgf1_sha256_empty32 :
  mgf1 SHA256 [] 32 =
  hex "df3f619804a92fdb4057192dc43dd748ea778adc52bc498ce80524c014b81119".
Proof. vm_compute; reflexivity. Qed.
Example mgf1_sha384_seed100 :
  mgf1 SHA384 (str "seed") 100 =
  hex "e721d6bbe0d42240bced67392f8a8edb1f79e25ed92a70a4b1521722f1cb81772d8539173cc5055fabed6ce53315711586b889b1fec78c386fb8211e61ce989f3c7aa431027c4ac370a9d171ed64052f7f1a8262f9d77fb37ecc08f4326e1a1ed60a0d95".
Proof. vm_compute; reflexivity. Qed.
Example mgf1_sha512_seed130 :
  mgf1 SHA512 (str "seed") 130 =
  hex "b76f0d507aafecd10f1a1f9893059f9d691de22082c56b9057c38ea555a506148fda313e51515d18522c4e70066f8adfc773cde314d480b9521773495e3069ad24cb16e3eebfe8444aca93a80cfd96b16a5f0ab3d71fb4c3956089cbb89d9288f2f11ca8949f04b485ff315c2df2f24b46595f5fd9f4f22b847f665c64cb20b80fb1".
Proof. vm_compute; reflexivity. Qed.
Example mgf1_len0 : mgf1 SHA256 (str "bar") 0 = [].
Proof. vm_compute; reflexivity. Qed.
