(* Pbkdf2: PBKDF2 (RFC 2898 / RFC 8018 section 5.2) with PRF = HMAC-h.

   The HMAC key schedule (the two hash states after the ipad / opad block)
   is computed ONCE per call; the inner state additionally pre-absorbs the
   salt for the first PRF call of every block.  The iteration count is a
   binary N and is iterated with [N.iter] (stack depth logarithmic in
   [iter]); it is never converted to nat.

   Conventions outside the RFC's domain: [iter = 0] behaves like [iter = 1];
   [dklen = 0] yields []; the block index is encoded on its low 32 bits. *)
From JoseV Require Import Base.Bytes.
From JoseV Require Export Crypto.Sha Crypto.Hmac.
Local Open Scope N_scope.

Definition xor_bytes (a b : bytes) : bytes := map2 N.lxor a b.

(* one step U_{j} -> U_{j+1}, accumulating the xor *)
Definition pbkdf2_step (ks : hstate * hstate) (ut : bytes * bytes) : bytes * bytes :=
  let '(u, t) := ut in
  let u' := hmac_with ks u in (u', xor_bytes t u').

(* T_i = U_1 xor ... xor U_iter, U_1 = PRF(P, S || INT(i)).
   [kss] = key schedule with the salt already absorbed in the inner state *)
Definition pbkdf2_block (ks kss : hstate * hstate) (iter i : N) : bytes :=
  let u1 := hmac_with kss (be_bytes 4 i) in
  snd (N.iter (N.pred iter) (pbkdf2_step ks) (u1, u1)).

Definition pbkdf2 (h : hname) (pwd salt : bytes) (iter : N) (dklen : N) : bytes :=
  let ks := hmac_keyed h pwd in
  let kss := (hash_update (fst ks) salt, snd ks) in
  (* T_1 || ... || T_l, l = ceil(dklen / hLen), truncated *)
  takeN dklen (ctr_blocks (pbkdf2_block ks kss iter) 1 (ceil_div dklen (hash_len h))).

(* the first PRF call really is HMAC(P, S || INT(i)) *)
Lemma pbkdf2_u1 h pwd salt i :
  hmac_with (hash_update (fst (hmac_keyed h pwd)) salt, snd (hmac_keyed h pwd))
            (be_bytes 4 i)
  = hmac h pwd (salt ++ be_bytes 4 i).
Proof.
  unfold hmac, hmac_with. destruct (hmac_keyed h pwd) as [si so]; simpl.
  rewrite hash_update_app. reflexivity.
Qed.

(* ------------------------------------------------------------------ *)
(* Test vectors: RFC 6070 (PBKDF2-HMAC-SHA1); SHA-2 values are the widely
   published ones, cross-checked with python hashlib.pbkdf2_hmac *)
From Coq Require Import String.
From JoseV Require Import Crypto.Hex.

Example rfc6070_1 :
  pbkdf2 SHA1 (str "password") (str "salt") 1 20 =
  hex "0c60c80f961f0e71f3a9b524af6012062fe037a6".
Proof. vm_compute; reflexivity. Qed.
Example rfc6070_2 :
  pbkdf2 SHA1 (str "password") (str "salt") 2 20 =
  hex "ea6c014dc72d6f8ccd1ed92ace1d41f0d8de8957".
Proof. vm_compute; reflexivity. Qed.
Example rfc6070_3 :
  pbkdf2 SHA1 (str "password") (str "salt") 4096 20 =
  hex "4b007901b765489abead49d926f721d065a429c1".
Proof. vm_compute; reflexivity. Qed.
(* The following 4096-iteration vectors were checked in exactly the same way
   (they pass) but are commented out to keep compile time down (about 50 s
   each under vm_compute):

RFC 6070 case 5 (two blocks, truncated to 25 bytes):
Example rfc6070_5 :
  pbkdf2 SHA1 (str "passwordPASSWORDpassword")
    (str "saltSALTsaltSALTsaltSALTsaltSALTsalt") 4096 25 =
  hex "3d2eec4fe41c849b80c8d83662c0e44a8b291a964cf2f07038".
Proof. vm_compute; reflexivity. Qed.
RFC 6070 case 6 (embedded NULs):
Example rfc6070_6 :
  pbkdf2 SHA1 (str "pass" ++ [0] ++ str "word") (str "sa" ++ [0] ++ str "lt") 4096 16 =
  hex "56fa6aa75548099dcc37d7f03425e0c3".
Proof. vm_compute; reflexivity. Qed.
Example pbkdf2_sha256_4096 :
  pbkdf2 SHA256 (str "password") (str "salt") 4096 32 =
  hex "c5e478d59288c841aa530db6845c4c8d962893a001ce4e11a4963873aa98134a".
Proof. vm_compute; reflexivity. Qed.
*)

Example pbkdf2_sha256_1 :
  pbkdf2 SHA256 (str "password") (str "salt") 1 32 =
  hex "120fb6cffcf8b32c43e7225256c4f837a86548c92ccc35480805987cb70be17b".
Proof. vm_compute; reflexivity. Qed.
Example pbkdf2_sha256_2 :
  pbkdf2 SHA256 (str "password") (str "salt") 2 32 =
  hex "ae4d0c95af6b46d32d0adff928f06dd02a303f8ef3c251dfd6e2d85a95474c43".
Proof. vm_compute; reflexivity. Qed.
Example pbkdf2_sha256_1_64 :
  pbkdf2 SHA256 (str "password") (str "salt") 1 64 =
  hex "120fb6cffcf8b32c43e7225256c4f837a86548c92ccc35480805987cb70be17b4dbf3a2f3dad3377264bb7b8e8330d4efc7451418617dabef683735361cdc18c".
Proof. vm_compute; reflexivity. Qed.
Example pbkdf2_sha384_2_50 :
  pbkdf2 SHA384 (str "password") (str "salt") 2 50 =
  hex "54f775c6d790f21930459162fc535dbf04a939185127016a04176a0730c6f1f4fb48832ad1261baadd2cedd50814b1c806ad".
Proof. vm_compute; reflexivity. Qed.
Example pbkdf2_sha512_1 :
  pbkdf2 SHA512 (str "password") (str "salt") 1 64 =
  hex "867f70cf1ade02cff3752599a3a53dc4af34c7a669815ae5d513554e1c8cf252c02d470a285a0501bad999bfe943c08f050235d7d68b1da55e63f73b60a57fce".
Proof. vm_compute; reflexivity. Qed.
Example pbkdf2_sha512_2 :
  pbkdf2 SHA512 (str "password") (str "salt") 2 64 =
  hex "e1d9c16aa681708a45f5c7c4e215ceb66e011a2e9f0040713f18aefdb866d53cf76cab2868a39b9f7840edce4fef5a82be67335c77a6068e04112754f27ccf4e".
Proof. vm_compute; reflexivity. Qed.
Example pbkdf2_dklen0 : pbkdf2 SHA256 (str "password") (str "salt") 1 0 = [].
Proof. vm_compute; reflexivity. Qed.
