(* Sha: executable reference implementations of SHA-1, SHA-224, SHA-256,
   SHA-384 and SHA-512 (FIPS 180-4).

   Words are N values kept below 2^32 (SHA-1/224/256) or 2^64 (SHA-384/512);
   every addition is followed by a mask with [N.ones w].

   The incremental interface is a REAL streaming implementation: the state
   holds the chaining value, the not-yet-compressed tail (stored reversed,
   together with the number of bytes still missing to fill a block) and the
   total byte count.  [hash_update] compresses every block as soon as it is
   complete.  [hash h m] is DEFINED as
   [hash_final (hash_update (hash_init h) m)], and
   [hash_update (hash_update s a) b = hash_update s (a ++ b)] is proved. *)
From JoseV Require Import Base.Bytes.
Local Open Scope N_scope.

Inductive hname := SHA1 | SHA224 | SHA256 | SHA384 | SHA512.

Definition hname_eqb (a b : hname) : bool :=
  match a, b with
  | SHA1, SHA1 | SHA224, SHA224 | SHA256, SHA256
  | SHA384, SHA384 | SHA512, SHA512 => true
  | _, _ => false
  end.

Definition hash_len (h : hname) : N :=
  match h with
  | SHA1 => 20 | SHA224 => 28 | SHA256 => 32 | SHA384 => 48 | SHA512 => 64
  end.

Definition block_len (h : hname) : N :=
  match h with
  | SHA1 | SHA224 | SHA256 => 64
  | SHA384 | SHA512 => 128
  end.

(* ------------------------------------------------------------------ *)
(* Byte/word helpers                                                   *)

(* length as a binary number (never builds a large nat) *)
Fixpoint nlen_acc (l : bytes) (acc : N) : N :=
  match l with
  | [] => acc
  | _ :: r => nlen_acc r (N.succ acc)
  end.
Definition nlen (l : bytes) : N := nlen_acc l 0.

(* first n elements, n binary *)
Fixpoint takeN {A} (n : N) (l : list A) : list A :=
  match l with
  | [] => []
  | x :: r => if n =? 0 then [] else x :: takeN (N.pred n) r
  end.

Definition ceil_div (a b : N) : N := (a + b - 1) / b.

(* f start || f (start+1) || ... || f (start+reps-1), for the counter-mode
   constructions (PBKDF2, Concat KDF, MGF1).  [N.iter] keeps the stack depth
   logarithmic in reps; blocks are accumulated reversed (no quadratic ++). *)
Definition ctr_blocks (f : N -> bytes) (start reps : N) : bytes :=
  rev' (snd (N.iter reps
               (fun st : N * bytes =>
                  let '(i, racc) := st in (N.succ i, rev_append (f i) racc))
               (start, []))).

(* [be_bytes k x]: the k low-order bytes of x, big endian *)
Fixpoint be_bytes_acc (k : nat) (x : N) (acc : bytes) : bytes :=
  match k with
  | O => acc
  | S k' => be_bytes_acc k' (N.shiftr x 8) (N.land x 255 :: acc)
  end.
Definition be_bytes (k : nat) (x : N) : bytes := be_bytes_acc k x [].

(* group a byte string into big-endian words of wb1+1 bytes; an incomplete
   trailing group is dropped.  [cnt] = bytes still missing after the next. *)
Fixpoint be_words_aux (wb1 cnt : nat) (acc : N) (bs : bytes) : list N :=
  match bs with
  | [] => []
  | b :: r =>
      let acc' := N.lor (N.shiftl acc 8) b in
      match cnt with
      | O => acc' :: be_words_aux wb1 wb1 0 r
      | S c => be_words_aux wb1 c acc' r
      end
  end.
Definition be_words (wbytes : nat) (bs : bytes) : list N :=
  be_words_aux (pred wbytes) (pred wbytes) 0 bs.

Fixpoint words_bytes (wbytes : nat) (ws : list N) : bytes :=
  match ws with
  | [] => []
  | x :: r => be_bytes_acc wbytes x (words_bytes wbytes r)
  end.

(* ------------------------------------------------------------------ *)
(* Word operations, word size w bits                                   *)

Definition mask32 : N := 0xFFFFFFFF.
Definition mask64 : N := 0xFFFFFFFFFFFFFFFF.

(* rotate right by n, 0 < n < w, on x < 2^w *)
Definition rotr (w n x : N) : N :=
  N.lor (N.shiftr x n) (N.shiftl (N.land x (N.ones n)) (w - n)).
Definition rotl (w n x : N) : N := rotr w (w - n) x.

Definition xor3 (a b c : N) : N := N.lxor (N.lxor a b) c.

(* FIPS 180-4 section 4.1: logical functions *)
Definition Ch (mask x y z : N) : N :=
  N.lxor (N.land x y) (N.land (N.lxor x mask) z).
Definition Maj (x y z : N) : N :=
  xor3 (N.land x y) (N.land x z) (N.land y z).
Definition Parity (x y z : N) : N := xor3 x y z.

Fixpoint map2 {A B C} (f : A -> B -> C) (a : list A) (b : list B) : list C :=
  match a, b with
  | x :: a', y :: b' => f x y :: map2 f a' b'
  | _, _ => []
  end.

(* ------------------------------------------------------------------ *)
(* SHA-1 (FIPS 180-4 section 6.1)                                      *)

Definition sha1_iv : list N :=
  [0x67452301; 0xefcdab89; 0x98badcfe; 0x10325476; 0xc3d2e1f0].

(* message schedule: [win] is W[t-16..t-1]; returns W[t..t+n-1] *)
Fixpoint sha1_expand (n : nat) (win : list N) : list N :=
  match n with
  | O => []
  | S k =>
      match win with
      | [w0; w1; w2; w3; w4; w5; w6; w7; w8; w9; w10; w11; w12; w13; w14; w15] =>
          let w := rotl 32 1 (N.lxor (xor3 w13 w8 w2) w0) in
          w :: sha1_expand k
                 [w1; w2; w3; w4; w5; w6; w7; w8; w9; w10; w11; w12; w13; w14; w15; w]
      | _ => []
      end
  end.

Definition sha1_step (f : N -> N -> N -> N) (k : N) (s : list N) (w : N) : list N :=
  match s with
  | [a; b; c; d; e] =>
      let t := N.land (rotl 32 5 a + f b c d + e + k + w) mask32 in
      [t; a; rotl 32 30 b; c; d]
  | _ => s
  end.

Definition sha1_rounds (f : N -> N -> N -> N) (k : N) (ws : list N) (s : list N) : list N :=
  fold_left (sha1_step f k) ws s.

Definition add32 (a b : N) : N := N.land (a + b) mask32.
Definition add64 (a b : N) : N := N.land (a + b) mask64.

Definition sha1_compress (cv : list N) (block : bytes) : list N :=
  let m := be_words 4 block in
  let ws := m ++ sha1_expand 64 m in
  let s1 := sha1_rounds (Ch mask32) 0x5a827999 (take 20 ws) cv in
  let s2 := sha1_rounds Parity 0x6ed9eba1 (take 20 (drop 20 ws)) s1 in
  let s3 := sha1_rounds Maj 0x8f1bbcdc (take 20 (drop 40 ws)) s2 in
  let s4 := sha1_rounds Parity 0xca62c1d6 (drop 60 ws) s3 in
  map2 add32 cv s4.

(* ------------------------------------------------------------------ *)
(* SHA-2 family (FIPS 180-4 sections 6.2, 6.4), generic in word size   *)

Record sha2_params := {
  p_w : N;                       (* word size in bits *)
  p_mask : N;                    (* 2^w - 1 *)
  p_S0 : N * N * N;              (* rotations of Sigma0 *)
  p_S1 : N * N * N;              (* rotations of Sigma1 *)
  p_s0 : N * N * N;              (* sigma0: rotr, rotr, shr *)
  p_s1 : N * N * N;              (* sigma1: rotr, rotr, shr *)
  p_K : list N;                  (* round constants *)
  p_extra : nat                  (* number of rounds - 16 *)
}.

Definition K256 : list N :=
  [0x428a2f98; 0x71374491; 0xb5c0fbcf; 0xe9b5dba5; 0x3956c25b; 0x59f111f1; 0x923f82a4; 0xab1c5ed5;
   0xd807aa98; 0x12835b01; 0x243185be; 0x550c7dc3; 0x72be5d74; 0x80deb1fe; 0x9bdc06a7; 0xc19bf174;
   0xe49b69c1; 0xefbe4786; 0x0fc19dc6; 0x240ca1cc; 0x2de92c6f; 0x4a7484aa; 0x5cb0a9dc; 0x76f988da;
   0x983e5152; 0xa831c66d; 0xb00327c8; 0xbf597fc7; 0xc6e00bf3; 0xd5a79147; 0x06ca6351; 0x14292967;
   0x27b70a85; 0x2e1b2138; 0x4d2c6dfc; 0x53380d13; 0x650a7354; 0x766a0abb; 0x81c2c92e; 0x92722c85;
   0xa2bfe8a1; 0xa81a664b; 0xc24b8b70; 0xc76c51a3; 0xd192e819; 0xd6990624; 0xf40e3585; 0x106aa070;
   0x19a4c116; 0x1e376c08; 0x2748774c; 0x34b0bcb5; 0x391c0cb3; 0x4ed8aa4a; 0x5b9cca4f; 0x682e6ff3;
   0x748f82ee; 0x78a5636f; 0x84c87814; 0x8cc70208; 0x90befffa; 0xa4506ceb; 0xbef9a3f7; 0xc67178f2].

Definition K512 : list N :=
  [0x428a2f98d728ae22; 0x7137449123ef65cd; 0xb5c0fbcfec4d3b2f; 0xe9b5dba58189dbbc;
   0x3956c25bf348b538; 0x59f111f1b605d019; 0x923f82a4af194f9b; 0xab1c5ed5da6d8118;
   0xd807aa98a3030242; 0x12835b0145706fbe; 0x243185be4ee4b28c; 0x550c7dc3d5ffb4e2;
   0x72be5d74f27b896f; 0x80deb1fe3b1696b1; 0x9bdc06a725c71235; 0xc19bf174cf692694;
   0xe49b69c19ef14ad2; 0xefbe4786384f25e3; 0x0fc19dc68b8cd5b5; 0x240ca1cc77ac9c65;
   0x2de92c6f592b0275; 0x4a7484aa6ea6e483; 0x5cb0a9dcbd41fbd4; 0x76f988da831153b5;
   0x983e5152ee66dfab; 0xa831c66d2db43210; 0xb00327c898fb213f; 0xbf597fc7beef0ee4;
   0xc6e00bf33da88fc2; 0xd5a79147930aa725; 0x06ca6351e003826f; 0x142929670a0e6e70;
   0x27b70a8546d22ffc; 0x2e1b21385c26c926; 0x4d2c6dfc5ac42aed; 0x53380d139d95b3df;
   0x650a73548baf63de; 0x766a0abb3c77b2a8; 0x81c2c92e47edaee6; 0x92722c851482353b;
   0xa2bfe8a14cf10364; 0xa81a664bbc423001; 0xc24b8b70d0f89791; 0xc76c51a30654be30;
   0xd192e819d6ef5218; 0xd69906245565a910; 0xf40e35855771202a; 0x106aa07032bbd1b8;
   0x19a4c116b8d2d0c8; 0x1e376c085141ab53; 0x2748774cdf8eeb99; 0x34b0bcb5e19b48a8;
   0x391c0cb3c5c95a63; 0x4ed8aa4ae3418acb; 0x5b9cca4f7763e373; 0x682e6ff3d6b2b8a3;
   0x748f82ee5defb2fc; 0x78a5636f43172f60; 0x84c87814a1f0ab72; 0x8cc702081a6439ec;
   0x90befffa23631e28; 0xa4506cebde82bde9; 0xbef9a3f7b2c67915; 0xc67178f2e372532b;
   0xca273eceea26619c; 0xd186b8c721c0c207; 0xeada7dd6cde0eb1e; 0xf57d4f7fee6ed178;
   0x06f067aa72176fba; 0x0a637dc5a2c898a6; 0x113f9804bef90dae; 0x1b710b35131c471b;
   0x28db77f523047d84; 0x32caab7b40c72493; 0x3c9ebe0a15c9bebc; 0x431d67c49c100d4c;
   0x4cc5d4becb3e42b6; 0x597f299cfc657e2a; 0x5fcb6fab3ad6faec; 0x6c44198c4a475817].

Definition params256 : sha2_params :=
  {| p_w := 32; p_mask := mask32;
     p_S0 := (2, 13, 22); p_S1 := (6, 11, 25);
     p_s0 := (7, 18, 3); p_s1 := (17, 19, 10);
     p_K := K256; p_extra := 48 |}.

Definition params512 : sha2_params :=
  {| p_w := 64; p_mask := mask64;
     p_S0 := (28, 34, 39); p_S1 := (14, 18, 41);
     p_s0 := (1, 8, 7); p_s1 := (19, 61, 6);
     p_K := K512; p_extra := 64 |}.

Definition big_sigma (w : N) (r : N * N * N) (x : N) : N :=
  let '(r1, r2, r3) := r in xor3 (rotr w r1 x) (rotr w r2 x) (rotr w r3 x).
Definition small_sigma (w : N) (r : N * N * N) (x : N) : N :=
  let '(r1, r2, r3) := r in xor3 (rotr w r1 x) (rotr w r2 x) (N.shiftr x r3).

(* message schedule: [win] is W[t-16..t-1]; returns W[t..t+n-1] *)
Fixpoint sha2_expand (p : sha2_params) (n : nat) (win : list N) : list N :=
  match n with
  | O => []
  | S k =>
      match win with
      | [w0; w1; w2; w3; w4; w5; w6; w7; w8; w9; w10; w11; w12; w13; w14; w15] =>
          let w := N.land (small_sigma (p_w p) (p_s1 p) w14 + w9
                           + small_sigma (p_w p) (p_s0 p) w1 + w0) (p_mask p) in
          w :: sha2_expand p k
                 [w1; w2; w3; w4; w5; w6; w7; w8; w9; w10; w11; w12; w13; w14; w15; w]
      | _ => []
      end
  end.

Definition sha2_step (p : sha2_params) (s : list N) (k w : N) : list N :=
  match s with
  | [a; b; c; d; e; f; g; h] =>
      let t1 := h + big_sigma (p_w p) (p_S1 p) e + Ch (p_mask p) e f g + k + w in
      let t2 := big_sigma (p_w p) (p_S0 p) a + Maj a b c in
      [N.land (t1 + t2) (p_mask p); a; b; c; N.land (d + t1) (p_mask p); e; f; g]
  | _ => s
  end.

Fixpoint sha2_rounds (p : sha2_params) (ks ws : list N) (s : list N) : list N :=
  match ks, ws with
  | k :: ks', w :: ws' => sha2_rounds p ks' ws' (sha2_step p s k w)
  | _, _ => s
  end.

Definition sha2_compress (p : sha2_params) (wbytes : nat) (cv : list N) (block : bytes) : list N :=
  let m := be_words wbytes block in
  let ws := m ++ sha2_expand p (p_extra p) m in
  map2 (fun a b => N.land (a + b) (p_mask p)) cv (sha2_rounds p (p_K p) ws cv).

Definition sha224_iv : list N :=
  [0xc1059ed8; 0x367cd507; 0x3070dd17; 0xf70e5939; 0xffc00b31; 0x68581511; 0x64f98fa7; 0xbefa4fa4].
Definition sha256_iv : list N :=
  [0x6a09e667; 0xbb67ae85; 0x3c6ef372; 0xa54ff53a; 0x510e527f; 0x9b05688c; 0x1f83d9ab; 0x5be0cd19].
Definition sha384_iv : list N :=
  [0xcbbb9d5dc1059ed8; 0x629a292a367cd507; 0x9159015a3070dd17; 0x152fecd8f70e5939;
   0x67332667ffc00b31; 0x8eb44a8768581511; 0xdb0c2e0d64f98fa7; 0x47b5481dbefa4fa4].
Definition sha512_iv : list N :=
  [0x6a09e667f3bcc908; 0xbb67ae8584caa73b; 0x3c6ef372fe94f82b; 0xa54ff53a5f1d36f1;
   0x510e527fade682d1; 0x9b05688c2b3e6c1f; 0x1f83d9abfb41bd6b; 0x5be0cd19137e2179].

(* ------------------------------------------------------------------ *)
(* Per-algorithm dispatch                                              *)

Definition iv (h : hname) : list N :=
  match h with
  | SHA1 => sha1_iv | SHA224 => sha224_iv | SHA256 => sha256_iv
  | SHA384 => sha384_iv | SHA512 => sha512_iv
  end.

Definition compress (h : hname) (cv : list N) (block : bytes) : list N :=
  match h with
  | SHA1 => sha1_compress cv block
  | SHA224 | SHA256 => sha2_compress params256 4 cv block
  | SHA384 | SHA512 => sha2_compress params512 8 cv block
  end.

(* small nats: block length, word bytes, bytes of the length field *)
Definition block_len_nat (h : hname) : nat :=
  match h with SHA1 | SHA224 | SHA256 => 64%nat | SHA384 | SHA512 => 128%nat end.
Definition word_bytes (h : hname) : nat :=
  match h with SHA1 | SHA224 | SHA256 => 4%nat | SHA384 | SHA512 => 8%nat end.
Definition lenfield_bytes (h : hname) : nat :=
  match h with SHA1 | SHA224 | SHA256 => 8%nat | SHA384 | SHA512 => 16%nat end.
Definition hash_len_nat (h : hname) : nat :=
  match h with
  | SHA1 => 20%nat | SHA224 => 28%nat | SHA256 => 32%nat
  | SHA384 => 48%nat | SHA512 => 64%nat
  end.

(* ------------------------------------------------------------------ *)
(* Incremental interface                                               *)

Record hstate := {
  st_alg : hname;
  st_cv : list N;       (* chaining value *)
  st_rbuf : bytes;      (* pending (not yet compressed) tail, REVERSED *)
  st_room : nat;        (* bytes still missing to fill the block: 1..block_len *)
  st_total : N          (* total number of bytes absorbed so far *)
}.

Definition hash_init (h : hname) : hstate :=
  {| st_alg := h; st_cv := iv h; st_rbuf := []; st_room := block_len_nat h;
     st_total := 0 |}.

(* absorb bytes one at a time; compress whenever the buffer fills *)
Fixpoint absorb (h : hname) (cv : list N) (rbuf : bytes) (room : nat) (data : bytes)
  : list N * bytes * nat :=
  match data with
  | [] => (cv, rbuf, room)
  | b :: rest =>
      match room with
      | O | S O => absorb h (compress h cv (rev' (b :: rbuf))) [] (block_len_nat h) rest
      | S r => absorb h cv (b :: rbuf) r rest
      end
  end.

Definition hash_update (s : hstate) (data : bytes) : hstate :=
  let '(cv, rbuf, room) := absorb (st_alg s) (st_cv s) (st_rbuf s) (st_room s) data in
  {| st_alg := st_alg s; st_cv := cv; st_rbuf := rbuf; st_room := room;
     st_total := st_total s + nlen data |}.

(* the pending tail in natural order *)
Definition st_buf (s : hstate) : bytes := rev' (st_rbuf s).

(* FIPS 180-4 section 5.1 padding of the last partial block: 0x80, zeros,
   bit length; yields one or two blocks *)
Definition final_blocks (h : hname) (buf : bytes) (room : nat) (total : N) : bytes :=
  let lf := lenfield_bytes h in
  let bl := block_len_nat h in
  (* room counts bytes missing before 0x80 is added *)
  let zeros := if Nat.ltb lf room then (room - 1 - lf)%nat
               else (room - 1 + bl - lf)%nat in
  buf ++ 0x80 :: repeatN 0 zeros ++ be_bytes lf (8 * total).

Definition hash_final (s : hstate) : bytes :=
  let h := st_alg s in
  let bl := block_len_nat h in
  let fb := final_blocks h (st_buf s) (st_room s) (st_total s) in
  let cv1 := compress h (st_cv s) (take bl fb) in
  let cv2 := match drop bl fb with
             | [] => cv1
             | blk2 => compress h cv1 blk2
             end in
  take (hash_len_nat h) (words_bytes (word_bytes h) cv2).

Definition hash (h : hname) (m : bytes) : bytes :=
  hash_final (hash_update (hash_init h) m).

Definition sha1 : bytes -> bytes := hash SHA1.
Definition sha224 : bytes -> bytes := hash SHA224.
Definition sha256 : bytes -> bytes := hash SHA256.
Definition sha384 : bytes -> bytes := hash SHA384.
Definition sha512 : bytes -> bytes := hash SHA512.

(* ------------------------------------------------------------------ *)
(* Streaming lemmas                                                    *)

Lemma hash_stream h m : hash h m = hash_final (hash_update (hash_init h) m).
Proof. reflexivity. Qed.

Lemma nlen_acc_add l acc : nlen_acc l acc = acc + nlen l.
Proof.
  unfold nlen. revert acc. induction l as [|x l IH]; intro acc; cbn [nlen_acc].
  - rewrite N.add_0_r. reflexivity.
  - rewrite (IH (N.succ acc)), (IH (N.succ 0)). lia.
Qed.

Lemma nlen_app a b : nlen (a ++ b) = nlen a + nlen b.
Proof.
  unfold nlen at 1 2. generalize 0 at 1 2. induction a as [|x a IH]; intro acc; simpl.
  - apply nlen_acc_add.
  - apply IH.
Qed.

Lemma nlen_length l : nlen l = N.of_nat (length l).
Proof.
  induction l as [|x l IH]; [reflexivity|].
  change (x :: l) with ([x] ++ l). rewrite nlen_app, IH.
  change (nlen [x]) with 1. simpl length. lia.
Qed.

Lemma absorb_app h cv rbuf room a b :
  absorb h cv rbuf room (a ++ b) =
  let '(cv', rbuf', room') := absorb h cv rbuf room a in absorb h cv' rbuf' room' b.
Proof.
  revert cv rbuf room. induction a as [|x a IH]; intros cv rbuf room; simpl.
  - reflexivity.
  - destruct room as [|[|r]]; apply IH.
Qed.

Lemma hash_update_alg s d : st_alg (hash_update s d) = st_alg s.
Proof.
  unfold hash_update.
  destruct (absorb (st_alg s) (st_cv s) (st_rbuf s) (st_room s) d) as [[cv rb] rm].
  reflexivity.
Qed.

Lemma hash_update_nil s : hash_update s [] = s.
Proof.
  destruct s; unfold hash_update; simpl. rewrite N.add_0_r. reflexivity.
Qed.

Lemma hash_update_app s a b :
  hash_update (hash_update s a) b = hash_update s (a ++ b).
Proof.
  unfold hash_update at 3. rewrite absorb_app.
  unfold hash_update at 2.
  destruct (absorb (st_alg s) (st_cv s) (st_rbuf s) (st_room s) a) as [[cv rb] rm].
  unfold hash_update; simpl.
  destruct (absorb (st_alg s) cv rb rm b) as [[cv' rb'] rm'].
  rewrite nlen_app, N.add_assoc. reflexivity.
Qed.

(* feeding a message in two pieces gives the one-shot hash *)
Lemma hash_split h a b :
  hash_final (hash_update (hash_update (hash_init h) a) b) = hash h (a ++ b).
Proof. rewrite hash_update_app. reflexivity. Qed.

(* ------------------------------------------------------------------ *)
(* Test vectors (FIPS 180 examples: "", "abc", the 448-bit and 896-bit
   messages), plus padding-boundary lengths cross-checked with hashlib *)
From Coq Require Import String.
From JoseV Require Import Crypto.Hex.

Definition fips_m448 : string :=
  "abcdbcdecdefdefgefghfghighijhijkijkljklmklmnlmnomnopnopq"%string.
Definition fips_m896 : string :=
  "abcdefghbcdefghicdefghijdefghijkefghijklfghijklmghijklmnhijklmnoijklmnopjklmnopqklmnopqrlmnopqrsmnopqrstnopqrstu"%string.

Example sha1_empty : sha1 (str "") =
  hex "da39a3ee5e6b4b0d3255bfef95601890afd80709".
Proof. vm_compute; reflexivity. Qed.
Example sha1_abc : sha1 (str "abc") =
  hex "a9993e364706816aba3e25717850c26c9cd0d89d".
Proof. vm_compute; reflexivity. Qed.
Example sha1_fips_m448 : sha1 (str fips_m448) =
  hex "84983e441c3bd26ebaae4aa1f95129e5e54670f1".
Proof. vm_compute; reflexivity. Qed.
Example sha1_fips_m896 : sha1 (str fips_m896) =
  hex "a49b2446a02c645bf419f995b67091253a04a259".
Proof. vm_compute; reflexivity. Qed.
Example sha224_empty : sha224 (str "") =
  hex "d14a028c2a3a2bc9476102bb288234c415a2b01f828ea62ac5b3e42f".
Proof. vm_compute; reflexivity. Qed.
Example sha224_abc : sha224 (str "abc") =
  hex "23097d223405d8228642a477bda255b32aadbce4bda0b3f7e36c9da7".
Proof. vm_compute; reflexivity. Qed.
Example sha224_fips_m448 : sha224 (str fips_m448) =
  hex "75388b16512776cc5dba5da1fd890150b0c6455cb4f58b1952522525".
Proof. vm_compute; reflexivity. Qed.
Example sha224_fips_m896 : sha224 (str fips_m896) =
  hex "c97ca9a559850ce97a04a96def6d99a9e0e0e2ab14e6b8df265fc0b3".
Proof. vm_compute; reflexivity. Qed.
Example sha256_empty : sha256 (str "") =
  hex "e3b0c44298fc1c149afbf4c8996fb92427ae41e4649b934ca495991b7852b855".
Proof. vm_compute; reflexivity. Qed.
Example sha256_abc : sha256 (str "abc") =
  hex "ba7816bf8f01cfea414140de5dae2223b00361a396177a9cb410ff61f20015ad".
Proof. vm_compute; reflexivity. Qed.
Example sha256_fips_m448 : sha256 (str fips_m448) =
  hex "248d6a61d20638b8e5c026930c3e6039a33ce45964ff2167f6ecedd419db06c1".
Proof. vm_compute; reflexivity. Qed.
Example sha256_fips_m896 : sha256 (str fips_m896) =
  hex "cf5b16a778af8380036ce59e7b0492370b249b11e8f07a51afac45037afee9d1".
Proof. vm_compute; reflexivity. Qed.
Example sha384_empty : sha384 (str "") =
  hex "38b060a751ac96384cd9327eb1b1e36a21fdb71114be07434c0cc7bf63f6e1da274edebfe76f65fbd51ad2f14898b95b".
Proof. vm_compute; reflexivity. Qed.
Example sha384_abc : sha384 (str "abc") =
  hex "cb00753f45a35e8bb5a03d699ac65007272c32ab0eded1631a8b605a43ff5bed8086072ba1e7cc2358baeca134c825a7".
Proof. vm_compute; reflexivity. Qed.
Example sha384_fips_m448 : sha384 (str fips_m448) =
  hex "3391fdddfc8dc7393707a65b1b4709397cf8b1d162af05abfe8f450de5f36bc6b0455a8520bc4e6f5fe95b1fe3c8452b".
Proof. vm_compute; reflexivity. Qed.
Example sha384_fips_m896 : sha384 (str fips_m896) =
  hex "09330c33f71147e83d192fc782cd1b4753111b173b3b05d22fa08086e3b0f712fcc7c71a557e2db966c3e9fa91746039".
Proof. vm_compute; reflexivity. Qed.
Example sha512_empty : sha512 (str "") =
  hex "cf83e1357eefb8bdf1542850d66d8007d620e4050b5715dc83f4a921d36ce9ce47d0d13c5d85f2b0ff8318d2877eec2f63b931bd47417a81a538327af927da3e".
Proof. vm_compute; reflexivity. Qed.
Example sha512_abc : sha512 (str "abc") =
  hex "ddaf35a193617abacc417349ae20413112e6fa4e89a97ea20a9eeee64b55d39a2192992a274fc1a836ba3c23a3feebbd454d4423643ce80e2a9ac94fa54ca49f".
Proof. vm_compute; reflexivity. Qed.
Example sha512_fips_m448 : sha512 (str fips_m448) =
  hex "204a8fc6dda82f0a0ced7beb8e08a41657c16ef468b228a8279be331a703c33596fd15c13b1b07f9aa1d3bea57789ca031ad85c7a71dd70354ec631238ca3445".
Proof. vm_compute; reflexivity. Qed.
Example sha512_fips_m896 : sha512 (str fips_m896) =
  hex "8e959b75dae313da8cf4f72814fc143f8f7779c6eb9f7fa17299aeadb6889018501d289e4900f7e4331b99dec4b5433ac7d329eeb6dd26545e96e55b874be909".
Proof. vm_compute; reflexivity. Qed.

(* padding boundaries: messages of k bytes 'a' *)
Example sha1_a55 : sha1 (repeatN 97 55) =
  hex "c1c8bbdc22796e28c0e15163d20899b65621d65a".
Proof. vm_compute; reflexivity. Qed.
Example sha1_a56 : sha1 (repeatN 97 56) =
  hex "c2db330f6083854c99d4b5bfb6e8f29f201be699".
Proof. vm_compute; reflexivity. Qed.
Example sha1_a64 : sha1 (repeatN 97 64) =
  hex "0098ba824b5c16427bd7a1122a5a442a25ec644d".
Proof. vm_compute; reflexivity. Qed.
Example sha256_a55 : sha256 (repeatN 97 55) =
  hex "9f4390f8d30c2dd92ec9f095b65e2b9ae9b0a925a5258e241c9f1e910f734318".
Proof. vm_compute; reflexivity. Qed.
Example sha256_a56 : sha256 (repeatN 97 56) =
  hex "b35439a4ac6f0948b6d6f9e3c6af0f5f590ce20f1bde7090ef7970686ec6738a".
Proof. vm_compute; reflexivity. Qed.
Example sha256_a63 : sha256 (repeatN 97 63) =
  hex "7d3e74a05d7db15bce4ad9ec0658ea98e3f06eeecf16b4c6fff2da457ddc2f34".
Proof. vm_compute; reflexivity. Qed.
Example sha256_a64 : sha256 (repeatN 97 64) =
  hex "ffe054fe7ae0cb6dc65c3af9b61d5209f439851db43d0ba5997337df154668eb".
Proof. vm_compute; reflexivity. Qed.
Example sha256_a65 : sha256 (repeatN 97 65) =
  hex "635361c48bb9eab14198e76ea8ab7f1a41685d6ad62aa9146d301d4f17eb0ae0".
Proof. vm_compute; reflexivity. Qed.
Example sha256_a119 : sha256 (repeatN 97 119) =
  hex "31eba51c313a5c08226adf18d4a359cfdfd8d2e816b13f4af952f7ea6584dcfb".
Proof. vm_compute; reflexivity. Qed.
Example sha256_a120 : sha256 (repeatN 97 120) =
  hex "2f3d335432c70b580af0e8e1b3674a7c020d683aa5f73aaaedfdc55af904c21c".
Proof. vm_compute; reflexivity. Qed.
Example sha256_a128 : sha256 (repeatN 97 128) =
  hex "6836cf13bac400e9105071cd6af47084dfacad4e5e302c94bfed24e013afb73e".
Proof. vm_compute; reflexivity. Qed.
Example sha512_a111 : sha512 (repeatN 97 111) =
  hex "fa9121c7b32b9e01733d034cfc78cbf67f926c7ed83e82200ef86818196921760b4beff48404df811b953828274461673c68d04e297b0eb7b2b4d60fc6b566a2".
Proof. vm_compute; reflexivity. Qed.
Example sha512_a112 : sha512 (repeatN 97 112) =
  hex "c01d080efd492776a1c43bd23dd99d0a2e626d481e16782e75d54c2503b5dc32bd05f0f1ba33e568b88fd2d970929b719ecbb152f58f130a407c8830604b70ca".
Proof. vm_compute; reflexivity. Qed.
Example sha512_a127 : sha512 (repeatN 97 127) =
  hex "828613968b501dc00a97e08c73b118aa8876c26b8aac93df128502ab360f91bab50a51e088769a5c1eff4782ace147dce3642554199876374291f5d921629502".
Proof. vm_compute; reflexivity. Qed.
Example sha512_a128 : sha512 (repeatN 97 128) =
  hex "b73d1929aa615934e61a871596b3f3b33359f42b8175602e89f7e06e5f658a243667807ed300314b95cacdd579f3e33abdfbe351909519a846d465c59582f321".
Proof. vm_compute; reflexivity. Qed.
Example sha512_a129 : sha512 (repeatN 97 129) =
  hex "4f681e0bd53cda4b5a2041cc8a06f2eabde44fb16c951fbd5b87702f07aeab611565b19c47fde30587177ebb852e3971bbd8d3fd30da18d71037dfbd98420429".
Proof. vm_compute; reflexivity. Qed.
Example sha512_a239 : sha512 (repeatN 97 239) =
  hex "52c853cb8d907f3d4d6b889beb027985d7c273486d75f8baf26f80d24e90c74c6c3de3e22131582380a7d14d43f2941a31385439cd6ddc469f628015e50bf286".
Proof. vm_compute; reflexivity. Qed.
Example sha512_a240 : sha512 (repeatN 97 240) =
  hex "4c296d90c61052a62ffb1dd196f1b7b09373b1f93e71836baebf89690546b7595684dbe9467a8e484fa0d1094272b4344a7c24f5fee8daedeb0bf549c985ab5f".
Proof. vm_compute; reflexivity. Qed.
Example sha512_a256 : sha512 (repeatN 97 256) =
  hex "6a9169eb662f136d87374070e8828b3e615a7eca32a89446e9225b02832709be095e635c824a2bb70213ba2ea0ababac0809827843992c851903b7ac0c136699".
Proof. vm_compute; reflexivity. Qed.
Example sha384_a111 : sha384 (repeatN 97 111) =
  hex "3c37955051cb5c3026f94d551d5b5e2ac38d572ae4e07172085fed81f8466b8f90dc23a8ffcdea0b8d8e58e8fdacc80a".
Proof. vm_compute; reflexivity. Qed.
Example sha384_a112 : sha384 (repeatN 97 112) =
  hex "187d4e07cb306103c69967bf544d0dfbe9042577599c73c330abc0cb64c61236d5ed565ee19119d8c31779a38f791fcd".
Proof. vm_compute; reflexivity. Qed.
Example sha384_a128 : sha384 (repeatN 97 128) =
  hex "edb12730a366098b3b2beac75a3bef1b0969b15c48e2163c23d96994f8d1bef760c7e27f3c464d3829f56c0d53808b0b".
Proof. vm_compute; reflexivity. Qed.

(* streaming: split "abc..." at an arbitrary point *)
Example sha256_stream_ex :
  hash_final (hash_update (hash_update (hash_update (hash_init SHA256) (str "abcdbcdecdefdefgefghfghighijhijkijkljklmklmnlmnomnopnopq")) (str "abcdefgh")) (str "ij"))
  = sha256 (str "abcdbcdecdefdefgefghfghighijhijkijkljklmklmnlmnomnopnopqabcdefghij").
Proof. vm_compute; reflexivity. Qed.
