(* Ec: short Weierstrass curves y^2 = x^3 + a x + b over prime fields
   (SEC 1 v2 section 2.2/3.2, FIPS 186-4 D.1.2): point validation, group
   law, scalar multiplication, ECDH, ECDSA (SEC 1 4.1.3/4.1.4, FIPS 186-4
   section 6).  Written once over [intops]; instantiate with [zops] or
   [bigzops].

   Arithmetic is done in Jacobian coordinates (X : Y : Z) <-> (X/Z^2, Y/Z^3),
   Z = 0 being the point at infinity, with a single field inversion when
   converting back to affine. *)
From JoseV Require Import Base.Bytes.
From JoseV Require Import Crypto.BigNum.
From Bignums Require Import BigZ BigN.
Local Open Scope Z_scope.

(* domain parameters; cofactor is 1 for every curve below.  [c_a] is stored
   reduced modulo [c_p] (p - 3 for the NIST curves). [bytes_len] is the
   octet length of a field element (and, for these curves, of the order). *)
Record curve (T : Type) := mk_curve {
  c_p : T;
  c_a : T;
  c_b : T;
  c_gx : T;
  c_gy : T;
  c_n : T;
  bytes_len : nat
}.
Arguments c_p {T} _.
Arguments c_a {T} _.
Arguments c_b {T} _.
Arguments c_gx {T} _.
Arguments c_gy {T} _.
Arguments c_n {T} _.
Arguments bytes_len {T} _.

(* affine points *)
Inductive point (T : Type) :=
| Inf : point T
| Aff : T -> T -> point T.
Arguments Inf {T}.
Arguments Aff {T} _ _.

(* move a curve given over Z into another instance *)
Definition curve_of {T} (ops : intops T) (c : curve Z) : curve T :=
  mk_curve T (iof_Z ops (c_p c)) (iof_Z ops (c_a c)) (iof_Z ops (c_b c))
           (iof_Z ops (c_gx c)) (iof_Z ops (c_gy c)) (iof_Z ops (c_n c))
           (bytes_len c).

Section EC.
  Context {T : Type} (ops : intops T).
  Variable c : curve T.

  Let p := c_p c.
  Let zero := izero ops.
  Let one := ione ops.
  Let fmul (x y : T) : T := mulm ops p x y.
  Let fred (x : T) : T := imod ops x p.
  Let add := iadd ops.
  Let sub := isub ops.
  Let dbl (x : T) : T := iadd ops x x.
  Let is0 (x : T) : bool := iis_zero ops x.

  Definition point_eqb (P Q : point T) : bool :=
    match P, Q with
    | Inf, Inf => true
    | Aff x1 y1, Aff x2 y2 => ieqb ops x1 x2 && ieqb ops y1 y2
    | _, _ => false
    end.

  (* x in [0, m) *)
  Definition in_range (x m : T) : bool := ileb ops zero x && iltb ops x m.
  (* x in [1, m) *)
  Definition in_range1 (x m : T) : bool := iltb ops zero x && iltb ops x m.

  (* y^2 = x^3 + a x + b (mod p) *)
  Definition on_curve (x y : T) : bool :=
    ieqb ops (fmul y y)
             (fred (add (fmul (add (fmul x x) (c_a c)) x) (c_b c))).

  (* SEC 1 3.2.2.1 for cofactor 1: not infinity (by type), coordinates are
     field elements, the equation holds. *)
  Definition valid_public (x y : T) : bool :=
    in_range x p && in_range y p && on_curve x y.

  (* ---------------- Jacobian arithmetic ---------------- *)
  Definition jac := (T * T * T)%type.
  Definition jinf : jac := (one, one, zero).
  Definition jac_of (P : point T) : jac :=
    match P with Inf => jinf | Aff x y => (x, y, one) end.

  (* inverse in the field; p is prime so this is Some for z <> 0 *)
  Definition finv (z : T) : T :=
    match modinv ops z p with Some i => i | None => zero end.

  Definition affine_of (P : jac) : point T :=
    let '(X, Y, Z) := P in
    if is0 Z then Inf
    else let zi := finv Z in
         let zi2 := fmul zi zi in
         Aff (fmul X zi2) (fmul Y (fmul zi2 zi)).

  (* doubling, general a:
       S = 4 X Y^2, M = 3 X^2 + a Z^4,
       X' = M^2 - 2 S, Y' = M (S - X') - 8 Y^4, Z' = 2 Y Z.
     (Y = 0 or Z = 0 gives Z' = 0, the point at infinity.)
     Sums and differences are left unreduced where they only feed a
     multiplication that reduces. *)
  Definition jdbl (P : jac) : jac :=
    let '(X, Y, Z) := P in
    if is0 Z then jinf else
    let YY := fmul Y Y in
    let S := fmul (dbl (dbl X)) YY in
    let ZZ := fmul Z Z in
    let XX := fmul X X in
    let M := add (add (dbl XX) XX) (fmul (c_a c) (fmul ZZ ZZ)) in
    let X' := fred (sub (imul ops M M) (dbl S)) in
    let YYYY := fmul YY YY in
    let Y' := fred (sub (imul ops M (sub S X')) (dbl (dbl (dbl YYYY)))) in
    let Z' := fmul (dbl Y) Z in
    (X', Y', Z').

  (* addition, complete:
       U1 = X1 Z2^2, U2 = X2 Z1^2, S1 = Y1 Z2^3, S2 = Y2 Z1^3,
       H = U2 - U1, R = S2 - S1;
       H = 0, R = 0: same point, double;  H = 0, R <> 0: opposite, infinity;
       X3 = R^2 - H^3 - 2 U1 H^2, Y3 = R (U1 H^2 - X3) - S1 H^3,
       Z3 = H Z1 Z2. *)
  Definition jadd (P Q : jac) : jac :=
    let '(X1, Y1, Z1) := P in
    let '(X2, Y2, Z2) := Q in
    if is0 Z1 then Q else if is0 Z2 then P else
    let Z1Z1 := fmul Z1 Z1 in
    let Z2Z2 := fmul Z2 Z2 in
    let U1 := fmul X1 Z2Z2 in
    let U2 := fmul X2 Z1Z1 in
    let S1 := fmul Y1 (fmul Z2 Z2Z2) in
    let S2 := fmul Y2 (fmul Z1 Z1Z1) in
    let H := fred (sub U2 U1) in
    let R := fred (sub S2 S1) in
    if is0 H then (if is0 R then jdbl P else jinf) else
    let HH := fmul H H in
    let HHH := fmul H HH in
    let V := fmul U1 HH in
    let X3 := fred (sub (sub (imul ops R R) HHH) (dbl V)) in
    let Y3 := fred (sub (imul ops R (sub V X3)) (imul ops S1 HHH)) in
    let Z3 := fmul H (fmul Z1 Z2) in
    (X3, Y3, Z3).

  (* k P for k >= 1 in binary: k = 2 k' + bit, k P = 2 (k' P) + bit P
     (left-to-right double and add) *)
  Fixpoint jmul_pos (k : positive) (P : jac) : jac :=
    match k with
    | xH => P
    | xO k' => jdbl (jmul_pos k' P)
    | xI k' => jadd (jdbl (jmul_pos k' P)) P
    end.

  (* k <= 0 gives infinity *)
  Definition jmul (k : T) (P : jac) : jac :=
    match ito_N ops k with
    | N0 => jinf
    | Npos k' => jmul_pos k' P
    end.

  (* ---------------- affine interface ---------------- *)
  Definition pneg (P : point T) : point T :=
    match P with
    | Inf => Inf
    | Aff x y => Aff x (fred (sub p y))
    end.
  Definition pdbl (P : point T) : point T := affine_of (jdbl (jac_of P)).
  Definition padd (P Q : point T) : point T :=
    affine_of (jadd (jac_of P) (jac_of Q)).
  Definition smul (k : T) (P : point T) : point T :=
    affine_of (jmul k (jac_of P)).

  Definition base : point T := Aff (c_gx c) (c_gy c).

  (* 1 <= d < n and d G = (x, y) *)
  Definition valid_private (d x y : T) : bool :=
    in_range1 d (c_n c) && point_eqb (smul d base) (Aff x y).

  (* SEC 1 3.3.1 (cofactor 1), returning both coordinates of d Q *)
  Definition ecdh (d x y : T) : option (T * T) :=
    if in_range1 d (c_n c) && valid_public x y then
      match smul d (Aff x y) with
      | Aff x' y' => Some (x', y')
      | Inf => None
      end
    else None.

  (* FIPS 186-4 6.4 / SEC 1 4.1.3 step 5: the leftmost min(8 |digest|, |n|)
     bits of the digest as an integer *)
  Definition bits2int (digest : bytes) : T :=
    let hbits := (8 * N.of_nat (length digest))%N in
    let nbits := bit_len ops (c_n c) in
    let e := of_bytes ops digest in
    if (nbits <? hbits)%N then shiftr_N ops e (hbits - nbits) else e.

  (* SEC 1 4.1.4 *)
  Definition ecdsa_verify (qx qy : T) (digest : bytes) (r s : T) : bool :=
    let n := c_n c in
    if valid_public qx qy && in_range1 r n && in_range1 s n then
      match modinv ops s n with
      | None => false
      | Some w =>
          let e := bits2int digest in
          let u1 := mulm ops n e w in
          let u2 := mulm ops n r w in
          match affine_of (jadd (jmul u1 (jac_of base))
                                (jmul u2 (jac_of (Aff qx qy)))) with
          | Inf => false
          | Aff x1 _ => ieqb ops (imod ops x1 n) r
          end
      end
    else false.

  (* SEC 1 4.1.3 with the ephemeral key k supplied by the caller; None when
     d or k is out of range or r or s comes out 0 *)
  Definition ecdsa_sign (d k : T) (digest : bytes) : option (T * T) :=
    let n := c_n c in
    if in_range1 d n && in_range1 k n then
      match smul k base, modinv ops k n with
      | Aff x1 _, Some ki =>
          let r := imod ops x1 n in
          if is0 r then None else
          let e := bits2int digest in
          let s := mulm ops n ki (add e (imul ops r d)) in
          if is0 s then None else Some (r, s)
      | _, _ => None
      end
    else None.

End EC.

(* results back to Z, for comparisons *)
Definition point_to_Z {T} (ops : intops T) (P : point T) : point Z :=
  match P with Inf => Inf | Aff x y => Aff (ito_Z ops x) (ito_Z ops y) end.
Definition pair_to_Z {T} (ops : intops T) (r : option (T * T)) : option (Z * Z) :=
  match r with Some (x, y) => Some (ito_Z ops x, ito_Z ops y) | None => None end.

(* ------------------------------------------------------------------ *)
(* Domain parameters: FIPS 186-4 D.1.2.3-5 (P-256, P-384, P-521), SEC 2 2.4.1
   (secp256k1).  Cross-checked against `openssl ecparam -param_enc explicit`. *)
Definition p256 : curve Z := mk_curve Z
  0xffffffff00000001000000000000000000000000ffffffffffffffffffffffff
  0xffffffff00000001000000000000000000000000fffffffffffffffffffffffc
  0x5ac635d8aa3a93e7b3ebbd55769886bc651d06b0cc53b0f63bce3c3e27d2604b
  0x6b17d1f2e12c4247f8bce6e563a440f277037d812deb33a0f4a13945d898c296
  0x4fe342e2fe1a7f9b8ee7eb4a7c0f9e162bce33576b315ececbb6406837bf51f5
  0xffffffff00000000ffffffffffffffffbce6faada7179e84f3b9cac2fc632551
  32.

Definition p384 : curve Z := mk_curve Z
  0xfffffffffffffffffffffffffffffffffffffffffffffffffffffffffffffffeffffffff0000000000000000ffffffff
  0xfffffffffffffffffffffffffffffffffffffffffffffffffffffffffffffffeffffffff0000000000000000fffffffc
  0xb3312fa7e23ee7e4988e056be3f82d19181d9c6efe8141120314088f5013875ac656398d8a2ed19d2a85c8edd3ec2aef
  0xaa87ca22be8b05378eb1c71ef320ad746e1d3b628ba79b9859f741e082542a385502f25dbf55296c3a545e3872760ab7
  0x3617de4a96262c6f5d9e98bf9292dc29f8f41dbd289a147ce9da3113b5f0b8c00a60b1ce1d7e819d7a431d7c90ea0e5f
  0xffffffffffffffffffffffffffffffffffffffffffffffffc7634d81f4372ddf581a0db248b0a77aecec196accc52973
  48.

Definition p521 : curve Z := mk_curve Z
  0x1ffffffffffffffffffffffffffffffffffffffffffffffffffffffffffffffffffffffffffffffffffffffffffffffffffffffffffffffffffffffffffffffffff
  0x1fffffffffffffffffffffffffffffffffffffffffffffffffffffffffffffffffffffffffffffffffffffffffffffffffffffffffffffffffffffffffffffffffc
  0x51953eb9618e1c9a1f929a21a0b68540eea2da725b99b315f3b8b489918ef109e156193951ec7e937b1652c0bd3bb1bf073573df883d2c34f1ef451fd46b503f00
  0xc6858e06b70404e9cd9e3ecb662395b4429c648139053fb521f828af606b4d3dbaa14b5e77efe75928fe1dc127a2ffa8de3348b3c1856a429bf97e7e31c2e5bd66
  0x11839296a789a3bc0045c8a5fb42c7d1bd998f54449579b446817afbd17273e662c97ee72995ef42640c550b9013fad0761353c7086a272c24088be94769fd16650
  0x1fffffffffffffffffffffffffffffffffffffffffffffffffffffffffffffffffa51868783bf2f966b7fcc0148f709a5d03bb5c9b8899c47aebb6fb71e91386409
  66.

Definition secp256k1 : curve Z := mk_curve Z
  0xfffffffffffffffffffffffffffffffffffffffffffffffffffffffefffffc2f
  0x0
  0x7
  0x79be667ef9dcbbac55a06295ce870b07029bfcdb2dce28d959f2815b16f81798
  0x483ada7726a3c4655da4fbfc0e1108a8fd17b448a68554199c47d08ffb10d4b8
  0xfffffffffffffffffffffffffffffffebaaedce6af48a03bbfd25e8cd0364141
  32.

(* ------------------------------------------------------------------ *)
(* Known answers, evaluated with the BigZ instance. *)
Module EcExamples.
  Definition B := bigzops.
  Definition z := iof_Z B.
  Definition cB (c : curve Z) := curve_of B c.

  (* generator is on the curve and has order n, for each curve *)
  Definition gen_ok (c : curve Z) : bool :=
    let c' := cB c in
    valid_public B c' (c_gx c') (c_gy c')
    && point_eqb B (smul B c' (c_n c') (base c')) Inf
    && point_eqb B (smul B c' (isub B (c_n c') (ione B)) (base c')) (pneg B c' (base c')).
  Example p256_gen : gen_ok p256 = true. Proof. vm_compute; reflexivity. Qed.
  Example p384_gen : gen_ok p384 = true. Proof. vm_compute; reflexivity. Qed.
  Example p521_gen : gen_ok p521 = true. Proof. vm_compute; reflexivity. Qed.
  Example secp256k1_gen : gen_ok secp256k1 = true. Proof. vm_compute; reflexivity. Qed.

  (* RFC 6979 A.2.5: P-256, SHA256, message "sample" *)
  Definition p256_x := 0xc9afa9d845ba75166b5c215767b1d6934e50c3db36e89b127b8a622b120f6721.
  Definition p256_ux := 0x60fed4ba255a9d31c961eb74c6356d68c049b8923b61fa6ce669622e60f29fb6.
  Definition p256_uy := 0x7903fe1008b8bc99a41ae9e95628bc64f2f1b20c2d7e9f5177a3c294d4462299.
  Definition p256_k := 0xa6e3c57dd01abe90086538398355dd4c3b17aa873382b0f24d6129493d8aad60.
  Definition p256_r := 0xefd48b2aacb6a8fd1140dd9cd45e81d69d2c877b56aaf991c34d0ea84eaf3716.
  Definition p256_s := 0xf7cb1c942d657c41d436c7a1b6e29f65f3e900dbb9aff4064dc4ab2f843acda8.
  (* sha256("sample") *)
  Definition p256_digest : bytes := [175; 43; 219; 225; 170; 155; 110; 193; 226; 173; 225; 214; 148; 244; 31; 199; 26; 131; 29; 2; 104; 233; 137; 21; 98; 17; 61; 138; 98; 173; 209; 191]%N.
  Example p256_rfc6979_pub : valid_private B (cB p256) (z p256_x) (z p256_ux) (z p256_uy) = true.
  Proof. vm_compute; reflexivity. Qed.
  Example p256_rfc6979_verify : ecdsa_verify B (cB p256) (z p256_ux) (z p256_uy) p256_digest (z p256_r) (z p256_s) = true.
  Proof. vm_compute; reflexivity. Qed.
  Example p256_rfc6979_sign : pair_to_Z B (ecdsa_sign B (cB p256) (z p256_x) (z p256_k) p256_digest) = Some (p256_r, p256_s).
  Proof. vm_compute; reflexivity. Qed.
  Example p256_rfc6979_verify_bad_digest : ecdsa_verify B (cB p256) (z p256_ux) (z p256_uy) (N.lxor (hd 0%N p256_digest) 1 :: tl p256_digest) (z p256_r) (z p256_s) = false.
  Proof. vm_compute; reflexivity. Qed.
  Example p256_rfc6979_verify_swapped : ecdsa_verify B (cB p256) (z p256_ux) (z p256_uy) p256_digest (z p256_s) (z p256_r) = false.
  Proof. vm_compute; reflexivity. Qed.

  (* RFC 6979 A.2.6: P-384, SHA384, message "sample" *)
  Definition p384_x := 0x6b9d3dad2e1b8c1c05b19875b6659f4de23c3b667bf297ba9aa47740787137d896d5724e4c70a825f872c9ea60d2edf5.
  Definition p384_ux := 0xec3a4e415b4e19a4568618029f427fa5da9a8bc4ae92e02e06aae5286b300c64def8f0ea9055866064a254515480bc13.
  Definition p384_uy := 0x8015d9b72d7d57244ea8ef9ac0c621896708a59367f9dfb9f54ca84b3f1c9db1288b231c3ae0d4fe7344fd2533264720.
  Definition p384_k := 0x94ed910d1a099dad3254e9242ae85abde4ba15168eaf0ca87a555fd56d10fbca2907e3e83ba95368623b8c4686915cf9.
  Definition p384_r := 0x94edbb92a5ecb8aad4736e56c691916b3f88140666ce9fa73d64c4ea95ad133c81a648152e44acf96e36dd1e80fabe46.
  Definition p384_s := 0x99ef4aeb15f178cea1fe40db2603138f130e740a19624526203b6351d0a3a94fa329c145786e679e7b82c71a38628ac8.
  (* sha384("sample") *)
  Definition p384_digest : bytes := [154; 144; 131; 80; 91; 201; 34; 118; 174; 196; 190; 49; 38; 150; 239; 123; 243; 191; 96; 63; 75; 189; 56; 17; 150; 160; 41; 243; 64; 88; 83; 18; 49; 59; 202; 74; 155; 91; 137; 14; 254; 228; 44; 119; 177; 238; 37; 254]%N.
  Example p384_rfc6979_pub : valid_private B (cB p384) (z p384_x) (z p384_ux) (z p384_uy) = true.
  Proof. vm_compute; reflexivity. Qed.
  Example p384_rfc6979_verify : ecdsa_verify B (cB p384) (z p384_ux) (z p384_uy) p384_digest (z p384_r) (z p384_s) = true.
  Proof. vm_compute; reflexivity. Qed.
  Example p384_rfc6979_sign : pair_to_Z B (ecdsa_sign B (cB p384) (z p384_x) (z p384_k) p384_digest) = Some (p384_r, p384_s).
  Proof. vm_compute; reflexivity. Qed.
  Example p384_rfc6979_verify_bad_digest : ecdsa_verify B (cB p384) (z p384_ux) (z p384_uy) (N.lxor (hd 0%N p384_digest) 1 :: tl p384_digest) (z p384_r) (z p384_s) = false.
  Proof. vm_compute; reflexivity. Qed.

  (* RFC 6979 A.2.7: P-521, SHA512, message "sample" *)
  Definition p521_x := 0xfad06daa62ba3b25d2fb40133da757205de67f5bb0018fee8c86e1b68c7e75caa896eb32f1f47c70855836a6d16fcc1466f6d8fbec67db89ec0c08b0e996b83538.
  Definition p521_ux := 0x1894550d0785932e00eaa23b694f213f8c3121f86dc97a04e5a7167db4e5bcd371123d46e45db6b5d5370a7f20fb633155d38ffa16d2bd761dcac474b9a2f5023a4.
  Definition p521_uy := 0x493101c962cd4d2fddf782285e64584139c2f91b47f87ff82354d6630f746a28a0db25741b5b34a828008b22acc23f924faafbd4d33f81ea66956dfeaa2bfdfcf5.
  Definition p521_k := 0x1dae2ea071f8110dc26882d4d5eae0621a3256fc8847fb9022e2b7d28e6f10198b1574fdd03a9053c08a1854a168aa5a57470ec97dd5ce090124ef52a2f7ecbffd3.
  Definition p521_r := 0xc328fafcbd79dd77850370c46325d987cb525569fb63c5d3bc53950e6d4c5f174e25a1ee9017b5d450606add152b534931d7d4e8455cc91f9b15bf05ec36e377fa.
  Definition p521_s := 0x617cce7cf5064806c467f678d3b4080d6f1cc50af26ca209417308281b68af282623eaa63e5b5c0723d8b8c37ff0777b1a20f8ccb1dccc43997f1ee0e44da4a67a.
  (* sha512("sample") *)
  Definition p521_digest : bytes := [57; 165; 224; 74; 175; 247; 69; 93; 152; 80; 198; 5; 54; 79; 81; 76; 17; 50; 76; 230; 64; 22; 150; 13; 35; 213; 220; 87; 211; 255; 216; 244; 154; 115; 148; 104; 171; 128; 73; 191; 24; 238; 248; 32; 205; 177; 173; 108; 144; 21; 248; 56; 85; 107; 199; 250; 212; 19; 139; 35; 253; 249; 134; 199]%N.
  Example p521_rfc6979_pub : valid_private B (cB p521) (z p521_x) (z p521_ux) (z p521_uy) = true.
  Proof. vm_compute; reflexivity. Qed.
  Example p521_rfc6979_verify : ecdsa_verify B (cB p521) (z p521_ux) (z p521_uy) p521_digest (z p521_r) (z p521_s) = true.
  Proof. vm_compute; reflexivity. Qed.
  Example p521_rfc6979_sign : pair_to_Z B (ecdsa_sign B (cB p521) (z p521_x) (z p521_k) p521_digest) = Some (p521_r, p521_s).
  Proof. vm_compute; reflexivity. Qed.
  Example p521_rfc6979_verify_bad_digest : ecdsa_verify B (cB p521) (z p521_ux) (z p521_uy) (N.lxor (hd 0%N p521_digest) 1 :: tl p521_digest) (z p521_r) (z p521_s) = false.
  Proof. vm_compute; reflexivity. Qed.

  (* RFC 6979 A.2.5, P-256 with SHA-512: digest longer than the order, exercises the truncation in bits2int *)
  Definition p256_sha512_digest : bytes := [57; 165; 224; 74; 175; 247; 69; 93; 152; 80; 198; 5; 54; 79; 81; 76; 17; 50; 76; 230; 64; 22; 150; 13; 35; 213; 220; 87; 211; 255; 216; 244; 154; 115; 148; 104; 171; 128; 73; 191; 24; 238; 248; 32; 205; 177; 173; 108; 144; 21; 248; 56; 85; 107; 199; 250; 212; 19; 139; 35; 253; 249; 134; 199]%N.
  Example p256_sha512_sign : pair_to_Z B (ecdsa_sign B (cB p256) (z p256_x) (z 0x5fa81c63109badb88c1f367b47da606da28cad69aa22c4fe6ad7df73a7173aa5) p256_sha512_digest) = Some (0x8496a60b5e9b47c825488827e0495b0e3fa109ec4568fd3f8d1097678eb97f00, 0x2362ab1adbe2b8adf9cb9edab740ea6049c028114f2460f96554f61fae3302fe).
  Proof. vm_compute; reflexivity. Qed.
  Example p256_sha512_verify : ecdsa_verify B (cB p256) (z p256_ux) (z p256_uy) p256_sha512_digest (z 0x8496a60b5e9b47c825488827e0495b0e3fa109ec4568fd3f8d1097678eb97f00) (z 0x2362ab1adbe2b8adf9cb9edab740ea6049c028114f2460f96554f61fae3302fe) = true.
  Proof. vm_compute; reflexivity. Qed.

  (* secp256k1: 2G, 3G = 2G + G (well-known multiples), and an ECDSA signature made with an independent python implementation *)
  Example secp256k1_2G : point_to_Z B (pdbl B (cB secp256k1) (base (cB secp256k1))) = Aff 0xc6047f9441ed7d6d3045406e95c07cd85c778e4b8cef3ca7abac09b95c709ee5 0x1ae168fea63dc339a3c58419466ceaeef7f632653266d0e1236431a950cfe52a.
  Proof. vm_compute; reflexivity. Qed.
  Example secp256k1_3G : point_to_Z B (padd B (cB secp256k1) (Aff (z 0xc6047f9441ed7d6d3045406e95c07cd85c778e4b8cef3ca7abac09b95c709ee5) (z 0x1ae168fea63dc339a3c58419466ceaeef7f632653266d0e1236431a950cfe52a)) (base (cB secp256k1))) = Aff 0xf9308a019258c31049344f85f89d5229b531c845836f99b08601f113bce036f9 0x388f7b0f632de8140fe337e62a37f3566500a99934c2231b6cb9fd7584b8e672.
  Proof. vm_compute; reflexivity. Qed.
  Example secp256k1_smul3 : point_to_Z B (smul B (cB secp256k1) (z 3) (base (cB secp256k1))) = Aff 0xf9308a019258c31049344f85f89d5229b531c845836f99b08601f113bce036f9 0x388f7b0f632de8140fe337e62a37f3566500a99934c2231b6cb9fd7584b8e672.
  Proof. vm_compute; reflexivity. Qed.
  Example secp256k1_G_minus_G : padd B (cB secp256k1) (base (cB secp256k1)) (pneg B (cB secp256k1) (base (cB secp256k1))) = Inf.
  Proof. vm_compute; reflexivity. Qed.
  (* d = sha256("secp256k1 test private key") mod n, k = sha256("secp256k1 test nonce") mod n, digest = sha256("secp256k1 known answer") *)
  Definition k1_d := 0x56374e98e0e45cf76b70cb3438c36c90a54a43c795926dca11acb75d08491e07.
  Definition k1_qx := 0x9dc91c2edd4e3a50488875db847148832ec98809539cd28925fc5d244afdef32.
  Definition k1_qy := 0xdfd36f9c21f4bf971c836dbb7bc8530383b29b23c6a4abe4120abf8e655af91a.
  Definition k1_k := 0x7169b4b351aa5ec603d7f5fd30af9dc5565d9ef29f9a4b9fd849234861471389.
  Definition k1_r := 0x7cfba0f5d1e4051e789940a5216c44846c8941458af7b9e948b7c62d0de82f5a.
  Definition k1_s := 0x25a33f83ccaf751859e90840d1700edb44c3314d22e387f7316e0d9ebccacff4.
  Definition k1_digest : bytes := [206; 142; 253; 233; 20; 41; 211; 98; 118; 230; 130; 136; 211; 102; 215; 245; 203; 12; 70; 215; 131; 216; 182; 74; 253; 169; 253; 201; 78; 35; 153; 6]%N.
  Example secp256k1_pub : valid_private B (cB secp256k1) (z k1_d) (z k1_qx) (z k1_qy) = true.
  Proof. vm_compute; reflexivity. Qed.
  Example secp256k1_verify : ecdsa_verify B (cB secp256k1) (z k1_qx) (z k1_qy) k1_digest (z k1_r) (z k1_s) = true.
  Proof. vm_compute; reflexivity. Qed.
  Example secp256k1_sign : pair_to_Z B (ecdsa_sign B (cB secp256k1) (z k1_d) (z k1_k) k1_digest) = Some (k1_r, k1_s).
  Proof. vm_compute; reflexivity. Qed.
  Example secp256k1_verify_wrong_key : ecdsa_verify B (cB secp256k1) (z 0xc6047f9441ed7d6d3045406e95c07cd85c778e4b8cef3ca7abac09b95c709ee5) (z 0x1ae168fea63dc339a3c58419466ceaeef7f632653266d0e1236431a950cfe52a) k1_digest (z k1_r) (z k1_s) = false.
  Proof. vm_compute; reflexivity. Qed.

  (* ECDH on P-256 between the RFC 6979 key and d2 = sha256("p256 second key") mod n; both directions; expected point from python *)
  Definition p256_d2 := 0x797a0c1ac6ae9a535f543f4e1ec95b53bd6662e4727d429cf3ec6893aea6320c.
  Definition p256_q2x := 0xf9cbb967d66aae15836cffb49b0071509fe6aec4a7d3c0f320e74568a092c508.
  Definition p256_q2y := 0x46301d95e84a4d12811b3d87f46696f6bad445a5fdeb28ef01335f004e9ff848.
  Example p256_ecdh_1 : pair_to_Z B (ecdh B (cB p256) (z p256_x) (z p256_q2x) (z p256_q2y)) = Some (0x9dcab7a51e8605925d9d0db71fa7984bcc3dbccc0b1251fff698c4e8cef7258a, 0xa0d9134478e401e173dc2ce7ec841744f3962b4b3b8528ddd814f52a07ab39e4).
  Proof. vm_compute; reflexivity. Qed.
  Example p256_ecdh_2 : pair_to_Z B (ecdh B (cB p256) (z p256_d2) (z p256_ux) (z p256_uy)) = Some (0x9dcab7a51e8605925d9d0db71fa7984bcc3dbccc0b1251fff698c4e8cef7258a, 0xa0d9134478e401e173dc2ce7ec841744f3962b4b3b8528ddd814f52a07ab39e4).
  Proof. vm_compute; reflexivity. Qed.
  (* a point not on the curve, and out-of-range inputs, are refused *)
  Example p256_ecdh_off_curve : ecdh B (cB p256) (z p256_x) (z p256_q2x) (z (p256_q2y + 1)) = None.
  Proof. vm_compute; reflexivity. Qed.
  Example p256_ecdh_d_zero : ecdh B (cB p256) (z 0) (z p256_q2x) (z p256_q2y) = None.
  Proof. vm_compute; reflexivity. Qed.
  Example p256_public_x_ge_p : valid_public B (cB p256) (z (p256_q2x + c_p p256)) (z p256_q2y) = false.
  Proof. vm_compute; reflexivity. Qed.
  Example p256_private_ge_n : valid_private B (cB p256) (z (p256_x + c_n p256)) (z p256_ux) (z p256_uy) = false.
  Proof. vm_compute; reflexivity. Qed.
  Example p256_verify_r_zero : ecdsa_verify B (cB p256) (z p256_ux) (z p256_uy) p256_digest (z 0) (z p256_s) = false.
  Proof. vm_compute; reflexivity. Qed.
  Example p256_verify_s_eq_n : ecdsa_verify B (cB p256) (z p256_ux) (z p256_uy) p256_digest (z p256_r) (z (c_n p256)) = false.
  Proof. vm_compute; reflexivity. Qed.

  (* the Z instance agrees with the BigZ instance (short scalar: stdlib Z is ~60x slower) *)
  Example p256_Z_agrees : smul zops p256 0xdeadbeef (base p256) = point_to_Z B (smul B (cB p256) (z 0xdeadbeef) (base (cB p256))).
  Proof. vm_compute; reflexivity. Qed.
End EcExamples.
