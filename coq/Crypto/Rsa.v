(* Rsa: RFC 8017 (PKCS #1 v2.2) primitives and encodings.
     5.1.1 RSAEP, 5.2.2 RSAVP1
     9.2   EMSA-PKCS1-v1_5, 8.2.2 RSASSA-PKCS1-V1_5-VERIFY
     9.1   EMSA-PSS, 8.1.2 RSASSA-PSS-VERIFY
     7.1   RSAES-OAEP (EME-OAEP encode/decode)
     7.2   RSAES-PKCS1-v1_5 (EME-PKCS1-v1_5 encode/decode)
   Integer parts are generic over [intops].  Hash functions and mask
   generation functions are ordinary arguments:
     H : bytes -> bytes,  hlen : N (octets of H's output),
     mgf : bytes -> N -> bytes  (seed, requested length).
   Randomness (OAEP seed, PKCS1 padding string, PSS salt) is supplied by the
   caller.  Private-key operations are not computed here: the caller supplies
   the result w of RSADP/RSASP1 and it is checked by w^e mod n = c. *)
From JoseV Require Import Base.Bytes.
From JoseV Require Import Crypto.BigNum.
From Bignums Require Import BigZ BigN.
Local Open Scope N_scope.

(* ------------------------------------------------------------------ *)
(* byte-string helpers *)

Fixpoint bxor (a b : bytes) : bytes :=
  match a, b with
  | x :: a', y :: b' => N.lxor x y :: bxor a' b'
  | _, _ => []
  end.

Definition all_zero (l : bytes) : bool := forallb (fun x => x =? 0) l.
Definition all_nonzero (l : bytes) : bool := forallb (fun x => negb (x =? 0)) l.

Fixpoint skip_zeros (l : bytes) : bytes :=
  match l with
  | x :: r => if x =? 0 then skip_zeros r else l
  | [] => []
  end.

(* split at the first zero octet: (before, after), None if there is none *)
Fixpoint split_at_zero (l : bytes) : option (bytes * bytes) :=
  match l with
  | [] => None
  | x :: r =>
      if x =? 0 then Some ([], r)
      else match split_at_zero r with
           | Some (a, b) => Some (x :: a, b)
           | None => None
           end
  end.

Definition last_byte (l : bytes) : N := last l 0.

(* clear the leftmost z bits (0 <= z <= 8) of the first octet *)
Definition clear_top_bits (z : N) (l : bytes) : bytes :=
  match l with
  | x :: r => N.land x (N.shiftr 255 z) :: r
  | [] => []
  end.
(* are the leftmost z bits (0 <= z <= 8) of the first octet zero *)
Definition top_bits_zero (z : N) (l : bytes) : bool :=
  match l with
  | x :: r => N.shiftr x (8 - z) =? 0
  | [] => true
  end.

(* ------------------------------------------------------------------ *)
(* DigestInfo DER prefixes, RFC 8017 section 9.2 note 1 *)
Definition di_sha1 : bytes :=
  [0x30; 0x21; 0x30; 0x09; 0x06; 0x05; 0x2b; 0x0e; 0x03; 0x02; 0x1a;
   0x05; 0x00; 0x04; 0x14].
Definition di_sha224 : bytes :=
  [0x30; 0x2d; 0x30; 0x0d; 0x06; 0x09; 0x60; 0x86; 0x48; 0x01; 0x65; 0x03;
   0x04; 0x02; 0x04; 0x05; 0x00; 0x04; 0x1c].
Definition di_sha256 : bytes :=
  [0x30; 0x31; 0x30; 0x0d; 0x06; 0x09; 0x60; 0x86; 0x48; 0x01; 0x65; 0x03;
   0x04; 0x02; 0x01; 0x05; 0x00; 0x04; 0x20].
Definition di_sha384 : bytes :=
  [0x30; 0x41; 0x30; 0x0d; 0x06; 0x09; 0x60; 0x86; 0x48; 0x01; 0x65; 0x03;
   0x04; 0x02; 0x02; 0x05; 0x00; 0x04; 0x30].
Definition di_sha512 : bytes :=
  [0x30; 0x51; 0x30; 0x0d; 0x06; 0x09; 0x60; 0x86; 0x48; 0x01; 0x65; 0x03;
   0x04; 0x02; 0x03; 0x05; 0x00; 0x04; 0x40].

(* ------------------------------------------------------------------ *)
(* Encodings (no integers involved) *)

(* 9.2 EMSA-PKCS1-v1_5-ENCODE with the hash already applied:
   EM = 00 01 FF..FF 00 || prefix || digest, at least 8 octets of FF *)
Definition emsa_pkcs1_v15_encode (digestinfo_prefix digest : bytes) (emlen : nat)
  : option bytes :=
  let t := digestinfo_prefix ++ digest in
  let tlen := length t in
  if (emlen <? tlen + 11)%nat then None
  else Some (0 :: 1 :: repeatN 0xff (emlen - tlen - 3) ++ 0 :: t).

(* 9.1.1 EMSA-PSS-ENCODE, salt supplied by the caller (sLen = |salt|) *)
Definition emsa_pss_encode (H : bytes -> bytes) (hlen : N)
           (mgf : bytes -> N -> bytes) (msg salt : bytes) (embits : N)
  : option bytes :=
  let emlen := N.to_nat ((embits + 7) / 8) in
  let hl := N.to_nat hlen in
  let sl := length salt in
  let mhash := H msg in
  if (emlen <? hl + sl + 2)%nat then None else
  let m' := repeatN 0 8 ++ mhash ++ salt in
  let h := H m' in
  let db := repeatN 0 (emlen - sl - hl - 2) ++ 1 :: salt in
  let dbmask := mgf h (N.of_nat (emlen - hl - 1)) in
  let maskeddb := clear_top_bits (8 * N.of_nat emlen - embits) (bxor db dbmask) in
  Some (maskeddb ++ h ++ [0xbc]).

(* 9.1.2 EMSA-PSS-VERIFY, steps 3-14, given mHash = Hash(M) *)
Definition emsa_pss_verify_mhash (H : bytes -> bytes) (hlen : N)
           (mgf : bytes -> N -> bytes) (slen : N) (mhash em : bytes) (embits : N)
  : bool :=
  let emlen := N.to_nat ((embits + 7) / 8) in
  let hl := N.to_nat hlen in
  let sl := N.to_nat slen in
  let zbits := 8 * N.of_nat emlen - embits in
  if negb (length em =? emlen)%nat then false else
  if negb (length mhash =? hl)%nat then false else
  if (emlen <? hl + sl + 2)%nat then false else                  (* 3 *)
  if negb (last_byte em =? 0xbc) then false else                 (* 4 *)
  let dblen := (emlen - hl - 1)%nat in
  let maskeddb := take dblen em in                               (* 5 *)
  let h := take hl (drop dblen em) in
  if negb (top_bits_zero zbits maskeddb) then false else         (* 6 *)
  let dbmask := mgf h (N.of_nat dblen) in                        (* 7 *)
  if negb (length dbmask =? dblen)%nat then false else
  let db := clear_top_bits zbits (bxor maskeddb dbmask) in       (* 8, 9 *)
  let pslen := (emlen - hl - sl - 2)%nat in
  if negb (all_zero (take pslen db)) then false else             (* 10 *)
  match drop pslen db with
  | x :: salt =>
      if negb (x =? 1) then false else
      let m' := repeatN 0 8 ++ mhash ++ salt in                  (* 11, 12 *)
      let h' := H m' in                                          (* 13 *)
      bytes_eqb h h'                                             (* 14 *)
  | [] => false
  end.

(* 9.1.2 EMSA-PSS-VERIFY (M, EM, emBits), salt length slen *)
Definition emsa_pss_verify (H : bytes -> bytes) (hlen : N)
           (mgf : bytes -> N -> bytes) (slen : N) (msg em : bytes) (embits : N)
  : bool :=
  emsa_pss_verify_mhash H hlen mgf slen (H msg) em embits.

(* 7.1.1 step 2, EME-OAEP encoding, seed supplied by the caller; k is the
   octet length of the modulus *)
Definition eme_oaep_encode (H : bytes -> bytes) (hlen : N)
           (mgf : bytes -> N -> bytes) (label msg seed : bytes) (k : nat)
  : option bytes :=
  let hl := N.to_nat hlen in
  let mlen := length msg in
  if (k <? mlen + 2 * hl + 2)%nat then None else
  if negb (length seed =? hl)%nat then None else
  let lhash := H label in
  let db := lhash ++ repeatN 0 (k - mlen - 2 * hl - 2) ++ 1 :: msg in
  let dbmask := mgf seed (N.of_nat (k - hl - 1)) in
  let maskeddb := bxor db dbmask in
  let seedmask := mgf maskeddb hlen in
  let maskedseed := bxor seed seedmask in
  Some (0 :: maskedseed ++ maskeddb).

(* 7.1.2 step 3, EME-OAEP decoding of EM (k octets) *)
Definition eme_oaep_decode (H : bytes -> bytes) (hlen : N)
           (mgf : bytes -> N -> bytes) (label em : bytes) (k : nat)
  : option bytes :=
  let hl := N.to_nat hlen in
  if negb (length em =? k)%nat then None else
  if (k <? 2 * hl + 2)%nat then None else
  let lhash := H label in
  match em with
  | [] => None
  | y :: rest =>
      let maskedseed := take hl rest in
      let maskeddb := drop hl rest in
      let seedmask := mgf maskeddb hlen in
      let seed := bxor maskedseed seedmask in
      let dbmask := mgf seed (N.of_nat (k - hl - 1)) in
      let db := bxor maskeddb dbmask in
      if negb (length seed =? hl)%nat then None else
      if negb (length db =? k - hl - 1)%nat then None else
      let lhash' := take hl db in
      if negb (y =? 0) then None else
      if negb (bytes_eqb lhash' lhash) then None else
      match skip_zeros (drop hl db) with
      | x :: m => if x =? 1 then Some m else None
      | [] => None
      end
  end.

(* 7.2.1 step 2, EME-PKCS1-v1_5 encoding, padding string supplied by the
   caller: exactly k - mLen - 3 nonzero octets (hence at least 8) *)
Definition eme_pkcs1_v15_encode (msg ps : bytes) (k : nat) : option bytes :=
  let mlen := length msg in
  if (k <? mlen + 11)%nat then None else
  if negb (length ps =? k - mlen - 3)%nat then None else
  if negb (all_nonzero ps) then None else
  Some (0 :: 2 :: ps ++ 0 :: msg).

(* 7.2.2 step 3: EM = 00 02 PS 00 M with PS nonzero, |PS| >= 8 *)
Definition eme_pkcs1_v15_decode (em : bytes) : option bytes :=
  match em with
  | x0 :: x1 :: r =>
      if (x0 =? 0) && (x1 =? 2) then
        match split_at_zero r with
        | Some (ps, m) => if (length ps <? 8)%nat then None else Some m
        | None => None
        end
      else None
  | _ => None
  end.

(* ------------------------------------------------------------------ *)
Section RSA.
  Context {T : Type} (ops : intops T).

  (* 5.1.1 RSAEP ((n, e), m): None if m is not in [0, n-1] *)
  Definition rsaep (n e m : T) : option T :=
    if ileb ops (izero ops) m && iltb ops m n then Some (modexp ops m e n)
    else None.

  (* 5.2.2 RSAVP1 ((n, e), s): the same computation *)
  Definition rsavp1 (n e s : T) : option T := rsaep n e s.

  (* w is the result of the private operation on c: w in [0,n-1], w^e = c *)
  Definition check_private_witness (n e c w : T) : bool :=
    match rsaep n e w with
    | Some c' => ieqb ops c' c
    | None => false
    end.

  (* 8.2.2 RSASSA-PKCS1-V1_5-VERIFY; n, e big-endian octet strings; k is
     the octet length of the integer n (leading zero octets of the encoding
     of n do not count); H is the hash matching the DigestInfo prefix *)
  Definition rsassa_pkcs1_v15_verify (prefix : bytes) (H : bytes -> bytes)
             (n e msg sig : bytes) : bool :=
    let n' := of_bytes ops n in
    let k := octet_len ops n' in
    if negb (length sig =? k)%nat then false else
    match rsavp1 n' (of_bytes ops e) (of_bytes ops sig) with
    | None => false
    | Some m =>
        match to_bytes ops m k, emsa_pkcs1_v15_encode prefix (H msg) k with
        | Some em, Some em' => bytes_eqb em em'
        | _, _ => false
        end
    end.

  (* 8.1.2 RSASSA-PSS-VERIFY with salt length slen *)
  Definition rsassa_pss_verify (H : bytes -> bytes) (hlen : N)
             (mgf : bytes -> N -> bytes) (slen : N)
             (n e msg sig : bytes) : bool :=
    let n' := of_bytes ops n in
    let k := octet_len ops n' in
    let modbits := bit_len ops n' in
    if negb (length sig =? k)%nat then false else
    if modbits <? 2 then false else
    match rsavp1 n' (of_bytes ops e) (of_bytes ops sig) with
    | None => false
    | Some m =>
        let embits := modbits - 1 in
        match to_bytes ops m (N.to_nat ((embits + 7) / 8)) with
        | None => false
        | Some em => emsa_pss_verify H hlen mgf slen msg em embits
        end
    end.

  (* RSAEP on octet strings: c = I2OSP (RSAEP (OS2IP em), k) *)
  Definition rsa_encrypt_em (n e em : bytes) : option bytes :=
    let n' := of_bytes ops n in
    match rsaep n' (of_bytes ops e) (of_bytes ops em) with
    | Some c => to_bytes ops c (octet_len ops n')
    | None => None
    end.

  (* 7.1.1 RSAES-OAEP-ENCRYPT, seed supplied *)
  Definition rsaes_oaep_encrypt (H : bytes -> bytes) (hlen : N)
             (mgf : bytes -> N -> bytes) (label : bytes)
             (n e msg seed : bytes) : option bytes :=
    let k := octet_len ops (of_bytes ops n) in
    match eme_oaep_encode H hlen mgf label msg seed k with
    | Some em => rsa_encrypt_em n e em
    | None => None
    end.

  (* 7.2.1 RSAES-PKCS1-V1_5-ENCRYPT, padding string supplied *)
  Definition rsaes_pkcs1_v15_encrypt (n e msg ps : bytes) : option bytes :=
    let k := octet_len ops (of_bytes ops n) in
    match eme_pkcs1_v15_encode msg ps k with
    | Some em => rsa_encrypt_em n e em
    | None => None
    end.

  (* RSADP on octet strings with a witness: ct has k octets, its integer is
     below n, w is the decryption of ct (checked with the public key);
     returns EM = I2OSP (w, k) *)
  Definition rsa_decrypt_em_w (n e ct w : bytes) : option bytes :=
    let n' := of_bytes ops n in
    let k := octet_len ops n' in
    let c := of_bytes ops ct in
    let w' := of_bytes ops w in
    if negb (length ct =? k)%nat then None else
    if negb (iltb ops c n') then None else
    if check_private_witness n' (of_bytes ops e) c w' then to_bytes ops w' k
    else None.

  (* 7.1.2 RSAES-OAEP-DECRYPT given the witness w = RSADP (K, c) as octets *)
  Definition rsaes_oaep_decrypt_w (H : bytes -> bytes) (hlen : N)
             (mgf : bytes -> N -> bytes) (label : bytes)
             (n e ct w : bytes) : option bytes :=
    match rsa_decrypt_em_w n e ct w with
    | Some em => eme_oaep_decode H hlen mgf label em (length em)
    | None => None
    end.

  (* 7.2.2 RSAES-PKCS1-V1_5-DECRYPT given the witness (k >= 11 follows from
     the shape check in the decoding) *)
  Definition rsaes_pkcs1_v15_decrypt_w (n e ct w : bytes) : option bytes :=
    match rsa_decrypt_em_w n e ct w with
    | Some em => eme_pkcs1_v15_decode em
    | None => None
    end.

End RSA.

(* ------------------------------------------------------------------ *)
(* Known answers (BigZ instance).  Hash and MGF values were precomputed with
   python hashlib and are passed in as finite lookup tables; anything not in
   the table hashes to [] (which makes every check fail). *)
Module RsaExamples.
  Definition B := bigzops.

  Definition tbl_hash (tbl : list (bytes * bytes)) (x : bytes) : bytes :=
    match find (fun p => bytes_eqb (fst p) x) tbl with
    | Some p => snd p
    | None => []
    end.
  Definition tbl_mgf (tbl : list (bytes * N * bytes)) (seed : bytes) (len : N) : bytes :=
    match find (fun p => bytes_eqb (fst (fst p)) seed && (snd (fst p) =? len)) tbl with
    | Some p => snd p
    | None => []
    end.

  (* small cases of the encodings *)
  Example emsa_v15_small :
    emsa_pkcs1_v15_encode [0xAA; 0xBB] [1; 2; 3] 16
    = Some [0; 1; 0xff; 0xff; 0xff; 0xff; 0xff; 0xff; 0xff; 0xff; 0; 0xAA; 0xBB; 1; 2; 3].
  Proof. vm_compute; reflexivity. Qed.
  Example emsa_v15_too_short : emsa_pkcs1_v15_encode [0xAA; 0xBB] [1; 2; 3] 15 = None.
  Proof. vm_compute; reflexivity. Qed.
  Example eme_v15_dec_ok :
    eme_pkcs1_v15_decode [0; 2; 1; 2; 3; 4; 5; 6; 7; 8; 0; 9; 0; 9] = Some [9; 0; 9].
  Proof. vm_compute; reflexivity. Qed.
  Example eme_v15_dec_empty_msg :
    eme_pkcs1_v15_decode [0; 2; 1; 2; 3; 4; 5; 6; 7; 8; 0] = Some [].
  Proof. vm_compute; reflexivity. Qed.
  Example eme_v15_dec_short_ps :
    eme_pkcs1_v15_decode [0; 2; 1; 2; 3; 4; 5; 6; 7; 0; 9; 9; 9] = None.
  Proof. vm_compute; reflexivity. Qed.
  Example eme_v15_dec_bad_type :
    eme_pkcs1_v15_decode [0; 1; 1; 2; 3; 4; 5; 6; 7; 8; 0; 9] = None.
  Proof. vm_compute; reflexivity. Qed.
  Example eme_v15_dec_bad_lead :
    eme_pkcs1_v15_decode [1; 2; 1; 2; 3; 4; 5; 6; 7; 8; 0; 9] = None.
  Proof. vm_compute; reflexivity. Qed.
  Example eme_v15_dec_no_sep :
    eme_pkcs1_v15_decode [0; 2; 1; 2; 3; 4; 5; 6; 7; 8; 9; 9] = None.
  Proof. vm_compute; reflexivity. Qed.
  Example eme_v15_enc_roundtrip :
    match eme_pkcs1_v15_encode [9; 0; 9] [1; 2; 3; 4; 5; 6; 7; 8] 14 with
    | Some em => eme_pkcs1_v15_decode em
    | None => None
    end = Some [9; 0; 9].
  Proof. vm_compute; reflexivity. Qed.
  Example eme_v15_enc_zero_in_ps :
    eme_pkcs1_v15_encode [9] [1; 2; 3; 0; 5; 6; 7; 8] 12 = None.
  Proof. vm_compute; reflexivity. Qed.

  (* RFC 7515 Appendix A.2 (RS256): key from A.2.1, JWS signing input and signature *)
  Definition a2_n : bytes :=
    [161; 248; 22; 10; 226; 227; 201; 180; 101; 206; 141; 45; 101; 98; 99; 54;
     43; 146; 125; 190; 41; 225; 240; 36; 119; 252; 22; 37; 204; 144; 161;
     54; 227; 139; 217; 52; 151; 197; 182; 234; 99; 221; 119; 17; 230; 124;
     116; 41; 249; 86; 176; 251; 138; 143; 8; 154; 220; 75; 105; 137; 60;
     193; 51; 63; 83; 237; 208; 25; 184; 119; 132; 37; 47; 236; 145; 79; 228;
     133; 119; 105; 89; 75; 234; 66; 128; 211; 44; 15; 85; 191; 98; 148; 79;
     19; 3; 150; 188; 110; 155; 223; 110; 189; 210; 189; 163; 103; 142; 236;
     160; 198; 104; 247; 1; 179; 141; 191; 251; 56; 200; 52; 44; 226; 254;
     109; 39; 250; 222; 74; 90; 72; 116; 151; 157; 212; 185; 207; 154; 222;
     196; 199; 91; 5; 133; 44; 44; 15; 94; 248; 165; 193; 117; 3; 146; 249;
     68; 232; 237; 100; 193; 16; 198; 182; 71; 96; 154; 164; 120; 58; 235;
     156; 108; 154; 215; 85; 49; 48; 80; 99; 139; 131; 102; 92; 111; 111;
     122; 130; 163; 150; 112; 42; 31; 100; 27; 130; 211; 235; 242; 57; 34;
     25; 73; 31; 182; 134; 135; 44; 87; 22; 245; 10; 248; 53; 141; 154; 139;
     157; 23; 195; 64; 114; 143; 127; 135; 216; 154; 24; 216; 252; 171; 103;
     173; 132; 89; 12; 46; 207; 117; 147; 57; 54; 60; 7; 3; 77; 111; 96; 111;
     158; 33; 224; 84; 86; 202; 229; 233; 161]%N.
  Definition a2_e : bytes :=
    [1; 0; 1]%N.
  (* ASCII(BASE64URL(header) . BASE64URL(payload)) *)
  Definition a2_input : bytes :=
    [101; 121; 74; 104; 98; 71; 99; 105; 79; 105; 74; 83; 85; 122; 73; 49; 78;
     105; 74; 57; 46; 101; 121; 74; 112; 99; 51; 77; 105; 79; 105; 74; 113;
     98; 50; 85; 105; 76; 65; 48; 75; 73; 67; 74; 108; 101; 72; 65; 105; 79;
     106; 69; 122; 77; 68; 65; 52; 77; 84; 107; 122; 79; 68; 65; 115; 68; 81;
     111; 103; 73; 109; 104; 48; 100; 72; 65; 54; 76; 121; 57; 108; 101; 71;
     70; 116; 99; 71; 120; 108; 76; 109; 78; 118; 98; 83; 57; 112; 99; 49;
     57; 121; 98; 50; 57; 48; 73; 106; 112; 48; 99; 110; 86; 108; 102; 81]%N.
  Definition a2_sig : bytes :=
    [112; 46; 33; 137; 67; 232; 143; 209; 30; 181; 216; 45; 191; 120; 69; 243;
     65; 6; 174; 27; 129; 255; 247; 115; 17; 22; 173; 209; 113; 125; 131;
     101; 109; 66; 10; 253; 60; 150; 238; 221; 115; 162; 102; 62; 81; 102;
     104; 123; 0; 11; 135; 34; 110; 1; 135; 237; 16; 115; 249; 69; 229; 130;
     173; 252; 239; 22; 216; 90; 121; 142; 232; 198; 109; 219; 61; 184; 151;
     91; 23; 208; 148; 2; 190; 237; 213; 217; 217; 112; 7; 16; 141; 178; 129;
     96; 213; 248; 4; 12; 167; 68; 87; 98; 184; 31; 190; 127; 249; 217; 46;
     10; 231; 111; 36; 242; 91; 51; 187; 230; 244; 74; 230; 30; 177; 4; 10;
     203; 32; 4; 77; 62; 249; 18; 142; 212; 1; 48; 121; 91; 212; 189; 59; 65;
     238; 202; 208; 102; 171; 101; 25; 129; 253; 228; 141; 247; 127; 55; 45;
     195; 139; 159; 175; 221; 59; 239; 177; 139; 93; 163; 204; 60; 46; 176;
     47; 158; 58; 65; 214; 18; 202; 173; 21; 145; 18; 115; 160; 95; 35; 185;
     232; 56; 250; 175; 132; 157; 105; 132; 41; 239; 90; 30; 136; 121; 130;
     54; 195; 212; 14; 96; 69; 34; 165; 68; 200; 242; 122; 122; 45; 184; 6;
     99; 209; 108; 247; 202; 234; 86; 222; 64; 92; 178; 33; 90; 69; 178; 194;
     85; 102; 181; 90; 193; 167; 72; 160; 112; 223; 200; 163; 42; 70; 149;
     67; 208; 25; 238; 251; 71]%N.
  (* SHA-256(a2_input), python hashlib *)
  Definition a2_digest : bytes :=
    [200; 138; 52; 132; 123; 79; 251; 18; 169; 50; 110; 84; 15; 20; 75; 61;
     204; 77; 85; 21; 241; 135; 1; 231; 214; 224; 238; 120; 102; 201; 199; 5]%N.
  Definition a2_other : bytes :=
    [111; 116; 104; 101; 114; 32; 109; 101; 115; 115; 97; 103; 101]%N.
  Definition a2_other_digest : bytes :=
    [50; 150; 226; 177; 63; 220; 9; 57; 253; 10; 208; 91; 231; 90; 65; 5; 187;
     16; 249; 195; 210; 35; 129; 68; 121; 212; 249; 163; 118; 39; 80; 20]%N.
  Definition a2_H := tbl_hash [(a2_input, a2_digest); (a2_other, a2_other_digest)].
  Example rfc7515_a2_verify :
    rsassa_pkcs1_v15_verify B di_sha256 a2_H a2_n a2_e a2_input a2_sig = true.
  Proof. vm_compute; reflexivity. Qed.
  Example rfc7515_a2_verify_other_msg :
    rsassa_pkcs1_v15_verify B di_sha256 a2_H a2_n a2_e a2_other a2_sig = false.
  Proof. vm_compute; reflexivity. Qed.
  Example rfc7515_a2_verify_wrong_prefix :
    rsassa_pkcs1_v15_verify B di_sha384 a2_H a2_n a2_e a2_input a2_sig = false.
  Proof. vm_compute; reflexivity. Qed.
  Example rfc7515_a2_verify_tampered :
    rsassa_pkcs1_v15_verify B di_sha256 a2_H a2_n a2_e a2_input (N.lxor (hd 0 a2_sig) 1 :: tl a2_sig) = false.
  Proof. vm_compute; reflexivity. Qed.
  Example rfc7515_a2_verify_short_sig :
    rsassa_pkcs1_v15_verify B di_sha256 a2_H a2_n a2_e a2_input (tl a2_sig) = false.
  Proof. vm_compute; reflexivity. Qed.
  Example rfc7515_a2_verify_padded_sig :
    rsassa_pkcs1_v15_verify B di_sha256 a2_H a2_n a2_e a2_input (0 :: a2_sig) = false.
  Proof. vm_compute; reflexivity. Qed.
  Example rfc7515_a2_verify_n_leading_zero :
    rsassa_pkcs1_v15_verify B di_sha256 a2_H (0 :: a2_n) a2_e a2_input a2_sig = true.
  Proof. vm_compute; reflexivity. Qed.
  Example rfc7515_a2_witness :
    check_private_witness B (of_bytes B a2_n) (of_bytes B a2_e) (of_bytes B (0 :: 1 :: repeatN 0xff 202 ++ 0 :: di_sha256 ++ a2_digest)) (of_bytes B a2_sig) = true.
  Proof. vm_compute; reflexivity. Qed.
  (* the Z instance on a textbook key (p = 61, q = 53, e = 17, d = 2753) *)
  Example rsaep_Z_textbook :
    (rsaep zops 3233 17 65, rsavp1 zops 3233 17 3233, check_private_witness zops 3233 17 65 (modexp zops 65 2753 3233))%Z = (Some 2790%Z, None, true).
  Proof. vm_compute; reflexivity. Qed.

  (* 2048-bit key generated with `openssl genpkey -algorithm RSA -pkeyopt rsa_keygen_bits:2048` *)
  Definition k2_n : bytes :=
    [213; 27; 173; 245; 250; 240; 135; 230; 9; 241; 243; 226; 40; 167; 245;
     107; 178; 9; 224; 156; 235; 109; 253; 82; 5; 0; 155; 76; 76; 115; 66;
     25; 218; 169; 78; 165; 75; 133; 201; 153; 220; 202; 11; 67; 182; 24; 22;
     19; 74; 136; 161; 183; 143; 223; 26; 188; 156; 185; 174; 68; 33; 92;
     122; 97; 79; 194; 181; 91; 63; 178; 58; 151; 181; 200; 239; 111; 246;
     135; 137; 21; 227; 84; 88; 78; 43; 39; 8; 5; 49; 143; 53; 149; 161; 132;
     176; 122; 163; 17; 94; 62; 227; 238; 169; 71; 235; 113; 192; 87; 145;
     204; 70; 97; 250; 145; 89; 72; 229; 211; 33; 161; 53; 12; 180; 28; 66;
     31; 206; 243; 53; 135; 229; 121; 14; 27; 145; 28; 176; 183; 90; 230; 19;
     205; 62; 223; 241; 75; 30; 57; 54; 74; 162; 230; 165; 150; 66; 137; 156;
     234; 233; 206; 93; 22; 16; 96; 41; 27; 242; 159; 10; 19; 51; 1; 30; 140;
     191; 57; 2; 20; 132; 4; 120; 164; 24; 73; 140; 173; 69; 52; 134; 32; 33;
     129; 203; 34; 219; 163; 143; 242; 41; 22; 227; 65; 91; 160; 6; 70; 63;
     162; 222; 205; 196; 204; 182; 119; 107; 132; 253; 172; 216; 246; 70;
     162; 149; 76; 91; 71; 82; 101; 32; 115; 200; 195; 165; 251; 12; 61; 132;
     97; 96; 84; 160; 107; 51; 248; 156; 220; 200; 162; 74; 198; 98; 117;
     105; 116; 65; 237]%N.
  Definition k2_e : bytes :=
    [1; 0; 1]%N.
  (* "The quick brown fox jumps over the lazy dog" *)
  Definition k2_msg : bytes :=
    [84; 104; 101; 32; 113; 117; 105; 99; 107; 32; 98; 114; 111; 119; 110; 32;
     102; 111; 120; 32; 106; 117; 109; 112; 115; 32; 111; 118; 101; 114; 32;
     116; 104; 101; 32; 108; 97; 122; 121; 32; 100; 111; 103]%N.
  (* `openssl dgst -sha1 -sign` over k2_msg *)
  Definition k2_sha1_digest : bytes :=
    [47; 212; 225; 198; 122; 45; 40; 252; 237; 132; 158; 225; 187; 118; 231;
     57; 27; 147; 235; 18]%N.
  Definition k2_sha1_sig : bytes :=
    [75; 67; 127; 107; 13; 4; 186; 18; 40; 57; 220; 247; 218; 28; 68; 39; 140;
     13; 18; 104; 160; 140; 223; 108; 34; 193; 211; 81; 77; 217; 140; 59;
     248; 155; 81; 169; 98; 179; 69; 23; 251; 29; 65; 33; 9; 98; 246; 12;
     245; 143; 16; 165; 129; 119; 208; 32; 3; 211; 183; 175; 110; 214; 189;
     58; 251; 158; 73; 255; 107; 132; 210; 132; 223; 29; 20; 207; 222; 30;
     75; 91; 202; 102; 145; 204; 212; 48; 237; 7; 253; 145; 136; 14; 234;
     180; 28; 198; 197; 174; 60; 216; 49; 136; 241; 217; 159; 172; 68; 253;
     32; 194; 201; 35; 196; 158; 24; 225; 21; 212; 133; 7; 74; 191; 154; 176;
     134; 126; 71; 138; 199; 242; 91; 110; 243; 155; 175; 207; 176; 28; 74;
     229; 206; 140; 220; 160; 182; 177; 206; 83; 100; 235; 26; 50; 194; 124;
     145; 19; 66; 115; 227; 62; 68; 15; 64; 248; 115; 250; 2; 118; 226; 49;
     5; 175; 115; 178; 1; 245; 208; 33; 3; 7; 204; 1; 38; 171; 123; 76; 99;
     52; 4; 52; 227; 168; 167; 192; 179; 17; 53; 29; 163; 73; 61; 225; 74;
     25; 45; 170; 228; 179; 246; 129; 184; 223; 122; 45; 180; 106; 119; 136;
     56; 242; 192; 0; 171; 59; 90; 40; 225; 250; 16; 199; 107; 228; 204; 1;
     225; 194; 83; 6; 237; 101; 184; 160; 72; 24; 118; 185; 246; 53; 20; 39;
     16; 23; 13; 234; 97; 10]%N.
  Example k2_v15_sha1_verify :
    rsassa_pkcs1_v15_verify B di_sha1 (fun _ => k2_sha1_digest) k2_n k2_e k2_msg k2_sha1_sig = true.
  Proof. vm_compute; reflexivity. Qed.
  (* `openssl dgst -sha224 -sign` over k2_msg *)
  Definition k2_sha224_digest : bytes :=
    [115; 14; 16; 155; 215; 168; 163; 43; 28; 185; 217; 160; 154; 162; 50; 93;
     36; 48; 88; 125; 219; 192; 195; 139; 173; 145; 21; 37]%N.
  Definition k2_sha224_sig : bytes :=
    [88; 32; 202; 229; 0; 167; 185; 229; 165; 254; 223; 119; 134; 56; 104;
     183; 47; 8; 247; 113; 62; 43; 240; 213; 235; 226; 76; 160; 151; 81; 27;
     243; 3; 169; 250; 185; 19; 90; 249; 23; 204; 202; 16; 228; 123; 88; 4;
     192; 114; 32; 201; 1; 157; 53; 55; 142; 250; 208; 163; 103; 168; 52;
     130; 206; 45; 29; 58; 134; 19; 51; 113; 200; 208; 64; 230; 81; 217; 2;
     236; 160; 61; 179; 142; 211; 65; 97; 174; 201; 53; 242; 223; 81; 219;
     146; 210; 223; 13; 115; 83; 84; 231; 87; 239; 160; 180; 27; 12; 63; 109;
     129; 28; 250; 105; 122; 215; 17; 170; 34; 95; 77; 186; 109; 54; 94; 249;
     28; 145; 5; 157; 12; 201; 66; 69; 153; 114; 201; 143; 219; 20; 11; 180;
     134; 63; 11; 42; 165; 4; 148; 32; 254; 107; 173; 53; 104; 254; 65; 60;
     58; 15; 139; 14; 238; 120; 248; 162; 130; 4; 68; 24; 44; 194; 235; 98;
     18; 236; 177; 245; 78; 255; 8; 122; 14; 132; 3; 228; 217; 82; 116; 198;
     111; 221; 247; 170; 4; 108; 250; 204; 137; 205; 73; 164; 66; 184; 244;
     45; 186; 159; 4; 13; 245; 7; 139; 107; 83; 205; 143; 83; 12; 14; 44;
     208; 61; 80; 62; 99; 56; 239; 180; 77; 173; 108; 187; 161; 125; 179;
     229; 142; 156; 249; 79; 243; 73; 237; 190; 20; 140; 127; 25; 141; 211;
     58; 163; 84; 122; 243; 243]%N.
  Example k2_v15_sha224_verify :
    rsassa_pkcs1_v15_verify B di_sha224 (fun _ => k2_sha224_digest) k2_n k2_e k2_msg k2_sha224_sig = true.
  Proof. vm_compute; reflexivity. Qed.
  (* `openssl dgst -sha256 -sign` over k2_msg *)
  Definition k2_sha256_digest : bytes :=
    [215; 168; 251; 179; 7; 215; 128; 148; 105; 202; 154; 188; 176; 8; 46; 79;
     141; 86; 81; 228; 109; 60; 219; 118; 45; 2; 208; 191; 55; 201; 229; 146]%N.
  Definition k2_sha256_sig : bytes :=
    [128; 12; 182; 162; 229; 212; 172; 223; 228; 182; 40; 6; 184; 49; 131; 75;
     192; 199; 154; 75; 23; 105; 85; 83; 88; 149; 148; 214; 3; 81; 103; 237;
     248; 228; 218; 250; 80; 246; 140; 193; 173; 65; 255; 56; 31; 14; 230;
     60; 249; 2; 174; 27; 209; 35; 17; 172; 192; 234; 63; 82; 8; 97; 231;
     188; 194; 177; 170; 138; 213; 20; 187; 22; 178; 55; 162; 245; 229; 165;
     131; 79; 67; 212; 91; 202; 76; 227; 44; 253; 133; 22; 66; 201; 135; 216;
     166; 77; 204; 24; 82; 225; 23; 98; 75; 66; 123; 100; 230; 70; 132; 207;
     101; 83; 53; 54; 56; 24; 246; 144; 35; 49; 93; 108; 61; 68; 237; 29;
     202; 242; 69; 105; 184; 27; 28; 92; 112; 206; 206; 8; 118; 129; 248; 74;
     79; 76; 114; 227; 71; 16; 123; 143; 127; 38; 179; 247; 131; 134; 147;
     232; 199; 128; 175; 94; 200; 225; 201; 253; 85; 209; 23; 86; 251; 241;
     181; 171; 113; 19; 0; 190; 243; 248; 78; 179; 177; 50; 145; 241; 229;
     239; 246; 247; 45; 48; 168; 97; 12; 206; 66; 137; 251; 59; 39; 238; 19;
     252; 251; 223; 129; 213; 75; 4; 132; 81; 222; 13; 253; 218; 88; 198;
     209; 108; 236; 54; 180; 75; 102; 190; 56; 31; 174; 160; 223; 79; 153;
     157; 62; 43; 30; 195; 55; 78; 115; 236; 254; 254; 85; 48; 82; 163; 29;
     113; 138; 228; 73; 210; 89; 36]%N.
  Example k2_v15_sha256_verify :
    rsassa_pkcs1_v15_verify B di_sha256 (fun _ => k2_sha256_digest) k2_n k2_e k2_msg k2_sha256_sig = true.
  Proof. vm_compute; reflexivity. Qed.
  (* `openssl dgst -sha384 -sign` over k2_msg *)
  Definition k2_sha384_digest : bytes :=
    [202; 115; 127; 16; 20; 164; 143; 76; 11; 109; 212; 60; 177; 119; 176;
     175; 217; 229; 22; 147; 103; 84; 76; 73; 64; 17; 227; 49; 125; 191; 154;
     80; 156; 177; 229; 220; 30; 133; 169; 65; 187; 238; 61; 127; 42; 251;
     201; 177]%N.
  Definition k2_sha384_sig : bytes :=
    [40; 203; 161; 141; 214; 217; 170; 84; 37; 197; 194; 161; 145; 191; 125;
     168; 112; 153; 97; 69; 250; 157; 100; 41; 144; 183; 124; 170; 134; 46;
     45; 206; 78; 19; 178; 1; 102; 227; 178; 172; 244; 31; 63; 69; 45; 212;
     248; 197; 88; 31; 189; 18; 197; 55; 158; 50; 60; 214; 219; 72; 134; 164;
     99; 173; 100; 205; 10; 51; 61; 216; 78; 120; 40; 204; 236; 191; 25; 77;
     92; 21; 250; 229; 197; 164; 230; 77; 86; 94; 159; 30; 172; 236; 43; 8;
     200; 196; 33; 225; 102; 64; 35; 239; 200; 74; 167; 125; 37; 35; 126; 25;
     13; 146; 85; 211; 253; 66; 110; 125; 240; 227; 26; 74; 171; 104; 157;
     223; 215; 208; 0; 10; 44; 67; 22; 35; 110; 20; 103; 243; 165; 86; 117;
     122; 118; 34; 223; 28; 121; 194; 136; 180; 26; 211; 111; 156; 104; 51;
     170; 236; 4; 247; 135; 49; 120; 226; 6; 145; 125; 77; 167; 33; 100; 79;
     32; 36; 93; 156; 208; 78; 73; 159; 135; 87; 40; 254; 98; 149; 101; 43;
     137; 115; 149; 104; 179; 194; 162; 36; 229; 223; 4; 232; 177; 156; 146;
     120; 40; 35; 132; 3; 209; 116; 189; 21; 95; 242; 39; 142; 98; 9; 187;
     217; 76; 242; 19; 237; 83; 229; 24; 180; 253; 6; 146; 12; 61; 251; 109;
     189; 19; 187; 123; 154; 227; 116; 14; 242; 160; 18; 170; 239; 225; 194;
     76; 133; 237; 111; 25; 165]%N.
  Example k2_v15_sha384_verify :
    rsassa_pkcs1_v15_verify B di_sha384 (fun _ => k2_sha384_digest) k2_n k2_e k2_msg k2_sha384_sig = true.
  Proof. vm_compute; reflexivity. Qed.
  (* `openssl dgst -sha512 -sign` over k2_msg *)
  Definition k2_sha512_digest : bytes :=
    [7; 229; 71; 217; 88; 111; 106; 115; 247; 63; 186; 192; 67; 94; 215; 105;
     81; 33; 143; 183; 208; 200; 215; 136; 163; 9; 215; 133; 67; 107; 187;
     100; 46; 147; 162; 82; 169; 84; 242; 57; 18; 84; 125; 30; 138; 59; 94;
     214; 225; 191; 215; 9; 120; 33; 35; 63; 160; 83; 143; 61; 184; 84; 254;
     230]%N.
  Definition k2_sha512_sig : bytes :=
    [36; 12; 147; 222; 127; 59; 205; 3; 25; 233; 191; 81; 184; 140; 90; 123;
     78; 157; 71; 71; 161; 14; 83; 86; 195; 49; 38; 98; 65; 171; 26; 229; 3;
     235; 164; 128; 5; 199; 152; 206; 16; 193; 118; 70; 48; 240; 189; 58;
     133; 191; 151; 48; 233; 74; 99; 97; 50; 77; 213; 77; 148; 123; 194; 160;
     2; 132; 0; 241; 191; 109; 115; 175; 216; 250; 202; 46; 124; 126; 151;
     78; 164; 137; 212; 100; 155; 1; 204; 167; 161; 136; 46; 151; 255; 3; 95;
     130; 155; 55; 60; 239; 129; 249; 119; 130; 249; 226; 244; 222; 116; 32;
     57; 18; 202; 3; 167; 17; 21; 86; 124; 239; 11; 23; 95; 10; 5; 88; 137;
     12; 145; 195; 108; 47; 170; 239; 2; 150; 207; 21; 219; 87; 126; 223;
     247; 112; 236; 109; 78; 62; 115; 154; 228; 189; 74; 178; 210; 111; 125;
     164; 201; 88; 172; 79; 69; 167; 144; 196; 156; 30; 103; 156; 69; 242;
     20; 220; 58; 131; 82; 154; 206; 90; 99; 236; 138; 88; 229; 59; 225; 194;
     71; 106; 191; 212; 126; 36; 255; 91; 173; 31; 118; 172; 103; 46; 190;
     54; 148; 149; 30; 87; 11; 171; 81; 43; 196; 215; 137; 242; 173; 101;
     212; 156; 134; 230; 112; 223; 205; 66; 77; 128; 28; 106; 188; 15; 10;
     56; 254; 200; 59; 186; 50; 7; 74; 170; 139; 219; 239; 136; 238; 190;
     108; 84; 98; 166; 4; 57; 80; 47]%N.
  Example k2_v15_sha512_verify :
    rsassa_pkcs1_v15_verify B di_sha512 (fun _ => k2_sha512_digest) k2_n k2_e k2_msg k2_sha512_sig = true.
  Proof. vm_compute; reflexivity. Qed.
  Example k2_v15_cross_hash :
    rsassa_pkcs1_v15_verify B di_sha256 (fun _ => k2_sha256_digest) k2_n k2_e k2_msg k2_sha384_sig = false.
  Proof. vm_compute; reflexivity. Qed.

  (* PSS, sha256, salt length = digest length, 2048-bit modulus: `openssl pkeyutl -sign -pkeyopt digest:sha256 -pkeyopt rsa_padding_mode:pss -pkeyopt rsa_pss_saltlen:digest` over sha256(msg); EM, salt, H, dbMask recovered with python pow()/hashlib *)
  Definition ps256_sig : bytes :=
    [80; 203; 188; 112; 123; 10; 100; 161; 15; 31; 11; 197; 42; 129; 94; 14;
     202; 146; 55; 143; 133; 35; 156; 186; 235; 145; 203; 116; 143; 171; 204;
     37; 254; 178; 241; 39; 78; 160; 153; 141; 203; 67; 169; 243; 12; 174;
     57; 32; 232; 146; 254; 211; 135; 250; 24; 204; 70; 127; 218; 2; 202;
     216; 1; 7; 218; 102; 90; 109; 130; 126; 48; 38; 211; 18; 20; 246; 68;
     203; 20; 53; 51; 109; 118; 102; 134; 188; 128; 243; 95; 21; 21; 43; 207;
     43; 18; 89; 246; 133; 251; 97; 63; 88; 105; 66; 159; 107; 61; 44; 80;
     66; 186; 27; 167; 195; 175; 19; 251; 0; 208; 34; 170; 245; 147; 116; 39;
     240; 122; 21; 124; 42; 65; 153; 3; 136; 235; 128; 216; 153; 134; 192;
     110; 52; 11; 34; 100; 8; 78; 148; 215; 235; 169; 126; 164; 44; 107; 214;
     48; 242; 140; 81; 3; 131; 237; 245; 172; 149; 230; 99; 220; 40; 192; 49;
     104; 122; 220; 17; 134; 138; 120; 123; 248; 6; 245; 81; 148; 80; 207;
     188; 229; 58; 122; 96; 219; 18; 234; 18; 106; 38; 140; 250; 76; 81; 12;
     22; 116; 143; 56; 81; 70; 25; 82; 100; 208; 200; 248; 227; 78; 111; 188;
     85; 102; 26; 83; 123; 55; 22; 100; 189; 192; 43; 216; 129; 211; 46; 97;
     82; 239; 81; 227; 41; 107; 177; 176; 197; 203; 23; 16; 124; 252; 225;
     37; 8; 213; 6; 41; 247]%N.
  Definition ps256_mhash : bytes :=
    [215; 168; 251; 179; 7; 215; 128; 148; 105; 202; 154; 188; 176; 8; 46; 79;
     141; 86; 81; 228; 109; 60; 219; 118; 45; 2; 208; 191; 55; 201; 229; 146]%N.
  (* salt recovered from EM *)
  Definition ps256_salt : bytes :=
    [52; 192; 6; 36; 119; 230; 221; 132; 119; 255; 250; 237; 116; 67; 0; 29;
     98; 197; 130; 150; 156; 33; 71; 130; 22; 95; 163; 56; 179; 69; 115; 203]%N.
  (* H = Hash(00*8 || mHash || salt) *)
  Definition ps256_h : bytes :=
    [125; 26; 32; 186; 234; 51; 197; 69; 69; 169; 34; 101; 212; 168; 165; 220;
     25; 177; 57; 97; 243; 91; 186; 35; 59; 176; 195; 198; 171; 134; 221; 129]%N.
  (* MGF1(H, emLen - hLen - 1) *)
  Definition ps256_dbmask : bytes :=
    [127; 10; 73; 24; 72; 229; 94; 133; 141; 249; 144; 250; 164; 172; 165;
     125; 235; 190; 175; 92; 145; 14; 148; 245; 222; 102; 81; 211; 66; 183;
     58; 15; 53; 196; 234; 78; 117; 134; 72; 252; 113; 100; 132; 232; 36; 74;
     72; 87; 151; 38; 73; 206; 252; 213; 215; 220; 28; 31; 102; 171; 212;
     247; 161; 155; 202; 130; 101; 124; 181; 22; 46; 165; 87; 122; 137; 12;
     195; 134; 209; 13; 85; 107; 250; 206; 164; 144; 81; 209; 63; 111; 85;
     143; 98; 188; 185; 82; 138; 149; 47; 192; 29; 13; 233; 72; 124; 231;
     117; 72; 174; 112; 106; 25; 136; 160; 19; 254; 223; 123; 192; 24; 42;
     10; 244; 96; 148; 1; 114; 54; 223; 218; 237; 237; 205; 76; 82; 35; 210;
     63; 20; 54; 12; 134; 216; 111; 174; 227; 228; 74; 69; 183; 156; 238; 56;
     234; 40; 246; 228; 146; 93; 189; 0; 125; 236; 122; 173; 129; 93; 235;
     125; 16; 248; 251; 227; 54; 56; 209; 72; 61; 188; 47; 41; 184; 189; 89;
     221; 231; 200; 125; 176; 11; 78; 83; 132; 39; 207; 235; 56; 183; 69;
     181; 239; 92; 26; 171; 46; 96; 183; 249; 22; 86; 5; 159; 152; 108; 164;
     82; 127; 156; 148; 252; 95; 121; 117]%N.
  (* EM = I2OSP(sig^e mod n, emLen) *)
  Definition ps256_em : bytes :=
    [127; 10; 73; 24; 72; 229; 94; 133; 141; 249; 144; 250; 164; 172; 165;
     125; 235; 190; 175; 92; 145; 14; 148; 245; 222; 102; 81; 211; 66; 183;
     58; 15; 53; 196; 234; 78; 117; 134; 72; 252; 113; 100; 132; 232; 36; 74;
     72; 87; 151; 38; 73; 206; 252; 213; 215; 220; 28; 31; 102; 171; 212;
     247; 161; 155; 202; 130; 101; 124; 181; 22; 46; 165; 87; 122; 137; 12;
     195; 134; 209; 13; 85; 107; 250; 206; 164; 144; 81; 209; 63; 111; 85;
     143; 98; 188; 185; 82; 138; 149; 47; 192; 29; 13; 233; 72; 124; 231;
     117; 72; 174; 112; 106; 25; 136; 160; 19; 254; 223; 123; 192; 24; 42;
     10; 244; 96; 148; 1; 114; 54; 223; 218; 237; 237; 205; 76; 82; 35; 210;
     63; 20; 54; 12; 134; 216; 111; 174; 227; 228; 74; 69; 183; 156; 238; 56;
     234; 40; 246; 228; 146; 93; 189; 0; 125; 236; 122; 173; 129; 93; 235;
     125; 16; 248; 251; 227; 54; 56; 209; 72; 61; 188; 47; 41; 184; 189; 89;
     221; 231; 200; 125; 176; 11; 79; 103; 68; 33; 235; 156; 222; 106; 193;
     194; 16; 166; 247; 223; 109; 96; 170; 155; 211; 212; 147; 3; 185; 43;
     38; 68; 32; 63; 172; 79; 26; 10; 190; 125; 26; 32; 186; 234; 51; 197;
     69; 69; 169; 34; 101; 212; 168; 165; 220; 25; 177; 57; 97; 243; 91; 186;
     35; 59; 176; 195; 198; 171; 134; 221; 129; 188]%N.
  Definition ps256_H := tbl_hash [(k2_msg, ps256_mhash); (repeatN 0 8 ++ ps256_mhash ++ ps256_salt, ps256_h)].
  Definition ps256_mgf := tbl_mgf [(ps256_h, 223, ps256_dbmask)].
  Example ps256_emsa_verify :
    emsa_pss_verify ps256_H 32 ps256_mgf 32 k2_msg ps256_em 2047 = true.
  Proof. vm_compute; reflexivity. Qed.
  Example ps256_emsa_verify_wrong_slen :
    emsa_pss_verify ps256_H 32 ps256_mgf 31 k2_msg ps256_em 2047 = false.
  Proof. vm_compute; reflexivity. Qed.
  Example ps256_emsa_verify_wrong_embits :
    emsa_pss_verify ps256_H 32 ps256_mgf 32 k2_msg ps256_em 2039 = false.
  Proof. vm_compute; reflexivity. Qed.
  Example ps256_emsa_verify_bad_trailer :
    emsa_pss_verify ps256_H 32 ps256_mgf 32 k2_msg (removelast ps256_em ++ [0xbd]) 2047 = false.
  Proof. vm_compute; reflexivity. Qed.
  Example ps256_emsa_verify_top_bit :
    emsa_pss_verify ps256_H 32 ps256_mgf 32 k2_msg (N.lor (hd 0 ps256_em) 0x80 :: tl ps256_em) 2047 = false.
  Proof. vm_compute; reflexivity. Qed.
  Example ps256_emsa_encode :
    emsa_pss_encode ps256_H 32 ps256_mgf k2_msg ps256_salt 2047 = Some ps256_em.
  Proof. vm_compute; reflexivity. Qed.
  Example ps256_verify :
    rsassa_pss_verify B ps256_H 32 ps256_mgf 32 k2_n k2_e k2_msg ps256_sig = true.
  Proof. vm_compute; reflexivity. Qed.
  Example ps256_verify_tampered :
    rsassa_pss_verify B ps256_H 32 ps256_mgf 32 k2_n k2_e k2_msg (N.lxor (hd 0 ps256_sig) 1 :: tl ps256_sig) = false.
  Proof. vm_compute; reflexivity. Qed.
  Example ps256_verify_short :
    rsassa_pss_verify B ps256_H 32 ps256_mgf 32 k2_n k2_e k2_msg (tl ps256_sig) = false.
  Proof. vm_compute; reflexivity. Qed.
  Example ps256_verify_as_v15 :
    rsassa_pkcs1_v15_verify B di_sha256 ps256_H k2_n k2_e k2_msg ps256_sig = false.
  Proof. vm_compute; reflexivity. Qed.

  (* PSS, sha384, salt length = digest length, 2048-bit modulus: `openssl pkeyutl -sign -pkeyopt digest:sha384 -pkeyopt rsa_padding_mode:pss -pkeyopt rsa_pss_saltlen:digest` over sha384(msg); EM, salt, H, dbMask recovered with python pow()/hashlib *)
  Definition ps384_sig : bytes :=
    [3; 3; 234; 63; 219; 240; 109; 187; 130; 60; 112; 28; 175; 164; 21; 48;
     222; 2; 140; 129; 118; 220; 29; 12; 40; 6; 89; 43; 245; 82; 16; 173; 34;
     225; 71; 81; 168; 75; 221; 145; 245; 205; 72; 249; 60; 245; 30; 200; 21;
     37; 133; 61; 144; 199; 120; 119; 230; 145; 248; 218; 207; 81; 101; 136;
     68; 74; 23; 141; 98; 64; 145; 130; 169; 162; 98; 155; 208; 173; 192;
     194; 118; 220; 218; 35; 201; 55; 48; 127; 185; 148; 230; 38; 235; 14;
     180; 156; 33; 61; 245; 255; 122; 187; 163; 235; 137; 252; 179; 79; 208;
     243; 205; 233; 117; 116; 175; 128; 219; 146; 97; 68; 77; 183; 111; 137;
     169; 146; 17; 216; 250; 75; 20; 9; 179; 160; 246; 50; 40; 211; 21; 60;
     114; 29; 166; 168; 124; 27; 4; 111; 240; 196; 189; 210; 90; 127; 53; 54;
     45; 144; 102; 153; 170; 23; 159; 11; 128; 32; 34; 126; 135; 245; 93;
     106; 1; 6; 248; 189; 207; 102; 48; 75; 149; 124; 170; 232; 172; 5; 110;
     120; 72; 154; 107; 42; 132; 33; 150; 75; 214; 88; 173; 52; 37; 128; 203;
     186; 61; 201; 20; 14; 142; 37; 138; 35; 43; 252; 94; 192; 127; 29; 132;
     168; 219; 78; 149; 67; 78; 42; 57; 54; 104; 85; 221; 63; 219; 77; 79;
     171; 125; 173; 67; 95; 35; 161; 141; 45; 220; 53; 132; 79; 182; 243;
     111; 148; 205; 198; 44; 225]%N.
  Definition ps384_mhash : bytes :=
    [202; 115; 127; 16; 20; 164; 143; 76; 11; 109; 212; 60; 177; 119; 176;
     175; 217; 229; 22; 147; 103; 84; 76; 73; 64; 17; 227; 49; 125; 191; 154;
     80; 156; 177; 229; 220; 30; 133; 169; 65; 187; 238; 61; 127; 42; 251;
     201; 177]%N.
  (* salt recovered from EM *)
  Definition ps384_salt : bytes :=
    [175; 92; 143; 86; 28; 179; 248; 142; 47; 36; 188; 1; 14; 168; 239; 135;
     116; 111; 3; 195; 111; 200; 151; 2; 230; 2; 186; 160; 69; 55; 177; 23;
     194; 154; 191; 202; 198; 9; 106; 44; 31; 209; 125; 35; 70; 199; 150; 227]%N.
  (* H = Hash(00*8 || mHash || salt) *)
  Definition ps384_h : bytes :=
    [147; 201; 99; 178; 177; 58; 34; 206; 13; 63; 139; 176; 224; 152; 67; 178;
     82; 195; 217; 97; 126; 168; 148; 235; 158; 218; 133; 133; 130; 255; 158;
     35; 101; 177; 231; 49; 188; 13; 127; 116; 185; 139; 32; 44; 187; 127;
     21; 56]%N.
  (* MGF1(H, emLen - hLen - 1) *)
  Definition ps384_dbmask : bytes :=
    [74; 109; 252; 10; 119; 92; 24; 0; 25; 75; 103; 172; 105; 175; 92; 52; 52;
     227; 228; 195; 180; 211; 101; 200; 55; 2; 196; 219; 208; 206; 84; 240;
     224; 14; 216; 42; 132; 246; 198; 198; 64; 202; 207; 180; 20; 147; 4;
     109; 101; 212; 230; 54; 245; 227; 166; 127; 124; 183; 92; 234; 229; 66;
     46; 86; 83; 198; 89; 79; 128; 21; 130; 187; 121; 23; 207; 151; 90; 74;
     2; 96; 78; 35; 67; 29; 251; 238; 204; 80; 158; 13; 9; 62; 15; 56; 131;
     66; 125; 27; 108; 224; 76; 11; 199; 242; 154; 6; 35; 22; 17; 236; 50;
     89; 147; 222; 254; 213; 93; 83; 134; 11; 10; 50; 249; 155; 115; 238;
     204; 50; 63; 124; 58; 13; 131; 129; 202; 23; 80; 226; 92; 220; 242; 193;
     13; 166; 25; 167; 130; 24; 27; 169; 150; 37; 162; 245; 218; 120; 136;
     164; 129; 179; 159; 67; 85; 67; 154; 135; 32; 106; 147; 98; 238; 99;
     154; 241; 158; 165; 208; 97; 38; 171; 0; 191; 165; 76; 124; 146; 66;
     170; 31; 168; 8; 186; 214; 234; 204; 77; 4; 205; 78; 126; 207; 227; 91;
     5; 3; 191; 173]%N.
  (* EM = I2OSP(sig^e mod n, emLen) *)
  Definition ps384_em : bytes :=
    [74; 109; 252; 10; 119; 92; 24; 0; 25; 75; 103; 172; 105; 175; 92; 52; 52;
     227; 228; 195; 180; 211; 101; 200; 55; 2; 196; 219; 208; 206; 84; 240;
     224; 14; 216; 42; 132; 246; 198; 198; 64; 202; 207; 180; 20; 147; 4;
     109; 101; 212; 230; 54; 245; 227; 166; 127; 124; 183; 92; 234; 229; 66;
     46; 86; 83; 198; 89; 79; 128; 21; 130; 187; 121; 23; 207; 151; 90; 74;
     2; 96; 78; 35; 67; 29; 251; 238; 204; 80; 158; 13; 9; 62; 15; 56; 131;
     66; 125; 27; 108; 224; 76; 11; 199; 242; 154; 6; 35; 22; 17; 236; 50;
     89; 147; 222; 254; 213; 93; 83; 134; 11; 10; 50; 249; 155; 115; 238;
     204; 50; 63; 124; 58; 13; 131; 129; 202; 23; 80; 226; 92; 220; 242; 193;
     13; 166; 25; 167; 130; 24; 27; 169; 150; 37; 162; 245; 218; 120; 136;
     164; 128; 28; 195; 204; 3; 95; 41; 127; 174; 69; 183; 222; 239; 109; 50;
     30; 25; 209; 191; 98; 229; 196; 200; 40; 167; 170; 126; 40; 226; 239;
     40; 25; 31; 120; 76; 85; 6; 139; 13; 167; 98; 97; 30; 158; 120; 67; 196;
     41; 78; 147; 201; 99; 178; 177; 58; 34; 206; 13; 63; 139; 176; 224; 152;
     67; 178; 82; 195; 217; 97; 126; 168; 148; 235; 158; 218; 133; 133; 130;
     255; 158; 35; 101; 177; 231; 49; 188; 13; 127; 116; 185; 139; 32; 44;
     187; 127; 21; 56; 188]%N.
  Definition ps384_H := tbl_hash [(k2_msg, ps384_mhash); (repeatN 0 8 ++ ps384_mhash ++ ps384_salt, ps384_h)].
  Definition ps384_mgf := tbl_mgf [(ps384_h, 207, ps384_dbmask)].
  Example ps384_verify :
    rsassa_pss_verify B ps384_H 48 ps384_mgf 48 k2_n k2_e k2_msg ps384_sig = true.
  Proof. vm_compute; reflexivity. Qed.
  Example ps384_emsa_encode :
    emsa_pss_encode ps384_H 48 ps384_mgf k2_msg ps384_salt 2047 = Some ps384_em.
  Proof. vm_compute; reflexivity. Qed.

  (* 1025-bit modulus: emBits = 1024 is a multiple of 8, so emLen = k - 1 = 128 and no top bits are cleared *)
  Definition k3_n : bytes :=
    [1; 83; 97; 156; 145; 195; 125; 231; 244; 29; 21; 28; 16; 155; 46; 123;
     152; 32; 82; 144; 0; 31; 220; 78; 162; 120; 54; 8; 116; 7; 86; 63; 245;
     234; 180; 233; 0; 176; 157; 140; 105; 223; 202; 125; 20; 15; 198; 13;
     233; 134; 204; 5; 186; 251; 20; 41; 25; 154; 50; 78; 193; 31; 68; 45;
     234; 45; 171; 55; 240; 245; 202; 166; 152; 232; 206; 182; 92; 9; 173;
     65; 133; 124; 36; 4; 146; 190; 22; 143; 59; 207; 45; 75; 148; 115; 61;
     36; 136; 9; 13; 109; 241; 241; 4; 8; 246; 249; 6; 223; 151; 91; 44; 242;
     186; 144; 144; 149; 4; 7; 135; 234; 59; 156; 219; 134; 180; 101; 125;
     213; 199]%N.
  Definition k3_e : bytes :=
    [1; 0; 1]%N.
  (* PSS, sha256, salt length = digest length, 1025-bit modulus: `openssl pkeyutl -sign -pkeyopt digest:sha256 -pkeyopt rsa_padding_mode:pss -pkeyopt rsa_pss_saltlen:digest` over sha256(msg); EM, salt, H, dbMask recovered with python pow()/hashlib *)
  Definition ps1025_sig : bytes :=
    [0; 59; 242; 219; 210; 60; 74; 158; 194; 156; 86; 182; 249; 127; 155; 112;
     248; 40; 9; 152; 6; 97; 123; 165; 209; 10; 106; 204; 24; 125; 170; 200;
     2; 163; 56; 66; 182; 19; 132; 98; 252; 244; 87; 149; 131; 158; 10; 188;
     239; 140; 88; 249; 9; 64; 15; 113; 151; 179; 167; 139; 112; 78; 64; 12;
     220; 127; 6; 203; 222; 99; 139; 205; 49; 194; 187; 61; 117; 185; 103;
     161; 208; 205; 71; 69; 229; 49; 0; 201; 232; 197; 224; 106; 92; 49; 74;
     156; 183; 127; 10; 0; 30; 205; 157; 97; 190; 160; 54; 159; 36; 5; 123;
     2; 238; 164; 15; 150; 96; 215; 145; 225; 127; 44; 11; 174; 153; 226; 86;
     159; 62]%N.
  Definition ps1025_mhash : bytes :=
    [215; 168; 251; 179; 7; 215; 128; 148; 105; 202; 154; 188; 176; 8; 46; 79;
     141; 86; 81; 228; 109; 60; 219; 118; 45; 2; 208; 191; 55; 201; 229; 146]%N.
  (* salt recovered from EM *)
  Definition ps1025_salt : bytes :=
    [131; 114; 231; 67; 224; 113; 88; 226; 142; 51; 13; 20; 183; 41; 249; 51;
     48; 74; 28; 42; 69; 50; 247; 124; 63; 230; 200; 200; 105; 49; 107; 237]%N.
  (* H = Hash(00*8 || mHash || salt) *)
  Definition ps1025_h : bytes :=
    [157; 27; 75; 96; 96; 151; 36; 128; 146; 189; 32; 92; 124; 96; 211; 135;
     237; 46; 76; 163; 158; 47; 78; 35; 166; 129; 72; 123; 241; 206; 132; 141]%N.
  (* MGF1(H, emLen - hLen - 1) *)
  Definition ps1025_dbmask : bytes :=
    [107; 208; 223; 58; 167; 39; 223; 223; 77; 6; 159; 17; 152; 238; 4; 172;
     200; 65; 85; 28; 150; 114; 59; 106; 149; 156; 18; 194; 225; 248; 43;
     218; 86; 82; 73; 48; 1; 194; 26; 22; 0; 98; 5; 102; 100; 110; 162; 147;
     182; 41; 13; 54; 18; 123; 128; 213; 163; 2; 59; 26; 36; 214; 236; 144;
     53; 199; 43; 15; 42; 255; 189; 209; 197; 113; 93; 236; 163; 251; 51; 43;
     222; 196; 255; 38; 90; 200; 31; 229; 131; 210; 55; 20; 130; 174; 86]%N.
  (* EM = I2OSP(sig^e mod n, emLen) *)
  Definition ps1025_em : bytes :=
    [107; 208; 223; 58; 167; 39; 223; 223; 77; 6; 159; 17; 152; 238; 4; 172;
     200; 65; 85; 28; 150; 114; 59; 106; 149; 156; 18; 194; 225; 248; 43;
     218; 86; 82; 73; 48; 1; 194; 26; 22; 0; 98; 5; 102; 100; 110; 162; 147;
     182; 41; 13; 54; 18; 123; 128; 213; 163; 2; 59; 26; 36; 214; 237; 19;
     71; 32; 104; 239; 91; 167; 95; 95; 246; 124; 73; 91; 138; 2; 0; 27; 148;
     216; 213; 99; 104; 63; 99; 218; 101; 26; 255; 125; 179; 197; 187; 157;
     27; 75; 96; 96; 151; 36; 128; 146; 189; 32; 92; 124; 96; 211; 135; 237;
     46; 76; 163; 158; 47; 78; 35; 166; 129; 72; 123; 241; 206; 132; 141; 188]%N.
  Definition ps1025_H := tbl_hash [(k2_msg, ps1025_mhash); (repeatN 0 8 ++ ps1025_mhash ++ ps1025_salt, ps1025_h)].
  Definition ps1025_mgf := tbl_mgf [(ps1025_h, 95, ps1025_dbmask)].
  Example ps1025_verify :
    rsassa_pss_verify B ps1025_H 32 ps1025_mgf 32 k3_n k3_e k2_msg ps1025_sig = true.
  Proof. vm_compute; reflexivity. Qed.
  Example ps1025_emsa_encode :
    emsa_pss_encode ps1025_H 32 ps1025_mgf k2_msg ps1025_salt 1024 = Some ps1025_em.
  Proof. vm_compute; reflexivity. Qed.

  (* OAEP, sha256 (MGF1 with the same hash), label b'': `openssl pkeyutl -encrypt -pkeyopt rsa_padding_mode:oaep -pkeyopt rsa_oaep_md:sha256`; w = c^d mod n by python pow(); seed and masks recovered with python *)
  Definition oaep256_ct : bytes :=
    [45; 30; 211; 198; 114; 169; 16; 245; 126; 232; 159; 126; 30; 197; 51; 10;
     107; 144; 109; 78; 210; 127; 56; 133; 171; 140; 40; 9; 250; 49; 84; 18;
     59; 15; 235; 153; 179; 103; 19; 101; 115; 32; 93; 106; 110; 49; 64; 98;
     136; 222; 245; 236; 136; 126; 63; 149; 142; 185; 203; 99; 94; 184; 165;
     160; 100; 117; 25; 213; 77; 22; 66; 61; 18; 51; 57; 148; 95; 24; 189;
     193; 238; 150; 198; 38; 250; 36; 229; 231; 86; 55; 42; 23; 39; 230; 179;
     215; 160; 33; 205; 13; 58; 129; 145; 247; 76; 0; 130; 68; 100; 173; 125;
     253; 22; 203; 194; 115; 12; 67; 124; 222; 130; 184; 188; 171; 32; 103;
     147; 144; 222; 78; 250; 87; 88; 119; 97; 91; 243; 154; 24; 119; 89; 219;
     22; 19; 48; 108; 209; 3; 203; 168; 31; 28; 16; 211; 27; 231; 152; 139;
     8; 46; 28; 50; 27; 149; 91; 34; 130; 240; 188; 15; 63; 79; 135; 168; 83;
     188; 169; 201; 159; 242; 194; 63; 245; 161; 148; 44; 7; 43; 226; 46;
     117; 214; 173; 160; 180; 226; 105; 136; 160; 98; 54; 142; 246; 255; 18;
     18; 108; 180; 138; 146; 117; 181; 150; 37; 133; 190; 83; 198; 89; 179;
     248; 23; 209; 41; 132; 246; 78; 32; 105; 241; 83; 192; 169; 204; 59;
     175; 242; 255; 226; 134; 119; 196; 70; 89; 42; 25; 162; 8; 123; 0; 64;
     168; 9; 132; 137; 70]%N.
  (* EM = I2OSP(ct^d mod n, k) *)
  Definition oaep256_w : bytes :=
    [0; 254; 77; 99; 215; 63; 96; 75; 128; 202; 239; 224; 123; 226; 139; 64;
     237; 232; 175; 159; 21; 37; 131; 27; 234; 79; 90; 115; 215; 93; 171; 67;
     148; 181; 105; 9; 11; 170; 154; 164; 132; 250; 6; 185; 30; 163; 145;
     251; 4; 220; 25; 204; 82; 214; 237; 142; 63; 97; 31; 168; 199; 130; 90;
     233; 203; 8; 245; 16; 176; 231; 158; 174; 60; 144; 171; 249; 111; 234;
     171; 112; 38; 134; 50; 64; 62; 110; 159; 110; 72; 250; 226; 176; 213;
     237; 60; 17; 130; 227; 145; 104; 31; 34; 134; 44; 36; 26; 249; 182; 234;
     6; 174; 137; 164; 211; 58; 252; 56; 149; 222; 87; 223; 110; 105; 86; 33;
     248; 222; 9; 128; 218; 129; 204; 109; 56; 210; 59; 112; 105; 217; 117;
     97; 217; 30; 83; 167; 55; 186; 15; 179; 162; 144; 187; 120; 35; 7; 2;
     92; 58; 198; 152; 120; 226; 88; 206; 74; 177; 219; 144; 180; 42; 157; 8;
     204; 6; 79; 15; 251; 122; 154; 206; 212; 47; 246; 115; 201; 176; 3; 55;
     222; 37; 123; 128; 85; 205; 222; 196; 26; 125; 204; 229; 131; 224; 192;
     101; 157; 180; 226; 124; 253; 199; 56; 23; 224; 26; 197; 22; 16; 12;
     141; 242; 48; 46; 252; 152; 221; 231; 41; 126; 79; 119; 157; 152; 33;
     48; 221; 39; 37; 22; 132; 206; 255; 110; 61; 55; 132; 12; 55; 199; 235;
     29; 145; 53; 128; 187; 145; 181]%N.
  Definition oaep256_label : bytes :=
    []%N.
  (* Hash(label) *)
  Definition oaep256_lhash : bytes :=
    [227; 176; 196; 66; 152; 252; 28; 20; 154; 251; 244; 200; 153; 111; 185;
     36; 39; 174; 65; 228; 100; 155; 147; 76; 164; 149; 153; 27; 120; 82;
     184; 85]%N.
  Definition oaep256_seed : bytes :=
    [101; 62; 228; 84; 221; 100; 128; 215; 192; 147; 189; 179; 43; 239; 19;
     237; 45; 150; 53; 222; 238; 196; 30; 247; 5; 226; 200; 179; 96; 81; 175;
     113]%N.
  Definition oaep256_maskeddb : bytes :=
    [181; 105; 9; 11; 170; 154; 164; 132; 250; 6; 185; 30; 163; 145; 251; 4;
     220; 25; 204; 82; 214; 237; 142; 63; 97; 31; 168; 199; 130; 90; 233;
     203; 8; 245; 16; 176; 231; 158; 174; 60; 144; 171; 249; 111; 234; 171;
     112; 38; 134; 50; 64; 62; 110; 159; 110; 72; 250; 226; 176; 213; 237;
     60; 17; 130; 227; 145; 104; 31; 34; 134; 44; 36; 26; 249; 182; 234; 6;
     174; 137; 164; 211; 58; 252; 56; 149; 222; 87; 223; 110; 105; 86; 33;
     248; 222; 9; 128; 218; 129; 204; 109; 56; 210; 59; 112; 105; 217; 117;
     97; 217; 30; 83; 167; 55; 186; 15; 179; 162; 144; 187; 120; 35; 7; 2;
     92; 58; 198; 152; 120; 226; 88; 206; 74; 177; 219; 144; 180; 42; 157; 8;
     204; 6; 79; 15; 251; 122; 154; 206; 212; 47; 246; 115; 201; 176; 3; 55;
     222; 37; 123; 128; 85; 205; 222; 196; 26; 125; 204; 229; 131; 224; 192;
     101; 157; 180; 226; 124; 253; 199; 56; 23; 224; 26; 197; 22; 16; 12;
     141; 242; 48; 46; 252; 152; 221; 231; 41; 126; 79; 119; 157; 152; 33;
     48; 221; 39; 37; 22; 132; 206; 255; 110; 61; 55; 132; 12; 55; 199; 235;
     29; 145; 53; 128; 187; 145; 181]%N.
  (* MGF1(maskedDB, hLen) *)
  Definition oaep256_seedmask : bytes :=
    [155; 115; 135; 131; 226; 4; 203; 87; 10; 124; 93; 200; 201; 100; 83; 0;
     197; 57; 170; 203; 203; 71; 5; 29; 74; 184; 187; 100; 61; 250; 236; 229]%N.
  (* MGF1(seed, k - hLen - 1) *)
  Definition oaep256_dbmask : bytes :=
    [86; 217; 205; 73; 50; 102; 184; 144; 96; 253; 77; 214; 58; 254; 66; 32;
     251; 183; 141; 182; 178; 118; 29; 115; 197; 138; 49; 220; 250; 8; 81;
     158; 8; 245; 16; 176; 231; 158; 174; 60; 144; 171; 249; 111; 234; 171;
     112; 38; 134; 50; 64; 62; 110; 159; 110; 72; 250; 226; 176; 213; 237;
     60; 17; 130; 227; 145; 104; 31; 34; 134; 44; 36; 26; 249; 182; 234; 6;
     174; 137; 164; 211; 58; 252; 56; 149; 222; 87; 223; 110; 105; 86; 33;
     248; 222; 9; 128; 218; 129; 204; 109; 56; 210; 59; 112; 105; 217; 117;
     97; 217; 30; 83; 167; 55; 186; 15; 179; 162; 144; 187; 120; 35; 7; 2;
     92; 58; 198; 152; 120; 226; 88; 206; 74; 177; 219; 144; 180; 42; 157; 8;
     204; 6; 79; 15; 251; 122; 154; 206; 212; 47; 246; 115; 201; 176; 3; 55;
     222; 37; 123; 128; 85; 205; 222; 196; 26; 125; 204; 229; 131; 224; 192;
     101; 157; 180; 226; 124; 253; 199; 56; 23; 225; 78; 173; 115; 48; 125;
     248; 155; 83; 69; 220; 250; 175; 136; 94; 16; 111; 17; 242; 224; 1; 90;
     168; 74; 85; 101; 164; 161; 137; 11; 79; 23; 240; 100; 82; 231; 135;
     124; 235; 76; 160; 223; 254; 210]%N.
  Definition oaep256_H := tbl_hash [(oaep256_label, oaep256_lhash)].
  Definition oaep256_mgf := tbl_mgf [(oaep256_maskeddb, 32, oaep256_seedmask); (oaep256_seed, 223, oaep256_dbmask)].
  Example oaep256_decode :
    eme_oaep_decode oaep256_H 32 oaep256_mgf oaep256_label oaep256_w 256 = Some k2_msg.
  Proof. vm_compute; reflexivity. Qed.
  Example oaep256_decrypt_w :
    rsaes_oaep_decrypt_w B oaep256_H 32 oaep256_mgf oaep256_label k2_n k2_e oaep256_ct oaep256_w = Some k2_msg.
  Proof. vm_compute; reflexivity. Qed.
  Example oaep256_encrypt :
    rsaes_oaep_encrypt B oaep256_H 32 oaep256_mgf oaep256_label k2_n k2_e k2_msg oaep256_seed = Some oaep256_ct.
  Proof. vm_compute; reflexivity. Qed.
  Example oaep256_decode_bad_y :
    eme_oaep_decode oaep256_H 32 oaep256_mgf oaep256_label (1 :: tl oaep256_w) 256 = None.
  Proof. vm_compute; reflexivity. Qed.
  Example oaep256_decode_wrong_k :
    eme_oaep_decode oaep256_H 32 oaep256_mgf oaep256_label oaep256_w 255 = None.
  Proof. vm_compute; reflexivity. Qed.
  Example oaep256_decode_wrong_label :
    eme_oaep_decode (fun _ => repeatN 0 32) 32 oaep256_mgf [1] oaep256_w 256 = None.
  Proof. vm_compute; reflexivity. Qed.
  Example oaep256_decrypt_bad_witness :
    rsaes_oaep_decrypt_w B oaep256_H 32 oaep256_mgf oaep256_label k2_n k2_e oaep256_ct (removelast oaep256_w ++ [N.lxor (last oaep256_w 0) 1]) = None.
  Proof. vm_compute; reflexivity. Qed.
  Example oaep256_encrypt_long_msg :
    rsaes_oaep_encrypt B oaep256_H 32 oaep256_mgf oaep256_label k2_n k2_e (repeatN 65 191) oaep256_seed = None.
  Proof. vm_compute; reflexivity. Qed.

  (* OAEP, sha1 (MGF1 with the same hash), label b'label': `openssl pkeyutl -encrypt -pkeyopt rsa_padding_mode:oaep -pkeyopt rsa_oaep_md:sha1`; w = c^d mod n by python pow(); seed and masks recovered with python *)
  Definition oaep1_ct : bytes :=
    [97; 77; 88; 241; 43; 118; 216; 55; 181; 124; 1; 111; 132; 116; 180; 206;
     21; 223; 55; 126; 183; 67; 140; 156; 182; 104; 49; 75; 181; 93; 19; 142;
     166; 180; 77; 248; 20; 95; 238; 233; 51; 4; 73; 247; 239; 170; 4; 16;
     87; 132; 127; 162; 252; 166; 176; 81; 246; 218; 250; 140; 97; 202; 206;
     39; 122; 219; 26; 179; 166; 87; 21; 82; 189; 108; 58; 143; 137; 150;
     228; 151; 174; 49; 16; 63; 78; 8; 184; 11; 57; 69; 244; 61; 179; 247;
     115; 153; 245; 21; 183; 40; 221; 113; 44; 88; 108; 229; 182; 120; 65;
     172; 240; 113; 203; 171; 166; 14; 193; 16; 14; 194; 226; 210; 3; 26; 14;
     12; 189; 200; 202; 218; 254; 139; 162; 57; 64; 97; 128; 165; 157; 14;
     152; 22; 25; 23; 91; 192; 67; 85; 48; 240; 11; 52; 130; 55; 51; 125;
     176; 78; 47; 198; 181; 22; 105; 92; 185; 118; 28; 11; 123; 212; 200;
     187; 166; 43; 158; 108; 131; 139; 167; 119; 40; 30; 46; 63; 108; 129;
     77; 198; 178; 27; 50; 211; 198; 169; 230; 239; 25; 94; 204; 12; 136; 2;
     96; 173; 232; 2; 7; 60; 84; 118; 110; 121; 8; 150; 75; 254; 19; 18; 16;
     30; 91; 243; 114; 74; 169; 201; 123; 142; 66; 220; 126; 74; 105; 240;
     157; 8; 95; 237; 76; 86; 44; 136; 122; 154; 44; 13; 49; 66; 188; 239;
     86; 27; 126; 42; 206; 239]%N.
  (* EM = I2OSP(ct^d mod n, k) *)
  Definition oaep1_w : bytes :=
    [0; 170; 120; 41; 237; 14; 5; 214; 242; 5; 102; 157; 252; 124; 44; 110;
     221; 202; 133; 203; 205; 40; 175; 205; 250; 220; 152; 133; 205; 111;
     111; 71; 195; 164; 231; 187; 255; 83; 67; 171; 138; 104; 233; 52; 47;
     118; 98; 197; 187; 179; 2; 175; 223; 7; 222; 182; 136; 89; 44; 17; 153;
     60; 163; 239; 206; 232; 25; 29; 164; 222; 190; 208; 223; 33; 99; 83;
     115; 116; 166; 199; 215; 147; 90; 226; 143; 210; 76; 212; 202; 27; 17;
     167; 205; 238; 203; 182; 195; 107; 100; 146; 47; 152; 182; 91; 227; 124;
     24; 128; 191; 243; 221; 1; 255; 28; 59; 225; 49; 211; 190; 104; 163; 49;
     45; 183; 62; 139; 154; 240; 2; 50; 113; 155; 88; 223; 147; 95; 157; 36;
     113; 210; 177; 255; 155; 125; 142; 126; 149; 169; 39; 61; 0; 160; 124;
     192; 85; 41; 108; 10; 156; 149; 123; 72; 199; 67; 139; 26; 89; 60; 49;
     90; 120; 137; 147; 142; 161; 1; 73; 80; 211; 33; 137; 204; 225; 8; 162;
     166; 250; 51; 35; 116; 122; 243; 53; 128; 143; 204; 64; 14; 174; 190;
     71; 12; 68; 156; 47; 228; 12; 230; 254; 29; 119; 112; 103; 243; 6; 231;
     111; 166; 167; 198; 99; 179; 249; 15; 126; 216; 58; 157; 2; 63; 246;
     188; 219; 213; 169; 111; 77; 10; 13; 255; 137; 195; 199; 159; 198; 130;
     90; 151; 80; 160; 15; 112; 92; 209; 187; 129]%N.
  Definition oaep1_label : bytes :=
    [108; 97; 98; 101; 108]%N.
  (* Hash(label) *)
  Definition oaep1_lhash : bytes :=
    [100; 198; 83; 116; 219; 171; 111; 227; 118; 39; 72; 25; 109; 157; 58;
     150; 16; 226; 229; 169]%N.
  Definition oaep1_seed : bytes :=
    [143; 59; 115; 25; 172; 45; 96; 22; 183; 115; 221; 197; 39; 39; 200; 182;
     67; 89; 88; 236]%N.
  Definition oaep1_maskeddb : bytes :=
    [40; 175; 205; 250; 220; 152; 133; 205; 111; 111; 71; 195; 164; 231; 187;
     255; 83; 67; 171; 138; 104; 233; 52; 47; 118; 98; 197; 187; 179; 2; 175;
     223; 7; 222; 182; 136; 89; 44; 17; 153; 60; 163; 239; 206; 232; 25; 29;
     164; 222; 190; 208; 223; 33; 99; 83; 115; 116; 166; 199; 215; 147; 90;
     226; 143; 210; 76; 212; 202; 27; 17; 167; 205; 238; 203; 182; 195; 107;
     100; 146; 47; 152; 182; 91; 227; 124; 24; 128; 191; 243; 221; 1; 255;
     28; 59; 225; 49; 211; 190; 104; 163; 49; 45; 183; 62; 139; 154; 240; 2;
     50; 113; 155; 88; 223; 147; 95; 157; 36; 113; 210; 177; 255; 155; 125;
     142; 126; 149; 169; 39; 61; 0; 160; 124; 192; 85; 41; 108; 10; 156; 149;
     123; 72; 199; 67; 139; 26; 89; 60; 49; 90; 120; 137; 147; 142; 161; 1;
     73; 80; 211; 33; 137; 204; 225; 8; 162; 166; 250; 51; 35; 116; 122; 243;
     53; 128; 143; 204; 64; 14; 174; 190; 71; 12; 68; 156; 47; 228; 12; 230;
     254; 29; 119; 112; 103; 243; 6; 231; 111; 166; 167; 198; 99; 179; 249;
     15; 126; 216; 58; 157; 2; 63; 246; 188; 219; 213; 169; 111; 77; 10; 13;
     255; 137; 195; 199; 159; 198; 130; 90; 151; 80; 160; 15; 112; 92; 209;
     187; 129]%N.
  (* MGF1(maskedDB, hLen) *)
  Definition oaep1_seedmask : bytes :=
    [37; 67; 90; 244; 162; 40; 182; 228; 178; 21; 64; 57; 91; 11; 166; 107;
     137; 220; 147; 33]%N.
  (* MGF1(seed, k - hLen - 1) *)
  Definition oaep1_dbmask : bytes :=
    [76; 105; 158; 142; 7; 51; 234; 46; 25; 72; 15; 218; 201; 122; 129; 105;
     67; 161; 78; 35; 104; 233; 52; 47; 118; 98; 197; 187; 179; 2; 175; 223;
     7; 222; 182; 136; 89; 44; 17; 153; 60; 163; 239; 206; 232; 25; 29; 164;
     222; 190; 208; 223; 33; 99; 83; 115; 116; 166; 199; 215; 147; 90; 226;
     143; 210; 76; 212; 202; 27; 17; 167; 205; 238; 203; 182; 195; 107; 100;
     146; 47; 152; 182; 91; 227; 124; 24; 128; 191; 243; 221; 1; 255; 28; 59;
     225; 49; 211; 190; 104; 163; 49; 45; 183; 62; 139; 154; 240; 2; 50; 113;
     155; 88; 223; 147; 95; 157; 36; 113; 210; 177; 255; 155; 125; 142; 126;
     149; 169; 39; 61; 0; 160; 124; 192; 85; 41; 108; 10; 156; 149; 123; 72;
     199; 67; 139; 26; 89; 60; 49; 90; 120; 137; 147; 142; 161; 1; 73; 80;
     211; 33; 137; 204; 225; 8; 162; 166; 250; 51; 35; 116; 122; 243; 53;
     128; 143; 204; 64; 14; 174; 190; 71; 12; 68; 156; 47; 228; 12; 230; 254;
     29; 119; 112; 102; 167; 110; 130; 79; 215; 210; 175; 0; 216; 217; 109;
     12; 183; 77; 243; 34; 89; 153; 196; 251; 191; 220; 2; 61; 121; 45; 144;
     255; 166; 181; 191; 178; 234; 63; 183; 60; 193; 117; 9; 124; 181; 212;
     230]%N.
  Definition oaep1_H := tbl_hash [(oaep1_label, oaep1_lhash)].
  Definition oaep1_mgf := tbl_mgf [(oaep1_maskeddb, 20, oaep1_seedmask); (oaep1_seed, 235, oaep1_dbmask)].
  Example oaep1_decode :
    eme_oaep_decode oaep1_H 20 oaep1_mgf oaep1_label oaep1_w 256 = Some k2_msg.
  Proof. vm_compute; reflexivity. Qed.
  Example oaep1_decrypt_w :
    rsaes_oaep_decrypt_w B oaep1_H 20 oaep1_mgf oaep1_label k2_n k2_e oaep1_ct oaep1_w = Some k2_msg.
  Proof. vm_compute; reflexivity. Qed.
  Example oaep1_encrypt :
    rsaes_oaep_encrypt B oaep1_H 20 oaep1_mgf oaep1_label k2_n k2_e k2_msg oaep1_seed = Some oaep1_ct.
  Proof. vm_compute; reflexivity. Qed.

  (* RSAES-PKCS1-v1_5: `openssl pkeyutl -encrypt -pkeyopt rsa_padding_mode:pkcs1`; w = c^d mod n and PS recovered with python *)
  Definition v15_ct : bytes :=
    [50; 23; 78; 129; 114; 203; 223; 149; 82; 203; 174; 163; 22; 219; 48; 173;
     64; 10; 14; 44; 248; 247; 173; 97; 147; 7; 166; 52; 203; 86; 114; 173;
     26; 60; 151; 210; 231; 234; 65; 106; 156; 39; 65; 0; 68; 241; 236; 9;
     215; 234; 190; 167; 139; 123; 106; 124; 110; 140; 217; 208; 147; 70;
     120; 91; 163; 153; 149; 185; 238; 191; 76; 42; 71; 62; 251; 3; 160; 178;
     219; 81; 1; 247; 98; 45; 189; 249; 137; 27; 87; 62; 96; 31; 64; 137; 50;
     112; 35; 26; 26; 132; 12; 66; 2; 233; 148; 219; 64; 212; 193; 124; 43;
     136; 169; 7; 146; 147; 14; 107; 160; 65; 13; 163; 32; 180; 226; 116;
     192; 217; 164; 192; 196; 116; 181; 226; 30; 10; 33; 134; 54; 198; 47;
     62; 69; 60; 165; 233; 43; 167; 254; 98; 187; 153; 168; 117; 206; 230;
     133; 157; 204; 111; 82; 34; 14; 177; 183; 60; 206; 63; 225; 32; 209;
     234; 161; 224; 200; 5; 1; 25; 94; 188; 111; 166; 43; 58; 72; 166; 138;
     252; 139; 243; 28; 195; 115; 42; 184; 166; 198; 130; 52; 48; 68; 26;
     171; 118; 24; 5; 229; 6; 148; 68; 161; 219; 157; 160; 119; 125; 130; 6;
     145; 26; 4; 129; 20; 234; 67; 107; 142; 131; 205; 197; 222; 18; 106;
     215; 167; 161; 87; 242; 35; 185; 238; 251; 227; 247; 62; 83; 55; 151;
     117; 235; 131; 138; 151; 195; 96; 177]%N.
  Definition v15_w : bytes :=
    [0; 2; 11; 61; 102; 128; 98; 168; 216; 52; 8; 235; 116; 72; 187; 179; 200;
     129; 93; 6; 36; 162; 167; 149; 166; 148; 34; 237; 19; 102; 181; 88; 103;
     202; 169; 156; 206; 241; 131; 119; 99; 225; 68; 2; 253; 216; 154; 203;
     130; 237; 249; 199; 177; 71; 151; 51; 87; 4; 175; 138; 157; 6; 155; 225;
     85; 133; 36; 218; 4; 77; 29; 225; 158; 187; 45; 174; 116; 243; 4; 80;
     134; 2; 218; 7; 206; 84; 36; 210; 43; 220; 190; 138; 6; 210; 204; 234;
     104; 82; 177; 66; 196; 205; 143; 137; 156; 41; 22; 6; 165; 13; 226; 49;
     185; 191; 126; 72; 151; 254; 240; 147; 142; 230; 103; 72; 136; 11; 132;
     64; 204; 198; 156; 42; 188; 157; 89; 105; 136; 46; 114; 226; 168; 50;
     178; 244; 207; 110; 177; 25; 44; 130; 30; 45; 83; 209; 122; 215; 81; 36;
     231; 182; 60; 34; 255; 67; 252; 249; 134; 221; 84; 224; 88; 231; 116;
     41; 240; 26; 29; 49; 61; 190; 112; 223; 109; 38; 98; 234; 246; 148; 215;
     55; 102; 35; 24; 105; 161; 48; 196; 237; 94; 178; 238; 78; 39; 40; 225;
     106; 94; 208; 126; 195; 163; 32; 0; 84; 104; 101; 32; 113; 117; 105; 99;
     107; 32; 98; 114; 111; 119; 110; 32; 102; 111; 120; 32; 106; 117; 109;
     112; 115; 32; 111; 118; 101; 114; 32; 116; 104; 101; 32; 108; 97; 122;
     121; 32; 100; 111; 103]%N.
  Definition v15_ps : bytes :=
    [11; 61; 102; 128; 98; 168; 216; 52; 8; 235; 116; 72; 187; 179; 200; 129;
     93; 6; 36; 162; 167; 149; 166; 148; 34; 237; 19; 102; 181; 88; 103; 202;
     169; 156; 206; 241; 131; 119; 99; 225; 68; 2; 253; 216; 154; 203; 130;
     237; 249; 199; 177; 71; 151; 51; 87; 4; 175; 138; 157; 6; 155; 225; 85;
     133; 36; 218; 4; 77; 29; 225; 158; 187; 45; 174; 116; 243; 4; 80; 134;
     2; 218; 7; 206; 84; 36; 210; 43; 220; 190; 138; 6; 210; 204; 234; 104;
     82; 177; 66; 196; 205; 143; 137; 156; 41; 22; 6; 165; 13; 226; 49; 185;
     191; 126; 72; 151; 254; 240; 147; 142; 230; 103; 72; 136; 11; 132; 64;
     204; 198; 156; 42; 188; 157; 89; 105; 136; 46; 114; 226; 168; 50; 178;
     244; 207; 110; 177; 25; 44; 130; 30; 45; 83; 209; 122; 215; 81; 36; 231;
     182; 60; 34; 255; 67; 252; 249; 134; 221; 84; 224; 88; 231; 116; 41;
     240; 26; 29; 49; 61; 190; 112; 223; 109; 38; 98; 234; 246; 148; 215; 55;
     102; 35; 24; 105; 161; 48; 196; 237; 94; 178; 238; 78; 39; 40; 225; 106;
     94; 208; 126; 195; 163; 32]%N.
  Example v15_decode :
    eme_pkcs1_v15_decode v15_w = Some k2_msg.
  Proof. vm_compute; reflexivity. Qed.
  Example v15_decrypt_w :
    rsaes_pkcs1_v15_decrypt_w B k2_n k2_e v15_ct v15_w = Some k2_msg.
  Proof. vm_compute; reflexivity. Qed.
  Example v15_encrypt :
    rsaes_pkcs1_v15_encrypt B k2_n k2_e k2_msg v15_ps = Some v15_ct.
  Proof. vm_compute; reflexivity. Qed.
  Example v15_decrypt_wrong_witness :
    rsaes_pkcs1_v15_decrypt_w B k2_n k2_e v15_ct oaep256_w = None.
  Proof. vm_compute; reflexivity. Qed.
  Example v15_decrypt_ct_ge_n :
    rsaes_pkcs1_v15_decrypt_w B k2_n k2_e (repeatN 0xff 256) v15_w = None.
  Proof. vm_compute; reflexivity. Qed.
  (* RSAEP refuses a representative that is not below n *)
  Example rsaep_out_of_range :
    rsaep B (of_bytes B k2_n) (of_bytes B k2_e) (of_bytes B k2_n) = None.
  Proof. vm_compute; reflexivity. Qed.
End RsaExamples.
