(* Hmac: HMAC (FIPS 198-1 / RFC 2104) over the hash functions of Sha.v.

   The keyed inner and outer hash states (after absorbing K0 xor ipad and
   K0 xor opad, one block each) are exposed as [hmac_keyed] so that callers
   performing many HMACs under one key (PBKDF2) compute them once. *)
From JoseV Require Import Base.Bytes.
From JoseV Require Export Crypto.Sha.
Local Open Scope N_scope.

(* K0: the key brought to exactly one block (step 1-3 of FIPS 198-1) *)
Definition hmac_key_block (h : hname) (key : bytes) : bytes :=
  let k := if block_len h <? nlen key then hash h key else key in
  k ++ repeatN 0 (block_len_nat h - length k).

Definition xor_pad (pad : N) (k0 : bytes) : bytes := map (N.lxor pad) k0.

(* (inner state, outer state): hash states after the ipad / opad block *)
Definition hmac_keyed (h : hname) (key : bytes) : hstate * hstate :=
  let k0 := hmac_key_block h key in
  (hash_update (hash_init h) (xor_pad 0x36 k0),
   hash_update (hash_init h) (xor_pad 0x5c k0)).

Definition hmac_with (ks : hstate * hstate) (msg : bytes) : bytes :=
  let '(si, so) := ks in
  hash_final (hash_update so (hash_final (hash_update si msg))).

Definition hmac (h : hname) (key msg : bytes) : bytes :=
  hmac_with (hmac_keyed h key) msg.

(* the textbook formula H((K0 xor opad) || H((K0 xor ipad) || text)) *)
Lemma hmac_spec h key msg :
  hmac h key msg =
  let k0 := hmac_key_block h key in
  hash h (xor_pad 0x5c k0 ++ hash h (xor_pad 0x36 k0 ++ msg)).
Proof.
  unfold hmac, hmac_with, hmac_keyed, hash.
  rewrite !hash_update_app. reflexivity.
Qed.

(* ------------------------------------------------------------------ *)
(* Test vectors: RFC 4231 (SHA-2) cases 1,2,3,4,6,7; RFC 2202 (SHA-1)  *)
From Coq Require Import String.
From JoseV Require Import Crypto.Hex.

Example rfc4231_1_sha224 :
  hmac SHA224 (repeatN 0x0b 20)
    (str "Hi There") =
  hex "896fb1128abbdf196832107cd49df33f47b4b1169912ba4f53684b22".
Proof. vm_compute; reflexivity. Qed.
Example rfc4231_1_sha256 :
  hmac SHA256 (repeatN 0x0b 20)
    (str "Hi There") =
  hex "b0344c61d8db38535ca8afceaf0bf12b881dc200c9833da726e9376c2e32cff7".
Proof. vm_compute; reflexivity. Qed.
Example rfc4231_1_sha384 :
  hmac SHA384 (repeatN 0x0b 20)
    (str "Hi There") =
  hex "afd03944d84895626b0825f4ab46907f15f9dadbe4101ec682aa034c7cebc59cfaea9ea9076ede7f4af152e8b2fa9cb6".
Proof. vm_compute; reflexivity. Qed.
Example rfc4231_1_sha512 :
  hmac SHA512 (repeatN 0x0b 20)
    (str "Hi There") =
  hex "87aa7cdea5ef619d4ff0b4241a1d6cb02379f4e2ce4ec2787ad0b30545e17cdedaa833b7d6b8a702038b274eaea3f4e4be9d914eeb61f1702e696c203a126854".
Proof. vm_compute; reflexivity. Qed.
Example rfc4231_2_sha224 :
  hmac SHA224 (str "Jefe")
    (str "what do ya want for nothing?") =
  hex "a30e01098bc6dbbf45690f3a7e9e6d0f8bbea2a39e6148008fd05e44".
Proof. vm_compute; reflexivity. Qed.
Example rfc4231_2_sha256 :
  hmac SHA256 (str "Jefe")
    (str "what do ya want for nothing?") =
  hex "5bdcc146bf60754e6a042426089575c75a003f089d2739839dec58b964ec3843".
Proof. vm_compute; reflexivity. Qed.
Example rfc4231_2_sha384 :
  hmac SHA384 (str "Jefe")
    (str "what do ya want for nothing?") =
  hex "af45d2e376484031617f78d2b58a6b1b9c7ef464f5a01b47e42ec3736322445e8e2240ca5e69e2c78b3239ecfab21649".
Proof. vm_compute; reflexivity. Qed.
Example rfc4231_2_sha512 :
  hmac SHA512 (str "Jefe")
    (str "what do ya want for nothing?") =
  hex "164b7a7bfcf819e2e395fbe73b56e0a387bd64222e831fd610270cd7ea2505549758bf75c05a994a6d034f65f8f0e6fdcaeab1a34d4a6b4b636e070a38bce737".
Proof. vm_compute; reflexivity. Qed.
Example rfc4231_3_sha224 :
  hmac SHA224 (repeatN 0xaa 20)
    (repeatN 0xdd 50) =
  hex "7fb3cb3588c6c1f6ffa9694d7d6ad2649365b0c1f65d69d1ec8333ea".
Proof. vm_compute; reflexivity. Qed.
Example rfc4231_3_sha256 :
  hmac SHA256 (repeatN 0xaa 20)
    (repeatN 0xdd 50) =
  hex "773ea91e36800e46854db8ebd09181a72959098b3ef8c122d9635514ced565fe".
Proof. vm_compute; reflexivity. Qed.
Example rfc4231_3_sha384 :
  hmac SHA384 (repeatN 0xaa 20)
    (repeatN 0xdd 50) =
  hex "88062608d3e6ad8a0aa2ace014c8a86f0aa635d947ac9febe83ef4e55966144b2a5ab39dc13814b94e3ab6e101a34f27".
Proof. vm_compute; reflexivity. Qed.
Example rfc4231_3_sha512 :
  hmac SHA512 (repeatN 0xaa 20)
    (repeatN 0xdd 50) =
  hex "fa73b0089d56a284efb0f0756c890be9b1b5dbdd8ee81a3655f83e33b2279d39bf3e848279a722c806b485a47e67c807b946a337bee8942674278859e13292fb".
Proof. vm_compute; reflexivity. Qed.
Example rfc4231_4_sha224 :
  hmac SHA224 (hex "0102030405060708090a0b0c0d0e0f10111213141516171819")
    (repeatN 0xcd 50) =
  hex "6c11506874013cac6a2abc1bb382627cec6a90d86efc012de7afec5a".
Proof. vm_compute; reflexivity. Qed.
Example rfc4231_4_sha256 :
  hmac SHA256 (hex "0102030405060708090a0b0c0d0e0f10111213141516171819")
    (repeatN 0xcd 50) =
  hex "82558a389a443c0ea4cc819899f2083a85f0faa3e578f8077a2e3ff46729665b".
Proof. vm_compute; reflexivity. Qed.
Example rfc4231_4_sha384 :
  hmac SHA384 (hex "0102030405060708090a0b0c0d0e0f10111213141516171819")
    (repeatN 0xcd 50) =
  hex "3e8a69b7783c25851933ab6290af6ca77a9981480850009cc5577c6e1f573b4e6801dd23c4a7d679ccf8a386c674cffb".
Proof. vm_compute; reflexivity. Qed.
Example rfc4231_4_sha512 :
  hmac SHA512 (hex "0102030405060708090a0b0c0d0e0f10111213141516171819")
    (repeatN 0xcd 50) =
  hex "b0ba465637458c6990e5a8c5f61d4af7e576d97ff94b872de76f8050361ee3dba91ca5c11aa25eb4d679275cc5788063a5f19741120c4f2de2adebeb10a298dd".
Proof. vm_compute; reflexivity. Qed.
Example rfc4231_6_sha224 :
  hmac SHA224 (repeatN 0xaa 131)
    (str "Test Using Larger Than Block-Size Key - Hash Key First") =
  hex "95e9a0db962095adaebe9b2d6f0dbce2d499f112f2d2b7273fa6870e".
Proof. vm_compute; reflexivity. Qed.
Example rfc4231_6_sha256 :
  hmac SHA256 (repeatN 0xaa 131)
    (str "Test Using Larger Than Block-Size Key - Hash Key First") =
  hex "60e431591ee0b67f0d8a26aacbf5b77f8e0bc6213728c5140546040f0ee37f54".
Proof. vm_compute; reflexivity. Qed.
Example rfc4231_6_sha384 :
  hmac SHA384 (repeatN 0xaa 131)
    (str "Test Using Larger Than Block-Size Key - Hash Key First") =
  hex "4ece084485813e9088d2c63a041bc5b44f9ef1012a2b588f3cd11f05033ac4c60c2ef6ab4030fe8296248df163f44952".
Proof. vm_compute; reflexivity. Qed.
Example rfc4231_6_sha512 :
  hmac SHA512 (repeatN 0xaa 131)
    (str "Test Using Larger Than Block-Size Key - Hash Key First") =
  hex "80b24263c7c1a3ebb71493c1dd7be8b49b46d1f41b4aeec1121b013783f8f3526b56d037e05f2598bd0fd2215d6a1e5295e64f73f63f0aec8b915a985d786598".
Proof. vm_compute; reflexivity. Qed.
Example rfc4231_7_sha224 :
  hmac SHA224 (repeatN 0xaa 131)
    (str "This is a test using a larger than block-size key and a larger than block-size data. The key needs to be hashed before being used by the HMAC algorithm.") =
  hex "3a854166ac5d9f023f54d517d0b39dbd946770db9c2b95c9f6f565d1".
Proof. vm_compute; reflexivity. Qed.
Example rfc4231_7_sha256 :
  hmac SHA256 (repeatN 0xaa 131)
    (str "This is a test using a larger than block-size key and a larger than block-size data. The key needs to be hashed before being used by the HMAC algorithm.") =
  hex "9b09ffa71b942fcb27635fbcd5b0e944bfdc63644f0713938a7f51535c3a35e2".
Proof. vm_compute; reflexivity. Qed.
Example rfc4231_7_sha384 :
  hmac SHA384 (repeatN 0xaa 131)
    (str "This is a test using a larger than block-size key and a larger than block-size data. The key needs to be hashed before being used by the HMAC algorithm.") =
  hex "6617178e941f020d351e2f254e8fd32c602420feb0b8fb9adccebb82461e99c5a678cc31e799176d3860e6110c46523e".
Proof. vm_compute; reflexivity. Qed.
Example rfc4231_7_sha512 :
  hmac SHA512 (repeatN 0xaa 131)
    (str "This is a test using a larger than block-size key and a larger than block-size data. The key needs to be hashed before being used by the HMAC algorithm.") =
  hex "e37b6a775dc87dbaa4dfa9f96e5e3ffddebd71f8867289865df5a32d20cdc944b6022cac3c4982b10d5eeb55c3e4de15134676fb6de0446065c97440fa8c6a58".
Proof. vm_compute; reflexivity. Qed.
Example rfc2202_sha1_1 :
  hmac SHA1 (repeatN 0x0b 20)
    (str "Hi There") =
  hex "b617318655057264e28bc0b6fb378c8ef146be00".
Proof. vm_compute; reflexivity. Qed.
Example rfc2202_sha1_2 :
  hmac SHA1 (str "Jefe")
    (str "what do ya want for nothing?") =
  hex "effcdf6ae5eb2fa2d27416d5f184df9c259a7c79".
Proof. vm_compute; reflexivity. Qed.
Example rfc2202_sha1_3 :
  hmac SHA1 (repeatN 0xaa 20)
    (repeatN 0xdd 50) =
  hex "125d7342b9ac11cd91a39af48aa17b4f63f175d3".
Proof. vm_compute; reflexivity. Qed.
Example rfc2202_sha1_6 :
  hmac SHA1 (repeatN 0xaa 80)
    (str "Test Using Larger Than Block-Size Key - Hash Key First") =
  hex "aa4ae5e15272d00e95705637ce8a3b55ed402112".
Proof. vm_compute; reflexivity. Qed.
Example rfc2202_sha1_7 :
  hmac SHA1 (repeatN 0xaa 80)
    (str "Test Using Larger Than Block-Size Key and Larger Than One Block-Size Data") =
  hex "e8e99d0f45237d786d6bbaa7965c7808bbff1a91".
Proof. vm_compute; reflexivity. Qed.
