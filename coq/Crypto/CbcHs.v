(* AES_CBC_HMAC_SHA2 (RFC 7518 section 5.2.2).

   The MAC is a parameter: instantiate [mac] with HMAC-SHA-256/384/512 and
   [taglen] with 16/24/32 for A128CBC-HS256 / A192CBC-HS384 / A256CBC-HS512.

     K        = MAC_KEY || ENC_KEY          (two halves of equal length)
     E        = AES-CBC-PKCS7(ENC_KEY, IV, P)
     AL       = 64-bit big-endian number of bits in A
     T        = first taglen bytes of MAC(MAC_KEY, A || IV || E || AL)

   Key/IV lengths are not checked here (ENC_KEY must be 16/24/32 bytes, IV 16):
   cbchs_decrypt returns None for a malformed ENC_KEY since cbc_decrypt does. *)
From JoseV Require Import Base.Bytes.
From JoseV Require Import Crypto.Aes.
From JoseV Require Import Crypto.Cbc.
Local Open Scope N_scope.

Definition cbchs_mac_key (key : bytes) : bytes := take (Nat.div (length key) 2) key.
Definition cbchs_enc_key (key : bytes) : bytes := drop (Nat.div (length key) 2) key.

Definition cbchs_al (aad : bytes) : bytes := be_of_N 8 (8 * N.of_nat (length aad)).

Definition cbchs_tag (mac : bytes -> bytes -> bytes) (taglen : N) (key iv aad ct : bytes) : bytes :=
  take (N.to_nat taglen) (mac (cbchs_mac_key key) (aad ++ iv ++ ct ++ cbchs_al aad)).

Definition cbchs_encrypt (mac : bytes -> bytes -> bytes) (taglen : N)
           (key iv aad pt : bytes) : bytes * bytes :=
  let ct := cbc_encrypt (cbchs_enc_key key) iv pt in
  (ct, cbchs_tag mac taglen key iv aad ct).

(* None if the tag is not exactly taglen bytes, does not match, or the CBC
   decryption / padding check fails *)
Definition cbchs_decrypt (mac : bytes -> bytes -> bytes) (taglen : N)
           (key iv aad ct tag : bytes) : option bytes :=
  if (N.of_nat (length tag) =? taglen) && bytes_eqb tag (cbchs_tag mac taglen key iv aad ct)
  then cbc_decrypt (cbchs_enc_key key) iv ct
  else None.

Module CbcHsTest.

(* ------------------------------------------------------------------ *)
(* Tests: RFC 7518 Appendix B.  HMAC is not available here, so two      *)
(* stand-ins are used:                                                  *)
(*  - a recording "mac" k m = k ++ m, which shows exactly which key and *)
(*    which byte string the composite hands to the MAC;                 *)
(*  - a one-point table holding the genuine HMAC-SHA-256 output for the *)
(*    B.1 input (computed with python hmac/hashlib), to exercise tag    *)
(*    truncation and verification with the RFC's T.                     *)
(* ------------------------------------------------------------------ *)

Definition b_key (n : nat) : bytes := map N.of_nat (seq 0 n).   (* 00 01 02 ... *)
Definition b_iv : bytes := hexN 16 0x1af38c2dc2b96ffdd86694092341bc04.
(* "A cipher system must not be required to be secret, and it must be able to
    fall into the hands of the enemy without inconvenience" *)
Definition b_pt : bytes :=
  hexN 128 0x41206369706865722073797374656d206d757374206e6f7420626520726571756972656420746f206265207365637265742c20616e64206974206d7573742062652061626c6520746f2066616c6c20696e746f207468652068616e6473206f662074686520656e656d7920776974686f757420696e636f6e76656e69656e6365.
(* "The second principle of Auguste Kerckhoffs" *)
Definition b_aad : bytes :=
  hexN 42 0x546865207365636f6e64207072696e6369706c65206f662041756775737465204b6572636b686f666673.
Definition b_al : bytes := hexN 8 0x0000000000000150.

Definition b1_ct : bytes :=
  hexN 144 0xc80edfa32ddf39d5ef00c0b468834279a2e46a1b8049f792f76bfe54b903a9c9a94ac9b47ad2655c5f10f9aef71427e2fc6f9b3f399a221489f16362c703233609d45ac69864e3321cf82935ac4096c86e133314c54019e8ca7980dfa4b9cf1b384c486f3a54c51078158ee5d79de59fbd34d848b3d69550a67646344427ade54b8851ffb598f7f80074b9473c82e2db.
Definition b2_ct : bytes :=
  hexN 144 0xea65da6b59e61edb419be62d19712ae5d303eeb50052d0dfd6697f77224c8edb000d279bdc14c1072654bd30944230c657bed4ca0c9f4a8466f22b226d1746214bf8cfc2400add9f5126e479663fc90b3bed787a2f0ffcbf3904be2a641d5c2105bfe591bae23b1d7449e532eef60a9ac8bb6c6b01d35d49787bcd57ef484927f280adc91ac0c4e79c7b11efc60054e3.
Definition b3_ct : bytes :=
  hexN 144 0x4affaaadb78c31c5da4b1b590d10ffbd3dd8d5d302423526912da037ecbcc7bd822c301dd67c373bccb584ad3e9279c2e6d12a1374b77f077553df829410446b36ebd97066296ae6427ea75c2e0846a11a09ccf5370dc80bfecbad28c73f09b3a3b75e662a2594410ae496b2e2e6609e31e6e02cc837f053d21f37ff4f51950bbe2638d09dd7a4930930806d0703b1f6.

Definition rec_mac (k m : bytes) : bytes := k ++ m.

(* E, and (MAC_KEY, A || IV || E || AL) as handed to the MAC *)
Example rfc7518_b1_structure :
  cbchs_encrypt rec_mac 1000 (b_key 32) b_iv b_aad b_pt
  = (b1_ct, take 16 (b_key 32) ++ b_aad ++ b_iv ++ b1_ct ++ b_al).
Proof. vm_compute; reflexivity. Qed.
Example rfc7518_b2_structure :
  cbchs_encrypt rec_mac 1000 (b_key 48) b_iv b_aad b_pt
  = (b2_ct, take 24 (b_key 48) ++ b_aad ++ b_iv ++ b2_ct ++ b_al).
Proof. vm_compute; reflexivity. Qed.
Example rfc7518_b3_structure :
  cbchs_encrypt rec_mac 1000 (b_key 64) b_iv b_aad b_pt
  = (b3_ct, take 32 (b_key 64) ++ b_aad ++ b_iv ++ b3_ct ++ b_al).
Proof. vm_compute; reflexivity. Qed.

(* HMAC-SHA-256(00..0f, A || IV || E || AL), all 32 bytes (RFC 7518 B.1 "M") *)
Definition b1_m : bytes :=
  hexN 32 0x652c3fa36b0a7c5b3219fab3a30bc1c4e6e54582476515f0ad9f75a2b71c73ef.
Definition b1_t : bytes := hexN 16 0x652c3fa36b0a7c5b3219fab3a30bc1c4.
Definition tab_mac (k m : bytes) : bytes :=
  if bytes_eqb k (take 16 (b_key 32)) && bytes_eqb m (b_aad ++ b_iv ++ b1_ct ++ b_al)
  then b1_m else [].

Example rfc7518_b1_encrypt :
  cbchs_encrypt tab_mac 16 (b_key 32) b_iv b_aad b_pt = (b1_ct, b1_t).
Proof. vm_compute; reflexivity. Qed.
Example rfc7518_b1_decrypt :
  cbchs_decrypt tab_mac 16 (b_key 32) b_iv b_aad b1_ct b1_t = Some b_pt.
Proof. vm_compute; reflexivity. Qed.
Example cbchs_decrypt_rejects :
  (cbchs_decrypt tab_mac 16 (b_key 32) b_iv b_aad b1_ct (take 15 b1_t ++ [0xc5]),  (* tag bit flipped *)
   cbchs_decrypt tab_mac 16 (b_key 32) b_iv b_aad b1_ct b1_m,                      (* untruncated tag *)
   cbchs_decrypt tab_mac 16 (b_key 32) b_iv b_aad b1_ct (take 15 b1_t),            (* short tag *)
   cbchs_decrypt tab_mac 16 (b_key 32) b_iv b_aad b1_ct [],
   cbchs_decrypt tab_mac 16 (b_key 32) b_iv (take 41 b_aad) b1_ct b1_t,            (* aad changed *)
   cbchs_decrypt tab_mac 16 (b_key 32) b_iv b_aad (take 128 b1_ct) b1_t,           (* ct truncated *)
   cbchs_decrypt rec_mac 0 (b_key 32) b_iv b_aad (take 128 b1_ct) [])              (* tag ok, padding bad *)
  = (None, None, None, None, None, None, None).
Proof. vm_compute; reflexivity. Qed.
(* with a zero-length tag the MAC check is vacuous and only CBC/padding decides *)
Example cbchs_taglen0 :
  cbchs_decrypt rec_mac 0 (b_key 32) b_iv b_aad b1_ct [] = Some b_pt.
Proof. vm_compute; reflexivity. Qed.

End CbcHsTest.
