(* Hex: notation helpers for writing byte strings in examples and tests.
   [str "abc"] is the ASCII bytes of a Coq string; [hex "0a1b"] decodes a hex
   string (characters that are not hex digits, e.g. spaces, are skipped; an odd
   trailing nibble is dropped); [to_hex] prints bytes as lowercase hex.
   Data values stay in N throughout. *)
From JoseV Require Import Base.Bytes.
From Coq Require Import Ascii String.
Local Open Scope N_scope.

Fixpoint str (s : string) : bytes :=
  match s with
  | EmptyString => []
  | String c r => N_of_ascii c :: str r
  end.

Definition hexval (c : N) : option N :=
  if (48 <=? c) && (c <=? 57) then Some (c - 48)
  else if (97 <=? c) && (c <=? 102) then Some (c - 87)
  else if (65 <=? c) && (c <=? 70) then Some (c - 55)
  else None.

(* [hi] holds the pending high nibble, if any *)
Fixpoint hex_aux (hi : option N) (s : string) : bytes :=
  match s with
  | EmptyString => []
  | String c r =>
      match hexval (N_of_ascii c) with
      | None => hex_aux hi r
      | Some v =>
          match hi with
          | None => hex_aux (Some v) r
          | Some h => (16 * h + v) :: hex_aux None r
          end
      end
  end.

Definition hex (s : string) : bytes := hex_aux None s.

Definition hexdigit (v : N) : ascii :=
  ascii_of_N (if v <? 10 then 48 + v else 87 + v).

Fixpoint to_hex (b : bytes) : string :=
  match b with
  | [] => EmptyString
  | x :: r => String (hexdigit (x / 16)) (String (hexdigit (x mod 16)) (to_hex r))
  end.

Example hex_ex1 : hex "00ff 1A2b" = [0; 255; 26; 43].
Proof. vm_compute; reflexivity. Qed.
Example str_ex1 : str "abc" = [97; 98; 99].
Proof. vm_compute; reflexivity. Qed.
Example to_hex_ex1 : to_hex [0; 255; 26; 43] = "00ff1a2b"%string.
Proof. vm_compute; reflexivity. Qed.
