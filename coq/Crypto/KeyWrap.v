(* AES Key Wrap (RFC 3394) with the default initial value A6A6A6A6A6A6A6A6.

   Follows the index-based description of RFC 3394 sections 2.2.1 / 2.2.2:
   the registers R[1..n] are a list of 8-byte strings, t = n*j + i is carried
   along as a counter. *)
From JoseV Require Import Base.Bytes.
From JoseV Require Import Crypto.Aes.
Local Open Scope N_scope.

Definition kw_default_iv : bytes := repeatN 0xA6 8%nat.

(* ---- wrap ---- *)

(* one value of j: i = 1 .. n.  Returns (A, next t, R) *)
Fixpoint kw_wrap_pass (ks : list bytes) (a : bytes) (t : N) (rs : list bytes)
  : bytes * N * list bytes :=
  match rs with
  | [] => (a, t, [])
  | r :: rest =>
    let b := aes_encrypt_block_ks ks (a ++ r) in
    let a' := bytes_xor (take 8 b) (be_of_N 8 t) in
    let '(a'', t'', rest') := kw_wrap_pass ks a' (t + 1) rest in
    (a'', t'', drop 8 b :: rest')
  end.

Fixpoint kw_wrap_iter (passes : nat) (ks : list bytes) (a : bytes) (t : N) (rs : list bytes)
  : bytes * list bytes :=
  match passes with
  | O => (a, rs)
  | S k =>
    let '(a', t', rs') := kw_wrap_pass ks a t rs in
    kw_wrap_iter k ks a' t' rs'
  end.

Definition kw_wrap_ks (ks : list bytes) (iv cek : bytes) : bytes :=
  let '(a, rs) := kw_wrap_iter 6 ks iv 1 (chunks 8 cek) in
  a ++ concat rs.

(* None if the plaintext is not n >= 2 blocks of 8 bytes, or the KEK is not 16/24/32 bytes *)
Definition kw_wrap (kek cek : bytes) : option bytes :=
  let n := length cek in
  if aes_key_len_ok kek && Nat.eqb (Nat.modulo n 8) 0 && Nat.leb 16 n
  then Some (kw_wrap_ks (aes_key_expand kek) kw_default_iv cek)
  else None.

(* ---- unwrap ---- *)

(* one value of j: i = n .. 1; rs is R[n], R[n-1], ..., R[1].  Returns (A, next t, R) *)
Fixpoint kw_unwrap_pass (ks : list bytes) (a : bytes) (t : N) (rs : list bytes)
  : bytes * N * list bytes :=
  match rs with
  | [] => (a, t, [])
  | r :: rest =>
    let b := aes_decrypt_block_ks ks (bytes_xor a (be_of_N 8 t) ++ r) in
    let '(a'', t'', rest') := kw_unwrap_pass ks (take 8 b) (t - 1) rest in
    (a'', t'', drop 8 b :: rest')
  end.

Fixpoint kw_unwrap_iter (passes : nat) (ks : list bytes) (a : bytes) (t : N) (rs : list bytes)
  : bytes * list bytes :=
  match passes with
  | O => (a, rs)
  | S k =>
    let '(a', t', rs') := kw_unwrap_pass ks a t rs in
    kw_unwrap_iter k ks a' t' rs'
  end.

(* returns (recovered A, plaintext) without checking A *)
Definition kw_unwrap_ks (ks : list bytes) (ct : bytes) : bytes * bytes :=
  let rs := rev_lin (chunks 8 (drop 8 ct)) in
  let n := N.of_nat (length rs) in
  let '(a, rs') := kw_unwrap_iter 6 ks (take 8 ct) (6 * n) rs in
  (a, concat (rev_lin rs')).

(* None if the ciphertext is not n+1 >= 3 blocks of 8 bytes, the KEK is not
   16/24/32 bytes, or the recovered A is not the default IV *)
Definition kw_unwrap (kek ct : bytes) : option bytes :=
  let n := length ct in
  if aes_key_len_ok kek && Nat.eqb (Nat.modulo n 8) 0 && Nat.leb 24 n then
    let '(a, p) := kw_unwrap_ks (aes_key_expand kek) ct in
    if bytes_eqb a kw_default_iv then Some p else None
  else None.

Module KeyWrapTest.

(* ------------------------------------------------------------------ *)
(* Test vectors: RFC 3394 section 4                                     *)
(* ------------------------------------------------------------------ *)

Definition kek128 : bytes := hexN 16 0x000102030405060708090A0B0C0D0E0F.
Definition kek192 : bytes := hexN 24 0x000102030405060708090A0B0C0D0E0F1011121314151617.
Definition kek256 : bytes :=
  hexN 32 0x000102030405060708090A0B0C0D0E0F101112131415161718191A1B1C1D1E1F.
Definition kd128 : bytes := hexN 16 0x00112233445566778899AABBCCDDEEFF.
Definition kd192 : bytes := hexN 24 0x00112233445566778899AABBCCDDEEFF0001020304050607.
Definition kd256 : bytes :=
  hexN 32 0x00112233445566778899AABBCCDDEEFF000102030405060708090A0B0C0D0E0F.

Definition kw41 : bytes := hexN 24 0x1FA68B0A8112B447AEF34BD8FB5A7B829D3E862371D2CFE5.
Definition kw42 : bytes := hexN 24 0x96778B25AE6CA435F92B5B97C050AED2468AB8A17AD84E5D.
Definition kw43 : bytes := hexN 24 0x64E8C3F9CE0F5BA263E9777905818A2A93C8191E7D6E8AE7.
Definition kw44 : bytes :=
  hexN 32 0x031D33264E15D33268F24EC260743EDCE1C6C7DDEE725A936BA814915C6762D2.
Definition kw45 : bytes :=
  hexN 32 0xA8F9BC1612C68B3FF6E6F4FBE30E71E4769C8B80A32CB8958CD5D17D6B254DA1.
Definition kw46 : bytes :=
  hexN 40 0x28C9F404C4B810F4CBCCB35CFB87F8263F5786E2D80ED326CBC7F0E71A99F43BFB988B9B7A02DD21.

Example rfc3394_41_wrap : kw_wrap kek128 kd128 = Some kw41.
Proof. vm_compute; reflexivity. Qed.
Example rfc3394_41_unwrap : kw_unwrap kek128 kw41 = Some kd128.
Proof. vm_compute; reflexivity. Qed.
Example rfc3394_42_wrap : kw_wrap kek192 kd128 = Some kw42.
Proof. vm_compute; reflexivity. Qed.
Example rfc3394_42_unwrap : kw_unwrap kek192 kw42 = Some kd128.
Proof. vm_compute; reflexivity. Qed.
Example rfc3394_43_wrap : kw_wrap kek256 kd128 = Some kw43.
Proof. vm_compute; reflexivity. Qed.
Example rfc3394_43_unwrap : kw_unwrap kek256 kw43 = Some kd128.
Proof. vm_compute; reflexivity. Qed.
Example rfc3394_44_wrap : kw_wrap kek192 kd192 = Some kw44.
Proof. vm_compute; reflexivity. Qed.
Example rfc3394_44_unwrap : kw_unwrap kek192 kw44 = Some kd192.
Proof. vm_compute; reflexivity. Qed.
Example rfc3394_45_wrap : kw_wrap kek256 kd192 = Some kw45.
Proof. vm_compute; reflexivity. Qed.
Example rfc3394_45_unwrap : kw_unwrap kek256 kw45 = Some kd192.
Proof. vm_compute; reflexivity. Qed.
Example rfc3394_46_wrap : kw_wrap kek256 kd256 = Some kw46.
Proof. vm_compute; reflexivity. Qed.
Example rfc3394_46_unwrap : kw_unwrap kek256 kw46 = Some kd256.
Proof. vm_compute; reflexivity. Qed.

Example kw_wrap_rejects :
  (kw_wrap kek128 [], kw_wrap kek128 (take 8 kd128), kw_wrap kek128 (take 15 kd128),
   kw_wrap kek128 (take 17 kd192), kw_wrap (take 15 kek128) kd128, kw_wrap [] kd128)
  = (None, None, None, None, None, None).
Proof. vm_compute; reflexivity. Qed.
Example kw_unwrap_rejects :
  (kw_unwrap kek128 [], kw_unwrap kek128 (take 16 kw41), kw_unwrap kek128 (take 23 kw41),
   kw_unwrap kek128 (kw41 ++ [0]),
   kw_unwrap kek192 kw41,                                   (* wrong KEK *)
   kw_unwrap kek128 (take 23 kw41 ++ [0xE4]),               (* last bit flipped *)
   kw_unwrap kek128 (0x1E :: drop 1 kw41),                  (* first bit flipped *)
   kw_unwrap [] kw41)
  = (None, None, None, None, None, None, None, None).
Proof. vm_compute; reflexivity. Qed.

End KeyWrapTest.
