(* Inflate: executable reference model of RFC 1951 (raw DEFLATE) decompression,
   plus a trivial compressor emitting stored blocks only.

   - [inflate z]      : Some output, or None on any malformed/truncated stream
   - [inflate_ex z]   : additionally the number of input bytes consumed
                        (the byte holding the last bit of the final block counts
                        as consumed, as in zlib's avail_in accounting)
   - [deflate_stored] : a valid raw DEFLATE stream using stored blocks only
   - [inflate_deflate_stored] : inflate (deflate_stored x) = Some x   (proved)

   Accept/reject behaviour follows zlib's inflate (inftrees.c / inflate.c):
   over-subscribed code sets are rejected; incomplete sets are rejected
   except a literal/length or distance code consisting of one single 1-bit
   code, and a distance code with no codes at all; HLIT > 286 and HDIST > 30
   are rejected; missing end-of-block code (length of symbol 256 is zero) is
   rejected; literal/length symbols 286,287 and distance symbols 30,31 are
   rejected when used; a distance beyond the start of the output is rejected.

   All recursion is structural, or on a nat fuel computed from the input
   length (8 * length z + 8: every loop iteration consumes at least one bit). *)
From JoseV Require Import Base.Bytes.
From Coq Require Import List NArith ZArith Lia.
Import ListNotations.
Local Open Scope N_scope.

(* ------------------------------------------------------------------ *)
(* Bit reader: the not yet consumed bits of the current byte (LSB first),
   and the not yet touched bytes. *)

Record bs := mkbs { cur : list bool; rest : bytes }.

Fixpoint nbits (n : nat) (x : N) : list bool :=
  match n with
  | O => []
  | S k => N.odd x :: nbits k (N.div2 x)
  end.

Definition getbit (s : bs) : option (bool * bs) :=
  match cur s with
  | b :: c => Some (b, mkbs c (rest s))
  | [] =>
      match rest s with
      | [] => None
      | x :: r => Some (N.odd x, mkbs (nbits 7 (N.div2 x)) r)
      end
  end.

(* n-bit little-endian field (RFC 1951 3.1.1: data elements other than
   Huffman codes are packed starting with the least significant bit) *)
Fixpoint getbits (n : nat) (s : bs) : option (N * bs) :=
  match n with
  | O => Some (0, s)
  | S k =>
      match getbit s with
      | None => None
      | Some (b, s1) =>
          match getbits k s1 with
          | None => None
          | Some (v, s2) => Some ((if b then 1 else 0) + 2 * v, s2)
          end
      end
  end.

(* ------------------------------------------------------------------ *)
(* Huffman codes as binary tries; the first bit read selects the child of
   the root (Huffman codes are packed most significant bit first). *)

Inductive tree := Empty | Leaf (v : N) | Node (l r : tree).

Fixpoint decode (t : tree) (s : bs) : option (N * bs) :=
  match t with
  | Empty => None
  | Leaf v => Some (v, s)
  | Node l r =>
      match getbit s with
      | None => None
      | Some (b, s') => if b then decode r s' else decode l s'
      end
  end.

Fixpoint index_from (i : N) (l : list N) : list (N * N) :=
  match l with
  | [] => []
  | x :: r => (x, i) :: index_from (i + 1) r
  end.

(* (length, symbol) pairs of the used symbols ordered by (length, symbol):
   the left-to-right order of the leaves of the canonical code tree *)
Definition sorted_syms (lens : list N) : list (N * N) :=
  let il := index_from 0 lens in
  flat_map (fun d => filter (fun p => fst p =? d) il)
           [1;2;3;4;5;6;7;8;9;10;11;12;13;14;15].

Fixpoint build (fuel : nat) (d : N) (syms : list (N * N)) : tree * list (N * N) :=
  match syms with
  | [] => (Empty, [])
  | (len, sym) :: more =>
      if len <=? d then (Leaf sym, more)
      else
        match fuel with
        | O => (Empty, syms)
        | S f =>
            let (l, s1) := build f (d + 1) syms in
            let (r, s2) := build f (d + 1) s1 in
            (Node l r, s2)
        end
  end.

(* Kraft sum scaled by 2^15 *)
Definition kraft (lens : list N) : N :=
  fold_left (fun a l => if l =? 0 then a else a + N.shiftl 1 (15 - l)) lens 0.

(* zlib inflate_table acceptance: over-subscribed -> error; incomplete ->
   error unless (allow_single and the only code is one 1-bit code) or
   (allow_empty and there is no code at all). *)
Definition mktree (allow_empty allow_single : bool) (lens : list N) : option tree :=
  let k := kraft lens in
  let t := fst (build 16 0 (sorted_syms lens)) in
  if 32768 <? k then None
  else if k =? 32768 then Some t
  else if k =? 0 then (if allow_empty then Some Empty else None)
  else if allow_single && (k =? 16384) && forallb (fun l => l <=? 1) lens
       then Some t
  else None.

(* ------------------------------------------------------------------ *)
(* Fixed Huffman codes (RFC 1951 3.2.6) *)

Definition fixed_lit_lens : list N :=
  repeatN 8 144 ++ repeatN 9 112 ++ repeatN 7 24 ++ repeatN 8 8.
Definition fixed_dist_lens : list N := repeatN 5 32.

Definition fixed_lit : tree := fst (build 16 0 (sorted_syms fixed_lit_lens)).
Definition fixed_dist : tree := fst (build 16 0 (sorted_syms fixed_dist_lens)).

(* ------------------------------------------------------------------ *)
(* Length / distance tables (RFC 1951 3.2.5): (base, number of extra bits) *)

Definition len_table : list (N * N) :=
  [(3,0);(4,0);(5,0);(6,0);(7,0);(8,0);(9,0);(10,0);
   (11,1);(13,1);(15,1);(17,1);(19,2);(23,2);(27,2);(31,2);
   (35,3);(43,3);(51,3);(59,3);(67,4);(83,4);(99,4);(115,4);
   (131,5);(163,5);(195,5);(227,5);(258,0)].

Definition dist_table : list (N * N) :=
  [(1,0);(2,0);(3,0);(4,0);(5,1);(7,1);(9,2);(13,2);
   (17,3);(25,3);(33,4);(49,4);(65,5);(97,5);(129,6);(193,6);
   (257,7);(385,7);(513,8);(769,8);(1025,9);(1537,9);(2049,10);(3073,10);
   (4097,11);(6145,11);(8193,12);(12289,12);(16385,13);(24577,13)].

(* ------------------------------------------------------------------ *)
(* LZ77 copy on the reversed output *)

Fixpoint dropP (p : positive) (l : list N) : list N :=
  match p with
  | xH => tl l
  | xO q => dropP q (dropP q l)
  | xI q => tl (dropP q (dropP q l))
  end.

Definition dropN (n : N) (l : list N) : list N :=
  match n with
  | N0 => l
  | Npos p => dropP p l
  end.

Fixpoint take_app (n : nat) (src out : list N) : list N :=
  match n, src with
  | S k, x :: r => x :: take_app k r out
  | _, _ => out
  end.

(* [out] is the output so far, newest byte first.  Append [len] bytes, each
   equal to the byte [dist] positions back; copies with len > dist replicate
   the last [dist] bytes periodically.  Precondition: 1 <= dist <= length out. *)
Fixpoint copy (fuel : nat) (len dist : N) (out : list N) : list N :=
  match fuel with
  | O => out
  | S f =>
      if len =? 0 then out
      else
        let k := N.min len dist in
        let src := dropN (dist - k) out in
        copy f (len - k) dist (take_app (N.to_nat k) src out)
  end.

(* ------------------------------------------------------------------ *)
(* Compressed block body *)

Fixpoint codes (fuel : nat) (lit dist : tree) (s : bs) (out : list N) (olen : N)
  : option (bs * list N * N) :=
  match fuel with
  | O => None
  | S f =>
      match decode lit s with
      | None => None
      | Some (sym, s1) =>
          if sym <? 256 then codes f lit dist s1 (sym :: out) (olen + 1)
          else if sym =? 256 then Some (s1, out, olen)
          else
            match nth_error len_table (N.to_nat (sym - 257)) with
            | None => None
            | Some (lbase, lextra) =>
                match getbits (N.to_nat lextra) s1 with
                | None => None
                | Some (le, s2) =>
                    match decode dist s2 with
                    | None => None
                    | Some (dsym, s3) =>
                        match nth_error dist_table (N.to_nat dsym) with
                        | None => None
                        | Some (dbase, dextra) =>
                            match getbits (N.to_nat dextra) s3 with
                            | None => None
                            | Some (de, s4) =>
                                let len := lbase + le in
                                let d := dbase + de in
                                if olen <? d then None
                                else codes f lit dist s4
                                       (copy (N.to_nat len) len d out) (olen + len)
                            end
                        end
                    end
                end
            end
      end
  end.

(* ------------------------------------------------------------------ *)
(* Dynamic block header (RFC 1951 3.2.7) *)

Definition cl_order : list N :=
  [16;17;18;0;8;7;9;6;10;5;11;4;12;3;13;2;14;1;15].

Fixpoint read_cl (n : nat) (s : bs) : option (list N * bs) :=
  match n with
  | O => Some ([], s)
  | S k =>
      match getbits 3 s with
      | None => None
      | Some (v, s1) =>
          match read_cl k s1 with
          | None => None
          | Some (l, s2) => Some (v :: l, s2)
          end
      end
  end.

Fixpoint assoc (i : N) (l : list (N * N)) : N :=
  match l with
  | [] => 0
  | (k, v) :: r => if k =? i then v else assoc i r
  end.

Definition cl_lens (vals : list N) : list N :=
  let al := combine cl_order vals in
  map (fun i => assoc i al) [0;1;2;3;4;5;6;7;8;9;10;11;12;13;14;15;16;17;18].

(* [acc] : code lengths read so far, newest first; [have] = length acc *)
Fixpoint read_lens (fuel : nat) (t : tree) (n have : N) (acc : list N) (s : bs)
  : option (list N * bs) :=
  if have =? n then Some (rev_append acc [], s)
  else
    match fuel with
    | O => None
    | S f =>
        match decode t s with
        | None => None
        | Some (sym, s1) =>
            if sym <? 16 then read_lens f t n (have + 1) (sym :: acc) s1
            else if sym =? 16 then
              match acc with
              | [] => None
              | prev :: _ =>
                  match getbits 2 s1 with
                  | None => None
                  | Some (e, s2) =>
                      let c := 3 + e in
                      if n <? have + c then None
                      else read_lens f t n (have + c)
                             (repeatN prev (N.to_nat c) ++ acc) s2
                  end
              end
            else if sym =? 17 then
              match getbits 3 s1 with
              | None => None
              | Some (e, s2) =>
                  let c := 3 + e in
                  if n <? have + c then None
                  else read_lens f t n (have + c) (repeatN 0 (N.to_nat c) ++ acc) s2
              end
            else
              match getbits 7 s1 with
              | None => None
              | Some (e, s2) =>
                  let c := 11 + e in
                  if n <? have + c then None
                  else read_lens f t n (have + c) (repeatN 0 (N.to_nat c) ++ acc) s2
              end
        end
    end.

Definition dynamic_trees (s : bs) : option (tree * tree * bs) :=
  match getbits 5 s with
  | None => None
  | Some (hlit, s1) =>
      match getbits 5 s1 with
      | None => None
      | Some (hdist, s2) =>
          match getbits 4 s2 with
          | None => None
          | Some (hclen, s3) =>
              let nlen := hlit + 257 in
              let ndist := hdist + 1 in
              if (286 <? nlen) || (30 <? ndist) then None
              else
                match read_cl (N.to_nat (hclen + 4)) s3 with
                | None => None
                | Some (vals, s4) =>
                    match mktree false false (cl_lens vals) with
                    | None => None
                    | Some clt =>
                        match read_lens 400 clt (nlen + ndist) 0 [] s4 with
                        | None => None
                        | Some (lens, s5) =>
                            let ll := take (N.to_nat nlen) lens in
                            let dl := drop (N.to_nat nlen) lens in
                            if nth 256 ll 0 =? 0 then None
                            else
                              match mktree false true ll, mktree true true dl with
                              | Some lt, Some dt => Some (lt, dt, s5)
                              | _, _ => None
                              end
                        end
                    end
                end
          end
      end
  end.

(* ------------------------------------------------------------------ *)
(* Stored block (RFC 1951 3.2.4) *)

(* move n bytes from the input onto the reversed output *)
Fixpoint move (n : nat) (src out : list N) : option (list N * list N) :=
  match n with
  | O => Some (out, src)
  | S k =>
      match src with
      | [] => None
      | b :: r => move k r (b :: out)
      end
  end.

Definition stored (s : bs) (out : list N) (olen : N) : option (bs * list N * N) :=
  match rest s with
  | l0 :: l1 :: n0 :: n1 :: r =>
      let len := l0 + 256 * l1 in
      let nlen := n0 + 256 * n1 in
      if len + nlen =? 65535 then
        match move (N.to_nat len) r out with
        | None => None
        | Some (out', r') => Some (mkbs [] r', out', olen + len)
        end
      else None
  | _ => None
  end.

(* ------------------------------------------------------------------ *)
(* Blocks *)

Definition one_block (total : nat) (type : N) (s : bs) (out : list N) (olen : N)
  : option (bs * list N * N) :=
  match type with
  | 0 => stored s out olen
  | 1 => codes total fixed_lit fixed_dist s out olen
  | 2 =>
      match dynamic_trees s with
      | None => None
      | Some (lt, dt, s1) => codes total lt dt s1 out olen
      end
  | _ => None
  end.

Fixpoint blocks (fuel total : nat) (s : bs) (out : list N) (olen : N)
  : option (bs * list N) :=
  match fuel with
  | O => None
  | S f =>
      match getbits 3 s with
      | None => None
      | Some (h, s1) =>
          match one_block total (N.div2 h) s1 out olen with
          | None => None
          | Some (s2, out2, olen2) =>
              if N.odd h then Some (s2, out2)
              else blocks f total s2 out2 olen2
          end
      end
  end.

(* tail-recursive (stack-safe once extracted) length helpers *)
Fixpoint fuel_of (z : bytes) (acc : nat) : nat :=
  match z with
  | [] => acc
  | _ :: r => fuel_of r (S (S (S (S (S (S (S (S acc))))))))
  end.                                   (* = 8 * length z + acc *)

Definition lengthN (l : bytes) : N := fold_left (fun a _ => N.succ a) l 0.

Definition inflate_ex (z : bytes) : option (bytes * N) :=
  let total := fuel_of z 8 in
  match blocks total total (mkbs [] z) [] 0 with
  | None => None
  | Some (s, out) =>
      Some (rev_append out [], lengthN z - lengthN (rest s))
  end.

Definition inflate (z : bytes) : option bytes :=
  match inflate_ex z with
  | None => None
  | Some (x, _) => Some x
  end.

(* ------------------------------------------------------------------ *)
(* Stored-only compressor *)

Definition chunk : nat := N.to_nat 65535.

Definition stored_block (final : bool) (d : bytes) : bytes :=
  let len := lengthN d in
  let nlen := 65535 - len in
  (if final then 1 else 0)
    :: len mod 256 :: len / 256 :: nlen mod 256 :: nlen / 256 :: d.

Fixpoint ds_aux (fuel : nat) (x : bytes) : bytes :=
  match fuel with
  | O => stored_block true x
  | S f =>
      if lengthN x <=? 65535 then stored_block true x
      else stored_block false (take chunk x) ++ ds_aux f (drop chunk x)
  end.

Definition deflate_stored (x : bytes) : bytes := ds_aux (fuel_of x 0) x.

(* ------------------------------------------------------------------ *)
(* Round trip: inflate (deflate_stored x) = Some x *)

Lemma fuel_of_spec z acc : fuel_of z acc = (8 * length z + acc)%nat.
Proof.
  revert acc; induction z as [|b z IH]; intro acc; simpl fuel_of; simpl length.
  - reflexivity.
  - rewrite IH. lia.
Qed.

Lemma lengthN_spec l : lengthN l = N.of_nat (length l).
Proof.
  unfold lengthN.
  assert (H : forall a, fold_left (fun (a : N) (_ : N) => N.succ a) l a
                        = a + N.of_nat (length l)).
  { induction l as [|b l IH]; intro a; simpl fold_left; simpl length.
    - lia.
    - rewrite IH. lia. }
  rewrite H. lia.
Qed.

Lemma move_app d t out : move (length d) (d ++ t) out = Some (rev d ++ out, t).
Proof.
  revert out; induction d as [|b d IH]; intro out.
  - reflexivity.
  - simpl length. simpl app. simpl move. rewrite IH. simpl rev.
    rewrite <- app_assoc. reflexivity.
Qed.

Lemma le16_split n : n mod 256 + 256 * (n / 256) = n.
Proof. rewrite N.add_comm. symmetry. apply N.div_mod. discriminate. Qed.

Lemma getbits3_hdr (fin : bool) r :
  getbits 3 (mkbs [] ((if fin then 1 else 0) :: r))
  = Some ((if fin then 1 else 0), mkbs [false;false;false;false;false] r).
Proof. destruct fin; reflexivity. Qed.

Lemma stored_stored_block c b0 d t out olen :
  lengthN d <= 65535 ->
  stored (mkbs c (tl (stored_block b0 d) ++ t)) out olen
  = Some (mkbs [] t, rev d ++ out, olen + lengthN d).
Proof.
  intro Hlen. unfold stored_block, stored. cbn [tl app rest].
  rewrite !le16_split.
  replace (lengthN d + (65535 - lengthN d)) with 65535 by lia.
  rewrite N.eqb_refl.
  rewrite lengthN_spec, Nnat.Nat2N.id, move_app. reflexivity.
Qed.

Lemma blocks_S f total s out olen :
  blocks (S f) total s out olen =
  match getbits 3 s with
  | None => None
  | Some (h, s1) =>
      match one_block total (N.div2 h) s1 out olen with
      | None => None
      | Some (s2, out2, olen2) =>
          if N.odd h then Some (s2, out2) else blocks f total s2 out2 olen2
      end
  end.
Proof. reflexivity. Qed.

Lemma blocks_stored_block (fin : bool) d t f total out olen :
  lengthN d <= 65535 ->
  blocks (S f) total (mkbs [] (stored_block fin d ++ t)) out olen
  = if fin then Some (mkbs [] t, rev d ++ out)
    else blocks f total (mkbs [] t) (rev d ++ out) (olen + lengthN d).
Proof.
  intro Hlen. rewrite blocks_S.
  change (stored_block fin d ++ t)
    with ((if fin then 1 else 0) :: (tl (stored_block fin d) ++ t)).
  rewrite getbits3_hdr.
  destruct fin.
  - change (N.div2 1) with 0. change (N.odd 1) with true. unfold one_block.
    rewrite stored_stored_block by exact Hlen. reflexivity.
  - change (N.div2 0) with 0. change (N.odd 0) with false. unfold one_block.
    rewrite stored_stored_block by exact Hlen. reflexivity.
Qed.

Lemma chunk_spec : N.of_nat chunk = 65535.
Proof. unfold chunk. apply Nnat.N2Nat.id. Qed.

Lemma ds_aux_S f x :
  ds_aux (S f) x =
  if lengthN x <=? 65535 then stored_block true x
  else stored_block false (take chunk x) ++ ds_aux f (drop chunk x).
Proof. reflexivity. Qed.

Lemma stored_block_length b d : length (stored_block b d) = (5 + length d)%nat.
Proof. reflexivity. Qed.

Lemma blocks_ds_aux n : forall x t f total out olen,
  (length x <= n)%nat -> (n < f)%nat ->
  blocks f total (mkbs [] (ds_aux n x ++ t)) out olen
  = Some (mkbs [] t, rev x ++ out).
Proof.
  pose proof chunk_spec as Hc.
  induction n as [|n IH]; intros x t f total out olen Hx Hf.
  - destruct x; [|simpl in Hx; lia].
    destruct f as [|f]; [lia|].
    simpl ds_aux. rewrite blocks_stored_block; [reflexivity|].
    rewrite lengthN_spec. simpl. lia.
  - destruct f as [|f]; [lia|].
    rewrite ds_aux_S. destruct (lengthN x <=? 65535) eqn:E.
    + apply N.leb_le in E. rewrite blocks_stored_block by exact E. reflexivity.
    + apply N.leb_gt in E. rewrite lengthN_spec in E.
      rewrite <- app_assoc.
      rewrite blocks_stored_block.
      2:{ rewrite lengthN_spec, take_length. lia. }
      rewrite IH.
      * rewrite app_assoc, <- rev_app_distr, take_drop. reflexivity.
      * rewrite drop_length. lia.
      * lia.
Qed.

Lemma ds_aux_length n : forall x, (length x <= length (ds_aux n x))%nat.
Proof.
  induction n as [|n IH]; intro x.
  - simpl ds_aux. rewrite stored_block_length. lia.
  - rewrite ds_aux_S. destruct (lengthN x <=? 65535).
    + rewrite stored_block_length. lia.
    + rewrite app_length. specialize (IH (drop chunk x)).
      rewrite drop_length in IH. rewrite stored_block_length.
      rewrite take_length. lia.
Qed.

(* with arbitrary trailing bytes t: the output is x and exactly the
   deflate_stored stream is consumed *)
Theorem inflate_ex_deflate_stored_app x t :
  inflate_ex (deflate_stored x ++ t) = Some (x, lengthN (deflate_stored x)).
Proof.
  unfold inflate_ex, deflate_stored.
  rewrite blocks_ds_aux.
  - cbn [rest]. rewrite rev_append_rev, !app_nil_r, rev_involutive.
    rewrite !lengthN_spec, app_length. f_equal. f_equal. lia.
  - rewrite fuel_of_spec. lia.
  - rewrite !fuel_of_spec, app_length.
    pose proof (ds_aux_length (8 * length x + 0) x). lia.
Qed.

Theorem inflate_ex_deflate_stored x :
  inflate_ex (deflate_stored x) = Some (x, lengthN (deflate_stored x)).
Proof.
  rewrite <- (app_nil_r (deflate_stored x)) at 1.
  apply inflate_ex_deflate_stored_app.
Qed.

Theorem inflate_deflate_stored x : inflate (deflate_stored x) = Some x.
Proof. unfold inflate. rewrite inflate_ex_deflate_stored. reflexivity. Qed.

(* ------------------------------------------------------------------ *)
(* Test vectors.  The compressed streams were produced by zlib 1.2.x
   (python3: zlib.compressobj(level, zlib.DEFLATED, -15[, 8, strategy]));
   expected results are what zlib.decompressobj(-15) returns (None = zlib
   raises an error or does not reach end of stream). *)

(* zlib level 6, empty input: one fixed block holding only end-of-block *)
Example ex_empty :
  inflate
    [3;0]
  = Some [].
Proof. vm_compute. reflexivity. Qed.

(* "a": fixed Huffman, one literal *)
Example ex_a :
  inflate
    [75;4;0]
  = Some [97].
Proof. vm_compute. reflexivity. Qed.

(* "hello hello hello hello": fixed Huffman, literals, then one overlapping match (length > distance) *)
Example ex_hello :
  inflate
    [203;72;205;201;201;87;200;64;39;1]
  = Some 
    [104;101;108;108;111;32;104;101;108;108;111;32;104;101;108;108;111;32;104;101;108;108;111].
Proof. vm_compute. reflexivity. Qed.

(* 1000 zero bytes: matches of length 258 at distance 1 (overlapping copy) *)
Example ex_zeros1000 :
  inflate
    [99;96;24;5;163;96;20;12;119;0;0]
  = Some (repeatN 0 1000).
Proof. vm_compute. reflexivity. Qed.

(* 64 random bytes, zlib level 6: a single stored block *)
Example ex_rand64_stored :
  inflate
    [1;64;0;191;255;134;221;87;120;110;73;132;46;92;135;111;186;60;238;14;148;39;166;194;77;
    196;107;64;51;166;250;37;227;30;69;56;185;215;144;251;104;193;250;216;193;99;10;116;183;43;
    78;53;194;68;136;229;67;0;132;126;136;214;61;195;62;168;149;218;162]
  = Some 
    [134;221;87;120;110;73;132;46;92;135;111;186;60;238;14;148;39;166;194;77;196;107;64;51;166;
    250;37;227;30;69;56;185;215;144;251;104;193;250;216;193;99;10;116;183;43;78;53;194;68;136;
    229;67;0;132;126;136;214;61;195;62;168;149;218;162].
Proof. vm_compute. reflexivity. Qed.

(* 420 bytes of English-like text, zlib level 1: dynamic Huffman block *)
Example ex_text_dynamic_l1 :
  inflate
    [61;81;89;110;196;48;8;189;10;39;240;157;72;237;140;169;28;168;188;140;149;219;247;65;218;
    249;137;48;203;219;210;76;95;84;109;211;81;138;210;174;248;124;49;10;158;165;163;247;87;
    156;162;153;174;155;102;149;65;217;94;88;52;60;120;98;238;13;63;236;133;214;15;77;185;10;
    241;97;107;146;189;1;193;39;128;18;85;206;180;203;51;117;54;231;56;165;15;108;117;0;21;233;
    52;88;176;3;92;192;249;120;13;0;13;218;214;243;136;134;130;18;76;50;107;34;83;63;100;236;
    67;195;48;112;2;4;7;206;235;248;120;41;29;120;92;156;11;65;28;58;144;254;189;192;88;29;213;
    157;221;143;196;12;222;230;49;168;109;87;250;46;137;100;186;249;200;68;212;89;109;53;168;
    139;84;236;36;81;224;125;44;68;233;240;27;151;32;77;17;145;76;52;254;99;12;137;32;189;88;
    239;112;22;114;70;117;221;192;241;160;165;181;48;135;227;173;233;249;11;225;93;126;1]
  = Some 
    [108;111;110;103;32;104;111;119;32;98;101;101;110;32;119;104;101;110;32;99;97;110;32;119;
    97;116;101;114;32;98;101;32;119;97;116;101;114;32;102;105;110;100;32;109;121;32;116;104;
    105;115;32;100;111;103;32;119;104;111;32;116;104;97;116;32;119;97;115;32;100;111;32;119;
    104;101;114;101;32;117;112;32;116;105;109;101;32;97;98;111;117;116;32;111;118;101;114;32;
    97;102;116;101;114;46;32;104;97;100;32;119;101;32;116;105;109;101;32;104;111;119;32;99;97;
    110;32;102;105;114;115;116;32;111;114;32;116;104;101;105;114;32;115;97;105;100;32;119;104;
    111;32;100;111;32;99;97;110;32;117;115;101;32;97;115;32;119;111;114;100;115;32;99;97;110;
    32;110;111;32;116;111;32;119;105;116;104;46;32;111;110;32;111;114;32;97;32;119;104;97;116;
    32;115;111;109;101;32;116;104;101;115;101;32;111;117;116;32;104;111;119;32;116;104;101;110;
    32;98;117;116;32;109;97;100;101;32;104;101;114;32;116;104;105;115;32;106;117;115;116;32;
    104;97;115;32;119;101;32;119;97;121;32;111;118;101;114;32;100;105;100;32;108;111;110;103;
    32;110;111;119;46;32;104;97;118;101;46;32;105;116;32;98;101;32;98;101;101;110;32;105;110;
    116;111;32;119;111;117;108;100;32;119;97;116;101;114;32;111;102;32;105;110;32;116;104;97;
    110;32;102;105;114;115;116;32;116;104;97;110;32;104;105;115;32;119;101;46;32;98;117;116;46;
    32;100;111;103;32;105;116;115;32;119;97;116;101;114;32;98;101;32;115;111;109;101;32;119;
    101;32;109;97;110;121;32;117;115;101;32;116;104;105;115;32;115;104;101;32;116;104;97;110;
    32;98;101;32;119;105;108;108;32;119;105;116;104;32;100;111;119;110;46;32;99;97;110;32;119;
    111;114;100;115;32;105].
Proof. vm_compute. reflexivity. Qed.

(* 420 bytes of English-like text, zlib level 9: dynamic Huffman block *)
Example ex_text_dynamic_l9 :
  inflate
    [69;81;89;110;196;48;8;189;10;39;240;157;72;77;198;84;137;169;188;140;149;219;247;129;167;
    234;79;132;129;183;145;203;234;139;138;45;58;68;42;173;130;207;23;163;224;33;13;189;79;113;
    106;205;116;63;52;138;118;202;246;194;162;225;193;3;115;111;56;176;9;205;31;26;122;11;241;
    97;115;144;189;129;228;19;248;68;133;51;45;217;83;87;115;141;83;91;199;86;3;145;104;163;
    206;154;131;23;116;62;158;29;68;157;150;181;220;163;81;33;9;37;29;37;145;85;7;50;246;225;
    161;27;88;65;2;128;235;58;255;240;32;7;30;55;103;40;74;219;214;191;39;20;139;179;122;178;
    103;91;204;208;189;252;12;213;150;59;125;75;34;29;30;62;110;162;213;85;109;94;249;115;12;
    59;209;243;244;127;17;162;116;250;5;36;68;83;156;72;71;255;63;99;88;132;232;205;245;137;
    100;97;167;23;217;96;63;180;94;87;132;3;120;213;180;255;66;100;215;95]
  = Some 
    [108;111;110;103;32;104;111;119;32;98;101;101;110;32;119;104;101;110;32;99;97;110;32;119;
    97;116;101;114;32;98;101;32;119;97;116;101;114;32;102;105;110;100;32;109;121;32;116;104;
    105;115;32;100;111;103;32;119;104;111;32;116;104;97;116;32;119;97;115;32;100;111;32;119;
    104;101;114;101;32;117;112;32;116;105;109;101;32;97;98;111;117;116;32;111;118;101;114;32;
    97;102;116;101;114;46;32;104;97;100;32;119;101;32;116;105;109;101;32;104;111;119;32;99;97;
    110;32;102;105;114;115;116;32;111;114;32;116;104;101;105;114;32;115;97;105;100;32;119;104;
    111;32;100;111;32;99;97;110;32;117;115;101;32;97;115;32;119;111;114;100;115;32;99;97;110;
    32;110;111;32;116;111;32;119;105;116;104;46;32;111;110;32;111;114;32;97;32;119;104;97;116;
    32;115;111;109;101;32;116;104;101;115;101;32;111;117;116;32;104;111;119;32;116;104;101;110;
    32;98;117;116;32;109;97;100;101;32;104;101;114;32;116;104;105;115;32;106;117;115;116;32;
    104;97;115;32;119;101;32;119;97;121;32;111;118;101;114;32;100;105;100;32;108;111;110;103;
    32;110;111;119;46;32;104;97;118;101;46;32;105;116;32;98;101;32;98;101;101;110;32;105;110;
    116;111;32;119;111;117;108;100;32;119;97;116;101;114;32;111;102;32;105;110;32;116;104;97;
    110;32;102;105;114;115;116;32;116;104;97;110;32;104;105;115;32;119;101;46;32;98;117;116;46;
    32;100;111;103;32;105;116;115;32;119;97;116;101;114;32;98;101;32;115;111;109;101;32;119;
    101;32;109;97;110;121;32;117;115;101;32;116;104;105;115;32;115;104;101;32;116;104;97;110;
    32;98;101;32;119;105;108;108;32;119;105;116;104;32;100;111;119;110;46;32;99;97;110;32;119;
    111;114;100;115;32;105].
Proof. vm_compute. reflexivity. Qed.

(* 120 bytes of text, Z_FIXED strategy: fixed Huffman with matches *)
Example ex_text_fixed :
  inflate
    [203;201;207;75;87;200;200;47;87;72;74;77;205;83;40;207;0;18;201;137;64;70;98;73;106;17;80;
    12;202;72;203;204;75;81;200;173;84;40;201;200;44;86;72;201;79;7;42;204;7;114;18;75;128;242;
    32;1;144;198;162;84;133;210;2;133;146;204;220;84;133;196;164;252;210;18;133;252;50;160;206;
    196;52;160;126;61;133;140;196;20;133;242;84;136;44;200;182;100;0]
  = Some 
    [108;111;110;103;32;104;111;119;32;98;101;101;110;32;119;104;101;110;32;99;97;110;32;119;
    97;116;101;114;32;98;101;32;119;97;116;101;114;32;102;105;110;100;32;109;121;32;116;104;
    105;115;32;100;111;103;32;119;104;111;32;116;104;97;116;32;119;97;115;32;100;111;32;119;
    104;101;114;101;32;117;112;32;116;105;109;101;32;97;98;111;117;116;32;111;118;101;114;32;
    97;102;116;101;114;46;32;104;97;100;32;119;101;32;116;105;109;101;32;104;111;119;32;99].
Proof. vm_compute. reflexivity. Qed.

(* three blocks: compressed, empty stored (Z_FULL_FLUSH marker), compressed final *)
Example ex_multiblock :
  inflate
    [44;77;91;14;194;48;12;187;138;79;192;157;178;53;93;35;177;6;165;25;213;110;143;11;252;68;
    142;159;79;239;7;154;79;108;170;29;179;241;236;66;32;169;65;238;15;170;245;130;243;70;54;
    27;40;126;208;232;124;36;169;47;98;5;67;113;189;144;118;42;100;243;43;225;111;38;165;50;
    255;64;147;130;169;63;117;173;173;141;106;49;232;10;22;169;5;134;88;249;246;178;238;3;0;0;
    255;255;21;141;209;9;196;48;12;67;87;209;4;217;201;109;204;37;71;107;65;236;212;220;246;
    231;130;126;164;135;164;83;12;219;21;226;72;174;238;56;43;48;34;136;156;49;26;104;224;130;
    32;135;4;156;183;34;134;86;129;59;48;152;175;51;28;101;110;233;138;161;171;146;233;248;110;
    47;254;174;42;82;126;224;83;164;207;142;139;246;169;131;108;69;31;109;152;129;67;75;181;50;
    237;125;229;190;250;31]
  = Some 
    [108;111;110;103;32;104;111;119;32;98;101;101;110;32;119;104;101;110;32;99;97;110;32;119;
    97;116;101;114;32;98;101;32;119;97;116;101;114;32;102;105;110;100;32;109;121;32;116;104;
    105;115;32;100;111;103;32;119;104;111;32;116;104;97;116;32;119;97;115;32;100;111;32;119;
    104;101;114;101;32;117;112;32;116;105;109;101;32;97;98;111;117;116;32;111;118;101;114;32;
    97;102;116;101;114;46;32;104;97;100;32;119;101;32;116;105;109;101;32;104;111;119;32;99;97;
    110;32;102;105;114;115;116;32;111;114;32;116;104;101;105;114;32;115;97;105;100;32;119;104;
    111;32;100;111;32;99;97;110;32;117;115;101;32;97;115;32;119;111;114;100;115;32;99;97;110;
    32;110;111;32;116;111;32;119;105;116;104;46;32;111;110;32;111;114;32;97;32;119;104;97;116;
    32;115;111;109;101;32;116;104;101;115;101;32;111;117;116;32;104;111;119;32;116;104;101;110;
    32;98;117;116;32;109;97;100;101;32;104;101;114;32;116;104;105;115;32;106;117;115;116;32;
    104;97;115;32;119;101;32;119;97;121;32;111;118;101;114;32;100;105;100;32;108;111;110;103;
    32;110;111;119;46;32;104;97;118;101;46;32;105;116;32;98;101;32;98;101;101;110;32;105;110;
    116;111;32;119;111;117;108;100].
Proof. vm_compute. reflexivity. Qed.

(* hello stream with bit 2 flipped: block type 3 (zlib: invalid block type) *)
Example ex_bad_blocktype :
  inflate
    [207;72;205;201;201;87;200;64;39;1]
  = None.
Proof. vm_compute. reflexivity. Qed.

(* fixed block: literal a, then a match whose distance reaches before the start of the output (zlib: invalid distance too far back) *)
Example ex_bad_distance :
  inflate
    [75;4;66;0]
  = None.
Proof. vm_compute. reflexivity. Qed.

(* hello stream truncated by one byte (zlib: stream incomplete, eof not reached) *)
Example ex_truncated :
  inflate
    [203;72;205;201;201;87;200;64;39]
  = None.
Proof. vm_compute. reflexivity. Qed.

(* stored block whose NLEN is not the complement of LEN (zlib: invalid stored block lengths) *)
Example ex_stored_bad_nlen :
  inflate
    [1;1;0;254;254;65]
  = None.
Proof. vm_compute. reflexivity. Qed.

(* dynamic block cut in the middle (zlib: stream incomplete, eof not reached) *)
Example ex_dynamic_truncated :
  inflate
    [69;81;89;110;196;48;8;189;10;39;240;157;72;77;198;84;137;169;188;140;149;219;247;129;167;
    234;79;132;129;183;145;203;234;139;138;45;58;68;42;173;130;207;23;163;224;33;13;189;79;113;
    106;205;116;63;52;138;118;202;246;194;162;225;193;3;115;111;56;176;9;205;31;26;122;11;241;
    97;115;144;189;129;228;19;248;68;133;51;45;217;83;87;115;141;83;91;199;86;3;145;104;163;
    206;154;131;23;116;62;158;29;68;157;150]
  = None.
Proof. vm_compute. reflexivity. Qed.

(* level-9 dynamic stream with bit 3 (inside the block header) flipped (zlib: invalid bit length repeat) *)
Example ex_dynamic_bad_header :
  inflate
    [77;81;89;110;196;48;8;189;10;39;240;157;72;77;198;84;137;169;188;140;149;219;247;129;167;
    234;79;132;129;183;145;203;234;139;138;45;58;68;42;173;130;207;23;163;224;33;13;189;79;113;
    106;205;116;63;52;138;118;202;246;194;162;225;193;3;115;111;56;176;9;205;31;26;122;11;241;
    97;115;144;189;129;228;19;248;68;133;51;45;217;83;87;115;141;83;91;199;86;3;145;104;163;
    206;154;131;23;116;62;158;29;68;157;150;181;220;163;81;33;9;37;29;37;145;85;7;50;246;225;
    161;27;88;65;2;128;235;58;255;240;32;7;30;55;103;40;74;219;214;191;39;20;139;179;122;178;
    103;91;204;208;189;252;12;213;150;59;125;75;34;29;30;62;110;162;213;85;109;94;249;115;12;
    59;209;243;244;127;17;162;116;250;5;36;68;83;156;72;71;255;63;99;88;132;232;205;245;137;
    100;97;167;23;217;96;63;180;94;87;132;3;120;213;180;255;66;100;215;95]
  = None.
Proof. vm_compute. reflexivity. Qed.

(* trailing bytes after the final block are not consumed *)
Example ex_trailing : inflate_ex ([75;4;0] ++ [1;2;3]) = Some ([97], 3).
Proof. vm_compute. reflexivity. Qed.

Example ex_ds_0 : deflate_stored [] = [1;0;0;255;255].
Proof. vm_compute. reflexivity. Qed.
Example ex_ds_1 : deflate_stored [7] = [1;1;0;254;255;7].
Proof. vm_compute. reflexivity. Qed.
Example ex_ds_5 : deflate_stored [1;2;3;4;5] = [1;5;0;250;255;1;2;3;4;5].
Proof. vm_compute. reflexivity. Qed.
Example ex_rt_0 : inflate (deflate_stored []) = Some [].
Proof. vm_compute. reflexivity. Qed.
Example ex_rt_1 : inflate (deflate_stored [7]) = Some [7].
Proof. vm_compute. reflexivity. Qed.
Example ex_rt_5 : inflate (deflate_stored [1;2;3;4;5]) = Some [1;2;3;4;5].
Proof. vm_compute. reflexivity. Qed.
