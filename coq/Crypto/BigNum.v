(* BigNum: a small record of integer operations, instantiated for stdlib Z
   and for Bignums.BigZ, and the generic number-theoretic helpers written
   once over it: octet-string conversions (RFC 8017 section 4), modular
   exponentiation (square and multiply), modular inverse (extended Euclid
   with fuel, and Fermat for prime moduli). *)
From JoseV Require Import Base.Bytes.
From Bignums Require Import BigZ BigN.
Local Open Scope Z_scope.

(* ------------------------------------------------------------------ *)
(* The operations.  All instances are signed integers; [imod]/[idiv] follow
   Z.modulo / Z.div (floor; result of [imod] has the sign of the divisor,
   so it is in [0, m) for m > 0). *)
Record intops (T : Type) := mk_intops {
  izero : T;
  ione : T;
  iadd : T -> T -> T;
  isub : T -> T -> T;
  imul : T -> T -> T;
  idiv : T -> T -> T;
  imod : T -> T -> T;
  ieqb : T -> T -> bool;
  iltb : T -> T -> bool;
  ieven : T -> bool;
  idiv2 : T -> T;
  iof_Z : Z -> T;
  ito_Z : T -> Z
}.
Arguments izero {T} _.
Arguments ione {T} _.
Arguments iadd {T} _ _ _.
Arguments isub {T} _ _ _.
Arguments imul {T} _ _ _.
Arguments idiv {T} _ _ _.
Arguments imod {T} _ _ _.
Arguments ieqb {T} _ _ _.
Arguments iltb {T} _ _ _.
Arguments ieven {T} _ _.
Arguments idiv2 {T} _ _.
Arguments iof_Z {T} _ _.
Arguments ito_Z {T} _ _.

Definition zops : intops Z :=
  mk_intops Z 0 1 Z.add Z.sub Z.mul Z.div Z.modulo Z.eqb Z.ltb Z.even Z.div2
            (fun z => z) (fun z => z).

Definition bigzops : intops BigZ.t_ :=
  mk_intops BigZ.t_ BigZ.zero BigZ.one BigZ.add BigZ.sub BigZ.mul BigZ.div
            BigZ.modulo BigZ.eqb BigZ.ltb BigZ.even BigZ.div2
            BigZ.of_Z BigZ.to_Z.

(* ------------------------------------------------------------------ *)
(* Octet strings <-> naturals, on N (shared by all instances). *)

(* big-endian bytes -> N *)
Definition os2ip_N (b : bytes) : N :=
  fold_left (fun acc x => N.lor (N.shiftl acc 8) x) b 0%N.

(* little-endian digits of x, exactly len of them, and what is left over *)
Fixpoint le_digits (x : N) (len : nat) : bytes * N :=
  match len with
  | O => ([], x)
  | S k => let (r, rest) := le_digits (N.shiftr x 8) k in
           (N.land x 255 :: r, rest)
  end.

(* I2OSP on N: big-endian, exactly len octets, None if x >= 256^len *)
Definition i2osp_N (x : N) (len : nat) : option bytes :=
  let (d, rest) := le_digits x len in
  if (rest =? 0)%N then Some (rev d) else None.

(* OS2IP / I2OSP on Z (RFC 8017 4.2 / 4.1) *)
Definition os2ip (b : bytes) : Z := Z.of_N (os2ip_N b).

Definition i2osp (x : Z) (len : nat) : option bytes :=
  if x <? 0 then None else i2osp_N (Z.to_N x) len.

(* ------------------------------------------------------------------ *)
Section Generic.
  Context {T : Type} (ops : intops T).

  Definition iof_N (x : N) : T := iof_Z ops (Z.of_N x).
  (* negative numbers map to 0 *)
  Definition ito_N (x : T) : N := Z.to_N (ito_Z ops x).

  Definition itwo : T := iadd ops (ione ops) (ione ops).
  Definition i256 : T := iof_Z ops 256.

  Definition ileb (x y : T) : bool := negb (iltb ops y x).
  Definition iis_zero (x : T) : bool := ieqb ops x (izero ops).

  (* big-endian bytes -> integer; Horner, one small multiplication and one
     small addition per octet (cheap for BigZ) *)
  Definition of_bytes (b : bytes) : T :=
    fold_left (fun acc x => iadd ops (imul ops acc i256) (iof_N x)) b (izero ops).

  (* integer -> big-endian bytes of exactly len octets; None if negative or
     too large *)
  Definition to_bytes (x : T) (len : nat) : option bytes :=
    i2osp (ito_Z ops x) len.

  (* number of bits / octets of a non-negative integer (0 for 0) *)
  Definition bit_len (x : T) : N := N.size (ito_N x).
  Definition octet_len (x : T) : nat := N.to_nat ((bit_len x + 7) / 8).

  (* addition, subtraction, multiplication modulo m (m > 0, arguments in
     [0,m) give results in [0,m)) *)
  Definition addm (m x y : T) : T := imod ops (iadd ops x y) m.
  Definition subm (m x y : T) : T := imod ops (isub ops x y) m.
  Definition mulm (m x y : T) : T := imod ops (imul ops x y) m.

  (* b^e mod m for e given in binary as a positive: e = 2 e' + bit,
     b^e = (b^e')^2 * b^bit.  (Left-to-right square and multiply.) *)
  Fixpoint modexp_pos (b : T) (e : positive) (m : T) : T :=
    match e with
    | xH => imod ops b m
    | xO e' => let r := modexp_pos b e' m in mulm m r r
    | xI e' => let r := modexp_pos b e' m in mulm m (mulm m r r) b
    end.

  (* b^e mod m; e <= 0 is treated as 0 (result 1 mod m) *)
  Definition modexp (b e m : T) : T :=
    match ito_N e with
    | N0 => imod ops (ione ops) m
    | Npos p => modexp_pos (imod ops b m) p m
    end.

  (* extended Euclid: invariant  r0 = t0 * a, r1 = t1 * a  (mod m) *)
  Fixpoint egcd (fuel : nat) (r0 r1 t0 t1 : T) : T * T :=
    match fuel with
    | O => (r0, t0)
    | S f =>
        if iis_zero r1 then (r0, t0)
        else let q := idiv ops r0 r1 in
             egcd f r1 (isub ops r0 (imul ops q r1))
                       t1 (isub ops t0 (imul ops q t1))
    end.

  (* a^-1 mod m (m > 1); None when gcd(a, m) <> 1.  Euclid needs at most
     ~1.44 * bits(m) division steps; fuel is 2 * bits(m) + 2. *)
  Definition modinv (a m : T) : option T :=
    let fuel := (2 * N.to_nat (bit_len m) + 2)%nat in
    let (g, t) := egcd fuel m (imod ops a m) (izero ops) (ione ops) in
    if ieqb ops g (ione ops) then Some (imod ops t m) else None.

  (* a^(p-2) mod p: the inverse of a modulo a prime p when p does not
     divide a (Fermat) *)
  Definition modinv_fermat (a p : T) : T :=
    modexp a (isub ops p itwo) p.

  (* x / 2^k, k a machine-size count *)
  Definition shiftr_N (x : T) (k : N) : T :=
    if (k =? 0)%N then x else idiv ops x (iof_N (N.shiftl 1 k)).

End Generic.

(* ------------------------------------------------------------------ *)
(* Known answers. *)

Example os2ip_ex : os2ip [1; 0; 255]%N = 65791.
Proof. vm_compute; reflexivity. Qed.
Example i2osp_ex : i2osp 65791 4 = Some [0; 1; 0; 255]%N.
Proof. vm_compute; reflexivity. Qed.
Example i2osp_ex_small : i2osp 65791 2 = None.
Proof. vm_compute; reflexivity. Qed.
Example i2osp_ex_neg : i2osp (-1) 2 = None.
Proof. vm_compute; reflexivity. Qed.
Example i2osp_ex_zero : i2osp 0 0 = Some [].
Proof. vm_compute; reflexivity. Qed.
Example of_bytes_ex_Z : of_bytes zops [1; 0; 255]%N = 65791.
Proof. vm_compute; reflexivity. Qed.
Example of_bytes_ex_BigZ : ito_Z bigzops (of_bytes bigzops [1; 0; 255]%N) = 65791.
Proof. vm_compute; reflexivity. Qed.
Example to_bytes_ex_BigZ :
  to_bytes bigzops (of_bytes bigzops [0; 1; 2; 3; 4; 5; 6; 7; 8; 9; 10; 11]%N) 12
  = Some [0; 1; 2; 3; 4; 5; 6; 7; 8; 9; 10; 11]%N.
Proof. vm_compute; reflexivity. Qed.
Example octet_len_ex : (octet_len zops 65535, octet_len zops 65536, octet_len zops 0)
                       = (2%nat, 3%nat, 0%nat).
Proof. vm_compute; reflexivity. Qed.

(* 4^13 mod 497 = 445 *)
Example modexp_ex_Z : modexp zops 4 13 497 = 445.
Proof. vm_compute; reflexivity. Qed.
Example modexp_ex_BigZ :
  ito_Z bigzops (modexp bigzops (iof_Z bigzops 4) (iof_Z bigzops 13) (iof_Z bigzops 497)) = 445.
Proof. vm_compute; reflexivity. Qed.
Example modexp_ex_zero : modexp zops 5 0 7 = 1.
Proof. vm_compute; reflexivity. Qed.
(* 2^(2^127-1 - 1) = 1 mod 2^127-1 (prime) *)
Example modexp_ex_m127 :
  let p := iof_Z bigzops (2^127 - 1) in
  ito_Z bigzops (modexp bigzops (iof_Z bigzops 2) (isub bigzops p (ione bigzops)) p) = 1.
Proof. vm_compute; reflexivity. Qed.

Example modinv_ex_Z : modinv zops 3 11 = Some 4.
Proof. vm_compute; reflexivity. Qed.
Example modinv_ex_none : modinv zops 6 9 = None.
Proof. vm_compute; reflexivity. Qed.
Example modinv_ex_BigZ :
  let p := iof_Z bigzops (2^127 - 1) in
  let a := iof_Z bigzops 123456789012345678901234567890 in
  match modinv bigzops a p with
  | Some i => (ito_Z bigzops (mulm bigzops p a i) =? 1)
              && (ito_Z bigzops i =? ito_Z bigzops (modinv_fermat bigzops a p))
  | None => false
  end = true.
Proof. vm_compute; reflexivity. Qed.
