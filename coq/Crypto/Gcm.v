(* AES-GCM (NIST SP 800-38D; test vectors from McGrew & Viega, "The
   Galois/Counter Mode of Operation (GCM)", Appendix B).

   A 128-bit block is handled as the N whose big-endian encoding is the block,
   so the GCM bit x_0 (the coefficient of alpha^0) is N bit 127 and the
   "rightmost" bit x_127 is N bit 0.  Tag length is fixed to 16 bytes.
   The key must be 16/24/32 bytes (aes_key_len_ok); iv may have any length. *)
From JoseV Require Import Base.Bytes.
From JoseV Require Import Crypto.Aes.
Local Open Scope N_scope.

(* ---- GF(2^128), SP 800-38D section 6.3 ---- *)

(* R = 11100001 || 0^120 *)
Definition gf128_R : N := Eval vm_compute in N.shiftl 0xE1 120.

(* multiplication by alpha: shift right one bit, reduce if a bit fell off *)
Definition gf128_mul_alpha (z : N) : N :=
  if N.odd z then N.lxor (N.div2 z) gf128_R else N.div2 z.

(* Horner evaluation of  sum_i x_i * alpha^i * y  starting from x_127 (N bit 0):
   z <- z * alpha + x_i * y, 128 times *)
Fixpoint gf128_mul_loop (fuel : nat) (x z y : N) : N :=
  match fuel with
  | O => z
  | S f =>
    let z1 := gf128_mul_alpha z in
    gf128_mul_loop f (N.div2 x) (if N.odd x then N.lxor z1 y else z1) y
  end.

(* Always 128.  Written as a match on x so that gf128_mul applied to a variable
   is stuck for weak-head reduction: with a literal fuel, Coq's guard checker
   (which unfolds call-by-name) blows up exponentially on any Fixpoint that has
   a gf128_mul in an argument of its recursive call. *)
Definition gf128_fuel (x : N) : nat :=
  match x with N0 => 128%nat | Npos _ => 128%nat end.

Lemma gf128_fuel_128 x : gf128_fuel x = 128%nat.
Proof. destruct x; reflexivity. Qed.

(* x, y < 2^128 *)
Definition gf128_mul (x y : N) : N := gf128_mul_loop (gf128_fuel x) x 0 y.

(* ---- GHASH, SP 800-38D section 6.4 ---- *)

(* a block of at most 16 bytes, zero-padded on the right, as a number *)
Definition block_N (b : bytes) : N :=
  N.shiftl (N_of_be b) (8 * N.of_nat (16 - length b)).

Definition ghash_step (h y blk : N) : N := gf128_mul (N.lxor y blk) h.

Definition ghash_blocks (h y : N) (blocks : list bytes) : N :=
  fold_left (fun y b => ghash_step h y (block_N b)) blocks y.

(* absorb a byte string; a trailing partial block is zero-padded *)
Definition ghash_update (h y : N) (data : bytes) : N :=
  ghash_blocks h y (chunks 16 data).

(* GHASH_H(data) for a 16-byte hash subkey h; data is meant to be a multiple of
   16 bytes long (otherwise it is zero-padded on the right) *)
Definition ghash (h data : bytes) : bytes :=
  be_of_N 16 (ghash_update (N_of_be h) 0 data).

(* ---- GCTR, SP 800-38D section 6.5 ---- *)

Definition inc32 (cb : N) : N :=
  N.lor (N.shiftl (N.shiftr cb 32) 32) (N.land (cb + 1) 0xffffffff).

(* bytes_xor truncates to the shorter argument, which handles a partial last block *)
Fixpoint gctr_blocks (ks : list bytes) (cb : N) (blocks : list bytes) : list bytes :=
  match blocks with
  | [] => []
  | b :: r =>
    bytes_xor b (aes_encrypt_block_ks ks (be_of_N 16 cb)) :: gctr_blocks ks (inc32 cb) r
  end.

Definition gctr (ks : list bytes) (icb : N) (x : bytes) : bytes :=
  concat (gctr_blocks ks icb (chunks 16 x)).

(* ---- GCM-AE / GCM-AD, SP 800-38D section 7 ---- *)

Definition bitlen (b : bytes) : N := 8 * N.of_nat (length b).

Definition gcm_hash_subkey (ks : list bytes) : N :=
  N_of_be (aes_encrypt_block_ks ks (repeatN 0 16%nat)).

Definition gcm_j0 (h : N) (iv : bytes) : N :=
  if Nat.eqb (length iv) 12 then N.lor (N.shiftl (N_of_be iv) 32) 1
  else ghash_step h (ghash_update h 0 iv) (bitlen iv).

(* the full tag T = GCTR_K(J0, GHASH_H(A || pad || C || pad || len A || len C)) *)
Definition gcm_tag (ks : list bytes) (h j0 : N) (aad ct : bytes) : bytes :=
  let s := ghash_update h (ghash_update h 0 aad) ct in
  let s := ghash_step h s (N.lor (N.shiftl (bitlen aad) 64) (bitlen ct)) in
  be_of_N 16 (N.lxor s (N_of_be (aes_encrypt_block_ks ks (be_of_N 16 j0)))).

Definition gcm_encrypt_ks (ks : list bytes) (iv aad pt : bytes) : bytes * bytes :=
  let h := gcm_hash_subkey ks in
  let j0 := gcm_j0 h iv in
  let ct := gctr ks (inc32 j0) pt in
  (ct, gcm_tag ks h j0 aad ct).

Definition gcm_decrypt_ks (ks : list bytes) (iv aad ct tag : bytes) : option bytes :=
  let h := gcm_hash_subkey ks in
  let j0 := gcm_j0 h iv in
  if Nat.eqb (length tag) 16 && bytes_eqb tag (gcm_tag ks h j0 aad ct)
  then Some (gctr ks (inc32 j0) ct)
  else None.

Definition gcm_encrypt (key iv aad pt : bytes) : bytes * bytes :=
  gcm_encrypt_ks (aes_key_expand key) iv aad pt.

Definition gcm_decrypt (key iv aad ct tag : bytes) : option bytes :=
  gcm_decrypt_ks (aes_key_expand key) iv aad ct tag.

Module GcmTest.

(* ------------------------------------------------------------------ *)
(* Test vectors (McGrew-Viega Appendix B)                               *)
(* ------------------------------------------------------------------ *)

Definition z12 : bytes := repeatN 0 12%nat.
Definition z16 : bytes := repeatN 0 16%nat.

Definition tv_key : bytes := hexN 16 0xfeffe9928665731c6d6a8f9467308308.
Definition tv_pt : bytes :=
  hexN 64 0xd9313225f88406e5a55909c5aff5269a86a7a9531534f7da2e4c303d8a318a721c3c0c95956809532fcf0e2449a6b525b16aedf5aa0de657ba637b391aafd255.
Definition tv_pt60 : bytes := take 60 tv_pt.
Definition tv_aad : bytes := hexN 20 0xfeedfacedeadbeeffeedfacedeadbeefabaddad2.
Definition tv_iv : bytes := hexN 12 0xcafebabefacedbaddecaf888.
Definition tv_iv8 : bytes := hexN 8 0xcafebabefacedbad.
Definition tv_iv60 : bytes :=
  hexN 60 0x9313225df88406e555909c5aff5269aa6a7a9538534f7da1e4c303d2a318a728c3c0c95156809539fcf0e2429a6b525416aedbf5a0de6a57a637b39b.
Definition tv_ct128 : bytes :=
  hexN 64 0x42831ec2217774244b7221b784d0d49ce3aa212f2c02a4e035c17e2329aca12e21d514b25466931c7d8f6a5aac84aa051ba30b396a0aac973d58e091473f5985.
Definition tv_key192 : bytes := tv_key ++ take 8 tv_key.
Definition tv_key256 : bytes := tv_key ++ tv_key.

(* hash subkey and GHASH value of test case 2 *)
Example gcm_tc2_h : aes_encrypt_block z16 z16 = hexN 16 0x66e94bd4ef8a2c3b884cfa59ca342b2e.
Proof. vm_compute; reflexivity. Qed.
Example gcm_tc2_ghash :
  ghash (hexN 16 0x66e94bd4ef8a2c3b884cfa59ca342b2e)
        (hexN 32 0x0388dace60b6a392f328c2b971b2fe7800000000000000000000000000000080)
  = hexN 16 0xf38cbb1ad69223dcc3457ae5b6b0f885.
Proof. vm_compute; reflexivity. Qed.

(* alpha^0 (= 1 || 0^127) is the multiplicative unit; multiplication commutes *)
Example gf128_unit :
  let a := N_of_be tv_ct128 mod 2 ^ 128 in
  let one := N.shiftl 1 127 in
  (gf128_mul a one, gf128_mul one a) = (a, a).
Proof. vm_compute; reflexivity. Qed.
Example gf128_comm :
  let a := N_of_be (take 16 tv_pt) in let b := N_of_be (take 16 tv_ct128) in
  gf128_mul a b = gf128_mul b a.
Proof. vm_compute; reflexivity. Qed.

Example gcm_tc1 : gcm_encrypt z16 z12 [] [] = ([], hexN 16 0x58e2fccefa7e3061367f1d57a4e7455a).
Proof. vm_compute; reflexivity. Qed.
Example gcm_tc2 :
  gcm_encrypt z16 z12 [] z16
  = (hexN 16 0x0388dace60b6a392f328c2b971b2fe78, hexN 16 0xab6e47d42cec13bdf53a67b21257bddf).
Proof. vm_compute; reflexivity. Qed.
Example gcm_tc3 :
  gcm_encrypt tv_key tv_iv [] tv_pt = (tv_ct128, hexN 16 0x4d5c2af327cd64a62cf35abd2ba6fab4).
Proof. vm_compute; reflexivity. Qed.
Example gcm_tc4 :
  gcm_encrypt tv_key tv_iv tv_aad tv_pt60
  = (take 60 tv_ct128, hexN 16 0x5bc94fbc3221a5db94fae95ae7121a47).
Proof. vm_compute; reflexivity. Qed.
(* 8-byte IV *)
Example gcm_tc5 :
  gcm_encrypt tv_key tv_iv8 tv_aad tv_pt60
  = (hexN 60 0x61353b4c2806934a777ff51fa22a4755699b2a714fcdc6f83766e5f97b6c742373806900e49f24b22b097544d4896b424989b5e1ebac0f07c23f4598,
     hexN 16 0x3612d2e79e3b0785561be14aaca2fccb).
Proof. vm_compute; reflexivity. Qed.
(* 60-byte IV *)
Example gcm_tc6 :
  gcm_encrypt tv_key tv_iv60 tv_aad tv_pt60
  = (hexN 60 0x8ce24998625615b603a033aca13fb894be9112a5c3a211a8ba262a3cca7e2ca701e4a9a4fba43c90ccdcb281d48c7c6fd62875d2aca417034c34aee5,
     hexN 16 0x619cc5aefffe0bfa462af43c1699d050).
Proof. vm_compute; reflexivity. Qed.
(* AES-192 *)
Example gcm_tc7 :
  gcm_encrypt (repeatN 0 24%nat) z12 [] [] = ([], hexN 16 0xcd33b28ac773f74ba00ed1f312572435).
Proof. vm_compute; reflexivity. Qed.
Example gcm_tc8 :
  gcm_encrypt (repeatN 0 24%nat) z12 [] z16
  = (hexN 16 0x98e7247c07f0fe411c267e4384b0f600, hexN 16 0x2ff58d80033927ab8ef4d4587514f0fb).
Proof. vm_compute; reflexivity. Qed.
Example gcm_tc10 :
  gcm_encrypt tv_key192 tv_iv tv_aad tv_pt60
  = (hexN 60 0x3980ca0b3c00e841eb06fac4872a2757859e1ceaa6efd984628593b40ca1e19c7d773d00c144c525ac619d18c84a3f4718e2448b2fe324d9ccda2710,
     hexN 16 0x2519498e80f1478f37ba55bd6d27618c).
Proof. vm_compute; reflexivity. Qed.
(* AES-256 *)
Example gcm_tc13 :
  gcm_encrypt (repeatN 0 32%nat) z12 [] [] = ([], hexN 16 0x530f8afbc74536b9a963b4f1c4cb738b).
Proof. vm_compute; reflexivity. Qed.
Example gcm_tc14 :
  gcm_encrypt (repeatN 0 32%nat) z12 [] z16
  = (hexN 16 0xcea7403d4d606b6e074ec5d3baf39d18, hexN 16 0xd0d1c8a799996bf0265b98b5d48ab919).
Proof. vm_compute; reflexivity. Qed.
Example gcm_tc15 :
  gcm_encrypt tv_key256 tv_iv [] tv_pt
  = (hexN 64 0x522dc1f099567d07f47f37a32a84427d643a8cdcbfe5c0c97598a2bd2555d1aa8cb08e48590dbb3da7b08b1056828838c5f61e6393ba7a0abcc9f662898015ad,
     hexN 16 0xb094dac5d93471bdec1a502270e3cc6c).
Proof. vm_compute; reflexivity. Qed.
Example gcm_tc16 :
  gcm_encrypt tv_key256 tv_iv tv_aad tv_pt60
  = (hexN 60 0x522dc1f099567d07f47f37a32a84427d643a8cdcbfe5c0c97598a2bd2555d1aa8cb08e48590dbb3da7b08b1056828838c5f61e6393ba7a0abcc9f662,
     hexN 16 0x76fc6ece0f4e1768cddf8853bb2d551b).
Proof. vm_compute; reflexivity. Qed.
Example gcm_tc18 :
  gcm_encrypt tv_key256 tv_iv60 tv_aad tv_pt60
  = (hexN 60 0x5a8def2f0c9e53f1f75d7853659e2a20eeb2b22aafde6419a058ab4f6f746bf40fc0c3b780f244452da3ebf1c5d82cdea2418997200ef82e44ae7e3f,
     hexN 16 0xa44a8266ee1c8eb0c8b5d4cf5ae9f19a).
Proof. vm_compute; reflexivity. Qed.

(* decryption: accepts the genuine tag, rejects everything else *)
Example gcm_dec_tc4 :
  gcm_decrypt tv_key tv_iv tv_aad (take 60 tv_ct128) (hexN 16 0x5bc94fbc3221a5db94fae95ae7121a47)
  = Some tv_pt60.
Proof. vm_compute; reflexivity. Qed.
Example gcm_dec_tc16 :
  gcm_decrypt tv_key256 tv_iv tv_aad (fst (gcm_encrypt tv_key256 tv_iv tv_aad tv_pt60))
              (hexN 16 0x76fc6ece0f4e1768cddf8853bb2d551b)
  = Some tv_pt60.
Proof. vm_compute; reflexivity. Qed.
Example gcm_dec_rejects :
  let ct := take 60 tv_ct128 in
  let tag := hexN 16 0x5bc94fbc3221a5db94fae95ae7121a47 in
  (gcm_decrypt tv_key tv_iv tv_aad ct (hexN 16 0x5bc94fbc3221a5db94fae95ae7121a46),  (* tag bit flipped *)
   gcm_decrypt tv_key tv_iv tv_aad ct (take 15 tag),                               (* short tag *)
   gcm_decrypt tv_key tv_iv tv_aad ct (tag ++ [0]),                                (* long tag *)
   gcm_decrypt tv_key tv_iv tv_aad ct [],
   gcm_decrypt tv_key tv_iv (take 19 tv_aad) ct tag,                               (* aad changed *)
   gcm_decrypt tv_key tv_iv tv_aad (take 59 ct) tag,                               (* ct truncated *)
   gcm_decrypt tv_key tv_iv8 tv_aad ct tag)                                        (* other iv *)
  = (None, None, None, None, None, None, None).
Proof. vm_compute; reflexivity. Qed.

(* the 32-bit counter wraps without touching the upper 96 bits *)
Example inc32_wrap :
  inc32 (N_of_be (hexN 16 0x0102030405060708090a0b0cffffffff))
  = N_of_be (hexN 16 0x0102030405060708090a0b0c00000000).
Proof. vm_compute; reflexivity. Qed.

End GcmTest.
