(* AES-CBC (NIST SP 800-38A section 6.2) with PKCS#7 padding (RFC 5652 6.3).

   The key length (16/24/32) selects AES-128/192/256; the IV must be 16 bytes.
   With a malformed key or IV the raw functions produce short/empty blocks and
   cbc_decrypt returns None; callers are expected to validate key and IV
   lengths (see aes_key_len_ok). *)
From JoseV Require Import Base.Bytes.
From JoseV Require Import Crypto.Aes.
Local Open Scope N_scope.

(* ---- raw CBC on a list of 16-byte blocks, schedule already expanded ---- *)

Fixpoint cbc_enc_blocks (ks : list bytes) (prev : bytes) (blocks : list bytes) : list bytes :=
  match blocks with
  | [] => []
  | b :: r =>
    let c := aes_encrypt_block_ks ks (bytes_xor prev b) in
    c :: cbc_enc_blocks ks c r
  end.

Fixpoint cbc_dec_blocks (ks : list bytes) (prev : bytes) (blocks : list bytes) : list bytes :=
  match blocks with
  | [] => []
  | c :: r => bytes_xor prev (aes_decrypt_block_ks ks c) :: cbc_dec_blocks ks c r
  end.

(* ---- raw CBC on byte strings; meaningful when the length is a multiple of 16 ---- *)

Definition cbc_encrypt_nopad_ks (ks : list bytes) (iv pt : bytes) : bytes :=
  concat (cbc_enc_blocks ks iv (chunks 16 pt)).
Definition cbc_decrypt_nopad_ks (ks : list bytes) (iv ct : bytes) : bytes :=
  concat (cbc_dec_blocks ks iv (chunks 16 ct)).

Definition cbc_encrypt_nopad (key iv pt : bytes) : bytes :=
  cbc_encrypt_nopad_ks (aes_key_expand key) iv pt.
Definition cbc_decrypt_nopad (key iv ct : bytes) : bytes :=
  cbc_decrypt_nopad_ks (aes_key_expand key) iv ct.

(* ---- PKCS#7 ---- *)

(* always adds 1..16 bytes *)
Definition pkcs7_pad (m : bytes) : bytes :=
  let p := (16 - Nat.modulo (length m) 16)%nat in
  m ++ repeatN (N.of_nat p) p.

(* None unless the last byte p satisfies 1 <= p <= 16, p <= length, and the
   last p bytes all equal p *)
Definition pkcs7_unpad (m : bytes) : option bytes :=
  match m with
  | [] => None
  | _ :: _ =>
    let p := last m 0 in
    let n := length m in
    let pn := N.to_nat p in
    if (1 <=? p) && (p <=? 16) && Nat.leb pn n then
      let body := (n - pn)%nat in
      if forallb (N.eqb p) (drop body m) then Some (take body m) else None
    else None
  end.

(* ---- the padded mode ---- *)

Definition cbc_encrypt_ks (ks : list bytes) (iv pt : bytes) : bytes :=
  cbc_encrypt_nopad_ks ks iv (pkcs7_pad pt).

Definition cbc_decrypt_ks (ks : list bytes) (iv ct : bytes) : option bytes :=
  let n := length ct in
  if Nat.eqb n 0 || negb (Nat.eqb (Nat.modulo n 16) 0) then None
  else
    let m := cbc_decrypt_nopad_ks ks iv ct in
    if Nat.eqb (length m) n then pkcs7_unpad m else None.

Definition cbc_encrypt (key iv pt : bytes) : bytes :=
  cbc_encrypt_ks (aes_key_expand key) iv pt.
Definition cbc_decrypt (key iv ct : bytes) : option bytes :=
  cbc_decrypt_ks (aes_key_expand key) iv ct.

Module CbcTest.

(* ------------------------------------------------------------------ *)
(* Test vectors                                                         *)
(* ------------------------------------------------------------------ *)

Definition f2_iv : bytes := hexN 16 0x000102030405060708090a0b0c0d0e0f.
Definition f2_pt : bytes :=
  hexN 64 0x6bc1bee22e409f96e93d7e117393172aae2d8a571e03ac9c9eb76fac45af8e5130c81c46a35ce411e5fbc1191a0a52eff69f2445df4f9b17ad2b417be66c3710.
Definition f2_key128 : bytes := hexN 16 0x2b7e151628aed2a6abf7158809cf4f3c.
Definition f2_key192 : bytes := hexN 24 0x8e73b0f7da0e6452c810f32b809079e562f8ead2522c6b7b.
Definition f2_key256 : bytes :=
  hexN 32 0x603deb1015ca71be2b73aef0857d77811f352c073b6108d72d9810a30914dff4.
Definition f2_ct128 : bytes :=
  hexN 64 0x7649abac8119b246cee98e9b12e9197d5086cb9b507219ee95db113a917678b273bed6b8e3c1743b7116e69e222295163ff1caa1681fac09120eca307586e1a7.
Definition f2_ct192 : bytes :=
  hexN 64 0x4f021db243bc633d7178183a9fa071e8b4d9ada9ad7dedf4e5e738763f69145a571b242012fb7ae07fa9baac3df102e008b0e27988598881d920a9e64f5615cd.
Definition f2_ct256 : bytes :=
  hexN 64 0xf58c4c04d6e5f1ba779eabfb5f7bfbd69cfc4e967edb808d679f777bc6702c7d39f23369a9d9bacfa530e26304231461b2eb05e2c39be9fcda6c19078c6a9d1b.

(* SP 800-38A F.2.1 - F.2.6 *)
Example sp800_38a_f21 : cbc_encrypt_nopad f2_key128 f2_iv f2_pt = f2_ct128.
Proof. vm_compute; reflexivity. Qed.
Example sp800_38a_f22 : cbc_decrypt_nopad f2_key128 f2_iv f2_ct128 = f2_pt.
Proof. vm_compute; reflexivity. Qed.
Example sp800_38a_f23 : cbc_encrypt_nopad f2_key192 f2_iv f2_pt = f2_ct192.
Proof. vm_compute; reflexivity. Qed.
Example sp800_38a_f24 : cbc_decrypt_nopad f2_key192 f2_iv f2_ct192 = f2_pt.
Proof. vm_compute; reflexivity. Qed.
Example sp800_38a_f25 : cbc_encrypt_nopad f2_key256 f2_iv f2_pt = f2_ct256.
Proof. vm_compute; reflexivity. Qed.
Example sp800_38a_f26 : cbc_decrypt_nopad f2_key256 f2_iv f2_ct256 = f2_pt.
Proof. vm_compute; reflexivity. Qed.

(* padding *)
Example pad_lengths :
  map (fun n => length (pkcs7_pad (repeatN 7 n))) [0; 1; 15; 16; 17; 31; 32]%nat
  = [16; 16; 16; 32; 32; 32; 48]%nat.
Proof. vm_compute; reflexivity. Qed.
Example pad_unpad :
  forallb (fun n => match pkcs7_unpad (pkcs7_pad (repeatN 16 n)) with
                    | Some m => bytes_eqb m (repeatN 16 n) | None => false end)
          (seq 0 40) = true.
Proof. vm_compute; reflexivity. Qed.
Example unpad_bad :
  map pkcs7_unpad [[]; [0]; [17]; [2]; [1; 2]; [3; 2; 3]; repeatN 17 17%nat]
  = [None; None; None; None; None; None; None].
Proof. vm_compute; reflexivity. Qed.

(* the padded mode: a full block of 0x10 is appended to an aligned message, so
   the first 64 bytes are the F.2.1 ciphertext *)
Example cbc_padded_prefix :
  let c := cbc_encrypt f2_key128 f2_iv f2_pt in
  (length c, take 64 c) = (80%nat, f2_ct128).
Proof. vm_compute; reflexivity. Qed.
(* cross-checked with OpenSSL: AES-128-CBC, key/iv as in F.2, pt = first 20 bytes *)
Example cbc_padded_20 :
  cbc_encrypt f2_key128 f2_iv (take 20 f2_pt)
  = hexN 32 0x7649abac8119b246cee98e9b12e9197d2e013f890472d82217b17f45f6e7f539.
Proof. vm_compute; reflexivity. Qed.
Example cbc_roundtrip :
  forallb (fun n => match cbc_decrypt f2_key256 f2_iv (cbc_encrypt f2_key256 f2_iv (take n f2_pt)) with
                    | Some m => bytes_eqb m (take n f2_pt) | None => false end)
          [0; 1; 15; 16; 17; 33; 64]%nat = true.
Proof. vm_compute; reflexivity. Qed.
Example cbc_decrypt_rejects :
  (cbc_decrypt f2_key128 f2_iv [],
   cbc_decrypt f2_key128 f2_iv (take 17 f2_ct128),
   cbc_decrypt f2_key128 f2_iv f2_ct128,          (* F.2 plaintext ends in 0x10 but not 16 times *)
   cbc_decrypt [] f2_iv f2_ct128)
  = (None, None, None, None).
Proof. vm_compute; reflexivity. Qed.

End CbcTest.
