(* AES (FIPS 197): executable reference implementation.

   Data representation: a byte is an N below 256, a block / key / round key is
   a list of bytes in the order of FIPS 197 section 3.3 (in0 .. in15), i.e. the
   state is stored column by column: s[r,c] = nth (r + 4c).

   Everything is total.  On malformed input (key length not 16/24/32, block
   length not 16) the block functions return [] -- never the identity. *)
From JoseV Require Import Base.Bytes.
Local Open Scope N_scope.

(* ------------------------------------------------------------------ *)
(* Generic byte-string helpers shared by Cbc/Gcm/KeyWrap/CbcHs          *)
(* ------------------------------------------------------------------ *)

(* bytewise xor, truncated to the shorter argument *)
Fixpoint bytes_xor (a b : bytes) : bytes :=
  match a, b with
  | x :: a', y :: b' => N.lxor x y :: bytes_xor a' b'
  | _, _ => []
  end.

(* split into consecutive pieces of n elements (the last one may be shorter);
   fuel = an upper bound on the number of pieces, [length l] always suffices *)
Fixpoint chunks_fuel {A} (fuel n : nat) (l : list A) : list (list A) :=
  match fuel with
  | O => []
  | S f => match l with
           | [] => []
           | _ => take n l :: chunks_fuel f n (drop n l)
           end
  end.
Definition chunks {A} (n : nat) (l : list A) : list (list A) :=
  chunks_fuel (length l) n l.

(* List.rev is quadratic (it appends at the end); this one is linear *)
Definition rev_lin {A} (l : list A) : list A := rev_append l [].
Lemma rev_lin_rev {A} (l : list A) : rev_lin l = rev l.
Proof. unfold rev_lin. rewrite rev_append_rev. apply app_nil_r. Qed.

(* big-endian bytes -> N *)
Definition N_of_be (b : bytes) : N :=
  fold_left (fun acc x => N.lor (N.shiftl acc 8) x) b 0.

(* N -> big-endian bytes of exactly len bytes (value taken modulo 256^len) *)
Fixpoint be_of_N_acc (len : nat) (v : N) (acc : bytes) : bytes :=
  match len with
  | O => acc
  | S k => be_of_N_acc k (N.shiftr v 8) (N.land v 255 :: acc)
  end.
Definition be_of_N (len : nat) (v : N) : bytes := be_of_N_acc len v [].

(* writing test vectors: [hexN 16 0x00112233...] *)
Definition hexN (len : nat) (v : N) : bytes := be_of_N len v.

(* ------------------------------------------------------------------ *)
(* GF(2^8)                                                              *)
(* ------------------------------------------------------------------ *)

Definition xtime (x : N) : N :=
  if 128 <=? x then N.lxor (N.double x) 283 (* 0x11b *) else N.double x.

Definition mul2 (x : N) : N := xtime x.
Definition mul3 (x : N) : N := N.lxor (xtime x) x.
Definition mul9 (x : N) : N := N.lxor (xtime (xtime (xtime x))) x.
Definition mul11 (x : N) : N :=
  let x2 := xtime x in N.lxor (N.lxor (xtime (xtime x2)) x2) x.
Definition mul13 (x : N) : N :=
  let x4 := xtime (xtime x) in N.lxor (N.lxor (xtime x4) x4) x.
Definition mul14 (x : N) : N :=
  let x2 := xtime x in let x4 := xtime x2 in N.lxor (N.lxor (xtime x4) x4) x2.

(* ------------------------------------------------------------------ *)
(* S-boxes (FIPS 197 figures 7 and 14)                                  *)
(* ------------------------------------------------------------------ *)

Definition sbox_flat : list N := [
    0x63; 0x7c; 0x77; 0x7b; 0xf2; 0x6b; 0x6f; 0xc5; 0x30; 0x01; 0x67; 0x2b; 0xfe; 0xd7; 0xab; 0x76;
    0xca; 0x82; 0xc9; 0x7d; 0xfa; 0x59; 0x47; 0xf0; 0xad; 0xd4; 0xa2; 0xaf; 0x9c; 0xa4; 0x72; 0xc0;
    0xb7; 0xfd; 0x93; 0x26; 0x36; 0x3f; 0xf7; 0xcc; 0x34; 0xa5; 0xe5; 0xf1; 0x71; 0xd8; 0x31; 0x15;
    0x04; 0xc7; 0x23; 0xc3; 0x18; 0x96; 0x05; 0x9a; 0x07; 0x12; 0x80; 0xe2; 0xeb; 0x27; 0xb2; 0x75;
    0x09; 0x83; 0x2c; 0x1a; 0x1b; 0x6e; 0x5a; 0xa0; 0x52; 0x3b; 0xd6; 0xb3; 0x29; 0xe3; 0x2f; 0x84;
    0x53; 0xd1; 0x00; 0xed; 0x20; 0xfc; 0xb1; 0x5b; 0x6a; 0xcb; 0xbe; 0x39; 0x4a; 0x4c; 0x58; 0xcf;
    0xd0; 0xef; 0xaa; 0xfb; 0x43; 0x4d; 0x33; 0x85; 0x45; 0xf9; 0x02; 0x7f; 0x50; 0x3c; 0x9f; 0xa8;
    0x51; 0xa3; 0x40; 0x8f; 0x92; 0x9d; 0x38; 0xf5; 0xbc; 0xb6; 0xda; 0x21; 0x10; 0xff; 0xf3; 0xd2;
    0xcd; 0x0c; 0x13; 0xec; 0x5f; 0x97; 0x44; 0x17; 0xc4; 0xa7; 0x7e; 0x3d; 0x64; 0x5d; 0x19; 0x73;
    0x60; 0x81; 0x4f; 0xdc; 0x22; 0x2a; 0x90; 0x88; 0x46; 0xee; 0xb8; 0x14; 0xde; 0x5e; 0x0b; 0xdb;
    0xe0; 0x32; 0x3a; 0x0a; 0x49; 0x06; 0x24; 0x5c; 0xc2; 0xd3; 0xac; 0x62; 0x91; 0x95; 0xe4; 0x79;
    0xe7; 0xc8; 0x37; 0x6d; 0x8d; 0xd5; 0x4e; 0xa9; 0x6c; 0x56; 0xf4; 0xea; 0x65; 0x7a; 0xae; 0x08;
    0xba; 0x78; 0x25; 0x2e; 0x1c; 0xa6; 0xb4; 0xc6; 0xe8; 0xdd; 0x74; 0x1f; 0x4b; 0xbd; 0x8b; 0x8a;
    0x70; 0x3e; 0xb5; 0x66; 0x48; 0x03; 0xf6; 0x0e; 0x61; 0x35; 0x57; 0xb9; 0x86; 0xc1; 0x1d; 0x9e;
    0xe1; 0xf8; 0x98; 0x11; 0x69; 0xd9; 0x8e; 0x94; 0x9b; 0x1e; 0x87; 0xe9; 0xce; 0x55; 0x28; 0xdf;
    0x8c; 0xa1; 0x89; 0x0d; 0xbf; 0xe6; 0x42; 0x68; 0x41; 0x99; 0x2d; 0x0f; 0xb0; 0x54; 0xbb; 0x16 ].

Definition inv_sbox_flat : list N := [
    0x52; 0x09; 0x6a; 0xd5; 0x30; 0x36; 0xa5; 0x38; 0xbf; 0x40; 0xa3; 0x9e; 0x81; 0xf3; 0xd7; 0xfb;
    0x7c; 0xe3; 0x39; 0x82; 0x9b; 0x2f; 0xff; 0x87; 0x34; 0x8e; 0x43; 0x44; 0xc4; 0xde; 0xe9; 0xcb;
    0x54; 0x7b; 0x94; 0x32; 0xa6; 0xc2; 0x23; 0x3d; 0xee; 0x4c; 0x95; 0x0b; 0x42; 0xfa; 0xc3; 0x4e;
    0x08; 0x2e; 0xa1; 0x66; 0x28; 0xd9; 0x24; 0xb2; 0x76; 0x5b; 0xa2; 0x49; 0x6d; 0x8b; 0xd1; 0x25;
    0x72; 0xf8; 0xf6; 0x64; 0x86; 0x68; 0x98; 0x16; 0xd4; 0xa4; 0x5c; 0xcc; 0x5d; 0x65; 0xb6; 0x92;
    0x6c; 0x70; 0x48; 0x50; 0xfd; 0xed; 0xb9; 0xda; 0x5e; 0x15; 0x46; 0x57; 0xa7; 0x8d; 0x9d; 0x84;
    0x90; 0xd8; 0xab; 0x00; 0x8c; 0xbc; 0xd3; 0x0a; 0xf7; 0xe4; 0x58; 0x05; 0xb8; 0xb3; 0x45; 0x06;
    0xd0; 0x2c; 0x1e; 0x8f; 0xca; 0x3f; 0x0f; 0x02; 0xc1; 0xaf; 0xbd; 0x03; 0x01; 0x13; 0x8a; 0x6b;
    0x3a; 0x91; 0x11; 0x41; 0x4f; 0x67; 0xdc; 0xea; 0x97; 0xf2; 0xcf; 0xce; 0xf0; 0xb4; 0xe6; 0x73;
    0x96; 0xac; 0x74; 0x22; 0xe7; 0xad; 0x35; 0x85; 0xe2; 0xf9; 0x37; 0xe8; 0x1c; 0x75; 0xdf; 0x6e;
    0x47; 0xf1; 0x1a; 0x71; 0x1d; 0x29; 0xc5; 0x89; 0x6f; 0xb7; 0x62; 0x0e; 0xaa; 0x18; 0xbe; 0x1b;
    0xfc; 0x56; 0x3e; 0x4b; 0xc6; 0xd2; 0x79; 0x20; 0x9a; 0xdb; 0xc0; 0xfe; 0x78; 0xcd; 0x5a; 0xf4;
    0x1f; 0xdd; 0xa8; 0x33; 0x88; 0x07; 0xc7; 0x31; 0xb1; 0x12; 0x10; 0x59; 0x27; 0x80; 0xec; 0x5f;
    0x60; 0x51; 0x7f; 0xa9; 0x19; 0xb5; 0x4a; 0x0d; 0x2d; 0xe5; 0x7a; 0x9f; 0x93; 0xc9; 0x9c; 0xef;
    0xa0; 0xe0; 0x3b; 0x4d; 0xae; 0x2a; 0xf5; 0xb0; 0xc8; 0xeb; 0xbb; 0x3c; 0x83; 0x53; 0x99; 0x61;
    0x17; 0x2b; 0x04; 0x7e; 0xba; 0x77; 0xd6; 0x26; 0xe1; 0x69; 0x14; 0x63; 0x55; 0x21; 0x0c; 0x7d ].

(* 16 rows of 16: a lookup costs two short list walks *)
Definition sbox_rows : list (list N) := Eval vm_compute in chunks 16 sbox_flat.
Definition inv_sbox_rows : list (list N) := Eval vm_compute in chunks 16 inv_sbox_flat.

Definition lookup2 (t : list (list N)) (x : N) : N :=
  nth (N.to_nat (N.land x 15)) (nth (N.to_nat (N.shiftr x 4)) t []) 0.

Definition sbox (x : N) : N := lookup2 sbox_rows x.
Definition inv_sbox (x : N) : N := lookup2 inv_sbox_rows x.

(* ------------------------------------------------------------------ *)
(* Round transformations on a 16-byte state                             *)
(* ------------------------------------------------------------------ *)

Definition sub_bytes (s : bytes) : bytes := map sbox s.
Definition inv_sub_bytes (s : bytes) : bytes := map inv_sbox s.

Definition shift_rows (s : bytes) : bytes :=
  match s with
  | [s0; s1; s2; s3; s4; s5; s6; s7; s8; s9; s10; s11; s12; s13; s14; s15] =>
    [s0; s5; s10; s15; s4; s9; s14; s3; s8; s13; s2; s7; s12; s1; s6; s11]
  | _ => []
  end.

Definition inv_shift_rows (s : bytes) : bytes :=
  match s with
  | [s0; s1; s2; s3; s4; s5; s6; s7; s8; s9; s10; s11; s12; s13; s14; s15] =>
    [s0; s13; s10; s7; s4; s1; s14; s11; s8; s5; s2; s15; s12; s9; s6; s3]
  | _ => []
  end.

Definition x4 (a b c d : N) : N := N.lxor (N.lxor a b) (N.lxor c d).

(* one column, FIPS 197 (5.6) *)
Definition mix_col (a b c d : N) (rest : bytes) : bytes :=
  x4 (mul2 a) (mul3 b) c d ::
  x4 a (mul2 b) (mul3 c) d ::
  x4 a b (mul2 c) (mul3 d) ::
  x4 (mul3 a) b c (mul2 d) :: rest.

(* one column, FIPS 197 (5.10) *)
Definition inv_mix_col (a b c d : N) (rest : bytes) : bytes :=
  x4 (mul14 a) (mul11 b) (mul13 c) (mul9 d) ::
  x4 (mul9 a) (mul14 b) (mul11 c) (mul13 d) ::
  x4 (mul13 a) (mul9 b) (mul14 c) (mul11 d) ::
  x4 (mul11 a) (mul13 b) (mul9 c) (mul14 d) :: rest.

Fixpoint mix_columns (s : bytes) : bytes :=
  match s with
  | a :: b :: c :: d :: r => mix_col a b c d (mix_columns r)
  | _ => []
  end.

Fixpoint inv_mix_columns (s : bytes) : bytes :=
  match s with
  | a :: b :: c :: d :: r => inv_mix_col a b c d (inv_mix_columns r)
  | _ => []
  end.

Definition add_round_key (s rk : bytes) : bytes := bytes_xor s rk.

(* ------------------------------------------------------------------ *)
(* Key expansion (FIPS 197 section 5.2)                                 *)
(* ------------------------------------------------------------------ *)

Definition sub_word (w : bytes) : bytes := map sbox w.
Definition rot_word (w : bytes) : bytes :=
  match w with a :: r => r ++ [a] | [] => [] end.

(* win  : the last nk words w[i-nk] .. w[i-1], oldest first
   j    : i mod nk
   rc   : Rcon[i/nk] (first byte), valid when j = 0
   acc  : all words produced so far, newest first *)
Fixpoint expand_loop (fuel : nat) (nk j rc : N) (win : list bytes) (acc : list bytes)
  : list bytes :=
  match fuel with
  | O => rev_lin acc
  | S f =>
    match win with
    | [] => rev_lin acc
    | wold :: wrest =>
      let prev := last win [] in
      let temp :=
        if j =? 0 then bytes_xor (sub_word (rot_word prev)) [rc; 0; 0; 0]
        else if (6 <? nk) && (j =? 4) then sub_word prev
        else prev in
      let wnew := bytes_xor wold temp in
      let j' := if j + 1 =? nk then 0 else j + 1 in
      let rc' := if j =? 0 then xtime rc else rc in
      expand_loop f nk j' rc' (wrest ++ [wnew]) (wnew :: acc)
    end
  end.

Definition aes_key_len_ok (key : bytes) : bool :=
  let n := length key in
  Nat.eqb n 16 || Nat.eqb n 24 || Nat.eqb n 32.

(* The key schedule: Nr+1 round keys of 16 bytes each; [] for a bad key length *)
Definition aes_key_expand (key : bytes) : list bytes :=
  if aes_key_len_ok key then
    let kw := chunks 4 key in
    let nk := length kw in                      (* 4, 6, 8 *)
    let total := (4 * (nk + 7))%nat in          (* 4 * (Nr + 1), Nr = nk + 6 *)
    let ws := expand_loop (total - nk) (N.of_nat nk) 0 1 kw (rev_lin kw) in
    chunks 16 (concat ws)
  else [].

(* ------------------------------------------------------------------ *)
(* Cipher and inverse cipher (FIPS 197 sections 5.1 and 5.3)            *)
(* ------------------------------------------------------------------ *)

Fixpoint enc_rounds (s : bytes) (rks : list bytes) : bytes :=
  match rks with
  | [] => []
  | [rk] => add_round_key (shift_rows (sub_bytes s)) rk
  | rk :: rest =>
    enc_rounds (add_round_key (mix_columns (shift_rows (sub_bytes s))) rk) rest
  end.

Definition aes_encrypt_block_ks (ks : list bytes) (blk : bytes) : bytes :=
  match ks with
  | rk0 :: (_ :: _) as rest =>
    if Nat.eqb (length blk) 16 then enc_rounds (add_round_key blk rk0) rest else []
  | _ => []
  end.

(* rks: round keys Nr-1 .. 0 *)
Fixpoint dec_rounds (s : bytes) (rks : list bytes) : bytes :=
  match rks with
  | [] => []
  | [rk] => add_round_key (inv_sub_bytes (inv_shift_rows s)) rk
  | rk :: rest =>
    dec_rounds (inv_mix_columns (add_round_key (inv_sub_bytes (inv_shift_rows s)) rk)) rest
  end.

(* takes the same schedule as encryption *)
Definition aes_decrypt_block_ks (ks : list bytes) (blk : bytes) : bytes :=
  match rev_lin ks with
  | rkN :: (_ :: _) as rest =>
    if Nat.eqb (length blk) 16 then dec_rounds (add_round_key blk rkN) rest else []
  | _ => []
  end.

Definition aes_encrypt_block (key blk : bytes) : bytes :=
  aes_encrypt_block_ks (aes_key_expand key) blk.
Definition aes_decrypt_block (key blk : bytes) : bytes :=
  aes_decrypt_block_ks (aes_key_expand key) blk.

Module AesTest.

(* ------------------------------------------------------------------ *)
(* Self checks                                                          *)
(* ------------------------------------------------------------------ *)

(* the S-box literal agrees with its algebraic definition (FIPS 197 5.1.1):
   multiplicative inverse in GF(2^8) followed by the affine map *)
Fixpoint gf8_mul_fuel (fuel : nat) (a b acc : N) : N :=
  match fuel with
  | O => acc
  | S f => gf8_mul_fuel f (xtime a) (N.shiftr b 1) (if N.odd b then N.lxor acc a else acc)
  end.
Definition gf8_mul (a b : N) : N := gf8_mul_fuel 8 a b 0.
Definition gf8_sq (a : N) : N := gf8_mul a a.
(* a^254 = a^-1 (and 0 for 0) *)
Definition gf8_inv (a : N) : N :=
  let a2 := gf8_sq a in let a4 := gf8_sq a2 in let a8 := gf8_sq a4 in
  let a16 := gf8_sq a8 in let a32 := gf8_sq a16 in let a64 := gf8_sq a32 in
  let a128 := gf8_sq a64 in
  gf8_mul a128 (gf8_mul a64 (gf8_mul a32 (gf8_mul a16 (gf8_mul a8 (gf8_mul a4 a2))))).
Definition rotl8 (x : N) (n : N) : N :=
  N.land (N.lor (N.shiftl x n) (N.shiftr x (8 - n))) 255.
Definition sbox_alg (x : N) : N :=
  let b := gf8_inv x in
  N.lxor (x4 b (rotl8 b 1) (rotl8 b 2) (rotl8 b 3)) (N.lxor (rotl8 b 4) 0x63).

Definition all_bytes : list N := map N.of_nat (seq 0 256).

Example sbox_matches_algebra : map sbox all_bytes = map sbox_alg all_bytes.
Proof. vm_compute; reflexivity. Qed.
Example sbox_flat_is_sbox : map sbox all_bytes = sbox_flat.
Proof. vm_compute; reflexivity. Qed.
Example inv_sbox_inverts : map (fun x => inv_sbox (sbox x)) all_bytes = all_bytes.
Proof. vm_compute; reflexivity. Qed.

(* FIPS 197 Appendix A.1: last word of the AES-128 expansion of 2b7e1516... *)
Example key_expand_a1 :
  last (aes_key_expand (hexN 16 0x2b7e151628aed2a6abf7158809cf4f3c)) [] =
  hexN 16 0xd014f9a8c9ee2589e13f0cc8b6630ca6.
Proof. vm_compute; reflexivity. Qed.
Example key_expand_lengths :
  map (fun n => length (aes_key_expand (repeatN 0 n))) [16; 24; 32; 0; 15; 17; 33]%nat
  = [11; 13; 15; 0; 0; 0; 0]%nat.
Proof. vm_compute; reflexivity. Qed.

Definition pt_c : bytes := hexN 16 0x00112233445566778899aabbccddeeff.
Definition key_c1 : bytes := hexN 16 0x000102030405060708090a0b0c0d0e0f.
Definition key_c2 : bytes := hexN 24 0x000102030405060708090a0b0c0d0e0f1011121314151617.
Definition key_c3 : bytes :=
  hexN 32 0x000102030405060708090a0b0c0d0e0f101112131415161718191a1b1c1d1e1f.
Definition ct_c1 : bytes := hexN 16 0x69c4e0d86a7b0430d8cdb78070b4c55a.
Definition ct_c2 : bytes := hexN 16 0xdda97ca4864cdfe06eaf70a0ec0d7191.
Definition ct_c3 : bytes := hexN 16 0x8ea2b7ca516745bfeafc49904b496089.

(* FIPS 197 Appendix C.1 - C.3 *)
Example fips197_c1_enc : aes_encrypt_block key_c1 pt_c = ct_c1.
Proof. vm_compute; reflexivity. Qed.
Example fips197_c1_dec : aes_decrypt_block key_c1 ct_c1 = pt_c.
Proof. vm_compute; reflexivity. Qed.
Example fips197_c2_enc : aes_encrypt_block key_c2 pt_c = ct_c2.
Proof. vm_compute; reflexivity. Qed.
Example fips197_c2_dec : aes_decrypt_block key_c2 ct_c2 = pt_c.
Proof. vm_compute; reflexivity. Qed.
Example fips197_c3_enc : aes_encrypt_block key_c3 pt_c = ct_c3.
Proof. vm_compute; reflexivity. Qed.
Example fips197_c3_dec : aes_decrypt_block key_c3 ct_c3 = pt_c.
Proof. vm_compute; reflexivity. Qed.

(* FIPS 197 Appendix B *)
Example fips197_b :
  aes_encrypt_block (hexN 16 0x2b7e151628aed2a6abf7158809cf4f3c)
                    (hexN 16 0x3243f6a8885a308d313198a2e0370734)
  = hexN 16 0x3925841d02dc09fbdc118597196a0b32.
Proof. vm_compute; reflexivity. Qed.

(* malformed inputs give [] *)
Example bad_inputs :
  (aes_encrypt_block (repeatN 0 17%nat) pt_c, aes_encrypt_block key_c1 (repeatN 0 15%nat),
   aes_decrypt_block [] pt_c, aes_decrypt_block key_c1 (repeatN 0 17%nat))
  = ([], [], [], []).
Proof. vm_compute; reflexivity. Qed.

End AesTest.
