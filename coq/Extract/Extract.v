(* Extraction of the executable model for the correspondence driver.
   ExtrOcamlBasic only; numbers stay the extracted inductive types. *)
Require Import ExtrOcamlBasic.
From JoseV Require Import Codec.B64Spec Codec.B64Impl Codec.B64Json Base.Json Base.JsonDump Base.JsonParse Io.Chain Crypto.Sha Crypto.Hmac.
Extraction "../ocaml/_gen/model.ml"
  enc dec dec_buf enc_buf replay
  dump parse_any parse_strict parse_proto jequal
  jose_b64_dec jose_b64_dec_load jose_b64_enc jose_b64_enc_dump
  runc feeds all_sinks delivered b64dec_T b64enc_T atdone_T prefix_T
  hash hash_len hmac.
