(* Extraction of the executable model for the correspondence driver.
   ExtrOcamlBasic only; numbers stay the extracted inductive types. *)
Require Import ExtrOcamlBasic.
From JoseV Require Import Codec.B64Spec Codec.B64Impl.
Extraction "../ocaml/_gen/model.ml" enc dec dec_buf enc_buf replay.
