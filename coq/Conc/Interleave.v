(* C17 part C -- threads as step functions over a product state.

   The global state is a product: one private component per thread (its own JSON
   objects, IO objects, OpenSSL contexts and the results it has produced so far)
   and a shared component [R] that nobody writes after load time (the algorithm
   and key-type registries of lib/hooks.c, filled by constructors).  One
   operation of thread t is [step t r sigma].  A schedule is the list of thread
   ids in the order in which their operations happen.

   This file only contains definitions (and an executable instance used by the
   model driver); the theorem is in Conc/InterleaveProofs.v.  That the C code
   satisfies the footprint condition is NOT proved (there is no concurrent C
   semantics here): it is checked dynamically (results of n threads vs. the same
   sequences run alone; ThreadSanitizer in the thorough tier). *)
From Coq Require Export List NArith Bool.
Export ListNotations.
Local Open Scope N_scope.

Definition tid := N.

Section Threads.
  Variable R : Type.            (* shared, read-only *)
  Variable S : Type.            (* one thread's private component *)

  Definition gstate := tid -> S.

  Variable step : tid -> R -> gstate -> gstate.

  Definition run_sched (r : R) (s : list tid) (sigma : gstate) : gstate :=
    fold_left (fun g t => step t r g) s sigma.

  (* footprint: an operation of t leaves every other component alone ... *)
  Definition writes_own : Prop :=
    forall t r sigma u, u <> t -> step t r sigma u = sigma u.
  (* ... and what it does to its own component depends only on that component and on R *)
  Definition reads_own : Prop :=
    forall t r sigma sigma', sigma t = sigma' t -> step t r sigma t = step t r sigma' t.

  (* the operation of t seen from inside t *)
  Definition tlocal (t : tid) (r : R) (x : S) : S := step t r (fun _ => x) t.

  Fixpoint titer (n : nat) (f : S -> S) (x : S) : S :=
    match n with O => x | Datatypes.S k => titer k f (f x) end.

  Fixpoint tcount (t : tid) (s : list tid) : nat :=
    match s with
    | [] => O
    | u :: r => if u =? t then Datatypes.S (tcount t r) else tcount t r
    end.

  (* running the threads one after another: all operations of the first, then all of the second ... *)
  Definition sequential (ts : list tid) (s : list tid) : list tid :=
    flat_map (fun t => repeat t (tcount t s)) ts.
End Threads.

(* ---- an executable instance (model side of the `threads` command) ------------------- *)
(* private component: a program counter and the results produced so far; an operation mixes
   the seed (read-only), the thread id and the counter *)
Definition tstate := (N * list N)%type.

Definition tupd {A} (g : tid -> A) (t : tid) (x : A) : tid -> A :=
  fun u => if u =? t then x else g u.

Definition tmix (seed t pc : N) : N := (seed * 1103515245 + t * 12345 + pc * 2654435761 + 1013904223) mod 4294967296.

Definition tstep (t : tid) (seed : N) (g : tid -> tstate) : tid -> tstate :=
  let '(pc, res) := g t in tupd g t (pc + 1, res ++ [tmix seed t pc]).

Definition tlcg (x : N) : N := (x * 1103515245 + 12345) mod 2147483648.

Fixpoint tpicks (fuel : nat) (x n : N) : list tid :=
  match fuel with
  | O => []
  | Datatypes.S k => let x' := tlcg x in ((x' / 65536) mod n) :: tpicks k x' n
  end.

Fixpoint tupto (fuel : nat) (i : N) : list N :=
  match fuel with O => [] | Datatypes.S k => i :: tupto k (i + 1) end.

Fixpoint nlist_eqb (a b : list N) : bool :=
  match a, b with
  | [], [] => true
  | x :: a', y :: b' => (x =? y) && nlist_eqb a' b'
  | _, _ => false
  end.

Definition tstate_eqb (a b : tstate) : bool := (fst a =? fst b) && nlist_eqb (snd a) (snd b).

(* n threads, a seed-derived schedule of n*len operations: the first thread whose component
   differs from the one-after-another run, if any *)
Definition threads_check (n seed len : N) : option tid :=
  let s := tpicks (N.to_nat (n * len)) (seed + 1) n in
  let ts := tupto (N.to_nat n) 0 in
  let g0 : tid -> tstate := fun _ => (0, []) in
  let a := run_sched N tstate tstep seed s g0 in
  let b := run_sched N tstate tstep seed (sequential ts s) g0 in
  find (fun t => negb (tstate_eqb (a t) (b t))) ts.
