(* C17 part C -- every interleaving of threads that respect the footprint condition gives each
   thread the result it gets when the threads run one after another.  Induction on schedules. *)
From JoseV Require Import Conc.Interleave.
From Coq Require Import Lia Permutation.
Local Open Scope N_scope.

Section Proofs.
  Variable R : Type.
  Variable S : Type.
  Variable step : tid -> R -> gstate S -> gstate S.
  Hypothesis Hw : writes_own R S step.
  Hypothesis Hr : reads_own R S step.

  Notation run := (run_sched R S step).
  Notation loc := (tlocal R S step).
  Notation cnt := tcount.

  Lemma step_comp t r sigma u :
    step t r sigma u = if u =? t then loc t r (sigma t) else sigma u.
  Proof.
    destruct (u =? t) eqn:E.
    - apply N.eqb_eq in E. subst u. unfold tlocal. apply Hr. reflexivity.
    - apply N.eqb_neq in E. apply Hw. exact E.
  Qed.

  (* a component after any schedule: its own operation iterated as often as its thread occurs *)
  Lemma run_comp r : forall s sigma t,
    run r s sigma t = titer S (cnt t s) (loc t r) (sigma t).
  Proof.
    induction s as [|u s IH]; intros sigma t; [reflexivity|].
    unfold run_sched in *. cbn [fold_left tcount]. rewrite IH, step_comp.
    rewrite (N.eqb_sym t u). destruct (u =? t) eqn:E; [|reflexivity].
    apply N.eqb_eq in E. subst u. reflexivity.
  Qed.

  Theorem schedule_free_count r s s' sigma :
    (forall t, cnt t s = cnt t s') -> forall t, run r s sigma t = run r s' sigma t.
  Proof. intros H t. rewrite !run_comp, H. reflexivity. Qed.

  Lemma count_perm t s s' : Permutation s s' -> cnt t s = cnt t s'.
  Proof.
    induction 1; cbn; try congruence.
    - destruct (x =? t); congruence.
    - destruct (x =? t), (y =? t); reflexivity.
  Qed.

  Theorem schedule_free_perm r s s' sigma :
    Permutation s s' -> forall t, run r s sigma t = run r s' sigma t.
  Proof. intros H. apply schedule_free_count. intro t. apply count_perm. exact H. Qed.

  Lemma count_app t a b : cnt t (a ++ b) = (cnt t a + cnt t b)%nat.
  Proof. induction a as [|u a IH]; cbn; [reflexivity|]. destruct (u =? t); cbn; rewrite IH; reflexivity. Qed.

  Lemma count_repeat t u k : cnt t (repeat u k) = if u =? t then k else O.
  Proof.
    induction k as [|k IH]; cbn; [destruct (u =? t); reflexivity|].
    destruct (u =? t) eqn:E; rewrite IH; reflexivity.
  Qed.

  Lemma count_zero t s : ~ In t s -> cnt t s = O.
  Proof.
    induction s as [|u s IH]; cbn; intro H; [reflexivity|].
    destruct (u =? t) eqn:E; [apply N.eqb_eq in E; subst; exfalso; apply H; left; reflexivity|].
    apply IH. intro Hin. apply H. right. exact Hin.
  Qed.

  Lemma count_seq_notin t ts s : ~ In t ts -> cnt t (sequential ts s) = O.
  Proof.
    unfold sequential. induction ts as [|u ts IH]; cbn; intro H; [reflexivity|].
    rewrite count_app, count_repeat.
    destruct (u =? t) eqn:E; [apply N.eqb_eq in E; subst; exfalso; apply H; left; reflexivity|].
    apply IH. intro Hin. apply H. right. exact Hin.
  Qed.

  Lemma count_seq_in t ts s : NoDup ts -> In t ts -> cnt t (sequential ts s) = cnt t s.
  Proof.
    unfold sequential. induction ts as [|u ts IH]; cbn; intros Hnd Hin; [contradiction|].
    inversion Hnd as [|? ? Hnotin Hnd']; subst.
    rewrite count_app, count_repeat. destruct Hin as [->|Hin].
    - rewrite N.eqb_refl. fold (sequential ts s). rewrite count_seq_notin by exact Hnotin. lia.
    - destruct (u =? t) eqn:E; [apply N.eqb_eq in E; subst; contradiction|].
      apply IH; assumption.
  Qed.

  Lemma count_sequential ts s : NoDup ts -> incl s ts -> forall t, cnt t s = cnt t (sequential ts s).
  Proof.
    intros Hnd Hincl t. destruct (in_dec N.eq_dec t ts) as [Hin|Hnot].
    - symmetry. apply count_seq_in; assumption.
    - rewrite count_seq_notin by exact Hnot. apply count_zero. intro H. apply Hnot, Hincl, H.
  Qed.

  (* the statement of the property: any schedule s of the threads ts gives every thread the
     component it has after all of the first thread's operations, then all of the second's, ... *)
  Theorem schedule_free r ts s sigma :
    NoDup ts -> incl s ts -> forall t, run r s sigma t = run r (sequential ts s) sigma t.
  Proof. intros Hnd Hincl. apply schedule_free_count. apply count_sequential; assumption. Qed.

  (* ... which is also what it gets when it runs alone *)
  Theorem schedule_free_alone r s sigma t :
    run r s sigma t = run r (repeat t (cnt t s)) sigma t.
  Proof.
    rewrite !run_comp, count_repeat, N.eqb_refl. reflexivity.
  Qed.

  (* and nobody else's component is touched by a thread that runs alone *)
  Theorem alone_frame r t k sigma u : u <> t -> run r (repeat t k) sigma u = sigma u.
  Proof.
    intro H. rewrite run_comp, count_repeat.
    destruct (t =? u) eqn:E; [apply N.eqb_eq in E; congruence|]. reflexivity.
  Qed.
End Proofs.

(* the executable instance respects the footprint condition (so the premise is satisfiable by
   a non-trivial system, and the model side of `threads` answers OK by the theorem) *)
Lemma tstep_writes_own : writes_own N tstate tstep.
Proof.
  intros t r g u Hu. unfold tstep. destruct (g t) as [pc res]. unfold tupd.
  destruct (u =? t) eqn:E; [apply N.eqb_eq in E; congruence|reflexivity].
Qed.

Lemma tstep_reads_own : reads_own N tstate tstep.
Proof.
  intros t r g g' H. unfold tstep. rewrite <- H. destruct (g t) as [pc res]. unfold tupd.
  rewrite N.eqb_refl. reflexivity.
Qed.

(* a system that violates the footprint condition (one shared cell written by both threads)
   does depend on the schedule: the premise cannot be dropped *)
Definition bad_step (t : tid) (_ : unit) (g : tid -> N) : tid -> N :=
  fun u => if u =? 0 then g 0 * 2 + t else g u.          (* every thread writes component 0 *)

Lemma footprint_needed :
  run_sched unit N bad_step tt [0; 1] (fun _ => 0) 0 <> run_sched unit N bad_step tt [1; 0] (fun _ => 0) 0.
Proof. vm_compute. discriminate. Qed.
