(* C20 -- allocation faults added to the IO-chain model (Io/Chain.v).

   The chain is the one lib/io.c, lib/b64.c and the algorithm stages build:
   sinks (jose_io_malloc, jose_io_buffer), stages (a transducer of Io/Chain.v plus
   a downstream object) and multiplexers.  What is new here:

   * every allocation the library issues is numbered in execution order, and a
     fault set [F : nat -> bool] says which requests return NULL ([fault_at k] =
     exactly the k-th).  Constructors allocate (calloc, one request each:
     io.c:126/187/317, b64.c:201/325, openssl/hash.c:75 ...) and return NULL on
     failure; malloc_feed allocates (realloc, io.c:86) for every non-empty feed;
   * the semantics is operational, one feed call at a time in the order the C code
     performs the calls (a stage calls next->feed once per buffer it passes on, a
     multiplexer feeds its live branches in index order, `done` likewise), because
     the number a request gets depends on that order.  Fuel = depth of the chain;
   * the verdict type of a stage's done(): [VBool] a genuine boolean, [VSize] a
     size_t (length on success, SIZE_MAX on failure) returned from a function whose
     return type is bool -- lib/openssl/hash.c hsh_done before commit 496db6f.

   No proofs in this file (it is extracted). *)
From JoseV Require Export Io.Chain.
Local Open Scope N_scope.

Inductive outcome (A : Type) : Type :=
| Failed
| Ok (a : A).
Arguments Failed {A}.
Arguments Ok {A} a.

(* ---- which requests fail --------------------------------------------------------- *)

Definition faults := nat -> bool.
Definition no_fault : faults := fun _ => false.
Definition fault_at (k : nat) : faults := fun i => Nat.eqb k i.

(* ---- verdict types ----------------------------------------------------------------- *)

Inductive vtype := VBool | VSize.

(* C: conversion of a size_t to bool -- everything but 0 is true, SIZE_MAX (None) included *)
Definition size_as_bool (s : option N) : bool :=
  match s with Some 0 => false | _ => true end.

(* ---- construction plans and run-time objects ---------------------------------------- *)

Inductive plan :=
| PMalloc
| PBuffer (cap : N)
| PStage (vt : vtype) (T : transducer) (next : plan)
| PPlex (all : bool) (bs : list plan).

Inductive obj :=
| OMalloc (d : bytes)
| OBuffer (cap : N) (d : bytes)
| OStage (vt : vtype) (T : transducer) (st : bytes) (next : obj)
| OPlex (all : bool) (bs : list (bool * obj)).     (* flag: still referenced (not dropped) *)

Fixpoint pdepth (p : plan) : nat :=
  match p with
  | PMalloc | PBuffer _ => 1
  | PStage _ _ n => S (pdepth n)
  | PPlex _ bs => S ((fix go (bs : list plan) : nat :=
                        match bs with [] => O | b :: r => Nat.max (pdepth b) (go r) end) bs)
  end.

(* constructors, in the order a caller has to issue them (inner objects first, a
   multiplexer's branches left to right); each is one calloc; a careful caller stops
   at the first NULL.  Result: the object (None = some constructor returned NULL) and
   the number of requests issued so far. *)
Fixpoint build (F : faults) (p : plan) (cnt : nat) {struct p} : option obj * nat :=
  match p with
  | PMalloc => if F cnt then (None, S cnt) else (Some (OMalloc []), S cnt)
  | PBuffer cap => if F cnt then (None, S cnt) else (Some (OBuffer cap []), S cnt)
  | PStage vt T next =>
      match build F next cnt with
      | (None, c) => (None, c)
      | (Some n, c) => if F c then (None, S c) else (Some (OStage vt T [] n), S c)
      end
  | PPlex all bs =>
      match (fix go (bs : list plan) (cnt : nat) : option (list (bool * obj)) * nat :=
               match bs with
               | [] => (Some [], cnt)
               | b :: r =>
                   match build F b cnt with
                   | (None, c) => (None, c)
                   | (Some o, c) =>
                       match go r c with
                       | (None, c') => (None, c')
                       | (Some os, c') => (Some ((true, o) :: os), c')
                       end
                   end
               end) bs cnt with
      | (None, c) => (None, c)
      | (Some os, c) => if F c then (None, S c) else (Some (OPlex all os), S c)
      end
  end.

(* ---- feed / done ------------------------------------------------------------------------ *)

(* a stage passes buffers downstream one by one and stops at the first rejection *)
Definition pass_on (step : obj -> bytes -> nat -> obj * bool * nat) :=
  fix go (n : obj) (outs : list bytes) (cnt : nat) : obj * bool * nat :=
    match outs with
    | [] => (n, true, cnt)
    | y :: r => let '(n', ok, c) := step n y cnt in
                if ok then go n' r c else (n', false, c)
    end.

(* plex_feed / plex_done: for each live branch in index order: s = call; status |= s;
   if (!s) { drop the branch; if (all) return false; }   return status; *)
Definition plex_iter (step : obj -> nat -> obj * bool * nat) (all : bool) :=
  fix go (bs : list (bool * obj)) (status : bool) (cnt : nat) : list (bool * obj) * bool * nat :=
    match bs with
    | [] => ([], status, cnt)
    | (false, b) :: r => let '(r', v, c) := go r status cnt in ((false, b) :: r', v, c)
    | (true, b) :: r =>
        let '(b', ok, c1) := step b cnt in
        if ok then let '(r', v, c) := go r true c1 in ((true, b') :: r', v, c)
        else if all then ((false, b') :: r, false, c1)
        else let '(r', v, c) := go r status c1 in ((false, b') :: r', v, c)
    end.

(* one feed call: (object afterwards, accepted?, requests issued so far) *)
Fixpoint feed (fuel : nat) (F : faults) (o : obj) (x : bytes) (cnt : nat) {struct fuel} : obj * bool * nat :=
  match fuel with
  | O => (o, false, cnt)
  | S f =>
      match o with
      | OMalloc d =>
          (* if (len == 0) return true;  tmp = realloc(buf, old + len);  if (!tmp) return false; *)
          match x with
          | [] => (o, true, cnt)
          | _ => if F cnt then (o, false, S cnt) else (OMalloc (d ++ x), true, S cnt)
          end
      | OBuffer cap d =>
          if cap - blen d <? blen x then (o, false, cnt) else (OBuffer cap (d ++ x), true, cnt)
      | OStage vt T st next =>
          let '(outs, st') := tfeed T st x in
          let '(next', ok, c) := pass_on (feed f F) next outs cnt in
          match st' with
          | Some s => (OStage vt T s next', ok, c)
          | None => (OStage vt T st next', false, c)
          end
      | OPlex all bs =>
          let '(bs', v, c) := plex_iter (fun b c => feed f F b x c) all bs false cnt in
          (OPlex all bs', v, c)
      end
  end.

Fixpoint done (fuel : nat) (F : faults) (o : obj) (cnt : nat) {struct fuel} : obj * bool * nat :=
  match fuel with
  | O => (o, false, cnt)
  | S f =>
      match o with
      | OMalloc _ | OBuffer _ _ => (o, true, cnt)
      | OStage vt T st next =>
          match tdone T st with
          | None =>
              (* the stage's own finalisation failed *)
              (o, match vt with VBool => false | VSize => size_as_bool None end, cnt)
          | Some outs =>
              let '(next', ok, c) := pass_on (feed f F) next outs cnt in
              let '(next'', ok', c') := if ok then done f F next' c else (next', false, c) in
              (OStage vt T [] next'',
               match vt with
               | VBool => ok'
               | VSize => size_as_bool (if ok' then Some (blen (concat outs)) else None)
               end, c')
          end
      | OPlex all bs =>
          let '(bs', v, c) := plex_iter (done f F) all bs false cnt in
          (OPlex all bs', v, c)
      end
  end.

(* ---- whole scenario ------------------------------------------------------------------ *)

(* a caller feeds buffers one by one and stops at the first rejection *)
Fixpoint feed_all (fuel : nat) (F : faults) (o : obj) (xs : list bytes) (cnt : nat) : obj * bool * nat :=
  match xs with
  | [] => (o, true, cnt)
  | x :: r => let '(o', ok, c) := feed fuel F o x cnt in
              if ok then feed_all fuel F o' r c else (o', false, c)
  end.

(* what sinks hold; dropped multiplexer branches are erased (as Chain.delivered) *)
Fixpoint odelivered (o : obj) : list (option bytes) :=
  match o with
  | OMalloc d | OBuffer _ d => [Some d]
  | OStage _ _ _ next => odelivered next
  | OPlex _ bs =>
      (fix go (bs : list (bool * obj)) : list (option bytes) :=
         match bs with
         | [] => []
         | (false, _) :: r => None :: go r
         | (true, b) :: r => odelivered b ++ go r
         end) bs
  end.

(* every sink's content, dropped or not (what the harness can see) *)
Fixpoint osinks (o : obj) : list bytes :=
  match o with
  | OMalloc d | OBuffer _ d => [d]
  | OStage _ _ _ next => osinks next
  | OPlex _ bs =>
      (fix go (bs : list (bool * obj)) : list bytes :=
         match bs with
         | [] => []
         | (_, b) :: r => osinks b ++ go r
         end) bs
  end.

(* construct, feed every buffer, done: None = a constructor returned NULL, else the final
   objects, the verdict (false also when a feed was rejected) and the number of requests *)
Definition exec (F : faults) (p : plan) (xs : list bytes) : option (obj * bool) * nat :=
  match build F p O with
  | (None, c) => (None, c)
  | (Some o, c) =>
      let fuel := pdepth p in
      let '(o1, ok, c1) := feed_all fuel F o xs c in
      if ok then let '(o2, v, c2) := done fuel F o1 c1 in (Some (o2, v), c2)
      else (Some (o1, false), c1)
  end.

Definition run_failing (F : faults) (p : plan) (xs : list bytes) : outcome (list (option bytes)) :=
  match fst (exec F p xs) with
  | Some (o, true) => Ok (odelivered o)
  | _ => Failed
  end.

(* the number N of requests of the fault-free run: the harness's `fail <scenario> -1` *)
Definition alloc_count (p : plan) (xs : list bytes) : nat := snd (exec no_fault p xs).

(* ---- the same plan as a chain of Io/Chain.v (verdict types forgotten) ----------------- *)

Fixpoint chain_of (p : plan) : chain :=
  match p with
  | PMalloc => Sink (SMalloc [])
  | PBuffer cap => Sink (SBuffer cap [])
  | PStage _ T next => Stage T [] (chain_of next)
  | PPlex all bs => Plex all (map (fun b => (true, chain_of b)) bs)
  end.

Fixpoint genuine (p : plan) : bool :=
  match p with
  | PMalloc | PBuffer _ => true
  | PStage vt _ next => match vt with VBool => genuine next | VSize => false end
  | PPlex _ bs => forallb genuine bs
  end.

Fixpoint no_any (p : plan) : bool :=
  match p with
  | PMalloc | PBuffer _ => true
  | PStage _ _ next => no_any next
  | PPlex all bs => all && forallb no_any bs
  end.

(* the result the whole-input semantics of Io/Chain.v gives for the same plan *)
Definition chain_result (p : plan) (xs : list bytes) : outcome (list (option bytes)) :=
  let '(c', v) := run (chain_of p) xs in if v then Ok (delivered c') else Failed.
