(* C20 -- failure of an allocation propagates: proofs about Fault/Alloc.v. *)
From JoseV Require Import Fault.Alloc.
From Coq Require Import Lia.
Local Open Scope N_scope.

(* ---- induction principles reaching into multiplexer branches ------------------------ *)

Section PlanInd.
  Variable P : plan -> Prop.
  Hypothesis Hm : P PMalloc.
  Hypothesis Hb : forall cap, P (PBuffer cap).
  Hypothesis Hs : forall vt T next, P next -> P (PStage vt T next).
  Hypothesis Hp : forall all bs, Forall P bs -> P (PPlex all bs).

  Fixpoint plan_ind' (p : plan) : P p :=
    match p with
    | PMalloc => Hm
    | PBuffer cap => Hb cap
    | PStage vt T next => Hs vt T next (plan_ind' next)
    | PPlex all bs =>
        Hp all bs ((fix go (bs : list plan) : Forall P bs :=
                      match bs with
                      | [] => Forall_nil _
                      | b :: r => Forall_cons _ (plan_ind' b) (go r)
                      end) bs)
    end.
End PlanInd.

Section ObjInd.
  Variable P : obj -> Prop.
  Hypothesis Hm : forall d, P (OMalloc d).
  Hypothesis Hb : forall cap d, P (OBuffer cap d).
  Hypothesis Hs : forall vt T st next, P next -> P (OStage vt T st next).
  Hypothesis Hp : forall all bs, Forall (fun fb => P (snd fb)) bs -> P (OPlex all bs).

  Fixpoint obj_ind' (o : obj) : P o :=
    match o with
    | OMalloc d => Hm d
    | OBuffer cap d => Hb cap d
    | OStage vt T st next => Hs vt T st next (obj_ind' next)
    | OPlex all bs =>
        Hp all bs ((fix go (bs : list (bool * obj)) : Forall (fun fb => P (snd fb)) bs :=
                      match bs with
                      | [] => Forall_nil _
                      | fb :: r => Forall_cons _ (obj_ind' (snd fb)) (go r)
                      end) bs)
    end.
End ObjInd.

(* ---- "the faulted run is the fault-free run with, possibly, more branches dropped" ---- *)

(* [relx anyok a o]: a = state of the run with faults, o = state of the fault-free run.
   Sinks hold the same bytes, stages are in the same state and return genuine booleans;
   under an all-multiplexer the same branches are live; under an any-multiplexer (allowed
   only when anyok) the faulted run may have dropped more branches. *)
Fixpoint relx (anyok : bool) (a o : obj) {struct a} : Prop :=
  match a, o with
  | OMalloc d, OMalloc d' => d = d'
  | OBuffer c d, OBuffer c' d' => c = c' /\ d = d'
  | OStage vt T st n, OStage vt' T' st' n' =>
      vt = VBool /\ vt' = VBool /\ T = T' /\ st = st' /\ relx anyok n n'
  | OPlex all bs, OPlex all' bs' =>
      all = all' /\ (anyok = true \/ all = true) /\
      (fix go (bs bs' : list (bool * obj)) : Prop :=
         match bs, bs' with
         | [], [] => True
         | (fa, ba) :: r, (fo, bo) :: r' =>
             (if all then fa = fo /\ (fa = true -> relx anyok ba bo)
              else (fa = true -> fo = true /\ relx anyok ba bo)) /\ go r r'
         | _, _ => False
         end) bs bs'
  | _, _ => False
  end.

Definition brel (anyok all : bool) (x y : bool * obj) : Prop :=
  if all then fst x = fst y /\ (fst x = true -> relx anyok (snd x) (snd y))
  else (fst x = true -> fst y = true /\ relx anyok (snd x) (snd y)).

Lemma relx_plex anyok all bs all' bs' :
  relx anyok (OPlex all bs) (OPlex all' bs') <->
  all = all' /\ (anyok = true \/ all = true) /\ Forall2 (brel anyok all) bs bs'.
Proof.
  cbn [relx]. split.
  - intros (E & A & G). split; [exact E|]. split; [exact A|]. clear E A.
    revert bs' G. induction bs as [|[fa ba] r IH]; intros [|[fo bo] r'] G; try (destruct G; fail).
    + constructor.
    + destruct G as [H G]. constructor; [|apply IH; exact G].
      unfold brel. cbn [fst snd]. exact H.
  - intros (E & A & G). split; [exact E|]. split; [exact A|]. clear E A.
    induction G as [|[fa ba] [fo bo] r r' H G IH]; [exact I|].
    split; [|exact IH]. unfold brel in H. cbn [fst snd] in H. exact H.
Qed.

(* result triples: when the faulted call accepts, so does the fault-free one, and the states stay related *)
Definition mono3 (anyok : bool) (rf ro : obj * bool * nat) : Prop :=
  snd (fst rf) = true -> snd (fst ro) = true /\ relx anyok (fst (fst rf)) (fst (fst ro)).

Lemma pass_on_mono anyok (sf so : obj -> bytes -> nat -> obj * bool * nat) :
  (forall a o y c c0, relx anyok a o -> mono3 anyok (sf a y c) (so o y c0)) ->
  forall outs a o c c0, relx anyok a o -> mono3 anyok (pass_on sf a outs c) (pass_on so o outs c0).
Proof.
  intros H outs. induction outs as [|y r IH]; intros a o c c0 R; cbn [pass_on].
  - intros _. cbn [fst snd]. auto.
  - specialize (H a o y c c0 R). unfold mono3 in H.
    destruct (sf a y c) as [[a' okf] c1]. destruct (so o y c0) as [[o' ok] c1']. cbn [fst snd] in H.
    destruct okf.
    + destruct (H eq_refl) as [-> R']. apply IH. exact R'.
    + intros X. cbn [fst snd] in X. discriminate.
Qed.

Lemma plex_iter_mono anyok all (sf so : obj -> nat -> obj * bool * nat) :
  (forall a o c c0, relx anyok a o -> mono3 anyok (sf a c) (so o c0)) ->
  forall bs bs', Forall2 (brel anyok all) bs bs' ->
  forall st st0 c c0, (st = true -> st0 = true) ->
  snd (fst (plex_iter sf all bs st c)) = true ->
  snd (fst (plex_iter so all bs' st0 c0)) = true /\
  Forall2 (brel anyok all) (fst (fst (plex_iter sf all bs st c))) (fst (fst (plex_iter so all bs' st0 c0))).
Proof.
  intros H bs bs' G. induction G as [|[fa ba] [fo bo] r r' B G IH]; intros st st0 c c0 S; cbn [plex_iter].
  - cbn [fst snd]. intro X. split; [apply S; exact X|constructor].
  - unfold brel in B. cbn [fst snd] in B.
    destruct all.
    + (* all: the same branches are live *)
      destruct B as [E B]. subst fo. destruct fa.
      * specialize (B eq_refl). specialize (H ba bo c c0 B). unfold mono3 in H.
        destruct (sf ba c) as [[b' okf] c1]. destruct (so bo c0) as [[bo' ok] c1']. cbn [fst snd] in H.
        destruct okf.
        -- destruct (H eq_refl) as [-> R'].
           specialize (IH true true c1 c1' (fun _ => eq_refl)).
           destruct (plex_iter sf true r true c1) as [[rf vf] cf].
           destruct (plex_iter so true r' true c1') as [[ro vo] co]. cbn [fst snd] in *.
           intro X. destruct (IH X) as [V F2]. split; [exact V|].
           constructor; [|exact F2]. unfold brel. cbn [fst snd]. auto.
        -- cbn [fst snd]. discriminate.
      * specialize (IH st st0 c c0 S).
        destruct (plex_iter sf true r st c) as [[rf vf] cf].
        destruct (plex_iter so true r' st0 c0) as [[ro vo] co]. cbn [fst snd] in *.
        intro X. destruct (IH X) as [V F2]. split; [exact V|].
        constructor; [|exact F2]. unfold brel. cbn [fst snd]. split; [reflexivity|discriminate].
    + (* any: the faulted run may have dropped more *)
      destruct fa.
      * destruct (B eq_refl) as [-> R]. specialize (H ba bo c c0 R). unfold mono3 in H.
        destruct (sf ba c) as [[b' okf] c1]. destruct (so bo c0) as [[bo' ok] c1']. cbn [fst snd] in H.
        destruct okf.
        -- destruct (H eq_refl) as [-> R'].
           specialize (IH true true c1 c1' (fun _ => eq_refl)).
           destruct (plex_iter sf false r true c1) as [[rf vf] cf].
           destruct (plex_iter so false r' true c1') as [[ro vo] co]. cbn [fst snd] in *.
           intro X. destruct (IH X) as [V F2]. split; [exact V|].
           constructor; [|exact F2]. unfold brel. cbn [fst snd]. auto.
        -- destruct ok.
           ++ specialize (IH st true c1 c1' (fun _ => eq_refl)).
              destruct (plex_iter sf false r st c1) as [[rf vf] cf].
              destruct (plex_iter so false r' true c1') as [[ro vo] co]. cbn [fst snd] in *.
              intro X. destruct (IH X) as [V F2]. split; [exact V|].
              constructor; [|exact F2]. unfold brel. cbn [fst snd]. discriminate.
           ++ specialize (IH st st0 c1 c1' S).
              destruct (plex_iter sf false r st c1) as [[rf vf] cf].
              destruct (plex_iter so false r' st0 c1') as [[ro vo] co]. cbn [fst snd] in *.
              intro X. destruct (IH X) as [V F2]. split; [exact V|].
              constructor; [|exact F2]. unfold brel. cbn [fst snd]. discriminate.
      * destruct fo.
        -- destruct (so bo c0) as [[bo' ok] c1']. destruct ok.
           ++ specialize (IH st true c c1' (fun _ => eq_refl)).
              destruct (plex_iter sf false r st c) as [[rf vf] cf].
              destruct (plex_iter so false r' true c1') as [[ro vo] co]. cbn [fst snd] in *.
              intro X. destruct (IH X) as [V F2]. split; [exact V|].
              constructor; [|exact F2]. unfold brel. cbn [fst snd]. discriminate.
           ++ specialize (IH st st0 c c1' S).
              destruct (plex_iter sf false r st c) as [[rf vf] cf].
              destruct (plex_iter so false r' st0 c1') as [[ro vo] co]. cbn [fst snd] in *.
              intro X. destruct (IH X) as [V F2]. split; [exact V|].
              constructor; [|exact F2]. unfold brel. cbn [fst snd]. discriminate.
        -- specialize (IH st st0 c c0 S).
           destruct (plex_iter sf false r st c) as [[rf vf] cf].
           destruct (plex_iter so false r' st0 c0) as [[ro vo] co]. cbn [fst snd] in *.
           intro X. destruct (IH X) as [V F2]. split; [exact V|].
           constructor; [|exact F2]. unfold brel. cbn [fst snd]. discriminate.
Qed.

(* ---- feed ------------------------------------------------------------------------------ *)

Lemma feed_mono anyok fuel : forall F a o x c c0,
  relx anyok a o -> mono3 anyok (feed fuel F a x c) (feed fuel no_fault o x c0).
Proof.
  induction fuel as [|f IH]; intros F a o x c c0 R.
  - cbn [feed]. intro X. cbn [fst snd] in X. discriminate.
  - destruct a as [d|cap d|vt T st n|all bs]; destruct o as [d'|cap' d'|vt' T' st' n'|all' bs'];
      try (cbn [relx] in R; contradiction).
    + cbn [relx] in R. subst d'. cbn [feed]. destruct x as [|x0 xr].
      * intros _. cbn [fst snd relx]. auto.
      * unfold no_fault at 1. destruct (F c); intro X; cbn [fst snd] in *; [discriminate|].
        cbn [relx]. auto.
    + cbn [relx] in R. destruct R as [-> ->]. cbn [feed].
      destruct (cap' - blen d' <? blen x); intro X; cbn [fst snd] in *; [discriminate|].
      cbn [relx]. auto.
    + cbn [relx] in R. destruct R as (-> & -> & <- & <- & R). cbn [feed].
      destruct (tfeed T st x) as [outs st1].
      pose proof (pass_on_mono anyok (feed f F) (feed f no_fault) (fun a o y c c0 => IH F a o y c c0) outs n n' c c0 R) as M.
      unfold mono3 in M.
      destruct (pass_on (feed f F) n outs c) as [[nf okf] cf].
      destruct (pass_on (feed f no_fault) n' outs c0) as [[no ok] co]. cbn [fst snd] in M.
      destruct st1 as [s|]; intro X; cbn [fst snd] in *; [|discriminate].
      subst okf. destruct (M eq_refl) as [-> R']. split; [reflexivity|]. cbn [relx]. auto.
    + apply relx_plex in R. destruct R as (<- & A & G). cbn [feed].
      pose proof (plex_iter_mono anyok all (fun b c => feed f F b x c) (fun b c => feed f no_fault b x c)
                    (fun a o c c0 => IH F a o x c c0) bs bs' G false false c c0 (fun e => e)) as M.
      destruct (plex_iter (fun b c => feed f F b x c) all bs false c) as [[rf vf] cf].
      destruct (plex_iter (fun b c => feed f no_fault b x c) all bs' false c0) as [[ro vo] co]. cbn [fst snd] in M.
      intro X. cbn [fst snd] in *. destruct (M X) as [V F2]. split; [exact V|].
      apply relx_plex. auto.
Qed.

(* ---- done ------------------------------------------------------------------------------ *)

Lemma done_mono anyok fuel : forall F a o c c0,
  relx anyok a o -> mono3 anyok (done fuel F a c) (done fuel no_fault o c0).
Proof.
  induction fuel as [|f IH]; intros F a o c c0 R.
  - cbn [done]. intro X. cbn [fst snd] in X. discriminate.
  - destruct a as [d|cap d|vt T st n|all bs]; destruct o as [d'|cap' d'|vt' T' st' n'|all' bs'];
      try (cbn [relx] in R; contradiction).
    + cbn [done]. intros _. cbn [fst snd]. auto.
    + cbn [done]. intros _. cbn [fst snd]. auto.
    + cbn [relx] in R. destruct R as (-> & -> & <- & <- & R). cbn [done].
      destruct (tdone T st) as [outs|].
      * pose proof (pass_on_mono anyok (feed f F) (feed f no_fault)
                      (fun a o y c c0 => feed_mono anyok f F a o y c c0) outs n n' c c0 R) as M.
        unfold mono3 in M.
        destruct (pass_on (feed f F) n outs c) as [[nf okf] cf].
        destruct (pass_on (feed f no_fault) n' outs c0) as [[no ok] co]. cbn [fst snd] in M.
        destruct okf.
        -- destruct (M eq_refl) as [-> R'].
           specialize (IH F nf no cf co R'). unfold mono3 in IH.
           destruct (done f F nf cf) as [[nf2 okf2] cf2].
           destruct (done f no_fault no co) as [[no2 ok2] co2]. cbn [fst snd] in *.
           intro X. cbn [fst snd] in *. destruct (IH X) as [-> R2]. split; [reflexivity|]. cbn [relx]. auto.
        -- intro X. cbn [fst snd] in X. discriminate.
      * intro X. cbn [fst snd] in X. discriminate.
    + apply relx_plex in R. destruct R as (<- & A & G). cbn [done].
      pose proof (plex_iter_mono anyok all (done f F) (done f no_fault)
                    (fun a o c c0 => IH F a o c c0) bs bs' G false false c c0 (fun e => e)) as M.
      destruct (plex_iter (done f F) all bs false c) as [[rf vf] cf].
      destruct (plex_iter (done f no_fault) all bs' false c0) as [[ro vo] co]. cbn [fst snd] in M.
      intro X. cbn [fst snd] in *. destruct (M X) as [V F2]. split; [exact V|].
      apply relx_plex. auto.
Qed.

Lemma feed_all_mono anyok fuel F : forall xs a o c c0,
  relx anyok a o -> mono3 anyok (feed_all fuel F a xs c) (feed_all fuel no_fault o xs c0).
Proof.
  induction xs as [|x r IH]; intros a o c c0 R; cbn [feed_all].
  - intros _. cbn [fst snd]. auto.
  - pose proof (feed_mono anyok fuel F a o x c c0 R) as M. unfold mono3 in M.
    destruct (feed fuel F a x c) as [[a' okf] c1]. destruct (feed fuel no_fault o x c0) as [[o' ok] c1']. cbn [fst snd] in M.
    destruct okf.
    + destruct (M eq_refl) as [-> R']. apply IH. exact R'.
    + intro X. cbn [fst snd] in X. discriminate.
Qed.

(* ---- construction ------------------------------------------------------------------------ *)

Fixpoint obj_of (p : plan) : obj :=
  match p with
  | PMalloc => OMalloc []
  | PBuffer cap => OBuffer cap []
  | PStage vt T next => OStage vt T [] (obj_of next)
  | PPlex all bs => OPlex all (map (fun b => (true, obj_of b)) bs)
  end.

Definition build_list (F : faults) :=
  fix go (bs : list plan) (cnt : nat) : option (list (bool * obj)) * nat :=
    match bs with
    | [] => (Some [], cnt)
    | b :: r =>
        match build F b cnt with
        | (None, c) => (None, c)
        | (Some o, c) =>
            match go r c with
            | (None, c') => (None, c')
            | (Some os, c') => (Some ((true, o) :: os), c')
            end
        end
    end.

Lemma build_plex F all bs cnt :
  build F (PPlex all bs) cnt =
  match build_list F bs cnt with
  | (None, c) => (None, c)
  | (Some os, c) => if F c then (None, S c) else (Some (OPlex all os), S c)
  end.
Proof. reflexivity. Qed.

(* a construction that succeeds yields the object of the plan, whatever failed elsewhere *)
Lemma build_some F p : forall c o c', build F p c = (Some o, c') -> o = obj_of p.
Proof.
  induction p as [|cap|vt T next IH|all bs IH] using plan_ind'; intros c o c' E.
  - cbn [build] in E. destruct (F c); inversion E. reflexivity.
  - cbn [build] in E. destruct (F c); inversion E. reflexivity.
  - cbn [build] in E. destruct (build F next c) as [[n|] c1] eqn:B; [|inversion E].
    destruct (F c1); inversion E. cbn [obj_of]. rewrite (IH _ _ _ B). reflexivity.
  - rewrite build_plex in E. destruct (build_list F bs c) as [[os|] c1] eqn:B; [|inversion E].
    destruct (F c1); inversion E. cbn [obj_of]. f_equal.
    clear E H0 H1. revert c os c1 B. induction IH as [|b r Hb Hr IHr]; intros c os c1 B; cbn [build_list] in B.
    + inversion B. reflexivity.
    + destruct (build F b c) as [[ob|] c2] eqn:Bb; [|inversion B].
      destruct (build_list F r c2) as [[os'|] c3] eqn:Br; [|inversion B].
      inversion B; subst. cbn [map]. rewrite (Hb _ _ _ Bb). rewrite (IHr _ _ _ Br). reflexivity.
Qed.

Lemma build_no_fault p : forall c, exists c', build no_fault p c = (Some (obj_of p), c').
Proof.
  induction p as [|cap|vt T next IH|all bs IH] using plan_ind'; intro c.
  - eexists. reflexivity.
  - eexists. reflexivity.
  - cbn [build]. destruct (IH c) as [c1 ->]. eexists. reflexivity.
  - rewrite build_plex.
    assert (exists c1, build_list no_fault bs c = (Some (map (fun b => (true, obj_of b)) bs), c1)) as [c1 ->].
    { revert c. induction IH as [|b r Hb Hr IHr]; intro c; cbn [build_list map].
      - eexists. reflexivity.
      - destruct (Hb c) as [c2 ->]. destruct (IHr c2) as [c3 ->]. eexists. reflexivity. }
    eexists. reflexivity.
Qed.

Lemma relx_refl anyok p :
  genuine p = true -> (anyok = true \/ no_any p = true) -> relx anyok (obj_of p) (obj_of p).
Proof.
  induction p as [|cap|vt T next IH|all bs IH] using plan_ind'; intros G A.
  - reflexivity.
  - cbn [obj_of relx]. auto.
  - cbn [genuine] in G. destruct vt; [|discriminate]. cbn [obj_of relx].
    repeat split; try reflexivity. apply IH; [exact G|]. destruct A as [A|A]; [left; exact A|right; exact A].
  - cbn [obj_of]. apply relx_plex. split; [reflexivity|]. split.
    + destruct A as [A|A]; [left; exact A|]. cbn [no_any] in A. apply andb_true_iff in A. right. tauto.
    + cbn [genuine] in G.
      assert (A' : anyok = true \/ forallb no_any bs = true).
      { destruct A as [A|A]; [left; exact A|]. cbn [no_any] in A. apply andb_true_iff in A. right. tauto. }
      clear A. induction IH as [|b r Hb Hr IHr]; cbn [map]; [constructor|].
      cbn [forallb] in G. apply andb_true_iff in G. destruct G as [Gb Gr].
      assert (Ab : anyok = true \/ no_any b = true).
      { destruct A' as [A|A]; [left; exact A|]. cbn [forallb] in A. apply andb_true_iff in A. right. tauto. }
      assert (Ar : anyok = true \/ forallb no_any r = true).
      { destruct A' as [A|A]; [left; exact A|]. cbn [forallb] in A. apply andb_true_iff in A. right. tauto. }
      constructor; [|apply IHr; assumption].
      unfold brel. cbn [fst snd]. destruct all; auto.
Qed.

(* ---- what the sinks hold ------------------------------------------------------------------ *)

(* [dle d d0]: d is d0 with some sub-lists (the sinks of a dropped branch) replaced by one None *)
Inductive dle : list (option bytes) -> list (option bytes) -> Prop :=
| dle_nil : dle [] []
| dle_some b r r0 : dle r r0 -> dle (Some b :: r) (Some b :: r0)
| dle_drop l r r0 : dle r r0 -> dle (None :: r) (l ++ r0).

Lemma dle_refl d : dle d d.
Proof.
  induction d as [|[b|] r IH]; [constructor|constructor; exact IH|].
  change (None :: r) with ([None] ++ r) at 2. constructor. exact IH.
Qed.

Lemma dle_app a b c d : dle a b -> dle c d -> dle (a ++ c) (b ++ d).
Proof.
  intros H K. induction H as [|x r r0 H IH|l r r0 H IH]; cbn [app].
  - exact K.
  - constructor. exact IH.
  - rewrite <- app_assoc. constructor. exact IH.
Qed.

Definition branch_delivered (fb : bool * obj) : list (option bytes) :=
  if fst fb then odelivered (snd fb) else [None].

Lemma odelivered_plex all bs : odelivered (OPlex all bs) = flat_map branch_delivered bs.
Proof.
  cbn [odelivered]. induction bs as [|[f b] r IH]; cbn [flat_map]; [reflexivity|].
  unfold branch_delivered at 1. cbn [fst snd]. destruct f; rewrite IH; reflexivity.
Qed.

Lemma relx_dle a : forall o, relx true a o -> dle (odelivered a) (odelivered o).
Proof.
  induction a as [d|cap d|vt T st n IH|all bs IH] using obj_ind'; intros [d'|cap' d'|vt' T' st' n'|all' bs'] R;
    try (cbn [relx] in R; contradiction).
  - cbn [relx] in R. subst. apply dle_refl.
  - cbn [relx] in R. destruct R; subst. apply dle_refl.
  - cbn [relx] in R. destruct R as (_ & _ & _ & _ & R). cbn [odelivered]. apply IH. exact R.
  - apply relx_plex in R. destruct R as (<- & _ & G). rewrite !odelivered_plex.
    induction G as [|[fa ba] [fo bo] r r' B G IHG]; cbn [flat_map]; [constructor|].
    inversion IH as [|? ? Hb Hr]; subst. specialize (IHG Hr).
    unfold brel in B. cbn [fst snd] in B. unfold branch_delivered at 1 3. cbn [fst snd].
    destruct all.
    + destruct B as [<- B]. destruct fa.
      * apply dle_app; [apply Hb; apply B; reflexivity|exact IHG].
      * apply dle_app; [apply dle_refl|exact IHG].
    + destruct fa.
      * destruct (B eq_refl) as [-> R]. apply dle_app; [apply Hb; exact R|exact IHG].
      * cbn [app]. constructor. exact IHG.
Qed.

Lemma relx_eq a : forall o, relx false a o -> odelivered a = odelivered o.
Proof.
  induction a as [d|cap d|vt T st n IH|all bs IH] using obj_ind'; intros [d'|cap' d'|vt' T' st' n'|all' bs'] R;
    try (cbn [relx] in R; contradiction).
  - cbn [relx] in R. subst. reflexivity.
  - cbn [relx] in R. destruct R; subst. reflexivity.
  - cbn [relx] in R. destruct R as (_ & _ & _ & _ & R). cbn [odelivered]. apply IH. exact R.
  - apply relx_plex in R. destruct R as (<- & A & G). destruct A as [A|A]; [discriminate|]. subst all.
    rewrite !odelivered_plex.
    induction G as [|[fa ba] [fo bo] r r' B G IHG]; cbn [flat_map]; [reflexivity|].
    inversion IH as [|? ? Hb Hr]; subst. rewrite (IHG Hr). f_equal.
    unfold brel in B. cbn [fst snd] in B. destruct B as [<- B]. unfold branch_delivered. cbn [fst snd].
    destruct fa; [|reflexivity]. apply Hb. apply B. reflexivity.
Qed.

(* ---- the scenario -------------------------------------------------------------------------- *)

(* the run with faults either fails or ends, like the fault-free run, with verdict true in a related state *)
Lemma exec_mono anyok F p xs :
  genuine p = true -> (anyok = true \/ no_any p = true) ->
  forall o, fst (exec F p xs) = Some (o, true) ->
  exists o0, fst (exec no_fault p xs) = Some (o0, true) /\ relx anyok o o0.
Proof.
  intros G A o E. unfold exec in *.
  destruct (build F p 0) as [[ob|] c] eqn:B; [|cbn [fst] in E; discriminate].
  pose proof (build_some F p _ _ _ B) as ->.
  destruct (build_no_fault p 0%nat) as [c0 ->].
  pose proof (feed_all_mono anyok (pdepth p) F xs (obj_of p) (obj_of p) c c0 (relx_refl anyok p G A)) as M.
  unfold mono3 in M.
  destruct (feed_all (pdepth p) F (obj_of p) xs c) as [[o1 okf] c1].
  destruct (feed_all (pdepth p) no_fault (obj_of p) xs c0) as [[o1' ok] c1']. cbn [fst snd] in M.
  destruct okf; [|cbn [fst] in E; inversion E].
  destruct (M eq_refl) as [-> R1].
  pose proof (done_mono anyok (pdepth p) F o1 o1' c1 c1' R1) as D. unfold mono3 in D.
  destruct (done (pdepth p) F o1 c1) as [[o2 vf] c2].
  destruct (done (pdepth p) no_fault o1' c1') as [[o2' v] c2']. cbn [fst snd] in *.
  inversion E; subst. destruct (D eq_refl) as [-> R2]. exists o2'. auto.
Qed.

Theorem propagates p : genuine p = true -> forall F xs,
  run_failing F p xs = Failed \/
  exists d d0, run_failing F p xs = Ok d /\ run_failing no_fault p xs = Ok d0 /\ dle d d0.
Proof.
  intros G F xs. unfold run_failing.
  destruct (fst (exec F p xs)) as [[o [|]]|] eqn:E; [|left; reflexivity|left; reflexivity].
  right. destruct (exec_mono true F p xs G (or_introl eq_refl) o E) as (o0 & E0 & R).
  rewrite E0. exists (odelivered o), (odelivered o0). split; [reflexivity|]. split; [reflexivity|].
  apply relx_dle. exact R.
Qed.

(* without any-multiplexers: Failed, or exactly the fault-free result *)
Theorem propagates_exact p : genuine p = true -> no_any p = true -> forall F xs,
  run_failing F p xs = Failed \/ run_failing F p xs = run_failing no_fault p xs.
Proof.
  intros G A F xs. unfold run_failing.
  destruct (fst (exec F p xs)) as [[o [|]]|] eqn:E; [|left; reflexivity|left; reflexivity].
  right. destruct (exec_mono false F p xs G (or_intror A) o E) as (o0 & E0 & R).
  rewrite E0. f_equal. apply relx_eq. exact R.
Qed.

(* never "Ok wrong": a success under faults is a success of the fault-free run *)
Corollary success_is_genuine p : genuine p = true -> forall F xs d,
  run_failing F p xs = Ok d -> exists d0, run_failing no_fault p xs = Ok d0 /\ dle d d0.
Proof.
  intros G F xs d E. destruct (propagates p G F xs) as [X|(d1 & d0 & E1 & E0 & L)]; [congruence|].
  exists d0. split; [exact E0|]. congruence.
Qed.

(* a failing fault-free run stays a failure under every fault set *)
Corollary failure_stays p : genuine p = true -> forall F xs,
  run_failing no_fault p xs = Failed -> run_failing F p xs = Failed.
Proof.
  intros G F xs E. destruct (propagates p G F xs) as [X|(d1 & d0 & E1 & E0 & L)]; [exact X|congruence].
Qed.

(* ---- the malloc sink ----------------------------------------------------------------------- *)

(* realloc fails: the feed is rejected, the sink holds what it held, the request was counted *)
Theorem malloc_sink_fault f F d x cnt :
  x <> [] -> F cnt = true -> feed (S f) F (OMalloc d) x cnt = (OMalloc d, false, S cnt).
Proof. intros N E. cbn [feed]. destruct x; [contradiction|]. rewrite E. reflexivity. Qed.

Theorem malloc_sink_ok f F d x cnt :
  x <> [] -> F cnt = false -> feed (S f) F (OMalloc d) x cnt = (OMalloc (d ++ x), true, S cnt).
Proof. intros N E. cbn [feed]. destruct x; [contradiction|]. rewrite E. reflexivity. Qed.

(* an empty feed issues no request and cannot fail *)
Theorem malloc_sink_empty f F d cnt : feed (S f) F (OMalloc d) [] cnt = (OMalloc d, true, cnt).
Proof. reflexivity. Qed.

(* a caller that stops at the first rejection: whatever is fed, the sink ends with a prefix of
   the concatenation, and with all of it exactly when every feed was accepted *)
Theorem malloc_sink_prefix f F : forall xs d cnt,
  exists d' ok c, feed_all (S f) F (OMalloc d) xs cnt = (OMalloc d', ok, c) /\
                  exists k, d' = d ++ concat (firstn k xs) /\ (ok = true -> d' = d ++ concat xs).
Proof.
  induction xs as [|x r IH]; intros d cnt; cbn [feed_all].
  - exists d, true, cnt. split; [reflexivity|]. exists O. cbn [firstn concat]. rewrite app_nil_r. auto.
  - destruct x as [|x0 xr].
    + cbn [feed]. destruct (IH d cnt) as (d' & ok & c & E & k & P & Q). rewrite E.
      exists d', ok, c. split; [reflexivity|]. exists (S k). cbn [firstn concat app]. auto.
    + cbn [feed]. destruct (F cnt).
      * exists d, false, (S cnt). split; [reflexivity|]. exists O. cbn [firstn concat]. rewrite app_nil_r.
        split; [reflexivity|discriminate].
      * destruct (IH (d ++ x0 :: xr) (S cnt)) as (d' & ok & c & E & k & P & Q). rewrite E.
        exists d', ok, c. split; [reflexivity|]. exists (S k). cbn [firstn concat]. split.
        -- rewrite P. rewrite <- app_assoc. reflexivity.
        -- intro X. rewrite (Q X). rewrite <- app_assoc. reflexivity.
Qed.

(* the same statement on the sink of Io/Chain.v that rejects its j-th feed call *)
Theorem chain_sink_fault j fd d x :
  sink_feed (SFaulty (Some j) fd j d) x = (SFaulty (Some j) fd (S j) d, false).
Proof. cbn [sink_feed]. rewrite Nat.eqb_refl. reflexivity. Qed.

(* ---- a mis-typed verdict ---------------------------------------------------------------------- *)

(* a size_t returned as bool: SIZE_MAX (the failure value) converts to true *)
Theorem size_max_is_true : size_as_bool None = true.
Proof. reflexivity. Qed.

Theorem size_as_bool_false_iff s : size_as_bool s = false <-> s = Some 0.
Proof. destruct s as [[|p]|]; cbn [size_as_bool]; split; intro H; try reflexivity; try discriminate; inversion H. Qed.

(* a stage whose done() returns the digest length / SIZE_MAX as bool, in front of a malloc sink *)
Definition id_T : transducer := atdone_T (fun m => Some m).
Definition mistyped : plan := PStage VSize id_T PMalloc.
Definition welltyped : plan := PStage VBool id_T PMalloc.

(* the downstream failure of such a stage is reported as success: for EVERY non-empty input the
   run in which the sink's realloc (request 2) fails reports success with an EMPTY sink *)
Theorem mistyped_done_hides_failure x : x <> [] ->
  run_failing (fault_at 2) mistyped [x] = Ok [Some []] /\
  run_failing no_fault mistyped [x] = Ok [Some x] /\
  run_failing (fault_at 2) welltyped [x] = Failed.
Proof.
  intro N. destruct x as [|x0 xr]; [contradiction|].
  unfold run_failing, exec, mistyped, welltyped. cbn. auto.
Qed.

Theorem boolean_verdict_needed :
  exists p k xs d d0, genuine p = false /\
    run_failing (fault_at k) p xs = Ok d /\ run_failing no_fault p xs = Ok d0 /\ ~ dle d d0.
Proof.
  exists mistyped, 2%nat, [[1]], [Some []], [Some [1]].
  split; [reflexivity|]. split; [reflexivity|]. split; [reflexivity|].
  intro H. inversion H.
Qed.

(* in general: once the stage's finalisation or anything downstream fails, VSize says true *)
Theorem vsize_done_never_fails f F T st next cnt :
  (tdone T st = None \/
   exists outs, tdone T st = Some outs /\ outs <> [] /\ concat outs <> []) ->
  snd (fst (done (S f) F (OStage VSize T st next) cnt)) = true.
Proof.
  intros [E|(outs & E & N & C)]; cbn [done]; rewrite E.
  - reflexivity.
  - destruct (pass_on (feed f F) next outs cnt) as [[n' ok] c].
    destruct (if ok then done f F n' c else (n', false, c)) as [[n2 ok2] c2]. cbn [fst snd].
    destruct ok2; [|reflexivity].
    unfold size_as_bool. destruct (blen (concat outs)) eqn:L; [|reflexivity].
    exfalso. apply C. unfold blen in L. destruct (concat outs); [reflexivity|cbn in L; lia].
Qed.

(* ============================================================================================
   The same statement on the whole-input semantics of Io/Chain.v ([runc], the model the C07
   correspondence ties to lib/io.c): replace ANY set of malloc sinks of a chain by sinks whose
   realloc fails at arbitrary feed calls; if the faulted chain reports success, the fault-free
   chain does, and every sink that was not dropped holds the fault-free bytes.
   ============================================================================================ *)
From JoseV Require Import Io.B64Stream Io.ChainProofs.

Definition sink_inj (s sf : sink) : Prop :=
  sf = s \/ exists d ff calls, s = SMalloc d /\ sf = SFaulty ff false calls d.

Fixpoint inj (c cf : chain) {struct c} : Prop :=
  match c, cf with
  | Sink s, Sink sf => sink_inj s sf
  | Stage T st n, Stage T' st' n' => T' = T /\ st' = st /\ inj n n'
  | Plex a bs, Plex a' bs' =>
      a' = a /\
      (fix go (bs bs' : list (bool * chain)) : Prop :=
         match bs, bs' with
         | [], [] => True
         | (f, b) :: r, (f', b') :: r' => f' = f /\ inj b b' /\ go r r'
         | _, _ => False
         end) bs bs'
  | _, _ => False
  end.

Lemma inj_plex a bs a' bs' :
  inj (Plex a bs) (Plex a' bs') <->
  a' = a /\ Forall2 (fun fb fb' => fst fb' = fst fb /\ inj (snd fb) (snd fb')) bs bs'.
Proof.
  cbn [inj]. split.
  - intros [E G]. split; [exact E|]. clear E.
    revert bs' G. induction bs as [|[f b] r IH]; intros [|[f' b'] r'] G; try (destruct G; fail).
    + constructor.
    + destruct G as (E & I & G). constructor; [cbn [fst snd]; auto|apply IH; exact G].
  - intros [E G]. split; [exact E|]. clear E.
    induction G as [|[f b] [f' b'] r r' [E I] G IH]; [exact I|]. cbn [fst snd] in *. auto.
Qed.

(* a sink whose feeds were all accepted holds everything, failing realloc or not *)
Lemma sink_feeds_faulty_all ff fd xs : forall calls d s' k,
  sink_feeds (SFaulty ff fd calls d) xs = (s', k) -> k = length xs ->
  exists calls', s' = SFaulty ff fd calls' (d ++ concat xs).
Proof.
  induction xs as [|x r IH]; intros calls d s' k E K; cbn [sink_feeds] in E.
  - inversion E; subst. exists calls. cbn [concat]. rewrite app_nil_r. reflexivity.
  - cbn [sink_feed] in E. cbn [length] in K.
    assert (Hok : forall s1, (let '(s2, k2) := sink_feeds s1 r in (s2, S k2)) = (s', k) ->
                              s1 = SFaulty ff fd (S calls) (d ++ x) ->
                              exists calls', s' = SFaulty ff fd calls' (d ++ concat (x :: r))).
    { intros s1 E1 ->. destruct (sink_feeds (SFaulty ff fd (S calls) (d ++ x)) r) as [s2 k2] eqn:E2.
      inversion E1; subst. destruct (IH _ _ _ _ E2 ltac:(lia)) as [c' ->].
      exists c'. cbn [concat]. rewrite app_assoc. reflexivity. }
    destruct ff as [n|].
    + destruct (Nat.eqb n calls).
      * inversion E; subst. discriminate.
      * eapply Hok; [exact E|reflexivity].
    + eapply Hok; [exact E|reflexivity].
Qed.

(* what a stage passes downstream over a whole run does not depend on what is downstream *)
Definition stage_emits (T : transducer) (st : bytes) (xs : list bytes) : option (list bytes) :=
  let '(st', oss, part, tok) := trun T st xs in
  if tok then match tdone T st' with
              | Some fo => Some ((concat oss ++ part) ++ fo)
              | None => None
              end
  else None.

Lemma runc_stage_emits T st next xs :
  match stage_emits T st xs with
  | Some L => snd (runc (Stage T st next) xs) = snd (runc next L) /\
              (snd (runc next L) = true ->
               delivered (fst (fst (runc (Stage T st next) xs))) = delivered (fst (fst (runc next L))))
  | None => snd (runc (Stage T st next) xs) = false
  end.
Proof.
  unfold stage_emits. cbn [runc].
  destruct (trun T st xs) as [[[st' oss] part] tok].
  destruct tok.
  - destruct (tdone T st') as [fo|].
    + pose proof (runc_true_all next ((concat oss ++ part) ++ fo)) as A.
      destruct (runc next ((concat oss ++ part) ++ fo)) as [[next' a] v]. cbn [fst snd] in *.
      destruct v.
      * specialize (A eq_refl). subst a.
        replace (Nat.ltb (length ((concat oss ++ part) ++ fo)) (length (concat oss ++ part))) with false
          by (symmetry; apply Nat.ltb_ge; rewrite !app_length; lia).
        cbn [fst snd delivered]. auto.
      * destruct (Nat.ltb a (length (concat oss ++ part))); cbn [fst snd]; split; auto; discriminate.
    + destruct (feeds next (concat oss ++ part)) as [next' a]. reflexivity.
  - destruct (feeds next (concat oss ++ part)) as [next' a]. reflexivity.
Qed.

Definition chain_mono (c : chain) : Prop :=
  forall cf, inj c cf -> forall xs, snd (runc cf xs) = true ->
    snd (runc c xs) = true /\
    dle (delivered (fst (fst (runc cf xs)))) (delivered (fst (fst (runc c xs)))).

Theorem chain_propagates c : chain_mono c.
Proof.
  induction c as [s|T st next IH|all bs IH] using chain_ind'; intros cf I xs V.
  - (* sinks *)
    destruct cf as [sf| |]; try (cbn [inj] in I; contradiction). cbn [inj] in I.
    destruct I as [->|(d & ff & calls & -> & ->)]; [split; [exact V|apply dle_refl]|].
    cbn [runc] in V |- *. rewrite sink_feeds_malloc. rewrite Nat.eqb_refl. cbn [sink_done fst snd delivered sink_data].
    destruct (sink_feeds (SFaulty ff false calls d) xs) as [s' k] eqn:E.
    destruct (Nat.eqb k (length xs)) eqn:K; [|cbn [snd] in V; discriminate].
    apply Nat.eqb_eq in K. destruct (sink_feeds_faulty_all _ _ _ _ _ _ _ E K) as [c' ->].
    cbn [sink_done fst snd delivered sink_data]. split; [reflexivity|apply dle_refl].
  - (* stages *)
    destruct cf as [|T' st' next'|]; try (cbn [inj] in I; contradiction). cbn [inj] in I.
    destruct I as (-> & -> & I).
    pose proof (runc_stage_emits T st next' xs) as Rf. pose proof (runc_stage_emits T st next xs) as Ro.
    destruct (stage_emits T st xs) as [L|]; [|congruence].
    destruct Rf as [Vf Df]. destruct Ro as [Vo Do]. rewrite Vf in V.
    destruct (IH next' I L V) as [V0 D0]. rewrite Vo. split; [exact V0|].
    rewrite Df by exact V. rewrite Do by exact V0. exact D0.
  - (* multiplexers *)
    destruct cf as [| |all' bs']; try (cbn [inj] in I; contradiction).
    apply inj_plex in I. destruct I as [-> G].
    destruct all.
    + destruct (runc_plex_all bs' xs) as [Vf Cf]. destruct (runc_plex_all bs xs) as [Vo Co].
      rewrite Vf in V. apply andb_true_iff in V. destruct V as [Ne Fa].
      (* every live branch of the faulted multiplexer succeeded, hence of the fault-free one *)
      assert (K : (match vs_of xs bs with [] => false | _ => true end) = true /\
                  forallb (fun v => v) (vs_of xs bs) = true /\
                  dle (flat_map (fun fb : bool * chain => if fst fb then delivered (snd fb) else [None]) (all_after xs bs'))
                      (flat_map (fun fb : bool * chain => if fst fb then delivered (snd fb) else [None]) (all_after xs bs))).
      { unfold vs_of, all_after in *. rewrite !map_map. clear Vf Cf Vo Co.
        induction G as [|[f b] [f' b'] r r' [E Ib] G IHG]; cbn [fst snd] in *.
        - cbn in Ne. discriminate.
        - subst f'. inversion IH as [|? ? Hb Hr]; subst. cbn [snd] in Hb.
          cbn [filter map flat_map fst snd gR] in *. destruct f; cbn [map forallb fst snd flat_map] in *.
          + apply andb_true_iff in Fa. destruct Fa as [Fb Fr].
            destruct (Hb b' Ib xs Fb) as [Vb Db]. rewrite Vb. cbn [andb]. split; [reflexivity|].
            destruct (filter (fun fb : bool * chain => fst fb) r') as [|x0 l0] eqn:Fl.
            * (* no further live branch on the faulted side: none on the fault-free side either *)
              assert (Er : filter (fun fb : bool * chain => fst fb) r = []).
              { clear - G Fl. induction G as [|[f b] [f' b'] r r' [E _] G IHG]; [reflexivity|].
                cbn [fst snd] in E. subst f'. cbn [filter fst] in *. destruct f; [discriminate|]. apply IHG. exact Fl. }
              rewrite Er. cbn [map forallb]. split; [reflexivity|].
              apply dle_app; [exact Db|].
              clear - G Fl Er. induction G as [|[f b] [f' b'] r r' [E _] G IHG]; cbn [map flat_map]; [constructor|].
              cbn [fst snd] in E. subst f'. cbn [filter fst] in Fl, Er. destruct f; [discriminate|].
              cbn [gR fst snd]. apply dle_app; [apply dle_refl|]. apply IHG; assumption.
            * destruct (IHG Hr eq_refl Fr) as (_ & F2 & D2). split; [exact F2|].
              apply dle_app; [exact Db|exact D2].
          + destruct (IHG Hr Ne Fa) as (N2 & F2 & D2). split; [exact N2|]. split; [exact F2|].
            apply dle_app; [apply dle_refl|exact D2]. }
      destruct K as (K1 & K2 & K3).
      assert (V0 : snd (runc (Plex true bs) xs) = true) by (rewrite Vo, K1, K2; reflexivity).
      split; [exact V0|].
      rewrite (Cf ltac:(rewrite Vf, Ne, Fa; reflexivity)). rewrite (Co V0). rewrite !delivered_plex. exact K3.
    + destruct (runc_plex_any bs' xs) as [Vf Cf]. destruct (runc_plex_any bs xs) as [Vo Co].
      rewrite Vf in V.
      assert (K : existsb (fun v => v) (vs_of xs bs) = true /\
                  dle (flat_map (fun fb : bool * chain => if fst fb then delivered (snd fb) else [None]) (any_after xs bs'))
                      (flat_map (fun fb : bool * chain => if fst fb then delivered (snd fb) else [None]) (any_after xs bs))).
      { assert (D : dle (flat_map (fun fb : bool * chain => if fst fb then delivered (snd fb) else [None]) (any_after xs bs'))
                        (flat_map (fun fb : bool * chain => if fst fb then delivered (snd fb) else [None]) (any_after xs bs)) /\
                    (existsb (fun v => v) (vs_of xs bs') = true -> existsb (fun v => v) (vs_of xs bs) = true)).
        { unfold vs_of, any_after. rewrite !map_map. clear Vf Cf Vo Co V.
          induction G as [|[f b] [f' b'] r r' [E Ib] G IHG]; cbn [fst snd] in *.
          - split; [constructor|auto].
          - subst f'. inversion IH as [|? ? Hb Hr]; subst. cbn [snd] in Hb. destruct (IHG Hr) as [D2 X2].
            cbn [filter map flat_map fst snd gR]. destruct f; cbn [map existsb fst snd flat_map].
            + destruct (snd (runc b' xs)) eqn:Vb'.
              * destruct (Hb b' Ib xs Vb') as [Vb Db]. rewrite Vb. cbn [fst snd orb].
                split; [apply dle_app; [exact Db|exact D2]|reflexivity].
              * cbn [fst snd orb]. split.
                -- change ([None] ++ flat_map (fun fb : bool * chain => if fst fb then delivered (snd fb) else [None])
                               (map (fun x => if fst (fst (gR xs x)) then (snd (snd (gR xs x)), fst (fst (snd (gR xs x)))) else (false, snd (fst (gR xs x)))) r'))
                     with (None :: flat_map (fun fb : bool * chain => if fst fb then delivered (snd fb) else [None])
                               (map (fun x => if fst (fst (gR xs x)) then (snd (snd (gR xs x)), fst (fst (snd (gR xs x)))) else (false, snd (fst (gR xs x)))) r')).
                   constructor. exact D2.
                -- intro X. rewrite (X2 X). apply orb_true_r.
            + split; [apply dle_app; [apply dle_refl|exact D2]|exact X2]. }
        destruct D as [D X]. split; [apply X; exact V|exact D]. }
      destruct K as [K1 K2].
      assert (V0 : snd (runc (Plex false bs) xs) = true) by (rewrite Vo; exact K1).
      split; [exact V0|].
      rewrite (Cf ltac:(rewrite Vf; exact V)). rewrite (Co V0). rewrite !delivered_plex. exact K2.
Qed.

(* the chain of a plan, with nothing failing, is related to itself *)
Lemma inj_refl c : inj c c.
Proof.
  induction c as [s|T st next IH|all bs IH] using chain_ind'.
  - left. reflexivity.
  - cbn [inj]. auto.
  - apply inj_plex. split; [reflexivity|]. induction IH as [|fb r Hb Hr IHr]; constructor; auto.
Qed.

(* ---- the single-fault forms used by the property file ------------------------------------------ *)

Corollary propagates_k p : genuine p = true -> forall k xs,
  run_failing (fault_at k) p xs = Failed \/
  exists d d0, run_failing (fault_at k) p xs = Ok d /\ run_failing no_fault p xs = Ok d0 /\ dle d d0.
Proof. intros G k xs. apply propagates. exact G. Qed.

Corollary propagates_exact_k p : genuine p = true -> no_any p = true -> forall k xs,
  run_failing (fault_at k) p xs = Failed \/ run_failing (fault_at k) p xs = run_failing no_fault p xs.
Proof. intros G A k xs. apply propagates_exact; assumption. Qed.

(* on the chain of a plan: whichever malloc sinks are made to fail at whichever feed calls *)
Corollary chain_propagates_plan p cf xs :
  inj (chain_of p) cf -> snd (runc cf xs) = true ->
  snd (runc (chain_of p) xs) = true /\
  dle (delivered (fst (fst (runc cf xs)))) (delivered (fst (fst (runc (chain_of p) xs)))).
Proof. intros I V. apply chain_propagates; assumption. Qed.
