(* RFC 4648 section 5 (base64url, unpadded) written by 24-bit groups over
   6-bit digits.  The alphabet is the generated one (Gen/Consts.v); it is
   proved equal to RFC 4648 table 2 in B64Proofs.v. *)
From JoseV Require Export Base.Bytes.
From JoseV Require Import Gen.Consts.
Local Open Scope N_scope.

Definition alphabet : list N := b64_map.

Definition ch (d : N) : N := nth (N.to_nat d) alphabet 0.

Fixpoint find_idx (c : N) (l : list N) (i : N) : option N :=
  match l with
  | [] => None
  | x :: r => if x =? c then Some i else find_idx c r (i + 1)
  end.

Definition idx (c : N) : option N := find_idx c alphabet 0.

Fixpoint enc (bs : bytes) : bytes :=
  match bs with
  | [] => []
  | [a] => [ch (a / 4); ch ((a mod 4) * 16)]
  | [a; b] => [ch (a / 4); ch ((a mod 4) * 16 + b / 16); ch ((b mod 16) * 4)]
  | a :: b :: c :: r =>
      ch (a / 4) :: ch ((a mod 4) * 16 + b / 16)
        :: ch ((b mod 16) * 4 + c / 64) :: ch (c mod 64) :: enc r
  end.

Fixpoint dec (s : bytes) : option bytes :=
  match s with
  | [] => Some []
  | [_] => None
  | [c0; c1] =>
      match idx c0, idx c1 with
      | Some a, Some b => if b mod 16 =? 0 then Some [a * 4 + b / 16] else None
      | _, _ => None
      end
  | [c0; c1; c2] =>
      match idx c0, idx c1, idx c2 with
      | Some a, Some b, Some c =>
          if c mod 4 =? 0 then Some [a * 4 + b / 16; (b mod 16) * 16 + c / 4] else None
      | _, _, _ => None
      end
  | c0 :: c1 :: c2 :: c3 :: r =>
      match idx c0, idx c1, idx c2, idx c3 with
      | Some a, Some b, Some c, Some d =>
          match dec r with
          | Some r' => Some (a * 4 + b / 16 :: (b mod 16) * 16 + c / 4 :: (c mod 4) * 64 + d :: r')
          | None => None
          end
      | _, _, _, _ => None
      end
  end.

(* length maps; None = SIZE_MAX *)
Definition dlen (el : N) : option N :=
  match el mod 4 with
  | 0 => Some (el / 4 * 3)
  | 2 => Some (el / 4 * 3 + 1)
  | 3 => Some (el / 4 * 3 + 2)
  | _ => None
  end.

Definition elen (dl : N) : N :=
  match dl mod 3 with
  | 0 => dl / 3 * 4
  | 1 => dl / 3 * 4 + 2
  | _ => dl / 3 * 4 + 3
  end.

Definition blen (b : bytes) : N := N.of_nat (length b).
