(* Shape-for-shape model of lib/b64.c: jose_b64_dec_buf, jose_b64_enc_buf,
   b64_dlen, b64_elen.  A call returns its size_t result (None = SIZE_MAX),
   the list of writes (index, byte) it performed on the output buffer, in
   order, and whether it read its input out of range (the e[io+1] look-ahead). *)
From JoseV Require Export Codec.B64Spec.
From JoseV Require Import Gen.Consts.
Local Open Scope N_scope.

Record bufres := { ret : option N; writes : list (N * N); oob : bool }.

Definition u8 (x : N) : N := x mod 256.

(* alphabet scan: for (v = 0; v < len && c != map[v]; v++) *)
Definition scan (c : N) : option N := find_idx c b64_map 0.

Definition b64_dlen (el : N) : option N :=
  match el mod b64_enc_blk with
  | 0 => Some (el / b64_enc_blk * b64_dec_blk)
  | 2 => Some (el / b64_enc_blk * b64_dec_blk + 1)
  | 3 => Some (el / b64_enc_blk * b64_dec_blk + 2)
  | _ => None
  end.

Definition b64_elen (dl : N) : option N :=
  match dl mod b64_dec_blk with
  | 0 => Some (dl / b64_dec_blk * b64_enc_blk)
  | 1 => Some (dl / b64_dec_blk * b64_enc_blk + 2)
  | 2 => Some (dl / b64_dec_blk * b64_enc_blk + 3)
  | _ => None
  end.

Definition fail_res : bufres := {| ret := None; writes := []; oob := false |}.
Definition wr (i v : N) (r : bufres) : bufres :=
  {| ret := ret r; writes := (i, v) :: writes r; oob := oob r |}.

(* the for loop of jose_b64_dec_buf; e = remaining input, io its index.
   The result lists the writes performed from here on, in order. *)
Fixpoint dec_loop (e : bytes) (io rem oo : N) : bufres :=
  match e with
  | [] => {| ret := if 0 <? rem then None else Some oo; writes := []; oob := false |}
  | c :: e' =>
      match scan c with
      | None => fail_res
      | Some v =>
          match io mod b64_enc_blk with
          | 0 =>
              match e' with
              | [] => (* e[io+1] is outside the input *)
                  {| ret := None; writes := []; oob := true |}
              | n :: _ =>
                  if (n =? 0) || (0 <? rem)
                  then fail_res
                  else dec_loop e' (io + 1) (u8 (N.shiftl v 2)) oo
              end
          | 1 => wr oo (N.lor rem (N.shiftr v 4)) (dec_loop e' (io + 1) (u8 (N.shiftl v 4)) (oo + 1))
          | 2 => wr oo (N.lor rem (N.shiftr v 2)) (dec_loop e' (io + 1) (u8 (N.shiftl v 6)) (oo + 1))
          | _ => wr oo (N.lor rem v) (dec_loop e' (io + 1) 0 (oo + 1))
          end
      end
  end.

(* ol = None models o == NULL (size query) *)
Definition dec_buf (e : bytes) (ol : option N) : bufres :=
  match ol with
  | None => {| ret := b64_dlen (blen e); writes := []; oob := false |}
  | Some ol =>
      match b64_dlen (blen e) with
      | None => {| ret := None; writes := []; oob := false |}   (* ol < SIZE_MAX *)
      | Some need =>
          if ol <? need then {| ret := None; writes := []; oob := false |}
          else dec_loop e 0 0 0
      end
  end.

Definition mapc (i : N) : N := nth (N.to_nat i) b64_map 0.

Fixpoint enc_loop (ib : bytes) (io rem oo : N) : bufres :=
  match ib with
  | [] => {| ret := Some oo; writes := []; oob := false |}
  | c :: ib' =>
      match io mod 3 with
      | 0 =>
          let rem' := N.shiftl (N.land c 3) 4 in
          wr oo (mapc (N.shiftr c 2)) (wr (oo + 1) (mapc rem')
            (enc_loop ib' (io + 1) rem' (oo + 2)))
      | 1 =>
          let rem' := N.shiftl (N.land c 15) 2 in
          wr (oo - 1) (mapc (N.lor rem (N.shiftr c 4))) (wr oo (mapc rem')
            (enc_loop ib' (io + 1) rem' (oo + 1)))
      | _ =>
          wr (oo - 1) (mapc (N.lor rem (N.shiftr c 6))) (wr oo (mapc (N.land c 63))
            (enc_loop ib' (io + 1) rem (oo + 1)))
      end
  end.

Definition enc_buf (ib : bytes) (ol : option N) : bufres :=
  match ol with
  | None => {| ret := b64_elen (blen ib); writes := []; oob := false |}
  | Some ol =>
      match b64_elen (blen ib) with
      | None => {| ret := None; writes := []; oob := false |}
      | Some need =>
          if ol <? need then {| ret := None; writes := []; oob := false |}
          else enc_loop ib 0 0 0
      end
  end.

(* replaying a write list on a buffer *)
Fixpoint set_nth (i : nat) (v : N) (l : list N) : list N :=
  match l, i with
  | [], _ => []
  | _ :: r, O => v :: r
  | x :: r, S k => x :: set_nth k v r
  end.

Definition replay (w : list (N * N)) (buf : list N) : list N :=
  fold_left (fun b iv => set_nth (N.to_nat (fst iv)) (snd iv) b) w buf.
