(* The C-shaped loops of B64Impl refine the RFC 4648 specification, never
   write outside [0, needed) and never read the input out of range. *)
From JoseV Require Import Codec.B64Spec Codec.B64Impl Codec.B64Proofs Gen.Consts.
From Coq Require Import ZifyBool ZifyN ZifyNat.
Local Open Scope N_scope.
Ltac Zify.zify_post_hook ::= Z.div_mod_to_equations.

Fixpoint enum (oo : N) (bs : bytes) : list (N * N) :=
  match bs with
  | [] => []
  | b :: r => (oo, b) :: enum (oo + 1) r
  end.

Lemma enum_app oo a b : enum oo (a ++ b) = enum oo a ++ enum (oo + blen a) b.
Proof.
  revert oo; induction a as [|x a IH]; intro oo; cbn [enum app].
  - unfold blen; simpl. rewrite N.add_0_r. reflexivity.
  - rewrite IH. unfold blen. cbn [length]. do 3 f_equal. lia.
Qed.

Lemma enum_fst_bounds oo bs : Forall (fun iw => oo <= fst iw /\ fst iw < oo + blen bs) (enum oo bs).
Proof.
  revert oo; induction bs as [|b r IH]; intro oo; cbn [enum]; constructor.
  - unfold blen; cbn [fst length]. lia.
  - eapply Forall_impl; [|apply IH]. intros [i v]; unfold blen; cbn [fst length]. lia.
Qed.

(* ---- bit-level facts, by exhaustive sweep over 6-bit digits -------------- *)

Lemma bits0 a : a < 64 -> u8 (N.shiftl a 2) = a * 4.
Proof.
  intro H.
  assert (S : forallb (fun a => u8 (N.shiftl a 2) =? a * 4) (below 64) = true) by (vm_compute; reflexivity).
  apply N.eqb_eq. exact (sweep1 _ _ S a H).
Qed.

Lemma bits1 a b : a < 64 -> b < 64 ->
  N.lor (a * 4) (N.shiftr b 4) = a * 4 + b / 16 /\ u8 (N.shiftl b 4) = (b mod 16) * 16.
Proof.
  intros Ha Hb.
  assert (S : forallb (fun a => forallb (fun b =>
     (N.lor (a * 4) (N.shiftr b 4) =? a * 4 + b / 16) && (u8 (N.shiftl b 4) =? (b mod 16) * 16))
     (below 64)) (below 64) = true) by (vm_compute; reflexivity).
  pose proof (sweep2 (fun a b => (N.lor (a * 4) (N.shiftr b 4) =? a * 4 + b / 16) && (u8 (N.shiftl b 4) =? (b mod 16) * 16)) _ _ S a b Ha Hb) as E.
  cbv beta in E. apply andb_true_iff in E. destruct E as [E1 E2].
  apply N.eqb_eq in E1, E2. auto.
Qed.

Lemma bits2 b c : b < 64 -> c < 64 ->
  N.lor ((b mod 16) * 16) (N.shiftr c 2) = (b mod 16) * 16 + c / 4 /\ u8 (N.shiftl c 6) = (c mod 4) * 64.
Proof.
  intros Hb Hc.
  assert (S : forallb (fun b => forallb (fun c =>
     (N.lor ((b mod 16) * 16) (N.shiftr c 2) =? (b mod 16) * 16 + c / 4) && (u8 (N.shiftl c 6) =? (c mod 4) * 64))
     (below 64)) (below 64) = true) by (vm_compute; reflexivity).
  pose proof (sweep2 (fun b c => (N.lor ((b mod 16) * 16) (N.shiftr c 2) =? (b mod 16) * 16 + c / 4) && (u8 (N.shiftl c 6) =? (c mod 4) * 64)) _ _ S b c Hb Hc) as E.
  cbv beta in E. apply andb_true_iff in E. destruct E as [E1 E2].
  apply N.eqb_eq in E1, E2. auto.
Qed.

Lemma bits3 c d : c < 64 -> d < 64 -> N.lor ((c mod 4) * 64) d = (c mod 4) * 64 + d.
Proof.
  intros Hc Hd.
  assert (S : forallb (fun c => forallb (fun d => N.lor ((c mod 4) * 64) d =? (c mod 4) * 64 + d)
     (below 64)) (below 64) = true) by (vm_compute; reflexivity).
  apply N.eqb_eq. exact (sweep2 (fun c d => N.lor ((c mod 4) * 64) d =? (c mod 4) * 64 + d) _ _ S c d Hc Hd).
Qed.

Lemma idx_zero : idx 0 = None.
Proof. vm_compute. reflexivity. Qed.

Lemma scan_idx c : scan c = idx c.
Proof. reflexivity. Qed.

(* ---- one-step unfoldings of the decoder loop ----------------------------- *)

Lemma dlN c e io rem oo : scan c = None -> dec_loop (c :: e) io rem oo = fail_res.
Proof. intro H. cbn [dec_loop]. rewrite H. reflexivity. Qed.

Lemma dl0 c n e io rem oo v : scan c = Some v -> io mod 4 = 0 ->
  dec_loop (c :: n :: e) io rem oo =
  if (n =? 0) || (0 <? rem) then fail_res else dec_loop (n :: e) (io + 1) (u8 (N.shiftl v 2)) oo.
Proof. intros H M. cbn [dec_loop]. rewrite H. unfold b64_enc_blk. rewrite M. reflexivity. Qed.

Lemma dl0_end c io rem oo v : scan c = Some v -> io mod 4 = 0 ->
  dec_loop [c] io rem oo = {| ret := None; writes := []; oob := true |}.
Proof. intros H M. cbn [dec_loop]. rewrite H. unfold b64_enc_blk. rewrite M. reflexivity. Qed.

Lemma dl1 c e io rem oo v : scan c = Some v -> io mod 4 = 1 ->
  dec_loop (c :: e) io rem oo = wr oo (N.lor rem (N.shiftr v 4)) (dec_loop e (io + 1) (u8 (N.shiftl v 4)) (oo + 1)).
Proof. intros H M. cbn [dec_loop]. rewrite H. unfold b64_enc_blk. rewrite M. reflexivity. Qed.

Lemma dl2 c e io rem oo v : scan c = Some v -> io mod 4 = 2 ->
  dec_loop (c :: e) io rem oo = wr oo (N.lor rem (N.shiftr v 2)) (dec_loop e (io + 1) (u8 (N.shiftl v 6)) (oo + 1)).
Proof. intros H M. cbn [dec_loop]. rewrite H. unfold b64_enc_blk. rewrite M. reflexivity. Qed.

Lemma dl3 c e io rem oo v : scan c = Some v -> io mod 4 = 3 ->
  dec_loop (c :: e) io rem oo = wr oo (N.lor rem v) (dec_loop e (io + 1) 0 (oo + 1)).
Proof. intros H M. cbn [dec_loop]. rewrite H. unfold b64_enc_blk. rewrite M. reflexivity. Qed.

(* ---- decoder: number and position of writes, from any loop state --------- *)

Lemma dec_loop_writes s : forall io rem oo,
  exists bs', writes (dec_loop s io rem oo) = enum oo bs' /\
              blen bs' + (io + blen s + 3) / 4 <= blen s + (io + 3) / 4.
Proof.
  induction s as [|c s IH]; intros io rem oo.
  - exists []. cbn [dec_loop writes enum]. unfold blen; simpl. split; [reflexivity|lia].
  - destruct (scan c) as [v|] eqn:Sc.
    2:{ rewrite (dlN _ _ _ _ _ Sc). exists []. unfold blen; cbn [length]. split; [reflexivity|lia]. }
    assert (M : io mod 4 = 0 \/ io mod 4 = 1 \/ io mod 4 = 2 \/ io mod 4 = 3) by lia.
    destruct M as [M|[M|[M|M]]].
    + destruct s as [|n s'].
      { rewrite (dl0_end _ _ _ _ _ Sc M). exists []. unfold blen; cbn [length]. split; [reflexivity|lia]. }
      rewrite (dl0 _ _ _ _ _ _ _ Sc M).
      destruct ((n =? 0) || (0 <? rem)).
      { exists []. unfold blen; cbn [length]. split; [reflexivity|lia]. }
      destruct (IH (io + 1) (u8 (N.shiftl v 2)) oo) as (bs' & E & B).
      exists bs'. split; [exact E|]. unfold blen in *; cbn [length] in *. lia.
    + rewrite (dl1 _ _ _ _ _ _ Sc M).
      destruct (IH (io + 1) (u8 (N.shiftl v 4)) (oo + 1)) as (bs' & E & B).
      exists (N.lor rem (N.shiftr v 4) :: bs'). cbn [wr writes enum]. rewrite E. split; [reflexivity|].
      unfold blen in *; cbn [length] in *. lia.
    + rewrite (dl2 _ _ _ _ _ _ Sc M).
      destruct (IH (io + 1) (u8 (N.shiftl v 6)) (oo + 1)) as (bs' & E & B).
      exists (N.lor rem (N.shiftr v 2) :: bs'). cbn [wr writes enum]. rewrite E. split; [reflexivity|].
      unfold blen in *; cbn [length] in *. lia.
    + rewrite (dl3 _ _ _ _ _ _ Sc M).
      destruct (IH (io + 1) 0 (oo + 1)) as (bs' & E & B).
      exists (N.lor rem v :: bs'). cbn [wr writes enum]. rewrite E. split; [reflexivity|].
      unfold blen in *; cbn [length] in *. lia.
Qed.

(* ---- decoder: verdict and bytes, from a group boundary ----------------- *)

Lemma idx_nonzero c v : idx c = Some v -> (c =? 0) = false.
Proof. intro H. apply N.eqb_neq. intro; subst c. rewrite idx_zero in H. discriminate. Qed.

Lemma dec_loop_spec s : forall io oo,
  io mod 4 = 0 -> blen s mod 4 <> 1 ->
  let r := dec_loop s io 0 oo in
  oob r = false /\
  match dec s with
  | Some bs => ret r = Some (oo + blen bs) /\ writes r = enum oo bs
  | None => ret r = None
  end.
Proof.
  induction s as [|c0|c0 c1|c0 c1 c2|c0 c1 c2 c3 s IH] using list_ind4; intros io oo M L; cbv zeta.
  - cbn [dec_loop dec oob ret writes enum]. unfold blen; simpl. rewrite N.add_0_r. auto.
  - exfalso. apply L. reflexivity.
  - clear L. cbn [dec].
    destruct (idx c0) as [a|] eqn:E0; [|rewrite (dlN _ _ _ _ _ E0); cbn; auto].
    rewrite (dl0 _ _ _ _ _ _ _ E0 M).
    destruct (idx c1) as [b|] eqn:E1.
    2:{ destruct ((c1 =? 0) || (0 <? 0)); [cbn; auto|]. rewrite (dlN _ _ _ _ _ E1). cbn; auto. }
    rewrite (idx_nonzero _ _ E1). cbn [orb]. replace (0 <? 0) with false by reflexivity.
    rewrite (dl1 _ _ _ _ _ _ E1) by lia. cbn [dec_loop wr oob ret writes].
    apply idx_some in E0, E1. destruct E0 as [La _], E1 as [Lb _].
    rewrite (bits0 a La). destruct (bits1 a b La Lb) as [B1 B2]. rewrite B1, B2.
    split; [reflexivity|].
    destruct (b mod 16 =? 0) eqn:Eb.
    + replace (0 <? b mod 16 * 16) with false by lia. unfold blen; cbn [length enum]. split; [f_equal; lia|reflexivity].
    + replace (0 <? b mod 16 * 16) with true by lia. reflexivity.
  - clear L. cbn [dec].
    destruct (idx c0) as [a|] eqn:E0; [|rewrite (dlN _ _ _ _ _ E0); cbn; auto].
    rewrite (dl0 _ _ _ _ _ _ _ E0 M).
    destruct (idx c1) as [b|] eqn:E1.
    2:{ destruct ((c1 =? 0) || (0 <? 0)); [cbn; auto|]. rewrite (dlN _ _ _ _ _ E1). cbn; auto. }
    rewrite (idx_nonzero _ _ E1). cbn [orb]. replace (0 <? 0) with false by reflexivity.
    rewrite (dl1 _ _ _ _ _ _ E1) by lia.
    destruct (idx c2) as [c|] eqn:E2; [|rewrite (dlN _ _ _ _ _ E2); cbn; auto].
    rewrite (dl2 _ _ _ _ _ _ E2) by lia. cbn [dec_loop wr oob ret writes].
    apply idx_some in E0, E1, E2. destruct E0 as [La _], E1 as [Lb _], E2 as [Lc _].
    rewrite (bits0 a La). destruct (bits1 a b La Lb) as [B1 B2]. rewrite B1, B2.
    destruct (bits2 b c Lb Lc) as [B3 B4]. rewrite B3, B4.
    split; [reflexivity|].
    destruct (c mod 4 =? 0) eqn:Ec.
    + replace (0 <? c mod 4 * 64) with false by lia. unfold blen; cbn [length enum].
      split; [f_equal; lia|reflexivity].
    + replace (0 <? c mod 4 * 64) with true by lia. reflexivity.
  - assert (L' : blen s mod 4 <> 1) by (unfold blen in *; cbn [length] in L; lia).
    cbn [dec].
    destruct (idx c0) as [a|] eqn:E0; [|rewrite (dlN _ _ _ _ _ E0); cbn; auto].
    rewrite (dl0 _ _ _ _ _ _ _ E0 M).
    destruct (idx c1) as [b|] eqn:E1.
    2:{ destruct ((c1 =? 0) || (0 <? 0)); [cbn; auto|]. rewrite (dlN _ _ _ _ _ E1). cbn; auto. }
    rewrite (idx_nonzero _ _ E1). cbn [orb]. replace (0 <? 0) with false by reflexivity.
    rewrite (dl1 _ _ _ _ _ _ E1) by lia.
    destruct (idx c2) as [c|] eqn:E2; [|rewrite (dlN _ _ _ _ _ E2); cbn; auto].
    rewrite (dl2 _ _ _ _ _ _ E2) by lia.
    destruct (idx c3) as [d|] eqn:E3; [|rewrite (dlN _ _ _ _ _ E3); cbn; auto].
    rewrite (dl3 _ _ _ _ _ _ E3) by lia.
    apply idx_some in E0, E1, E2, E3. destruct E0 as [La _], E1 as [Lb _], E2 as [Lc _], E3 as [Ld _].
    rewrite (bits0 a La). destruct (bits1 a b La Lb) as [B1 B2]. rewrite B1, B2.
    destruct (bits2 b c Lb Lc) as [B3 B4]. rewrite B3, B4. rewrite (bits3 c d Lc Ld).
    clear B1 B2 B3 B4.
    assert (M' : (io + 1 + 1 + 1 + 1) mod 4 = 0) by lia.
    specialize (IH (io + 1 + 1 + 1 + 1) (oo + 1 + 1 + 1) M' L').
    cbv zeta in IH. destruct IH as [IH1 IH2]. cbn [wr oob ret writes]. split; [exact IH1|].
    destruct (dec s) as [bs|].
    + destruct IH2 as [R W]. rewrite R, W. unfold blen; cbn [length enum]. split; [f_equal; lia|].
      reflexivity.
    + exact IH2.
Qed.

(* ---- jose_b64_dec_buf ---------------------------------------------------- *)

Lemma b64_dlen_is_dlen n : b64_dlen n = dlen n.
Proof. reflexivity. Qed.

Theorem dec_buf_refines s ol :
  let r := dec_buf s (Some ol) in
  oob r = false /\
  match dlen (blen s) with
  | None => ret r = None /\ writes r = []
  | Some need =>
      if ol <? need then ret r = None /\ writes r = []
      else match dec s with
           | Some bs => ret r = Some (blen bs) /\ writes r = enum 0 bs
           | None => ret r = None
           end
  end.
Proof.
  cbv zeta. unfold dec_buf. rewrite b64_dlen_is_dlen.
  destruct (dlen_cases (blen s)) as [[H E]|[[H E]|[[H E]|[H E]]]]; rewrite E; cbn [oob ret writes]; auto;
    destruct (ol <? _); cbn [oob ret writes]; auto;
    pose proof (dec_loop_spec s 0 0 eq_refl) as P; cbv zeta in P;
    (destruct P as [P1 P2]; [lia|]); (split; [exact P1|]);
    destruct (dec s); try exact P2; destruct P2 as [R W]; rewrite R, W; auto.
Qed.

Theorem dec_buf_bounds s ol :
  Forall (fun iw => fst iw < ol) (writes (dec_buf s (Some ol))).
Proof.
  unfold dec_buf. rewrite b64_dlen_is_dlen.
  destruct (dlen_cases (blen s)) as [[H E]|[[H E]|[[H E]|[H E]]]]; rewrite E; cbn [writes]; try constructor;
    destruct (ol <? _) eqn:C; cbn [writes]; try constructor;
    destruct (dec_loop_writes s 0 0 0) as (bs' & W & B); rewrite W;
    (eapply Forall_impl; [|apply enum_fst_bounds]); intros [i v]; cbn [fst]; lia.
Qed.

Theorem dec_buf_query s : ret (dec_buf s None) = dlen (blen s) /\ writes (dec_buf s None) = [].
Proof. split; reflexivity. Qed.

(* ---- encoder ----------------------------------------------------------------- *)

Lemma ebits a : a < 256 ->
  N.shiftr a 2 = a / 4 /\ N.shiftl (N.land a 3) 4 = (a mod 4) * 16 /\
  N.shiftl (N.land a 15) 2 = (a mod 16) * 4 /\ N.land a 63 = a mod 64.
Proof.
  intro H.
  assert (S : forallb (fun a => (N.shiftr a 2 =? a / 4) && (N.shiftl (N.land a 3) 4 =? (a mod 4) * 16)
      && (N.shiftl (N.land a 15) 2 =? (a mod 16) * 4) && (N.land a 63 =? a mod 64)) (below 256) = true)
    by (vm_compute; reflexivity).
  pose proof (sweep1 _ _ S a H) as E. cbv beta in E.
  repeat (apply andb_true_iff in E; destruct E as [E ?]).
  repeat match goal with X : (_ =? _) = true |- _ => apply N.eqb_eq in X end. auto.
Qed.

Lemma ebits2 a b : a < 256 -> b < 256 ->
  N.lor ((a mod 4) * 16) (N.shiftr b 4) = (a mod 4) * 16 + b / 16 /\
  N.lor ((a mod 16) * 4) (N.shiftr b 6) = (a mod 16) * 4 + b / 64.
Proof.
  intros Ha Hb.
  assert (S : forallb (fun a => forallb (fun b =>
     (N.lor ((a mod 4) * 16) (N.shiftr b 4) =? (a mod 4) * 16 + b / 16) &&
     (N.lor ((a mod 16) * 4) (N.shiftr b 6) =? (a mod 16) * 4 + b / 64)) (below 256)) (below 256) = true)
    by (vm_compute; reflexivity).
  pose proof (sweep2 (fun a b => (N.lor ((a mod 4) * 16) (N.shiftr b 4) =? (a mod 4) * 16 + b / 16) &&
     (N.lor ((a mod 16) * 4) (N.shiftr b 6) =? (a mod 16) * 4 + b / 64)) _ _ S a b Ha Hb) as E.
  cbv beta in E. apply andb_true_iff in E. destruct E as [E1 E2]. apply N.eqb_eq in E1, E2. auto.
Qed.

Lemma mapc_ch d : mapc d = ch d.
Proof. reflexivity. Qed.

Lemma replay_app w1 w2 buf : replay (w1 ++ w2) buf = replay w2 (replay w1 buf).
Proof. unfold replay. apply fold_left_app. Qed.

Lemma set_nth_twice i u v l : set_nth i v (set_nth i u l) = set_nth i v l.
Proof.
  revert i; induction l as [|x l IH]; intros [|i]; cbn [set_nth]; try reflexivity. rewrite IH. reflexivity.
Qed.

Lemma b64_elen_is_elen n : b64_elen n = Some (elen n).
Proof.
  unfold b64_elen, elen, b64_dec_blk, b64_enc_blk.
  assert (H : n mod 3 = 0 \/ n mod 3 = 1 \/ n mod 3 = 2) by lia.
  destruct H as [H|[H|H]]; rewrite H; reflexivity.
Qed.

Lemma el0 c e io rem oo : io mod 3 = 0 ->
  enc_loop (c :: e) io rem oo =
  wr oo (mapc (N.shiftr c 2)) (wr (oo + 1) (mapc (N.shiftl (N.land c 3) 4))
    (enc_loop e (io + 1) (N.shiftl (N.land c 3) 4) (oo + 2))).
Proof. intro M. cbn [enc_loop]. rewrite M. reflexivity. Qed.

Lemma el1 c e io rem oo : io mod 3 = 1 ->
  enc_loop (c :: e) io rem oo =
  wr (oo - 1) (mapc (N.lor rem (N.shiftr c 4))) (wr oo (mapc (N.shiftl (N.land c 15) 2))
    (enc_loop e (io + 1) (N.shiftl (N.land c 15) 2) (oo + 1))).
Proof. intro M. cbn [enc_loop]. rewrite M. reflexivity. Qed.

Lemma el2 c e io rem oo : io mod 3 = 2 ->
  enc_loop (c :: e) io rem oo =
  wr (oo - 1) (mapc (N.lor rem (N.shiftr c 6))) (wr oo (mapc (N.land c 63))
    (enc_loop e (io + 1) rem (oo + 1))).
Proof. intro M. cbn [enc_loop]. rewrite M. reflexivity. Qed.

Lemma replay_cons iv w buf : replay (iv :: w) buf = replay w (set_nth (N.to_nat (fst iv)) (snd iv) buf).
Proof. reflexivity. Qed.

(* the writes of the encoder loop, from a group boundary, have the same
   effect on any buffer as writing the specification's text left to right,
   and stay inside [oo, oo + elen) *)
Lemma enc_loop_spec ib : forall io rem oo,
  io mod 3 = 0 -> wf_bytes ib ->
  let r := enc_loop ib io rem oo in
  ret r = Some (oo + blen (enc ib)) /\ oob r = false /\
  Forall (fun iw => oo <= fst iw /\ fst iw < oo + blen (enc ib)) (writes r) /\
  forall buf, replay (writes r) buf = replay (enum oo (enc ib)) buf.
Proof.
  induction ib as [|a|a b|a b c ib IH] using list_ind3; intros io rem oo M W; cbv zeta.
  - cbn [enc_loop enc ret oob writes enum]. unfold blen; cbn [length]. rewrite N.add_0_r.
    repeat split. constructor.
  - inversion W as [|? ? Wa _]; subst. unfold wf_byte in Wa.
    rewrite (el0 _ _ _ _ _ M). cbn [enc_loop enc wr ret oob writes]. unfold blen; cbn [length].
    destruct (ebits a Wa) as (E1 & E2 & E3 & E4). rewrite E1, E2. change mapc with ch. clear E1 E2 E3 E4.
    split; [f_equal; lia|]. split; [reflexivity|]. split.
    + repeat constructor; cbn [fst]; lia.
    + intro buf. reflexivity.
  - inversion W as [|? ? Wa W']; subst. inversion W' as [|? ? Wb _]; subst. unfold wf_byte in *.
    rewrite (el0 _ _ _ _ _ M). rewrite el1 by lia.
    cbn [enc_loop enc wr ret oob writes]. unfold blen; cbn [length].
    destruct (ebits a Wa) as (E1 & E2 & E3 & E4). destruct (ebits b Wb) as (F1 & F2 & F3 & F4).
    destruct (ebits2 a b Wa Wb) as [G1 G2].
    rewrite E1, E2, F3, G1. change mapc with ch.
    clear E1 E2 E3 E4 F1 F2 F3 F4 G1 G2.
    split; [f_equal; lia|]. split; [reflexivity|]. split.
    + repeat constructor; cbn [fst]; lia.
    + intro buf. cbn [enum]. rewrite !replay_cons. cbn [fst snd].
      replace (oo + 2 - 1) with (oo + 1) by lia. rewrite set_nth_twice.
      replace (oo + 2) with (oo + 1 + 1) by lia. reflexivity.
  - inversion W as [|? ? Wa W']; subst. inversion W' as [|? ? Wb W'']; subst.
    inversion W'' as [|? ? Wc Wr]; subst. unfold wf_byte in *.
    rewrite (el0 _ _ _ _ _ M). rewrite el1 by lia. rewrite el2 by lia.
    destruct (ebits a Wa) as (E1 & E2 & E3 & E4). destruct (ebits b Wb) as (F1 & F2 & F3 & F4).
    destruct (ebits c Wc) as (H1 & H2 & H3 & H4).
    destruct (ebits2 a b Wa Wb) as [G1 G2]. destruct (ebits2 b c Wb Wc) as [G3 G4].
    rewrite E1, E2, F3, G1, G4, H4. change mapc with ch.
    clear E1 E2 E3 E4 F1 F2 F3 F4 H1 H2 H3 H4 G1 G2 G3 G4.
    assert (M' : (io + 1 + 1 + 1) mod 3 = 0) by lia.
    specialize (IH (io + 1 + 1 + 1) (b mod 16 * 4) (oo + 2 + 1 + 1) M' Wr).
    cbv zeta in IH. destruct IH as (R & O & B & Rp).
    cbn [enc wr ret oob writes]. unfold blen in *; cbn [length].
    split; [rewrite R; f_equal; lia|]. split; [exact O|]. split.
    + repeat (constructor; [cbn [fst]; lia|]).
      eapply Forall_impl; [|exact B]. intros [i v]; cbn [fst]. lia.
    + intro buf. cbn [enum]. rewrite !replay_cons. cbn [fst snd].
      replace (oo + 2 - 1) with (oo + 1) by lia. rewrite set_nth_twice.
      replace (oo + 2 + 1 - 1) with (oo + 2) by lia. rewrite set_nth_twice.
      rewrite Rp.
      replace (oo + 1 + 1) with (oo + 2) by lia.
      replace (oo + 2 + 1 + 1) with (oo + 2 + 1 + 1) by lia.
      reflexivity.
Qed.

Theorem enc_buf_refines ib ol : wf_bytes ib ->
  let r := enc_buf ib (Some ol) in
  oob r = false /\
  if ol <? elen (blen ib) then ret r = None /\ writes r = []
  else ret r = Some (blen (enc ib)) /\
       Forall (fun iw => fst iw < elen (blen ib)) (writes r) /\
       forall buf, replay (writes r) buf = replay (enum 0 (enc ib)) buf.
Proof.
  intro W. cbv zeta. unfold enc_buf. rewrite b64_elen_is_elen.
  destruct (ol <? elen (blen ib)); cbn [oob ret writes]; auto.
  pose proof (enc_loop_spec ib 0 0 0 eq_refl W) as P. cbv zeta in P.
  destruct P as (R & O & B & Rp). split; [exact O|]. rewrite R.
  split; [f_equal; lia|]. split; [|exact Rp].
  rewrite <- enc_length. eapply Forall_impl; [|exact B]. intros [i v]; cbn [fst]. lia.
Qed.

Theorem enc_buf_query ib : ret (enc_buf ib None) = Some (elen (blen ib)) /\ writes (enc_buf ib None) = [].
Proof. split; [apply b64_elen_is_elen|reflexivity]. Qed.

(* replaying the specification text on a buffer that is long enough puts it there *)
Lemma replay_enum_app pre t rest :
  replay (enum (blen pre) t) (pre ++ repeatN 0 (length t) ++ rest) = pre ++ t ++ rest.
Proof.
  revert pre; induction t as [|x t IH]; intro pre; cbn [enum repeatN length app].
  - reflexivity.
  - unfold replay in *. cbn [fold_left fst snd].
    assert (S : set_nth (N.to_nat (blen pre)) x (pre ++ 0 :: repeatN 0 (length t) ++ rest)
                = (pre ++ [x]) ++ repeatN 0 (length t) ++ rest).
    { unfold blen. rewrite Nat2N.id. clear. induction pre as [|p pre IH]; cbn [length app set_nth]; [reflexivity|].
      rewrite IH. reflexivity. }
    rewrite S. specialize (IH (pre ++ [x])).
    replace (blen (pre ++ [x])) with (blen pre + 1) in IH by (unfold blen; rewrite app_length; cbn [length]; lia).
    rewrite IH. rewrite <- app_assoc. reflexivity.
Qed.
