(* Proofs about the base64url specification (round trips, canonicity,
   rejection, lengths). *)
From JoseV Require Import Codec.B64Spec Gen.Consts.
From Coq Require Import ZifyBool ZifyN ZifyNat.
Local Open Scope N_scope.
Ltac Zify.zify_post_hook ::= Z.div_mod_to_equations.

(* ---- finite sweeps ---------------------------------------------------- *)

Definition below (n : nat) : list N := map N.of_nat (seq 0 n).

Lemma in_below n d : d < N.of_nat n -> In d (below n).
Proof.
  intro H. unfold below. apply in_map_iff. exists (N.to_nat d). split.
  - apply N2Nat.id.
  - apply in_seq. lia.
Qed.

Lemma sweep1 (f : N -> bool) n :
  forallb f (below n) = true -> forall d, d < N.of_nat n -> f d = true.
Proof. intros H d Hd. rewrite forallb_forall in H. apply H. apply in_below. exact Hd. Qed.

Lemma sweep2 (f : N -> N -> bool) n m :
  forallb (fun a => forallb (f a) (below m)) (below n) = true ->
  forall a b, a < N.of_nat n -> b < N.of_nat m -> f a b = true.
Proof.
  intros H a b Ha Hb. pose proof (sweep1 _ _ H a Ha) as H1. cbv beta in H1.
  exact (sweep1 _ _ H1 b Hb).
Qed.

(* ---- the alphabet is RFC 4648 table 2 ---------------------------------- *)

Definition rfc4648_url_alphabet : list N :=
  [ 65; 66; 67; 68; 69; 70; 71; 72; 73; 74; 75; 76; 77; 78; 79; 80; 81; 82; 83; 84; 85; 86; 87; 88; 89; 90;
    97; 98; 99; 100; 101; 102; 103; 104; 105; 106; 107; 108; 109; 110; 111; 112; 113; 114; 115; 116; 117;
    118; 119; 120; 121; 122;
    48; 49; 50; 51; 52; 53; 54; 55; 56; 57;
    45; 95 ].

Lemma alphabet_is_rfc4648 : alphabet = rfc4648_url_alphabet.
Proof. reflexivity. Qed.

Lemma alphabet_length : length alphabet = 64%nat.
Proof. reflexivity. Qed.

Lemma idx_ch d : d < 64 -> idx (ch d) = Some d.
Proof.
  intro H.
  assert (S : forallb (fun d => match idx (ch d) with Some d' => d' =? d | None => false end) (below 64) = true)
    by (vm_compute; reflexivity).
  pose proof (sweep1 _ _ S d H) as E. cbv beta in E.
  destruct (idx (ch d)) as [d'|]; [|discriminate]. apply N.eqb_eq in E. subst. reflexivity.
Qed.

Lemma find_idx_some c l i d :
  find_idx c l i = Some d -> i <= d /\ d < i + N.of_nat (length l) /\ nth (N.to_nat (d - i)) l 0 = c.
Proof.
  revert i; induction l as [|x l IH]; intros i H; simpl in H; [discriminate|].
  destruct (x =? c) eqn:E.
  - inversion H; subst. apply N.eqb_eq in E. subst. simpl length.
    replace (d - d) with 0 by lia. simpl. lia.
  - apply IH in H. destruct H as (H1 & H2 & H3). simpl length.
    split; [lia|]. split; [lia|].
    replace (N.to_nat (d - i)) with (S (N.to_nat (d - (i + 1)))) by lia. simpl. exact H3.
Qed.

Lemma find_idx_none c l i : find_idx c l i = None -> ~ In c l.
Proof.
  revert i; induction l as [|x l IH]; intros i H; simpl in *; [tauto|].
  destruct (x =? c) eqn:E; [discriminate|]. apply N.eqb_neq in E.
  intros [F|F]; [contradiction|]. exact (IH _ H F).
Qed.

Lemma find_idx_in c l i : In c l -> find_idx c l i <> None.
Proof. intros H F. exact (find_idx_none _ _ _ F H). Qed.

Lemma idx_some c d : idx c = Some d -> d < 64 /\ ch d = c.
Proof.
  unfold idx. intro H. apply find_idx_some in H. rewrite alphabet_length in H.
  destruct H as (_ & H2 & H3). split; [lia|]. unfold ch. rewrite N.sub_0_r in H3. exact H3.
Qed.

Lemma idx_none c : idx c = None <-> ~ In c alphabet.
Proof.
  split.
  - apply find_idx_none.
  - intro H. destruct (idx c) eqn:E; [|reflexivity]. apply idx_some in E. destruct E as [E1 E2].
    exfalso. apply H. rewrite <- E2. unfold ch. apply nth_In. rewrite alphabet_length. lia.
Qed.

(* ---- induction by groups ------------------------------------------------ *)

Lemma list_ind3 {A} (P : list A -> Prop) :
  P [] -> (forall a, P [a]) -> (forall a b, P [a; b]) ->
  (forall a b c r, P r -> P (a :: b :: c :: r)) -> forall l, P l.
Proof.
  intros H0 H1 H2 H3.
  fix IH 1. intros [|a [|b [|c r]]]; [exact H0|apply H1|apply H2|apply H3; apply IH].
Qed.

Lemma list_ind4 {A} (P : list A -> Prop) :
  P [] -> (forall a, P [a]) -> (forall a b, P [a; b]) -> (forall a b c, P [a; b; c]) ->
  (forall a b c d r, P r -> P (a :: b :: c :: d :: r)) -> forall l, P l.
Proof.
  intros H0 H1 H2 H3 H4.
  fix IH 1. intros [|a [|b [|c [|d r]]]]; [exact H0|apply H1|apply H2|apply H3|apply H4; apply IH].
Qed.

(* ---- round trips ---------------------------------------------------------- *)

Theorem dec_enc bs : wf_bytes bs -> dec (enc bs) = Some bs.
Proof.
  induction bs as [|a|a b|a b c r IH] using list_ind3; intro W.
  - reflexivity.
  - inversion W as [|? ? Wa _]; subst. unfold wf_byte in Wa. cbn [enc dec].
    rewrite !idx_ch by lia.
    replace ((a mod 4 * 16) mod 16 =? 0) with true by lia.
    f_equal. f_equal. lia.
  - inversion W as [|? ? Wa W']; subst. inversion W' as [|? ? Wb _]; subst.
    unfold wf_byte in *. cbn [enc dec].
    rewrite !idx_ch by lia.
    replace ((b mod 16 * 4) mod 4 =? 0) with true by lia.
    f_equal. f_equal; [lia|]. f_equal. lia.
  - inversion W as [|? ? Wa W']; subst. inversion W' as [|? ? Wb W'']; subst.
    inversion W'' as [|? ? Wc Wr]; subst. unfold wf_byte in *.
    cbn [enc dec]. rewrite !idx_ch by lia. rewrite (IH Wr).
    f_equal. f_equal; [lia|]. f_equal; [lia|]. f_equal. lia.
Qed.

Theorem enc_dec s bs : dec s = Some bs -> enc bs = s /\ wf_bytes bs.
Proof.
  revert bs; induction s as [|c0|c0 c1|c0 c1 c2|c0 c1 c2 c3 r IH] using list_ind4; intros bs H;
    cbn [dec] in H.
  - inversion H; subst. split; [reflexivity|constructor].
  - discriminate.
  - destruct (idx c0) as [a|] eqn:E0; [|discriminate].
    destruct (idx c1) as [b|] eqn:E1; [|discriminate].
    destruct (b mod 16 =? 0) eqn:Eb; [|discriminate].
    inversion H; subst. apply idx_some in E0, E1. destruct E0 as [L0 C0], E1 as [L1 C1].
    split.
    + cbn [enc]. subst c0 c1. f_equal; [f_equal; lia|]. f_equal. f_equal. lia.
    + repeat constructor. unfold wf_byte. lia.
  - destruct (idx c0) as [a|] eqn:E0; [|discriminate].
    destruct (idx c1) as [b|] eqn:E1; [|discriminate].
    destruct (idx c2) as [c|] eqn:E2; [|destruct (idx c1); discriminate].
    destruct (c mod 4 =? 0) eqn:Ec; [|discriminate].
    inversion H; subst. apply idx_some in E0, E1, E2.
    destruct E0 as [L0 C0], E1 as [L1 C1], E2 as [L2 C2].
    split.
    + cbn [enc]. subst c0 c1 c2. f_equal; [f_equal; lia|]. f_equal; [f_equal; lia|].
      f_equal. f_equal. lia.
    + repeat constructor; unfold wf_byte; lia.
  - destruct (idx c0) as [a|] eqn:E0; [|discriminate].
    destruct (idx c1) as [b|] eqn:E1; [|discriminate].
    destruct (idx c2) as [c|] eqn:E2; [|discriminate].
    destruct (idx c3) as [d|] eqn:E3; [|discriminate].
    destruct (dec r) as [r'|] eqn:Er; [|discriminate].
    inversion H; subst. apply idx_some in E0, E1, E2, E3.
    destruct E0 as [L0 C0], E1 as [L1 C1], E2 as [L2 C2], E3 as [L3 C3].
    destruct (IH r' eq_refl) as [IH1 IH2].
    split.
    + cbn [enc]. subst c0 c1 c2 c3. rewrite IH1.
      f_equal; [f_equal; lia|]. f_equal; [f_equal; lia|]. f_equal; [f_equal; lia|].
      f_equal. f_equal. lia.
    + repeat constructor; try exact IH2; unfold wf_byte; lia.
Qed.

Corollary enc_injective a b : wf_bytes a -> wf_bytes b -> enc a = enc b -> a = b.
Proof.
  intros Wa Wb E. pose proof (dec_enc a Wa) as Ha. rewrite E in Ha.
  rewrite (dec_enc b Wb) in Ha. inversion Ha. reflexivity.
Qed.

(* ---- lengths ---------------------------------------------------------------- *)

Lemma enc_length bs : blen (enc bs) = elen (blen bs).
Proof.
  unfold blen. induction bs as [|a|a b|a b c r IH] using list_ind3; try reflexivity.
  cbn [enc length]. unfold elen in *.
  replace (N.of_nat (S (S (S (length r))))) with (N.of_nat (length r) + 3) by lia.
  replace (N.of_nat (S (S (S (S (length (enc r))))))) with (N.of_nat (length (enc r)) + 4) by lia.
  rewrite IH.
  replace ((N.of_nat (length r) + 3) mod 3) with (N.of_nat (length r) mod 3) by lia.
  replace ((N.of_nat (length r) + 3) / 3) with (N.of_nat (length r) / 3 + 1) by lia.
  destruct (N.of_nat (length r) mod 3) as [|[[?|?|]|[?|?|]|]] eqn:?; lia.
Qed.

Lemma dec_length s bs : dec s = Some bs -> dlen (blen s) = Some (blen bs).
Proof.
  unfold blen.
  revert bs; induction s as [|c0|c0 c1|c0 c1 c2|c0 c1 c2 c3 r IH] using list_ind4; intros bs H;
    cbn [dec] in H.
  - inversion H; reflexivity.
  - discriminate.
  - destruct (idx c0), (idx c1); try discriminate. destruct (_ =? 0); [|discriminate].
    inversion H; reflexivity.
  - destruct (idx c0), (idx c1), (idx c2); try discriminate. destruct (_ =? 0); [|discriminate].
    inversion H; reflexivity.
  - destruct (idx c0), (idx c1), (idx c2), (idx c3); try discriminate.
    destruct (dec r) as [r'|] eqn:Er; [|discriminate]. inversion H; subst.
    specialize (IH r' eq_refl). cbn [length].
    replace (N.of_nat (S (S (S (S (length r)))))) with (N.of_nat (length r) + 4) by lia.
    replace (N.of_nat (S (S (S (length r'))))) with (N.of_nat (length r') + 3) by lia.
    unfold dlen in *.
    replace ((N.of_nat (length r) + 4) mod 4) with (N.of_nat (length r) mod 4) by lia.
    replace ((N.of_nat (length r) + 4) / 4) with (N.of_nat (length r) / 4 + 1) by lia.
    destruct (N.of_nat (length r) mod 4) as [|[[?|?|]|[?|?|]|]] eqn:?; inversion IH; f_equal; lia.
Qed.

Lemma elen_cases n :
  (n mod 3 = 0 /\ elen n = n / 3 * 4) \/ (n mod 3 = 1 /\ elen n = n / 3 * 4 + 2) \/
  (n mod 3 = 2 /\ elen n = n / 3 * 4 + 3).
Proof.
  unfold elen. assert (H : n mod 3 = 0 \/ n mod 3 = 1 \/ n mod 3 = 2) by lia.
  destruct H as [H|[H|H]]; rewrite H; auto.
Qed.

Lemma dlen_cases n :
  (n mod 4 = 0 /\ dlen n = Some (n / 4 * 3)) \/ (n mod 4 = 1 /\ dlen n = None) \/
  (n mod 4 = 2 /\ dlen n = Some (n / 4 * 3 + 1)) \/ (n mod 4 = 3 /\ dlen n = Some (n / 4 * 3 + 2)).
Proof.
  unfold dlen. assert (H : n mod 4 = 0 \/ n mod 4 = 1 \/ n mod 4 = 2 \/ n mod 4 = 3) by lia.
  destruct H as [H|[H|[H|H]]]; rewrite H; auto.
Qed.

Lemma dlen_elen n : dlen (elen n) = Some n.
Proof.
  destruct (elen_cases n) as [[H E]|[[H E]|[H E]]]; rewrite E.
  - destruct (dlen_cases (n / 3 * 4)) as [[H1 E1]|[[H1 E1]|[[H1 E1]|[H1 E1]]]]; try lia.
    rewrite E1; f_equal; lia.
  - destruct (dlen_cases (n / 3 * 4 + 2)) as [[H1 E1]|[[H1 E1]|[[H1 E1]|[H1 E1]]]]; try lia.
    rewrite E1; f_equal; lia.
  - destruct (dlen_cases (n / 3 * 4 + 3)) as [[H1 E1]|[[H1 E1]|[[H1 E1]|[H1 E1]]]]; try lia.
    rewrite E1; f_equal; lia.
Qed.

(* ---- rejection --------------------------------------------------------------- *)

Lemma dec_len1 s : blen s mod 4 = 1 -> dec s = None.
Proof.
  unfold blen.
  induction s as [|c0|c0 c1|c0 c1 c2|c0 c1 c2 c3 r IH] using list_ind4; cbn [length]; intro H.
  - discriminate.
  - reflexivity.
  - discriminate.
  - discriminate.
  - cbn [dec]. rewrite IH by lia. destruct (idx c0), (idx c1), (idx c2), (idx c3); reflexivity.
Qed.

Lemma ch_in d : d < 64 -> In (ch d) alphabet.
Proof. intro H. unfold ch. apply nth_In. rewrite alphabet_length. lia. Qed.

Lemma enc_chars bs : wf_bytes bs -> forall c, In c (enc bs) -> In c alphabet.
Proof.
  induction bs as [|a|a b|a b c' r IH] using list_ind3; intros W c Hin; cbn [enc] in Hin.
  - destruct Hin.
  - inversion W as [|? ? Wa _]; subst. unfold wf_byte in Wa.
    simpl in Hin. destruct Hin as [H|[H|[]]]; subst c; apply ch_in; lia.
  - inversion W as [|? ? Wa W']; subst. inversion W' as [|? ? Wb _]; subst. unfold wf_byte in *.
    simpl in Hin. destruct Hin as [H|[H|[H|[]]]]; subst c; apply ch_in; lia.
  - inversion W as [|? ? Wa W']; subst. inversion W' as [|? ? Wb W'']; subst.
    inversion W'' as [|? ? Wc Wr]; subst. unfold wf_byte in *.
    simpl in Hin. destruct Hin as [H|[H|[H|[H|H]]]]; try (subst c; apply ch_in; lia).
    exact (IH Wr c H).
Qed.

Lemma dec_bad_char s c : In c s -> ~ In c alphabet -> dec s = None.
Proof.
  intros Hin Hna.
  destruct (dec s) as [bs|] eqn:E; [|reflexivity]. exfalso.
  apply enc_dec in E. destruct E as [E W]. subst s.
  exact (Hna (enc_chars bs W c Hin)).
Qed.

(* the characters the property names are outside the alphabet *)
Lemma named_outside :
  forallb (fun c => match idx c with None => true | Some _ => false end)
    [61; 43; 47; 32; 9; 10; 13; 0] = true.
Proof. vm_compute. reflexivity. Qed.

(* non-zero unused bits in the final character *)
Lemma dec_trailing2 c0 c1 b : idx c1 = Some b -> b mod 16 <> 0 -> dec [c0; c1] = None.
Proof.
  intros H1 H2. cbn [dec]. rewrite H1. destruct (idx c0); [|reflexivity].
  replace (b mod 16 =? 0) with false by lia. reflexivity.
Qed.

Lemma dec_trailing3 c0 c1 c2 c : idx c2 = Some c -> c mod 4 <> 0 -> dec [c0; c1; c2] = None.
Proof.
  intros H1 H2. cbn [dec]. rewrite H1. destruct (idx c0); [|reflexivity]. destruct (idx c1); [|reflexivity].
  replace (c mod 4 =? 0) with false by lia. reflexivity.
Qed.

Lemma dec_app4 c0 c1 c2 c3 r :
  dec (c0 :: c1 :: c2 :: c3 :: r) =
  match dec [c0; c1; c2; c3], dec r with
  | Some a, Some b => Some (a ++ b)
  | _, _ => None
  end.
Proof.
  cbn [dec]. destruct (idx c0), (idx c1), (idx c2), (idx c3); try reflexivity;
  destruct (dec r); reflexivity.
Qed.
