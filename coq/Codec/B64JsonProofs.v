(* The JSON-string, raw-buffer and JSON-load/dump forms agree with the specification. *)
From JoseV Require Import Codec.B64Spec Codec.B64Impl Codec.B64Proofs Codec.B64ImplProofs Codec.B64Json.
From Coq Require Import ZifyBool ZifyN ZifyNat.
Local Open Scope N_scope.

Lemma replay_enum_zeros t : replay (enum 0 t) (zeros (blen t)) = t.
Proof.
  pose proof (replay_enum_app [] t []) as H. cbn [app] in H. rewrite !app_nil_r in H.
  unfold zeros, blen in *. rewrite Nat2N.id. exact H.
Qed.

Theorem b64_enc_spec ib : wf_bytes ib -> jose_b64_enc ib = Some (JStr (enc ib)).
Proof.
  intro W. unfold jose_b64_enc. rewrite b64_elen_is_elen.
  pose proof (enc_buf_refines ib (elen (blen ib)) W) as P. cbv zeta in P.
  destruct P as [_ P]. rewrite N.ltb_irrefl in P. destruct P as (R & _ & Rp).
  rewrite R. rewrite enc_length. rewrite N.eqb_refl. rewrite Rp.
  rewrite <- enc_length. rewrite replay_enum_zeros. reflexivity.
Qed.

Lemma dlen_none_dec s : dlen (blen s) = None -> dec s = None.
Proof.
  intro H. destruct (dec s) as [bs|] eqn:E; [|reflexivity].
  apply dec_length in E. congruence.
Qed.

Theorem b64_dec_load_spec s :
  jose_b64_dec_load (JStr s) = match dec s with Some bs => parse_any bs | None => None end.
Proof.
  unfold jose_b64_dec_load. cbn [jose_b64_dec str_sl ret]. rewrite b64_dlen_is_dlen.
  destruct (dlen (blen s)) as [size|] eqn:D.
  - pose proof (dec_buf_refines s size) as P. cbv zeta in P. destruct P as [_ P].
    rewrite D in P. rewrite N.ltb_irrefl in P.
    destruct (dec s) as [bs|] eqn:E.
    + destruct P as [R W]. rewrite R, W. apply dec_length in E. rewrite D in E. inversion E; subst.
      rewrite N.eqb_refl. rewrite replay_enum_zeros. reflexivity.
    + rewrite P. reflexivity.
  - rewrite (dlen_none_dec s D). reflexivity.
Qed.

Theorem b64_dec_load_nonstring j : is_string j = false -> jose_b64_dec_load j = None.
Proof. destruct j; intro H; try discriminate; reflexivity. Qed.

Theorem b64_dec_json_spec s ol :
  jose_b64_dec (JStr s) (Some ol) = dec_buf s (Some ol) /\
  ret (jose_b64_dec (JStr s) None) = dlen (blen s).
Proof. split; reflexivity. Qed.

Theorem b64_enc_dump_spec j :
  jose_b64_enc_dump j = match dump_top j with Some t => jose_b64_enc (cstr t) | None => None end.
Proof. reflexivity. Qed.
