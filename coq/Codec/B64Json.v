(* The JSON-facing wrappers of lib/b64.c: jose_b64_dec, jose_b64_dec_load,
   jose_b64_enc, jose_b64_enc_dump. *)
From JoseV Require Export Codec.B64Impl Base.Json Base.JsonDump Base.JsonParse.
Local Open Scope N_scope.

(* json_unpack(i, "s%", &b64, &len) < 0 -> SIZE_MAX *)
Definition jose_b64_dec (i : json) (ol : option N) : bufres :=
  match str_sl i with
  | None => fail_res
  | Some s =>
      match ol with
      | None => {| ret := b64_dlen (blen s); writes := []; oob := false |}
      | Some _ => dec_buf s ol
      end
  end.

Definition zeros (n : N) : bytes := repeatN 0 (N.to_nat n).

Definition jose_b64_dec_load (i : json) : option json :=
  match ret (jose_b64_dec i None) with
  | None => None
  | Some size =>
      let r := jose_b64_dec i (Some size) in
      match ret r with
      | Some n => if n =? size then parse_any (replay (writes r) (zeros size)) else None
      | None => None
      end
  end.

Definition jose_b64_enc (ib : bytes) : option json :=
  match b64_elen (blen ib) with
  | None => None
  | Some el =>
      let r := enc_buf ib (Some el) in
      match ret r with
      | Some n => if n =? el then Some (JStr (replay (writes r) (zeros el))) else None
      | None => None
      end
  end.

Definition jose_b64_enc_dump (i : json) : option json :=
  match dump_top i with
  | None => None
  | Some t => jose_b64_enc (cstr t)
  end.
