(* C18 -- proofs about the command-line glue (Cli/Compact.v, Cli/Cmds.v). *)
From JoseV Require Import Cli.Compact Cli.Cmds Codec.B64Proofs Io.B64Stream Io.ChainProofs Jose.JwsProofs Jose.JweProofs.
From JoseV Require Import Jose.EncAlgs Gen.Tables Gen.Consts.
From Coq Require Import Lia ZifyBool ZifyN ZifyNat.
Local Open Scope N_scope.

(* ================================================================================================ *)
(* Part 1: the compact form                                                                          *)
(* ================================================================================================ *)

(* text over the base64url alphabet *)
Definition cli_b64text (s : bytes) : Prop := Forall (fun c => In c alphabet) s.
Definition cli_nodot (s : bytes) : Prop := ~ In cli_dot s.

Lemma alphabet_no_dot_nul : forallb (fun c => negb (c =? cli_dot) && negb (c =? 0)) alphabet = true.
Proof. vm_compute. reflexivity. Qed.

Lemma alphabet_char c : In c alphabet -> c <> cli_dot /\ c <> 0.
Proof.
  intro H. pose proof alphabet_no_dot_nul as A. rewrite forallb_forall in A. specialize (A c H).
  apply andb_true_iff in A. destruct A as [A1 A2].
  apply negb_true_iff in A1. apply negb_true_iff in A2. apply N.eqb_neq in A1. apply N.eqb_neq in A2. tauto.
Qed.

Lemma b64text_nodot s : cli_b64text s -> cli_nodot s.
Proof.
  intros H Hin. unfold cli_b64text in H. rewrite Forall_forall in H. specialize (H _ Hin).
  apply alphabet_char in H. tauto.
Qed.

Lemma b64text_cstr s : cli_b64text s -> cstr s = s.
Proof.
  induction 1 as [|c s Hc _ IH]; cbn [cstr]; [reflexivity|].
  apply alphabet_char in Hc. destruct Hc as [_ Hz]. apply N.eqb_neq in Hz. rewrite Hz, IH. reflexivity.
Qed.

Lemma valid_b64_spec s : cli_valid_b64 s = true <-> cli_b64text s.
Proof.
  unfold cli_valid_b64, cli_b64text. rewrite forallb_forall, Forall_forall.
  split; intros H c Hc; specialize (H c Hc).
  - apply existsb_exists in H. destruct H as (x & Hx & E). apply N.eqb_eq in E. subst. exact Hx.
  - apply existsb_exists. exists c. split; [exact H|apply N.eqb_refl].
Qed.

Lemma cut_dot_nodot f : cli_nodot f -> cli_cut_dot f = (f, None).
Proof.
  induction f as [|c f IH]; intro H; cbn [cli_cut_dot]; [reflexivity|].
  destruct (c =? cli_dot) eqn:E.
  - apply N.eqb_eq in E. exfalso. apply H. left. exact E.
  - rewrite IH; [reflexivity|]. intro Hin. apply H. right. exact Hin.
Qed.

Lemma cut_dot_app f r : cli_nodot f -> cli_cut_dot (f ++ cli_dot :: r) = (f, Some r).
Proof.
  induction f as [|c f IH]; intro H; cbn [cli_cut_dot app].
  - rewrite N.eqb_refl. reflexivity.
  - destruct (c =? cli_dot) eqn:E.
    + apply N.eqb_eq in E. exfalso. apply H. left. exact E.
    + rewrite IH; [reflexivity|]. intro Hin. apply H. right. exact Hin.
Qed.

(* parse_compact on n dot-separated fields without dots: accepted exactly when every field is over
   the alphabet, and then the members are the fields, in order *)
Theorem parse_fields_join : forall names fs acc,
  length names = length fs -> names <> [] -> Forall cli_nodot fs ->
  cli_parse_fields names (join [cli_dot] fs) acc =
  if forallb cli_valid_b64 fs
  then Some (fold_left (fun a nf => aset (fst nf) (JStr (snd nf)) a) (combine names fs) acc)
  else None.
Proof.
  induction names as [|n rest IH]; intros fs acc L NE ND; [congruence|].
  destruct fs as [|f fr]; [discriminate|]. inversion ND as [|? ? Hf Hfr]; subst.
  destruct rest as [|n2 rest'].
  - destruct fr; [|discriminate]. cbn [join cli_parse_fields].
    rewrite (cut_dot_nodot f Hf). cbn [forallb combine fold_left fst snd]. rewrite andb_true_r.
    destruct (cli_valid_b64 f); reflexivity.
  - destruct fr as [|f2 fr']; [discriminate|].
    change (join [cli_dot] (f :: f2 :: fr')) with (f ++ [cli_dot] ++ join [cli_dot] (f2 :: fr')).
    cbn [app]. cbn [cli_parse_fields]. rewrite (cut_dot_app f _ Hf).
    cbn [forallb combine fold_left fst snd].
    destruct (cli_valid_b64 f); cbn [andb]; [|reflexivity].
    apply IH; [cbn [length] in *; lia|discriminate|exact Hfr].
Qed.

Theorem fmt_roundtrip_jws p pl sg :
  cli_b64text p -> cli_b64text pl -> cli_b64text sg ->
  let c := p ++ [cli_dot] ++ pl ++ [cli_dot] ++ sg in
  exists j, cli_parse_compact cli_jws_fields c = Some j /\ cli_jws_fmt_compact j = Some c.
Proof.
  intros Hp Hpl Hsg c.
  pose proof (parse_fields_join (map cf_name cli_jws_fields) [p; pl; sg] [] eq_refl ltac:(discriminate)) as P.
  assert (ND : Forall cli_nodot [p; pl; sg]) by (repeat constructor; apply b64text_nodot; assumption).
  specialize (P ND). cbn [join] in P. cbn [forallb] in P.
  rewrite (proj2 (valid_b64_spec p) Hp), (proj2 (valid_b64_spec pl) Hpl), (proj2 (valid_b64_spec sg) Hsg) in P.
  cbn [andb] in P. unfold cli_parse_compact. unfold c. rewrite P.
  eexists. split; [reflexivity|].
  vm_compute fold_left. unfold cli_jws_fmt_compact, cli_member_opt.
  change (alookup cli_s_payload _) with (Some (JStr pl)) at 1. cbv iota beta.
  unfold cli_jws_compact, cli_compact_field, cli_compact_last, cli_fld. cbn.
  rewrite (b64text_cstr p Hp), (b64text_cstr sg Hsg). reflexivity.
Qed.

Theorem fmt_roundtrip_jwe p k iv ct t :
  cli_b64text p -> cli_b64text k -> cli_b64text iv -> cli_b64text ct -> cli_b64text t ->
  let c := p ++ [cli_dot] ++ k ++ [cli_dot] ++ iv ++ [cli_dot] ++ ct ++ [cli_dot] ++ t in
  exists j, cli_parse_compact cli_jwe_fields c = Some j /\ cli_jwe_fmt_compact j = Some c.
Proof.
  intros Hp Hk Hiv Hct Ht c.
  pose proof (parse_fields_join (map cf_name cli_jwe_fields) [p; k; iv; ct; t] [] eq_refl ltac:(discriminate)) as P.
  assert (ND : Forall cli_nodot [p; k; iv; ct; t]) by (repeat constructor; apply b64text_nodot; assumption).
  specialize (P ND). cbn [join] in P. cbn [forallb] in P.
  rewrite (proj2 (valid_b64_spec p) Hp), (proj2 (valid_b64_spec k) Hk), (proj2 (valid_b64_spec iv) Hiv),
          (proj2 (valid_b64_spec ct) Hct), (proj2 (valid_b64_spec t) Ht) in P.
  cbn [andb] in P. unfold cli_parse_compact. unfold c. rewrite P.
  eexists. split; [reflexivity|].
  vm_compute fold_left. unfold cli_jwe_fmt_compact, cli_member_req. cbn [lookup].
  change (alookup cli_s_ciphertext _) with (Some (JStr ct)) at 1. cbv iota beta.
  unfold cli_jwe_compact, cli_compact_field, cli_compact_last, cli_fld. cbn.
  rewrite (b64text_cstr p Hp), (b64text_cstr k Hk), (b64text_cstr iv Hiv), (b64text_cstr t Ht). reflexivity.
Qed.

(* a field with a character outside the alphabet: the argument is not taken as a compact form *)
Theorem parse_compact_rejects fields fs :
  length fields = length fs -> fields <> [] -> Forall cli_nodot fs ->
  (exists f c, In f fs /\ In c f /\ ~ In c alphabet) ->
  cli_parse_compact fields (join [cli_dot] fs) = None.
Proof.
  intros L NE ND (f & c & Hf & Hc & Hn). unfold cli_parse_compact.
  rewrite parse_fields_join; [|rewrite map_length; exact L|destruct fields; [congruence|discriminate]|exact ND].
  replace (forallb cli_valid_b64 fs) with false; [reflexivity|].
  symmetry. apply Bool.not_true_is_false. intro A. rewrite forallb_forall in A. specialize (A f Hf).
  apply valid_b64_spec in A. unfold cli_b64text in A. rewrite Forall_forall in A. apply Hn. apply A. exact Hc.
Qed.

(* too few fields *)
Theorem parse_compact_short fields fs :
  (0 < length fs < length fields)%nat -> Forall cli_nodot fs ->
  cli_parse_compact fields (join [cli_dot] fs) = None.
Proof.
  unfold cli_parse_compact. generalize (@nil (bytes * json)) as acc. generalize (map_length cf_name fields).
  generalize (map cf_name fields) as names. intros names E. rewrite <- E. clear E fields.
  revert fs. induction names as [|n rest IH]; intros fs acc [L1 L2] ND; [cbn in L2; lia|].
  destruct fs as [|f fr]; [cbn in L1; lia|]. inversion ND; subst.
  destruct fr as [|f2 fr'].
  - cbn [join cli_parse_fields]. rewrite cut_dot_nodot by assumption.
    destruct rest; [cbn in L2; lia|reflexivity].
  - change (join [cli_dot] (f :: f2 :: fr')) with (f ++ [cli_dot] ++ join [cli_dot] (f2 :: fr')).
    cbn [app cli_parse_fields]. rewrite cut_dot_app by assumption.
    destruct (cli_valid_b64 f); [|reflexivity].
    apply IH; [cbn [length] in *; lia|assumption].
Qed.

(* ---- asking for the compact form of an object with several signatures / recipients -------------- *)

Theorem compact_multi_fails_jws m s1 s2 r pay :
  alookup s_signatures m = Some (JArr (s1 :: s2 :: r)) ->
  alookup s_signature m = None ->
  cli_jws_compact (JObj m) pay = None.
Proof.
  intros H1 H2. unfold cli_jws_compact.
  destruct (cli_compact_field _ (JObj m)); [|reflexivity].
  unfold cli_compact_last. cbn [lookup]. rewrite H2, H1. destruct s1; reflexivity.
Qed.

(* ... and so does it for a JWE with several recipients (the count is tested before any field is read) *)
Theorem compact_multi_fails_jwe j r1 r2 r ct :
  lookup s_recipients j = Some (JArr (r1 :: r2 :: r)) -> cli_jwe_compact j ct = None.
Proof. intro H. unfold cli_jwe_compact. rewrite H. reflexivity. Qed.

Theorem compact_multi_fails_jwe_fmt j r1 r2 r :
  lookup s_recipients j = Some (JArr (r1 :: r2 :: r)) -> cli_jwe_fmt_compact j = None.
Proof.
  intro H. unfold cli_jwe_fmt_compact. destruct (cli_member_req cli_s_ciphertext j); [|reflexivity].
  apply (compact_multi_fails_jwe j r1 r2 r _ H).
Qed.

(* ---- flattened <-> general ------------------------------------------------------------------------ *)

Lemma alookup_app {A} k (a b : list (bytes * A)) :
  alookup k (a ++ b) = match alookup k a with Some v => Some v | None => alookup k b end.
Proof.
  induction a as [|[k' v] a IH]; cbn [app alookup]; [reflexivity|].
  destruct (bytes_eqb k k'); [reflexivity|exact IH].
Qed.

Lemma alookup_filter_key {A} (p : bytes -> bool) k (m : list (bytes * A)) :
  alookup k (filter (fun kv => p (fst kv)) m) = if p k then alookup k m else None.
Proof.
  induction m as [|[k' v] m IH]; cbn [filter alookup fst]; [destruct (p k); reflexivity|].
  destruct (p k') eqn:P; cbn [alookup].
  - destruct (bytes_eqb k k') eqn:E.
    + apply bytes_eqb_eq in E. subst. rewrite P. reflexivity.
    + exact IH.
  - destruct (bytes_eqb k k') eqn:E.
    + apply bytes_eqb_eq in E. subst. rewrite P in IH |- *. exact IH.
    + exact IH.
Qed.

Lemma adel_app_last {A} k (v : A) rest : alookup k rest = None -> alookup k (adel k (rest ++ [(k, v)])) = None.
Proof.
  induction rest as [|[k' v'] rest' IH]; cbn [app adel alookup]; intro R.
  - rewrite bytes_eqb_refl. reflexivity.
  - destruct (bytes_eqb k k') eqn:E; [discriminate|]. cbn [alookup]. rewrite E. apply IH. exact R.
Qed.

Lemma is_key_fst ks (kv : bytes * json) : cli_is_key ks kv = existsb (bytes_eqb (fst kv)) ks.
Proof. reflexivity. Qed.

(* a flattened object, written in the general form and flattened again, has the same members *)
Theorem flat_general_flat plural ks m :
  alookup plural m = None -> existsb (bytes_eqb plural) ks = false ->
  exists g f, cli_to_general plural ks (JObj m) = Some g /\ cli_to_flat plural g = Some f /\
              forall k, lookup k f = lookup k (JObj m).
Proof.
  intros Hp Hk. unfold cli_to_general. rewrite Hp. eexists. eexists. split; [reflexivity|].
  set (rest := filter (fun kv => negb (cli_is_key ks kv)) m).
  set (ent := filter (cli_is_key ks) m).
  assert (Lr : forall k, alookup k rest = if negb (existsb (bytes_eqb k) ks) then alookup k m else None).
  { intro k. unfold rest. apply (alookup_filter_key (fun k => negb (existsb (bytes_eqb k) ks))). }
  assert (Le : forall k, alookup k ent = if existsb (bytes_eqb k) ks then alookup k m else None).
  { intro k. unfold ent. apply (alookup_filter_key (fun k => existsb (bytes_eqb k) ks)). }
  assert (Lp : alookup plural (rest ++ [(plural, JArr [JObj ent])]) = Some (JArr [JObj ent])).
  { rewrite alookup_app, Lr, Hk. cbn [negb]. rewrite Hp. cbn [alookup]. rewrite bytes_eqb_refl. reflexivity. }
  unfold cli_to_flat. rewrite Lp. split; [reflexivity|].
  intro k. cbn [lookup]. rewrite alookup_app.
  destruct (bytes_eq_dec plural k) as [E|NE].
  - subst k.
    assert (D : alookup plural (adel plural (rest ++ [(plural, JArr [JObj ent])])) = None).
    { apply adel_app_last. rewrite Lr, Hk. exact Hp. }
    unfold rest, ent in *. rewrite D, Le, Hk. symmetry. exact Hp.
  - unfold rest, ent in *. rewrite alookup_adel_other by exact NE. rewrite alookup_app, Lr.
    destruct (existsb (bytes_eqb k) ks) eqn:K; cbn [negb].
    + cbn [alookup]. replace (bytes_eqb k plural) with false
        by (symmetry; apply Bool.not_true_is_false; intro E; apply bytes_eqb_eq in E; congruence).
      rewrite Le, K. reflexivity.
    + destruct (alookup k m) eqn:M; [reflexivity|].
      cbn [alookup]. replace (bytes_eqb k plural) with false
        by (symmetry; apply Bool.not_true_is_false; intro E; apply bytes_eqb_eq in E; congruence).
      rewrite Le, K. reflexivity.
Qed.

(* the compact writer gives the same text for a general object with one signature and for its
   flattened form (members of the entry are not repeated at the top level) *)
Theorem compact_general_is_flat m e pay :
  NoDup (akeys m) ->
  alookup s_signatures m = Some (JArr [JObj e]) ->
  alookup s_protected m = None -> alookup s_signature m = None ->
  alookup s_signatures e = None ->
  (match alookup s_protected e with Some (JStr _) | None => True | _ => False end) ->
  exists f, cli_to_flat s_signatures (JObj m) = Some f /\
            cli_jws_compact f pay = cli_jws_compact (JObj m) pay.
Proof.
  intros ND Hs Hp Hg He Hty. unfold cli_to_flat. rewrite Hs. eexists. split; [reflexivity|].
  assert (A1 : forall k, k <> s_signatures -> alookup k (adel s_signatures m ++ e) =
                         match alookup k m with Some v => Some v | None => alookup k e end).
  { intros k Hk. rewrite alookup_app, alookup_adel_other by congruence. reflexivity. }
  assert (A2 : alookup s_signatures (adel s_signatures m ++ e) = None).
  { rewrite alookup_app, alookup_adel_same by exact ND. exact He. }
  unfold cli_jws_compact, cli_compact_field, cli_compact_last, cli_fld, cli_unpack_mult_opt, cli_unpack_opt.
  cbn [nth cli_jws_fields cf_name cf_mult lookup].
  rewrite A2, Hs. rewrite !A1 by discriminate. rewrite Hp, Hg.
  destruct (alookup s_protected e) as [[]|]; try contradiction; cbn; reflexivity.
Qed.

(* ================================================================================================ *)
(* Part 2: jose jws ver                                                                              *)
(* ================================================================================================ *)

Lemma concat_bytewise d : concat (cli_bytewise d) = d.
Proof. induction d as [|b d IH]; cbn; [reflexivity|]. f_equal. exact IH. Qed.

Lemma bytewise_wf d : wf_bytes d -> Forall wf_bytes (cli_bytewise d).
Proof.
  induction 1 as [|b d Hb _ IH]; cbn [cli_bytewise map]; constructor; [|exact IH].
  constructor; [exact Hb|constructor].
Qed.

(* an encoder in front of a lawful chain: the chain sees the encoding of everything fed *)
Lemma b64enc_front c d : lawful c -> wf_bytes d ->
  snd (runc (B64Enc c) (cli_bytewise d)) = snd (runc c [enc d]).
Proof.
  intros L W. unfold B64Enc.
  pose proof (runc_stage b64enc_T [] c (cli_bytewise d)) as R.
  rewrite b64enc_stream in R by (apply bytewise_wf; exact W). rewrite concat_bytewise in R.
  destruct R as (Lst & C & V & _). rewrite V.
  rewrite (proj1 (oneshot_same c Lst L)). rewrite C. reflexivity.
Qed.

Lemma sink_file_true d L : snd (runc (Sink (SFile d)) L) = true.
Proof. cbn [runc]. rewrite sink_feeds_file. rewrite Nat.eqb_refl. reflexivity. Qed.

Lemma status_ok b : cli_status b = 0 <-> b = true.
Proof. unfold cli_status, cli_ok, cli_fail. destruct b; split; intro H; try reflexivity; discriminate. Qed.

Lemma runc_triple c xs : runc c xs = (fst (fst (runc c xs)), snd (fst (runc c xs)), snd (runc c xs)).
Proof. destruct (runc c xs) as [[a b] v]. reflexivity. Qed.

Section VerProofs.
  Variable algs : list sign_alg.

  (* what the library's verification says about a payload text (Jose/JwsProofs.v: it IS the verdict
     of jose_jws_ver_io fed with that text, and of jose_jws_ver when the text is the payload member) *)
  Definition cli_lib_ver (o : cli_ver_opts) (text : bytes) : bool :=
    ver_valid algs (cv_jws o) None (JArr (cv_keys o)) (cv_all o) text.

  Definition cli_src_wf (s : cli_src) : Prop :=
    match s with Src_detached d => wf_bytes d | _ => True end.

  (* the verdict of the verifier branch inside the multiplexer *)
  Lemma ver_branch o v chunks text :
    ver_io algs (cv_jws o) None (JArr (cv_keys o)) (cv_all o) = Some v ->
    cli_src_wf (cv_src o) ->
    cli_jws_chunks (cv_jws o) (cv_src o) = Some chunks ->
    cli_jws_text (cv_jws o) (cv_src o) = Some text ->
    snd (runc (if cli_src_detached (cv_src o) then B64Enc v else v) chunks) = cli_lib_ver o text.
  Proof.
    intros Hv W Hc Ht. unfold cli_lib_ver.
    pose proof (ver_io_lawful algs _ _ _ _ _ Hv) as L.
    destruct (cv_src o) as [|t|d]; cbn [cli_src_detached cli_jws_chunks cli_jws_text] in *.
    - rewrite Ht in Hc. inversion Hc; subst.
      rewrite (ver_stream_same algs _ _ _ _ [text] v Hv). cbn [concat]. rewrite app_nil_r. reflexivity.
    - inversion Hc; inversion Ht; subst.
      rewrite (ver_stream_same algs _ _ _ _ _ v Hv). rewrite concat_bytewise. reflexivity.
    - inversion Hc; inversion Ht; subst.
      rewrite b64enc_front by assumption.
      rewrite (ver_stream_same algs _ _ _ _ [enc d] v Hv). cbn [concat]. rewrite app_nil_r. reflexivity.
  Qed.

  Lemma chunks_text o chunks :
    cli_jws_chunks (cv_jws o) (cv_src o) = Some chunks -> exists text, cli_jws_text (cv_jws o) (cv_src o) = Some text.
  Proof.
    destruct (cv_src o); cbn [cli_jws_chunks cli_jws_text]; intro H; eauto.
    destruct (cli_member_opt cli_s_payload (cv_jws o)); [eauto|discriminate].
  Qed.

  (* the shape of the multiplexer *)
  Lemma prep_io_verdict dd dt out io chunks :
    snd (runc (cli_prep_io dd dt out io) chunks) =
    cli_all_true (map (fun c => snd (runc c chunks))
                      ((if dd then map B64Enc else fun l => l)
                         ((match io with Some c => [c] | None => [] end) ++
                          (if dt then [B64Dec (Sink (SFile []))] else if out then [Sink (SFile [])] else [])))).
  Proof.
    unfold cli_prep_io.
    set (ios := (match io with Some c => [c] | None => [] end) ++ _).
    change (Plex true (map (fun c => (true, c)) (if dd then map B64Enc ios else ios)))
      with (plex_of true (if dd then map B64Enc ios else ios)).
    rewrite plex_all_list. unfold cli_all_true.
    replace ((if dd then map B64Enc else fun l => l) ios) with (if dd then map B64Enc ios else ios) by (destruct dd; reflexivity).
    destruct (if dd then map B64Enc ios else ios) as [|c0 cs]; [reflexivity|].
    cbn [andb map forallb]. f_equal. rewrite forallb_map'. reflexivity.
  Qed.

  (* exit status 0 needs a verifier in the multiplexer, or an output sink standing in for it *)
  Theorem ver_exit_sound checked o :
    cli_src_wf (cv_src o) ->
    (checked = true \/ cv_detach o = false \/ cv_all o = false) ->
    fst (cli_jws_ver_with algs checked o) = 0 ->
    exists text, cli_jws_text (cv_jws o) (cv_src o) = Some text /\ cli_lib_ver o text = true.
  Proof.
    intros W Hcase. unfold cli_jws_ver_with.
    destruct (cli_ver_valid_input o) eqn:VI; cbn [negb]; [|cbn; discriminate].
    destruct (ver_io algs (cv_jws o) None (JArr (cv_keys o)) (cv_all o)) as [v|] eqn:Hv.
    - rewrite andb_false_r.
      destruct (cli_jws_chunks (cv_jws o) (cv_src o)) as [chunks|] eqn:Hc; [|cbn; discriminate].
      destruct (chunks_text o chunks Hc) as (text & Ht).
      rewrite (runc_triple _ chunks). cbn [fst]. intro E. apply status_ok in E.
      rewrite prep_io_verdict in E. exists text. split; [exact Ht|].
      rewrite <- (ver_branch o v chunks text Hv W Hc Ht).
      destruct (cli_src_detached (cv_src o)); cbn [app map cli_all_true forallb] in E;
        apply andb_true_iff in E; tauto.
    - destruct checked; cbn [andb]; [cbn; discriminate|].
      destruct Hcase as [F|[Hd|Ha]]; [discriminate| |].
      + (* no -O: the multiplexer is empty and its feed fails *)
        destruct (cli_jws_chunks (cv_jws o) (cv_src o)) as [chunks|]; [|cbn; discriminate].
        rewrite (runc_triple _ chunks). cbn [fst]. intro E. apply status_ok in E.
        rewrite prep_io_verdict, Hd in E. destruct (cli_src_detached (cv_src o)); cbn in E; discriminate.
      + (* without -a the library never returns NULL for a key list *)
        exfalso. unfold ver_io in Hv. cbn [key_list] in Hv. rewrite Ha in Hv. cbn [andb] in Hv. discriminate.
  Qed.

  (* when the payload is the member of the object given, this is jose_jws_ver itself *)
  Theorem ver_exit_member checked o pay :
    (checked = true \/ cv_detach o = false \/ cv_all o = false) ->
    cv_src o = Src_member -> lookup cli_s_payload (cv_jws o) = Some (JStr pay) ->
    fst (cli_jws_ver_with algs checked o) = 0 ->
    jws_ver algs (cv_jws o) None (JArr (cv_keys o)) (cv_all o) = true.
  Proof.
    intros Hcase Hs Hp E.
    destruct (ver_exit_sound checked o) as (text & Ht & V); [rewrite Hs; exact I|exact Hcase|exact E|].
    rewrite jws_ver_spec. change s_payload with cli_s_payload. rewrite Hp.
    rewrite Hs in Ht. cbn [cli_jws_text] in Ht. unfold cli_member_opt in Ht.
    unfold cli_lib_ver in V.
    destruct (cv_jws o); try discriminate. cbn [lookup] in Hp. rewrite Hp in Ht. inversion Ht; subst. exact V.
  Qed.

  (* the glue as a function of the branch verdicts *)
  Theorem ver_glue_correct o chunks :
    cli_ver_valid_input o = true ->
    cli_jws_chunks (cv_jws o) (cv_src o) = Some chunks ->
    let wrap := fun c => if cli_src_detached (cv_src o) then B64Enc c else c in
    fst (cli_jws_ver algs o) =
    cli_ver_glue (option_map (fun v => snd (runc (wrap v) chunks))
                             (ver_io algs (cv_jws o) None (JArr (cv_keys o)) (cv_all o)))
                 (if cv_detach o then Some (snd (runc (wrap (B64Dec (Sink (SFile [])))) chunks)) else None).
  Proof.
    intros VI Hc wrap. unfold cli_jws_ver, cli_jws_ver_with. rewrite VI. cbn [negb andb].
    destruct (ver_io algs (cv_jws o) None (JArr (cv_keys o)) (cv_all o)) as [v|]; [|reflexivity].
    rewrite Hc. rewrite (runc_triple _ chunks). cbn [fst option_map]. rewrite prep_io_verdict. unfold cli_ver_glue. f_equal.
    unfold wrap. destruct (cv_detach o); destruct (cli_src_detached (cv_src o)); reflexivity.
  Qed.
End VerProofs.

(* what the NULL test in ver.c is for: without it, -a -O with a key the library cannot use leaves the
   output sink alone in the multiplexer -- status 0, payload printed, nothing verified.  (No algorithm
   table is needed: a key without "alg" and a JWS without one give no verifier at all.) *)
Definition cli_ver_cex : cli_ver_opts :=
  {| cv_jws := JObj [(cli_s_payload, JStr [97; 71; 107]); (s_signature, JStr [65; 65])];
     cv_keys := [JObj [(Pub.s_kty, JStr [111; 99; 116])]];
     cv_all := true; cv_detach := true; cv_src := Src_member |}.

Theorem ver_null_test_needed :
  exists algs o,
    cli_jws_ver_unchecked algs o = (0, [104; 105]) /\
    jws_ver algs (cv_jws o) None (JArr (cv_keys o)) (cv_all o) = false /\
    cli_jws_ver algs o = (1, []).
Proof. exists [], cli_ver_cex. vm_compute. repeat split; reflexivity. Qed.

(* ================================================================================================ *)
(* Part 3: jose jwe dec                                                                              *)
(* ================================================================================================ *)

(* chains without multiplexer that end in a FILE sink *)
Fixpoint cli_linear (c : chain) : Prop :=
  match c with
  | Sink (SFile _) => True
  | Sink _ => False
  | Stage _ _ next => cli_linear next
  | Plex _ _ => False
  end.

Lemma linear_delivered c : cli_linear c -> delivered c = [Some (cli_file_out c)].
Proof.
  induction c using chain_ind'; cbn [cli_linear delivered cli_file_out]; try contradiction.
  - destruct s; try contradiction. reflexivity.
  - exact IHc.
Qed.

Lemma feeds_linear c : cli_linear c -> forall xs, cli_linear (fst (feeds c xs)).
Proof.
  induction c using chain_ind'; cbn [cli_linear]; try contradiction.
  - destruct s; try contradiction. intros _ xs. cbn [feeds]. rewrite sink_feeds_file. exact I.
  - intros L xs. cbn [feeds]. destruct (trun T st xs) as [[[st' oss] part] tok].
    specialize (IHc L (concat oss ++ part)). destruct (feeds c (concat oss ++ part)) as [next' a].
    cbn [fst cli_linear] in *. exact IHc.
Qed.

Lemma runc_linear c : cli_linear c -> forall xs, cli_linear (fst (fst (runc c xs))).
Proof.
  induction c using chain_ind'; cbn [cli_linear]; try contradiction.
  - destruct s; try contradiction. intros _ xs. cbn [runc]. rewrite sink_feeds_file, Nat.eqb_refl. exact I.
  - intros L xs. cbn [runc]. destruct (trun T st xs) as [[[st' oss] part] tok].
    destruct (if tok then tdone T st' else None) as [fo|].
    + specialize (IHc L ((concat oss ++ part) ++ fo)).
      destruct (runc c ((concat oss ++ part) ++ fo)) as [[next' a] v].
      destruct (Nat.ltb a (length (concat oss ++ part))); cbn [fst cli_linear] in *; exact IHc.
    + pose proof (feeds_linear c L (concat oss ++ part)) as F.
      destruct (feeds c (concat oss ++ part)) as [next' a]. cbn [fst cli_linear] in *. exact F.
Qed.

(* a successful run of a stage in front of a linear chain: what ends in the file *)
Lemma stage_file_out T st next xs :
  cli_linear next -> snd (runc (Stage T st next) xs) = true ->
  exists y L, taccept T st xs = Some y /\ concat L = y /\ snd (runc next L) = true /\
              cli_file_out (fst (fst (runc (Stage T st next) xs))) = cli_file_out (fst (fst (runc next L))).
Proof.
  intros Ln H. pose proof (runc_stage T st next xs) as R.
  destruct (taccept T st xs) as [y|]; [|congruence].
  destruct R as (L & C & V & D). exists y, L. split; [reflexivity|]. split; [exact C|].
  rewrite <- V. split; [exact H|].
  rewrite V in H. specialize (D H).
  pose proof (runc_linear (Stage T st next) Ln xs) as L1.
  pose proof (runc_linear next Ln L) as L2.
  rewrite (linear_delivered _ L1), (linear_delivered _ L2) in D. inversion D. reflexivity.
Qed.

Lemma file_sink_out d L : cli_file_out (fst (fst (runc (Sink (SFile d)) L))) = d ++ concat L.
Proof. cbn [runc]. rewrite sink_feeds_file, Nat.eqb_refl. reflexivity. Qed.

Section DecProofs.
  Variable walgs : list wrap_alg.
  Variable ealgs : list encr_alg.
  Variable inflate : bytes -> option bytes.

  Lemma dec_stage_run jwe cek L :
    snd (runc (cli_dec_stage ealgs inflate jwe cek) L) = true ->
    exists pt, dec_cek_octets ealgs inflate jwe cek (concat L) = Some pt /\
               cli_file_out (fst (fst (runc (cli_dec_stage ealgs inflate jwe cek) L))) = pt.
  Proof.
    unfold cli_dec_stage. intro H.
    destruct (stage_file_out _ _ (Sink (SFile [])) _ I H) as (y & L2 & A & C & _ & F).
    rewrite atdone_accept in A. cbn [app] in A. exists y. split; [exact A|].
    rewrite F, file_sink_out, C. reflexivity.
  Qed.

  (* exit status 0: a CEK was unwrapped with the keys given, the ciphertext text was canonical
     base64url (or was given decoded), content decryption succeeded, and standard output holds
     exactly its result *)
  Theorem dec_exit_sound o :
    fst (cli_jwe_dec walgs ealgs inflate o) = 0 ->
    exists cek cto,
      dec_jwk walgs (cd_jwe o) None (JArr (cd_keys o)) = Some cek /\
      cli_jwe_octets (cd_jwe o) (cd_src o) = Some cto /\
      dec_cek_octets ealgs inflate (cd_jwe o) cek cto = Some (snd (cli_jwe_dec walgs ealgs inflate o)).
  Proof.
    unfold cli_jwe_dec.
    destruct (negb (is_object (cd_jwe o))); [cbn; discriminate|].
    destruct (match cd_keys o with [] => negb (cd_pwd o) | _ => false end); [cbn; discriminate|].
    destruct (dec_jwk walgs (cd_jwe o) None (JArr (cd_keys o))) as [cek|]; [|cbn; discriminate].
    destruct (cli_jwe_chunks (cd_jwe o) (cd_src o)) as [chunks|] eqn:Hc; [|cbn; discriminate].
    rewrite (runc_triple _ chunks). cbn [fst snd]. intro E. apply status_ok in E.
    exists cek.
    destruct (cd_src o) as [|t|d] eqn:S; cbn [cli_src_detached cli_jwe_chunks cli_jwe_octets] in *.
    - destruct (cli_member_req cli_s_ciphertext (cd_jwe o)) as [ct|]; [|discriminate]. inversion Hc; subst chunks.
      unfold B64Dec in *.
      destruct (stage_file_out _ _ (cli_dec_stage ealgs inflate (cd_jwe o) cek) _ I E) as (y & L & A & C & V & F).
      rewrite b64dec_stream in A. cbn [concat] in A. rewrite app_nil_r in A.
      destruct (dec_stage_run _ _ _ V) as (pt & D & O).
      exists y. split; [reflexivity|]. split; [exact A|]. rewrite F, O, <- C. exact D.
    - inversion Hc; subst chunks. unfold B64Dec in *.
      destruct (stage_file_out _ _ (cli_dec_stage ealgs inflate (cd_jwe o) cek) _ I E) as (y & L & A & C & V & F).
      rewrite b64dec_stream, concat_bytewise in A.
      destruct (dec_stage_run _ _ _ V) as (pt & D & O).
      exists y. split; [reflexivity|]. split; [exact A|]. rewrite F, O, <- C. exact D.
    - inversion Hc; subst chunks.
      destruct (dec_stage_run _ _ _ E) as (pt & D & O). rewrite concat_bytewise in D.
      exists d. split; [reflexivity|]. split; [reflexivity|]. rewrite O. exact D.
  Qed.
  Definition cli_is_some {A} (o : option A) : bool := match o with Some _ => true | None => false end.

  Lemma dec_stage_verdict jwe cek L :
    snd (runc (cli_dec_stage ealgs inflate jwe cek) L) = cli_is_some (dec_cek_octets ealgs inflate jwe cek (concat L)).
  Proof.
    unfold cli_dec_stage.
    pose proof (runc_stage (atdone_T (fun ct => dec_cek_octets ealgs inflate jwe cek ct)) [] (Sink (SFile [])) L) as R.
    rewrite atdone_accept in R. cbn [app] in R.
    destruct (dec_cek_octets ealgs inflate jwe cek (concat L)) as [pt|]; cbn [cli_is_some].
    - destruct R as (L2 & _ & V & _). rewrite V. apply sink_file_true.
    - exact R.
  Qed.

  Lemma b64dec_front c chunks :
    match dec (concat chunks) with
    | Some cto => exists L, concat L = cto /\ snd (runc (B64Dec c) chunks) = snd (runc c L)
    | None => snd (runc (B64Dec c) chunks) = false
    end.
  Proof.
    unfold B64Dec. pose proof (runc_stage b64dec_T [] c chunks) as R. rewrite b64dec_stream in R.
    destruct (dec (concat chunks)) as [cto|]; [|exact R].
    destruct R as (L & C & V & _). exists L. split; assumption.
  Qed.

  (* the exit status of `jwe dec` is the conjunction of the three library steps *)
  Theorem dec_glue_correct o chunks :
    is_object (cd_jwe o) = true -> cd_keys o <> [] ->
    cli_jwe_chunks (cd_jwe o) (cd_src o) = Some chunks ->
    fst (cli_jwe_dec walgs ealgs inflate o) =
    cli_dec_glue (cli_is_some (dec_jwk walgs (cd_jwe o) None (JArr (cd_keys o))))
                 (cli_is_some (cli_jwe_octets (cd_jwe o) (cd_src o)))
                 (match dec_jwk walgs (cd_jwe o) None (JArr (cd_keys o)), cli_jwe_octets (cd_jwe o) (cd_src o) with
                  | Some cek, Some cto => cli_is_some (dec_cek_octets ealgs inflate (cd_jwe o) cek cto)
                  | _, _ => false
                  end).
  Proof.
    intros Ho Hk Hc. unfold cli_jwe_dec, cli_dec_glue. rewrite Ho. cbn [negb].
    destruct (cd_keys o) as [|k0 ks] eqn:K; [congruence|]. rewrite <- K.
    destruct (dec_jwk walgs (cd_jwe o) None (JArr (cd_keys o))) as [cek|]; [|reflexivity].
    rewrite Hc. rewrite (runc_triple _ chunks). cbn [fst cli_is_some andb]. f_equal.
    destruct (cd_src o) as [|t|d]; cbn [cli_src_detached cli_jwe_chunks cli_jwe_octets] in *.
    - destruct (cli_member_req cli_s_ciphertext (cd_jwe o)) as [ct|]; [|discriminate]. inversion Hc; subst chunks.
      pose proof (b64dec_front (cli_dec_stage ealgs inflate (cd_jwe o) cek) [ct]) as B.
      cbn [concat] in B. rewrite app_nil_r in B.
      destruct (dec ct) as [cto|]; cbn [cli_is_some andb]; [|exact B].
      destruct B as (L & C & V). rewrite V, dec_stage_verdict, C. reflexivity.
    - inversion Hc; subst chunks.
      pose proof (b64dec_front (cli_dec_stage ealgs inflate (cd_jwe o) cek) (cli_bytewise t)) as B.
      rewrite concat_bytewise in B.
      destruct (dec t) as [cto|]; cbn [cli_is_some andb]; [|exact B].
      destruct B as (L & C & V). rewrite V, dec_stage_verdict, C. reflexivity.
    - inversion Hc; subst chunks. cbn [cli_is_some andb]. rewrite dec_stage_verdict, concat_bytewise. reflexivity.
  Qed.
End DecProofs.

(* for the concrete algorithm tables and the member as source this is jose_jwe_dec, as long as the
   one-shot entry point's own size limit on compressed ciphertext text does not apply *)
Theorem dec_exit_member o ct :
  cd_src o = Src_member -> lookup cli_s_ciphertext (cd_jwe o) = Some (JStr ct) ->
  (match protected_zip (cd_jwe o) with Some z => bytes_eqb z s_DEF | None => false end
   && (max_compressed_size <? blen ct) = false) ->
  fst (cli_jwe_dec real_wrap_algs real_encr_algs inflate o) = 0 ->
  jwe_dec (cd_jwe o) None (JArr (cd_keys o)) = Some (snd (cli_jwe_dec real_wrap_algs real_encr_algs inflate o)).
Proof.
  intros Hs Hm Hz E. destruct (dec_exit_sound _ _ _ o E) as (cek & cto & K & O & D).
  unfold jwe_dec, jwe_dec_with. rewrite K. change Jwe.s_ciphertext with cli_s_ciphertext. rewrite Hm, Hz.
  rewrite Hs in O. cbn [cli_jwe_octets] in O. unfold cli_member_req in O. rewrite Hm in O. rewrite O. exact D.
Qed.

(* ================================================================================================ *)
(* Part 4: refusals of the library reach the exit status, and nothing complete is printed            *)
(* ================================================================================================ *)

(* ---- jose jwk thp ---------------------------------------------------------------------------------- *)

Definition cli_S256 : bytes := [83; 50; 53; 54].

Lemma filter_nodup_le1 (l : list bytes) x : NoDup l -> (length (filter (bytes_eqb x) l) <= 1)%nat.
Proof.
  induction 1 as [|y l Hn _ IH]; cbn [filter length]; [lia|].
  destruct (bytes_eqb x y) eqn:E; [|exact IH].
  apply bytes_eqb_eq in E. subst y. cbn [length].
  assert (Z : filter (bytes_eqb x) l = []).
  { clear - Hn. induction l as [|z l IHl]; cbn [filter]; [reflexivity|].
    destruct (bytes_eqb x z) eqn:E2; [apply bytes_eqb_eq in E2; subst z; exfalso; apply Hn; left; reflexivity|].
    apply IHl. intro X. apply Hn. right. exact X. }
  rewrite Z. cbn. lia.
Qed.

Lemma hash_names_nodup : NoDup cli_hash_names.
Proof. vm_compute. repeat constructor; cbn; intuition discriminate. Qed.

Section ThpProofs.
  Variable h : bytes.
  Variable dlen : N.
  Hypothesis Hh : In h cli_hash_names.
  Hypothesis Hd : fst (jwk_thp_buf JNull h None) = Some dlen.

  (* the library refuses the key: jose_jwk_thp_buf does not return the digest length *)
  Definition cli_thp_refuses (k : json) : Prop :=
    cli_size_is (fst (jwk_thp_buf k h (Some dlen))) dlen = false.

  Lemma filter_all_h : forall hs, exists n, filter (bytes_eqb h) hs = repeat h n.
  Proof.
    induction hs as [|x hs [n IH]]; [exists O; reflexivity|]. cbn [filter].
    destruct (bytes_eqb h x) eqn:E.
    - apply bytes_eqb_eq in E. subst x. exists (Datatypes.S n). cbn [repeat]. rewrite IH. reflexivity.
    - exists n. exact IH.
  Qed.

  Lemma hs_nonempty : exists n, filter (bytes_eqb h) cli_hash_names = h :: repeat h n.
  Proof.
    destruct (filter_all_h cli_hash_names) as (n & E). destruct n as [|n].
    - exfalso. assert (A : In h (filter (bytes_eqb h) cli_hash_names))
        by (apply filter_In; split; [exact Hh|apply bytes_eqb_refl]).
      rewrite E in A. destruct A.
    - exists n. exact E.
  Qed.

  Lemma thp_step_refuses multi k out : cli_thp_refuses k ->
    cli_thp_step None multi k h out = Cli_ret cli_fail out.
  Proof. unfold cli_thp_step, cli_thp_refuses. intro R. rewrite Hd, R. reflexivity. Qed.

  (* without -f the only way out of the loops before their end is a failure *)
  Lemma thp_ret_is_failure multi k : forall hs out st o,
    cli_hashes_flow hs (cli_thp_step None multi k) out = Cli_ret st o -> st = cli_fail.
  Proof.
    induction hs as [|x hs IH]; intros out st o; cbn [cli_hashes_flow]; [discriminate|].
    unfold cli_thp_step at 1.
    destruct (fst (jwk_thp_buf JNull x None)); [|intro X; inversion X; reflexivity].
    destruct (negb _); [intro X; inversion X; reflexivity|]. apply IH.
  Qed.

  Lemma thp_keys_fail multi n keys : (exists k, In k keys /\ cli_thp_refuses k) -> forall out,
    exists o, cli_keys_flow keys (fun k out => cli_hashes_flow (h :: repeat h n) (cli_thp_step None multi k) out) out
              = Cli_ret cli_fail o.
  Proof.
    induction keys as [|k keys IH]; intros (k0 & Hin & R) out; [destruct Hin|].
    cbn [cli_keys_flow].
    destruct (cli_hashes_flow (h :: repeat h n) (cli_thp_step None multi k) out) as [o|st o] eqn:F.
    - destruct Hin as [E|Hin].
      + subst k0. cbn [cli_hashes_flow] in F. rewrite thp_step_refuses in F by exact R. discriminate.
      + apply IH. eauto.
    - rewrite (thp_ret_is_failure _ _ _ _ _ _ F). eauto.
  Qed.

  (* one refusing key anywhere in the input: the command fails *)
  Theorem refusal_thp keys :
    (exists k, In k keys /\ cli_thp_refuses k) -> fst (cli_jwk_thp keys h None) = 1.
  Proof.
    intro Hx. unfold cli_jwk_thp.
    destruct keys as [|k0 ks]; [destruct Hx as (k & [] & _)|].
    rewrite Hd. destruct hs_nonempty as (n & En). rewrite En.
    destruct (thp_keys_fail (Nat.ltb 1 (length (k0 :: ks))) n (k0 :: ks) Hx []) as (o & F).
    rewrite F. reflexivity.
  Qed.

  (* and for a single key nothing at all is printed *)
  Theorem refusal_thp_single k :
    cli_thp_refuses k -> cli_jwk_thp [k] h None = (1, []).
  Proof.
    intro R. unfold cli_jwk_thp. rewrite Hd.
    destruct hs_nonempty as (n & En). rewrite En. cbn [cli_keys_flow cli_hashes_flow].
    rewrite thp_step_refuses by exact R. reflexivity.
  Qed.

  (* a single key the library accepts: exactly the base64url of the library's digest *)
  Theorem thp_single_ok k d :
    jwk_thp_buf k h (Some dlen) = (Some dlen, d) -> cli_jwk_thp [k] h None = (0, enc d).
  Proof.
    intro R. unfold cli_jwk_thp. rewrite Hd. destruct hs_nonempty as (n & En). rewrite En.
    cbn [cli_keys_flow length Nat.ltb Nat.leb].
    assert (St : forall out, cli_thp_step None false k h out = Cli_go (out ++ enc d)).
    { intro out. unfold cli_thp_step. rewrite Hd, R. cbn [fst snd cli_size_is]. rewrite N.eqb_refl. cbn [negb].
      rewrite app_nil_r. reflexivity. }
    (* the -a hash occurs once in the registry: checked for the generated table *)
    destruct n as [|n]; [cbn [repeat cli_hashes_flow]; rewrite St; reflexivity|].
    exfalso. pose proof (filter_nodup_le1 cli_hash_names h hash_names_nodup) as U.
    rewrite En in U. cbn [length repeat] in U. lia.
  Qed.
End ThpProofs.

(* ---- jose jwk pub / use / eql / exc / gen ------------------------------------------------------------ *)

Lemma all_some_none {A B} (f : A -> option B) l x : In x l -> f x = None -> cli_all_some f l = None.
Proof.
  induction l as [|y l IH]; intros Hin Hx; [destruct Hin|]. cbn [cli_all_some].
  destruct Hin as [E|Hin].
  - subst y. rewrite Hx. reflexivity.
  - destruct (f y); [|reflexivity]. rewrite (IH Hin Hx). reflexivity.
Qed.

Theorem refusal_pub keys set k : In k keys -> jwk_pub k = None -> cli_jwk_pub keys set = (1, []).
Proof. intros Hin Hk. unfold cli_jwk_pub. rewrite (all_some_none _ _ _ Hin Hk). reflexivity. Qed.

(* on success: exactly the library's results, serialized *)
Theorem pub_success keys set out :
  cli_jwk_pub keys set = (0, out) ->
  exists ks, cli_all_some jwk_pub keys = Some ks /\ ks <> [] /\ cli_jwk_out ks set = Some out.
Proof.
  unfold cli_jwk_pub. destruct (cli_all_some jwk_pub keys) as [ks|]; [|discriminate].
  destruct ks as [|k ks]; [discriminate|]. unfold cli_emit.
  destruct (cli_jwk_out (k :: ks) set) as [s|] eqn:O; [|discriminate].
  intro H. inversion H; subst. exists (k :: ks). split; [reflexivity|]. split; [discriminate|exact O].
Qed.

(* without -o: one key that is not allowed makes the command fail, silently *)
Theorem refusal_use keys uses all req set k :
  In k keys -> cli_use_status all req uses k = false ->
  cli_jwk_use keys uses all req false set = (1, []).
Proof.
  intros Hin Hk. unfold cli_jwk_use. destruct uses; [reflexivity|]. destruct keys as [|k0 ks]; [destruct Hin|].
  replace (forallb (cli_use_status all req (b :: uses)) (k0 :: ks)) with false; [reflexivity|].
  symmetry. apply Bool.not_true_is_false. intro A. rewrite forallb_forall in A. rewrite (A k Hin) in Hk. discriminate.
Qed.

(* with -o the allowed keys are filtered: no allowed key, no output *)
Theorem refusal_use_filter keys uses all req set :
  (forall k, In k keys -> cli_use_status all req uses k = false) ->
  cli_jwk_use keys uses all req true set = (1, []).
Proof.
  intro H. unfold cli_jwk_use. destruct uses; [reflexivity|]. destruct keys as [|k0 ks]; [reflexivity|].
  replace (filter (cli_use_status all req (b :: uses)) (k0 :: ks)) with (@nil json); [reflexivity|].
  symmetry. generalize (k0 :: ks) H. intros l Hl. induction l as [|x l IH]; [reflexivity|].
  cbn [filter]. rewrite (Hl x (or_introl eq_refl)). apply IH. intros k Hk. apply Hl. right. exact Hk.
Qed.

(* -a: all the uses; otherwise any of them: jose_jwk_prm decides *)
Theorem use_status_spec all req uses k :
  cli_use_status all req uses k = true <->
  if all then forall u, In u uses -> jwk_prm k req (Some u) = true
  else exists u, In u uses /\ jwk_prm k req (Some u) = true.
Proof.
  unfold cli_use_status. destruct all.
  - rewrite negb_true_iff. split.
    + intros H u Hu. destruct (jwk_prm k req (Some u)) eqn:P; [reflexivity|].
      assert (X : existsb (fun u => negb (jwk_prm k req (Some u))) uses = true)
        by (apply existsb_exists; exists u; rewrite P; auto). congruence.
    + intro H. apply Bool.not_true_is_false. intro X. apply existsb_exists in X. destruct X as (u & Hu & N).
      rewrite (H u Hu) in N. discriminate.
  - rewrite existsb_exists. reflexivity.
Qed.

Lemma eql_chain_cons x y r : cli_eql_chain (x :: y :: r) = jwk_eql x y && cli_eql_chain (y :: r).
Proof. reflexivity. Qed.

Lemma eql_chain_false l1 a b l2 : jwk_eql a b = false -> cli_eql_chain (l1 ++ a :: b :: l2) = false.
Proof.
  intro H. induction l1 as [|x l1 IH]; cbn [app].
  - rewrite eql_chain_cons, H. reflexivity.
  - destruct l1 as [|y l1']; cbn [app] in *; rewrite eql_chain_cons, IH; apply andb_false_r.
Qed.

Theorem refusal_eql l1 a b l2 : jwk_eql a b = false -> cli_jwk_eql (l1 ++ a :: b :: l2) = 1.
Proof.
  intro H. pose proof (eql_chain_false l1 a b l2 H) as C.
  unfold cli_jwk_eql. destruct l1 as [|x [|y l1']]; cbn [app] in *; rewrite C; reflexivity.
Qed.

Theorem eql_two a b : cli_jwk_eql [a; b] = 0 <-> jwk_eql a b = true.
Proof. unfold cli_jwk_eql. cbn [cli_eql_chain]. rewrite andb_true_r. apply status_ok. Qed.

Theorem refusal_exc xalgs tmpls l r : jwk_exc xalgs l r = None -> cli_jwk_exc xalgs tmpls [l] [r] = (1, []).
Proof. intro H. unfold cli_jwk_exc. rewrite H. reflexivity. Qed.

Theorem refusal_gen gen tmpls set t : In t tmpls -> gen t = None -> cli_jwk_gen gen tmpls set = (1, []).
Proof.
  intros Hin Ht. unfold cli_jwk_gen. destruct tmpls; [destruct Hin|].
  rewrite (all_some_none _ _ _ Hin Ht). reflexivity.
Qed.

(* ---- jose b64 dec / enc -------------------------------------------------------------------------------- *)

Definition cli_b64_text (input : bytes) : bytes := filter (fun c => negb (cli_isspace c)) input.

(* status 0 exactly for canonical base64url (white space skipped), and then the output is its decoding *)
Theorem b64_dec_exit input :
  fst (cli_b64_dec input) = 0 -> dec (cli_b64_text input) = Some (snd (cli_b64_dec input)).
Proof.
  unfold cli_b64_dec, cli_run_to_file. fold (cli_b64_text input).
  rewrite (runc_triple _ (cli_bytewise (cli_b64_text input))). cbn [fst snd]. intro E. apply status_ok in E.
  unfold B64Dec in *.
  destruct (stage_file_out _ _ (Sink (SFile [])) _ I E) as (y & L & A & C & _ & F).
  rewrite b64dec_stream, concat_bytewise in A. rewrite F, file_sink_out, C. exact A.
Qed.

Theorem refusal_b64_dec input : dec (cli_b64_text input) = None -> fst (cli_b64_dec input) = 1.
Proof.
  intro H. destruct (fst (cli_b64_dec input)) eqn:E.
  - apply b64_dec_exit in E. congruence.
  - revert E. unfold cli_b64_dec, cli_run_to_file. rewrite (runc_triple _ _). cbn [fst].
    destruct (snd (runc _ _)); unfold cli_status, cli_ok, cli_fail; intro E; [discriminate|inversion E; reflexivity].
Qed.

Theorem b64_enc_total input : wf_bytes input -> cli_b64_enc input = (0, enc input).
Proof.
  intro W. unfold cli_b64_enc, cli_run_to_file, B64Enc.
  pose proof (runc_stage b64enc_T [] (Sink (SFile [])) (cli_bytewise input)) as R.
  rewrite b64enc_stream in R by (apply bytewise_wf; exact W). rewrite concat_bytewise in R.
  destruct R as (L & C & V & _). rewrite sink_file_true in V.
  destruct (stage_file_out _ _ (Sink (SFile [])) _ I V) as (y & L2 & A & C2 & _ & F).
  rewrite b64enc_stream in A by (apply bytewise_wf; exact W). rewrite concat_bytewise in A.
  assert (Y : y = enc input) by congruence.
  rewrite (runc_triple _ (cli_bytewise input)). rewrite V, F, file_sink_out, C2, Y. reflexivity.
Qed.

(* ---- jose jws sig ---------------------------------------------------------------------------------------- *)

Section SigProofs.
  Variable algs : list sign_alg.

  (* the library refuses (no signer could be built, or signing fails): status 1, and standard output is
     empty or stops after the payload text -- no signature, no closing brace *)
  Theorem refusal_sig o signed :
    (forall t, signed t = None) ->
    fst (cli_jws_sig_glue algs o signed) = 1 /\
    (snd (cli_jws_sig_glue algs o signed) = [] \/
     exists head body,
       snd (cli_jws_sig_glue algs o signed) = head ++ body /\
       (body = [] \/ cli_jws_text (cs_jws o) (cs_src o) = Some body) /\
       if cs_compact o then exists p, head = p ++ [cli_dot]
       else head = 123 :: (if cs_detach o then [] else cli_q_payload)).
  Proof.
    intro R. unfold cli_jws_sig_glue.
    destruct (cli_sig_validate o) as [sigs|]; [|split; [reflexivity|left; reflexivity]].
    destruct (cli_map_opt _ _) as [prepared|]; [|split; [reflexivity|left; reflexivity]].
    match goal with |- context [match ?h with Some _ => _ | None => (cli_fail, [])  end] => destruct h as [head|] eqn:H end;
      [|split; [reflexivity|left; reflexivity]].
    assert (HH : if cs_compact o then exists p, head = p ++ [cli_dot]
                 else head = 123 :: (if cs_detach o then [] else cli_q_payload)).
    { destruct (cs_compact o).
      - destruct prepared as [|s0 pr]; [inversion H; exists []; reflexivity|].
        destruct (get_opt_str s_protected s0); inversion H; [exists []|eexists]; reflexivity.
      - inversion H. reflexivity. }
    destruct (cli_jws_text (cs_jws o) (cs_src o)) as [text|] eqn:T.
    - rewrite R. split; [reflexivity|]. right. exists head, (if cs_detach o then [] else text).
      split; [reflexivity|]. split; [destruct (cs_detach o); auto|exact HH].
    - split; [reflexivity|]. right. exists head, []. rewrite app_nil_r. split; [reflexivity|]. split; [left; reflexivity|exact HH].
  Qed.

  (* with a payload over the base64url alphabet (what RFC 7515 requires of the member and what the
     encoder stage produces for -I) the JSON output of a refused run is not a complete token *)
  Theorem refusal_sig_no_json_token o signed :
    (forall t, signed t = None) -> cs_compact o = false ->
    (forall t, cli_jws_text (cs_jws o) (cs_src o) = Some t -> cli_b64text t) ->
    cli_is_token false 2 (snd (cli_jws_sig_glue algs o signed)) = false.
  Proof.
    intros R C B. destruct (refusal_sig o signed R) as (_ & [E|(head & body & E & Hb & Hh)]); rewrite E; [reflexivity|].
    rewrite C in Hh. subst head. unfold cli_is_token. cbn [app].
    assert (L : forall pre, last (pre ++ body) 0 <> 125 \/ body = []).
    { intro pre. destruct Hb as [-> | Hb]; [right; reflexivity|].
      specialize (B _ Hb). destruct body as [|b0 bs] using rev_ind; [right; reflexivity|left].
      rewrite app_assoc, last_last. unfold cli_b64text in B. rewrite Forall_forall in B.
      assert (A : In b0 alphabet) by (apply B; apply in_or_app; right; left; reflexivity).
      intro X. subst b0. revert A. vm_compute. intuition discriminate. }
    destruct (L (123 :: (if cs_detach o then [] else cli_q_payload))) as [Hn | ->].
    - apply N.eqb_neq. exact Hn.
    - rewrite app_nil_r. destruct (cs_detach o); vm_compute; reflexivity.
  Qed.
End SigProofs.

(* ---- jose jwe enc ------------------------------------------------------------------------------------------ *)

Section EncProofs.
  Variable enc_jwk : json -> json -> json -> json -> option (json * json).
  Variable enc_cek_new : json -> json -> option json.
  Variable enc_cek_run : json -> json -> bytes -> option (bytes * json).

  Notation cli_enc := (cli_jwe_enc enc_jwk enc_cek_new enc_cek_run).

  (* no key could wrap / the content encryption object was refused: nothing printed, status 1 *)
  Theorem refusal_enc_wrap o :
    (forall j r k c, enc_jwk j r k c = None) -> ce_keys o <> [] -> cli_enc o = (1, []).
  Proof.
    intros R NK. unfold cli_jwe_enc.
    destruct (ce_keys o) as [|k0 ks] eqn:K; [congruence|]. cbn [length Nat.eqb].
    destruct (Nat.ltb 1 (Datatypes.S (length ks)) && ce_compact o); [reflexivity|].
    destruct (ce_plain o); [|reflexivity].
    destruct (Nat.ltb (Datatypes.S (length ks)) (length (ce_rcps o))); [reflexivity|].
    cbn [cli_pad]. destruct (ce_rcps o); cbn [combine cli_wrap_all]; rewrite R; reflexivity.
  Qed.

  Theorem refusal_enc_new o : (forall j c, enc_cek_new j c = None) -> cli_enc o = (1, []).
  Proof.
    intro R. unfold cli_jwe_enc.
    destruct (Nat.eqb _ 0); [reflexivity|].
    destruct (Nat.ltb 1 _ && ce_compact o); [reflexivity|].
    destruct (ce_plain o); [|reflexivity].
    destruct (Nat.ltb _ _); [reflexivity|].
    destruct (cli_wrap_all _ _ _ _) as [[j c]|]; [|reflexivity].
    destruct (if ce_compact o then cli_enc_compact_hdr j else Some j) as [j2|]; [|reflexivity].
    rewrite R. reflexivity.
  Qed.

  (* the encryption itself fails: status 1; standard output holds the opening only *)
  Theorem refusal_enc_run o :
    (forall j c p, enc_cek_run j c p = None) ->
    fst (cli_enc o) = 1 /\
    (snd (cli_enc o) = [] \/
     if ce_compact o then exists p k iv, snd (cli_enc o) = p ++ [cli_dot] ++ k ++ [cli_dot] ++ iv ++ [cli_dot]
     else snd (cli_enc o) = 123 :: (if ce_detach o then [] else cli_q_ciphertext)).
  Proof.
    intro R. unfold cli_jwe_enc.
    repeat match goal with
           | |- context [if Nat.eqb ?a ?b then _ else _] => destruct (Nat.eqb a b); [split; [reflexivity|left; reflexivity]|]
           | |- context [if Nat.ltb ?a ?b && ?c then _ else _] => destruct (Nat.ltb a b && c); [split; [reflexivity|left; reflexivity]|]
           | |- context [if Nat.ltb ?a ?b then _ else _] => destruct (Nat.ltb a b); [split; [reflexivity|left; reflexivity]|]
           | |- context [match ce_plain o with Some _ => _ | None => _ end] => destruct (ce_plain o); [|split; [reflexivity|left; reflexivity]]
           | |- context [match cli_wrap_all ?a ?b ?c ?d with Some _ => _ | None => _ end] =>
               destruct (cli_wrap_all a b c d) as [[? ?]|]; [|split; [reflexivity|left; reflexivity]]
           end.
    destruct (ce_compact o) eqn:C.
    - destruct (cli_enc_compact_hdr j) as [j2|]; [|split; [reflexivity|left; reflexivity]].
      destruct (enc_cek_new j2 j0) as [j3|]; [|split; [reflexivity|left; reflexivity]].
      destruct (cli_unpack_opt s_protected j3 None) as [[] ?]; [|split; [reflexivity|left; reflexivity]].
      destruct (cli_unpack_opt s_encrypted_key j3 None) as [[] ?]; [|split; [reflexivity|left; reflexivity]].
      destruct (cli_unpack_opt cli_s_iv j3 None) as [[] ?]; [|split; [reflexivity|left; reflexivity]].
      rewrite R. split; [reflexivity|right; eexists; eexists; eexists; reflexivity].
    - destruct (enc_cek_new j j0) as [j3|]; [|split; [reflexivity|left; reflexivity]].
      rewrite R. split; [reflexivity|right; reflexivity].
  Qed.

  (* status 0 in compact mode means that the tag was printed: a missing tag is a failure *)
  Theorem enc_compact_complete o out :
    ce_compact o = true -> cli_enc o = (0, out) ->
    exists body t, out = body ++ [cli_dot] ++ t.
  Proof.
    intros C. unfold cli_jwe_enc. rewrite C.
    repeat match goal with
           | |- context [if ?b then _ else _] => destruct b; try discriminate
           | |- context [match ce_plain o with Some _ => _ | None => _ end] => destruct (ce_plain o); try discriminate
           | |- context [match cli_wrap_all ?a ?b ?c ?d with Some _ => _ | None => _ end] =>
               destruct (cli_wrap_all a b c d) as [[? ?]|]; try discriminate
           end.
    all: destruct (cli_enc_compact_hdr j) as [j2|]; [|discriminate].
    all: destruct (enc_cek_new j2 j0) as [j3|]; [|discriminate].
    all: destruct (cli_unpack_opt s_protected j3 None) as [[] ?]; [|discriminate].
    all: destruct (cli_unpack_opt s_encrypted_key j3 None) as [[] ?]; [|discriminate].
    all: destruct (cli_unpack_opt cli_s_iv j3 None) as [[] ?]; [|discriminate].
    all: destruct (enc_cek_run j3 j0 b) as [[ct j4]|] eqn:Rn; [|discriminate].
    all: destruct (lookup cli_s_tag j4) as [[]|]; try discriminate.
    all: intro H; inversion H.
    all: first [ eexists; eexists; cbn [app]; reflexivity
               | rewrite app_assoc; eexists; eexists; cbn [app]; reflexivity ].
  Qed.
End EncProofs.

(* ---- the streamed member is not printed a second time ----------------------------------------------------- *)

Theorem without_removes k m :
  NoDup (akeys m) ->
  lookup k (cli_without k (JObj m)) = None /\
  forall k', k <> k' -> lookup k' (cli_without k (JObj m)) = lookup k' (JObj m).
Proof.
  intro ND. cbn [cli_without lookup]. split.
  - apply alookup_adel_same. exact ND.
  - intros k' NE. apply alookup_adel_other. exact NE.
Qed.

(* the JSON text of `jws sig`: opening, the payload text (unless -O took it), then the library's object
   WITHOUT its payload member, closing brace *)
Theorem sig_json_shape algs o signed out :
  cs_compact o = false -> cli_jws_sig_glue algs o signed = (0, out) ->
  exists text j',
    cli_jws_text (cs_jws o) (cs_src o) = Some text /\ signed text = Some j' /\
    out = (123 :: (if cs_detach o then [] else cli_q_payload)) ++ (if cs_detach o then [] else text)
          ++ (if cs_detach o then [] else [34; 44]) ++ cli_dump_embed (cli_without cli_s_payload j') ++ [125].
Proof.
  intro C. unfold cli_jws_sig_glue. rewrite C.
  destruct (cli_sig_validate o) as [sigs|]; [|discriminate].
  destruct (cli_map_opt _ _) as [prepared|]; [|discriminate].
  destruct (cli_jws_text (cs_jws o) (cs_src o)) as [text|]; [|discriminate].
  destruct (signed text) as [j'|] eqn:S; [|discriminate].
  intro H. inversion H. exists text, j'. split; [reflexivity|]. split; [exact S|]. reflexivity.
Qed.

(* the fmt writers: what is dumped after the streamed member has no such member *)
Theorem fmt_json_no_repeat jwe arg file st out :
  cli_fmt jwe false arg file = Some (st, out) -> st = 0 ->
  exists body j, out = 123 :: (if jwe then cli_q_ciphertext else cli_q_payload) ++ body ++ [34; 44]
                       ++ cli_dump_embed (cli_without (if jwe then cli_s_ciphertext else cli_s_payload) j) ++ [125].
Proof.
  unfold cli_fmt. destruct (cli_set_input _ arg file) as [j|j rest|]; [| |discriminate].
  - destruct (if jwe then cli_member_req cli_s_ciphertext j else cli_member_opt cli_s_payload j) as [p|];
      intros H E; inversion H; subst; [eexists; eexists; reflexivity|discriminate].
  - destruct (cli_cut_dot rest) as [text tl]. destruct (cli_cut_dot _) as [lastf x].
    destruct (jset _ _ j) as [j'|]; [|discriminate].
    destruct (if jwe then match dec text with Some d => Some (enc d) | None => None end else Some text) as [t|];
      intros H E; inversion H; subst; [eexists; eexists; reflexivity|discriminate].
Qed.

(* ---- what `jwe enc` prints is what `jwe dec` accepts -------------------------------------------------------- *)

(* The object printed by `jwe enc` carries "ciphertext" = base64url of the ciphertext octets ct (or ct goes to the -O
   file).  Whenever the library can decrypt those octets under the keys given -- its own round trip, zip included,
   is C04's subject -- `jwe dec` exits 0 and prints exactly that plaintext, from the member and from -I alike. *)
Theorem dec_accepts walgs ealgs inflate jwe keys cek ct pt :
  is_object jwe = true -> keys <> [] -> wf_bytes ct ->
  dec_jwk walgs jwe None (JArr keys) = Some cek ->
  dec_cek_octets ealgs inflate jwe cek ct = Some pt ->
  (lookup cli_s_ciphertext jwe = Some (JStr (enc ct)) ->
   cli_jwe_dec walgs ealgs inflate {| cd_jwe := jwe; cd_keys := keys; cd_pwd := false; cd_src := Src_member |} = (0, pt)) /\
  cli_jwe_dec walgs ealgs inflate {| cd_jwe := jwe; cd_keys := keys; cd_pwd := false; cd_src := Src_detached ct |} = (0, pt).
Proof.
  intros Ho Hk W K D.
  assert (G : forall o chunks, cd_jwe o = jwe -> cd_keys o = keys ->
              cli_jwe_chunks jwe (cd_src o) = Some chunks -> cli_jwe_octets jwe (cd_src o) = Some ct ->
              cli_jwe_dec walgs ealgs inflate o = (0, pt)).
  { intros o chunks Ej Ek Hc Oc.
    pose proof (dec_glue_correct walgs ealgs inflate o chunks) as F.
    rewrite Ej, Ek in F. specialize (F Ho Hk Hc). rewrite K, Oc, D in F. cbn in F.
    destruct (dec_exit_sound walgs ealgs inflate o F) as (cek' & cto & K' & O' & D').
    rewrite Ej in K', O', D'. rewrite Ek in K'. rewrite K in K'. inversion K'; subst cek'. rewrite Oc in O'. inversion O'; subst cto.
    rewrite D in D'. inversion D'.
    destruct (cli_jwe_dec walgs ealgs inflate o) as [st out]. cbn [fst snd] in *. subst. reflexivity. }
  split.
  - intro M. apply (G _ [enc ct]); try reflexivity; cbn [cd_src cli_jwe_chunks cli_jwe_octets]; unfold cli_member_req; rewrite M;
      [reflexivity|apply dec_enc; exact W].
  - apply (G _ (cli_bytewise ct)); reflexivity.
Qed.
