(* C18 -- cmd/jose.c: parse_compact, jcmd_compact_field, jcmd_opt_io_set_input;
   cmd/jws/fmt.c, cmd/jwe/fmt.c: the writers of the compact form (-c) and the relation between the
   flattened and the general JSON form.  Executable, no proofs here (Cli/CmdsProofs.v).

   Every top-level name is prefixed cli_ (extraction flattens all modules into one OCaml file). *)
From JoseV Require Export Base.Json Base.JsonParse Codec.B64Spec Jose.Entity.
Local Open Scope N_scope.

Definition cli_dot : N := 46.

(* jcmd_field_t: the member name and, for members that live in the per-signature / per-recipient
   objects of the general form, the name of the array that holds those objects *)
Record cli_field := { cf_name : bytes; cf_mult : option bytes }.

Definition cli_s_payload : bytes := [112; 97; 121; 108; 111; 97; 100].
Definition cli_s_iv : bytes := [105; 118].
Definition cli_s_ciphertext : bytes := [99; 105; 112; 104; 101; 114; 116; 101; 120; 116].
Definition cli_s_tag : bytes := [116; 97; 103].

(* cmd/jws/jws.h jcmd_jws_fields, cmd/jwe/jwe.h jcmd_jwe_fields *)
Definition cli_jws_fields : list cli_field :=
  [ {| cf_name := s_protected; cf_mult := Some s_signatures |};
    {| cf_name := cli_s_payload; cf_mult := None |};
    {| cf_name := s_signature; cf_mult := Some s_signatures |} ].

Definition cli_jwe_fields : list cli_field :=
  [ {| cf_name := s_protected; cf_mult := None |};
    {| cf_name := s_encrypted_key; cf_mult := Some s_recipients |};
    {| cf_name := cli_s_iv; cf_mult := None |};
    {| cf_name := cli_s_ciphertext; cf_mult := None |};
    {| cf_name := cli_s_tag; cf_mult := None |} ].

(* ---- reading ------------------------------------------------------------------------------- *)

(* strchr(&arg[i], '.') / the fgetc loop of jcmd_compact_field: the bytes before the first '.', and
   what follows it (None: there is no '.') *)
Fixpoint cli_cut_dot (s : bytes) : bytes * option bytes :=
  match s with
  | [] => ([], None)
  | c :: r => if c =? cli_dot then ([], Some r)
              else let '(a, b) := cli_cut_dot r in (c :: a, b)
  end.

(* valid_b64: every character is one of JOSE_B64_MAP (the argument is a C string: no NUL inside) *)
Definition cli_valid_b64 (s : bytes) : bool := forallb (fun c => existsb (N.eqb c) alphabet) s.

(* the loop of parse_compact over the field names.  A missing '.' is an error unless the field is
   the last one; after the last field whatever follows a further '.' is NOT looked at. *)
Fixpoint cli_parse_fields (names : list bytes) (s : bytes) (acc : list (bytes * json))
  : option (list (bytes * json)) :=
  match names with
  | [] => Some acc
  | n :: rest =>
      let '(f, tl) := cli_cut_dot s in
      match tl with
      | None =>
          match rest with
          | _ :: _ => None
          | [] => if cli_valid_b64 f then Some (aset n (JStr f) acc) else None
          end
      | Some r =>
          if cli_valid_b64 f then cli_parse_fields rest r (aset n (JStr f) acc) else None
      end
  end.

Definition cli_parse_compact (fields : list cli_field) (arg : bytes) : option json :=
  match cli_parse_fields (map cf_name fields) arg [] with
  | Some m => Some (JObj m)
  | None => None
  end.

(* isspace() of the C locale *)
Definition cli_isspace (c : N) : bool := ((9 <=? c) && (c <=? 13)) || (c =? 32).

Fixpoint cli_skip_space (s : bytes) : bytes :=
  match s with
  | c :: r => if cli_isspace c then cli_skip_space r else s
  | [] => []
  end.

(* the compact form read from a FILE: all fields but the last two are read now (no alphabet test
   on this path), the stream stays positioned at the payload / ciphertext field *)
Fixpoint cli_stream_head (names : list bytes) (s : bytes) (acc : list (bytes * json))
  : list (bytes * json) * bytes :=
  match names with
  | n :: ((_ :: _ :: _) as rest) =>
      let '(f, tl) := cli_cut_dot s in
      cli_stream_head rest (match tl with Some r => r | None => [] end) (aset n (JStr f) acc)
  | _ => (acc, s)
  end.

(* jcmd_opt_io_set_input: what -i ARG becomes.  [file] is the content of the file named ARG (of
   standard input for "-"), None when it cannot be opened. *)
Inductive cli_input :=
| CI_obj (j : json)                      (* io->obj set, io->input closed *)
| CI_stream (j : json) (rest : bytes)    (* compact form being streamed: leading fields in obj, rest unread *)
| CI_invalid.                            (* the option is refused: usage error *)

Definition cli_loadf_prefix (s : bytes) : option json :=
  match parse_val {| allow_nul := false; decode_any := false |} (S (length s)) (skip_ws s) with
  | Some (v, _) => Some v            (* JSON_DISABLE_EOF_CHECK: what follows the value is not looked at *)
  | None => None
  end.

Definition cli_set_input (fields : list cli_field) (arg : bytes) (file : option bytes) : cli_input :=
  match parse_strict arg with
  | Some j => if is_object j then CI_obj j else CI_invalid
  | None =>
      match cli_parse_compact fields arg with
      | Some j => CI_obj j
      | None =>
          match file with
          | None => CI_invalid
          | Some content =>
              match cli_skip_space content with
              | 123 :: _ =>
                  match cli_loadf_prefix (cli_skip_space content) with
                  | Some j => if is_object j then CI_obj j else CI_invalid
                  | None => CI_invalid
                  end
              | _ =>
                  let '(m, rest) := cli_stream_head (map cf_name fields) (cli_skip_space content) [] in
                  CI_stream (JObj m) rest
              end
          end
      end
  end.

(* ---- writing the compact form (-c) ---------------------------------------------------------- *)

(* json_unpack(obj, "{s:[{s?s}!]}", mult, k, &v): (succeeded, what v holds afterwards).
   jansson stores into v while it walks the first element and checks the '!' (no further elements)
   only at the closing bracket: after a failure caused by a second element v already points to
   the first element's value.  A NULL key (fields without .mult) is an error. *)
Definition cli_unpack_mult_opt (mult : option bytes) (k : bytes) (j : json) (v : option bytes)
  : bool * option bytes :=
  match mult with
  | None => (false, v)
  | Some mk =>
      match lookup mk j with
      | Some (JArr (JObj e :: rest)) =>
          let single := match rest with [] => true | _ => false end in
          match alookup k e with
          | None => (single, v)
          | Some (JStr s) => (single, Some (cstr s))
          | Some _ => (false, v)
          end
      | _ => (false, v)
      end
  end.

(* json_unpack(obj, "{s?s}", k, &v) *)
Definition cli_unpack_opt (k : bytes) (j : json) (v : option bytes) : bool * option bytes :=
  match j with
  | JObj m =>
      match alookup k m with
      | None => (true, v)
      | Some (JStr s) => (true, Some (cstr s))
      | Some _ => (false, v)
      end
  | _ => (false, v)
  end.

(* one of the leading fields: None = "Input cannot be converted to compact"; an absent member prints
   as the empty string *)
Definition cli_compact_field (f : cli_field) (j : json) : option bytes :=
  let '(ok1, v1) := cli_unpack_mult_opt (cf_mult f) (cf_name f) j None in
  if ok1 then Some (match v1 with Some s => s | None => [] end)
  else
    let '(ok2, v2) := cli_unpack_opt (cf_name f) j v1 in
    if ok2 then Some (match v2 with Some s => s | None => [] end) else None.

(* the last field: json_unpack "{s:s}" k, else "{s:[{s:s}!]}" mult k *)
Definition cli_compact_last (mult k : bytes) (j : json) : option bytes :=
  match lookup k j with
  | Some (JStr s) => Some (cstr s)
  | _ =>
      match lookup mult j with
      | Some (JArr [JObj e]) =>
          match alookup k e with
          | Some (JStr s) => Some (cstr s)
          | _ => None
          end
      | _ => None
      end
  end.

Definition cli_fld (fields : list cli_field) (i : nat) : cli_field :=
  nth i fields {| cf_name := []; cf_mult := None |}.

(* `jose jws fmt -c`: [pay] is the payload text that went through the IO chain to the output.
   None = failure (exit status 1); what was printed before the failure is not part of the result. *)
Definition cli_jws_compact (j : json) (pay : bytes) : option bytes :=
  match cli_compact_field (cli_fld cli_jws_fields 0) j with
  | None => None
  | Some p =>
      match cli_compact_last s_signatures s_signature j with
      | None => None
      | Some s => Some (p ++ [cli_dot] ++ pay ++ [cli_dot] ++ s)
      end
  end.

(* `jose jwe fmt -c`: more than one recipient is refused first (json_array_size of a non-array is 0);
   then the loop runs over the fields before "ciphertext" *)
Definition cli_jwe_compact (j : json) (ct : bytes) : option bytes :=
  match lookup s_recipients j with
  | Some (JArr (_ :: _ :: _)) => None
  | _ =>
  match cli_compact_field (cli_fld cli_jwe_fields 0) j,
        cli_compact_field (cli_fld cli_jwe_fields 1) j,
        cli_compact_field (cli_fld cli_jwe_fields 2) j with
  | Some p, Some k, Some iv =>
      match cli_compact_last s_recipients cli_s_tag j with
      | None => None
      | Some t => Some (p ++ [cli_dot] ++ k ++ [cli_dot] ++ iv ++ [cli_dot] ++ ct ++ [cli_dot] ++ t)
      end
  | _, _, _ => None
  end
  end.

(* the payload / ciphertext member when the input is a JSON object and nothing is detached:
   "{s?s%}" for a JWS (absent = empty), "{s:s%}" for a JWE *)
Definition cli_member_opt (k : bytes) (j : json) : option bytes :=
  match j with
  | JObj m => match alookup k m with
              | None => Some []
              | Some (JStr s) => Some s
              | Some _ => None
              end
  | _ => None
  end.

Definition cli_member_req (k : bytes) (j : json) : option bytes :=
  match lookup k j with Some (JStr s) => Some s | _ => None end.

Definition cli_jws_fmt_compact (j : json) : option bytes :=
  match cli_member_opt cli_s_payload j with
  | Some pay => cli_jws_compact j pay
  | None => None
  end.

Definition cli_jwe_fmt_compact (j : json) : option bytes :=
  match cli_member_req cli_s_ciphertext j with
  | Some ct => cli_jwe_compact j ct
  | None => None
  end.

(* ---- flattened <-> general --------------------------------------------------------------------- *)

Definition cli_is_key (ks : list bytes) (kv : bytes * json) : bool := existsb (bytes_eqb (fst kv)) ks.

(* the members that describe the single signature / recipient move into a one-element array *)
Definition cli_to_general (plural : bytes) (ks : list bytes) (j : json) : option json :=
  match j with
  | JObj m =>
      match alookup plural m with
      | Some _ => None
      | None => Some (JObj (filter (fun kv => negb (cli_is_key ks kv)) m
                            ++ [(plural, JArr [JObj (filter (cli_is_key ks) m)])]))
      end
  | _ => None
  end.

(* exactly one entry: its members are hoisted *)
Definition cli_to_flat (plural : bytes) (j : json) : option json :=
  match j with
  | JObj m =>
      match alookup plural m with
      | Some (JArr [JObj e]) => Some (JObj (adel plural m ++ e))
      | _ => None
      end
  | _ => None
  end.

(* RFC 7515 7.2.1/7.2.2, RFC 7516 7.2.1/7.2.2: the per-entry members *)
Definition cli_jws_entry_keys : list bytes := [s_protected; s_header; s_signature].
Definition cli_jwe_entry_keys : list bytes := [s_header; s_encrypted_key].
