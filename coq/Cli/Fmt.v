(* C19 -- reference interpreter of `jose fmt`, written from doc/man/jose-fmt.1.adoc
   (NOT from cmd/fmt.c).

   DESIGN
   ------
   * Values are REFERENCES.  The manual never says so in words, but its own examples
     only make sense that way:
        jose fmt -j '{}' -cs unprotected -q A128KW -s alg -UUo-
        => {"unprotected":{"alg":"A128KW"}}
     after `-s unprotected` the copy that is still TOP and the member "unprotected" of
     PREV must be one and the same object, otherwise the later `-s alg` (performed on
     that TOP, through PREV of the string) could not show up in the root that is
     printed at the end.  Path/zipper models cannot express this (after -s/-a/-i/-x a
     value has two parents; with -M even cycles can be built), so the state carries a
     STORE: [heap = list node], an address is an index, nodes are
        NScal v | NArr (list addr) | NObj (list (key * addr)).
     The store only grows (allocation = append); mutation replaces ONE node.  There is
     no reference counting and no deallocation: unreachable nodes are harmless.
        - `-j -q -l -y -Y -c -Q` allocate fresh nodes (for -c/-Q: a deep copy, so later
          mutations are NOT shared);
        - `-g` pushes the ADDRESS of the member (shared with the parent);
        - `-s -a -i -x` store the ADDRESS of TOP into the node of PREV (shared);
        - `-d -e -t` and the four above rewrite the node of TOP resp. PREV in place,
          therefore visible through every other stack cell / parent holding that address.
     [value h a] reads the tree below an address back ([None] iff the fuel
     S (length h) is exhausted, which happens exactly for cyclic values).
   * The stack is a list of addresses, TOP first.  PREV is the second entry.
   * [step st o nxt] returns the LIST (set) of outcomes the manual allows for option [o]
     in state [st]; [nxt] is the option that follows (needed only by -X: "Invert the
     following assertion").  Where the manual defines the behaviour the list is a
     singleton.  Where it is silent the list contains every reading we consider
     defensible, typically [Fail; natural success]; see C19_NOTES.md for the list.
   * [runs p] = the set of (exit status, stdout, files) the manual allows for program p.
     Exit status: 0, or the 1-based index of the first failing option; nothing is
     executed or printed after it.
   * stdout is a pipe (no tty handling).  `-o FILE` etc. write into [files] (path ->
     contents, a later write to the same path replaces the earlier one).
   * base64url is RFC 4648 section 5 without padding, defined here (own alphabet, no
     dependency on the tables generated from the implementation). *)
From JoseV Require Export Base.Bytes Base.Json Base.JsonDump Base.JsonParse.
Local Open Scope N_scope.

(* ------------------------------------------------------------------ base64url (RFC 4648 s.5) *)

Definition b64url_alphabet : bytes :=
  [65;66;67;68;69;70;71;72;73;74;75;76;77;78;79;80;81;82;83;84;85;86;87;88;89;90;
   97;98;99;100;101;102;103;104;105;106;107;108;109;110;111;112;113;114;115;116;117;118;119;120;121;122;
   48;49;50;51;52;53;54;55;56;57;45;95].

Definition b64c (d : N) : N := nth (N.to_nat d) b64url_alphabet 0.

Fixpoint b64url_enc (bs : bytes) : bytes :=
  match bs with
  | [] => []
  | [a] => [b64c (a / 4); b64c ((a mod 4) * 16)]
  | [a; b] => [b64c (a / 4); b64c ((a mod 4) * 16 + b / 16); b64c ((b mod 16) * 4)]
  | a :: b :: c :: r =>
      b64c (a / 4) :: b64c ((a mod 4) * 16 + b / 16) :: b64c ((b mod 16) * 4 + c / 64) :: b64c (c mod 64)
      :: b64url_enc r
  end.

Definition b64v (c : N) : option N :=
  if (65 <=? c) && (c <=? 90) then Some (c - 65)
  else if (97 <=? c) && (c <=? 122) then Some (c - 71)
  else if (48 <=? c) && (c <=? 57) then Some (c + 4)
  else if c =? 45 then Some 62
  else if c =? 95 then Some 63
  else None.

(* the bytes spelled by the 6-bit digits, trailing bits dropped *)
Fixpoint b64url_raw (s : bytes) : option bytes :=
  match s with
  | [] => Some []
  | [a] => None
  | [a; b] =>
      match b64v a, b64v b with
      | Some x, Some y => Some [x * 4 + y / 16]
      | _, _ => None
      end
  | [a; b; c] =>
      match b64v a, b64v b, b64v c with
      | Some x, Some y, Some z => Some [x * 4 + y / 16; (y mod 16) * 16 + z / 4]
      | _, _, _ => None
      end
  | a :: b :: c :: d :: r =>
      match b64v a, b64v b, b64v c, b64v d, b64url_raw r with
      | Some x, Some y, Some z, Some w, Some t =>
          Some (x * 4 + y / 16 :: (y mod 16) * 16 + z / 4 :: (z mod 4) * 64 + w :: t)
      | _, _, _, _, _ => None
      end
  end.

(* ------------------------------------------------------------------ the store *)

Definition addr := nat.

Inductive node :=
| NScal (v : json)                       (* null, booleans, numbers, strings *)
| NArr (l : list addr)
| NObj (m : list (bytes * addr)).

Definition heap := list node.

Fixpoint mapM {A B} (f : A -> option B) (l : list A) : option (list B) :=
  match l with
  | [] => Some []
  | x :: r => match f x, mapM f r with
              | Some y, Some t => Some (y :: t)
              | _, _ => None
              end
  end.

(* allocation of a tree: children first, then the node; the store only grows *)
Fixpoint alloc (j : json) (h : heap) : heap * addr :=
  match j with
  | JArr l =>
      let '(h1, al) :=
        (fix go (l : list json) (h : heap) : heap * list addr :=
           match l with
           | [] => (h, [])
           | x :: r => let '(h1, a) := alloc x h in
                       let '(h2, al) := go r h1 in (h2, a :: al)
           end) l h in
      (h1 ++ [NArr al], length h1)
  | JObj m =>
      let '(h1, al) :=
        (fix go (m : list (bytes * json)) (h : heap) : heap * list (bytes * addr) :=
           match m with
           | [] => (h, [])
           | kv :: r => let '(h1, a) := alloc (snd kv) h in
                        let '(h2, al) := go r h1 in (h2, (fst kv, a) :: al)
           end) m h in
      (h1 ++ [NObj al], length h1)
  | _ => (h ++ [NScal j], length h)
  end.

Fixpoint alloc_list (l : list json) (h : heap) : heap * list addr :=
  match l with
  | [] => (h, [])
  | x :: r => let '(h1, a) := alloc x h in
              let '(h2, al) := alloc_list r h1 in (h2, a :: al)
  end.

Fixpoint alloc_members (m : list (bytes * json)) (h : heap) : heap * list (bytes * addr) :=
  match m with
  | [] => (h, [])
  | kv :: r => let '(h1, a) := alloc (snd kv) h in
               let '(h2, al) := alloc_members r h1 in (h2, (fst kv, a) :: al)
  end.

(* reading a tree back; fuel bounds the depth *)
Fixpoint reify (fuel : nat) (h : heap) (a : addr) : option json :=
  match fuel with
  | O => None
  | S f =>
      match nth_error h a with
      | None => None
      | Some (NScal v) => Some v
      | Some (NArr l) => option_map JArr (mapM (reify f h) l)
      | Some (NObj m) =>
          option_map JObj (mapM (fun kv => option_map (fun v => (fst kv, v)) (reify f h (snd kv))) m)
      end
  end.

(* an acyclic value is never deeper than the number of nodes *)
Definition value (h : heap) (a : addr) : option json := reify (S (length h)) h a.

Fixpoint upd {A} (l : list A) (i : nat) (x : A) : list A :=
  match l, i with
  | [], _ => []
  | _ :: r, O => x :: r
  | y :: r, S k => y :: upd r k x
  end.

Definition insert_at {A} (n : nat) (x : A) (l : list A) : list A := firstn n l ++ x :: skipn n l.
Definition remove_at {A} (n : nat) (l : list A) : list A := firstn n l ++ skipn (S n) l.

(* ------------------------------------------------------------------ options *)

Inductive dest := DStdout | DFile (path : bytes).

Inductive assertion :=
| AObject | AArray | AString | AInteger | AReal | ANumber | ATrue | AFalse | ABoolean | ANull | AEqual.

Inductive opt :=
| OAssert (a : assertion)          (* -O -A -S -I -R -N -T -F -B -0 -E *)
| ONot                             (* -X *)
| OQuery                           (* -Q *)
| OMove (n : nat)                  (* -M # *)
| OUnwind                          (* -U *)
| OJson (v : json)                 (* -j JSON *)
| OCopy                            (* -c *)
| OQuote (s : bytes)               (* -q STR *)
| OOutput (d : dest)               (* -o FILE | -o - *)
| OForeach (d : dest)              (* -f FILE | -f - *)
| OUnquote (d : dest)              (* -u FILE | -u - *)
| OTrunc (z : Z)                   (* -t # | -t -# *)
| OInsert (z : Z)                  (* -i # *)
| OAppend                          (* -a *)
| OExtend                          (* -x *)
| ODelete (arg : bytes)            (* -d NAME | # | -# *)
| OLength                          (* -l *)
| OEmpty                           (* -e *)
| OGet (arg : bytes)               (* -g NAME | # | -# *)
| OSet (arg : bytes)               (* -s NAME | # | -# *)
| OB64Load                         (* -y *)
| OB64Dump.                        (* -Y *)

Definition is_assert (o : opt) : bool := match o with OAssert _ => true | _ => false end.

(* "#" / "-#": an optional minus sign followed by decimal digits *)
Definition all_digits (s : bytes) : bool :=
  match s with [] => false | _ => forallb is_digit s end.

Definition parse_index (s : bytes) : option Z :=
  match s with
  | 45 :: d => if all_digits d then Some (- Z.of_N (digits_val d))%Z else None
  | d => if all_digits d then Some (Z.of_N (digits_val d)) else None
  end.

(* "#" counts from the start, "-#" from the end; anything outside the array is no position *)
Definition conv_index (len : nat) (z : Z) : option nat :=
  let i := (if z <? 0 then z + Z.of_nat len else z)%Z in
  if ((0 <=? i) && (i <? Z.of_nat len))%Z then Some (Z.to_nat i) else None.

Definition arg_index (len : nat) (arg : bytes) : option nat :=
  match parse_index arg with
  | Some z => conv_index len z
  | None => None
  end.

(* ------------------------------------------------------------------ machine state *)

Definition files_t := list (bytes * bytes).

Record state := mkst {
  stk : list addr;        (* TOP first *)
  hp : heap;
  inv : bool;             (* a -X is pending *)
  out : bytes;            (* stdout so far *)
  files : files_t         (* files written so far *)
}.

Definition init : state := mkst [] [] false [] [].

Inductive outcome :=
| Fail (fs : files_t)     (* the option fails; fs = files as the failing option leaves them *)
| Ok (st : state).

Definition is_fail (r : outcome) : bool := match r with Fail _ => true | Ok _ => false end.

Definition fail (st : state) : outcome := Fail (files st).

(* a failing file-writing option may or may not already have created/emptied its file *)
Definition fail_w (d : dest) (st : state) : list outcome :=
  match d with
  | DStdout => [fail st]
  | DFile p => [fail st; Fail (aset p [] (files st))]
  end.

Definition set_inv (b : bool) (st : state) : state := mkst (stk st) (hp st) b (out st) (files st).
Definition set_stk (s : list addr) (st : state) : state := mkst s (hp st) (inv st) (out st) (files st).
Definition set_node (a : addr) (n : node) (st : state) : state :=
  mkst (stk st) (upd (hp st) a n) (inv st) (out st) (files st).
Definition push_addr (a : addr) (st : state) : state := set_stk (a :: stk st) st.
Definition push_val (v : json) (st : state) : state :=
  let '(h, a) := alloc v (hp st) in mkst (a :: stk st) h (inv st) (out st) (files st).

Definition write (d : dest) (data : bytes) (st : state) : state :=
  match d with
  | DStdout => mkst (stk st) (hp st) (inv st) (out st ++ data) (files st)
  | DFile p => mkst (stk st) (hp st) (inv st) (out st) (aset p data (files st))
  end.

Definition top_addr (st : state) : option addr := nth_error (stk st) 0.
Definition prev_addr (st : state) : option addr := nth_error (stk st) 1.
Definition node_at (st : state) (a : addr) : option node := nth_error (hp st) a.
Definition top_node (st : state) : option node :=
  match top_addr st with Some a => node_at st a | None => None end.
Definition prev_node (st : state) : option node :=
  match prev_addr st with Some a => node_at st a | None => None end.

(* ------------------------------------------------------------------ assertions *)

Definition node_is (a : assertion) (n : node) : bool :=
  match a, n with
  | AObject, NObj _ => true
  | AArray, NArr _ => true
  | AString, NScal (JStr _) => true
  | AInteger, NScal (JInt _) => true
  | AReal, NScal (JReal _) => true
  | ANumber, NScal (JInt _) => true
  | ANumber, NScal (JReal _) => true
  | ATrue, NScal (JBool true) => true
  | AFalse, NScal (JBool false) => true
  | ABoolean, NScal (JBool _) => true
  | ANull, NScal JNull => true
  | _, _ => false
  end.

Inductive verdict :=
| VMissing            (* TOP (or PREV for -E) is not there *)
| VUndef              (* -E on a cyclic value *)
| VHolds (b : bool).

Definition holds (a : assertion) (st : state) : verdict :=
  match a with
  | AEqual =>
      match top_node st, prev_node st, top_addr st, prev_addr st with
      | Some _, Some _, Some t, Some p =>
          match value (hp st) t, value (hp st) p with
          | Some x, Some y => VHolds (jequal x y)
          | _, _ => VUndef
          end
      | _, _, _, _ => VMissing
      end
  | _ =>
      match top_node st with
      | Some n => VHolds (node_is a n)
      | None => VMissing
      end
  end.

Definition step_assert (a : assertion) (st : state) : list outcome :=
  let st' := set_inv false st in
  match holds a st with
  | VMissing => if inv st then [fail st; Ok st'] else [fail st]
  | VUndef => [fail st; Ok st']
  | VHolds b => if xorb (inv st) b then [Ok st'] else [fail st]
  end.

(* ------------------------------------------------------------------ the other options *)

(* after storing a reference: an option that would close a cycle (a value containing itself can be
   neither printed nor compared) fails and changes nothing *)
Definition guard_cyc (p : addr) (st' st : state) : list outcome :=
  match value (hp st') p with
  | Some _ => [Ok st']
  | None => [fail st]
  end.

Definition add_missing (m o : list (bytes * addr)) : list (bytes * addr) :=
  fold_left (fun acc kv => match alookup (fst kv) acc with
                           | Some _ => acc
                           | None => aset (fst kv) (snd kv) acc
                           end) o m.

Definition add_all (m o : list (bytes * addr)) : list (bytes * addr) :=
  fold_left (fun acc kv => aset (fst kv) (snd kv) acc) o m.

Definition not_self (p : addr) (o : list (bytes * addr)) : list (bytes * addr) :=
  filter (fun kv => negb (Nat.eqb (snd kv) p)) o.

Definition is_container (v : json) : bool := match v with JArr _ | JObj _ => true | _ => false end.

Definition foreach_lines (h : heap) (n : node) : option (option bytes) :=
  (* None: wrong type; Some None: cyclic item; Some (Some text) *)
  match n with
  | NArr l =>
      Some (option_map (fun vs => flat_map (fun v => dump v ++ [10]) vs) (mapM (value h) l))
  | NObj m =>
      Some (option_map (fun kvs => flat_map (fun kv : bytes * json => fst kv ++ 61 :: dump (snd kv) ++ [10]) kvs)
              (mapM (fun kv => option_map (fun v => (fst kv, v)) (value h (snd kv))) m))
  | NScal _ => None
  end.

Definition step_plain (st : state) (o : opt) : list outcome :=
  match o with
  | OAssert a => step_assert a st
  | ONot => [Ok (set_inv true st)]
  | OQuery =>
      (* the stack as an array; the manual does not say in which order *)
      match mapM (value (hp st)) (stk st) with
      | None => [fail st]
      | Some vs => [Ok (push_val (JArr vs) st); Ok (push_val (JArr (rev vs)) st)]
      end
  | OMove n =>
      match stk st with
      | [] => [fail st]
      | t :: r =>
          if (n <=? length r)%nat then [Ok (set_stk (insert_at n t r) st)]
          else [fail st; Ok (set_stk (r ++ [t]) st)]          (* beyond the bottom: silent *)
      end
  | OUnwind =>
      match stk st with
      | [] => [fail st]
      | _ :: r => [Ok (set_stk r st)]
      end
  | OJson v => [Ok (push_val v st)]
  | OCopy =>
      match top_addr st with
      | None => [fail st]
      | Some t => match value (hp st) t with
                  | None => [fail st]
                  | Some v => [Ok (push_val v st)]
                  end
      end
  | OQuote s => [Ok (push_val (JStr s) st)]
  | OOutput d =>
      match top_addr st with
      | None => fail_w d st
      | Some t => match value (hp st) t with
                  | None => fail_w d st
                  | Some v => [Ok (write d (dump v) st)]
                  end
      end
  | OForeach d =>
      match top_node st with
      | None => fail_w d st
      | Some n => match foreach_lines (hp st) n with
                  | Some (Some text) => [Ok (write d text st)]
                  | _ => fail_w d st
                  end
      end
  | OUnquote d =>
      match top_node st with
      | Some (NScal (JStr s)) =>
          (* whether a line terminator follows the text is not stated *)
          [Ok (write d s st); Ok (write d (s ++ [10]) st)]
      | _ => fail_w d st
      end
  | OTrunc z =>
      match top_addr st, top_node st with
      | Some t, Some (NArr l) =>
          if (0 <=? z)%Z then
            let n := Z.to_nat z in
            if (n <=? length l)%nat then [Ok (set_node t (NArr (firstn n l)) st)]
            else [fail st; Ok st]                               (* longer than it is: silent *)
          else
            let c := Z.to_nat (- z) in
            if (c <=? length l)%nat then [Ok (set_node t (NArr (firstn (length l - c) l)) st)]
            else [fail st; Ok (set_node t (NArr []) st)]        (* more than there are: silent *)
      | _, _ => [fail st]
      end
  | OInsert z =>
      match top_addr st, prev_addr st, prev_node st with
      | Some t, Some p, Some (NArr l) =>
          if (0 <=? z)%Z then
            if (Z.to_nat z <=? length l)%nat
            then guard_cyc p (set_node p (NArr (insert_at (Z.to_nat z) t l)) st) st
            else [fail st]
          else
            (* a negative position is not documented for -i *)
            if (Z.to_nat (- z) <=? length l)%nat
            then fail st :: guard_cyc p (set_node p (NArr (insert_at (length l - Z.to_nat (- z)) t l)) st) st
            else [fail st]
      | _, _, _ => [fail st]
      end
  | OAppend =>
      match top_addr st, top_node st, prev_addr st, prev_node st with
      | Some t, Some _, Some p, Some (NArr l) => guard_cyc p (set_node p (NArr (l ++ [t])) st) st
      | Some t, Some (NObj o), Some p, Some (NObj m) =>
          let st' := set_node p (NObj (add_missing m o)) st in
          match value (hp st') p with
          | Some _ => [Ok st']
          | None =>
              (* a member of TOP that would be added reaches PREV: the option fails *)
              [fail st]
          end
      | _, _, _, _ => [fail st]
      end
  | OExtend =>
      match top_node st, prev_addr st, prev_node st with
      | Some (NArr o), Some p, Some (NArr l) => guard_cyc p (set_node p (NArr (l ++ o)) st) st
      | Some (NObj o), Some p, Some (NObj m) => guard_cyc p (set_node p (NObj (add_all m o)) st) st
      | _, _, _ => [fail st]
      end
  | ODelete arg =>
      match top_addr st, top_node st with
      | Some t, Some (NObj m) =>
          match alookup arg m with
          | Some _ => [Ok (set_node t (NObj (adel arg m)) st)]
          | None => [fail st; Ok st]                            (* nothing of that name: silent *)
          end
      | Some t, Some (NArr l) =>
          match arg_index (length l) arg with
          | Some i => [Ok (set_node t (NArr (remove_at i l)) st)]
          | None => [fail st]
          end
      | _, _ => [fail st]
      end
  | OLength =>
      match top_node st with
      | Some (NArr l) => [Ok (push_val (JInt (Z.of_nat (length l))) st)]
      | Some (NObj m) => [Ok (push_val (JInt (Z.of_nat (length m))) st)]
      | Some (NScal (JStr s)) => [Ok (push_val (JInt (Z.of_nat (length s))) st)]
      | _ => [fail st]
      end
  | OEmpty =>
      match top_addr st, top_node st with
      | Some t, Some (NArr _) => [Ok (set_node t (NArr []) st)]
      | Some t, Some (NObj _) => [Ok (set_node t (NObj []) st)]
      | _, _ => [fail st]
      end
  | OGet arg =>
      match top_node st with
      | Some (NObj m) =>
          match alookup arg m with
          | Some a => [Ok (push_addr a st)]
          | None => [fail st]
          end
      | Some (NArr l) =>
          match arg_index (length l) arg with
          | Some i => match nth_error l i with
                      | Some a => [Ok (push_addr a st)]
                      | None => [fail st]
                      end
          | None => [fail st]
          end
      | _ => [fail st]
      end
  | OSet arg =>
      match top_addr st, top_node st, prev_addr st, prev_node st with
      | Some t, Some _, Some p, Some (NObj m) => guard_cyc p (set_node p (NObj (aset arg t m)) st) st
      | Some t, Some _, Some p, Some (NArr l) =>
          match arg_index (length l) arg with
          | Some i => guard_cyc p (set_node p (NArr (upd l i t)) st) st
          | None => [fail st]
          end
      | _, _, _, _ => [fail st]
      end
  | OB64Load =>
      match top_node st with
      | Some (NScal (JStr s)) =>
          match b64url_raw s with
          | None => [fail st]
          | Some b =>
              match parse_any b with
              | None => [fail st]
              | Some v =>
                  if bytes_eqb (b64url_enc b) s then [Ok (push_val v st)]
                  else [fail st; Ok (push_val v st)]            (* non-canonical text: silent *)
              end
          end
      | _ => [fail st]
      end
  | OB64Dump =>
      match top_addr st with
      | None => [fail st]
      | Some t =>
          match value (hp st) t with
          | None => [fail st]
          | Some v =>
              let r := Ok (push_val (JStr (b64url_enc (dump v))) st) in
              if is_container v then [r] else [fail st; r]       (* scalars: see notes *)
          end
      end
  end.

Definition next_is_assert (nxt : option opt) : bool :=
  match nxt with Some o => is_assert o | None => false end.

(* [nxt]: the option after [o], if any *)
Definition step (st : state) (o : opt) (nxt : option opt) : list outcome :=
  match o with
  | OAssert a => step_assert a st
  | ONot =>
      (if inv st then [fail st] else []) ++
      (if next_is_assert nxt then [Ok (set_inv true st)]
       else [fail st; Ok (set_inv true st)])                     (* no assertion follows: silent *)
  | _ =>
      if inv st then fail st :: step_plain (set_inv false st) o  (* -X before a non-assertion: silent *)
      else step_plain st o
  end.

(* ------------------------------------------------------------------ programs *)

Definition result := (N * bytes * files_t)%type.

Fixpoint runs_from (st : state) (i : nat) (p : list opt) : list result :=
  match p with
  | [] => [(0, out st, files st)]
  | o :: rest =>
      flat_map (fun r => match r with
                         | Fail fs => [(N.of_nat (S i), out st, fs)]
                         | Ok st' => runs_from st' (S i) rest
                         end) (step st o (hd_error rest))
  end.

(* every (exit status, stdout, files) the manual allows for the program *)
Definition runs (p : list opt) : list result := runs_from init 0 p.

(* the first reading everywhere *)
Definition run (p : list opt) : result := hd (0, [], []) (runs p).

(* entry points of the extracted driver (distinctive names: the extraction is one flat file) *)
Definition fmt_runs : list opt -> list result := runs.
Definition fmt_parse_index : bytes -> option Z := parse_index.
